/-
  C01 tight, part 6: the walk through the tokenizer with the invariant `PD n d`
  (see `TightState.lean`).
-/
import Bashlex.Props.C01.TightState

namespace Bashlex.C01
open Bashlex Bashlex.M Bashlex.C10 Bashlex.C11
set_option linter.unusedSimpArgs false
set_option linter.unusedVariables false

/-! ### here-documents -/

theorem pd_readline (b : Bool) (n : Nat) (d : List Char) : PSat n d (readline b) := by
  unfold readline; (try simp only []); pd_walk
macro_rules | `(tactic| pd_atom) => `(tactic| exact pd_readline _ _ _)

theorem pd_makeheredoc (id : Nat) (kill : Bool) (n : Nat) (d : List Char) :
    PSat n d (makeheredoc id kill) := by
  unfold makeheredoc; (try simp only []); pd_walk
macro_rules | `(tactic| pd_atom) => `(tactic| exact pd_makeheredoc _ _ _ _)

theorem pd_gatherheredocuments (n : Nat) (d : List Char) : PSat n d gatherheredocuments := by
  unfold gatherheredocuments; (try simp only []); pd_walk
macro_rules | `(tactic| pd_atom) => `(tactic| exact pd_gatherheredocuments _ _)

/-! ### `_parse_matched_pair`, `_parse_comsub` -/

theorem pd_mpInit (P : MPParams) (n : Nat) (d : List Char) : PSat n d (mpInit P) := by
  unfold mpInit; (try simp only []); pd_walk
macro_rules | `(tactic| pd_atom) => `(tactic| exact pd_mpInit _ _ _)

theorem pd_mpPre (P : MPParams) (lfc : Bool) (st : MPState) (n : Nat) (d : List Char) :
    PSat n d (mpPre P lfc st) := by
  unfold mpPre; (try simp only []); pd_walk
macro_rules | `(tactic| pd_atom) => `(tactic| exact pd_mpPre _ _ _ _ _)

theorem pd_handledollarword {pmp : MPParams → M Str} {pcs : CSParams → M Str}
    (hpmp : ∀ P n d, PSat n d (pmp P)) (hpcs : ∀ P n d, PSat n d (pcs P)) (P : MPParams)
    (rdquote : Bool) (c : Char) (n : Nat) (d : List Char) :
    PSat n d (handledollarword pmp pcs P rdquote c) := by
  unfold handledollarword; (try simp only []); pd_walk

theorem pd_mpPost {pmp : MPParams → M Str} {pcs : CSParams → M Str}
    (hpmp : ∀ P n d, PSat n d (pmp P)) (hpcs : ∀ P n d, PSat n d (pcs P)) (P : MPParams)
    (rdquote : Bool) (st : MPState) (c : Char) (n : Nat) (d : List Char) :
    PSat n d (mpPost pmp pcs P rdquote st c) := by
  have hd := pd_handledollarword hpmp hpcs
  unfold mpPost; (try simp only []); pd_walk

theorem pd_csDelimMatches (st : CSState) (n : Nat) (d : List Char) : PSat n d (csDelimMatches st) := by
  unfold csDelimMatches; (try simp only []); pd_walk
macro_rules | `(tactic| pd_atom) => `(tactic| exact pd_csDelimMatches _ _ _)

theorem pd_csA (P : CSParams) (st : CSState) (n : Nat) (d : List Char) : PSat n d (csA P st) := by
  unfold csA; (try simp only []); pd_walk
theorem pd_csB (b : Bool) (st : CSState) (c : Char) (n : Nat) (d : List Char) : PSat n d (csB b st c) := by
  unfold csB; (try simp only []); pd_walk
theorem pd_csC (P : CSParams) (b : Bool) (st : CSState) (c : Char) (n : Nat) (d : List Char) :
    PSat n d (csC P b st c) := by
  unfold csC; (try simp only []); pd_walk
theorem pd_csD (P : CSParams) (st : CSState) (c : Char) (n : Nat) (d : List Char) : PSat n d (csD P st c) := by
  unfold csD; (try simp only []); pd_walk
macro_rules | `(tactic| pd_atom) => `(tactic| exact pd_csA _ _ _ _)
macro_rules | `(tactic| pd_atom) => `(tactic| exact pd_csB _ _ _ _ _)
macro_rules | `(tactic| pd_atom) => `(tactic| exact pd_csC _ _ _ _ _ _)
macro_rules | `(tactic| pd_atom) => `(tactic| exact pd_csD _ _ _ _ _)

theorem pd_csPre (P : CSParams) (b : Bool) (st : CSState) (n : Nat) (d : List Char) :
    PSat n d (csPre P b st) := by
  unfold csPre; (try simp only []); pd_walk
macro_rules | `(tactic| pd_atom) => `(tactic| exact pd_csPre _ _ _ _ _)

theorem pd_csPost {pmp : MPParams → M Str} {pcs : CSParams → M Str}
    (hpmp : ∀ P n d, PSat n d (pmp P)) (hpcs : ∀ P n d, PSat n d (pcs P)) (P : CSParams)
    (st : CSState) (c : Char) (n : Nat) (d : List Char) : PSat n d (csPost pmp pcs P st c) := by
  unfold csPost; (try simp only []); pd_walk

/-- the two mutually recursive scanners, by induction on the depth fuel -/
theorem pd_pmp_pcs : ∀ fuel, (∀ P n d, PSat n d (parseMatchedPair fuel P)) ∧
    (∀ P n d, PSat n d (parseComsub fuel P)) := by
  intro fuel
  induction fuel with
  | zero =>
    refine ⟨fun P n d => ?_, fun P n d => ?_⟩
    · unfold parseMatchedPair; pd_walk
    · unfold parseComsub; pd_walk
  | succ fuel ih =>
    obtain ⟨hpmp, hpcs⟩ := ih
    have hpost := pd_mpPost hpmp hpcs
    have hcpost := pd_csPost hpmp hpcs
    refine ⟨fun P n d => ?_, fun P n d => ?_⟩
    · unfold parseMatchedPair; (try simp only []); pd_walk
    · unfold parseComsub; (try simp only []); pd_walk

theorem pd_parseMatchedPair (fuel : Nat) (P : MPParams) (n : Nat) (d : List Char) :
    PSat n d (parseMatchedPair fuel P) := (pd_pmp_pcs fuel).1 P n d
theorem pd_parseComsub (fuel : Nat) (P : CSParams) (n : Nat) (d : List Char) :
    PSat n d (parseComsub fuel P) := (pd_pmp_pcs fuel).2 P n d
macro_rules | `(tactic| pd_atom) => `(tactic| exact pd_parseMatchedPair _ _ _ _)
macro_rules | `(tactic| pd_atom) => `(tactic| exact pd_parseComsub _ _ _ _)

/-! ### words -/

theorem pd_isAssignment (s : Str) (n : Nat) (d : List Char) : PSat n d (isAssignment s) := by
  unfold isAssignment; (try simp only []); pd_walk
macro_rules | `(tactic| pd_atom) => `(tactic| exact pd_isAssignment _ _ _)

theorem pd_specialcasetokens (s : Str) (n : Nat) (d : List Char) : PSat n d (specialcasetokens s) := by
  unfold specialcasetokens; (try simp only []); pd_walk
macro_rules | `(tactic| pd_atom) => `(tactic| exact pd_specialcasetokens _ _ _)

theorem pd_handleshellquote (st : RWState) (c : Char) (n : Nat) (d : List Char) :
    PSat n d (handleshellquote st c) := by
  unfold handleshellquote; (try simp only []); pd_walk
macro_rules | `(tactic| pd_atom) => `(tactic| exact pd_handleshellquote _ _ _ _)

theorem pd_handleshellexp (st : RWState) (c : Char) (cd : Option Char) (n : Nat) (d : List Char) :
    PSat n d (handleshellexp st c cd) := by
  unfold handleshellexp; (try simp only []); pd_walk
macro_rules | `(tactic| pd_atom) => `(tactic| exact pd_handleshellexp _ _ _ _ _)

set_option maxHeartbeats 1000000 in
theorem pd_readtokenwordStep (st : RWState) (n : Nat) (d : List Char) : PSat n d (readtokenwordStep st) := by
  unfold readtokenwordStep; (try simp only []); pd_walk
macro_rules | `(tactic| pd_atom) => `(tactic| exact pd_readtokenwordStep _ _ _)

theorem pd_discardUntil (c : Char) (n : Nat) (d : List Char) : PSat n d (discardUntil c) := by
  unfold discardUntil; (try simp only []); pd_walk
macro_rules | `(tactic| pd_atom) => `(tactic| exact pd_discardUntil _ _ _)

theorem pd_tokentypeOfChar (c : Char) (n : Nat) (d : List Char) : PSat n d (tokentypeOfChar c) := by
  unfold tokentypeOfChar; (try simp only []); pd_walk
macro_rules | `(tactic| pd_atom) => `(tactic| exact pd_tokentypeOfChar _ _ _)

theorem pd_readtokenMeta (c : Char) (n : Nat) (d : List Char) : PSat n d (readtokenMeta c) := by
  unfold readtokenMeta; (try simp only []); pd_walk
macro_rules | `(tactic| pd_atom) => `(tactic| exact pd_readtokenMeta _ _ _)

end Bashlex.C01
