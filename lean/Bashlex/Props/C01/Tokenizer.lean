/-
  C01, part 8b: the walk through `Model/Tokenizer.lean` (see `TokExn.lean`).
-/
import Bashlex.Props.C01.TokExn

namespace Bashlex.C01
open Bashlex Bashlex.M
set_option linter.unusedSimpArgs false
set_option linter.unusedVariables false

/-! ### tape access -/

theorem tok_getc (rqn : Bool) : TSat (getc rqn) := by
  unfold getc; (try simp only []); tok_walk
macro_rules | `(tactic| tok_atom) => `(tactic| exact tok_getc _)

theorem tok_ungetc (c : Option Char) : TSat (ungetc c) := by
  unfold ungetc; (try simp only []); tok_walk
macro_rules | `(tactic| tok_atom) => `(tactic| exact tok_ungetc _)

theorem tok_bumpIdx : TSat bumpIdx := by
  unfold bumpIdx; (try simp only []); tok_walk
macro_rules | `(tactic| tok_atom) => `(tactic| exact tok_bumpIdx)

theorem tok_syn (c : Char) : TSat (syn c) := NoExn.sat (noExn_ask _)
macro_rules | `(tactic| tok_atom) => `(tactic| exact tok_syn _)

theorem tok_shellmeta (c : Char) : TSat (shellmeta c) := by unfold shellmeta; tok_walk
theorem tok_shellquote (c : Char) : TSat (shellquote c) := by unfold shellquote; tok_walk
theorem tok_shellexp (c : Char) : TSat (shellexp c) := by unfold shellexp; tok_walk
theorem tok_shellbreak (c : Char) : TSat (shellbreak c) := by unfold shellbreak; tok_walk
macro_rules | `(tactic| tok_atom) => `(tactic| exact tok_shellmeta _)
macro_rules | `(tactic| tok_atom) => `(tactic| exact tok_shellquote _)
macro_rules | `(tactic| tok_atom) => `(tactic| exact tok_shellexp _)
macro_rules | `(tactic| tok_atom) => `(tactic| exact tok_shellbreak _)

theorem tok_peekc (rqn : Bool) : TSat (peekc rqn) := by
  unfold peekc; (try simp only []); tok_walk
macro_rules | `(tactic| tok_atom) => `(tactic| exact tok_peekc _)

theorem tok_recordpos (rel : Nat) : TSat (recordpos rel) := by
  unfold recordpos; tok_walk
macro_rules | `(tactic| tok_atom) => `(tactic| exact tok_recordpos _)

theorem tok_matchedPairError {α : Type} (c : Char) : TSat (matchedPairError c : M α) := by
  unfold matchedPairError; tok_walk
macro_rules | `(tactic| tok_atom) => `(tactic| exact tok_matchedPairError _)

theorem tok_loopFuel : TSat loopFuel := Sat.pure True.intro
theorem tok_depthFuel : TSat depthFuel := Sat.pure True.intro
macro_rules | `(tactic| tok_atom) => `(tactic| exact tok_loopFuel)
macro_rules | `(tactic| tok_atom) => `(tactic| exact tok_depthFuel)

/-! ### here-documents -/

theorem tok_readline (b : Bool) : TSat (readline b) := by
  unfold readline; (try simp only []); tok_walk
macro_rules | `(tactic| tok_atom) => `(tactic| exact tok_readline _)

theorem tok_makeheredoc (id : Nat) (kill : Bool) : TSat (makeheredoc id kill) := by
  unfold makeheredoc; (try simp only []); tok_walk
macro_rules | `(tactic| tok_atom) => `(tactic| exact tok_makeheredoc _ _)

/-- **hGather**: `gatherheredocuments` raises only `TokExn` -/
theorem tok_gatherheredocuments : TSat gatherheredocuments := by
  unfold gatherheredocuments; (try simp only []); tok_walk
macro_rules | `(tactic| tok_atom) => `(tactic| exact tok_gatherheredocuments)

/-! ### `_parse_matched_pair`, `_parse_comsub` -/

theorem tok_pushDelimiter (c : Char) : TSat (pushDelimiter c) := by unfold pushDelimiter; tok_walk
theorem tok_popDelimiter : TSat popDelimiter := by unfold popDelimiter; tok_walk
theorem tok_currentDelimiter : TSat currentDelimiter := by unfold currentDelimiter; tok_walk
macro_rules | `(tactic| tok_atom) => `(tactic| exact tok_pushDelimiter _)
macro_rules | `(tactic| tok_atom) => `(tactic| exact tok_popDelimiter)
macro_rules | `(tactic| tok_atom) => `(tactic| exact tok_currentDelimiter)

theorem tok_mpInit (P : MPParams) : TSat (mpInit P) := by
  unfold mpInit; (try simp only []); tok_walk
macro_rules | `(tactic| tok_atom) => `(tactic| exact tok_mpInit _)

theorem tok_mpPre (P : MPParams) (lfc : Bool) (st : MPState) : TSat (mpPre P lfc st) := by
  unfold mpPre; (try simp only []); tok_walk
macro_rules | `(tactic| tok_atom) => `(tactic| exact tok_mpPre _ _ _)

theorem tok_handledollarword {pmp : MPParams → M Str} {pcs : CSParams → M Str}
    (hpmp : ∀ P, TSat (pmp P)) (hpcs : ∀ P, TSat (pcs P)) (P : MPParams) (rdquote : Bool) (c : Char) :
    TSat (handledollarword pmp pcs P rdquote c) := by
  unfold handledollarword; (try simp only []); tok_walk

theorem tok_mpPost {pmp : MPParams → M Str} {pcs : CSParams → M Str}
    (hpmp : ∀ P, TSat (pmp P)) (hpcs : ∀ P, TSat (pcs P)) (P : MPParams) (rdquote : Bool)
    (st : MPState) (c : Char) : TSat (mpPost pmp pcs P rdquote st c) := by
  have hd := tok_handledollarword hpmp hpcs
  unfold mpPost; (try simp only []); tok_walk

theorem tok_csDelimMatches (st : CSState) : TSat (csDelimMatches st) := by
  unfold csDelimMatches; (try simp only []); tok_walk
macro_rules | `(tactic| tok_atom) => `(tactic| exact tok_csDelimMatches _)

theorem tok_csA (P : CSParams) (st : CSState) : TSat (csA P st) := by
  unfold csA; (try simp only []); tok_walk
theorem tok_csB (b : Bool) (st : CSState) (c : Char) : TSat (csB b st c) := by
  unfold csB; (try simp only []); tok_walk
theorem tok_csC (P : CSParams) (b : Bool) (st : CSState) (c : Char) : TSat (csC P b st c) := by
  unfold csC; (try simp only []); tok_walk
theorem tok_csD (P : CSParams) (st : CSState) (c : Char) : TSat (csD P st c) := by
  unfold csD; (try simp only []); tok_walk
macro_rules | `(tactic| tok_atom) => `(tactic| exact tok_csA _ _)
macro_rules | `(tactic| tok_atom) => `(tactic| exact tok_csB _ _ _)
macro_rules | `(tactic| tok_atom) => `(tactic| exact tok_csC _ _ _ _)
macro_rules | `(tactic| tok_atom) => `(tactic| exact tok_csD _ _ _)

theorem tok_csPre (P : CSParams) (b : Bool) (st : CSState) : TSat (csPre P b st) := by
  unfold csPre; (try simp only []); tok_walk
macro_rules | `(tactic| tok_atom) => `(tactic| exact tok_csPre _ _ _)

theorem tok_csPost {pmp : MPParams → M Str} {pcs : CSParams → M Str}
    (hpmp : ∀ P, TSat (pmp P)) (hpcs : ∀ P, TSat (pcs P)) (P : CSParams)
    (st : CSState) (c : Char) : TSat (csPost pmp pcs P st c) := by
  unfold csPost; (try simp only []); tok_walk

/-- the two mutually recursive scanners, by induction on the depth fuel -/
theorem tok_pmp_pcs : ∀ fuel, (∀ P, TSat (parseMatchedPair fuel P)) ∧ (∀ P, TSat (parseComsub fuel P)) := by
  intro fuel
  induction fuel with
  | zero =>
    refine ⟨fun P => ?_, fun P => ?_⟩
    · unfold parseMatchedPair; tok_walk
    · unfold parseComsub; tok_walk
  | succ fuel ih =>
    obtain ⟨hpmp, hpcs⟩ := ih
    have hpost := tok_mpPost hpmp hpcs
    have hcpost := tok_csPost hpmp hpcs
    refine ⟨fun P => ?_, fun P => ?_⟩
    · unfold parseMatchedPair; (try simp only []); tok_walk
    · unfold parseComsub; (try simp only []); tok_walk

theorem tok_parseMatchedPair (fuel : Nat) (P : MPParams) : TSat (parseMatchedPair fuel P) :=
  (tok_pmp_pcs fuel).1 P
theorem tok_parseComsub (fuel : Nat) (P : CSParams) : TSat (parseComsub fuel P) :=
  (tok_pmp_pcs fuel).2 P
macro_rules | `(tactic| tok_atom) => `(tactic| exact tok_parseMatchedPair _ _)
macro_rules | `(tactic| tok_atom) => `(tactic| exact tok_parseComsub _ _)

/-! ### tokens -/

theorem tok_createtoken (ty : TokType) (v : TVal) (flags : WordFlags) : TSat (createtoken ty v flags) := by
  unfold createtoken; (try simp only []); tok_walk
macro_rules | `(tactic| tok_atom) => `(tactic| exact tok_createtoken _ _ _)

theorem tok_isAssignment (s : Str) : TSat (isAssignment s) := by
  unfold isAssignment; (try simp only []); tok_walk
macro_rules | `(tactic| tok_atom) => `(tactic| exact tok_isAssignment _)

theorem tok_specialcasetokens (s : Str) : TSat (specialcasetokens s) := by
  unfold specialcasetokens; (try simp only []); tok_walk
macro_rules | `(tactic| tok_atom) => `(tactic| exact tok_specialcasetokens _)

theorem tok_handleshellquote (st : RWState) (c : Char) : TSat (handleshellquote st c) := by
  unfold handleshellquote; (try simp only []); tok_walk
macro_rules | `(tactic| tok_atom) => `(tactic| exact tok_handleshellquote _ _)

theorem tok_handleshellexp (st : RWState) (c : Char) (cd : Option Char) :
    TSat (handleshellexp st c cd) := by
  unfold handleshellexp; (try simp only []); tok_walk
macro_rules | `(tactic| tok_atom) => `(tactic| exact tok_handleshellexp _ _ _)

theorem tok_readtokenwordStep (st : RWState) : TSat (readtokenwordStep st) := by
  unfold readtokenwordStep; (try simp only []); tok_walk
macro_rules | `(tactic| tok_atom) => `(tactic| exact tok_readtokenwordStep _)

set_option maxHeartbeats 1000000 in
theorem tok_finishWord (st : RWState) : TSat (finishWord st) := by
  unfold finishWord; (try simp only []); tok_walk
macro_rules | `(tactic| tok_atom) => `(tactic| exact tok_finishWord _)

theorem tok_readtokenword (c : Char) : TSat (readtokenword c) := by
  unfold readtokenword; (try simp only []); tok_walk
macro_rules | `(tactic| tok_atom) => `(tactic| exact tok_readtokenword _)

theorem tok_discardUntil (c : Char) : TSat (discardUntil c) := by
  unfold discardUntil; (try simp only []); tok_walk
macro_rules | `(tactic| tok_atom) => `(tactic| exact tok_discardUntil _)

theorem tok_tokentypeOfChar (c : Char) : TSat (tokentypeOfChar c) := by
  unfold tokentypeOfChar; (try simp only []); tok_walk
macro_rules | `(tactic| tok_atom) => `(tactic| exact tok_tokentypeOfChar _)

theorem tok_readtokenMeta (c : Char) : TSat (readtokenMeta c) := by
  unfold readtokenMeta; (try simp only []); tok_walk
macro_rules | `(tactic| tok_atom) => `(tactic| exact tok_readtokenMeta _)

theorem tok_readtoken : TSat readtoken := by
  unfold readtoken; (try simp only []); tok_walk
macro_rules | `(tactic| tok_atom) => `(tactic| exact tok_readtoken)

/-- **hTok**: `nextToken` raises only `TokExn` -/
theorem tok_nextToken : TSat nextToken := by
  unfold nextToken; (try simp only []); tok_walk

end Bashlex.C01
