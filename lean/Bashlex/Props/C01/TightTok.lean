/-
  C01 tight, part 2: the walk through `Model/Tokenizer.lean` with the discipline `TokExn1`
  (see `TightExn.lean`).  Functions without an excluded raise site are walked as in
  `Tokenizer.lean`; the others get a pre-condition on their parameters or an invariant of their
  loop state.
-/
import Bashlex.Props.C01.TightExn

namespace Bashlex.C01
open Bashlex Bashlex.M
set_option linter.unusedSimpArgs false
set_option linter.unusedVariables false

/-! ### tape access, syntax classes -/

theorem t1_getc (rqn : Bool) : TSat1 (getc rqn) := by
  unfold getc; (try simp only []); t1_walk
macro_rules | `(tactic| t1_atom) => `(tactic| exact t1_getc _)

theorem t1_ungetc (c : Option Char) : TSat1 (ungetc c) := by
  unfold ungetc; (try simp only []); t1_walk
macro_rules | `(tactic| t1_atom) => `(tactic| exact t1_ungetc _)

theorem t1_bumpIdx : TSat1 bumpIdx := by
  unfold bumpIdx; (try simp only []); t1_walk
macro_rules | `(tactic| t1_atom) => `(tactic| exact t1_bumpIdx)

theorem t1_syn (c : Char) : TSat1 (syn c) := NoExn.sat (noExn_ask _)
macro_rules | `(tactic| t1_atom) => `(tactic| exact t1_syn _)

/-- the answer of a syntax-class query is `synClass c`, in every environment -/
theorem sat1_syn (c : Char) : Sat (syn c) (fun r => r = synClass c) TokExn1 := by
  refine sat_conj (F := fun _ => True) ?_ (t1_syn c)
  intro l e
  show match (M.liftQ (Q.query (.syntab c))).run l e with
    | (.ok (a, _), _) => a = synClass c | (.error x, _) => True
  have : (M.liftQ (Q.query (.syntab c))).run l e =
      (.ok ((Q.run (Q.query (.syntab c)) e).1, l), (Q.run (Q.query (.syntab c)) e).2) := by
    show Q.run (Q.bind (Q.query (.syntab c)) _) e = _
    rw [Q.run_bind]; rfl
  rw [this]
  rfl

theorem sat1_shellmeta (c : Char) : Sat (shellmeta c) (fun r => r = (synClass c).metac) TokExn1 := by
  unfold shellmeta
  exact Sat.bind (sat1_syn c) (fun r hr => Sat.pure (by rw [hr]))
theorem sat1_shellquote (c : Char) : Sat (shellquote c) (fun r => r = (synClass c).quote) TokExn1 := by
  unfold shellquote
  exact Sat.bind (sat1_syn c) (fun r hr => Sat.pure (by rw [hr]))
theorem sat1_shellexp (c : Char) : Sat (shellexp c) (fun r => r = (synClass c).exp) TokExn1 := by
  unfold shellexp
  exact Sat.bind (sat1_syn c) (fun r hr => Sat.pure (by rw [hr]))
theorem sat1_shellbreak (c : Char) : Sat (shellbreak c) (fun r => r = (synClass c).brk) TokExn1 := by
  unfold shellbreak
  exact Sat.bind (sat1_syn c) (fun r hr => Sat.pure (by rw [hr]))

theorem t1_shellmeta (c : Char) : TSat1 (shellmeta c) := (sat1_shellmeta c).weaken (fun _ _ => True.intro) (fun _ h => h)
theorem t1_shellquote (c : Char) : TSat1 (shellquote c) := (sat1_shellquote c).weaken (fun _ _ => True.intro) (fun _ h => h)
theorem t1_shellexp (c : Char) : TSat1 (shellexp c) := (sat1_shellexp c).weaken (fun _ _ => True.intro) (fun _ h => h)
theorem t1_shellbreak (c : Char) : TSat1 (shellbreak c) := (sat1_shellbreak c).weaken (fun _ _ => True.intro) (fun _ h => h)
macro_rules | `(tactic| t1_atom) => `(tactic| exact t1_shellmeta _)
macro_rules | `(tactic| t1_atom) => `(tactic| exact t1_shellquote _)
macro_rules | `(tactic| t1_atom) => `(tactic| exact t1_shellexp _)
macro_rules | `(tactic| t1_atom) => `(tactic| exact t1_shellbreak _)
macro_rules | `(tactic| t1_bindv) => `(tactic| refine Sat.bind (sat1_shellmeta _) (fun _ _ => ?_))
macro_rules | `(tactic| t1_bindv) => `(tactic| refine Sat.bind (sat1_shellquote _) (fun _ _ => ?_))
macro_rules | `(tactic| t1_bindv) => `(tactic| refine Sat.bind (sat1_shellexp _) (fun _ _ => ?_))
macro_rules | `(tactic| t1_bindv) => `(tactic| refine Sat.bind (sat1_shellbreak _) (fun _ _ => ?_))

theorem t1_peekc (rqn : Bool) : TSat1 (peekc rqn) := by
  unfold peekc; (try simp only []); t1_walk
macro_rules | `(tactic| t1_atom) => `(tactic| exact t1_peekc _)

theorem t1_recordpos (rel : Nat) : TSat1 (recordpos rel) := by
  unfold recordpos; t1_walk
macro_rules | `(tactic| t1_atom) => `(tactic| exact t1_recordpos _)

theorem t1_matchedPairError {α : Type} (c : Char) : TSat1 (matchedPairError c : M α) := by
  unfold matchedPairError; t1_walk
macro_rules | `(tactic| t1_atom) => `(tactic| exact t1_matchedPairError _)

theorem t1_loopFuel : TSat1 loopFuel := Sat.pure True.intro
theorem t1_depthFuel : TSat1 depthFuel := Sat.pure True.intro
macro_rules | `(tactic| t1_atom) => `(tactic| exact t1_loopFuel)
macro_rules | `(tactic| t1_atom) => `(tactic| exact t1_depthFuel)

/-! ### here-documents (the three `IndexError|makeheredoc` sites stay: one of them depends on the
    redirect store) -/

theorem t1_readline (b : Bool) : TSat1 (readline b) := by
  unfold readline; (try simp only []); t1_walk
macro_rules | `(tactic| t1_atom) => `(tactic| exact t1_readline _)

theorem t1_makeheredoc (id : Nat) (kill : Bool) : TSat1 (makeheredoc id kill) := by
  unfold makeheredoc; (try simp only []); t1_walk
macro_rules | `(tactic| t1_atom) => `(tactic| exact t1_makeheredoc _ _)

/-- **hGather**: `gatherheredocuments` raises only `TokExn1` -/
theorem t1_gatherheredocuments : TSat1 gatherheredocuments := by
  unfold gatherheredocuments; (try simp only []); t1_walk
macro_rules | `(tactic| t1_atom) => `(tactic| exact t1_gatherheredocuments)

/-! ### delimiter stack -/

theorem t1_pushDelimiter (c : Char) : TSat1 (pushDelimiter c) := by unfold pushDelimiter; t1_walk
theorem t1_popDelimiter : TSat1 popDelimiter := by unfold popDelimiter; t1_walk
theorem t1_currentDelimiter : TSat1 currentDelimiter := by unfold currentDelimiter; t1_walk
macro_rules | `(tactic| t1_atom) => `(tactic| exact t1_pushDelimiter _)
macro_rules | `(tactic| t1_atom) => `(tactic| exact t1_popDelimiter)
macro_rules | `(tactic| t1_atom) => `(tactic| exact t1_currentDelimiter)

/-! ### `_parse_matched_pair`: the parameter invariant -/

/-- what every call of `_parse_matched_pair` satisfies: `parsingcommand` is passed only by the
    backquote call of `handleshellquote` (so `doublequotes` is a string there: no `TypeError`),
    `arraysub` is never passed, and `open == close` only for quote characters -/
structure MPOK (P : MPParams) : Prop where
  pc : P.parsingcommand = true → P.doublequotes.isSome = true ∧ P.opn = '`' ∧ P.close = '`'
  arr : P.arraysub = false
  oc : P.opn = P.close → isDolOpen P.opn = false

/-- what every call of `_parse_comsub` satisfies -/
def CSOK (P : CSParams) : Prop := P.opn = P.close → isDolOpen P.opn = false

theorem t1_mpInit (P : MPParams) (hP : MPOK P) : TSat1 (mpInit P) := by
  unfold mpInit; (try simp only [])
  refine Sat.ite (fun h => ?_) (fun _ => ?_)
  · have := (hP.pc h).1
    split
    · rename_i hd; rw [hd] at this; cases this
    · t1_walk
  · t1_walk

theorem t1_mpPre (P : MPParams) (lfc : Bool) (st : MPState) : TSat1 (mpPre P lfc st) := by
  unfold mpPre; (try simp only []); t1_walk
macro_rules | `(tactic| t1_atom) => `(tactic| exact t1_mpPre _ _ _)

end Bashlex.C01
