/-
  C01, part 9: the scanners of `subst.py` that are structurally recursive on fuel get enough of
  it: their results do not depend on the fuel once it covers the rest of the string (and the
  fuel the model passes, `len + 1`, always does).
-/
import Bashlex.Model.Subst

namespace Bashlex.C01
open Bashlex

theorem scanName_fuel (s : Str) : ∀ f1 f2 z, s.length < z + f1 → s.length < z + f2 →
    scanName s f1 z = scanName s f2 z := by
  intro f1
  induction f1 with
  | zero =>
    intro f2 z h1 _
    have hz : s[z]? = none := List.getElem?_eq_none (by omega)
    cases f2 with
    | zero => rfl
    | succ f2 => simp [scanName, hz]
  | succ f1 ih =>
    intro f2 z h1 h2
    cases f2 with
    | zero =>
      have hz : s[z]? = none := List.getElem?_eq_none (by omega)
      simp [scanName, hz]
    | succ f2 =>
      unfold scanName
      split
      · rfl
      · split
        · rfl
        · exact ih f2 (z + 1) (by omega) (by omega)

/-- more fuel than the model passes changes nothing -/
theorem scanName_adequate (s : Str) (z k : Nat) :
    scanName s (s.length + 1 + k) z = scanName s (s.length + 1) z :=
  scanName_fuel s _ _ z (by omega) (by omega)

theorem tildeScan_fuel (s : Str) (b : Bool) : ∀ f1 f2 i, s.length < i + f1 → s.length < i + f2 →
    tildeScan s b f1 i = tildeScan s b f2 i := by
  intro f1
  induction f1 with
  | zero =>
    intro f2 i h1 _
    have hz : s[i]? = none := List.getElem?_eq_none (by omega)
    cases f2 with
    | zero => rfl
    | succ f2 => simp [tildeScan, hz]
  | succ f1 ih =>
    intro f2 i h1 h2
    cases f2 with
    | zero =>
      have hz : s[i]? = none := List.getElem?_eq_none (by omega)
      simp [tildeScan, hz]
    | succ f2 =>
      unfold tildeScan
      split
      · rfl
      · split
        · rfl
        · split
          · rfl
          · split
            · rfl
            · exact ih f2 (i + 1) (by omega) (by omega)

theorem tildeScan_adequate (s : Str) (b : Bool) (i k : Nat) :
    tildeScan s b (s.length + 1 + k) i = tildeScan s b (s.length + 1) i :=
  tildeScan_fuel s b _ _ i (by omega) (by omega)

theorem stringextract_go_fuel (s : Str) (ch : Char) : ∀ f1 f2 i, s.length < i + f1 → s.length < i + f2 →
    stringextract.go s ch f1 i = stringextract.go s ch f2 i := by
  intro f1
  induction f1 with
  | zero =>
    intro f2 i h1 _
    have hz : s[i]? = none := List.getElem?_eq_none (by omega)
    cases f2 with
    | zero => rfl
    | succ f2 => simp [stringextract.go, hz]
  | succ f1 ih =>
    intro f2 i h1 h2
    cases f2 with
    | zero =>
      have hz : s[i]? = none := List.getElem?_eq_none (by omega)
      simp [stringextract.go, hz]
    | succ f2 =>
      unfold stringextract.go
      split
      · rfl
      · split
        · split
          · exact ih f2 (i + 1) (by omega) (by omega)
          · rfl
        · split
          · rfl
          · exact ih f2 (i + 1) (by omega) (by omega)

/-- `_stringextract` with more fuel than `len + 1` returns the same index -/
theorem stringextract_adequate (s : Str) (ch : Char) (i k : Nat) :
    stringextract.go s ch (s.length + 1 + k) i = stringextract s i ch :=
  stringextract_go_fuel s ch _ _ i (by omega) (by omega)

end Bashlex.C01
