/-
  C01 tight, part 13 (termination, one loop): `gatherheredocuments` never runs out of fuel.
  Its fuel is `len(redirstack) + 1`, every iteration pops one entry and `makeheredoc` does not
  touch `redirstack` (frame walk with the invariant `RS r` = "redirstack = r").  Holds from every
  state, so the fact is state-agnostic (`Sat`).
-/
import Bashlex.Props.C01.TightKParse

namespace Bashlex.C01
open Bashlex Bashlex.M Bashlex.C10 Bashlex.C11
set_option linter.unusedSimpArgs false
set_option linter.unusedVariables false

def RS (r : List (Nat × Bool)) (l : Local) (_ : Env) : Prop := l.redirstack = r

/-- no constraint on exceptions in the frame walk -/
def ETrue (_ : Exn) : Prop := True

abbrev RSat {α : Type} (r : List (Nat × Bool)) (m : M α) : Prop := HT (RS r) m (fun _ => RS r) ETrue

syntax "rs_atom" : tactic
macro_rules | `(tactic| rs_atom) => `(tactic| assumption)

theorem rs_ask (q : Query) (r : List (Nat × Bool)) : RSat r (M.ask q) := by
  intro l e h; rw [C10.run_ask]; exact h
macro_rules | `(tactic| rs_atom) => `(tactic| exact rs_ask _ _)

theorem hrs_ask_bind {β : Type} {r : List (Nat × Bool)} {l0 : Local} {q : Query}
    {k : Answer q → M β} {Q : β → Local → Env → Prop}
    (h : ∀ a, HTQAt (RS r) l0 (k a) Q ETrue) : HTQAt (RS r) l0 (M.ask q >>= k) Q ETrue := by
  intro l e ⟨hl, hp⟩
  rw [M.run_bind, C10.run_ask]
  exact h _ l _ ⟨hl, hp⟩

macro "rs_step" : tactic => `(tactic| first
  | with_reducible exact HT.pure (fun _ _ h => h)
  | with_reducible refine HT.ite (fun _ => ?_) (fun _ => ?_)
  | with_reducible refine HTQAt.ite (fun _ => ?_) (fun _ => ?_)
  | with_reducible refine HTQAt.ite_bind (fun _ => ?_) (fun _ => ?_)
  | with_reducible rs_atom
  | with_reducible refine ht_pure_bind ?_
  | with_reducible refine ht_bind_assoc ?_
  | with_reducible refine ht_ite_bind (fun _ => ?_) (fun _ => ?_)
  | ((with_reducible apply HT.bind); (focus (with_reducible rs_atom)); intro _)
  | with_reducible refine HT.get_bind (fun _ => ?_)
  | ((with_reducible refine htq_modify_bind ?_ ?_); focus (intro _ _ h; exact h))
  | ((with_reducible refine HT.modify ?_); (intro _ _ h; exact h))
  | ((with_reducible refine HTQAt.set_bind ?_ ?_); focus (intro _ h; exact h))
  | ((with_reducible refine htq_set ?_); (intro _ h; exact h))
  | ((with_reducible refine HTQAt.foreign_bind ?_); exact True.intro)
  | ((with_reducible refine HTQAt.foreign ?_); exact True.intro)
  | with_reducible refine HTQAt.pure_bind ?_
  | with_reducible refine hrs_ask_bind (fun _ => ?_)
  | with_reducible exact HT.pure (fun _ _ h => h.2)
  | split_head
  | with_reducible refine HTQAt.ofHT ?_
  | ((with_reducible refine ht_foreign_bind ?_); exact True.intro)
  | ((with_reducible refine ht_raise_bind ?_); exact True.intro)
  | ((with_reducible refine HT.raise ?_); exact True.intro)
  | ((with_reducible refine HT.foreign ?_); exact True.intro)
  | ((with_reducible refine HT.bind (Q := fun _ => RS _) (ht_loopI ?_ (fun _ => ?_) _ _) (fun _ => ?_)); focus exact True.intro)
  | ((with_reducible refine ht_loopI ?_ (fun _ => ?_) _ _); focus exact True.intro))

macro "rs_walk" : tactic => `(tactic| repeat' rs_step)

theorem rs_getc (rqn : Bool) (r : List (Nat × Bool)) : RSat r (getc rqn) := by
  unfold getc; (try simp only []); rs_walk
theorem rs_ungetc (c : Option Char) (r : List (Nat × Bool)) : RSat r (ungetc c) := by
  unfold ungetc; (try simp only []); rs_walk
theorem rs_bumpIdx (r : List (Nat × Bool)) : RSat r bumpIdx := by
  unfold bumpIdx; (try simp only []); rs_walk
theorem rs_curIdx (r : List (Nat × Bool)) : RSat r curIdx := by
  unfold curIdx; (try simp only []); rs_walk
theorem rs_tapeLine (r : List (Nat × Bool)) : RSat r tapeLine := by
  unfold tapeLine; (try simp only []); rs_walk
theorem rs_optStrict (r : List (Nat × Bool)) : RSat r optStrict := by
  unfold optStrict; (try simp only []); rs_walk
macro_rules | `(tactic| rs_atom) => `(tactic| exact rs_getc _ _)
macro_rules | `(tactic| rs_atom) => `(tactic| exact rs_ungetc _ _)
macro_rules | `(tactic| rs_atom) => `(tactic| exact rs_bumpIdx _)
macro_rules | `(tactic| rs_atom) => `(tactic| exact rs_curIdx _)
macro_rules | `(tactic| rs_atom) => `(tactic| exact rs_tapeLine _)
macro_rules | `(tactic| rs_atom) => `(tactic| exact rs_optStrict _)

theorem rs_peekc (rqn : Bool) (r : List (Nat × Bool)) : RSat r (peekc rqn) := by
  unfold peekc; (try simp only []); rs_walk
macro_rules | `(tactic| rs_atom) => `(tactic| exact rs_peekc _ _)

theorem rs_loopFuel (r : List (Nat × Bool)) : RSat r loopFuel := HT.pure (fun _ _ h => h)
macro_rules | `(tactic| rs_atom) => `(tactic| exact rs_loopFuel _)

theorem rs_readline (b : Bool) (r : List (Nat × Bool)) : RSat r (readline b) := by
  unfold readline; (try simp only []); rs_walk
macro_rules | `(tactic| rs_atom) => `(tactic| exact rs_readline _ _)

/-- `makeheredoc` does not touch `redirstack` -/
theorem rs_makeheredoc (id : Nat) (kill : Bool) (r : List (Nat × Bool)) : RSat r (makeheredoc id kill) := by
  unfold makeheredoc; (try simp only []); rs_walk

/-! ## the walk through the tokenizer for the exception predicate `FG` (as `Tokenizer.lean`) -/

/-- not the out-of-fuel marker of `gatherheredocuments` -/
def FG (x : Exn) : Prop := x ≠ .outOfFuel "gatherheredocuments"

theorem fg_mkParsingError {m s p} : FG (mkParsingError m s p) := by
  unfold mkParsingError
  split <;> (intro h; cases h)

macro "fexn" : tactic => `(tactic| first
  | exact fg_mkParsingError
  | (intro h; cases h; done)
  | (simp [FG]; done))

abbrev FSat {α : Type} (m : M α) : Prop := Sat m (fun _ => True) FG

syntax "f_atom" : tactic
macro_rules | `(tactic| f_atom) => `(tactic| assumption)
set_option hygiene false in
macro_rules | `(tactic| f_atom) => `(tactic| exact hpmp _)
set_option hygiene false in
macro_rules | `(tactic| f_atom) => `(tactic| exact hpcs _)
set_option hygiene false in
macro_rules | `(tactic| f_atom) => `(tactic| exact hd _ _ _)
set_option hygiene false in
macro_rules | `(tactic| f_atom) => `(tactic| exact hpost _ _ _ _)
set_option hygiene false in
macro_rules | `(tactic| f_atom) => `(tactic| exact hcpost _ _ _)
macro_rules | `(tactic| f_atom) => `(tactic| exact NoExn.sat noExn_get)
macro_rules | `(tactic| f_atom) => `(tactic| exact NoExn.sat (noExn_set _))
macro_rules | `(tactic| f_atom) => `(tactic| exact NoExn.sat (noExn_modify _))
macro_rules | `(tactic| f_atom) => `(tactic| exact NoExn.sat (noExn_ask _))
macro_rules | `(tactic| f_atom) => `(tactic| exact NoExn.sat noExn_curIdx)
macro_rules | `(tactic| f_atom) => `(tactic| exact NoExn.sat noExn_tapeSource)
macro_rules | `(tactic| f_atom) => `(tactic| exact NoExn.sat noExn_tapeLine)
macro_rules | `(tactic| f_atom) => `(tactic| exact NoExn.sat noExn_tapeAdded)
macro_rules | `(tactic| f_atom) => `(tactic| exact NoExn.sat noExn_optStrict)
macro_rules | `(tactic| f_atom) => `(tactic| exact NoExn.sat noExn_optProceed)
macro_rules | `(tactic| f_atom) => `(tactic| exact NoExn.sat (noExn_pure _))

macro "f_walk" : tactic => `(tactic| repeat' (first
  | with_reducible exact Sat.pure True.intro
  | with_reducible refine Sat.ite (fun _ => ?_) (fun _ => ?_)
  | with_reducible f_atom
  | with_reducible refine sat_bindE ?_ (fun _ => ?_)
  | ((with_reducible refine Sat.raise ?_); fexn)
  | ((with_reducible refine Sat.foreign ?_); fexn)
  | ((with_reducible refine sat_loopT ?_ (fun _ => ?_) _ _); focus fexn)
  | split))

/-! ### tape access -/

theorem f_getc (rqn : Bool) : FSat (getc rqn) := by
  unfold getc; (try simp only []); f_walk
macro_rules | `(tactic| f_atom) => `(tactic| exact f_getc _)

theorem f_ungetc (c : Option Char) : FSat (ungetc c) := by
  unfold ungetc; (try simp only []); f_walk
macro_rules | `(tactic| f_atom) => `(tactic| exact f_ungetc _)

theorem f_bumpIdx : FSat bumpIdx := by
  unfold bumpIdx; (try simp only []); f_walk
macro_rules | `(tactic| f_atom) => `(tactic| exact f_bumpIdx)

theorem f_syn (c : Char) : FSat (syn c) := NoExn.sat (noExn_ask _)
macro_rules | `(tactic| f_atom) => `(tactic| exact f_syn _)

theorem f_shellmeta (c : Char) : FSat (shellmeta c) := by unfold shellmeta; f_walk
theorem f_shellquote (c : Char) : FSat (shellquote c) := by unfold shellquote; f_walk
theorem f_shellexp (c : Char) : FSat (shellexp c) := by unfold shellexp; f_walk
theorem f_shellbreak (c : Char) : FSat (shellbreak c) := by unfold shellbreak; f_walk
macro_rules | `(tactic| f_atom) => `(tactic| exact f_shellmeta _)
macro_rules | `(tactic| f_atom) => `(tactic| exact f_shellquote _)
macro_rules | `(tactic| f_atom) => `(tactic| exact f_shellexp _)
macro_rules | `(tactic| f_atom) => `(tactic| exact f_shellbreak _)

theorem f_peekc (rqn : Bool) : FSat (peekc rqn) := by
  unfold peekc; (try simp only []); f_walk
macro_rules | `(tactic| f_atom) => `(tactic| exact f_peekc _)

theorem f_recordpos (rel : Nat) : FSat (recordpos rel) := by
  unfold recordpos; f_walk
macro_rules | `(tactic| f_atom) => `(tactic| exact f_recordpos _)

theorem f_matchedPairError {α : Type} (c : Char) : FSat (matchedPairError c : M α) := by
  unfold matchedPairError; f_walk
macro_rules | `(tactic| f_atom) => `(tactic| exact f_matchedPairError _)

theorem f_loopFuel : FSat loopFuel := Sat.pure True.intro
theorem f_depthFuel : FSat depthFuel := Sat.pure True.intro
macro_rules | `(tactic| f_atom) => `(tactic| exact f_loopFuel)
macro_rules | `(tactic| f_atom) => `(tactic| exact f_depthFuel)

/-! ### here-documents -/

theorem f_readline (b : Bool) : FSat (readline b) := by
  unfold readline; (try simp only []); f_walk
macro_rules | `(tactic| f_atom) => `(tactic| exact f_readline _)

theorem f_makeheredoc (id : Nat) (kill : Bool) : FSat (makeheredoc id kill) := by
  unfold makeheredoc; (try simp only []); f_walk
macro_rules | `(tactic| f_atom) => `(tactic| exact f_makeheredoc _ _)

/-- a loop over `Unit` whose body shortens `redirstack` whenever it iterates -/
theorem ht_loop_measure_rs {body : Unit → M (Unit ⊕ Unit)}
    (hbody : ∀ r, HT (RS r) (body ())
      (fun x l e => match x with
        | .inl _ => ∃ r', r'.length < r.length ∧ RS r' l e
        | .inr _ => True) FG) :
    ∀ fuel r, r.length < fuel →
      HT (RS r) (M.loop "gatherheredocuments" body fuel ()) (fun _ _ _ => True) FG := by
  intro fuel
  induction fuel with
  | zero => intro r h; exact absurd h (Nat.not_lt_zero _)
  | succ n ih =>
    intro r hr
    show HT (RS r) (body () >>= _) _ _
    refine HT.bind (hbody r) (fun x => ?_)
    cases x with
    | inl u =>
      cases u
      intro l e ⟨r', h1, h2⟩
      exact ih r' (by omega) l e h2
    | inr a => exact HT.pure (fun _ _ _ => True.intro)

theorem frs {α : Type} {m : M α} {r : List (Nat × Bool)} (h1 : RSat r m) (h2 : FSat m) :
    HT (RS r) m (fun _ => RS r) FG :=
  HT.weaken (HT.and_sat h1 h2) (fun _ _ h => h) (fun _ _ _ h => h.2) (fun _ h => h.1)

/-- **hGather**: `gatherheredocuments` never runs out of its `len(redirstack) + 1` fuel -/
theorem f_gatherheredocuments : FSat gatherheredocuments := by
  intro l e
  have key : ∀ r, HT (RS r) gatherheredocuments (fun _ _ _ => True) FG := by
    intro r
    unfold gatherheredocuments; (try simp only [])
    refine HT.get_bind (fun l00 => ?_)
    intro l1 e1 ⟨hl, hrs⟩
    subst hl
    have hrs' : l1.redirstack = r := hrs
    have hlen : r.length < l1.redirstack.length + 1 := by rw [hrs']; exact Nat.lt_succ_self _
    refine ht_loop_measure_rs (fun r => ?_) _ r hlen l1 e1 hrs
    refine HT.get_bind (fun l0 => ?_)
    split_head
    · exact HTQAt.ofHT (HT.pure (fun _ _ _ => True.intro))
    · rename_i id kill rest heq
      refine HT.pre (P := fun l e => r = (id, kill) :: rest ∧ RS ((id, kill) :: rest) l e)
        (HT.pre_pure (fun hr => ?_))
        (fun l e h => by obtain ⟨rfl, h⟩ := h; exact ⟨(show l.redirstack = r from h).symm.trans heq, heq⟩)
      subst hr
      have tail : ∀ (f : Local → Local), (∀ l, (f l).redirstack = rest) →
          HT (RS ((id, kill) :: rest)) (do
            modify f
            makeheredoc id kill
            pure (Sum.inl ()) : M (Unit ⊕ Unit))
            (fun x l e => match x with
              | .inl _ => ∃ r', r'.length < ((id, kill) :: rest).length ∧ RS r' l e
              | .inr _ => True) FG := by
        intro f hf
        refine HT.bind (Q := fun _ => RS rest) (HT.modify (fun l e _ => hf l)) (fun _ => ?_)
        refine HT.bind (frs (rs_makeheredoc id kill rest) (f_makeheredoc id kill)) (fun _ => ?_)
        exact HT.pure (fun l e h => ⟨rest, by simp, h⟩)
      refine HT.bind (frs (rs_peekc _ _) (f_peekc _)) (fun p => ?_)
      refine HT.ite (fun _ => ?_) (fun _ => tail _ (fun _ => rfl))
      refine HT.bind (frs (rs_optStrict _) (NoExn.sat noExn_optStrict)) (fun b => ?_)
      refine HT.ite (fun _ => ?_) (fun _ => tail _ (fun _ => rfl))
      exact HT.bind (frs (rs_bumpIdx _) f_bumpIdx) (fun _ => HT.pure (fun _ _ _ => True.intro))
  have h := key l.redirstack l e rfl
  revert h
  rcases gatherheredocuments.run l e with ⟨r, e'⟩
  cases r with
  | ok v => exact fun _ => True.intro
  | error x => exact fun h => h
macro_rules | `(tactic| f_atom) => `(tactic| exact f_gatherheredocuments)

/-! ### `_parse_matched_pair`, `_parse_comsub` -/

theorem f_pushDelimiter (c : Char) : FSat (pushDelimiter c) := by unfold pushDelimiter; f_walk
theorem f_popDelimiter : FSat popDelimiter := by unfold popDelimiter; f_walk
theorem f_currentDelimiter : FSat currentDelimiter := by unfold currentDelimiter; f_walk
macro_rules | `(tactic| f_atom) => `(tactic| exact f_pushDelimiter _)
macro_rules | `(tactic| f_atom) => `(tactic| exact f_popDelimiter)
macro_rules | `(tactic| f_atom) => `(tactic| exact f_currentDelimiter)

theorem f_mpInit (P : MPParams) : FSat (mpInit P) := by
  unfold mpInit; (try simp only []); f_walk
macro_rules | `(tactic| f_atom) => `(tactic| exact f_mpInit _)

theorem f_mpPre (P : MPParams) (lfc : Bool) (st : MPState) : FSat (mpPre P lfc st) := by
  unfold mpPre; (try simp only []); f_walk
macro_rules | `(tactic| f_atom) => `(tactic| exact f_mpPre _ _ _)

theorem f_handledollarword {pmp : MPParams → M Str} {pcs : CSParams → M Str}
    (hpmp : ∀ P, FSat (pmp P)) (hpcs : ∀ P, FSat (pcs P)) (P : MPParams) (rdquote : Bool) (c : Char) :
    FSat (handledollarword pmp pcs P rdquote c) := by
  unfold handledollarword; (try simp only []); f_walk

theorem f_mpPost {pmp : MPParams → M Str} {pcs : CSParams → M Str}
    (hpmp : ∀ P, FSat (pmp P)) (hpcs : ∀ P, FSat (pcs P)) (P : MPParams) (rdquote : Bool)
    (st : MPState) (c : Char) : FSat (mpPost pmp pcs P rdquote st c) := by
  have hd := f_handledollarword hpmp hpcs
  unfold mpPost; (try simp only []); f_walk

theorem f_csDelimMatches (st : CSState) : FSat (csDelimMatches st) := by
  unfold csDelimMatches; (try simp only []); f_walk
macro_rules | `(tactic| f_atom) => `(tactic| exact f_csDelimMatches _)

theorem f_csA (P : CSParams) (st : CSState) : FSat (csA P st) := by
  unfold csA; (try simp only []); f_walk
theorem f_csB (b : Bool) (st : CSState) (c : Char) : FSat (csB b st c) := by
  unfold csB; (try simp only []); f_walk
theorem f_csC (P : CSParams) (b : Bool) (st : CSState) (c : Char) : FSat (csC P b st c) := by
  unfold csC; (try simp only []); f_walk
theorem f_csD (P : CSParams) (st : CSState) (c : Char) : FSat (csD P st c) := by
  unfold csD; (try simp only []); f_walk
macro_rules | `(tactic| f_atom) => `(tactic| exact f_csA _ _)
macro_rules | `(tactic| f_atom) => `(tactic| exact f_csB _ _ _)
macro_rules | `(tactic| f_atom) => `(tactic| exact f_csC _ _ _ _)
macro_rules | `(tactic| f_atom) => `(tactic| exact f_csD _ _ _)

theorem f_csPre (P : CSParams) (b : Bool) (st : CSState) : FSat (csPre P b st) := by
  unfold csPre; (try simp only []); f_walk
macro_rules | `(tactic| f_atom) => `(tactic| exact f_csPre _ _ _)

theorem f_csPost {pmp : MPParams → M Str} {pcs : CSParams → M Str}
    (hpmp : ∀ P, FSat (pmp P)) (hpcs : ∀ P, FSat (pcs P)) (P : CSParams)
    (st : CSState) (c : Char) : FSat (csPost pmp pcs P st c) := by
  unfold csPost; (try simp only []); f_walk

/-- the two mutually recursive scanners, by induction on the depth fuel -/
theorem f_pmp_pcs : ∀ fuel, (∀ P, FSat (parseMatchedPair fuel P)) ∧ (∀ P, FSat (parseComsub fuel P)) := by
  intro fuel
  induction fuel with
  | zero =>
    refine ⟨fun P => ?_, fun P => ?_⟩
    · unfold parseMatchedPair; f_walk
    · unfold parseComsub; f_walk
  | succ fuel ih =>
    obtain ⟨hpmp, hpcs⟩ := ih
    have hpost := f_mpPost hpmp hpcs
    have hcpost := f_csPost hpmp hpcs
    refine ⟨fun P => ?_, fun P => ?_⟩
    · unfold parseMatchedPair; (try simp only []); f_walk
    · unfold parseComsub; (try simp only []); f_walk

theorem f_parseMatchedPair (fuel : Nat) (P : MPParams) : FSat (parseMatchedPair fuel P) :=
  (f_pmp_pcs fuel).1 P
theorem f_parseComsub (fuel : Nat) (P : CSParams) : FSat (parseComsub fuel P) :=
  (f_pmp_pcs fuel).2 P
macro_rules | `(tactic| f_atom) => `(tactic| exact f_parseMatchedPair _ _)
macro_rules | `(tactic| f_atom) => `(tactic| exact f_parseComsub _ _)

/-! ### tokens -/

theorem f_createtoken (ty : TokType) (v : TVal) (flags : WordFlags) : FSat (createtoken ty v flags) := by
  unfold createtoken; (try simp only []); f_walk
macro_rules | `(tactic| f_atom) => `(tactic| exact f_createtoken _ _ _)

theorem f_isAssignment (s : Str) : FSat (isAssignment s) := by
  unfold isAssignment; (try simp only []); f_walk
macro_rules | `(tactic| f_atom) => `(tactic| exact f_isAssignment _)

theorem f_specialcasetokens (s : Str) : FSat (specialcasetokens s) := by
  unfold specialcasetokens; (try simp only []); f_walk
macro_rules | `(tactic| f_atom) => `(tactic| exact f_specialcasetokens _)

theorem f_handleshellquote (st : RWState) (c : Char) : FSat (handleshellquote st c) := by
  unfold handleshellquote; (try simp only []); f_walk
macro_rules | `(tactic| f_atom) => `(tactic| exact f_handleshellquote _ _)

theorem f_handleshellexp (st : RWState) (c : Char) (cd : Option Char) :
    FSat (handleshellexp st c cd) := by
  unfold handleshellexp; (try simp only []); f_walk
macro_rules | `(tactic| f_atom) => `(tactic| exact f_handleshellexp _ _ _)

theorem f_readtokenwordStep (st : RWState) : FSat (readtokenwordStep st) := by
  unfold readtokenwordStep; (try simp only []); f_walk
macro_rules | `(tactic| f_atom) => `(tactic| exact f_readtokenwordStep _)

set_option maxHeartbeats 1000000 in
theorem f_finishWord (st : RWState) : FSat (finishWord st) := by
  unfold finishWord; (try simp only []); f_walk
macro_rules | `(tactic| f_atom) => `(tactic| exact f_finishWord _)

theorem f_readtokenword (c : Char) : FSat (readtokenword c) := by
  unfold readtokenword; (try simp only []); f_walk
macro_rules | `(tactic| f_atom) => `(tactic| exact f_readtokenword _)

theorem f_discardUntil (c : Char) : FSat (discardUntil c) := by
  unfold discardUntil; (try simp only []); f_walk
macro_rules | `(tactic| f_atom) => `(tactic| exact f_discardUntil _)

theorem f_tokentypeOfChar (c : Char) : FSat (tokentypeOfChar c) := by
  unfold tokentypeOfChar; (try simp only []); f_walk
macro_rules | `(tactic| f_atom) => `(tactic| exact f_tokentypeOfChar _)

theorem f_readtokenMeta (c : Char) : FSat (readtokenMeta c) := by
  unfold readtokenMeta; (try simp only []); f_walk
macro_rules | `(tactic| f_atom) => `(tactic| exact f_readtokenMeta _)

theorem f_readtoken : FSat readtoken := by
  unfold readtoken; (try simp only []); f_walk
macro_rules | `(tactic| f_atom) => `(tactic| exact f_readtoken)

/-- **hTok**: `nextToken` raises only `TokExn` -/
theorem f_nextToken : FSat nextToken := by
  unfold nextToken; (try simp only []); f_walk

end Bashlex.C01
