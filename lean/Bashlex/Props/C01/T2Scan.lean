/-
  C01 tight 2, part 1 (state-agnostic): what `_parse_matched_pair` / `_parse_comsub` return is not
  empty and does not end in `(` (it ends with the closing character, or with what a nested scanner
  returned).  Generated from `Props/C03/RE/WScan.lean`, `WScan2.lean` (same walk, other predicate).
-/
import Bashlex.Props.C03.RE.WScan2

namespace Bashlex.C01.T2
open Bashlex Bashlex.M Bashlex.C03.RE
set_option linter.unusedSimpArgs false
set_option linter.unusedVariables false

/-- not empty, and the last character is not `(` -/
def LP (r : Str) : Prop := ∃ c, r.getLast? = some c ∧ c ≠ '('

theorem lp_snoc (a : Str) {c : Char} (hc : c ≠ '(') : LP (a ++ [c]) :=
  ⟨c, by simp, hc⟩

theorem lp_append (a : Str) {b : Str} (hb : LP b) : LP (a ++ b) := by
  obtain ⟨c, h1, h2⟩ := hb
  refine ⟨c, ?_, h2⟩
  rw [List.getLast?_append, h1]; rfl

def MPQ2 (r : Step MPState) : Prop :=
  match r with
  | .cont s => s.count ≠ 0
  | .done x => LP x
  | .next s _ => s.count ≠ 0

theorem lp_matchedPairError {α : Type} (c : Char) {Q : α → Prop} :
    Sat (matchedPairError c : M α) Q := by
  unfold matchedPairError
  s_walk

set_option maxHeartbeats 1000000 in
theorem lp_mpPre (P : MPParams) (lfc : Bool) (st : MPState) (hc : P.close ≠ '(')
    (h0 : st.count ≠ 0) : Sat (mpPre P lfc st) MPQ2 := by
  unfold mpPre
  simp only []
  refine Sat.bind_any (fun c0 => ?_)
  s_walk
  all_goals (first
    | (simp_all [MPQ2]; done)
    | (simp_all [MPQ2]; omega)
    | (simp_all [MPQ2]; exact lp_snoc _ (by first | assumption | decide)))


/-- `mpPost` leaves the counter alone; what it appends comes from nested scanners -/
theorem lp_mpPost {pmp : MPParams → M Str} {pcs : CSParams → M Str} (P : MPParams) (rdq : Bool)
    (st : MPState) (c : Char) :
    Sat (mpPost pmp pcs P rdq st c) (fun s' => s'.count = st.count) := by
  unfold mpPost
  simp only []
  s_walk
  all_goals rfl

/-! ## `_parse_comsub` -/

def CSI2 (st : CSState) : Prop := st.count = 0 → LP st.ret

def CSQ2 (r : Step CSState) : Prop :=
  match r with
  | .cont s => s.count ≠ 0
  | .done x => LP x
  | .next s c => s.count ≠ 0 ∧ s.ret.getLast? = some c

/-- a step result that keeps the counter -/
def CSK2 (n : Nat) (r : Step CSState) : Prop :=
  match r with
  | .cont s => s.count = n
  | .done _ => False
  | .next s _ => s.count = n

theorem lp_csDelimMatches (st : CSState) {Q : Bool → Prop} (h : ∀ b, Q b) :
    Sat (csDelimMatches st) Q := by
  unfold csDelimMatches
  s_walk
  all_goals exact h _

set_option maxHeartbeats 2000000 in
theorem lp_csA (P : CSParams) (st : CSState) : Sat (csA P st) (CSK2 st.count) := by
  unfold csA
  simp only []
  refine Sat.bind_any (fun c0 => ?_)
  s_walk
  all_goals (first | rfl | (simp_all [CSK2, csEndHeredoc]; done))

set_option maxHeartbeats 4000000 in
theorem lp_csB (ck : Bool) (st : CSState) (c : Char) : Sat (csB ck st c) (CSK2 st.count) := by
  unfold csB
  simp only []
  s_walk
  all_goals (first | rfl | (simp_all [CSK2]; done))

set_option maxHeartbeats 4000000 in
theorem lp_csC (P : CSParams) (ck : Bool) (st : CSState) (c : Char) :
    Sat (csC P ck st c) (CSK2 st.count) := by
  unfold csC
  simp only []
  s_walk
  all_goals (first | rfl | (simp_all [CSK2]; done))

set_option maxHeartbeats 1000000 in
theorem lp_csD (P : CSParams) (st : CSState) (c : Char) (hc : P.close ≠ '(')
    (h0 : st.count ≠ 0) : Sat (csD P st c) CSQ2 := by
  unfold csD
  simp only []
  s_walk
  all_goals (first
    | (simp_all [CSQ2]; done)
    | (simp_all [CSQ2]; omega)
    | (simp_all [CSQ2]; exact lp_snoc _ (by first | assumption | decide)))

theorem lp_csPre (P : CSParams) (ck : Bool) (st : CSState) (hc : P.close ≠ '(')
    (h0 : st.count ≠ 0) : Sat (csPre P ck st) CSQ2 := by
  unfold csPre
  refine Sat.bind (lp_csA P st) (fun r1 h1 => ?_)
  cases r1 with
  | cont s => exact Sat.pure (by show s.count ≠ 0; rw [show s.count = st.count from h1]; exact h0)
  | done r => exact h1.elim
  | next s1 c1 =>
    have e1 : s1.count = st.count := h1
    refine Sat.bind (lp_csB ck s1 c1) (fun r2 h2 => ?_)
    cases r2 with
    | cont s => exact Sat.pure (by
        show s.count ≠ 0; rw [show s.count = s1.count from h2, e1]; exact h0)
    | done r => exact h2.elim
    | next s2 c2 =>
      have e2 : s2.count = s1.count := h2
      refine Sat.bind (lp_csC P ck s2 c2) (fun r3 h3 => ?_)
      cases r3 with
      | cont s => exact Sat.pure (by
          show s.count ≠ 0; rw [show s.count = s2.count from h3, e2, e1]; exact h0)
      | done r => exact h3.elim
      | next s3 c3 =>
        have e3 : s3.count = s2.count := h3
        exact lp_csD P s3 c3 hc (by rw [e3, e2, e1]; exact h0)

set_option maxHeartbeats 1000000 in
theorem lp_csPost {pmp : MPParams → M Str} {pcs : CSParams → M Str}
    (hpmp : ∀ P', P'.close ≠ '(' → Sat (pmp P') LP)
    (hpcs : ∀ P', P'.close ≠ '(' → Sat (pcs P') LP)
    (P : CSParams) (st : CSState) (c : Char) (h0 : st.count ≠ 0)
    (hl : st.ret.getLast? = some c) : Sat (csPost pmp pcs P st c) CSI2 := by
  unfold csPost
  simp only []
  refine Sat.bind_any (fun q => ?_)
  refine Sat.ite (fun _ => ?_) (fun _ => ?_)
  · -- a quote: the counter stays
    refine Sat.bind_any (fun _ => Sat.bind_any (fun _ => Sat.bind_any (fun _ => Sat.pure ?_)))
    intro hz
    exact absurd hz h0
  · refine Sat.ite (fun hd => ?_) (fun _ => ?_)
    · repeat' first
        | refine Sat.bind (P := LP) (hpcs _ ?_) (fun r hr => ?_)
        | refine Sat.bind (P := LP) (hpmp _ ?_) (fun r hr => ?_)
        | refine Sat.ite (fun _ => ?_) (fun _ => ?_)
        | exact Sat.pure (fun _ => lp_append _ (by assumption))
        | (show Sat _ _ _; split)
        | decide
    · exact Sat.pure (fun hz => absurd hz h0)

/-! ## the two scanners -/

/-- **`_parse_matched_pair`** returns a string that does not end in a newline -/
theorem lp_pmp (fuel : Nat) (P : MPParams) (hc : P.close ≠ '(') :
    Sat (parseMatchedPair fuel P) LP := by
  cases fuel with
  | zero => unfold parseMatchedPair; exact Sat.raise trivial
  | succ fuel =>
    unfold parseMatchedPair
    simp only []
    refine Sat.bind_any (fun x => ?_)
    refine Sat.bind_any (fun lf => ?_)
    refine Sat.loop (I := fun st => st.count ≠ 0) (R := LP) trivial (fun st h0 => ?_) lf _
      (by show (1 : Nat) ≠ 0; decide)
    refine Sat.ite (fun hz => ?_) (fun _ => ?_)
    · exact absurd (by simpa using hz) h0
    refine Sat.bind (lp_mpPre P _ st hc h0) (fun r hr => ?_)
    cases r with
    | cont s => exact Sat.pure hr
    | done r => exact Sat.pure hr
    | next s c =>
      refine Sat.bind (lp_mpPost P _ s c) (fun s' hs' => Sat.pure ?_)
      show s'.count ≠ 0
      rw [hs']; exact hr

/-- **`_parse_comsub`** returns a string that does not end in a newline -/
theorem lp_pcs : ∀ (fuel : Nat) (P : CSParams), P.close ≠ '(' → Sat (parseComsub fuel P) LP
  | 0, P, _ => by unfold parseComsub; exact Sat.raise trivial
  | fuel + 1, P, hc => by
    unfold parseComsub
    simp only []
    refine Sat.bind_any (fun peek => Sat.bind_any (fun _ => ?_))
    refine Sat.ite (fun _ => lp_pmp fuel _ hc) (fun _ => ?_)
    refine Sat.bind_any (fun lf => ?_)
    refine Sat.loop (I := CSI2) (R := LP) trivial (fun st hI => ?_) lf _ (fun h => by cases h)
    refine Sat.ite (fun hz => Sat.pure (hI (by simpa using hz))) (fun hz => ?_)
    have h0 : st.count ≠ 0 := by simpa using hz
    refine Sat.bind (lp_csPre P _ st hc h0) (fun r hr => ?_)
    cases r with
    | cont s => exact Sat.pure (fun hz' => absurd hz' hr)
    | done r => exact Sat.pure hr
    | next s c =>
      exact Sat.bind (lp_csPost (fun P' h' => lp_pmp fuel P' h') (fun P' h' => lp_pcs fuel P' h')
        P s c hr.1 hr.2) (fun s' hs' => Sat.pure hs')

end Bashlex.C01.T2

#print axioms Bashlex.C01.T2.lp_pcs
