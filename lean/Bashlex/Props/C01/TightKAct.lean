/-
  C01 tight, part 11: word expansion and the semantic actions with the invariant `KI R`:
  they keep the tape's line; the only writer of `redirstack` / the redirect store above the
  tokenizer (`p_redirection_heredoc`) pushes the id of the cell it appends.
-/
import Bashlex.Props.C01.TightKTok2
import Bashlex.Model.Actions

namespace Bashlex.C01
open Bashlex Bashlex.M Bashlex.C10 Bashlex.C11
set_option linter.unusedSimpArgs false
set_option linter.unusedVariables false

/-- the nested parser keeps the invariant of its caller -/
abbrev NPK (np : NestedParse) : Prop := ∀ s b R, KSat R (np s b)

theorem ht_forIn {γ β : Type} {I : Local → Env → Prop} {E : Exn → Prop}
    {f : γ → β → M (ForInStep β)} (h : ∀ a b, HT I (f a b) (fun _ => I) E) :
    ∀ (l : List γ) (b : β), HT I (forIn l b f) (fun _ => I) E := by
  intro l
  induction l with
  | nil => intro b; rw [List.forIn_nil]; exact HT.pure (fun _ _ h => h)
  | cons a rest ih =>
    intro b
    rw [List.forIn_cons]
    refine HT.bind (h a b) (fun r => ?_)
    cases r with
    | done b' => exact HT.pure (fun _ _ h => h)
    | yield b' => exact ih b'

theorem KI.pushRedir {R l e} (h : KI R l e) (cell : RedirCell) (kill : Bool) :
    KI R { l with store := l.store ++ [cell], redirstack := l.redirstack ++ [(l.store.length, kill)] } e := by
  refine ⟨h.1, fun p hp => ?_, fun p hp => ?_⟩
  · show p.1 < (l.store ++ [cell]).length
    rw [List.length_append]
    rcases List.mem_append.mp hp with h1 | h1
    · have := h.2.1 p h1; omega
    · rw [List.mem_singleton.mp h1]; simp
  · show p.1 < (l.store ++ [cell]).length
    rw [List.length_append]
    have := h.2.2 p hp; omega

/-- the walk, with `for` loops and the one `set` that pushes a redirect -/
macro "ka_walk" : tactic => `(tactic| repeat' (first
  | ((with_reducible refine HTQAt.set_bind ?_ ?_); focus (intro _ h; exact KI.pushRedir h _ _))
  | k_step
  | with_reducible refine ht_forIn (fun _ _ => ?_) _ _
  | with_reducible refine HT.bind (Q := fun _ => KI _) (ht_forIn (fun _ _ => ?_) _ _) (fun _ => ?_)))

variable {np : NestedParse}

/-! ### word expansion -/

theorem k_adjustpositions (n : Node) (b l : Nat) (R : List (Nat × Bool)) :
    KSat R (adjustpositions n b l) := by
  unfold adjustpositions; ka_walk
macro_rules | `(tactic| k_atom) => `(tactic| exact k_adjustpositions _ _ _ _)

theorem k_recursiveparse (hnp : NPK np) (base : Str) (i : Nat) (b : Bool) (R : List (Nat × Bool)) :
    KSat R (recursiveparse np base i b) := by
  unfold recursiveparse; (try simp only []); ka_walk
macro_rules | `(tactic| k_atom) => `(tactic| exact k_recursiveparse (by assumption) _ _ _ _)

theorem k_parsedolparen (hnp : NPK np) (base : Str) (i : Nat) (R : List (Nat × Bool)) :
    KSat R (parsedolparen np base i) := by
  unfold parsedolparen; (try simp only []); ka_walk
macro_rules | `(tactic| k_atom) => `(tactic| exact k_parsedolparen (by assumption) _ _ _)

theorem k_paramexpand (hnp : NPK np) (s : Str) (i : Nat) (R : List (Nat × Bool)) :
    KSat R (paramexpand np s i) := by
  unfold paramexpand; (try simp only []); ka_walk
macro_rules | `(tactic| k_atom) => `(tactic| exact k_paramexpand (by assumption) _ _ _)

theorem k_expandStep (hnp : NPK np) (tok : Token) (s : Str) (qd : Bool) (st : ExpSt)
    (R : List (Nat × Bool)) : KSat R (expandStep np tok s qd st) := by
  unfold expandStep; (try simp only []); ka_walk
macro_rules | `(tactic| k_atom) => `(tactic| exact k_expandStep (by assumption) _ _ _ _ _)

theorem k_expandwordinternal (hnp : NPK np) (tok : Token) (qd : Bool) (R : List (Nat × Bool)) :
    KSat R (expandwordinternal np tok qd) := by
  unfold expandwordinternal; (try simp only []); ka_walk
macro_rules | `(tactic| k_atom) => `(tactic| exact k_expandwordinternal (by assumption) _ _ _)

theorem k_expandword (hnp : NPK np) (tok : Token) (R : List (Nat × Bool)) :
    KSat R (expandword np tok) := by
  unfold expandword; (try simp only []); ka_walk
macro_rules | `(tactic| k_atom) => `(tactic| exact k_expandword (by assumption) _ _)

/-! ### the semantic actions -/

theorem k_tokAt (p : PCtx) (i : Nat) (R : List (Nat × Bool)) : KSat R (p.tokAt i) := by
  unfold PCtx.tokAt; ka_walk
theorem k_strAt (p : PCtx) (i : Nat) (R : List (Nat × Bool)) : KSat R (p.strAt i) := by
  have := k_tokAt p i R
  unfold PCtx.strAt; ka_walk
theorem k_nodeAt (p : PCtx) (i : Nat) (s : String) (R : List (Nat × Bool)) : KSat R (p.nodeAt i s) := by
  unfold PCtx.nodeAt; ka_walk
theorem k_nodesAt (p : PCtx) (i : Nat) (s : String) (R : List (Nat × Bool)) : KSat R (p.nodesAt i s) := by
  unfold PCtx.nodesAt; ka_walk
macro_rules | `(tactic| k_atom) => `(tactic| exact k_tokAt _ _ _)
macro_rules | `(tactic| k_atom) => `(tactic| exact k_strAt _ _ _)
macro_rules | `(tactic| k_atom) => `(tactic| exact k_nodeAt _ _ _ _)
macro_rules | `(tactic| k_atom) => `(tactic| exact k_nodesAt _ _ _ _)

theorem k_nodePos (n : Node) (R : List (Nat × Bool)) : KSat R (nodePos n) := by
  unfold nodePos; ka_walk
macro_rules | `(tactic| k_atom) => `(tactic| exact k_nodePos _ _)

theorem k_partsspan (parts : List Node) (R : List (Nat × Bool)) : KSat R (partsspan parts) := by
  unfold partsspan; ka_walk
macro_rules | `(tactic| k_atom) => `(tactic| exact k_partsspan _ _)

theorem k_reservedAt (p : PCtx) (i : Nat) (R : List (Nat × Bool)) : KSat R (reservedAt p i) := by
  unfold reservedAt; ka_walk
theorem k_operatorAt (p : PCtx) (i : Nat) (R : List (Nat × Bool)) : KSat R (operatorAt p i) := by
  unfold operatorAt; ka_walk
macro_rules | `(tactic| k_atom) => `(tactic| exact k_reservedAt _ _ _)
macro_rules | `(tactic| k_atom) => `(tactic| exact k_operatorAt _ _ _)

theorem k_handleAssert (b : Bool) (R : List (Nat × Bool)) : KSat R (handleAssert b) := by
  unfold handleAssert; ka_walk
macro_rules | `(tactic| k_atom) => `(tactic| exact k_handleAssert _ _)

theorem k_addRedirects (n : Node) (reds : List Node) (R : List (Nat × Bool)) :
    KSat R (addRedirects n reds) := by
  unfold addRedirects; (try simp only []); ka_walk
macro_rules | `(tactic| k_atom) => `(tactic| exact k_addRedirects _ _ _)

theorem k_makeparts (hnp : NPK np) (args : List SVal) (R : List (Nat × Bool)) :
    KSat R (makeparts ⟨np, args⟩) := by
  unfold makeparts; simp only [bind_pure]; ka_walk
macro_rules | `(tactic| k_atom) => `(tactic| exact k_makeparts (by assumption) _ _)

theorem k_handleNotImplemented (hnp : NPK np) (args : List SVal) (ty : String) (R : List (Nat × Bool)) :
    KSat R (handleNotImplemented ⟨np, args⟩ ty) := by
  unfold handleNotImplemented; ka_walk
macro_rules | `(tactic| k_atom) => `(tactic| exact k_handleNotImplemented (by assumption) _ _ _)

theorem k_mkCompound1 (inner : Span → List Node → Node) (parts : List Node) (R : List (Nat × Bool)) :
    KSat R (mkCompound1 inner parts) := by
  unfold mkCompound1; ka_walk
macro_rules | `(tactic| k_atom) => `(tactic| exact k_mkCompound1 _ _ _)

theorem k_joinLists (p : PCtx) (mk : Span → Str → Node) (s : String) (R : List (Nat × Bool)) :
    KSat R (joinLists p mk s) := by
  unfold joinLists; (try simp only []); ka_walk
macro_rules | `(tactic| k_atom) => `(tactic| exact k_joinLists _ _ _ _)

set_option maxHeartbeats 4000000 in
/-- **every semantic action** keeps the invariant and raises nothing excluded by `E3` -/
theorem k_actionCore (hnp : NPK np) (fname : String) (args : List SVal) (R : List (Nat × Bool)) :
    KSat R (actionCore np fname args) := by
  unfold actionCore
  simp only []
  split
  all_goals ka_walk

theorem k_action (hnp : NPK np) (fname : String) (args : List SVal) (R : List (Nat × Bool)) :
    KSat R (action np fname args) := by
  have := k_actionCore hnp fname args R
  unfold action; ka_walk

end Bashlex.C01
