/-
  C01 tight, part 14: `AssertionError|ParsingError.__init__` never escapes `split` either
  (`Props/C11Total.lean` has the theorem for `parse` and `parsesingle`; the same pieces -- the token
  loop of `split` is `token()` + `_expandwordinternal` over the nested parser of full depth).
-/
import Bashlex.Props.C11Total

namespace Bashlex.C11
open Bashlex Bashlex.M Bashlex.C10 Bashlex.LR
set_option linter.unusedSimpArgs false
set_option linter.unusedVariables false

theorem splitM_good4 (s : Str) (g : Ghost) (hg : WFG g) :
    SatI (Good4 g) (splitM s) (fun _ => True) (ExnAt (maxDepth + 1) g) := by
  have hnp : NPOK g (fun x => ∃ g', WFG g' ∧ ExnAt maxDepth g' x) (nestedOf (parserRun maxDepth)) :=
    nestedOf_ok4 (fun g' hg' => parserRun_good4 maxDepth g' hg') g
  have hk : ∀ s b, C10.KeepsEol (nestedOf (parserRun maxDepth) s b) := keepsEol_nestedOf _
  -- `token()`
  have hnext : HT (Good4 g) nextToken (fun t l e => TokOK g t ∧ Good4 g l e) (ExnAt (maxDepth + 1) g) := by
    intro l e hI
    have a1 := nextToken_good (g := g) l e hI.1
    have a2 := C04.tokText.next g hg l e hI
    rcases hr : nextToken.run l e with ⟨r, e'⟩
    rw [hr] at a1 a2
    cases r with
    | error x => exact Or.inl a1
    | ok v => obtain ⟨t, l'⟩ := v; exact ⟨⟨a1.1, a2.1.tl⟩, a1.2, a2.2⟩
  -- `_expandwordinternal`
  have hexp : ∀ t dq, TokOK g t →
      SatI (Good4 g) (expandwordinternal (nestedOf (parserRun maxDepth)) t dq) (fun _ => True)
        (ExnAt (maxDepth + 1) g) := by
    intro t dq ht l e hI
    have a1 := g_expandwordinternal hnp t ht.2 dq l e hI.1
    have a2 := C04.keepsEol_expandwordinternal (np := nestedOf (parserRun maxDepth)) hk t dq l e
    rcases hr : (expandwordinternal (nestedOf (parserRun maxDepth)) t dq).run l e with ⟨r, e'⟩
    rw [hr] at a1
    cases r with
    | error x => exact a1
    | ok v =>
      obtain ⟨r, l'⟩ := v
      exact ⟨True.intro, a1.2, a2 r l' e' hI.2 hr⟩
  unfold splitM
  simp only []
  refine HT.bind (Q := fun _ => Good4 g) (HT.post (HT.reader run_tapeLine) (fun _ _ _ h => h.2)) (fun line => ?_)
  refine HT.bind (Q := fun _ => Good4 g) (HT.post (HT.reader run_tapeAdded) (fun _ _ _ h => h.2)) (fun added => ?_)
  refine SatI.loopT (Or.inl topE_fuel) (fun acc => ?_) _ _
  refine HT.bind hnext (fun t => HT.pre_pure (fun ht => ?_))
  refine SatI.ite (fun _ => SatI.pure True.intro) (fun _ => ?_)
  refine SatI.ite (fun _ => ?_) (fun _ => SatI.pure True.intro)
  refine SatI.ite (fun hq => ?_) (fun _ => ?_)
  · split
    · exact HT.bind (Q := fun _ _ _ => False) (HT.foreign (Or.inl (topE_foreign rfl))) (fun _ => HT.pre_false)
    · exact SatI.bindE (SatI.pure True.intro) (fun _ => SatI.bindE (hexp _ _ ht) (fun _ => SatI.pure True.intro))
  · exact SatI.bindE (SatI.pure True.intro) (fun _ => SatI.bindE (hexp _ _ ht) (fun _ => SatI.pure True.intro))

/-- **`AssertionError|ParsingError.__init__` never escapes `split`** (and every `ParsingError` of
    `split` carries a position inside its source) -/
theorem C11_split (s : Str) {x : Exn} (h : (split s).1 = .exn x) : ErrShape x := by
  unfold split at h
  simp only [] at h
  rcases hrun : (splitM s).run {} { tape := Tape.ofInput s } with ⟨r, env'⟩
  rw [hrun] at h
  simp only [] at h
  cases r with
  | ok v => cases h
  | error y =>
    cases h
    have hgood : Good4 (topGhost s {}) ({} : Local) { tape := Tape.ofInput s } :=
      ⟨good_top s {} [], rfl⟩
    exact exnAt_shape _ _ _ (HT.err (splitM_good4 s _ (topGhost_wf s {})) hgood hrun)

end Bashlex.C11
