/-
  C01 tight, part 9: the walk through the tokenizer with the invariant `KI R` (see `TightK.lean`).
-/
import Bashlex.Props.C01.TightK

namespace Bashlex.C01
open Bashlex Bashlex.M Bashlex.C10 Bashlex.C11
set_option linter.unusedSimpArgs false
set_option linter.unusedVariables false

/-! ### here-documents -/

/-- a line returned by `readline` ends in a newline -/
def RLOK (r : Option Str) : Prop := ∀ s, r = some s → s.getLast? = some '\n'

theorem sat_readline_nl (b : Bool) : Sat (readline b) RLOK TokExn1 := by
  unfold readline; (try simp only [])
  refine sat_bindE t1_loopFuel (fun fuel => ?_)
  refine Sat.loop (I := fun _ => True) (R := RLOK) (by tokexn1) (fun st _ => ?_) _ _ True.intro
  t1_walkP
  all_goals first
    | exact True.intro
    | (intro s hs; cases hs; done)
    | (intro s hs; cases hs; simp_all; done)

theorem k_readline (b : Bool) (R : List (Nat × Bool)) : KSat R (readline b) := by
  unfold readline; (try simp only []); k_walk
macro_rules | `(tactic| k_atom) => `(tactic| exact k_readline _ _)

theorem kr_readline (b : Bool) (R : List (Nat × Bool)) :
    HT (KI R) (readline b) (fun r l e => RLOK r ∧ KI R l e) E3 :=
  HT.exn (HT.and_sat (k_readline b R) (sat_readline_nl b)) (fun _ h => h.2)

theorem strTruthy_some {o : Option Str} (h : strTruthy o = true) : ∃ s, o = some s ∧ s ≠ [] := by
  cases o with
  | none => cases h
  | some s =>
    cases s with
    | nil => cases h
    | cons c cs => exact ⟨_, rfl, by simp⟩

theorem stripLeadingTabs_some : ∀ s : Str, s.getLast? = some '\n' → stripLeadingTabs s ≠ none := by
  intro s
  induction s with
  | nil => intro h; cases h
  | cons c cs ih =>
    intro h
    unfold stripLeadingTabs
    split
    · rename_i hc
      have hc' : c = '\t' := by simpa using hc
      cases cs with
      | nil => simp [hc'] at h
      | cons d ds =>
        refine ih ?_
        rw [List.getLast?_cons_cons] at h
        exact h
    · intro hn; cases hn

theorem dropLast_index {f d : Str} (hne : f ≠ []) (h : pyDropLastN f 1 = d) : f[d.length]? ≠ none := by
  have hl : d.length = f.length - 1 := by
    rw [← h]; unfold pyDropLastN; simp
  have hpos : 0 < f.length := List.length_pos_iff.mpr hne
  intro hn
  have := List.getElem?_eq_none_iff.mp hn
  omega

/-- the loop state of `makeheredoc`: a non-empty `fullline` ends in a newline -/
def HDOK (st : HDState) : Prop := ∀ s, st.fullline = some s → s ≠ [] → s.getLast? = some '\n'

theorem hd_strip_false {st : HDState} (hst : HDOK st) (ht : ¬(!strTruthy st.fullline) = true)
    (h : stripLeadingTabs (st.fullline.getD []) = none) : False := by
  obtain ⟨s, h1, h2⟩ := strTruthy_some (o := st.fullline) (by simpa using ht)
  rw [h1] at h
  exact stripLeadingTabs_some s (hst s h1 h2) h

theorem hd_index_false {f d : Str} (hne : ¬List.isEmpty f = true) (heq : (pyDropLastN f 1 == d) = true)
    (h : f[d.length]? = none) : False := by
  have hne' : f ≠ [] := by
    intro hf; apply hne; rw [hf]; rfl
  exact dropLast_index hne' (by simpa using heq) h

theorem ht_foreign_bind_false {α β : Type} {P : Local → Env → Prop} {E : Exn → Prop} {a b : String}
    {k : α → M β} {Q : β → Local → Env → Prop} (h : False) :
    HT P ((M.foreign a b : M α) >>= k) Q E := h.elim

theorem KI.setStore {R l e} (h : KI R l e) (id : Nat) (c : RedirCell) :
    KI R { l with store := l.store.set id c } e := by
  unfold KI StoreOK at h ⊢
  simp only [List.length_set]
  exact h

theorem k_makeheredoc (id : Nat) (kill : Bool) (R : List (Nat × Bool)) (hR : ∃ k, (id, k) ∈ R) :
    KSat R (makeheredoc id kill) := by
  unfold makeheredoc; (try simp only [])
  refine HT.get_bind (fun l0 => ?_)
  cases hs : l0.store[id]? with
  | none =>
    intro l e ⟨hl, hk⟩
    exfalso
    subst hl
    obtain ⟨k, hk'⟩ := hR
    have h1 := hk.2.2 _ hk'
    have h2 := List.getElem?_eq_none_iff.mp hs
    simp only [] at h1
    omega
  | some cell =>
    simp only [pure_bind]
    refine HTQAt.ofHT ?_
    refine HT.bind (k_curIdx R) (fun startpos => ?_)
    refine HT.bind (kr_readline false R) (fun first => HT.pre_pure (fun hfirst => ?_))
    refine HT.bind (k_loopFuel R) (fun fuel => ?_)
    refine HT.bind (Q := fun _ => KI R) ?_ (fun fin => ?_)
    · refine HT.pre (HT.loop (I := fun st l e => HDOK st ∧ KI R l e) (by e3) (fun st => ?_) fuel _)
        (fun l e h => ⟨fun s hs _ => hfirst s hs, h⟩)
      refine HT.pre_pure (fun hst => ?_)
      repeat' (first
        | with_reducible refine HT.ite (fun _ => ?_) (fun _ => ?_)
        | split_head
        | with_reducible refine ht_foreign_bind_false ?_
        | with_reducible refine HT.bind (kr_readline false R) (fun _ => HT.pre_pure (fun _ => ?_))
        | exact HT.pure (fun _ _ h => h)
        | refine HT.pure (fun _ _ h => ⟨?_, h⟩))
      all_goals first
        | exact hd_strip_false hst (by assumption) (by assumption)
        | exact hd_index_false (by assumption) (by assumption) (by assumption)
        | (intro s hs _; exact (by assumption : RLOK _) s hs)
        | (intro s hs hne; cases hs; simp_all; done)
    · repeat' (first
        | ((with_reducible refine htq_set ?_); (intro _ h; exact KI.setStore h _ _))
        | k_step)
macro_rules | `(tactic| k_atom) => `(tactic| exact k_makeheredoc _ _ _ (by assumption))

theorem KI.mono {R R' l e} (h : KI R l e) (hR : ∀ p, p ∈ R' → p ∈ R) : KI R' l e :=
  ⟨h.1, h.2.1, fun p hp => h.2.2 p (hR p hp)⟩

theorem KI.setRedir {R l e} (h : KI R l e) {rest : List (Nat × Bool)} (hr : ∀ p, p ∈ rest → p ∈ R) :
    KI R { l with redirstack := rest } e :=
  ⟨h.1, fun p hp => h.2.2 p (hr p hp), h.2.2⟩

/-- **hGather** with the invariant -/
theorem k_gatherheredocuments (R : List (Nat × Bool)) : KSat R gatherheredocuments := by
  unfold gatherheredocuments; (try simp only [])
  refine HT.get_bind (fun l00 => HTQAt.ofHT ?_)
  refine ht_loopI (by e3) (fun _ => ?_) _ _
  refine HT.get_bind (fun l0 => ?_)
  split_head
  · exact HTQAt.ofHT (HT.pure (fun _ _ h => h))
  · rename_i id kill rest heq
    have hmem : ∃ k, (id, k) ∈ ((id, kill) :: rest ++ R) := ⟨kill, by simp⟩
    refine HT.weaken (P := KI ((id, kill) :: rest ++ R)) (Q := fun _ => KI ((id, kill) :: rest ++ R)) ?_
      (fun l e h => ?_) (fun _ l e h => h.mono (fun p hp => List.mem_append_right _ hp)) (fun _ h => h)
    · repeat' (first
        | ((with_reducible refine htq_modify_bind ?_ ?_);
           focus (intro l e h; exact KI.setRedir h (fun p hp => List.mem_append_left _ (List.mem_cons_of_mem _ hp))))
        | k_step)
    · obtain ⟨rfl, hk⟩ := h
      refine ⟨hk.1, hk.2.1, fun p hp => ?_⟩
      rcases List.mem_append.mp hp with h1 | h1
      · exact hk.2.1 p (heq ▸ h1)
      · exact hk.2.2 p h1
macro_rules | `(tactic| k_atom) => `(tactic| exact k_gatherheredocuments _)

end Bashlex.C01
