/-
  C01 tight: why the two raise sites left in `tokForeignTight` cannot be excluded in the
  state-agnostic logic `Sat` (which quantifies over ALL local states and environments): kernel-
  evaluated runs of `token()` from states that no run of `parse` was found to reach.
    * `AssertionError|token.__init__`: with the parser-state flag `regexp` set (no function of the
      model ever sets it; neither `dblparen`), `_readtoken` enters `_readtokenword` on a break
      character, which is pushed back at once: the token would be empty (`lexpos = endlexpos`).
    * `IndexError|_is_assignment`: with a backslash in the `_eol_ungetc_lookahead` slot and the
      cursor on a newline, `_readtokenword` drops the pair and stops on the next break character
      with an empty `tokenword`: `value[0]` fails.
  For the runs of `parse` / `parsesingle` / `split` both are excluded in `TightLvl*.lean`, from "the
  flags are never set", "the slot is empty when `token()` is entered" (C11's `Good4`) and exact cursor
  facts (`_getc(True)` never returns a backslash that a newline follows; a word consumes at least one
  character; the cursor never falls below the start of the token being read).
-/
import Bashlex.Proofs.Hoare
import Bashlex.Model.Tokenizer

namespace Bashlex.C01
open Bashlex Bashlex.M

/-- the exception a computation raises from a given state (`none` if it returns) -/
def exnOfM {α : Type} (m : M α) (l : Local) (e : Env) : Option Exn :=
  match (m.run l e).1 with
  | .error x => some x
  | .ok _ => none

theorem sat_exnOfM {α : Type} {m : M α} {E : Exn → Prop} (h : Sat m (fun _ => True) E)
    {l : Local} {e : Env} {x : Exn} (hx : exnOfM m l e = some x) : E x := by
  have h1 := h l e
  unfold exnOfM at hx
  rcases hr : m.run l e with ⟨r, e'⟩
  rw [hr] at h1 hx
  cases r with
  | ok v => cases hx
  | error y => simp only [Option.some.injEq] at hx; rw [← hx]; exact h1

/-- `regexp` set, input `;` -/
theorem state_witness_tokeninit :
    exnOfM nextToken { ps := { regexp := true } } { tape := Tape.ofInput [';'] } =
      some (.foreign "AssertionError" "token.__init__") := by decide +kernel

/-- a backslash in the look-ahead slot, the cursor at the start of `\n;\n` -/
theorem state_witness_isassignment :
    exnOfM nextToken { eolLookahead := some '\\' } { tape := { line := ['\n', ';', '\n'] } } =
      some (.foreign "IndexError" "_is_assignment") := by decide +kernel

/-- hence the state-agnostic statements are false -/
theorem sat_tokeninit_false :
    ¬ Sat nextToken (fun _ => True) (fun x => x ≠ .foreign "AssertionError" "token.__init__") :=
  fun h => sat_exnOfM h state_witness_tokeninit rfl

theorem sat_isassignment_false :
    ¬ Sat nextToken (fun _ => True) (fun x => x ≠ .foreign "IndexError" "_is_assignment") :=
  fun h => sat_exnOfM h state_witness_isassignment rfl

/-! The two sites excluded with the parser-level invariant `KI` (`Props/C01/TightK*.lean`) are
    not excluded state-agnostically either: -/

/-- a line that ends in a backslash (`tokenizer.__init__` never builds one) -/
theorem state_witness_getc :
    exnOfM nextToken {} { tape := { line := ['\\'] } } = some (.foreign "IndexError" "_getc") := by
  decide +kernel

/-- a pending here-document whose id is not in the store -/
theorem state_witness_makeheredoc :
    exnOfM gatherheredocuments { redirstack := [(0, false)] } { tape := Tape.ofInput ['a'] } =
      some (.foreign "IndexError" "makeheredoc") := by decide +kernel

end Bashlex.C01
