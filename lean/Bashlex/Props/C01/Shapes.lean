/-
  C01, part 5: *shapes* of semantic values — a coarsening of the sorts of `Props/C12/Sorts.lean`
  that keeps exactly what the exception discipline of the semantic actions needs (token / node /
  non-empty list / nothing, the token type, and the token facts `TF`) — and the abstract checker
  `shAction`, whose grammar obligation the kernel decides on the generated tables.
-/
import Bashlex.Props.C12.Grammar
import Bashlex.Props.C01.Tokens

namespace Bashlex.C01
open Bashlex Bashlex.C12

inductive Sh where
  | none
  | tok (ty : Option TokType)
  | node
  | optNode
  /-- a non-empty list of nodes -/
  | nodes
  /-- a list of nodes -/
  | nodes0
  deriving DecidableEq, Repr

def HasSh : Sh → SVal → Prop
  | .none, v => v = .none
  | .tok ty, v => ∃ t, v = .tok t ∧ t.ttype = ty ∧ TF t
  | .node, v => ∃ n, v = .node n
  | .optNode, v => v = .none ∨ ∃ n, v = .node n
  | .nodes, v => ∃ l, v = .nodes l ∧ l ≠ []
  | .nodes0, v => ∃ l, v = .nodes l

def shOfSrt : Srt → Sh
  | .none => .none
  | .tok ty => .tok ty
  | .node _ => .node
  | .optNode _ => .optNode
  | .nodes .ifparts => .nodes0
  | .nodes _ => .nodes

/-- shapes of grammar symbols: through the sorts, i.e. by symbol *name* -/
def shOfSymbol (sym : Nat) : Sh := shOfSrt (sortOfSymbol sym)

def isTokSh : Sh → Bool | .tok _ => true | _ => false
def isTyTok (ty : TokType) : Sh → Bool | .tok (some ty') => ty == ty' | _ => false

/-- actions built on `_makeparts`: the first right-hand-side symbol is a terminal, so the list
    of parts is not empty -/
def shParts (shapes : List Sh) : Option Sh :=
  match shapes with
  | .tok (some _) :: _ => some .node
  | _ => none

def shJoin : List Sh → Option Sh
  | [.node] => some .nodes
  | .nodes :: .tok (some _) :: rest => if rest.getLast? == some .nodes then some .nodes else none
  | _ => none

def shGroup : List Sh → Option Sh
  | [.tok (some _), .node, .tok (some _)] => some .node
  | _ => none

def shAction (fname : String) (shapes : List Sh) : Option Sh :=
  match fname with
  | "p_inputunit" => some .optNode
  | "p_word_list" =>
    match shapes with
    | [.tok (some _)] => some .nodes
    | [.nodes, .tok (some _)] => some .nodes
    | _ => none
  | "p_redirection_heredoc" =>
    match shapes with
    | [.tok (some _), .tok (some _)] => some .node
    | [.tok (some _), .tok (some _), .tok (some _)] => some .node
    | _ => none
  | "p_redirection" =>
    match shapes with
    | [.tok (some _), .tok (some _)] => some .node
    | [.tok (some _), .tok (some _), .tok (some _)] => some .node
    | _ => none
  | "p_simple_command_element" =>
    match shapes with
    | [.node] => some .nodes
    | [.tok (some _)] => some .nodes
    | _ => none
  | "p_redirection_list" =>
    match shapes with
    | [.node] => some .nodes
    | [.nodes, .node] => some .nodes
    | _ => none
  | "p_simple_command" =>
    match shapes with
    | [.nodes] => some .nodes
    | [.nodes, .nodes] => some .nodes
    | _ => none
  | "p_command" =>
    match shapes with
    | [.node] => some .node
    | [.node, .nodes] => some .node
    | [.nodes] => some .node
    | _ => none
  | "p_shell_command" =>
    match shapes with
    | [.node] => some .node
    | .tok (some ty) :: _ :: _ => if ty == .WHILE || ty == .UNTIL then some .node else none
    | _ => none
  | "p_for_command" => shParts shapes
  | "p_arith_for_command" => shParts shapes
  | "p_select_command" => shParts shapes
  | "p_case_command" => shParts shapes
  | "p_function_def" => shParts shapes
  | "p_function_body" =>
    match shapes with
    | [.node] => some .node
    | [.node, .nodes] => some .node
    | _ => none
  | "p_subshell" => shGroup shapes
  | "p_group_command" => shGroup shapes
  | "p_coproc" => shParts shapes
  | "p_if_command" => shParts shapes
  | "p_arith_command" => shParts shapes
  | "p_cond_command" => shParts shapes
  | "p_elif_clause" => some .nodes0
  | "p_case_clause" =>
    match shapes with
    | [.node] => some .nodes
    | [.nodes, .node] => some .nodes
    | _ => none
  | "p_pattern_list" =>
    match shapes with
    | [_, .nodes, .tok (some _), _] => some .node
    | [_, .tok (some _), .nodes, .tok (some _), _] => some .node
    | _ => none
  | "p_case_clause_sequence" =>
    match shapes with
    | [.node, .tok (some _)] => some .nodes
    | [.nodes, .node, .tok (some _)] => some .nodes
    | _ => none
  | "p_pattern" =>
    match shapes with
    | [.tok (some _)] => some .nodes
    | [.nodes, .tok (some _), .tok (some _)] => some .nodes
    | _ => none
  | "p_list" =>
    match shapes with
    | [_, s] => some s
    | _ => none
  | "p_compound_list" =>
    match shapes with
    | [s] => some s
    | [_, .nodes] => some .node
    | _ => none
  | "p_list0" =>
    match shapes with
    | .nodes :: .tok (some _) :: _ => some .node
    | _ => none
  | "p_list1" => shJoin shapes
  | "p_simple_list_terminator" => some .none
  | "p_list_terminator" => some .optNode
  | "p_newline_list" => some .none
  | "p_simple_list" =>
    match shapes with
    | [.nodes] => some .node
    | [.nodes, .tok (some _)] => some .node
    | _ => none
  | "p_simple_list1" => shJoin shapes
  | "p_pipeline_command" =>
    match shapes with
    | [.nodes] => some .node
    | [_, .node] => some .node
    | [_, .optNode] => some .node
    | [_, .none] => some .node
    | _ => none
  | "p_pipeline" => shJoin shapes
  | "p_timespec" => shParts shapes
  | "p_empty" => some .none
  | _ => none

/-- the grammar obligation: every production's action, on values of the shapes of its right-hand
    side, yields a value of the shape of its left-hand side -/
def shapeCheck : Bool :=
  (List.zip Gen.prodFuncs Gen.prodTable).all fun (f, (lhs, rhs)) =>
    f == "" || shAction f (rhs.map shOfSymbol) == some (shOfSymbol lhs)

theorem shape_ok : shapeCheck = true := by decide +kernel

def SVI (sym : Nat) (v : SVal) : Prop := HasSh (shOfSymbol sym) v

theorem tok_shapes (ty : TokType) : shOfSymbol ty.sym = .tok (some ty) := by
  unfold shOfSymbol; rw [tok_sorts]; rfl

theorem err_shape : shOfSymbol 1 = .tok none := by
  unfold shOfSymbol; rw [err_sort]; rfl

end Bashlex.C01
