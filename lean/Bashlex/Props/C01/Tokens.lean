/-
  C01, part 4: two more facts about the tokens the real tokenizer delivers (next to `C12.TokWF`):
  a token of type WHILE / UNTIL spells `while` / `until` (`p_shell_command` dispatches on the
  spelling), and a QUOTED token is not empty (`_expandword` reads `value[0]`).
  Same walk as `Props/C12/Tokens.lean`, with the join points of the `do` blocks inlined.
-/
import Bashlex.Props.C12.Tokens
import Bashlex.Props.C01.Expand

namespace Bashlex.C01
open Bashlex Bashlex.M Bashlex.C12
set_option linter.unusedVariables false
set_option linter.unusedSimpArgs false

def KwOK (t : Token) : Prop :=
  (t.ttype = some .WHILE → t.value = .str ['w', 'h', 'i', 'l', 'e']) ∧
  (t.ttype = some .UNTIL → t.value = .str ['u', 'n', 't', 'i', 'l'])

/-- the token facts of C01 -/
def TF (t : Token) : Prop := KwOK t ∧ TokQ t

def notKw (ty : TokType) : Bool := !(ty == .WHILE || ty == .UNTIL)

theorem tf_plain {t : Token} {ty : TokType} (h1 : t.ttype = some ty) (hty : notKw ty = true)
    (hf : t.flags = []) : TF t := by
  refine ⟨⟨fun h => ?_, fun h => ?_⟩, fun h => ?_⟩
  · rw [h1] at h; cases h; cases hty
  · rw [h1] at h; cases h; cases hty
  · rw [hf] at h; cases h

theorem tf_word {t : Token} {tw : Str}
    (h1 : t.ttype = some .WORD ∨ t.ttype = some .ASSIGNMENT_WORD) (h2 : t.value = .str tw)
    (h3 : tw ≠ []) : TF t := by
  refine ⟨⟨fun h => ?_, fun h => ?_⟩, fun _ => ?_⟩
  · rcases h1 with h1 | h1 <;> (rw [h1] at h; cases h)
  · rcases h1 with h1 | h1 <;> (rw [h1] at h; cases h)
  · simpa [Token.valueStr, h2] using h3

theorem sat_createtoken3 {ty : TokType} {v : TVal} {flags : WordFlags} :
    Sat (createtoken ty v flags) (fun t => t.ttype = some ty ∧ t.value = v ∧ t.flags = flags) := by
  unfold createtoken
  simp only []
  sat_walk
  all_goals exact ⟨rfl, rfl, rfl⟩

theorem sat_createtoken_plain {ty : TokType} {v : TVal} (hty : notKw ty = true) :
    Sat (createtoken ty v []) TF :=
  sat_createtoken3.weaken (fun _ h => tf_plain h.1 hty h.2.2) (fun _ h => h)

theorem sat_specialcasetokens_kw (s : Str) :
    Sat (specialcasetokens s) (fun r => ∀ ty, r = some ty → notKw ty = true) := by
  unfold specialcasetokens
  simp only []
  sat_walk_h
  all_goals (intro ty hty; cases hty <;> rfl)

theorem lookup_kw {s : Str} {ty : TokType}
    (h : List.lookup s reservedFirstCommandChars = some ty) :
    (ty = .WHILE → s = ['w', 'h', 'i', 'l', 'e']) ∧ (ty = .UNTIL → s = ['u', 'n', 't', 'i', 'l']) := by
  have hmem := mem_of_lookup h
  have hall : ∀ kv, kv ∈ reservedFirstCommandChars →
      (kv.2 = .WHILE → kv.1 = ['w', 'h', 'i', 'l', 'e']) ∧
      (kv.2 = .UNTIL → kv.1 = ['u', 'n', 't', 'i', 'l']) := by
    decide
  exact hall _ hmem

theorem sat_createtoken_lookup {s : Str} {ty : TokType}
    (h : List.lookup s reservedFirstCommandChars = some ty) :
    Sat (createtoken ty (.str s) []) TF := by
  refine sat_createtoken3.weaken (fun t ht => ?_) (fun _ h => h)
  obtain ⟨h1, h2, h3⟩ := ht
  have hk := lookup_kw h
  refine ⟨⟨fun hw => ?_, fun hw => ?_⟩, fun hq => ?_⟩
  · rw [h1] at hw; cases hw; rw [h2, hk.1 rfl]
  · rw [h1] at hw; cases hw; rw [h2, hk.2 rfl]
  · rw [h3] at hq; cases hq

theorem sat_isAssignment (s : Str) : Sat (isAssignment s) (fun _ => s ≠ []) := by
  unfold isAssignment
  split
  · exact Sat.foreign trivial
  · exact (Sat.trivial _).weaken (fun _ _ => by simp) (fun _ h => h)

/-- walk through a program whose join points have been inlined -/
macro "tf_walk" : tactic => `(tactic| repeat' (first
  | with_reducible refine Sat.ite (fun _ => ?_) (fun _ => ?_)
  | with_reducible exact Sat.foreign trivial
  | with_reducible exact Sat.raise trivial
  | with_reducible refine Sat.bind (sat_isAssignment _) (fun _ _ => ?_)
  | with_reducible refine Sat.bind sat_createtoken3 (fun _ _ => ?_)
  | with_reducible refine Sat.bind_any (fun _ => ?_)
  | with_reducible refine Sat.pure ?_))

set_option maxHeartbeats 1000000 in
theorem sat_finishWord_tf (st : RWState) : Sat (finishWord st) TF := by
  unfold finishWord
  simp only []
  refine Sat.bind_any (fun _ => ?_)
  refine Sat.bind_any (fun l => ?_)
  refine Sat.ite (fun _ => sat_createtoken_plain rfl) (fun _ => ?_)
  refine Sat.bind (sat_specialcasetokens_kw _) (fun r hr => ?_)
  split
  · exact sat_createtoken_plain (hr _ rfl)
  refine Sat.bind_any (fun l => ?_)
  have hword : Sat (do
      let tok ← createtoken .WORD (.str st.tokenword) []
      pure tok : M Token) (fun _ => True) := Sat.trivial _
  refine Sat.ite (fun _ => ?_) (fun _ => ?_)
  · split
    · rename_i ttype hlook
      have key : Sat (createtoken ttype (TVal.str st.tokenword)) TF := sat_createtoken_lookup hlook
      repeat' (first
        | exact key
        | refine Sat.ite (fun _ => ?_) (fun _ => ?_)
        | refine Sat.bind_any (fun _ => ?_))
    · tf_walk
      all_goals (first
        | exact absurd (by assumption : legalIdentifier _ = true) Bool.false_ne_true
        | exact tf_word (tw := st.tokenword) (Or.inr rfl) ‹_ ∧ _ ∧ _›.2.1 (by assumption)
        | exact tf_word (tw := st.tokenword) (Or.inl ‹_ ∧ _ ∧ _›.1) ‹_ ∧ _ ∧ _›.2.1 (by assumption))
  · tf_walk
    all_goals (first
        | exact absurd (by assumption : legalIdentifier _ = true) Bool.false_ne_true
        | exact tf_word (tw := st.tokenword) (Or.inr rfl) ‹_ ∧ _ ∧ _›.2.1 (by assumption)
        | exact tf_word (tw := st.tokenword) (Or.inl ‹_ ∧ _ ∧ _›.1) ‹_ ∧ _ ∧ _›.2.1 (by assumption))

theorem sat_readtokenword_tf (c : Char) : Sat (readtokenword c) TF := by
  unfold readtokenword
  exact Sat.bind_any (fun _ => Sat.bind_any (fun st => sat_finishWord_tf st))

def ReadTF (r : TokType ⊕ Token) : Prop :=
  match r with
  | .inl ty => bareOK ty = true
  | .inr t => TF t

theorem notKw_of_bare {ty : TokType} (h : bareOK ty = true) : notKw ty = true := by
  cases ty <;> first | rfl | (exfalso; revert h; decide)

theorem sat_readtoken_tf : Sat readtoken ReadTF := by
  unfold readtoken
  refine Sat.bind_any (fun _ => Sat.bind_any (fun _ => Sat.bind_any (fun c1 => ?_)))
  split
  · exact Sat.pure (tf_plain (ty := .EOF) rfl rfl rfl)
  rename_i ch
  refine Sat.bind_any (fun character => ?_)
  extract_lets -underBinder jp1
  have key1 : ∀ r c, Sat (jp1 r c) ReadTF := by
    intro r c
    simp -zeta only [jp1]
    refine Sat.bind_any (fun _ => ?_)
    have hty : Sat (do let t ← tokentypeOfChar c; pure (Sum.inl t) : M (TokType ⊕ Token)) ReadTF :=
      Sat.bind (sat_tokentypeOfChar c) (fun t ht => Sat.pure ht)
    have hword : Sat (do let t ← readtokenword c; pure (Sum.inr t) : M (TokType ⊕ Token)) ReadTF :=
      Sat.bind (sat_readtokenword_tf c) (fun t ht => Sat.pure ht)
    refine Sat.ite (fun _ => Sat.bind_any (fun _ => Sat.bind_any (fun _ => hty))) (fun _ => ?_)
    refine Sat.bind_any (fun _ => Sat.ite (fun _ => hword) (fun _ => ?_))
    refine Sat.bind_any (fun _ => Sat.bind_any (fun _ => ?_))
    extract_lets -underBinder jp2
    have key2 : ∀ r, Sat (jp2 r) ReadTF := by
      intro r
      simp -zeta only [jp2]
      exact Sat.bind_any (fun _ => Sat.ite (fun _ => hty) (fun _ => hword))
    refine Sat.ite (fun _ => ?_) (fun _ => key2 ())
    refine Sat.bind (sat_readtokenMeta c) (fun m hm => ?_)
    split
    · exact Sat.pure (hm _ rfl)
    · exact key2 ()
  refine Sat.ite (fun _ => ?_) (fun _ => key1 () _)
  exact Sat.bind_any (fun _ => Sat.bind_any (fun _ => key1 () _))

theorem sat_nextToken_tf : Sat nextToken TF := by
  unfold nextToken
  refine Sat.bind_any (fun _ => ?_)
  refine Sat.bind sat_readtoken_tf (fun r hr => ?_)
  extract_lets -underBinder jp
  have key : ∀ cur, TF cur → Sat (jp cur) TF := fun cur h =>
    Sat.bind_any (fun _ => Sat.bind_any (fun _ => Sat.pure h))
  split
  · exact Sat.bind_any (fun _ => Sat.bind (sat_createtoken_plain (notKw_of_bare hr)) (fun cur h => key cur h))
  · exact Sat.bind (Sat.pure (P := TF) hr) (fun cur h => key cur h)

/-- everything C01 and C12 know about a delivered token -/
def TokOK (t : Token) : Prop := TokWF t ∧ TF t

theorem sat_nextToken_ok : Sat nextToken TokOK := Sat.and sat_nextToken sat_nextToken_tf

end Bashlex.C01
