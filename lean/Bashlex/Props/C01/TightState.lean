/-
  C01 tight, part 5: two raise sites that depend on the STATE of the tokenizer but are excluded
  locally, i.e. whatever state `token()` is entered in:
    AssertionError|_createtoken   `_createtoken` pops two positions; `token()` records two
                                  (`recordpos 1` in `_readtoken`, `recordpos` before each
                                  `_createtoken`) and nothing in between touches the list;
    IndexError|_pop_delimiter     every `_pop_delimiter` follows a `_push_delimiter` with a
                                  balanced scan in between.
  State-aware logic `HT` of `Props/C11/Hoare.lean` with the invariant
  `PD n d` = "at least `n` recorded positions, delimiter stack = `d`"; the exception predicate `E2`
  excludes just the two sites, the rest comes from `t1_nextToken` (`HT.and_sat`).
-/
import Bashlex.Props.C11.Hoare
import Bashlex.Props.C11.Tactic
import Bashlex.Props.C01.TightWord

namespace Bashlex.C01
open Bashlex Bashlex.M Bashlex.C10 Bashlex.C11
set_option linter.unusedSimpArgs false
set_option linter.unusedVariables false

/-- at least `n` recorded positions, delimiter stack `d` -/
def PD (n : Nat) (d : List Char) (l : Local) (_ : Env) : Prop :=
  n ≤ l.positions.length ∧ l.dstack = d

/-- everything but the two sites -/
def E2 (x : Exn) : Prop :=
  x ≠ .foreign "AssertionError" "_createtoken" ∧ x ≠ .foreign "IndexError" "_pop_delimiter"

theorem e2_parsing {m s p} : E2 (.parsing m s p) := ⟨(fun h => by cases h), (fun h => by cases h)⟩
theorem e2_fuel {s} : E2 (.outOfFuel s) := ⟨(fun h => by cases h), (fun h => by cases h)⟩
theorem e2_foreign {a b : String}
    (h : ((a == "AssertionError" && b == "_createtoken") ||
          (a == "IndexError" && b == "_pop_delimiter")) = false) : E2 (.foreign a b) := by
  constructor <;> (intro hx; cases hx; simp at h)
theorem e2_mkParsingError {m s p} : E2 (mkParsingError m s p) := by
  unfold mkParsingError
  split
  · exact e2_parsing
  · exact e2_foreign rfl

macro "e2" : tactic => `(tactic| first
  | exact e2_fuel
  | exact e2_foreign rfl
  | exact e2_mkParsingError
  | exact e2_parsing)

/-- preserves `PD n d` -/
abbrev PSat {α : Type} (n : Nat) (d : List Char) (m : M α) : Prop :=
  HT (PD n d) m (fun _ => PD n d) E2

/-- known callees (extended after each lemma): closes `HT (PD n d) m ?Q E2` -/
syntax "pd_atom" : tactic
macro_rules | `(tactic| pd_atom) => `(tactic| assumption)
set_option hygiene false in
macro_rules | `(tactic| pd_atom) => `(tactic| exact hpmp _ _ _)
set_option hygiene false in
macro_rules | `(tactic| pd_atom) => `(tactic| exact hpcs _ _ _)
set_option hygiene false in
macro_rules | `(tactic| pd_atom) => `(tactic| exact hd _ _ _ _ _)
set_option hygiene false in
macro_rules | `(tactic| pd_atom) => `(tactic| exact hpost _ _ _ _ _ _)
set_option hygiene false in
macro_rules | `(tactic| pd_atom) => `(tactic| exact hcpost _ _ _ _ _)

theorem pd_ask (q : Query) (n : Nat) (d : List Char) : PSat n d (M.ask q) := by
  intro l e h; rw [C10.run_ask]; exact h
macro_rules | `(tactic| pd_atom) => `(tactic| exact pd_ask _ _ _)

theorem ht_loopI {σ α : Type} {I : Local → Env → Prop} {E : Exn → Prop} {site : String}
    {body : σ → M (σ ⊕ α)} (hfuel : E (.outOfFuel site))
    (hbody : ∀ s, HT I (body s) (fun _ => I) E) (fuel : Nat) (s : σ) :
    HT I (M.loop site body fuel s) (fun _ => I) E :=
  HT.loop (I := fun _ => I) hfuel (fun s => HT.post (hbody s) (fun r l e h => by cases r <;> exact h))
    fuel s

theorem htq_modify_bind {β : Type} {I : Local → Env → Prop} {E : Exn → Prop} {f : Local → Local}
    {k : Unit → M β} {Q : β → Local → Env → Prop} (h : ∀ l e, I l e → I (f l) e)
    (hk : HT I (k ()) Q E) : HT I (modify f >>= k) Q E :=
  HT.bind (Q := fun _ => I) (HT.modify h) (fun _ => hk)

theorem htq_set {I : Local → Env → Prop} {E : Exn → Prop} {l0 l1 : Local}
    {Q : Unit → Local → Env → Prop} (h : ∀ e, I l0 e → Q () l1 e) :
    HTQAt I l0 (MonadStateOf.set l1 : M Unit) Q E := by
  refine HT.set ?_
  rintro l e ⟨rfl, hi⟩
  exact h e hi

theorem htq_ask_bind {β : Type} {n : Nat} {d : List Char} {l0 : Local} {q : Query}
    {k : Answer q → M β} {Q : β → Local → Env → Prop}
    (h : ∀ a, HTQAt (PD n d) l0 (k a) Q E2) : HTQAt (PD n d) l0 (M.ask q >>= k) Q E2 := by
  intro l e ⟨hl, hp⟩
  rw [M.run_bind, C10.run_ask]
  exact h _ l _ ⟨hl, hp⟩

theorem ht_raise_bind {α β : Type} {P : Local → Env → Prop} {E : Exn → Prop} {x : Exn}
    {k : α → M β} {Q : β → Local → Env → Prop} (h : E x) : HT P ((M.raise x : M α) >>= k) Q E := by
  intro l e _; rw [M.run_bind, M.run_raise]; exact h
theorem ht_foreign_bind {α β : Type} {P : Local → Env → Prop} {E : Exn → Prop} {a b : String}
    {k : α → M β} {Q : β → Local → Env → Prop} (h : E (.foreign a b)) :
    HT P ((M.foreign a b : M α) >>= k) Q E := ht_raise_bind h

theorem ht_pure_bind {α β : Type} {P : Local → Env → Prop} {E : Exn → Prop} {a : α}
    {k : α → M β} {Q : β → Local → Env → Prop} (h : HT P (k a) Q E) :
    HT P ((Pure.pure a : M α) >>= k) Q E := by
  have : ((Pure.pure a : M α) >>= k) = k a := by simp
  rw [this]; exact h

theorem ht_ite_bind {α β : Type} {P : Local → Env → Prop} {E : Exn → Prop} {c : Prop} [Decidable c]
    {a b : M α} {k : α → M β} {Q : β → Local → Env → Prop}
    (ha : c → HT P (a >>= k) Q E) (hb : ¬ c → HT P (b >>= k) Q E) :
    HT P ((if c then a else b) >>= k) Q E := by
  split
  · exact ha ‹_›
  · exact hb ‹_›

theorem ht_bind_assoc {α β γ : Type} {P : Local → Env → Prop} {E : Exn → Prop} {m : M α}
    {f : α → M β} {k : β → M γ} {Q : γ → Local → Env → Prop}
    (h : HT P (m >>= fun a => f a >>= k) Q E) : HT P ((m >>= f) >>= k) Q E := by
  rw [bind_assoc]; exact h

/-- one step of the forward walk: goal `HT (PD n d) prog Q E2` -/
macro "pd_step" : tactic => `(tactic| first
  | with_reducible exact HT.pure (fun _ _ h => h)
  | with_reducible refine HT.ite (fun _ => ?_) (fun _ => ?_)
  | with_reducible refine HTQAt.ite (fun _ => ?_) (fun _ => ?_)
  | with_reducible refine HTQAt.ite_bind (fun _ => ?_) (fun _ => ?_)
  | with_reducible pd_atom
  | ((with_reducible apply HT.bind); (focus (with_reducible pd_atom)); intro _)
  | with_reducible refine HT.get_bind (fun _ => ?_)
  | ((with_reducible refine htq_modify_bind ?_ ?_); focus (intro _ _ h; exact h))
  | ((with_reducible refine HT.modify ?_); (intro _ _ h; exact h))
  | ((with_reducible refine HTQAt.set_bind ?_ ?_); focus (intro _ h; exact h))
  | ((with_reducible refine htq_set ?_); (intro _ h; exact h))
  | ((with_reducible refine HTQAt.foreign_bind ?_); e2)
  | ((with_reducible refine HTQAt.foreign ?_); e2)
  | with_reducible refine HTQAt.pure_bind ?_
  | with_reducible refine htq_ask_bind (fun _ => ?_)
  | with_reducible exact HT.pure (fun _ _ h => h.2)
  | split_head
  | with_reducible refine HTQAt.ofHT ?_
  | with_reducible refine ht_pure_bind ?_
  | with_reducible refine ht_bind_assoc ?_
  | with_reducible refine ht_ite_bind (fun _ => ?_) (fun _ => ?_)
  | ((with_reducible refine ht_foreign_bind ?_); e2)
  | ((with_reducible refine ht_raise_bind ?_); e2)
  | ((with_reducible refine HT.raise ?_); e2)
  | ((with_reducible refine HT.foreign ?_); e2)
  | ((with_reducible refine HT.bind (Q := fun _ => PD _ _) (ht_loopI ?_ (fun _ => ?_) _ _) (fun _ => ?_)); focus e2)
  | ((with_reducible refine ht_loopI ?_ (fun _ => ?_) _ _); focus e2))

macro "pd_walk" : tactic => `(tactic| repeat' pd_step)

/-! ### tape access -/

theorem pd_getc (rqn : Bool) (n : Nat) (d : List Char) : PSat n d (getc rqn) := by
  unfold getc; (try simp only []); pd_walk
macro_rules | `(tactic| pd_atom) => `(tactic| exact pd_getc _ _ _)

theorem pd_ungetc (c : Option Char) (n : Nat) (d : List Char) : PSat n d (ungetc c) := by
  unfold ungetc; (try simp only []); pd_walk
macro_rules | `(tactic| pd_atom) => `(tactic| exact pd_ungetc _ _ _)

theorem pd_bumpIdx (n : Nat) (d : List Char) : PSat n d bumpIdx := by
  unfold bumpIdx; (try simp only []); pd_walk
macro_rules | `(tactic| pd_atom) => `(tactic| exact pd_bumpIdx _ _)

theorem pd_curIdx (n : Nat) (d : List Char) : PSat n d curIdx := by
  unfold curIdx; (try simp only []); pd_walk
theorem pd_tapeSource (n : Nat) (d : List Char) : PSat n d tapeSource := by
  unfold tapeSource; (try simp only []); pd_walk
theorem pd_tapeLine (n : Nat) (d : List Char) : PSat n d tapeLine := by
  unfold tapeLine; (try simp only []); pd_walk
theorem pd_tapeAdded (n : Nat) (d : List Char) : PSat n d tapeAdded := by
  unfold tapeAdded; (try simp only []); pd_walk
theorem pd_optStrict (n : Nat) (d : List Char) : PSat n d optStrict := by
  unfold optStrict; (try simp only []); pd_walk
theorem pd_optProceed (n : Nat) (d : List Char) : PSat n d optProceed := by
  unfold optProceed; (try simp only []); pd_walk
theorem pd_syn (c : Char) (n : Nat) (d : List Char) : PSat n d (syn c) := pd_ask _ _ _
macro_rules | `(tactic| pd_atom) => `(tactic| exact pd_curIdx _ _)
macro_rules | `(tactic| pd_atom) => `(tactic| exact pd_tapeSource _ _)
macro_rules | `(tactic| pd_atom) => `(tactic| exact pd_tapeLine _ _)
macro_rules | `(tactic| pd_atom) => `(tactic| exact pd_tapeAdded _ _)
macro_rules | `(tactic| pd_atom) => `(tactic| exact pd_optStrict _ _)
macro_rules | `(tactic| pd_atom) => `(tactic| exact pd_optProceed _ _)
macro_rules | `(tactic| pd_atom) => `(tactic| exact pd_syn _ _ _)

theorem pd_shellmeta (c : Char) (n : Nat) (d : List Char) : PSat n d (shellmeta c) := by unfold shellmeta; pd_walk
theorem pd_shellquote (c : Char) (n : Nat) (d : List Char) : PSat n d (shellquote c) := by unfold shellquote; pd_walk
theorem pd_shellexp (c : Char) (n : Nat) (d : List Char) : PSat n d (shellexp c) := by unfold shellexp; pd_walk
theorem pd_shellbreak (c : Char) (n : Nat) (d : List Char) : PSat n d (shellbreak c) := by unfold shellbreak; pd_walk
macro_rules | `(tactic| pd_atom) => `(tactic| exact pd_shellmeta _ _ _)
macro_rules | `(tactic| pd_atom) => `(tactic| exact pd_shellquote _ _ _)
macro_rules | `(tactic| pd_atom) => `(tactic| exact pd_shellexp _ _ _)
macro_rules | `(tactic| pd_atom) => `(tactic| exact pd_shellbreak _ _ _)

theorem pd_peekc (rqn : Bool) (n : Nat) (d : List Char) : PSat n d (peekc rqn) := by
  unfold peekc; (try simp only []); pd_walk
macro_rules | `(tactic| pd_atom) => `(tactic| exact pd_peekc _ _ _)

theorem pd_matchedPairError {α : Type} (c : Char) (n : Nat) (d : List Char) :
    PSat n d (matchedPairError c : M α) := by
  unfold matchedPairError; pd_walk
macro_rules | `(tactic| pd_atom) => `(tactic| exact pd_matchedPairError _ _ _)

theorem pd_loopFuel (n : Nat) (d : List Char) : PSat n d loopFuel := HT.pure (fun _ _ h => h)
theorem pd_depthFuel (n : Nat) (d : List Char) : PSat n d depthFuel := HT.pure (fun _ _ h => h)
macro_rules | `(tactic| pd_atom) => `(tactic| exact pd_loopFuel _ _)
macro_rules | `(tactic| pd_atom) => `(tactic| exact pd_depthFuel _ _)

/-! ### the two lists -/

theorem pd_recordpos (rel : Nat) (n : Nat) (d : List Char) :
    HT (PD n d) (recordpos rel) (fun _ => PD (n + 1) d) E2 := by
  unfold recordpos
  refine HT.bind (pd_curIdx n d) (fun i => ?_)
  refine HT.modify (fun l e h => ⟨?_, h.2⟩)
  show n + 1 ≤ (l.positions ++ [i - rel]).length
  have := h.1
  simp only [List.length_append, List.length_cons, List.length_nil]; omega

theorem pd_createtoken (ty : TokType) (v : TVal) (fl : WordFlags) (n : Nat) (d : List Char) :
    HT (PD (n + 1 + 1) d) (createtoken ty v fl) (fun _ => PD n d) E2 := by
  unfold createtoken; (try simp only [])
  refine HT.get_bind (fun l0 => ?_)
  refine HTQAt.ite (fun hlt => ?_) (fun _ => ?_)
  · intro l e ⟨hl, h⟩
    subst hl
    have := h.1
    omega
  · refine HT.bind (Q := fun _ => PD n d) ?_ (fun _ => ?_)
    · refine HT.set ?_
      rintro l e ⟨rfl, h⟩
      refine ⟨?_, h.2⟩
      show n ≤ l.positions.dropLast.dropLast.length
      have := h.1
      simp only [List.length_dropLast]
      omega
    · refine HT.ite (fun _ => ?_) (fun _ => HT.pure (fun _ _ h => h))
      exact HT.bind (Q := fun _ _ _ => False) (HT.foreign (by e2)) (fun _ => HT.pre_false)

theorem pd_push (c : Char) (n : Nat) (d : List Char) :
    HT (PD n d) (pushDelimiter c) (fun _ => PD n (d ++ [c])) E2 := by
  unfold pushDelimiter
  refine HT.modify (fun l e h => ⟨h.1, ?_⟩)
  show l.dstack ++ [c] = d ++ [c]
  rw [h.2]

theorem pd_pop (c : Char) (n : Nat) (d : List Char) :
    HT (PD n (d ++ [c])) popDelimiter (fun _ => PD n d) E2 := by
  intro l e ⟨h1, h2⟩
  unfold popDelimiter
  simp only [M.run_bind, C10.run_get, h2]
  have hne : (d ++ [c]).isEmpty = false := by simp
  simp only [hne, Bool.false_eq_true, if_false, C10.run_set]
  exact ⟨h1, by simp⟩

theorem pd_currentDelimiter (n : Nat) (d : List Char) : PSat n d currentDelimiter := by
  unfold currentDelimiter; pd_walk
macro_rules | `(tactic| pd_atom) => `(tactic| exact pd_currentDelimiter _ _)
macro_rules | `(tactic| pd_atom) => `(tactic| exact pd_recordpos _ _ _)
macro_rules | `(tactic| pd_atom) => `(tactic| exact pd_createtoken _ _ _ _ _)
macro_rules | `(tactic| pd_atom) => `(tactic| exact pd_push _ _ _)
macro_rules | `(tactic| pd_atom) => `(tactic| exact pd_pop _ _ _)

end Bashlex.C01
