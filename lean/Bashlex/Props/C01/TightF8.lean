/-
  C01 tight, part 15: the state-agnostic walk for the exception predicate `F8` (neither
  `AssertionError|token.__init__` nor `IndexError|_is_assignment`) through every function of the
  tokenizer that does not contain one of the two sites (generated from `Tokenizer.lean` by
  renaming; `_createtoken`, `_is_assignment`, `finishWord`, `_readtokenword`, `_readtoken`, `token()`
  are treated in `TightLvl*.lean`).
-/
import Bashlex.Props.C01.Tokenizer

namespace Bashlex.C01
open Bashlex Bashlex.M
set_option linter.unusedSimpArgs false
set_option linter.unusedVariables false

def F8 (x : Exn) : Prop :=
  x ≠ .foreign "AssertionError" "token.__init__" ∧ x ≠ .foreign "IndexError" "_is_assignment"

theorem f8_parsing {m s p} : F8 (.parsing m s p) := ⟨(fun h => by cases h), (fun h => by cases h)⟩
theorem f8_fuel {s} : F8 (.outOfFuel s) := ⟨(fun h => by cases h), (fun h => by cases h)⟩
theorem f8_ni {s} : F8 (.notImplemented s) := ⟨(fun h => by cases h), (fun h => by cases h)⟩
theorem f8_foreign {a b : String}
    (h : ((a == "AssertionError" && b == "token.__init__") ||
          (a == "IndexError" && b == "_is_assignment")) = false) : F8 (.foreign a b) := by
  constructor <;> (intro hx; cases hx; simp at h)
theorem f8_mkParsingError {m s p} : F8 (mkParsingError m s p) := by
  unfold mkParsingError
  split
  · exact f8_parsing
  · exact f8_foreign rfl

macro "f8exn" : tactic => `(tactic| first
  | exact f8_fuel
  | exact f8_foreign rfl
  | exact f8_mkParsingError
  | exact f8_parsing
  | exact f8_ni)

abbrev F8Sat {α : Type} (m : M α) : Prop := Sat m (fun _ => True) F8

syntax "f8_atom" : tactic
macro_rules | `(tactic| f8_atom) => `(tactic| assumption)
set_option hygiene false in
macro_rules | `(tactic| f8_atom) => `(tactic| exact hpmp _)
set_option hygiene false in
macro_rules | `(tactic| f8_atom) => `(tactic| exact hpcs _)
set_option hygiene false in
macro_rules | `(tactic| f8_atom) => `(tactic| exact hd _ _ _)
set_option hygiene false in
macro_rules | `(tactic| f8_atom) => `(tactic| exact hpost _ _ _ _)
set_option hygiene false in
macro_rules | `(tactic| f8_atom) => `(tactic| exact hcpost _ _ _)
macro_rules | `(tactic| f8_atom) => `(tactic| exact NoExn.sat noExn_get)
macro_rules | `(tactic| f8_atom) => `(tactic| exact NoExn.sat (noExn_set _))
macro_rules | `(tactic| f8_atom) => `(tactic| exact NoExn.sat (noExn_modify _))
macro_rules | `(tactic| f8_atom) => `(tactic| exact NoExn.sat (noExn_ask _))
macro_rules | `(tactic| f8_atom) => `(tactic| exact NoExn.sat noExn_curIdx)
macro_rules | `(tactic| f8_atom) => `(tactic| exact NoExn.sat noExn_tapeSource)
macro_rules | `(tactic| f8_atom) => `(tactic| exact NoExn.sat noExn_tapeLine)
macro_rules | `(tactic| f8_atom) => `(tactic| exact NoExn.sat noExn_tapeAdded)
macro_rules | `(tactic| f8_atom) => `(tactic| exact NoExn.sat noExn_optStrict)
macro_rules | `(tactic| f8_atom) => `(tactic| exact NoExn.sat noExn_optProceed)
macro_rules | `(tactic| f8_atom) => `(tactic| exact NoExn.sat (noExn_pure _))

macro "f8_walk" : tactic => `(tactic| repeat' (first
  | with_reducible exact Sat.pure True.intro
  | with_reducible refine Sat.ite (fun _ => ?_) (fun _ => ?_)
  | with_reducible f8_atom
  | with_reducible refine sat_bindE ?_ (fun _ => ?_)
  | ((with_reducible refine Sat.raise ?_); f8exn)
  | ((with_reducible refine Sat.foreign ?_); f8exn)
  | ((with_reducible refine sat_loopT ?_ (fun _ => ?_) _ _); focus f8exn)
  | split))

/-! ### tape access -/

theorem f8_getc (rqn : Bool) : F8Sat (getc rqn) := by
  unfold getc; (try simp only []); f8_walk
macro_rules | `(tactic| f8_atom) => `(tactic| exact f8_getc _)

theorem f8_ungetc (c : Option Char) : F8Sat (ungetc c) := by
  unfold ungetc; (try simp only []); f8_walk
macro_rules | `(tactic| f8_atom) => `(tactic| exact f8_ungetc _)

theorem f8_bumpIdx : F8Sat bumpIdx := by
  unfold bumpIdx; (try simp only []); f8_walk
macro_rules | `(tactic| f8_atom) => `(tactic| exact f8_bumpIdx)

theorem f8_syn (c : Char) : F8Sat (syn c) := NoExn.sat (noExn_ask _)
macro_rules | `(tactic| f8_atom) => `(tactic| exact f8_syn _)

theorem f8_shellmeta (c : Char) : F8Sat (shellmeta c) := by unfold shellmeta; f8_walk
theorem f8_shellquote (c : Char) : F8Sat (shellquote c) := by unfold shellquote; f8_walk
theorem f8_shellexp (c : Char) : F8Sat (shellexp c) := by unfold shellexp; f8_walk
theorem f8_shellbreak (c : Char) : F8Sat (shellbreak c) := by unfold shellbreak; f8_walk
macro_rules | `(tactic| f8_atom) => `(tactic| exact f8_shellmeta _)
macro_rules | `(tactic| f8_atom) => `(tactic| exact f8_shellquote _)
macro_rules | `(tactic| f8_atom) => `(tactic| exact f8_shellexp _)
macro_rules | `(tactic| f8_atom) => `(tactic| exact f8_shellbreak _)

theorem f8_peekc (rqn : Bool) : F8Sat (peekc rqn) := by
  unfold peekc; (try simp only []); f8_walk
macro_rules | `(tactic| f8_atom) => `(tactic| exact f8_peekc _)

theorem f8_recordpos (rel : Nat) : F8Sat (recordpos rel) := by
  unfold recordpos; f8_walk
macro_rules | `(tactic| f8_atom) => `(tactic| exact f8_recordpos _)

theorem f8_matchedPairError {α : Type} (c : Char) : F8Sat (matchedPairError c : M α) := by
  unfold matchedPairError; f8_walk
macro_rules | `(tactic| f8_atom) => `(tactic| exact f8_matchedPairError _)

theorem f8_loopFuel : F8Sat loopFuel := Sat.pure True.intro
theorem f8_depthFuel : F8Sat depthFuel := Sat.pure True.intro
macro_rules | `(tactic| f8_atom) => `(tactic| exact f8_loopFuel)
macro_rules | `(tactic| f8_atom) => `(tactic| exact f8_depthFuel)

/-! ### here-documents -/

theorem f8_readline (b : Bool) : F8Sat (readline b) := by
  unfold readline; (try simp only []); f8_walk
macro_rules | `(tactic| f8_atom) => `(tactic| exact f8_readline _)

theorem f8_makeheredoc (id : Nat) (kill : Bool) : F8Sat (makeheredoc id kill) := by
  unfold makeheredoc; (try simp only []); f8_walk
macro_rules | `(tactic| f8_atom) => `(tactic| exact f8_makeheredoc _ _)

/-- **hGather**: `gatherheredocuments` raises only `TokExn` -/
theorem f8_gatherheredocuments : F8Sat gatherheredocuments := by
  unfold gatherheredocuments; (try simp only []); f8_walk
macro_rules | `(tactic| f8_atom) => `(tactic| exact f8_gatherheredocuments)

/-! ### `_parse_matched_pair`, `_parse_comsub` -/

theorem f8_pushDelimiter (c : Char) : F8Sat (pushDelimiter c) := by unfold pushDelimiter; f8_walk
theorem f8_popDelimiter : F8Sat popDelimiter := by unfold popDelimiter; f8_walk
theorem f8_currentDelimiter : F8Sat currentDelimiter := by unfold currentDelimiter; f8_walk
macro_rules | `(tactic| f8_atom) => `(tactic| exact f8_pushDelimiter _)
macro_rules | `(tactic| f8_atom) => `(tactic| exact f8_popDelimiter)
macro_rules | `(tactic| f8_atom) => `(tactic| exact f8_currentDelimiter)

theorem f8_mpInit (P : MPParams) : F8Sat (mpInit P) := by
  unfold mpInit; (try simp only []); f8_walk
macro_rules | `(tactic| f8_atom) => `(tactic| exact f8_mpInit _)

theorem f8_mpPre (P : MPParams) (lfc : Bool) (st : MPState) : F8Sat (mpPre P lfc st) := by
  unfold mpPre; (try simp only []); f8_walk
macro_rules | `(tactic| f8_atom) => `(tactic| exact f8_mpPre _ _ _)

theorem f8_handledollarword {pmp : MPParams → M Str} {pcs : CSParams → M Str}
    (hpmp : ∀ P, F8Sat (pmp P)) (hpcs : ∀ P, F8Sat (pcs P)) (P : MPParams) (rdquote : Bool) (c : Char) :
    F8Sat (handledollarword pmp pcs P rdquote c) := by
  unfold handledollarword; (try simp only []); f8_walk

theorem f8_mpPost {pmp : MPParams → M Str} {pcs : CSParams → M Str}
    (hpmp : ∀ P, F8Sat (pmp P)) (hpcs : ∀ P, F8Sat (pcs P)) (P : MPParams) (rdquote : Bool)
    (st : MPState) (c : Char) : F8Sat (mpPost pmp pcs P rdquote st c) := by
  have hd := f8_handledollarword hpmp hpcs
  unfold mpPost; (try simp only []); f8_walk

theorem f8_csDelimMatches (st : CSState) : F8Sat (csDelimMatches st) := by
  unfold csDelimMatches; (try simp only []); f8_walk
macro_rules | `(tactic| f8_atom) => `(tactic| exact f8_csDelimMatches _)

theorem f8_csA (P : CSParams) (st : CSState) : F8Sat (csA P st) := by
  unfold csA; (try simp only []); f8_walk
theorem f8_csB (b : Bool) (st : CSState) (c : Char) : F8Sat (csB b st c) := by
  unfold csB; (try simp only []); f8_walk
theorem f8_csC (P : CSParams) (b : Bool) (st : CSState) (c : Char) : F8Sat (csC P b st c) := by
  unfold csC; (try simp only []); f8_walk
theorem f8_csD (P : CSParams) (st : CSState) (c : Char) : F8Sat (csD P st c) := by
  unfold csD; (try simp only []); f8_walk
macro_rules | `(tactic| f8_atom) => `(tactic| exact f8_csA _ _)
macro_rules | `(tactic| f8_atom) => `(tactic| exact f8_csB _ _ _)
macro_rules | `(tactic| f8_atom) => `(tactic| exact f8_csC _ _ _ _)
macro_rules | `(tactic| f8_atom) => `(tactic| exact f8_csD _ _ _)

theorem f8_csPre (P : CSParams) (b : Bool) (st : CSState) : F8Sat (csPre P b st) := by
  unfold csPre; (try simp only []); f8_walk
macro_rules | `(tactic| f8_atom) => `(tactic| exact f8_csPre _ _ _)

theorem f8_csPost {pmp : MPParams → M Str} {pcs : CSParams → M Str}
    (hpmp : ∀ P, F8Sat (pmp P)) (hpcs : ∀ P, F8Sat (pcs P)) (P : CSParams)
    (st : CSState) (c : Char) : F8Sat (csPost pmp pcs P st c) := by
  unfold csPost; (try simp only []); f8_walk

/-- the two mutually recursive scanners, by induction on the depth fuel -/
theorem f8_pmp_pcs : ∀ fuel, (∀ P, F8Sat (parseMatchedPair fuel P)) ∧ (∀ P, F8Sat (parseComsub fuel P)) := by
  intro fuel
  induction fuel with
  | zero =>
    refine ⟨fun P => ?_, fun P => ?_⟩
    · unfold parseMatchedPair; f8_walk
    · unfold parseComsub; f8_walk
  | succ fuel ih =>
    obtain ⟨hpmp, hpcs⟩ := ih
    have hpost := f8_mpPost hpmp hpcs
    have hcpost := f8_csPost hpmp hpcs
    refine ⟨fun P => ?_, fun P => ?_⟩
    · unfold parseMatchedPair; (try simp only []); f8_walk
    · unfold parseComsub; (try simp only []); f8_walk

theorem f8_parseMatchedPair (fuel : Nat) (P : MPParams) : F8Sat (parseMatchedPair fuel P) :=
  (f8_pmp_pcs fuel).1 P
theorem f8_parseComsub (fuel : Nat) (P : CSParams) : F8Sat (parseComsub fuel P) :=
  (f8_pmp_pcs fuel).2 P
macro_rules | `(tactic| f8_atom) => `(tactic| exact f8_parseMatchedPair _ _)
macro_rules | `(tactic| f8_atom) => `(tactic| exact f8_parseComsub _ _)

/-! ### tokens -/

theorem f8_specialcasetokens (s : Str) : F8Sat (specialcasetokens s) := by
  unfold specialcasetokens; (try simp only []); f8_walk
macro_rules | `(tactic| f8_atom) => `(tactic| exact f8_specialcasetokens _)

theorem f8_handleshellquote (st : RWState) (c : Char) : F8Sat (handleshellquote st c) := by
  unfold handleshellquote; (try simp only []); f8_walk
macro_rules | `(tactic| f8_atom) => `(tactic| exact f8_handleshellquote _ _)

theorem f8_handleshellexp (st : RWState) (c : Char) (cd : Option Char) :
    F8Sat (handleshellexp st c cd) := by
  unfold handleshellexp; (try simp only []); f8_walk
macro_rules | `(tactic| f8_atom) => `(tactic| exact f8_handleshellexp _ _ _)

theorem f8_readtokenwordStep (st : RWState) : F8Sat (readtokenwordStep st) := by
  unfold readtokenwordStep; (try simp only []); f8_walk
macro_rules | `(tactic| f8_atom) => `(tactic| exact f8_readtokenwordStep _)

theorem f8_discardUntil (c : Char) : F8Sat (discardUntil c) := by
  unfold discardUntil; (try simp only []); f8_walk
macro_rules | `(tactic| f8_atom) => `(tactic| exact f8_discardUntil _)

theorem f8_tokentypeOfChar (c : Char) : F8Sat (tokentypeOfChar c) := by
  unfold tokentypeOfChar; (try simp only []); f8_walk
macro_rules | `(tactic| f8_atom) => `(tactic| exact f8_tokentypeOfChar _)

theorem f8_readtokenMeta (c : Char) : F8Sat (readtokenMeta c) := by
  unfold readtokenMeta; (try simp only []); f8_walk
macro_rules | `(tactic| f8_atom) => `(tactic| exact f8_readtokenMeta _)
end Bashlex.C01
