/-
  C01 tight 2, part 5: `IndexError|_extractcommandsubst` never escapes -- the value invariant `VT`
  (tokens on the LR stack do not end in `$(`) through the LR engine (`C11.run_ok`), the nested
  parsers of every depth and the entry points.
-/
import Bashlex.Props.C01.T2Val
import Bashlex.Props.C01.TightLvlParse

namespace Bashlex.C01
open Bashlex Bashlex.M Bashlex.C10 Bashlex.C11 Bashlex.LR Bashlex.C01.T2
set_option linter.unusedSimpArgs false
set_option linter.unusedVariables false

theorem h9_sat_post {α : Type} {m : M α} {P : α → Prop} (h : Sat m P E9) :
    HT TI9 m (fun a l e => P a ∧ TI9 l e) E9 := by
  intro l e _
  have := h l e
  revert this
  rcases m.run l e with ⟨r, e'⟩
  cases r with
  | ok v => exact fun h => ⟨h, True.intro⟩
  | error x => exact fun h => h

/-- `token()`: the value does not end in `$(`, and the site is not raised -/
theorem sat9_nextToken : Sat nextToken TP E9 :=
  sat_conj sat_nextToken_tp (t1_nextToken.weaken (fun _ h => h) (fun _ h => tokExn1_e9 h))

theorem e9_site {ty site : String} (h1 : site ≠ "_extractcommandsubst") : E9 (.foreign ty site) := by
  intro h; injection h with _ h; exact h1 h

section
variable {np : NestedParse}

theorem hooks9 (hnp : NP9 np) : HooksOK TI9 (lrHooks np) VT E9 := by
  refine ⟨?_, ?_, ?_, ?_, ?_⟩
  · show SatI TI9 (nextToken >>= fun t => pure (symOfTok t, SVal.tok t)) _ _
    refine HT.bind (h9_sat_post sat9_nextToken) (fun t => HT.pre_pure (fun ht => ?_))
    refine HT.pure (fun l e h => ⟨?_, h⟩)
    intro t' ht'
    cases ht'
    exact ht
  · intro p args hargs
    refine HT.weaken (HT.and_sat (h9_action hnp (Gen.prodFuncs.getD p "") args hargs)
      (vt_action np (Gen.prodFuncs.getD p "") args hargs)) (fun _ _ h => h) (fun _ _ _ h => h)
      (fun _ h => h.2)
  · rintro ⟨sym, v⟩ _
    show HT _ (match v with | .tok t => pError t | _ => M.foreign "AssertionError" "p_error") _ _
    split
    · unfold pError
      refine HT.bind (Q := fun _ => TI9) h9_tapeSource (fun src => ?_)
      split
      · exact HT.raise e9_mkParsingError
      · exact HT.raise e9_mkParsingError
    · exact HT.foreign (e9_foreign rfl)
  · intro ty
    exact ⟨e9_site (by decide), e9_site (by decide)⟩
  · exact e9_fuel

theorem parserRunWith9 (hnp : NP9 np) : HSat9 (parserRunWith np) := by
  unfold parserRunWith
  refine HT.bind (HT.post (run_ok _ _ (hooks9 hnp) _) (fun _ _ _ h => h.2)) (fun res => ?_)
  refine HT.bind (Q := fun _ => TI9) (HT.post HT.get (fun _ _ _ h => h.2)) (fun l => ?_)
  simp only []
  split <;> exact HT.pure (fun _ _ h => h)

theorem np9_nestedOf {inner : M (Option Node)} (hin : HSat9 inner) : NP9 (nestedOf inner) := by
  intro s b l e _
  rw [run_nestedOf]
  have h := hin (nestedLocal l s b) e True.intro
  rcases hr : M.run inner (nestedLocal l s b) e with ⟨r, e'⟩
  rw [hr] at h
  cases r with
  | error x => exact h
  | ok v => exact True.intro

end

/-- every nesting depth -/
theorem parserRun9 : ∀ d, HSat9 (parserRun d) := by
  intro d
  induction d with
  | zero => exact HT.raise e9_fuel
  | succ d ih =>
    rw [parserRun_succ]
    exact parserRunWith9 (np9_nestedOf ih)

theorem runParser_e9 {s : Str} {o : Opts} {t : List Char} {x : Exn}
    (h : (runParser s o t).1 = .error x) : E9 x := by
  unfold runParser at h
  simp only [] at h
  rcases hrun : (parserRun maxDepth).run { limit := o.limit }
      { tape := Tape.ofInput s, strict := o.strict, proceed := o.proceed, touched := t } with ⟨r, env'⟩
  rw [hrun] at h
  simp only [] at h
  cases r with
  | ok v => simp only [Except.map] at h; cases h
  | error y =>
    simp only [Except.map] at h
    cases h
    exact HT.err (parserRun9 maxDepth) (l := { limit := o.limit })
      (e := { tape := Tape.ofInput s, strict := o.strict, proceed := o.proceed, touched := t })
      True.intro hrun

/-- **`parse` never raises `IndexError|_extractcommandsubst`** -/
theorem parse_e9 (s : Str) (o : Opts) {x : Exn} (h : (parse s o).1 = .exn x) : E9 x := by
  rcases parse_exn s o h with h | rfl | ⟨i, t, _, _, h⟩
  · exact runParser_e9 h
  · exact e9_fuel
  · exact runParser_e9 h

theorem parsesingle_e9 (s : Str) (o : Opts) {x : Exn} (h : (parsesingle s o).1 = .exn x) : E9 x :=
  runParser_e9 (parsesingle_exn s o h)

/-- `split` -/
theorem splitM9 (s : Str) : HSat9 (splitM s) := by
  have hnp : NP9 (nestedOf (parserRun maxDepth)) := np9_nestedOf (parserRun9 maxDepth)
  have hexp : ∀ t dq, TP t → HSat9 (expandwordinternal (nestedOf (parserRun maxDepth)) t dq) :=
    fun t dq ht => h9_expandwordinternal hnp t dq ht
  unfold splitM
  simp only []
  refine HT.bind (Q := fun _ => TI9) (h9_sat (NoExn.sat noExn_tapeLine)) (fun line => ?_)
  refine HT.bind (Q := fun _ => TI9) (h9_sat (NoExn.sat noExn_tapeAdded)) (fun added => ?_)
  refine ht_loopI e9_fuel (fun acc => ?_) _ _
  refine HT.bind (h9_sat_post sat9_nextToken) (fun t => HT.pre_pure (fun ht => ?_))
  refine HT.ite (fun _ => HT.pure (fun _ _ h => h)) (fun _ => ?_)
  refine HT.ite (fun _ => ?_) (fun _ => HT.pure (fun _ _ h => h))
  refine HT.ite (fun hq => ?_) (fun _ => ?_)
  · split
    · exact HT.bind (Q := fun _ _ _ => False) (HT.foreign (e9_foreign rfl)) (fun _ => HT.pre_false)
    · exact HT.bind (Q := fun _ => TI9) (HT.pure (fun _ _ h => h))
        (fun _ => HT.bind (hexp _ _ ht) (fun _ => HT.pure (fun _ _ h => h)))
  · exact HT.bind (Q := fun _ => TI9) (HT.pure (fun _ _ h => h))
      (fun _ => HT.bind (hexp _ _ ht) (fun _ => HT.pure (fun _ _ h => h)))

theorem split_e9 (s : Str) {x : Exn} (h : (split s).1 = .exn x) : E9 x := by
  unfold split at h
  simp only [] at h
  rcases hrun : (splitM s).run {} { tape := Tape.ofInput s } with ⟨r, env'⟩
  rw [hrun] at h
  simp only [] at h
  cases r with
  | ok v => cases h
  | error y =>
    cases h
    exact HT.err (splitM9 s) (l := {}) (e := { tape := Tape.ofInput s }) True.intro hrun

end Bashlex.C01
