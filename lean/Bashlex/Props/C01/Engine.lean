/-
  C01, part 3: the LR engine with an error function that never returns (bashlex's `p_error`
  always raises).  Same proof as `LR/Sound.lean` (`run_sound`), with the sharper conclusion that
  the engine itself adds no exception but running out of fuel: the marker of the unmodelled PLY
  error recovery is unreachable.
-/
import Bashlex.LR.Sound

namespace Bashlex.LR
open Bashlex
set_option linter.unusedSimpArgs false

variable {V : Type}

/-- like `HooksRaise`, but the error function never returns -/
structure HooksRaise' (T : Tables) (reach : Nat → Prop) (H : Hooks V) (VI : Nat → V → Prop)
    (LA : Nat × V → Prop) (E : Exn → Prop) : Prop where
  /-- `LA`: what is known of a look-ahead beyond the value invariant of its symbol -/
  next : M.Sat H.next (fun la => VI la.1 la.2 ∧ LA la) E
  /-- only for productions whose left-hand side has a goto from a reachable state (the engine
      reduces by no other: this excludes the augmented production `S' → inputunit`) -/
  act : ∀ p lhs rhs args, T.prods[p]? = some (lhs, rhs) →
      (∃ s t, reach s ∧ T.goto s lhs = some t) → Forall2 VI rhs args →
      M.Sat (H.act p args) (fun r => VI lhs r.1) E
  onError : ∀ la, LA la → M.Sat (H.onError la) (fun _ => False) E

/-- the engine invariant, plus what is known of the stored look-ahead -/
def Inv' (T : Tables) (reach : Nat → Prop) (VI : Nat → V → Prop) (LA : Nat × V → Prop)
    (c : Cfg V) : Prop :=
  Inv T reach VI c ∧ ∀ la, c.la = some la → LA la

/-- the only exception the engine itself adds -/
def EngineExn' (E : Exn → Prop) (x : Exn) : Prop := E x ∨ x = .outOfFuel "LRParser.parse"

theorem doReduce_sat' {T reach acc} (h : WF T reach acc) (H : Hooks V) {VI LA E}
    (hH : HooksRaise' T reach H VI LA E) (c : Cfg V) (p : Nat)
    (hinv : Inv T reach VI c) (hLA : ∀ la, c.la = some la → LA la)
    (hb : ∃ lhs rhs, T.prods[p]? = some (lhs, rhs) ∧
          BackOK T reach acc (topState c.stack) rhs.reverse lhs) :
    M.Sat (doReduce T H c p)
      (Sum.elim (Inv' T reach VI LA) (Good T VI)) (EngineExn' E) := by
  obtain ⟨⟨hp, hv, ⟨pre, hc, hpre⟩⟩, hvi, hvila⟩ := hinv
  obtain ⟨lhs, rhs, hprod, hback⟩ := hb
  obtain ⟨es, rest, t, hpop, hroots, hvl, hp', hv', hg, hl, hy, hmes, hmrest⟩ :=
    pop_of_back h rhs.reverse c.stack lhs hp hv hback
  simp only [List.length_reverse] at hpop
  have hroots' : es.map (fun e => e.tree.root) = rhs := by simpa using hroots
  have hvalid : Tree.Valid T (Tree.node p lhs (es.map (·.tree))) := by
    refine .node p lhs _ rhs hprod ?_ ?_
    · simpa [List.map_map, Function.comp_def] using hroots
    · intro k hk
      obtain ⟨e, he, rfl⟩ := List.mem_map.mp hk
      exact hvl e he
  have hargs : Forall2 VI rhs (es.map (·.val)) :=
    forall2_of_entries es rhs hroots' (fun e he => hvi e (hmes e he))
  have hnt : ¬ lhs < T.nTerms := Nat.not_lt.mpr hl
  unfold doReduce
  simp only [hprod, hpop]
  refine M.Sat.bind ((hH.act p lhs rhs _ hprod ⟨topState rest, t, reach_top h hp', hg⟩ hargs).weaken (fun _ h => h) (fun _ h => Or.inl h)) ?_
  rintro ⟨v, accept⟩ hvlhs
  simp only at hvlhs
  simp only [hg]
  by_cases hacc : accept = true
  · simp only [hacc, if_true]
    refine M.Sat.pure (P := Sum.elim (Inv' T reach VI LA) (Good T VI)) ?_
    simp only [Sum.elim_inr]
    refine ⟨⟨hvalid, pre, forestYield rest, ?_, hpre⟩, hvlhs⟩
    simp [hc, hy, Tree.yield, List.append_assoc]
  · simp only [hacc]
    refine M.Sat.pure (P := Sum.elim (Inv' T reach VI LA) (Good T VI)) ?_
    simp only [Sum.elim_inl]
    refine ⟨⟨⟨⟨?_, ?_, hp'⟩, ⟨hvalid, hv'⟩, ⟨pre, ?_, hpre⟩⟩, ?_, hvila⟩, hLA⟩
    · have hedge : T.edge (topState rest) lhs = some t := by simp [Tables.edge, hnt, hg]
      exact (h.closed _ _ _ (reach_top h hp') hedge).1
    · simp [Tree.root, Tables.edge, hnt, hg]
    · simp [forestYield, Tree.yield, hc, hy, List.append_assoc]
    · intro e he
      rcases List.mem_cons.mp he with he | he
      · subst he; exact hvlhs
      · exact hvi e (hmrest e he)

theorem step_sat' {T reach acc} (h : WF T reach acc)
    (H : Hooks V) {VI LA E} (hH : HooksRaise' T reach H VI LA E) (c : Cfg V) (hinv : Inv T reach VI c)
    (hLA : ∀ la, c.la = some la → LA la) :
    M.Sat (step T H c)
      (Sum.elim (Inv' T reach VI LA) (Good T VI)) (EngineExn' E) := by
  have hinv' := hinv
  obtain ⟨⟨hp, hv, ⟨pre, hc, hpre⟩⟩, hvi, hvila⟩ := hinv
  have hr := reach_top h hp
  unfold step
  simp only
  cases hd : T.dflt (topState c.stack) with
  | some p => exact doReduce_sat' h H hH c p hinv' hLA (h.redDflt _ p hr hd)
  | none =>
    simp only
    refine M.Sat.bind (P := fun la => VI la.1 la.2 ∧ LA la) ?_ ?_
    · cases hla : c.la with
      | some la => exact M.Sat.pure ⟨hvila la hla, hLA la hla⟩
      | none => exact hH.next.weaken (fun _ h => h) (fun _ h => Or.inl h)
    rintro ⟨la, lv⟩ ⟨hvla, hLAla⟩
    simp only at hvla hLAla
    simp only
    -- the configuration with the look-ahead stored satisfies the invariant too
    have hinvla : Inv T reach VI { c with la := some (la, lv) } :=
      ⟨⟨hp, hv, ⟨pre, by simpa using hc, hpre⟩⟩, hvi, by
        intro la' hla'; simp only [Option.some.injEq] at hla'; subst hla'; exact hvla⟩
    split
    · -- all-newline return
      rename_i hblank
      refine M.Sat.pure (P := Sum.elim (Inv' T reach VI LA) (Good T VI)) ?_
      simp only [Sum.elim_inr]
      simp only [Bool.and_eq_true, beq_iff_eq] at hblank
      obtain ⟨⟨hs0, _⟩, _⟩ := hblank
      have hnil : c.stack = [] := by
        cases hstk : c.stack with
        | nil => rfl
        | cons top rest =>
          rw [hstk] at hp hs0
          exact absurd hs0 (h.closed _ _ _ (reach_top h hp.2.2) hp.2.1).2.2
      simp only [Good]
      rw [hnil] at hc
      simp only [forestYield, List.append_nil] at hc
      rw [hc]; exact hpre
    · cases hact : T.action (topState c.stack) la with
      | none =>
        simp only
        exact M.Sat.bind ((hH.onError _ hLAla).weaken (fun _ h => h) (fun _ h => Or.inl h))
          (fun _ h => h.elim)
      | some a =>
        cases a with
        | shift t =>
          have hla := h.shiftTerm _ _ _ hact
          simp only
          split
          · rename_i hnlc
            refine M.Sat.pure (P := Sum.elim (Inv' T reach VI LA) (Good T VI)) ?_
            simp only [Sum.elim_inl]
            simp only [Bool.and_eq_true, beq_iff_eq] at hnlc
            obtain ⟨hs0, hlanl⟩ := hnlc
            have hnil : c.stack = [] := by
              cases hstk : c.stack with
              | nil => rfl
              | cons top rest =>
                rw [hstk] at hp hs0
                exact absurd hs0 (h.closed _ _ _ (reach_top h hp.2.2) hp.2.1).2.2
            refine ⟨⟨⟨hp, hv, ⟨c.consumed ++ [la], ?_, ?_⟩⟩, hvi, by intro la' hla'; cases hla'⟩,
              by intro la' hla'; cases hla'⟩
            · simp [hnil, forestYield]
            · rw [hnil] at hc
              simp only [forestYield, List.append_nil] at hc
              rw [hc]
              simp [List.all_append, hpre, hlanl]
          · refine M.Sat.pure (P := Sum.elim (Inv' T reach VI LA) (Good T VI)) ?_
            simp only [Sum.elim_inl]
            refine ⟨⟨⟨⟨?_, ?_, hp⟩, ⟨.leaf _ hla, hv⟩, ⟨pre, ?_, hpre⟩⟩, ?_, by intro la' hla'; cases hla'⟩,
              by intro la' hla'; cases hla'⟩
            · have hedge : T.edge (topState c.stack) la = some t := by
                simp [Tables.edge, hla, hact]
              exact (h.closed _ _ _ hr hedge).1
            · simp [Tree.root, Tables.edge, hla, hact]
            · simp [forestYield, Tree.yield, hc, List.append_assoc]
            · intro e he
              rcases List.mem_cons.mp he with he | he
              · subst he; exact hvla
              · exact hvi e he
        | reduce p =>
          exact doReduce_sat' h H hH _ p hinvla
            (by intro la' hla'; simp only [Option.some.injEq] at hla'; subst hla'; exact hLAla)
            (h.redAct _ _ p hr hact)
        | accept =>
          simp only
          split
          · rename_i top rest hstk
            have hstk' : c.stack = top :: rest := hstk
            refine M.Sat.pure (P := Sum.elim (Inv' T reach VI LA) (Good T VI)) ?_
            simp only [Sum.elim_inr]
            have hvtop := hvi top (by rw [hstk']; exact List.mem_cons_self)
            rw [hstk'] at hv hc
            refine ⟨⟨hv.1, pre, forestYield rest, ?_, hpre⟩, hvtop⟩
            simp [hc, forestYield, List.append_assoc]
          · rename_i hstk
            have hstk' : c.stack = [] := hstk
            rw [hstk'] at hact
            exact absurd hact (h.acceptNotInit _)

/-- `run_sound` for an error function that never returns: the engine adds nothing but running
    out of its fuel -/
theorem run_sound' {T reach acc} (h : WF T reach acc) (H : Hooks V) {VI LA E}
    (hH : HooksRaise' T reach H VI LA E) (fuel : Nat) :
    M.Sat (run T H fuel) (Good T VI) (EngineExn' E) := by
  unfold run
  refine M.Sat.loop (I := Inv' T reach VI LA) (Or.inr rfl) (fun s hs => step_sat' h H hH s hs.1 hs.2) fuel {} ?_
  refine ⟨⟨⟨True.intro, True.intro, ⟨[], by simp [forestYield], by simp⟩⟩, ?_, ?_⟩, ?_⟩
  · intro e he; cases he
  · intro la hla; cases hla
  · intro la hla; cases hla

end Bashlex.LR
