/-
  C01 tight, part 23: `token()` from every state the parser reaches (C11's invariant `Good4` with
  the flags off), and the lifting through the LR engine, the nested parsers and the entry points:
  `AssertionError|token.__init__` and `IndexError|_is_assignment` never escape.
-/
import Bashlex.Props.C01.TightLvlRead
import Bashlex.Props.C01.TightFlAct
import Bashlex.Props.C01.TightSplit

namespace Bashlex.C01
open Bashlex Bashlex.M Bashlex.C10 Bashlex.C11 Bashlex.C03.Tok Bashlex.LR
set_option linter.unusedSimpArgs false
set_option linter.unusedVariables false

/-- the cursor was moved past the end (non-strict here-document skip): nothing can be read -/
def DeadT (l : Local) (e : Env) : Prop :=
  l.eolLookahead = none ∧ (tapeOf l e).line.length < (tapeOf l e).idx

theorem getc_dead (rqn : Bool) : HT DeadT (getc rqn) (fun c l e => c = none ∧ DeadT l e) F8 := by
  intro l e ⟨h1, h2⟩
  rw [C10.run_getc rqn l e h1]
  have : (tapeOf l e).getc rqn ((tapeOf l e).line.length + 1) = .ok (none, tapeOf l e) := by
    unfold Tape.getc
    rw [if_neg (by omega)]
  rw [this]
  simp only []
  rw [putL_self, putE_self]
  exact ⟨trivial, h1, h2⟩

/-- `token()` in a dead state returns the EOF token -/
theorem next8_dead : HT DeadT nextToken (fun _ => TrueI) F8 := by
  unfold nextToken
  simp only []
  refine HT.bind (Q := fun _ => DeadT) (HT.modify (fun l e h => h)) (fun _ => ?_)
  refine HT.bind (Q := fun r _ _ => ∃ t, r = Sum.inr t) ?_ (fun r => HT.pre (P := fun _ _ => (∃ t, r = Sum.inr t) ∧ True) (HT.pre_pure (fun hr => ?_)) (fun _ _ h => ⟨h, True.intro⟩))
  · unfold readtoken
    simp only []
    refine HT.bind (Q := fun _ => DeadT) (HT.pure (fun _ _ h => h)) (fun fuel => ?_)
    refine HT.bind (getc_dead true) (fun c0 => HT.pre_pure (fun hc0 => ?_))
    subst hc0
    refine HT.bind (Q := fun c l e => c = none ∧ DeadT l e) ?_ (fun c1 => HT.pre_pure (fun hc1 => ?_))
    · refine HT.pre (HT.loop (I := fun c l e => c = none ∧ DeadT l e) f8_fuel (fun c => ?_) fuel none)
        (fun l e h => ⟨rfl, h⟩)
      refine HT.pre_pure (fun hc => ?_)
      subst hc
      exact HT.pure (fun _ _ h => ⟨rfl, h⟩)
    · subst hc1
      exact HT.pure (fun _ _ _ => ⟨_, rfl⟩)
  · cases r with
    | inl ty => obtain ⟨t, ht⟩ := hr; cases ht
    | inr t =>
      simp only [pure_bind]
      refine HT.bind (Q := fun _ _ _ => True) (HT.modify (fun _ _ _ => True.intro)) (fun _ => ?_)
      exact HT.bind (Q := fun _ _ _ => True) (HT.modify (fun _ _ h => h)) (fun _ => HT.pure (fun _ _ _ => True.intro))

theorem ofInput_last (s : Str) (h : (Tape.ofInput s).line ≠ []) :
    (Tape.ofInput s).line[(Tape.ofInput s).line.length - 1]? = some '\n' := by
  rw [← List.getLast?_eq_getElem?]
  unfold Tape.ofInput at h ⊢
  split
  · rename_i hn
    rw [List.getLast?_eq_none_iff] at hn
    rw [hn] at h
    simp at h
  · rename_i c hc
    split
    · rename_i hcn
      simp only []
      rw [hc]
      have : c = '\n' := by simpa using hcn
      rw [this]
    · simp only [List.getLast?_append, List.getLast?_singleton]
      rfl

/-- **`token()` from every state the parser reaches** -/
theorem next8_good {g : Ghost} (hg : WFG g) :
    HT (fun l e => Good4 g l e ∧ Fl l e) nextToken (fun _ => TrueI) F8 := by
  intro l e ⟨hG, hF⟩
  obtain ⟨⟨hb, hla, hidx, hps⟩, hslot⟩ := hG
  have hnl : g.line ≠ [] → g.line[g.line.length - 1]? = some '\n' := by
    obtain ⟨s, h1, h2⟩ := hg
    rw [h1]; exact ofInput_last s
  by_cases hle : (tapeOf l e).idx ≤ g.line.length
  · have hP0 : P0 g.line l.store l.redirstack l e :=
      ⟨⟨hb.2.1, hle, hslot, hps, rfl, rfl, Nat.zero_le _⟩, hF⟩
    exact next8 hnl l e hP0
  · exact next8_dead l e ⟨hslot, by rw [hb.2.1]; omega⟩

/-! ## through the engine and the nested parsers -/

/-- the invariant of the parser object -/
def I8 (g : Ghost) (l : Local) (e : Env) : Prop := Good4 g l e ∧ Fl l e

theorem f8_site {ty site : String} (h1 : site ≠ "token.__init__") (h2 : site ≠ "_is_assignment") :
    F8 (.foreign ty site) := by
  constructor
  · intro h; injection h with _ h; exact h1 h
  · intro h; injection h with _ h; exact h2 h

section
variable {g : Ghost} {N : Exn → Prop} {np : NestedParse}

theorem onError8 (la : Nat × SVal) :
    HT Fl ((lrHooks np).onError la) (fun _ _ _ => True) F8 := by
  obtain ⟨sym, v⟩ := la
  show HT _ (match v with | .tok t => pError t | _ => M.foreign "AssertionError" "p_error") _ _
  split
  · unfold pError
    refine HT.bind (Q := fun _ => Fl) (g_tapeSource) (fun src => ?_)
    split
    · exact HT.raise f8_mkParsingError
    · exact HT.raise f8_mkParsingError
  · exact HT.foreign (f8_foreign rfl)

theorem hooks8 (hg : WFG g) (hnp : NPOK g N np) (hk : ∀ s b, C10.KeepsEol (np s b)) (hnpF : NPF np) :
    HooksOK (I8 g) (lrHooks np) (VI g) (fun x => EN g N x ∧ F8 x) := by
  have h4 := hooks_ok4 hg hnp hk
  refine ⟨?_, ?_, ?_, ?_, ?_⟩
  · have a2 : HT Fl (lrHooks np).next (fun _ => Fl) ETrue :=
      HT.bind (m := nextToken) fl_nextToken (fun t => HT.pure (fun _ _ h => h))
    have a3 : HT (I8 g) (lrHooks np).next (fun _ => TrueI) F8 :=
      HT.bind (m := nextToken) (next8_good hg) (fun t => HT.pure (fun _ _ h => h))
    intro l e ⟨hG, hF⟩
    have b1 := h4.next l e hG
    have b2 := a2 l e hF
    have b3 := a3 l e ⟨hG, hF⟩
    revert b1 b2 b3
    rcases (lrHooks np).next.run l e with ⟨r, e'⟩
    cases r with
    | error x => exact fun b1 _ b3 => ⟨b1, b3⟩
    | ok v => exact fun b1 b2 _ => ⟨b1.1, b1.2, b2⟩
  · intro p args hargs l e ⟨hG, hF⟩
    have b1 := h4.act p args hargs l e hG
    have b2 := (g_action hnpF (Gen.prodFuncs.getD p "") args :
      HT Fl ((lrHooks np).act p args) (fun _ => Fl) F8) l e hF
    generalize hm : (action np (Gen.prodFuncs.getD p "") args).run l e = res at b2
    have hm' : ((lrHooks np).act p args).run l e = res := hm
    rw [hm'] at b1 ⊢
    obtain ⟨r, e'⟩ := res
    cases r with
    | error x => exact ⟨b1, b2⟩
    | ok v => exact ⟨b1.1, b1.2, b2⟩
  · intro la hv l e ⟨hG, hF⟩
    have b1 := h4.onError la hv l e hG
    have b2 := onError8 (np := np) la l e hF
    revert b1 b2
    rcases ((lrHooks np).onError la).run l e with ⟨r, e'⟩
    cases r with
    | error x => exact fun b1 b2 => ⟨b1, b2⟩
    | ok v => exact fun b1 _ => b1.elim
  · intro ty
    exact ⟨⟨(h4.foreign ty).1, f8_site (by decide) (by decide)⟩,
      ⟨(h4.foreign ty).2, f8_site (by decide) (by decide)⟩⟩
  · exact ⟨h4.fuel, f8_fuel⟩

theorem parserRunWith8 (hg : WFG g) (hnp : NPOK g N np) (hk : ∀ s b, C10.KeepsEol (np s b))
    (hnpF : NPF np) :
    HT (I8 g) (parserRunWith np) (fun _ l e => Fl l e) F8 := by
  unfold parserRunWith
  refine HT.bind (HT.weaken (run_ok _ _ (hooks8 hg hnp hk hnpF) _) (fun _ _ h => h)
    (fun _ l e h => h.2) (fun _ h => h.2)) (fun res => ?_)
  refine HT.bind (Q := fun _ l e => I8 g l e) (HT.post HT.get (fun _ _ _ h => h.2)) (fun l => ?_)
  simp only []
  split <;> exact HT.pure (fun _ _ h => h.2)

theorem fl_nestedLocal (l : Local) (s : Str) (b : Bool) (e : Env) (h : Fl l e) :
    Fl (nestedLocal l s b) e := by
  unfold Fl nestedLocal at *
  cases b <;> exact h

/-- the nested parser, seen from its caller: flags stay off, the two sites do not raise -/
theorem npf_nestedOf {inner : M (Option Node)}
    (hin : ∀ g', WFG g' → HT (I8 g') inner (fun _ l e => Fl l e) F8) : NPF (nestedOf inner) := by
  intro s b l e hF
  rw [run_nestedOf]
  have hwf : WFG (nestedGhost s e) := ⟨s, rfl, rfl⟩
  have h := hin (nestedGhost s e) hwf (nestedLocal l s b) e
    ⟨⟨good_nested l s b e, rfl⟩, fl_nestedLocal l s b e hF⟩
  rcases hr : M.run inner (nestedLocal l s b) e with ⟨r, e'⟩
  rw [hr] at h
  cases r with
  | error x => exact h
  | ok v =>
    obtain ⟨r, l'⟩ := v
    exact h

end

/-- **every nesting depth** -/
theorem parserRun8 : ∀ d g, WFG g → HT (I8 g) (parserRun d) (fun _ l e => Fl l e) F8 := by
  intro d
  induction d with
  | zero => intro g _; exact HT.raise f8_fuel
  | succ d ih =>
    intro g hg
    rw [parserRun_succ]
    exact parserRunWith8 hg (nestedOf_ok4 (fun g' hg' => parserRun_good4 d g' hg') g)
      (keepsEol_nestedOf _) (npf_nestedOf ih)

theorem runParser_f8 {s : Str} {o : Opts} {t : List Char} {x : Exn}
    (h : (runParser s o t).1 = .error x) : F8 x := by
  unfold runParser at h
  simp only [] at h
  rcases hrun : (parserRun maxDepth).run { limit := o.limit }
      { tape := Tape.ofInput s, strict := o.strict, proceed := o.proceed, touched := t } with ⟨r, env'⟩
  rw [hrun] at h
  simp only [] at h
  cases r with
  | ok v => simp only [Except.map] at h; cases h
  | error y =>
    simp only [Except.map] at h
    cases h
    exact HT.err (parserRun8 maxDepth _ (topGhost_wf s o))
      ⟨⟨good_top s o t, rfl⟩, ⟨rfl, rfl⟩⟩ hrun

/-- **`parse` never raises `AssertionError|token.__init__` or `IndexError|_is_assignment`** -/
theorem parse_f8 (s : Str) (o : Opts) {x : Exn} (h : (parse s o).1 = .exn x) : F8 x := by
  rcases parse_exn s o h with h | rfl | ⟨i, t, _, _, h⟩
  · exact runParser_f8 h
  · exact f8_fuel
  · exact runParser_f8 h

theorem parsesingle_f8 (s : Str) (o : Opts) {x : Exn} (h : (parsesingle s o).1 = .exn x) : F8 x :=
  runParser_f8 (parsesingle_exn s o h)

/-- `split`: the token loop over `token()` and `_expandwordinternal` -/
theorem splitM8 (s : Str) (g : Ghost) (hg : WFG g) :
    HT (I8 g) (splitM s) (fun _ _ _ => True) F8 := by
  have hnp : NPOK g (fun x => ∃ g', WFG g' ∧ ExnAt maxDepth g' x) (nestedOf (parserRun maxDepth)) :=
    nestedOf_ok4 (fun g' hg' => parserRun_good4 maxDepth g' hg') g
  have hk : ∀ s b, C10.KeepsEol (nestedOf (parserRun maxDepth) s b) := keepsEol_nestedOf _
  have hnpF : NPF (nestedOf (parserRun maxDepth)) := npf_nestedOf (parserRun8 maxDepth)
  -- `token()`
  have hnext : HT (I8 g) nextToken (fun t l e => C11.TokOK g t ∧ I8 g l e) F8 := by
    intro l e ⟨hG, hF⟩
    have a1 := nextToken_good (g := g) l e hG.1
    have a2 := C04.tokText.next g hg l e hG
    have a3 := fl_nextToken l e hF
    have a4 := next8_good hg l e ⟨hG, hF⟩
    rcases hr : nextToken.run l e with ⟨r, e'⟩
    rw [hr] at a1 a2 a3 a4
    cases r with
    | error x => exact a4
    | ok v => obtain ⟨t, l'⟩ := v; exact ⟨⟨a1.1, a2.1.tl⟩, ⟨a1.2, a2.2⟩, a3⟩
  -- `_expandwordinternal`
  have hexp : ∀ t dq, C11.TokOK g t →
      HT (I8 g) (expandwordinternal (nestedOf (parserRun maxDepth)) t dq) (fun _ l e => I8 g l e) F8 := by
    intro t dq ht l e ⟨hG, hF⟩
    have a1 := C11.g_expandwordinternal hnp t ht.2 dq l e hG.1
    have a2 := C04.keepsEol_expandwordinternal (np := nestedOf (parserRun maxDepth)) hk t dq l e
    have a3 := C01.g_expandwordinternal hnpF t dq l e hF
    rcases hr : (expandwordinternal (nestedOf (parserRun maxDepth)) t dq).run l e with ⟨r, e'⟩
    rw [hr] at a1 a3
    cases r with
    | error x => exact a3
    | ok v =>
      obtain ⟨r, l'⟩ := v
      exact ⟨⟨a1.2, a2 r l' e' hG.2 hr⟩, a3⟩
  unfold splitM
  simp only []
  refine HT.bind (Q := fun _ => I8 g) (HT.post (HT.reader run_tapeLine) (fun _ _ _ h => h.2)) (fun line => ?_)
  refine HT.bind (Q := fun _ => I8 g) (HT.post (HT.reader run_tapeAdded) (fun _ _ _ h => h.2)) (fun added => ?_)
  refine HT.post (HT.loop (I := fun _ => I8 g) (Q := fun _ => I8 g) f8_fuel (fun acc => ?_) _ _)
    (fun _ _ _ _ => True.intro)
  refine HT.bind hnext (fun t => HT.pre_pure (fun ht => ?_))
  refine HT.ite (fun _ => HT.pure (fun _ _ h => h)) (fun _ => ?_)
  refine HT.ite (fun _ => ?_) (fun _ => HT.pure (fun _ _ h => h))
  refine HT.ite (fun hq => ?_) (fun _ => ?_)
  · split
    · exact HT.bind (Q := fun _ _ _ => False) (HT.foreign (f8_foreign rfl)) (fun _ => HT.pre_false)
    · exact HT.bind (Q := fun _ => I8 g) (HT.pure (fun _ _ h => h))
        (fun _ => HT.bind (hexp _ _ ht) (fun _ => HT.pure (fun _ _ h => h)))
  · exact HT.bind (Q := fun _ => I8 g) (HT.pure (fun _ _ h => h))
      (fun _ => HT.bind (hexp _ _ ht) (fun _ => HT.pure (fun _ _ h => h)))

theorem split_f8 (s : Str) {x : Exn} (h : (split s).1 = .exn x) : F8 x := by
  unfold split at h
  simp only [] at h
  rcases hrun : (splitM s).run {} { tape := Tape.ofInput s } with ⟨r, env'⟩
  rw [hrun] at h
  simp only [] at h
  cases r with
  | ok v => cases h
  | error y =>
    cases h
    have hgood : I8 (topGhost s {}) ({} : Local) { tape := Tape.ofInput s } :=
      ⟨⟨good_top s {} [], rfl⟩, ⟨rfl, rfl⟩⟩
    exact HT.err (splitM8 s _ (topGhost_wf s {})) hgood hrun

end Bashlex.C01
