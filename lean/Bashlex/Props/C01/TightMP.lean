/-
  C01 tight, part 3: `_parse_matched_pair` and `_parse_comsub` with the discipline `TokExn1`.
-/
import Bashlex.Props.C01.TightTok
import Bashlex.Props.C04.TTScanCS

namespace Bashlex.C01
open Bashlex Bashlex.M Bashlex.C04.TTP
set_option linter.unusedSimpArgs false
set_option linter.unusedVariables false

theorem t1_handledollarword {pmp : MPParams → M Str} {pcs : CSParams → M Str}
    (hpmp : ∀ P, MPOK P → TSat1 (pmp P)) (hpcs : ∀ P, CSOK P → TSat1 (pcs P)) (P : MPParams)
    (rdquote : Bool) (c : Char) (hc : isDolOpen c = true) (hne : P.opn ≠ c) :
    TSat1 (handledollarword pmp pcs P rdquote c) := by
  unfold handledollarword; (try simp only [])
  refine Sat.ite (fun h => absurd (by simpa using h) hne) (fun _ => ?_)
  refine Sat.ite (fun _ => hpcs _ (fun h => absurd h (by decide))) (fun h1 => ?_)
  refine Sat.ite (fun _ => hpmp _ ⟨(fun h => by cases h), rfl, (fun h => absurd (show '{' = '}' from h) (by decide))⟩) (fun h2 => ?_)
  refine Sat.ite (fun _ => hpmp _ ⟨(fun h => by cases h), rfl, (fun h => absurd (show '[' = ']' from h) (by decide))⟩) (fun h3 => ?_)
  exfalso
  simp only [isDolOpen, Bool.or_eq_true] at hc
  rcases hc with (hc | hc) | hc
  · exact h1 hc
  · exact h2 hc
  · exact h3 hc

theorem t1_mpPost {pmp : MPParams → M Str} {pcs : CSParams → M Str}
    (hpmp : ∀ P, MPOK P → TSat1 (pmp P)) (hpcs : ∀ P, CSOK P → TSat1 (pcs P)) (P : MPParams)
    (hP : MPOK P) (rdquote : Bool) (st : MPState) (c : Char) :
    TSat1 (mpPost pmp pcs P rdquote st c) := by
  have hd := t1_handledollarword hpmp hpcs
  unfold mpPost; (try simp only [])
  refine Sat.ite (fun hoc => ?_) (fun hoc => ?_)
  · have hne : P.opn ≠ P.close := by simpa using hoc
    refine Sat.bind (sat1_shellquote c) (fun b hb => ?_)
    refine Sat.ite (fun hq => ?_) (fun _ => ?_)
    · have hq' : (synClass c).quote = true := by rw [← hb]; exact hq
      refine sat_bindE (t1_pushDelimiter c) (fun _ => ?_)
      refine sat_bindE (hpmp _ ⟨(fun h => absurd ((hP.pc h).2.1.trans (hP.pc h).2.2.symm) hne), rfl, (fun _ => ?_)⟩) (fun _ => ?_)
      · simp only [synClass, Bool.or_eq_true, beq_iff_eq] at hq'
        rcases hq' with (rfl | rfl) | rfl <;> rfl
      · t1_walk
    · refine Sat.ite (fun h => ?_) (fun _ => Sat.pure True.intro)
      rw [hP.arr] at h; simp at h
  · have hoc' : P.opn = P.close := by simpa using hoc
    refine Sat.ite (fun h => ?_) (fun _ => ?_)
    · have hq : P.opn = '"' := by
        simp only [Bool.and_eq_true, beq_iff_eq] at h; exact h.1
      refine sat_bindE (hpmp _ ⟨(fun h => ?_), rfl, (fun _ => rfl)⟩) (fun _ => ?_)
      · have := (hP.pc h).2.1; rw [hq] at this; exact absurd this (by decide)
      · t1_walk
    · refine Sat.ite (fun h => ?_) (fun _ => Sat.pure True.intro)
      have hdo : isDolOpen c = true := by
        simp only [Bool.and_eq_true] at h; exact h.2
      have hne : P.opn ≠ c := by
        intro heq
        have := hP.oc hoc'
        rw [heq, hdo] at this; cases this
      have := hd P rdquote c hdo hne
      t1_walk

/-! ### `_parse_comsub`: the invariant of the loop state -/

/-- inside a here-document `lexfirstind` has been set (so `ret[tind]` is `ret[n]` with
    `0 ≤ n < len(ret)`: no `IndexError`); inside a word `lexwlen` is bound (no
    `UnboundLocalError`) -/
def CSInv (st : CSState) : Prop :=
  (st.insideheredoc = true → 0 ≤ st.lexfirstind) ∧ (st.insideword = true → st.lexwlen.isSome = true)

theorem skipTabs_some (sd : Bool) (ret : Str) : ∀ (f : Nat) (t : Int), 0 ≤ t →
    ∃ r, skipTabs sd ret f t = some r := by
  intro f
  induction f with
  | zero => intro t _; exact ⟨t, rfl⟩
  | succ f ih =>
    intro t ht
    unfold skipTabs
    split
    · rename_i hc
      simp only [Bool.and_eq_true, decide_eq_true_eq] at hc
      have hlt : t.toNat < ret.length := by omega
      have : pyAtInt? ret t = some ret[t.toNat] := by
        unfold pyAtInt?
        rw [if_pos ht]
        exact List.getElem?_eq_getElem hlt
      rw [this]
      simp only []
      split
      · exact ih (t + 1) (by omega)
      · exact ⟨t, rfl⟩
    · exact ⟨t, rfl⟩

theorem t1_csDelimMatches (st : CSState) (h : 0 ≤ st.lexfirstind) : TSat1 (csDelimMatches st) := by
  unfold csDelimMatches
  obtain ⟨r, hr⟩ := skipTabs_some st.stripdoc st.ret (st.ret.length + 2) st.lexfirstind h
  rw [hr]
  exact Sat.pure True.intro

def StepA : Step CSState → Prop
  | .cont s => CSInv s
  | .done _ => True
  | .next s _ => CSInv s ∧ s.insideheredoc = false

/-- result of `csB` on `c`: the character is unchanged; a here-document may have been entered,
    on a newline only; a `#` is inside a word -/
def StepB (c : Char) : Step CSState → Prop
  | .cont s => CSInv s
  | .done _ => True
  | .next s c' => CSInv s ∧ c' = c ∧ (s.insideheredoc = true → c = '\n') ∧
      (c = '#' → s.insideword = true)

def StepC : Step CSState → Prop
  | .cont s => CSInv s
  | .done _ => True
  | .next s _ => CSInv s

/-- close a leaf: the invariant at a literal state, with the guards of the path in the context -/
macro "cs_leaf" : tactic => `(tactic| first
  | (exfalso; exact absurd rfl (by assumption))
  | (simp_all [StepA, StepB, StepC, CSInv, csEndHeredoc]; done)
  | (simp_all [StepA, StepB, StepC, CSInv, csEndHeredoc, synClass]; done)
  | (simp_all [StepA, StepB, StepC, CSInv, csEndHeredoc]; omega)
  | (simp_all [StepA, StepB, StepC, CSInv, csEndHeredoc, synClass]; omega)
  | omega
  | (intro hc; subst hc; simp_all [synClass]; done))

macro_rules | `(tactic| t1_bindv) => `(tactic| refine sat_bindE (t1_csDelimMatches _ ?_) (fun _ => ?_))

set_option maxHeartbeats 1000000 in
theorem sat1_csArest (P : CSParams) (st : CSState) (c : Char) (hst : CSInv st) :
    Sat (csArest P st c) StepA TokExn1 := by
  unfold csArest; (try simp only [])
  t1_walkP
  all_goals cs_leaf

theorem sat1_csA (P : CSParams) (st : CSState) (hst : CSInv st) : Sat (csA P st) StepA TokExn1 := by
  rw [csA_eq]
  refine sat_bindE (t1_getc _) (fun c0 => ?_)
  simp only []
  split
  · exact sat_bindE (t1_matchedPairError _) (fun c => sat1_csArest P st c hst)
  · rw [pure_bind]; exact sat1_csArest P st _ hst

/-- a raise site that is excluded: the path to it is contradictory -/
theorem sat_foreign_false {α : Type} {a b : String} {P : α → Prop} {E : Exn → Prop} (h : False) :
    Sat (M.foreign a b : M α) P E := h.elim
theorem sat_foreign_bind_false {α β : Type} {a b : String} {k : α → M β} {P : β → Prop}
    {E : Exn → Prop} (h : False) : Sat ((M.foreign a b : M α) >>= k) P E := h.elim

/-- the walk with post-condition, excluded raise sites left as `False` -/
macro "t1_walkX" : tactic => `(tactic| repeat' (first
  | t1_stepP
  | with_reducible refine sat_foreign_false ?_
  | with_reducible refine sat_foreign_bind_false ?_))

set_option maxHeartbeats 1000000 in
theorem sat1_csBpeek (b : Bool) (st : CSState) (c : Char) (hst : CSInv st)
    (h1 : st.insideheredoc = true → c = '\n') (h2 : c = '#' → st.insideword = true) :
    Sat (csBpeek b st c) (StepB c) TokExn1 := by
  unfold csBpeek; (try simp only [])
  t1_walkP
  all_goals cs_leaf

set_option maxHeartbeats 1000000 in
theorem sat1_csB (b : Bool) (st : CSState) (c : Char) (hst : CSInv st)
    (hh : st.insideheredoc = false) : Sat (csB b st c) (StepB c) TokExn1 := by
  rw [csB_eq]
  unfold csBhead; (try simp only [])
  repeat' (first
    | with_reducible refine sat1_csBpeek _ _ _ ?_ ?_ ?_
    | t1_stepP
    | with_reducible refine sat_foreign_false ?_
    | with_reducible refine sat_foreign_bind_false ?_)
  all_goals cs_leaf

set_option maxRecDepth 4096 in
set_option maxHeartbeats 1000000 in
theorem sat1_csCtail (P : CSParams) (b : Bool) (st : CSState) (c : Char) (hst : CSInv st)
    (h1 : st.insideheredoc = true → c = '\n') (h2 : c = '#' → st.insideword = true) :
    Sat (csCtail P b st c) StepC TokExn1 := by
  unfold csCtail; (try simp only [])
  t1_walkX
  all_goals cs_leaf

set_option maxHeartbeats 1000000 in
theorem sat1_csC (P : CSParams) (b : Bool) (st : CSState) (c : Char) (hst : CSInv st)
    (h1 : st.insideheredoc = true → c = '\n') (h2 : c = '#' → st.insideword = true) :
    Sat (csC P b st c) StepC TokExn1 := by
  rw [csC_eq]
  unfold csChead; (try simp only [])
  repeat' (first
    | with_reducible refine sat1_csCtail _ _ _ _ ?_ ?_ ?_
    | t1_stepP)
  all_goals cs_leaf

theorem sat1_csD (P : CSParams) (st : CSState) (c : Char) (hst : CSInv st) :
    Sat (csD P st c) StepC TokExn1 := by
  unfold csD; (try simp only [])
  t1_walkP
  all_goals cs_leaf

theorem sat1_csPre (P : CSParams) (b : Bool) (st : CSState) (hst : CSInv st) :
    Sat (csPre P b st) StepC TokExn1 := by
  unfold csPre
  refine Sat.bind (sat1_csA P st hst) (fun r hr => ?_)
  cases r with
  | cont s => exact Sat.pure hr
  | done r => exact Sat.pure True.intro
  | next s c =>
    refine Sat.bind (sat1_csB b s c hr.1 hr.2) (fun r hr => ?_)
    cases r with
    | cont s => exact Sat.pure hr
    | done r => exact Sat.pure True.intro
    | next s c' =>
      obtain ⟨a1, rfl, a3, a4⟩ := hr
      refine Sat.bind (sat1_csC P b s c' a1 a3 a4) (fun r hr => ?_)
      cases r with
      | cont s => exact Sat.pure hr
      | done r => exact Sat.pure True.intro
      | next s c => exact sat1_csD P s c hr

theorem sat1_csPost {pmp : MPParams → M Str} {pcs : CSParams → M Str}
    (hpmp : ∀ P, MPOK P → TSat1 (pmp P)) (hpcs : ∀ P, CSOK P → TSat1 (pcs P)) (P : CSParams)
    (st : CSState) (c : Char) (hst : CSInv st) : Sat (csPost pmp pcs P st c) CSInv TokExn1 := by
  unfold csPost; (try simp only [])
  refine Sat.bind (sat1_shellquote c) (fun b hb => ?_)
  refine Sat.ite (fun hq => ?_) (fun _ => ?_)
  · have hq' : (synClass c).quote = true := by rw [← hb]; exact hq
    refine sat_bindE (t1_pushDelimiter c) (fun _ => ?_)
    refine sat_bindE (hpmp _ ⟨(fun h => by cases h), rfl, (fun _ => ?_)⟩) (fun _ => ?_)
    · simp only [synClass, Bool.or_eq_true, beq_iff_eq] at hq'
      rcases hq' with (rfl | rfl) | rfl <;> rfl
    · exact sat_bindE t1_popDelimiter (fun _ => Sat.pure hst)
  · repeat' (first
      | with_reducible refine Sat.ite (fun _ => ?_) (fun _ => ?_)
      | with_reducible refine sat_bindE (hpcs _ ?_) (fun _ => ?_)
      | with_reducible refine sat_bindE (hpmp _ ?_) (fun _ => ?_)
      | exact Sat.pure hst)
    all_goals first
      | exact (fun h => absurd h (by decide))
      | exact ⟨(fun h => by cases h), rfl, (fun h => absurd h (by decide))⟩

/-- the two mutually recursive scanners, by induction on the depth fuel -/
theorem t1_pmp_pcs : ∀ fuel, (∀ P, MPOK P → TSat1 (parseMatchedPair fuel P)) ∧
    (∀ P, CSOK P → TSat1 (parseComsub fuel P)) := by
  intro fuel
  induction fuel with
  | zero =>
    refine ⟨fun P _ => ?_, fun P _ => ?_⟩
    · unfold parseMatchedPair; t1_walk
    · unfold parseComsub; t1_walk
  | succ fuel ih =>
    obtain ⟨hpmp, hpcs⟩ := ih
    refine ⟨fun P hP => ?_, fun P hP => ?_⟩
    · unfold parseMatchedPair; (try simp only [])
      refine sat_bindE (t1_mpInit P hP) (fun x => ?_)
      refine sat_bindE t1_loopFuel (fun lf => ?_)
      refine sat_loopT (by tokexn1) (fun st => ?_) _ _
      have hpost := t1_mpPost hpmp hpcs P hP
      refine Sat.ite (fun _ => Sat.pure True.intro) (fun _ => ?_)
      refine sat_bindE (t1_mpPre _ _ _) (fun r => ?_)
      split
      · exact Sat.pure True.intro
      · exact Sat.pure True.intro
      · exact sat_bindE (hpost _ _ _) (fun _ => Sat.pure True.intro)
    · unfold parseComsub; (try simp only [])
      refine sat_bindE (t1_getc _) (fun peek => ?_)
      refine sat_bindE (t1_ungetc _) (fun _ => ?_)
      refine Sat.ite (fun _ => ?_) (fun _ => ?_)
      · exact hpmp _ ⟨(fun h => by cases h), rfl, hP⟩
      · refine sat_bindE t1_loopFuel (fun lf => ?_)
        refine Sat.loop (I := CSInv) (by tokexn1) (fun st hst => ?_) _ _ ⟨(fun h => by cases h), (fun h => by cases h)⟩
        refine Sat.ite (fun _ => Sat.pure True.intro) (fun _ => ?_)
        refine Sat.bind (sat1_csPre P _ st hst) (fun r hr => ?_)
        cases r with
        | cont s => exact Sat.pure hr
        | done r => exact Sat.pure True.intro
        | next s c =>
          exact Sat.bind (sat1_csPost hpmp hpcs P s c hr) (fun s' hs' => Sat.pure hs')

theorem t1_parseMatchedPair (fuel : Nat) (P : MPParams) (hP : MPOK P) : TSat1 (parseMatchedPair fuel P) :=
  (t1_pmp_pcs fuel).1 P hP
theorem t1_parseComsub (fuel : Nat) (P : CSParams) (hP : CSOK P) : TSat1 (parseComsub fuel P) :=
  (t1_pmp_pcs fuel).2 P hP

end Bashlex.C01
