/-
  C01 ("disciplined totality"), part 1: the exception discipline `Allowed`, the explicit lists of
  known foreign exceptions and of loops covered only by fuel, and a few more Hoare rules.
-/
import Bashlex.Proofs.Hoare
import Bashlex.Model.Parse

namespace Bashlex.C01
open Bashlex Bashlex.M

/-- Foreign (out-of-contract) exceptions raised above the tokenizer that the model reproduces
    (witness inputs are `#eval`-checked in `Props/C01/Witness.lean`) or that could not be excluded
    at this level (they depend on positional facts about tokens; no witness found by fuzzing). -/
def knownForeign : List Exn :=
  [ -- D24: a substitution without a command; witness "` `"
    .foreign "AttributeError" "_recursiveparse",
    -- D18: `select x in a; do b; done` with `proceedonerror=True`
    .foreign "AssertionError" "handleAssert",
    -- D35: witness `$("")""$($#$(\n"")`
    .foreign "IndexError" "_parsedolparen",
    -- not excluded, no witness found (need span bounds of nested parses / of tokens):
    .foreign "AssertionError" "visitnode",
    .foreign "AssertionError" "ParsingError.__init__",
    -- not excluded, no witness found (need: no word token ends in `$(` / in an odd backslash):
    .foreign "IndexError" "_extractcommandsubst",
    .foreign "IndexError" "_expandwordinternal" ]

/-- loops above the tokenizer whose termination is covered only by their fuel -/
def fuelSites : List String := ["LRParser.parse", "nesting"]

/-- the exception discipline: `T` = what the tokenizer itself may raise -/
def Allowed (T : Exn → Prop) (x : Exn) : Prop :=
  T x ∨ (∃ m s p, x = .parsing m s p) ∨ (∃ w, x = .notImplemented w) ∨ x ∈ knownForeign ∨
  (∃ site, x = .outOfFuel site ∧ site ∈ fuelSites)

variable {T : Exn → Prop}

theorem allowed_tok {x : Exn} (h : T x) : Allowed T x := Or.inl h
theorem allowed_parsing {m s p} : Allowed T (.parsing m s p) := Or.inr (Or.inl ⟨m, s, p, rfl⟩)
theorem allowed_ni {w} : Allowed T (.notImplemented w) := Or.inr (Or.inr (Or.inl ⟨w, rfl⟩))
theorem allowed_known {x : Exn} (h : x ∈ knownForeign) : Allowed T x := Or.inr (Or.inr (Or.inr (Or.inl h)))
theorem allowed_fuel {site : String} (h : site ∈ fuelSites) : Allowed T (.outOfFuel site) :=
  Or.inr (Or.inr (Or.inr (Or.inr ⟨site, rfl, h⟩)))

theorem known_recursiveparse : Allowed T (.foreign "AttributeError" "_recursiveparse") :=
  allowed_known (.head _)
theorem known_handleAssert : Allowed T (.foreign "AssertionError" "handleAssert") :=
  allowed_known (.tail _ (.head _))
theorem known_parsedolparen : Allowed T (.foreign "IndexError" "_parsedolparen") :=
  allowed_known (.tail _ (.tail _ (.head _)))
theorem known_visitnode : Allowed T (.foreign "AssertionError" "visitnode") :=
  allowed_known (.tail _ (.tail _ (.tail _ (.head _))))
theorem known_peinit : Allowed T (.foreign "AssertionError" "ParsingError.__init__") :=
  allowed_known (.tail _ (.tail _ (.tail _ (.tail _ (.head _)))))
theorem known_extract : Allowed T (.foreign "IndexError" "_extractcommandsubst") :=
  allowed_known (.tail _ (.tail _ (.tail _ (.tail _ (.tail _ (.head _))))))
theorem known_expint : Allowed T (.foreign "IndexError" "_expandwordinternal") :=
  allowed_known (.tail _ (.tail _ (.tail _ (.tail _ (.tail _ (.tail _ (.head _)))))))

theorem allowed_mkParsingError {m s p} : Allowed T (mkParsingError m s p) := by
  unfold mkParsingError
  split
  · exact allowed_parsing
  · exact known_peinit

/-! ### more Hoare rules -/

/-- the post-condition from one proof, the exception discipline from another -/
theorem sat_conj {α : Type} {m : M α} {P : α → Prop} {E F : Exn → Prop}
    (h1 : Sat m P F) (h2 : Sat m (fun _ => True) E) : Sat m P E := by
  intro l e
  have a1 := h1 l e
  have a2 := h2 l e
  rcases hr : m.run l e with ⟨r, e'⟩
  rw [hr] at a1 a2
  cases r with
  | ok v => exact a1
  | error x => exact a2

/-- bind when only the exceptions of the first computation matter -/
theorem sat_bindE {α β : Type} {m : M α} {f : α → M β} {R : β → Prop} {E : Exn → Prop}
    (hm : Sat m (fun _ => True) E) (hf : ∀ a, Sat (f a) R E) : Sat (m >>= f) R E :=
  Sat.bind hm (fun a _ => hf a)

/-- a computation that cannot raise -/
def NoExn {α : Type} (m : M α) : Prop := ∀ E : Exn → Prop, Sat m (fun _ => True) E

theorem noExn_liftQ {α : Type} (q : Q α) : NoExn (M.liftQ q) := by
  intro E l e
  have : (M.liftQ q).run l e = (.ok ((Q.run q e).1, l), (Q.run q e).2) := by
    show Q.run (Q.bind q _) e = _
    rw [Q.run_bind]; rfl
  rw [this]; exact True.intro

theorem noExn_ask (q : Query) : NoExn (M.ask q) := noExn_liftQ _
theorem noExn_get : NoExn (get : M Local) := fun _ => Sat.get (fun _ => True.intro)
theorem noExn_set (l : Local) : NoExn (set l : M Unit) := fun _ => Sat.set True.intro
theorem noExn_modify (f : Local → Local) : NoExn (modify f : M Unit) := fun _ => Sat.modify True.intro
theorem noExn_pure {α : Type} (a : α) : NoExn (pure a : M α) := fun _ => Sat.pure True.intro

theorem noExn_bind {α β : Type} {m : M α} {f : α → M β} (hm : NoExn m) (hf : ∀ a, NoExn (f a)) :
    NoExn (m >>= f) := fun E => sat_bindE (hm E) (fun a => hf a E)

theorem NoExn.sat {α : Type} {m : M α} (h : NoExn m) {E : Exn → Prop} :
    Sat m (fun _ => True) E := h E

/-- bind after a computation that cannot raise -/
theorem sat_bindN {α β : Type} {m : M α} {f : α → M β} {R : β → Prop} {E : Exn → Prop}
    (hm : NoExn m) (hf : ∀ a, Sat (f a) R E) : Sat (m >>= f) R E :=
  sat_bindE (hm E) hf

theorem noExn_optProceed : NoExn optProceed := by
  unfold optProceed
  refine noExn_bind noExn_get (fun l => ?_)
  split
  · exact noExn_ask _
  · exact noExn_pure _

theorem noExn_optStrict : NoExn optStrict := by
  unfold optStrict
  refine noExn_bind noExn_get (fun l => ?_)
  split
  · exact noExn_ask _
  · exact noExn_pure _

theorem noExn_tapeSource : NoExn tapeSource := by
  unfold tapeSource
  refine noExn_bind noExn_get (fun l => ?_)
  split
  · exact noExn_ask _
  · exact noExn_pure _

theorem noExn_tapeLine : NoExn tapeLine := by
  unfold tapeLine
  refine noExn_bind noExn_get (fun l => ?_)
  split
  · exact noExn_ask _
  · exact noExn_pure _

theorem noExn_tapeAdded : NoExn tapeAdded := by
  unfold tapeAdded
  refine noExn_bind noExn_get (fun l => ?_)
  split
  · exact noExn_ask _
  · exact noExn_pure _

theorem noExn_curIdx : NoExn curIdx := by
  unfold curIdx
  refine noExn_bind noExn_get (fun l => ?_)
  split
  · exact noExn_ask _
  · exact noExn_pure _

theorem noExn_nodePos (n : Node) : NoExn (nodePos n) := by
  unfold nodePos
  split
  · refine noExn_bind noExn_get (fun l => ?_)
    split <;> exact noExn_pure _
  · exact noExn_pure _

/-- a loop whose body strictly decreases a measure bounded by the fuel never runs out of fuel -/
theorem sat_loop_measure {σ α : Type} {site : String} {body : σ → M (σ ⊕ α)} {I : σ → Prop}
    {R : α → Prop} {E : Exn → Prop} (μ : σ → Nat)
    (hbody : ∀ s, I s → Sat (body s) (Sum.elim (fun s' => I s' ∧ μ s' < μ s) R) E) :
    ∀ fuel s, I s → μ s < fuel → Sat (M.loop site body fuel s) R E := by
  intro fuel
  induction fuel with
  | zero => intro s _ h; exact absurd h (Nat.not_lt_zero _)
  | succ n ih =>
    intro s hs hlt
    show Sat (body s >>= _) R E
    refine Sat.bind (hbody s hs) ?_
    intro r hr
    cases r with
    | inl s' => exact ih s' hr.1 (by have := hr.2; omega)
    | inr a => exact Sat.pure hr

end Bashlex.C01
