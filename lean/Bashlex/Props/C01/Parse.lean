/-
  C01, part 7: from the hooks of the LR engine to `parserRun` (every nesting depth), `runParser`,
  the loop of `parse` (which never runs out of its fuel), `parse` and `parsesingle`.
  The tokenizer enters through two hypotheses only: what `nextToken` and `gatherheredocuments`
  may raise (`T`).
-/
import Bashlex.Props.C01.Actions
import Bashlex.Props.C01.Engine
import Bashlex.LR.Real

namespace Bashlex.C01
open Bashlex Bashlex.M Bashlex.LR Bashlex.C12
set_option linter.unusedSimpArgs false
set_option linter.unusedVariables false

variable {T : Exn → Prop}

/-! ### the grammar side -/

theorem forall2_map_left {α β γ} {R : β → γ → Prop} {f : α → β} :
    ∀ {l₁ : List α} {l₂ : List γ}, Forall2 (fun a c => R (f a) c) l₁ l₂ → Forall2 R (l₁.map f) l₂ := by
  intro l₁ l₂ h
  induction h with
  | nil => exact .nil
  | cons h1 _ ih => exact .cons h1 ih

/-- a production without action function (the augmented start `S' → inputunit`) is never reduced:
    its left-hand side has no goto entry at all -/
def startCheck : Bool :=
  (List.zip Gen.prodFuncs Gen.prodTable).all fun (f, (lhs, _)) =>
    f != "" || Gen.gotoRows.all (fun row => row.all (fun e => e / 4096 != lhs))

theorem start_ok : startCheck = true := by decide +kernel

theorem no_goto_of_unnamed {lhs : Nat} {rhs : List Nat}
    (hmem : ("", (lhs, rhs)) ∈ List.zip Gen.prodFuncs Gen.prodTable) (s t : Nat) :
    realTables.goto s lhs ≠ some t := by
  intro hg
  have hall := start_ok
  unfold startCheck at hall
  have h1 := List.all_eq_true.mp hall _ hmem
  simp only [bne_self_eq_false, Bool.false_or] at h1
  obtain ⟨e, he, hk, _⟩ := Raw.goto_mem (R := realRaw) hg
  have hrow : realRaw.gotoRow s ∈ Gen.gotoRows := by
    unfold Raw.gotoRow at he ⊢
    show Gen.gotoRows.getD s [] ∈ Gen.gotoRows
    by_cases hlt : s < Gen.gotoRows.length
    · simp [List.getD_eq_getElem?_getD, List.getElem?_eq_getElem hlt]
    · have : Gen.gotoRows.getD s [] = [] := by
        simp [List.getD_eq_getElem?_getD, List.getElem?_eq_none (Nat.le_of_not_lt hlt)]
      change e ∈ Gen.gotoRows.getD s [] at he
      rw [this] at he; cases he
  have h2 := List.all_eq_true.mp (List.all_eq_true.mp h1 _ hrow) e he
  simp [hk] at h2

theorem sat_pError (t : Token) : Sat (pError t) (fun _ => False) (Allowed T) := by
  unfold pError
  refine sat_bindN noExn_tapeSource (fun src => ?_)
  split
  · exact Sat.raise allowed_mkParsingError
  · exact Sat.raise allowed_mkParsingError

/-- what is known of a look-ahead: it is a token -/
def IsTokLA (la : Nat × SVal) : Prop := ∃ t, la.2 = .tok t

/-- the hooks of the real parser: shapes are respected and only allowed exceptions escape -/
theorem hooks_ok {np : NestedParse} (hTok : Sat nextToken (fun _ => True) T) (hC : Ctx T np) :
    HooksRaise' realTables (· ∈ realRaw.reach) (lrHooks np) SVI IsTokLA (Allowed T) := by
  refine ⟨?_, ?_, ?_⟩
  · show Sat (nextToken >>= fun t => pure (symOfTok t, SVal.tok t)) _ _
    have hT : Sat nextToken TF (Allowed T) :=
      sat_conj sat_nextToken_tf (hTok.weaken (fun _ h => h) (fun _ h => allowed_tok h))
    refine Sat.bind hT (fun t ht => Sat.pure ⟨?_, t, rfl⟩)
    show HasSh (shOfSymbol (symOfTok t)) (.tok t)
    unfold symOfTok
    cases hty : t.ttype with
    | none => simp only []; rw [err_shape]; exact ⟨t, rfl, hty, ht⟩
    | some ty => simp only []; rw [tok_shapes]; exact ⟨t, rfl, hty, ht⟩
  · intro p lhs rhs args hp hgoto hargs
    have hp' : Gen.prodTable[p]? = some (lhs, rhs) := hp
    have hlt : p < Gen.prodFuncs.length := by
      rw [prodFuncs_length]
      exact (List.getElem?_eq_some_iff.mp hp').1
    have hf : Gen.prodFuncs[p]? = some (Gen.prodFuncs.getD p "") := by
      simp [List.getD_eq_getElem?_getD, List.getElem?_eq_getElem hlt]
    have hz : (List.zip Gen.prodFuncs Gen.prodTable)[p]? = some (Gen.prodFuncs.getD p "", (lhs, rhs)) :=
      List.getElem?_zip_eq_some.mpr ⟨hf, hp'⟩
    have hmem := List.mem_of_getElem? hz
    have hg := shape_ok
    unfold shapeCheck at hg
    have := List.all_eq_true.mp hg _ hmem
    simp only [Bool.or_eq_true, beq_iff_eq] at this
    show Sat (action np (Gen.prodFuncs.getD p "") args) _ _
    rcases this with he | hab
    · exfalso
      rw [he] at hmem
      obtain ⟨s, t, _, hst⟩ := hgoto
      exact no_goto_of_unnamed hmem s t hst
    · exact sat_action hC hab (forall2_map_left hargs)
  · rintro ⟨sym, v⟩ ⟨t, ht⟩
    simp only at ht
    subst ht
    exact sat_pError t

/-! ### one parser run, at every nesting depth -/

/-- **exception discipline of one parser run**, at every nesting depth: besides what the
    tokenizer raises, only `ParsingError`, `NotImplementedError`, the known foreign exceptions,
    and running out of the engine's fuel or of the nesting depth -/
theorem parserRun_exn (hTok : Sat nextToken (fun _ => True) T)
    (hGather : Sat gatherheredocuments (fun _ => True) T) :
    ∀ d, Sat (parserRun d) (fun _ => True) (Allowed T) := by
  intro d
  induction d with
  | zero => exact Sat.raise (allowed_fuel (.tail _ (.head _)))
  | succ d ih =>
    unfold parserRun
    simp only []
    have hnp : NPE T (fun string dolparen => do
        let outer ← get
        let ps := if dolparen then { outer.ps with cmdsubst := true, eoftoken := true } else outer.ps
        set ({ tape := some (Tape.ofInput string), opts := some (true, false)
               lastReadToken := outer.lastReadToken, tokenBeforeThat := outer.tokenBeforeThat
               twoTokensAgo := outer.twoTokensAgo, ps := ps
               eofToken := if dolparen then some rparenEofToken else none
               limit := outer.limit.map (· - 1) } : Local)
        let r ← parserRun d
        let inner ← get
        set { outer with ps := inner.ps }
        pure r) := by
      intro s b
      refine sat_bindN noExn_get (fun _ => sat_bindN (noExn_set _) (fun _ => sat_bindE ih (fun r => ?_)))
      exact sat_bindN noExn_get (fun _ => sat_bindN (noExn_set _) (fun _ => Sat.pure trivial))
    have hC : Ctx T _ :=
      ⟨fun t ht => sat_expandword hnp t ht, hGather.weaken (fun _ h => h) (fun _ h => allowed_tok h)⟩
    refine sat_bindE ((run_sound' real_WF _ (hooks_ok hTok hC) _).weaken (fun _ _ => trivial) ?_)
      (fun res => ?_)
    · rintro x (hx | rfl)
      · exact hx
      · exact allowed_fuel (.head _)
    · refine sat_bindN noExn_get (fun l => ?_)
      split <;> exact Sat.pure trivial

/-! ### the entry points -/

theorem runParser_exn (hTok : Sat nextToken (fun _ => True) T)
    (hGather : Sat gatherheredocuments (fun _ => True) T) {s : Str} {o : Opts} {t : List Char}
    {x : Exn} (h : (runParser s o t).1 = .error x) : Allowed T x := by
  unfold runParser at h
  simp only [] at h
  rcases hrun : (parserRun maxDepth).run { limit := o.limit }
      { tape := Tape.ofInput s, strict := o.strict, proceed := o.proceed, touched := t } with ⟨r, env'⟩
  rw [hrun] at h
  simp only [] at h
  cases r with
  | ok v => simp only [Except.map] at h; cases h
  | error y =>
    simp only [Except.map] at h
    cases h
    exact (parserRun_exn hTok hGather maxDepth).err hrun

/-- **the loop of `parse` never runs out of its fuel** (the index strictly increases), and its
    exceptions are those of the parser runs -/
theorem parseLoop_exn (hTok : Sat nextToken (fun _ => True) T)
    (hGather : Sat gatherheredocuments (fun _ => True) T) (s : Str) (o : Opts) :
    ∀ (fuel index : Nat) (parts : List Node) (touched : List Char),
      s.length + 1 - index < fuel →
      ∀ x, (parseLoop s o fuel index parts touched).1 = .error x → Allowed T x := by
  intro fuel
  induction fuel with
  | zero => intro index parts touched hlt; exact absurd hlt (Nat.not_lt_zero _)
  | succ fuel ih =>
    intro index parts touched hlt x h
    unfold parseLoop at h
    split at h
    · rename_i hidx
      rcases hr : runParser (s.drop index) o touched with ⟨r, t⟩
      rw [hr] at h
      cases r with
      | error e =>
        simp only [] at h
        cases h
        exact runParser_exn hTok hGather (by rw [hr])
      | ok v =>
        cases v with
        | none => simp only [] at h; cases h
        | some part =>
          simp only [] at h
          refine ih _ _ _ ?_ x h
          have : index + 1 ≤ max (nextIndex (part.shift index)) (index + 1) := Nat.le_max_right _ _
          omega
    · cases h

/-- the exception discipline, as a predicate on outcomes of `parse` -/
def ParseOK (T : Exn → Prop) : Outcome → Prop
  | .parts _ => True
  | .exn x => Allowed T x
  | _ => False

/-- the exception discipline, as a predicate on outcomes of `parsesingle` -/
def SingleOK (T : Exn → Prop) : Outcome → Prop
  | .single _ => True
  | .exn x => Allowed T x
  | _ => False

theorem parse_ok (hTok : Sat nextToken (fun _ => True) T)
    (hGather : Sat gatherheredocuments (fun _ => True) T) (s : Str) (o : Opts) :
    ParseOK T (parse s o).1 := by
  unfold parse
  rcases hr : runParser s o [] with ⟨r, t⟩
  cases r with
  | error e => exact runParser_exn hTok hGather (by rw [hr])
  | ok v =>
    cases v with
    | none => exact True.intro
    | some first =>
      simp only []
      rcases hl : parseLoop s o (s.length + 1) (max (nextIndex first) 1) [first] t with ⟨r2, t2⟩
      cases r2 with
      | error e =>
        refine parseLoop_exn hTok hGather s o (s.length + 1) (max (nextIndex first) 1) [first] t ?_ e
          (by rw [hl])
        have : 1 ≤ max (nextIndex first) 1 := Nat.le_max_right _ _
        omega
      | ok ps => exact True.intro

theorem parsesingle_ok (hTok : Sat nextToken (fun _ => True) T)
    (hGather : Sat gatherheredocuments (fun _ => True) T) (s : Str) (o : Opts) :
    SingleOK T (parsesingle s o).1 := by
  unfold parsesingle
  rcases hr : runParser s o [] with ⟨r, t⟩
  cases r with
  | error e => exact runParser_exn hTok hGather (by rw [hr])
  | ok v => exact True.intro

/-! ### no non-node value in place of a tree -/

/-- `parse` returns a list of (typed) nodes or an exception — never strings, never a single node -/
theorem parse_shape (s : Str) (o : Opts) :
    (∃ l, (parse s o).1 = .parts l) ∨ (∃ x, (parse s o).1 = .exn x) := by
  unfold parse
  rcases runParser s o [] with ⟨r, t⟩
  cases r with
  | error e => exact Or.inr ⟨e, rfl⟩
  | ok v =>
    cases v with
    | none => exact Or.inl ⟨[], rfl⟩
    | some first =>
      simp only []
      rcases parseLoop s o (s.length + 1) (max (nextIndex first) 1) [first] t with ⟨r2, t2⟩
      cases r2 with
      | error e => exact Or.inr ⟨e, rfl⟩
      | ok ps => exact Or.inl ⟨ps, rfl⟩

/-- `parsesingle` returns a node, `None`, or an exception -/
theorem parsesingle_shape (s : Str) (o : Opts) :
    (∃ n, (parsesingle s o).1 = .single n) ∨ (∃ x, (parsesingle s o).1 = .exn x) := by
  unfold parsesingle
  rcases runParser s o [] with ⟨r, t⟩
  cases r with
  | error e => exact Or.inr ⟨e, rfl⟩
  | ok v => exact Or.inl ⟨v, rfl⟩

/-- the loop of `parse` only appends: it returns the parts it was given, and more -/
theorem parseLoop_prefix (s : Str) (o : Opts) :
    ∀ (fuel index : Nat) (parts : List Node) (touched : List Char) (ps : List Node),
      (parseLoop s o fuel index parts touched).1 = .ok ps → ∃ more, ps = parts ++ more := by
  intro fuel
  induction fuel with
  | zero => intro index parts touched ps h; simp [parseLoop] at h
  | succ fuel ih =>
    intro index parts touched ps h
    unfold parseLoop at h
    split at h
    · rcases hr : runParser (s.drop index) o touched with ⟨r, t⟩
      rw [hr] at h
      cases r with
      | error e => simp only [] at h; cases h
      | ok v =>
        cases v with
        | none => simp only [] at h; cases h; exact ⟨[], by simp⟩
        | some part =>
          simp only [] at h
          obtain ⟨more, hm⟩ := ih _ _ _ _ h
          exact ⟨part.shift index :: more, by rw [hm]; simp⟩
    · cases h; exact ⟨[], by simp⟩

/-- `parse` returns the empty list only if the first parser run returned no node (the input
    holds no command) -/
theorem parse_nil (s : Str) (o : Opts) (h : (parse s o).1 = .parts []) :
    (runParser s o []).1 = .ok none := by
  unfold parse at h
  rcases hr : runParser s o [] with ⟨r, t⟩
  rw [hr] at h
  cases r with
  | error e => simp only [] at h; cases h
  | ok v =>
    cases v with
    | none => rfl
    | some first =>
      exfalso
      simp only [] at h
      rcases hl : parseLoop s o (s.length + 1) (max (nextIndex first) 1) [first] t with ⟨r2, t2⟩
      rw [hl] at h
      cases r2 with
      | error e => simp only [] at h; cases h
      | ok ps =>
        simp only [] at h
        cases h
        obtain ⟨more, hm⟩ := parseLoop_prefix s o _ _ _ _ _ (by rw [hl])
        simp at hm

/-- … and then the first parser run of `parsesingle` returns `None` as well -/
theorem parse_nil_single (s : Str) (o : Opts) (h : (parse s o).1 = .parts []) :
    (parsesingle s o).1 = .single none := by
  have := parse_nil s o h
  unfold parsesingle
  rcases hr : runParser s o [] with ⟨r, t⟩
  rw [hr] at this
  simp only [] at this
  subst this
  rfl

/-! ### `split` -/

/-- the exception discipline of `split`: its own loop (over the tokens) is covered by fuel only -/
def AllowedSplit (T : Exn → Prop) (x : Exn) : Prop := Allowed T x ∨ x = .outOfFuel "split"

theorem splitM_exn (hTok : Sat nextToken (fun _ => True) T)
    (hGather : Sat gatherheredocuments (fun _ => True) T) (s : Str) :
    Sat (splitM s) (fun _ => True) (AllowedSplit T) := by
  have hnp : NPE T (fun string dolparen => do
      let outer ← get
      let ps := if dolparen then { outer.ps with cmdsubst := true, eoftoken := true } else outer.ps
      set ({ tape := some (Tape.ofInput string), opts := some (true, false)
             lastReadToken := outer.lastReadToken, tokenBeforeThat := outer.tokenBeforeThat
             twoTokensAgo := outer.twoTokensAgo, ps := ps
             eofToken := if dolparen then some rparenEofToken else none
             limit := outer.limit.map (· - 1) } : Local)
      let r ← parserRun maxDepth
      let inner ← get
      set { outer with ps := inner.ps }
      pure r) := by
    intro s b
    refine sat_bindN noExn_get (fun _ => sat_bindN (noExn_set _) (fun _ =>
      sat_bindE (parserRun_exn hTok hGather maxDepth) (fun r => ?_)))
    exact sat_bindN noExn_get (fun _ => sat_bindN (noExn_set _) (fun _ => Sat.pure trivial))
  have hexp : ∀ t dq, Sat (expandwordinternal _ t dq) (fun _ => True) (AllowedSplit T) :=
    fun t dq => (sat_expandwordinternal hnp t dq).weaken (fun _ h => h) (fun _ h => Or.inl h)
  unfold splitM
  simp only []
  refine sat_bindN noExn_tapeLine (fun line => sat_bindN noExn_tapeAdded (fun added => ?_))
  refine Sat.loop (I := fun _ => True) (R := fun _ => True) (Or.inr rfl) (fun acc _ => ?_) _ _ trivial
  have hT : Sat nextToken TF (AllowedSplit T) :=
    sat_conj sat_nextToken_tf (hTok.weaken (fun _ h => h) (fun _ h => Or.inl (allowed_tok h)))
  refine Sat.bind hT (fun t ht => ?_)
  refine Sat.ite (fun _ => Sat.pure trivial) (fun _ => ?_)
  refine Sat.ite (fun _ => ?_) (fun _ => Sat.pure trivial)
  refine Sat.ite (fun hq => ?_) (fun _ => ?_)
  · split
    · rename_i hnone
      exfalso
      apply ht.2 hq
      cases hv : t.valueStr with
      | nil => rfl
      | cons a as => rw [hv] at hnone; cases hnone
    · exact sat_bindN (noExn_pure _) (fun _ => sat_bindE (hexp _ _) (fun _ => Sat.pure trivial))
  · exact sat_bindN (noExn_pure _) (fun _ => sat_bindE (hexp _ _) (fun _ => Sat.pure trivial))

/-- the exception discipline, as a predicate on outcomes of `split` -/
def SplitOK (T : Exn → Prop) : Outcome → Prop
  | .strs _ => True
  | .exn x => AllowedSplit T x
  | _ => False

theorem split_ok (hTok : Sat nextToken (fun _ => True) T)
    (hGather : Sat gatherheredocuments (fun _ => True) T) (s : Str) : SplitOK T (split s).1 := by
  unfold split
  simp only []
  rcases hrun : (splitM s).run {} { tape := Tape.ofInput s } with ⟨r, env'⟩
  simp only []
  cases r with
  | ok v => exact True.intro
  | error x => exact (splitM_exn hTok hGather s).err hrun

end Bashlex.C01
