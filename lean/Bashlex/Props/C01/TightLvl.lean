/-
  C01 tight, part 16: exact facts about one `_getc` (on top of `C03.Tok.getc_facts_w`), and the
  part of `_readtokenword` after `# got_token` (`finishWord`): with a non-empty `tokenword` and
  the cursor beyond the recorded start, neither `token.__init__` nor `_is_assignment` raises.
-/
import Bashlex.Props.C03.TokRead
import Bashlex.Props.C01.TightF8
import Bashlex.Props.C01.TightState

namespace Bashlex.C01
open Bashlex Bashlex.M Bashlex.C10 Bashlex.C11 Bashlex.C03.Tok
set_option linter.unusedSimpArgs false
set_option linter.unusedVariables false

/-- an `ET`-triple of a computation that contains none of the two sites -/
theorem lift8 {α : Type} {P : Local → Env → Prop} {Q : α → Local → Env → Prop} {m : M α}
    (h : HT P m Q ET) (hs : F8Sat m) : HT P m Q F8 :=
  HT.weaken (HT.and_sat h hs) (fun _ _ h => h) (fun _ _ _ h => h.2) (fun _ h => h.1)

/-! ## `Tape.getc`, exactly -/

theorem tape_getc_false_step : ∀ (fuel : Nat) (t : Tape) (c : Option Char) (t' : Tape),
    t.getc false fuel = .ok (c, t') → t'.idx ≤ t.idx + 1 := by
  intro fuel
  cases fuel with
  | zero => intro t c t' h; simp only [Tape.getc] at h; cases h; omega
  | succ fuel =>
    intro t c t' h
    unfold Tape.getc at h
    split at h
    · split at h
      · cases h; omega
      · simp only [Bool.and_false, Bool.false_eq_true, if_false] at h
        cases h; simp only []; omega
    · cases h; omega

theorem tape_getc_bs : ∀ (fuel : Nat) (t : Tape) (t' : Tape),
    t.getc true fuel = .ok (some '\\', t') → t'.line[t'.idx]? ≠ some '\n' := by
  intro fuel
  induction fuel with
  | zero => intro t t' h; simp only [Tape.getc] at h; cases h
  | succ fuel ih =>
    intro t t' h
    unfold Tape.getc at h
    split at h
    · split at h
      · cases h
      · rename_i c0 hc
        simp only [] at h
        split at h
        · split at h
          · cases h
          · rename_i d hd
            split at h
            · exact ih _ _ h
            · rename_i hdn
              cases h
              simp only []
              intro hh
              rw [hd] at hh
              simp only [Option.some.injEq] at hh
              apply hdn
              rw [hh]; rfl
        · rename_i hbs
          cases h
          simp only [Bool.and_true] at hbs
          exact absurd (by rfl : ('\\' == '\\') = true) hbs
    · cases h

theorem tape_getc_plain (rqn : Bool) (fuel : Nat) (t : Tape) (ch : Char)
    (h1 : t.line[t.idx]? = some ch) (h2 : ch ≠ '\\') :
    t.getc rqn (fuel + 1) = .ok (some ch, { t with idx := t.idx + 1 }) := by
  have hlt : t.idx < t.line.length := (List.getElem?_eq_some_iff.mp h1).1
  unfold Tape.getc
  rw [if_pos hlt, h1]
  simp only []
  have : (ch == '\\' && rqn) = false := by
    simp [h2]
  rw [this]
  simp

section
variable {L : Str} {sr : List RedirCell} {rk : List (Nat × Bool)} {ps : List Nat} {k : Nat}

/-- everything about one `_getc` from cursor `i` to cursor `i'` -/
structure GX (rqn : Bool) (L : Str) (i : Nat) (c : Option Char) (i' : Nat) : Prop where
  mono : i ≤ i'
  some_ : ∀ ch, c = some ch → i + 1 ≤ i' ∧ L[i' - 1]? = some ch
  none_ : c = none → L.length ≤ i'
  one : rqn = false → i' ≤ i + 1
  bs : rqn = true → c = some '\\' → L[i']? ≠ some '\n'
  plain : ∀ ch, L[i]? = some ch → ch ≠ '\\' → c = some ch ∧ i' = i + 1

theorem getc_x (rqn : Bool) (i : Nat) :
    HT (fun l e => W L sr rk ps k l e ∧ (tapeOf l e).idx = i) (getc rqn)
      (fun c l e => W L sr rk ps k l e ∧ GX rqn L i c (tapeOf l e).idx) ET := by
  intro l e ⟨h, hi⟩
  have h0 := h
  obtain ⟨a1, a2, a3, a4, a5, a6, a7⟩ := h
  rw [run_getc rqn l e a3]
  cases hgc : (tapeOf l e).getc rqn ((tapeOf l e).line.length + 1) with
  | error u => cases u; exact True.intro
  | ok v =>
    obtain ⟨c, t'⟩ := v
    obtain ⟨b1, b2, b3, b4, b5, b6⟩ := getc_spec rqn _ _ _ _ hgc
    obtain ⟨m1, m2⟩ := tape_getc_mono rqn _ _ _ _ hgc
    rw [a1] at b4 b6 m2
    simp only []
    refine ⟨h0.put b1 (b4 a2) (by omega), ?_⟩
    rw [tapeOf_put]
    refine ⟨by omega, fun ch hch => ?_, fun hc => b6 hc (by omega), fun hr => ?_, fun hr hc => ?_,
      fun ch hch hne => ?_⟩
    · obtain ⟨n1, n2⟩ := m2 ch hch
      exact ⟨by omega, n2⟩
    · subst hr
      have := tape_getc_false_step _ _ _ _ hgc
      omega
    · subst hr; subst hc
      have := tape_getc_bs _ _ _ hgc
      rw [b1, a1] at this
      exact this
    · have hp := tape_getc_plain rqn (tapeOf l e).line.length (tapeOf l e) ch (by rw [a1, hi]; exact hch) hne
      rw [hp] at hgc
      simp only [Except.ok.injEq, Prod.mk.injEq] at hgc
      obtain ⟨h1, h2⟩ := hgc
      refine ⟨h1.symm, ?_⟩
      rw [← h2]; simp only []; omega

end


/-! ## `finishWord` -/

/-- two positions on the stack, in order -/
def Pos2 (a : Nat) (l : Local) (_ : Env) : Prop := ∃ b, a < b ∧ l.positions = [a, b]
/-- no constraint -/
def TrueI (_ : Local) (_ : Env) : Prop := True

syntax "p_atom" : tactic
macro_rules | `(tactic| p_atom) => `(tactic| assumption)

theorem p_ask_pos (q : Query) (a : Nat) : HT (Pos2 a) (M.ask q) (fun _ => Pos2 a) F8 := by
  intro l e h; rw [C10.run_ask]; exact h
theorem p_ask_true (q : Query) : HT TrueI (M.ask q) (fun _ => TrueI) F8 := by
  intro l e h; rw [C10.run_ask]; exact h
macro_rules | `(tactic| p_atom) => `(tactic| exact p_ask_pos _ _)
macro_rules | `(tactic| p_atom) => `(tactic| exact p_ask_true _)

theorem hp_ask_bind_pos {β : Type} {a : Nat} {l0 : Local} {q : Query}
    {k : Answer q → M β} {Q : β → Local → Env → Prop}
    (h : ∀ x, HTQAt (Pos2 a) l0 (k x) Q F8) : HTQAt (Pos2 a) l0 (M.ask q >>= k) Q F8 := by
  intro l e ⟨hl, hp⟩
  rw [M.run_bind, C10.run_ask]
  exact h _ l _ ⟨hl, hp⟩
theorem hp_ask_bind_true {β : Type} {l0 : Local} {q : Query}
    {k : Answer q → M β} {Q : β → Local → Env → Prop}
    (h : ∀ x, HTQAt TrueI l0 (k x) Q F8) : HTQAt TrueI l0 (M.ask q >>= k) Q F8 := by
  intro l e ⟨hl, hp⟩
  rw [M.run_bind, C10.run_ask]
  exact h _ l _ ⟨hl, hp⟩

macro "p_step" : tactic => `(tactic| first
  | with_reducible exact HT.pure (fun _ _ h => h)
  | with_reducible exact HT.pure (fun _ _ _ => True.intro)
  | with_reducible refine HT.ite (fun _ => ?_) (fun _ => ?_)
  | with_reducible refine HTQAt.ite (fun _ => ?_) (fun _ => ?_)
  | with_reducible refine HTQAt.ite_bind (fun _ => ?_) (fun _ => ?_)
  | with_reducible p_atom
  | with_reducible refine ht_pure_bind ?_
  | with_reducible refine ht_bind_assoc ?_
  | with_reducible refine ht_ite_bind (fun _ => ?_) (fun _ => ?_)
  | ((with_reducible apply HT.bind); (focus (with_reducible p_atom)); intro _)
  | with_reducible refine HT.get_bind (fun _ => ?_)
  | ((with_reducible refine htq_modify_bind ?_ ?_); focus (intro _ _ h; exact h))
  | ((with_reducible refine HT.modify ?_); (intro _ _ h; exact h))
  | ((with_reducible refine HTQAt.set_bind ?_ ?_); focus (intro _ h; exact h))
  | ((with_reducible refine htq_set ?_); (intro _ h; exact h))
  | ((with_reducible refine HTQAt.foreign_bind ?_); f8exn)
  | ((with_reducible refine HTQAt.foreign ?_); f8exn)
  | with_reducible refine HTQAt.pure_bind ?_
  | with_reducible refine hp_ask_bind_pos (fun _ => ?_)
  | with_reducible refine hp_ask_bind_true (fun _ => ?_)
  | with_reducible exact HT.pure (fun _ _ h => h.2)
  | split_head
  | with_reducible refine HTQAt.ofHT ?_
  | ((with_reducible refine ht_foreign_bind ?_); f8exn)
  | ((with_reducible refine ht_raise_bind ?_); f8exn)
  | ((with_reducible refine HT.raise ?_); f8exn)
  | ((with_reducible refine HT.foreign ?_); f8exn))

macro "p_walk" : tactic => `(tactic| repeat' p_step)

theorem p_createtoken (ty : TokType) (v : TVal) (fl : WordFlags) (a : Nat) :
    HT (Pos2 a) (createtoken ty v fl) (fun _ => TrueI) F8 := by
  intro l e ⟨b, hab, hp⟩
  rw [run_createtoken ty v fl l e a b hp, if_pos hab]
  exact True.intro
macro_rules | `(tactic| p_atom) => `(tactic| exact p_createtoken _ _ _ _)

theorem p_isAssignment (tw : Str) (htw : tw ≠ []) : HT TrueI (isAssignment tw) (fun _ => TrueI) F8 := by
  unfold isAssignment
  cases tw with
  | nil => exact absurd rfl htw
  | cons c cs => simp only []; p_walk

theorem p_specialcasetokens (s : Str) (a : Nat) :
    HT (Pos2 a) (specialcasetokens s) (fun _ => Pos2 a) F8 := by
  unfold specialcasetokens; (try simp only []); p_walk
macro_rules | `(tactic| p_atom) => `(tactic| exact p_specialcasetokens _ _)

set_option maxHeartbeats 1000000 in
/-- **`finishWord`** with the cursor beyond the recorded start and a non-empty `tokenword` -/
theorem p_finishWordBody (st : RWState) (a : Nat) (htw : st.tokenword ≠ []) :
    HT (fun l e => l.positions = [a] ∧ a < (tapeOf l e).idx) (finishWord st)
      (fun _ => TrueI) F8 := by
  have hia := p_isAssignment st.tokenword htw
  unfold finishWord
  refine HT.bind (Q := fun _ => Pos2 a) ?_ (fun _ => ?_)
  · intro l e ⟨hp, hb⟩
    rw [C11.run_recordpos]
    refine ⟨(tapeOf l e).idx, hb, ?_⟩
    show l.positions ++ _ = _
    rw [hp]; rfl
  · (try simp only []); p_walk

end Bashlex.C01
