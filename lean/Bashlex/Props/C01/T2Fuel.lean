/-
  C01 tight 2, part 6 (termination, partial): a potential `Phi` = characters left on the tape (+1 for a
  character in the look-ahead slot); one `_getc` that returns a character lowers it.  Two loops of
  the tokenizer, stated at the level of the tokenizer's state (NOT lifted to `parse`): `_discard_until`
  and `readline(False)` never run out of fuel when `Phi + 2 < 2^30`.
-/
import Bashlex.Props.C01.TightLvl

namespace Bashlex.C01
open Bashlex Bashlex.M Bashlex.C10 Bashlex.C11 Bashlex.C03.Tok
set_option linter.unusedSimpArgs false
set_option linter.unusedVariables false

/-- what is left to read -/
def Phi (l : Local) (e : Env) : Nat :=
  ((tapeOf l e).line.length - (tapeOf l e).idx) + (if l.eolLookahead.isSome then 1 else 0)

/-- a loop whose body lowers a measure of (loop state, parser state) never runs out of fuel -/
theorem ht_loop_mu {σ α : Type} {site : String} {body : σ → M (σ ⊕ α)} {E : Exn → Prop}
    (μ : σ → Local → Env → Nat)
    (hbody : ∀ s n, HT (fun l e => μ s l e = n) (body s)
      (fun r l e => match r with | .inl s' => μ s' l e < n | .inr _ => True) E) :
    ∀ fuel s, HT (fun l e => μ s l e < fuel) (M.loop site body fuel s) (fun _ _ _ => True) E := by
  intro fuel
  induction fuel with
  | zero => intro s l e h; exact absurd h (Nat.not_lt_zero _)
  | succ n ih =>
    intro s
    show HT _ (body s >>= _) _ _
    intro l e h
    rw [M.run_bind]
    have hb := hbody s (μ s l e) l e rfl
    revert hb
    rcases (body s).run l e with ⟨r, e'⟩
    cases r with
    | error x => exact fun hb => hb
    | ok v =>
      obtain ⟨r, l'⟩ := v
      cases r with
      | inl s' => intro hb; exact ih s' l' e' (by omega)
      | inr a => intro _; exact True.intro

/-- one `_getc`: the potential does not grow, and falls when a character is returned -/
theorem getc_phi (rqn : Bool) {E : Exn → Prop} (hE : E (.foreign "IndexError" "_getc")) (n : Nat) :
    HT (fun l e => Phi l e = n) (getc rqn)
      (fun c l e => Phi l e + (if c.isSome then 1 else 0) ≤ n) E := by
  intro l e hn
  cases hl : l.eolLookahead with
  | some c =>
    rw [run_getc_some rqn l e c hl]
    unfold Phi at hn ⊢
    rw [hl] at hn
    simp only [Option.isSome_some, if_true, Option.isSome_none, Bool.false_eq_true, if_false] at hn ⊢
    show (tapeOf l e).line.length - (tapeOf l e).idx + 0 + 1 ≤ n
    omega
  | none =>
    rw [C10.run_getc rqn l e hl]
    cases hgc : (tapeOf l e).getc rqn ((tapeOf l e).line.length + 1) with
    | error u => cases u; exact hE
    | ok v =>
      obtain ⟨c, t'⟩ := v
      obtain ⟨b1, b2, b3, b4, b5, b6⟩ := getc_spec rqn _ _ _ _ hgc
      obtain ⟨m1, m2⟩ := tape_getc_mono rqn _ _ _ _ hgc
      simp only []
      unfold Phi at hn ⊢
      rw [tapeOf_put, putL_eol, hl, b1]
      rw [hl] at hn
      simp only [Option.isSome_none, Bool.false_eq_true, if_false, Nat.add_zero] at hn ⊢
      cases c with
      | none => simp only [Option.isSome_none, Bool.false_eq_true, if_false, Nat.add_zero]; omega
      | some ch =>
        have := b5 rfl
        have := (m2 ch rfl).1
        simp only [Option.isSome_some, if_true]
        omega

/-- not the out-of-fuel marker of `site` -/
def NF (site : String) (x : Exn) : Prop := x ≠ .outOfFuel site

theorem nf_getc (site : String) : NF site (.foreign "IndexError" "_getc") := fun h => by cases h

theorem ungetc_any {E : Exn → Prop} (c : Option Char) :
    HT (fun _ _ => True) (ungetc c) (fun _ _ _ => True) E := by
  intro l e _
  rw [C10.run_ungetc]
  rcases ungetc_cases (tapeOf l e) with h | h <;> rw [h] <;> exact True.intro

/-- the potential after one `_getc`, from a bound on the potential before -/
theorem getc_budget (rqn : Bool) (site : String) (k F : Nat) :
    HT (fun l e => Phi l e + k < F) (getc rqn)
      (fun c l e => Phi l e + (if c.isSome then 1 else 0) + k < F) (NF site) := by
  intro l e h
  have := getc_phi rqn (nf_getc site) (Phi l e) l e rfl
  revert this
  rcases (getc rqn).run l e with ⟨r, e'⟩
  cases r with
  | error x => exact fun h => h
  | ok v => obtain ⟨c, l'⟩ := v; intro hh; simp only [] at hh ⊢; omega

/-- **`_discard_until`** never runs out of fuel (`Phi + 2 < 2^30`) -/
theorem discardUntil_nofuel (ch : Char) :
    HT (fun l e => Phi l e + 2 < 1073741824) (discardUntil ch) (fun _ _ _ => True)
      (NF "_discard_until") := by
  unfold discardUntil
  simp only [loopFuel, pure_bind]
  refine HT.bind (getc_budget false "_discard_until" 2 1073741824) (fun c0 => ?_)
  refine HT.bind (Q := fun _ _ _ => True) ?_ (fun c => ?_)
  · refine HT.pre (ht_loop_mu (μ := fun (c : Option Char) l e => Phi l e + (if c.isSome then 1 else 0))
      (fun c n => ?_) 1073741824 c0) (fun l e h => by omega)
    cases c with
    | none => exact HT.pure (fun _ _ _ => True.intro)
    | some x =>
      simp only []
      refine HT.ite (fun _ => ?_) (fun _ => HT.pure (fun _ _ _ => True.intro))
      intro l e hn
      have hn' : Phi l e = n - 1 := by
        simp only [Option.isSome_some, if_true] at hn; omega
      have hpos : 0 < n := by
        simp only [Option.isSome_some, if_true] at hn; omega
      have := getc_phi false (nf_getc "_discard_until") (n - 1) l e hn'
      rw [M.run_bind]
      revert this
      rcases (getc false).run l e with ⟨r, e'⟩
      cases r with
      | error x => exact fun h => h
      | ok v =>
        obtain ⟨c', l'⟩ := v
        intro hh
        show Phi l' e' + (if c'.isSome then 1 else 0) < n
        simp only [] at hh
        omega
  · refine HT.ite (fun _ => ?_) (fun _ => HT.pure (fun _ _ _ => True.intro))
    exact HT.pre (ungetc_any c) (fun _ _ _ => True.intro)

/-- **`readline(False)`** (the only call: `makeheredoc`) never runs out of fuel (`Phi + 1 < 2^30`) -/
theorem readline_nofuel :
    HT (fun l e => Phi l e + 1 < 1073741824) (readline false) (fun _ _ _ => True) (NF "readline") := by
  unfold readline
  simp only [loopFuel, pure_bind, Bool.and_false, Bool.false_eq_true, if_false]
  refine HT.pre (ht_loop_mu (μ := fun (_ : RLState) l e => Phi l e) (fun st n => ?_) 1073741824 {})
    (fun l e h => by omega)
  refine HT.bind (getc_phi true (nf_getc "readline") n) (fun c0 => ?_)
  repeat' (first
    | with_reducible refine HT.ite (fun _ => ?_) (fun _ => ?_)
    | with_reducible refine ht_pure_bind ?_)
  all_goals first
    | exact HT.pure (fun _ _ _ => True.intro)
    | (refine HT.pure (fun l e h => ?_)
       show Phi l e < n
       rename_i hnn
       cases c0 with
       | none => exact absurd rfl hnn
       | some c => simp only [Option.isSome_some, if_true] at h; omega)

/-- **the blank-skipping loop of `_readtoken`** never runs out of fuel -/
theorem readtoken_loop_nofuel (c0 : Option Char) (F : Nat) :
    HT (fun l e => Phi l e + (if c0.isSome then 1 else 0) < F)
      (M.loop "_readtoken" (fun (c : Option Char) => do
        match c with
        | some ch => if shellblank ch then return .inl (← getc true) else return .inr c
        | none => return .inr c) F c0) (fun _ _ _ => True) (NF "_readtoken") := by
  refine ht_loop_mu (μ := fun (c : Option Char) l e => Phi l e + (if c.isSome then 1 else 0))
    (fun c n => ?_) F c0
  cases c with
  | none => exact HT.pure (fun _ _ _ => True.intro)
  | some x =>
    simp only []
    refine HT.ite (fun _ => ?_) (fun _ => HT.pure (fun _ _ _ => True.intro))
    intro l e hn
    have hn' : Phi l e = n - 1 := by
      simp only [Option.isSome_some, if_true] at hn; omega
    have hpos : 0 < n := by
      simp only [Option.isSome_some, if_true] at hn; omega
    have := getc_phi true (nf_getc "_readtoken") (n - 1) l e hn'
    rw [M.run_bind]
    revert this
    rcases (getc true).run l e with ⟨r, e'⟩
    cases r with
    | error x => exact fun h => h
    | ok v =>
      obtain ⟨c', l'⟩ := v
      intro hh
      show Phi l' e' + (if c'.isSome then 1 else 0) < n
      simp only [] at hh
      omega

end Bashlex.C01

#print axioms Bashlex.C01.discardUntil_nofuel
#print axioms Bashlex.C01.readline_nofuel
#print axioms Bashlex.C01.readtoken_loop_nofuel
