/-
  C01 tight 2, part 3: word expansion and the semantic actions never raise
  `IndexError|_extractcommandsubst`, provided the tokens they expand do not end in `$(` (`TP`) --
  walk generated from `TightFlAct.lean` by renaming (trivial state invariant `TI9`, exceptions `E9`),
  with the pre-condition added at `_paramexpand`, `_expandword`, `p.tokAt`, `_makeparts`.
-/
import Bashlex.Props.C01.TightFlAct
import Bashlex.Props.C01.T2Word

namespace Bashlex.C01
open Bashlex Bashlex.M Bashlex.C10 Bashlex.C11 Bashlex.C01.T2
set_option linter.unusedSimpArgs false
set_option linter.unusedVariables false

/-- no constraint on the state -/
def TI9 (_ : Local) (_ : Env) : Prop := True

/-- not `IndexError|_extractcommandsubst` -/
def E9 (x : Exn) : Prop := x ≠ .foreign "IndexError" "_extractcommandsubst"

theorem e9_parsing {m s p} : E9 (.parsing m s p) := fun h => by cases h
theorem e9_fuel {s} : E9 (.outOfFuel s) := fun h => by cases h
theorem e9_ni {s} : E9 (.notImplemented s) := fun h => by cases h
theorem e9_foreign {a b : String} (h : (a == "IndexError" && b == "_extractcommandsubst") = false) :
    E9 (.foreign a b) := by
  intro hx; cases hx; simp at h
theorem e9_mkParsingError {m s p} : E9 (mkParsingError m s p) := by
  unfold mkParsingError
  split
  · exact e9_parsing
  · exact e9_foreign rfl

macro "e9exn" : tactic => `(tactic| first
  | exact e9_fuel
  | exact e9_foreign rfl
  | exact e9_mkParsingError
  | exact e9_parsing
  | exact e9_ni)

theorem tokExn1_e9 {x : Exn} (h : TokExn1 x) : E9 x := by
  rcases h with ⟨m, s, p, rfl⟩ | h | ⟨site, rfl, _⟩
  · exact e9_parsing
  · simp only [tokForeign1, List.mem_cons, List.mem_nil_iff, or_false] at h
    rcases h with rfl | rfl | rfl | rfl | rfl | rfl | rfl <;> exact e9_foreign rfl
  · exact e9_fuel

abbrev HSat9 {α : Type} (m : M α) : Prop := HT TI9 m (fun _ => TI9) E9

syntax "h9_atom" : tactic
macro_rules | `(tactic| h9_atom) => `(tactic| assumption)
set_option hygiene false in
macro_rules | `(tactic| h9_atom) => `(tactic| exact hnp _ _)

theorem h9_ask (q : Query) : HSat9 (M.ask q) := by
  intro l e h; rw [C10.run_ask]; exact h
macro_rules | `(tactic| h9_atom) => `(tactic| exact h9_ask _)

theorem hh9_ask_bind {β : Type} {l0 : Local} {q : Query}
    {k : Answer q → M β} {Q : β → Local → Env → Prop}
    (h : ∀ a, HTQAt TI9 l0 (k a) Q E9) : HTQAt TI9 l0 (M.ask q >>= k) Q E9 := by
  intro l e ⟨hl, hp⟩
  rw [M.run_bind, C10.run_ask]
  exact h _ l _ ⟨hl, hp⟩

/-- one step of the forward walk: goal `HT (TI9) prog Q E9` -/
macro "h9_step" : tactic => `(tactic| first
  | with_reducible exact HT.pure (fun _ _ h => h)
  | with_reducible refine HT.ite (fun _ => ?_) (fun _ => ?_)
  | with_reducible refine HTQAt.ite (fun _ => ?_) (fun _ => ?_)
  | with_reducible refine HTQAt.ite_bind (fun _ => ?_) (fun _ => ?_)
  | with_reducible h9_atom
  | with_reducible refine ht_pure_bind ?_
  | with_reducible refine ht_bind_assoc ?_
  | with_reducible refine ht_ite_bind (fun _ => ?_) (fun _ => ?_)
  | ((with_reducible apply HT.bind); (focus (with_reducible h9_atom)); intro _)
  | with_reducible refine HT.get_bind (fun _ => ?_)
  | ((with_reducible refine htq_modify_bind ?_ ?_); focus (intro _ _ h; exact h))
  | ((with_reducible refine HT.modify ?_); (intro _ _ h; exact h))
  | ((with_reducible refine HTQAt.set_bind ?_ ?_); focus (intro _ h; exact h))
  | ((with_reducible refine htq_set ?_); (intro _ h; exact h))
  | ((with_reducible refine HTQAt.foreign_bind ?_); e9exn)
  | ((with_reducible refine HTQAt.foreign ?_); e9exn)
  | with_reducible refine HTQAt.pure_bind ?_
  | with_reducible refine hh9_ask_bind (fun _ => ?_)
  | with_reducible exact HT.pure (fun _ _ h => h.2)
  | split_head
  | with_reducible refine HTQAt.ofHT ?_
  | ((with_reducible refine ht_foreign_bind ?_); e9exn)
  | ((with_reducible refine ht_raise_bind ?_); e9exn)
  | ((with_reducible refine HT.raise ?_); e9exn)
  | ((with_reducible refine HT.foreign ?_); e9exn)
  | ((with_reducible refine HT.bind (Q := fun _ => TI9) (ht_loopI ?_ (fun _ => ?_) _ _) (fun _ => ?_)); focus e9exn)
  | ((with_reducible refine ht_loopI ?_ (fun _ => ?_) _ _); focus e9exn))

macro "h9_walk" : tactic => `(tactic| repeat' h9_step)


theorem h9_sat {α : Type} {m : M α} (h : Sat m (fun _ => True) E9) : HSat9 m := by
  intro l e _
  have := h l e
  revert this
  rcases m.run l e with ⟨r, e'⟩
  cases r with
  | ok v => exact fun _ => True.intro
  | error x => exact fun h => h

theorem h9_tapeSource : HSat9 tapeSource := h9_sat (NoExn.sat noExn_tapeSource)
theorem h9_optProceed : HSat9 optProceed := h9_sat (NoExn.sat noExn_optProceed)
theorem h9_curIdx : HSat9 curIdx := h9_sat (NoExn.sat noExn_curIdx)
theorem h9_gatherheredocuments : HSat9 gatherheredocuments :=
  h9_sat (t1_gatherheredocuments.weaken (fun _ h => h) (fun _ h => tokExn1_e9 h))
macro_rules | `(tactic| h9_atom) => `(tactic| exact h9_tapeSource)
macro_rules | `(tactic| h9_atom) => `(tactic| exact h9_optProceed)
macro_rules | `(tactic| h9_atom) => `(tactic| exact h9_curIdx)
macro_rules | `(tactic| h9_atom) => `(tactic| exact h9_gatherheredocuments)

/-- the nested parser keeps the invariant of its caller -/
abbrev NP9 (np : NestedParse) : Prop := ∀ s b, HSat9 (np s b)

/-- the walk, with `for` loops and the one `set` that pushes a redirect -/
macro "h9a_walk" : tactic => `(tactic| repeat' (first
  | h9_step
  | with_reducible refine ht_forIn (fun _ _ => ?_) _ _
  | with_reducible refine HT.bind (Q := fun _ => TI9) (ht_forIn (fun _ _ => ?_) _ _) (fun _ => ?_)))

variable {np : NestedParse}

/-! ### word expansion -/

theorem h9_adjustpositions (n : Node) (b l : Nat) :
    HSat9 (adjustpositions n b l) := by
  unfold adjustpositions; h9a_walk
macro_rules | `(tactic| h9_atom) => `(tactic| exact h9_adjustpositions _ _ _)

theorem h9_recursiveparse (hnp : NP9 np) (base : Str) (i : Nat) (b : Bool) :
    HSat9 (recursiveparse np base i b) := by
  unfold recursiveparse; (try simp only []); h9a_walk
macro_rules | `(tactic| h9_atom) => `(tactic| exact h9_recursiveparse (by assumption) _ _ _)

theorem h9_parsedolparen (hnp : NP9 np) (base : Str) (i : Nat) :
    HSat9 (parsedolparen np base i) := by
  unfold parsedolparen; (try simp only []); h9a_walk
macro_rules | `(tactic| h9_atom) => `(tactic| exact h9_parsedolparen (by assumption) _ _)

theorem nodp_false {s : Str} {i : Nat} (h0 : s[i]? = some '$') (h1 : s[i + 1]? = some '(')
    (h2 : s[i + 1 + 1]? = none) (h : NoDP s) : False := by
  have hl1 : i + 1 < s.length := (List.getElem?_eq_some_iff.mp h1).1
  have hl2 : s.length ≤ i + 1 + 1 := List.getElem?_eq_none_iff.mp h2
  have hlen : s.length = i + 2 := by omega
  have hlast : s.getLast? = some '(' := by
    rw [List.getLast?_eq_getElem?, hlen]; exact h1
  have hd : s.dropLast.getLast? = some '$' := by
    have e1 : s.dropLast.length = i + 1 := by rw [List.length_dropLast, hlen]; rfl
    rw [List.getLast?_eq_getElem?, e1]
    show s.dropLast[i]? = some '$'
    rw [List.getElem?_dropLast, if_pos (by omega)]
    exact h0
  exact h hlast hd

theorem ht9_foreign_false {α : Type} {P : Local → Env → Prop} {Q : α → Local → Env → Prop}
    {a b : String} (h : False) : HT P (M.foreign a b : M α) Q E9 := h.elim

theorem h9_paramexpand (hnp : NP9 np) (s : Str) (i : Nat) (hs : NoDP s)
    (hd : ∃ c, s[i]? = some c ∧ (c == '$' && decide (s.length > 1)) = true) :
    HSat9 (paramexpand np s i) := by
  have hd' : s[i]? = some '$' := by
    obtain ⟨c, h1, h2⟩ := hd
    rw [Bool.and_eq_true] at h2
    rw [h1, eq_of_beq h2.1]
  unfold paramexpand; (try simp only [])
  repeat' (first
    | h9_step
    | with_reducible refine ht_forIn (fun _ _ => ?_) _ _
    | with_reducible refine ht9_foreign_false ?_)
  rename_i _ c hc _ _ hpar _ hnone
  have : c = '(' := eq_of_beq hpar
  subst this
  exact nodp_false hd' hc hnone hs
macro_rules | `(tactic| h9_atom) => `(tactic| exact h9_paramexpand (by assumption) _ _ (by assumption) ⟨_, by assumption, by assumption⟩)

theorem h9_expandStep (hnp : NP9 np) (tok : Token) (s : Str) (qd : Bool) (st : ExpSt)
    (hs : NoDP s) : HSat9 (expandStep np tok s qd st) := by
  unfold expandStep; (try simp only []); h9a_walk
macro_rules | `(tactic| h9_atom) => `(tactic| exact h9_expandStep (by assumption) _ _ _ _ (by assumption))

theorem h9_expandwordinternal (hnp : NP9 np) (tok : Token) (qd : Bool) (htp : TP tok) :
    HSat9 (expandwordinternal np tok qd) := by
  have hs : NoDP tok.valueStr := htp
  unfold expandwordinternal; (try simp only []); h9a_walk
macro_rules | `(tactic| h9_atom) => `(tactic| exact h9_expandwordinternal (by assumption) _ _ (by assumption))

theorem h9_expandword (hnp : NP9 np) (tok : Token) (htp : TP tok) :
    HSat9 (expandword np tok) := by
  unfold expandword; (try simp only []); h9a_walk
macro_rules | `(tactic| h9_atom) => `(tactic| exact h9_expandword (by assumption) _ (by assumption))

/-! ### the semantic actions -/

theorem h9_tokAt (p : PCtx) (i : Nat) : HSat9 (p.tokAt i) := by
  unfold PCtx.tokAt; h9a_walk
theorem h9_strAt (p : PCtx) (i : Nat) : HSat9 (p.strAt i) := by
  have := h9_tokAt p i
  unfold PCtx.strAt; h9a_walk
theorem h9_nodeAt (p : PCtx) (i : Nat) (s : String) : HSat9 (p.nodeAt i s) := by
  unfold PCtx.nodeAt; h9a_walk
theorem h9_nodesAt (p : PCtx) (i : Nat) (s : String) : HSat9 (p.nodesAt i s) := by
  unfold PCtx.nodesAt; h9a_walk
macro_rules | `(tactic| h9_atom) => `(tactic| exact h9_tokAt _ _)
macro_rules | `(tactic| h9_atom) => `(tactic| exact h9_strAt _ _)
macro_rules | `(tactic| h9_atom) => `(tactic| exact h9_nodeAt _ _ _)
macro_rules | `(tactic| h9_atom) => `(tactic| exact h9_nodesAt _ _ _)

theorem h9_nodePos (n : Node) : HSat9 (nodePos n) := by
  unfold nodePos; h9a_walk
macro_rules | `(tactic| h9_atom) => `(tactic| exact h9_nodePos _)

theorem h9_partsspan (parts : List Node) : HSat9 (partsspan parts) := by
  unfold partsspan; h9a_walk
macro_rules | `(tactic| h9_atom) => `(tactic| exact h9_partsspan _)

theorem h9_reservedAt (p : PCtx) (i : Nat) : HSat9 (reservedAt p i) := by
  unfold reservedAt; h9a_walk
theorem h9_operatorAt (p : PCtx) (i : Nat) : HSat9 (operatorAt p i) := by
  unfold operatorAt; h9a_walk
macro_rules | `(tactic| h9_atom) => `(tactic| exact h9_reservedAt _ _)
macro_rules | `(tactic| h9_atom) => `(tactic| exact h9_operatorAt _ _)

theorem h9_handleAssert (b : Bool) : HSat9 (handleAssert b) := by
  unfold handleAssert; h9a_walk
macro_rules | `(tactic| h9_atom) => `(tactic| exact h9_handleAssert _)

theorem h9_addRedirects (n : Node) (reds : List Node) :
    HSat9 (addRedirects n reds) := by
  unfold addRedirects; (try simp only []); h9a_walk
macro_rules | `(tactic| h9_atom) => `(tactic| exact h9_addRedirects _ _)

/-- the value invariant of the LR stack: tokens do not end in `$(` -/
def VT (v : SVal) : Prop := ∀ t, v = .tok t → TP t
abbrev ArgsT (args : List SVal) : Prop := ∀ a, a ∈ args → VT a

theorem vt_slice {args : List SVal} (h : ArgsT args) (np : NestedParse) (i : Nat) :
    VT (PCtx.slice ⟨np, args⟩ i) := by
  unfold PCtx.slice
  simp only [List.getD_eq_getElem?_getD]
  cases hx : args[i - 1]? with
  | none => intro t ht; cases ht
  | some a => exact h a (List.mem_of_getElem? hx)

theorem h9_tokAtT (np : NestedParse) (args : List SVal) (hargs : ArgsT args) (i : Nat) :
    HT TI9 (PCtx.tokAt ⟨np, args⟩ i) (fun t l e => TP t ∧ TI9 l e) E9 := by
  unfold PCtx.tokAt
  have := vt_slice hargs np i
  split
  · rename_i t ht
    exact HT.pure (fun _ _ h => ⟨this t ht, h⟩)
  · exact HT.foreign (e9_foreign rfl)

theorem ht_forIn_mem {γ β : Type} {I : Local → Env → Prop} {E : Exn → Prop}
    {f : γ → β → M (ForInStep β)} :
    ∀ (l : List γ), (∀ a, a ∈ l → ∀ b, HT I (f a b) (fun _ => I) E) →
      ∀ (b : β), HT I (forIn l b f) (fun _ => I) E := by
  intro l
  induction l with
  | nil => intro _ b; rw [List.forIn_nil]; exact HT.pure (fun _ _ h => h)
  | cons a rest ih =>
    intro h b
    rw [List.forIn_cons]
    refine HT.bind (h a List.mem_cons_self b) (fun r => ?_)
    cases r with
    | done b' => exact HT.pure (fun _ _ h => h)
    | yield b' => exact ih (fun x hx => h x (List.mem_cons_of_mem _ hx)) b'

theorem h9_makeparts (hnp : NP9 np) (args : List SVal) (hargs : ArgsT args) :
    HSat9 (makeparts ⟨np, args⟩) := by
  unfold makeparts; simp only [bind_pure]
  refine ht_forIn_mem _ (fun a ha b => ?_) _
  have hva : VT a := hargs a ha
  cases a with
  | tok t =>
    have htp : TP t := hva t rfl
    simp only []
    h9a_walk
  | _ => simp only []; h9a_walk
macro_rules | `(tactic| h9_atom) => `(tactic| exact h9_makeparts (by assumption) _ (by assumption))

theorem h9_handleNotImplemented (hnp : NP9 np) (args : List SVal) (ty : String) (hargs : ArgsT args) :
    HSat9 (handleNotImplemented ⟨np, args⟩ ty) := by
  unfold handleNotImplemented; h9a_walk
macro_rules | `(tactic| h9_atom) => `(tactic| exact h9_handleNotImplemented (by assumption) _ _ (by assumption))

theorem h9_mkCompound1 (inner : Span → List Node → Node) (parts : List Node) :
    HSat9 (mkCompound1 inner parts) := by
  unfold mkCompound1; h9a_walk
macro_rules | `(tactic| h9_atom) => `(tactic| exact h9_mkCompound1 _ _)

theorem h9_joinLists (p : PCtx) (mk : Span → Str → Node) (s : String) :
    HSat9 (joinLists p mk s) := by
  unfold joinLists; (try simp only []); h9a_walk
macro_rules | `(tactic| h9_atom) => `(tactic| exact h9_joinLists _ _ _)

set_option maxHeartbeats 4000000 in
/-- **every semantic action**: no `IndexError|_extractcommandsubst`, given tokens not ending in `$(` -/
theorem h9_actionCore (hnp : NP9 np) (fname : String) (args : List SVal) (hargs : ArgsT args) :
    HSat9 (actionCore np fname args) := by
  unfold actionCore
  simp only []
  split
  all_goals repeat' (first
    | ((with_reducible apply HT.bind); (focus (with_reducible exact h9_tokAtT _ _ (by assumption) _)); intro _;
       refine HT.pre_pure (fun _ => ?_))
    | h9_step
    | with_reducible refine ht_forIn (fun _ _ => ?_) _ _
    | with_reducible refine HT.bind (Q := fun _ => TI9) (ht_forIn (fun _ _ => ?_) _ _) (fun _ => ?_))

theorem h9_action (hnp : NP9 np) (fname : String) (args : List SVal) (hargs : ArgsT args) :
    HSat9 (action np fname args) := by
  have := h9_actionCore hnp fname args hargs
  unfold action; h9a_walk

end Bashlex.C01
