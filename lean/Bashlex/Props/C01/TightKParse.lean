/-
  C01 tight, part 12: the invariant `KI` through the LR engine (`C11.run_ok`, generic in the state
  invariant), the nested parsers (every nesting depth) and the entry points.
-/
import Bashlex.Props.C01.TightKAct
import Bashlex.Props.C11.Engine
import Bashlex.Props.C11.Parse

namespace Bashlex.C01
open Bashlex Bashlex.M Bashlex.C10 Bashlex.C11 Bashlex.LR
set_option linter.unusedSimpArgs false
set_option linter.unusedVariables false

variable {np : NestedParse}

/-- no query changes the line of the environment's tape -/
theorem Q_run_line {α : Type} (q : Q α) : ∀ e : Env, (Q.run q e).2.tape.line = e.tape.line := by
  induction q with
  | pure a => intro e; rfl
  | ask q k ih =>
    intro e
    simp only [Q.run]
    exact (ih _ _).trans (answer_line e q)

theorem run_line {α : Type} (m : M α) (l : Local) (e : Env) :
    (M.run m l e).2.tape.line = e.tape.line := Q_run_line (m l) e

theorem lineOK_ofInput (s : Str) : LineOK (Tape.ofInput s).line := by
  unfold Tape.ofInput LineOK
  split
  · rename_i h; simp only []; rw [h]; intro hh; cases hh
  · rename_i c h
    split
    · rename_i hc
      simp only []
      rw [h]
      have : c = '\n' := by simpa using hc
      rw [this]; intro hh; cases hh
    · simp only [List.getLast?_append, List.getLast?_singleton]
      intro hh; cases hh

theorem pError_never (t : Token) (R : List (Nat × Bool)) :
    HT (KI R) (pError t) (fun _ _ _ => False) E3 := by
  unfold pError
  refine HT.bind (k_tapeSource R) (fun src => ?_)
  split
  · exact HT.raise e3_mkParsingError
  · exact HT.raise e3_mkParsingError

theorem e3_site {ty site : String} (h1 : site ≠ "_getc") (h2 : site ≠ "makeheredoc") :
    E3 (.foreign ty site) := by
  constructor
  · intro h; injection h with _ h; exact h1 h
  · intro h; injection h with _ h; exact h2 h

theorem k_hooks (hnp : NPK np) : HooksOK (KI []) (lrHooks np) (fun _ => True) E3 := by
  refine ⟨?_, ?_, ?_, ?_, ?_⟩
  · show SatI (KI []) (nextToken >>= fun t => pure (symOfTok t, SVal.tok t)) _ _
    exact HT.bind (k_nextToken []) (fun t => HT.pure (fun l e h => ⟨True.intro, h⟩))
  · intro p args _
    exact HT.post (k_action hnp _ args []) (fun _ _ _ h => ⟨True.intro, h⟩)
  · rintro ⟨sym, v⟩ _
    show HT _ (match v with | .tok t => pError t | _ => M.foreign "AssertionError" "p_error") _ _
    split
    · exact pError_never _ _
    · exact HT.foreign (e3_foreign rfl)
  · intro ty
    exact ⟨e3_site (by decide) (by decide), e3_site (by decide) (by decide)⟩
  · exact e3_fuel

theorem k_parserRunWith (hnp : NPK np) : KSat [] (parserRunWith np) := by
  unfold parserRunWith
  refine HT.bind (HT.post (run_ok _ _ (k_hooks hnp) _) (fun _ _ _ h => h.2)) (fun res => ?_)
  refine HT.bind (Q := fun _ => KI []) (HT.post HT.get (fun _ _ _ h => h.2)) (fun l => ?_)
  simp only []
  split <;> exact HT.pure (fun _ _ h => h)

theorem k_nestedOf {inner : M (Option Node)} (hin : KSat [] inner) : NPK (nestedOf inner) := by
  intro s b R l e hk
  rw [run_nestedOf]
  have hline := run_line inner (nestedLocal l s b) e
  have h := hin (nestedLocal l s b) e
    ⟨lineOK_ofInput s, (fun p hp => by cases hp), (fun p hp => by cases hp)⟩
  rcases hr : M.run inner (nestedLocal l s b) e with ⟨r, e'⟩
  rw [hr] at h hline
  cases r with
  | error x => exact h
  | ok v =>
    obtain ⟨r, l'⟩ := v
    refine ⟨?_, hk.2.1, hk.2.2⟩
    have h1 := hk.1
    unfold tapeOf at h1 ⊢
    simp only [] at hline
    cases hl : l.tape with
    | some t => rw [hl] at h1; simpa [hl] using h1
    | none => rw [hl] at h1; simp only [hl] at h1 ⊢; rw [hline]; exact h1

/-- every nesting depth -/
theorem k_parserRun : ∀ d, KSat [] (parserRun d) := by
  intro d
  induction d with
  | zero => exact HT.raise e3_fuel
  | succ d ih =>
    rw [parserRun_succ]
    exact k_parserRunWith (k_nestedOf ih)

theorem runParser_e3 {s : Str} {o : Opts} {t : List Char} {x : Exn}
    (h : (runParser s o t).1 = .error x) : E3 x := by
  unfold runParser at h
  simp only [] at h
  rcases hrun : (parserRun maxDepth).run { limit := o.limit }
      { tape := Tape.ofInput s, strict := o.strict, proceed := o.proceed, touched := t } with ⟨r, env'⟩
  rw [hrun] at h
  simp only [] at h
  cases r with
  | ok v => simp only [Except.map] at h; cases h
  | error y =>
    simp only [Except.map] at h
    cases h
    refine HT.err (k_parserRun maxDepth) (l := { limit := o.limit })
      (e := { tape := Tape.ofInput s, strict := o.strict, proceed := o.proceed, touched := t }) ?_ hrun
    exact ⟨lineOK_ofInput s, (fun p hp => by cases hp), (fun p hp => by cases hp)⟩

/-- **`parse` never raises `IndexError|_getc` or `IndexError|makeheredoc`** -/
theorem parse_e3 (s : Str) (o : Opts) {x : Exn} (h : (parse s o).1 = .exn x) : E3 x := by
  rcases parse_exn s o h with h | rfl | ⟨i, t, _, _, h⟩
  · exact runParser_e3 h
  · exact e3_fuel
  · exact runParser_e3 h

theorem parsesingle_e3 (s : Str) (o : Opts) {x : Exn} (h : (parsesingle s o).1 = .exn x) : E3 x :=
  runParser_e3 (parsesingle_exn s o h)

/-- `split`: its nested-parse function is `nestedOf (parserRun maxDepth)`, spelled out -/
theorem k_splitM (s : Str) : KSat [] (splitM s) := by
  have hexp : ∀ t dq R, KSat R (expandwordinternal (nestedOf (parserRun maxDepth)) t dq) :=
    fun t dq R => k_expandwordinternal (k_nestedOf (k_parserRun maxDepth)) t dq R
  have hnt := k_nextToken []
  unfold splitM
  simp only []
  repeat' (first
    | ((with_reducible apply HT.bind); (focus (exact hexp _ _ _)); intro _)
    | ((with_reducible refine HTQAt.set_bind ?_ ?_); focus (intro _ h; exact KI.pushRedir h _ _))
    | k_step)

theorem split_e3 (s : Str) {x : Exn} (h : (split s).1 = .exn x) : E3 x := by
  unfold split at h
  simp only [] at h
  rcases hrun : (splitM s).run {} { tape := Tape.ofInput s } with ⟨r, env'⟩
  rw [hrun] at h
  simp only [] at h
  cases r with
  | ok v => cases h
  | error y =>
    cases h
    refine HT.err (k_splitM s) (l := {}) (e := { tape := Tape.ofInput s }) ?_ hrun
    exact ⟨lineOK_ofInput s, (fun p hp => by cases hp), (fun p hp => by cases hp)⟩

end Bashlex.C01
