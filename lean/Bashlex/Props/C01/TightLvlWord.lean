/-
  C01 tight, part 17: the loop of `_readtokenword` with the cursor kept BEYOND the token's start
  and `tokenword` non-empty after the first iteration.  `a` = recorded start (position of the first
  character), so the cursor is `≥ a + 1` after every iteration and `≥ a + 2` while a character read
  after the first one is in hand.  Uses the level lemmas of `Props/C03/Tok*.lean` (generic in the
  level) for the scanners, the restatement `readtokenwordStep_eq` of `Props/C04/TTWord.lean`.
-/
import Bashlex.Props.C01.TightLvl
import Bashlex.Props.C04.TTWord

namespace Bashlex.C01
open Bashlex Bashlex.M Bashlex.C10 Bashlex.C11 Bashlex.C03.Tok Bashlex.C04.TTP
set_option linter.unusedSimpArgs false
set_option linter.unusedVariables false
set_option linter.unusedSectionVars false

section
variable {L : Str} {sr : List RedirCell} {rk : List (Nat × Bool)} {ps : List Nat} {k : Nat}

/-- a level triple with exceptions in `F8` -/
theorem w8 {α : Type} {I J : Local → Env → Prop} {m : M α} {φ : α → Prop} (h : SatW I J m φ)
    (hs : F8Sat m) : HT I m (fun a l e => φ a ∧ J l e) F8 := lift8 h hs

/-- a state-agnostic fact about the result joins a triple -/
theorem val8 {α : Type} {I : Local → Env → Prop} {Q : α → Local → Env → Prop} {m : M α} {ψ : α → Prop}
    (h : HT I m Q F8) (hv : Sat m ψ) : HT I m (fun a l e => ψ a ∧ Q a l e) F8 :=
  HT.weaken (HT.and_sat h hv) (fun _ _ h => h) (fun _ _ _ h => h) (fun _ h => h.2)

/-! ### values of the syntax-class tests, any environment-stable invariant -/

variable {I : Local → Env → Prop} [EnvStable I]

theorem sq_val (c : Char) : HT I (shellquote c) (fun r l e => r = (synClass c).quote ∧ I l e) F8 := by
  unfold shellquote
  refine HT.bind (w8 (syn_val c) (NoExn.sat (noExn_ask _))) (fun r => HT.pre_pure (fun hr => ?_))
  exact HT.pure (fun l e h => ⟨by rw [hr], h⟩)
theorem sx_val (c : Char) : HT I (shellexp c) (fun r l e => r = (synClass c).exp ∧ I l e) F8 := by
  unfold shellexp
  refine HT.bind (w8 (syn_val c) (NoExn.sat (noExn_ask _))) (fun r => HT.pre_pure (fun hr => ?_))
  exact HT.pure (fun l e h => ⟨by rw [hr], h⟩)
theorem sb_val (c : Char) : HT I (shellbreak c) (fun r l e => r = (synClass c).brk ∧ I l e) F8 := by
  unfold shellbreak
  refine HT.bind (w8 (syn_val c) (NoExn.sat (noExn_ask _))) (fun r => HT.pre_pure (fun hr => ?_))
  exact HT.pure (fun l e h => ⟨by rw [hr], h⟩)

theorem cd8 : HT I currentDelimiter (fun _ l e => I l e) F8 := by
  unfold currentDelimiter
  intro l e h
  simp only [M.run_bind, C10.run_get, M.run_pure]
  exact h

theorem rwCond8 (cd peek : Option Char) : HT I (rwCond cd peek) (fun _ l e => I l e) F8 := by
  unfold rwCond
  refine HT.ite (fun _ => HT.pure (fun _ _ h => h)) (fun _ => ?_)
  refine HT.ite (fun _ => ?_) (fun _ => HT.pure (fun _ _ h => h))
  split
  · exact HT.pure (fun _ _ h => h)
  · refine HT.bind (w8 (syn_val _) (NoExn.sat (noExn_ask _))) (fun r => HT.pre_pure (fun _ => ?_))
    exact HT.pure (fun _ _ h => h)

end

/-! ### what the closures append -/

theorem sat_hsq_ne (st : RWState) (c : Char) :
    Sat (handleshellquote st c) (fun r => r.tokenword ≠ []) := by
  unfold handleshellquote
  refine Sat.bind_any (fun _ => Sat.bind_any (fun _ => Sat.bind_any (fun ttok =>
    Sat.bind_any (fun _ => Sat.pure ?_))))
  simp

set_option maxHeartbeats 1000000 in
theorem sat_hse_ne (st : RWState) (c : Char) (cd : Option Char) :
    Sat (handleshellexp st c cd)
      (fun x => (x.2 = true → x.1 = st) ∧ (x.2 = false → x.1.tokenword ≠ [])) := by
  unfold handleshellexp
  simp only []
  repeat' (first
    | with_reducible refine Sat.ite (fun _ => ?_) (fun _ => ?_)
    | with_reducible refine Sat.bind_any (fun _ => ?_)
    | with_reducible refine Sat.pure ?_)
  all_goals (refine ⟨fun h1 => ?_, fun h2 => ?_⟩)
  all_goals first
    | rfl
    | (cases h1; done)
    | (cases h2; done)
    | (simp; done)

/-! ### the loop -/

section
variable {L : Str} {sr : List RedirCell} {rk : List (Nat × Bool)} {a : Nat}

/-- after the first iteration: the cursor is beyond the start, `tokenword` is not empty, and a
    character in hand was read at `cursor - 1 ≥ a + 1` -/
def Later (L : Str) (sr : List RedirCell) (rk : List (Nat × Bool)) (a : Nat) (st : RWState)
    (l : Local) (e : Env) : Prop :=
  W L sr rk [a] (a + 1) l e ∧ st.tokenword ≠ [] ∧
  ∀ ch, st.c = some ch → a + 2 ≤ (tapeOf l e).idx ∧ L[(tapeOf l e).idx - 1]? = some ch

/-- the loop is left: cursor beyond the start, `tokenword` not empty -/
def ExitW (L : Str) (sr : List RedirCell) (rk : List (Nat × Bool)) (a : Nat) (st : RWState)
    (l : Local) (e : Env) : Prop :=
  W L sr rk [a] (a + 1) l e ∧ st.tokenword ≠ []

def StepPost (L : Str) (sr : List RedirCell) (rk : List (Nat × Bool)) (a : Nat)
    (r : RWState ⊕ RWState) (l : Local) (e : Env) : Prop :=
  match r with
  | .inl s => Later L sr rk a s l e
  | .inr s => ExitW L sr rk a s l e

theorem tail8 (st : RWState) (htw : st.tokenword ≠ []) :
    HT (W L sr rk [a] (a + 1)) (rwTail st) (StepPost L sr rk a) F8 := by
  unfold rwTail
  refine HT.bind (cd8 (I := W L sr rk [a] (a + 1))) (fun cd => ?_)
  refine HT.bind (lift8 (getc_w _) (f8_getc _)) (fun nc => ?_)
  refine HT.pure (fun l e h => ?_)
  exact ⟨h.1, htw, fun ch hch => h.2.1 ch hch⟩

theorem break8 (st : RWState) (c : Char) (g : Bool) (hgn : g = true → st.tokenword ≠ [])
    (hbk : g = false → (synClass c).brk = true → st.tokenword ≠ []) :
    HT (fun l e => W L sr rk [a] (a + 1) l e ∧
          (g = false → (synClass c).brk = true → a + 2 ≤ (tapeOf l e).idx))
      (rwBreak st c g) (StepPost L sr rk a) F8 := by
  unfold rwBreak
  cases g with
  | true =>
    simp only [Bool.not_true, Bool.false_eq_true, if_false]
    exact HT.pre (tail8 st (hgn rfl)) (fun l e h => h.1)
  | false =>
    simp only [Bool.not_false, if_true]
    intro l e ⟨hw, hc⟩
    by_cases hb : (synClass c).brk = true
    · -- a break character: pushed back
      have h2 : a + 2 ≤ (tapeOf l e).idx := by simpa [hb] using hc
      have hw2 : W L sr rk [a] (a + 1 + 1) l e := by
        obtain ⟨a1, a2, a3, a4, a5, a6, a7⟩ := hw
        exact ⟨a1, a2, a3, a4, a5, a6, by omega⟩
      have key : HT (W L sr rk [a] (a + 1 + 1)) (do
          if ← shellbreak c then
            ungetc (some c)
            return .inr { st with c := some c }
          else rwTail (handleescapedchar st c) : M (RWState ⊕ RWState)) (StepPost L sr rk a) F8 := by
        refine HT.bind (sb_val (I := W L sr rk [a] (a + 1 + 1)) c) (fun r => HT.pre_pure (fun hr => ?_))
        rw [hr, hb]
        simp only [if_true]
        refine HT.bind (w8 (ungetc_down (some c)) (f8_ungetc _)) (fun _ => HT.pre_pure (fun _ => ?_))
        exact HT.pure (fun l e h => ⟨h, hbk rfl hb⟩)
      exact key l e hw2
    · have hb' : (synClass c).brk = false := by
        cases h : (synClass c).brk with
        | true => exact absurd h hb
        | false => rfl
      have key : HT (W L sr rk [a] (a + 1)) (do
          if ← shellbreak c then
            ungetc (some c)
            return .inr { st with c := some c }
          else rwTail (handleescapedchar st c) : M (RWState ⊕ RWState)) (StepPost L sr rk a) F8 := by
        refine HT.bind (sb_val (I := W L sr rk [a] (a + 1)) c) (fun r => HT.pre_pure (fun hr => ?_))
        rw [hr, hb']
        simp only [Bool.false_eq_true, if_false]
        exact tail8 _ (by simp [handleescapedchar])
      exact key l e hw

/-- `rwBreak` entered at level `a + 2` -/
theorem break8' (st : RWState) (c : Char) (g : Bool) (hgn : g = true → st.tokenword ≠ [])
    (hbk : g = false → (synClass c).brk = true → st.tokenword ≠ []) :
    HT (W L sr rk [a] (a + 2)) (rwBreak st c g) (StepPost L sr rk a) F8 :=
  HT.pre (break8 st c g hgn hbk) (fun l e h => ⟨h.mono (by omega), fun _ _ => h.2.2.2.2.2.2⟩)

/-- `rwBreak` when nothing is pushed back -/
theorem break8nb (st : RWState) (c : Char) (g : Bool) (hgn : g = true → st.tokenword ≠ [])
    (hnb : g = false → (synClass c).brk = false) :
    HT (W L sr rk [a] (a + 1)) (rwBreak st c g) (StepPost L sr rk a) F8 :=
  HT.pre (break8 st c g hgn (fun hg hb => by rw [hnb hg] at hb; cases hb))
    (fun l e h => ⟨h, fun hg hb => by rw [hnb hg] at hb; cases hb⟩)

set_option maxHeartbeats 1000000 in
/-- **one iteration after the first** -/
theorem step8 (hlen : a + 2 ≤ L.length) (hnl : L[L.length - 1]? = some '\n') (st : RWState) :
    HT (Later L sr rk a st) (readtokenwordStep st) (StepPost L sr rk a) F8 := by
  rw [readtokenwordStep_eq]
  cases hc : st.c with
  | none =>
    simp only []
    exact HT.pure (fun l e h => ⟨h.1, h.2.1⟩)
  | some ch =>
    simp only []
    suffices key : st.tokenword ≠ [] → (ch ≠ '\n' → a + 2 < L.length) →
        HT (W L sr rk [a] (a + 2)) _ (StepPost L sr rk a) F8 by
      intro l e hL
      obtain ⟨hw, htw, hch⟩ := hL
      obtain ⟨hidx, hat⟩ := hch ch hc
      have hw2 : W L sr rk [a] (a + 2) l e := by
        obtain ⟨a1, a2, a3, a4, a5, a6, a7⟩ := hw
        exact ⟨a1, a2, a3, a4, a5, a6, hidx⟩
      have hroom : ch ≠ '\n' → a + 2 < L.length := by
        intro hne
        have hle : (tapeOf l e).idx ≤ L.length := hw.2.1
        have hlt : (tapeOf l e).idx - 1 < L.length := (List.getElem?_eq_some_iff.mp hat).1
        by_cases heq : (tapeOf l e).idx - 1 = L.length - 1
        · rw [heq, hnl] at hat
          simp only [Option.some.injEq] at hat
          exact absurd hat.symm hne
        · omega
      exact key htw hroom l e hw2
    intro htw hroom
    refine HT.ite (fun _ => ?_) (fun _ => ?_)
    · -- the character after a backslash
      exact HT.pre (tail8 _ (by simp [handleescapedchar])) (fun l e h => h.mono (by omega))
    refine HT.bind (cd8 (I := W L sr rk [a] (a + 2))) (fun cd => ?_)
    refine HT.ite (fun hbs => ?_) (fun hbs => ?_)
    · -- backslash
      have hch : ch = '\\' := by simpa using hbs
      refine HT.bind (w8 (getc_keep false) (f8_getc _)) (fun peek => HT.pre_pure (fun _ => ?_))
      refine HT.ite (fun _ => ?_) (fun _ => ?_)
      · exact HT.pre (break8' st '\n' true (fun _ => htw) (fun h => by cases h)) (fun l e h => h)
      refine HT.bind (w8 (ungetc_down peek) (f8_ungetc _)) (fun _ => HT.pre_pure (fun _ => ?_))
      refine HT.bind (rwCond8 (I := W L sr rk [a] (a + 1)) cd peek) (fun cond => ?_)
      refine HT.ite (fun _ => ?_) (fun _ => ?_)
      · exact break8nb _ ch true (fun _ => by simp [handleescapedchar]) (fun h => by cases h)
      · exact break8nb st ch false (fun h => by cases h) (fun _ => by rw [hch]; rfl)
    refine HT.bind (sq_val (I := W L sr rk [a] (a + 2)) ch) (fun q => HT.pre_pure (fun hq => ?_))
    refine HT.ite (fun hq1 => ?_) (fun hq1 => ?_)
    · -- a quote
      have hk : a + 1 < L.length := by omega
      refine HT.pre (P := W L sr rk [a] (a + 1)) ?_ (fun l e h => h.mono (by omega))
      refine HT.bind (val8 (w8 (w_handleshellquote hk st ch) (f8_handleshellquote st ch))
        (sat_hsq_ne st ch)) (fun st' => HT.pre_pure (fun hst' => ?_))
      refine HT.weaken (break8nb st' ch true (fun _ => hst') (fun h => by cases h))
        (fun l e h => h.2) (fun _ _ _ h => h) (fun _ h => h)
    refine HT.bind (sx_val (I := W L sr rk [a] (a + 2)) ch) (fun x => HT.pre_pure (fun hx => ?_))
    refine HT.ite (fun hx1 => ?_) (fun hx1 => ?_)
    · -- `$`, `<`, `>`
      have hexp : (synClass ch).exp = true := by rw [← hx]; exact hx1
      have hne : ch ≠ '\n' := by
        intro h; rw [h] at hexp; exact absurd hexp (by decide)
      have hk : a + 2 < L.length := hroom hne
      refine HT.bind (val8 (w8 (w_handleshellexp hk st ch cd) (f8_handleshellexp st ch cd))
        (sat_hse_ne st ch cd)) (fun r => HT.pre_pure (fun hr => ?_))
      refine HT.weaken (break8' r.1 ch (!r.2) ?_ ?_) (fun l e h => h.2) (fun _ _ _ h => h) (fun _ h => h)
      · intro hg
        have : r.2 = false := by simpa using hg
        exact hr.2 this
      · intro hg _
        have : r.2 = true := by simpa using hg
        rw [hr.1 this]; exact htw
    · exact break8' st ch false (fun h => by cases h) (fun _ _ => htw)

/-! ### the first iteration -/

/-- level `i` with the cursor exactly at `i` -/
def WX (L : Str) (sr : List RedirCell) (rk : List (Nat × Bool)) (ps : List Nat) (i : Nat)
    (l : Local) (e : Env) : Prop := W L sr rk ps i l e ∧ (tapeOf l e).idx = i

instance {ps : List Nat} {i : Nat} : EnvStable (WX L sr rk ps i) :=
  ⟨fun l e e' h h1 _ => ⟨h.1.env h1, by rw [tapeOf_env h1]; exact h.2⟩⟩

/-- `handleshellexp` on `<` / `>` with `(` under the cursor: a process substitution is read -/
theorem hse_paren {i : Nat} (hi : a + 1 ≤ i) (hlen : a + 2 ≤ L.length) (hp : L[i]? = some '(')
    (st : RWState) (c : Char) (cd : Option Char) :
    HT (WX L sr rk [a] i) (handleshellexp st c cd)
      (fun r l e => (r.2 = false ∧ r.1.tokenword ≠ []) ∧ W L sr rk [a] (a + 1) l e) F8 := by
  unfold handleshellexp
  refine HT.bind (lift8 (getc_x true i) (f8_getc _)) (fun peek => ?_)
  suffices key : peek = some '(' → HT (W L sr rk [a] (a + 1)) _
      (fun (r : RWState × Bool) l e => (r.2 = false ∧ r.1.tokenword ≠ []) ∧ W L sr rk [a] (a + 1) l e) F8 by
    intro l e h1
    have hpk : peek = some '(' := (h1.2.plain '(' hp (by decide)).1
    exact key hpk l e (h1.1.mono hi)
  intro hpk
  subst hpk
  have hk : a + 1 < L.length := by omega
  refine HT.ite (fun _ => ?_) (fun h => absurd (by simp) h)
  simp only []
  refine HT.ite (fun h => absurd h (by decide)) (fun _ => ?_)
  refine HT.ite (fun _ => ?_) (fun h => absurd (by rfl) h)
  refine HT.bind (w8 (w_pushDelimiter _) (f8_pushDelimiter _)) (fun _ => HT.pre_pure (fun _ => ?_))
  refine HT.bind (w8 w_depthFuel f8_depthFuel) (fun fuel => HT.pre_pure (fun _ => ?_))
  refine HT.bind (w8 (w_parseComsub hk fuel _) (f8_parseComsub fuel _)) (fun t => HT.pre_pure (fun _ => ?_))
  refine HT.bind (w8 w_popDelimiter f8_popDelimiter) (fun _ => HT.pre_pure (fun _ => ?_))
  simp only [pure_bind]
  exact HT.pure (fun l e h => ⟨⟨rfl, by simp⟩, h⟩)

theorem exp_cases' {c : Char} (h : (synClass c).exp = true) : c = '$' ∨ c = '<' ∨ c = '>' := by
  simp only [synClass, Bool.or_eq_true, beq_iff_eq] at h
  rcases h with (h | h) | h
  · exact Or.inl h
  · exact Or.inr (Or.inl h)
  · exact Or.inr (Or.inr h)

/-- the state before the first iteration: the first character `c0` in hand, nothing appended,
    the cursor exactly at `i` -/
def First (L : Str) (sr : List RedirCell) (rk : List (Nat × Bool)) (a i : Nat) (c0 : Char)
    (st : RWState) (l : Local) (e : Env) : Prop :=
  (st.c = some c0 ∧ st.tokenword = [] ∧ st.passNext = false) ∧ WX L sr rk [a] i l e

set_option maxHeartbeats 1000000 in
/-- **the first iteration**: something is appended and the cursor stays beyond the start -/
theorem first8 {i : Nat} (hlen : a + 2 ≤ L.length) (hi : a + 1 ≤ i) (c0 : Char)
    (hws : (synClass c0).brk = false ∨ c0 = '<' ∨ c0 = '>')
    (hbs : c0 = '\\' → L[i]? ≠ some '\n')
    (hlt : (c0 = '<' ∨ c0 = '>') → L[i]? = some '(') (st : RWState) :
    HT (First L sr rk a i c0 st) (readtokenwordStep st) (StepPost L sr rk a) F8 := by
  rw [readtokenwordStep_eq]
  refine HT.pre_pure (fun hst => ?_)
  obtain ⟨hc, htw, hpn⟩ := hst
  rw [hc]
  simp only []
  have hk : a + 1 < L.length := by omega
  refine HT.ite (fun h => absurd h (by rw [hpn]; simp)) (fun _ => ?_)
  refine HT.bind (cd8 (I := WX L sr rk [a] i)) (fun cd => ?_)
  refine HT.ite (fun hb => ?_) (fun hb => ?_)
  · -- a backslash that no newline follows
    have hc0 : c0 = '\\' := by simpa using hb
    have hnn := hbs hc0
    refine HT.bind (lift8 (getc_x false i) (f8_getc _)) (fun peek => ?_)
    suffices key : peek ≠ some '\n' → HT (W L sr rk [a] (a + 1 + 1)) _ (StepPost L sr rk a) F8 by
      intro l e h1
      obtain ⟨hw, hg⟩ := h1
      have hpk : peek ≠ some '\n' := by
        intro hp
        obtain ⟨g1, g2⟩ := hg.some_ '\n' hp
        have g3 := hg.one rfl
        have : (tapeOf l e).idx - 1 = i := by omega
        rw [this] at g2
        exact hnn g2
      have hw2 : W L sr rk [a] (a + 1 + 1) l e := by
        obtain ⟨a1, a2, a3, a4, a5, a6, a7⟩ := hw
        refine ⟨a1, a2, a3, a4, a5, a6, ?_⟩
        cases hp : peek with
        | none => have := hg.none_ hp; omega
        | some ch => have := (hg.some_ ch hp).1; omega
      exact key hpk l e hw2
    intro hpk
    refine HT.ite (fun h => absurd (by simpa using h) hpk) (fun _ => ?_)
    refine HT.bind (w8 (ungetc_down peek) (f8_ungetc _)) (fun _ => HT.pre_pure (fun _ => ?_))
    refine HT.bind (rwCond8 (I := W L sr rk [a] (a + 1)) cd peek) (fun cond => ?_)
    refine HT.ite (fun _ => ?_) (fun _ => ?_)
    · exact break8nb _ c0 true (fun _ => by simp [handleescapedchar]) (fun h => by cases h)
    · exact break8nb st c0 false (fun h => by cases h) (fun _ => by rw [hc0]; rfl)
  have hne : c0 ≠ '\\' := by
    intro h; apply hb; rw [h]; rfl
  refine HT.bind (sq_val (I := WX L sr rk [a] i) c0) (fun q => HT.pre_pure (fun hq => ?_))
  refine HT.ite (fun hq1 => ?_) (fun hq1 => ?_)
  · -- a quote
    refine HT.pre (P := W L sr rk [a] (a + 1)) ?_ (fun l e h => h.1.mono hi)
    refine HT.bind (val8 (w8 (w_handleshellquote hk st c0) (f8_handleshellquote st c0))
      (sat_hsq_ne st c0)) (fun st' => HT.pre_pure (fun hst' => ?_))
    exact HT.weaken (break8nb st' c0 true (fun _ => hst') (fun h => by cases h))
      (fun l e h => h.2) (fun _ _ _ h => h) (fun _ h => h)
  refine HT.bind (sx_val (I := WX L sr rk [a] i) c0) (fun x => HT.pre_pure (fun hx => ?_))
  refine HT.ite (fun hx1 => ?_) (fun hx1 => ?_)
  · have hexp : (synClass c0).exp = true := by rw [← hx]; exact hx1
    rcases exp_cases' hexp with h | h
    · -- `$`
      refine HT.pre (P := W L sr rk [a] (a + 1)) ?_ (fun l e h => h.1.mono hi)
      refine HT.bind (val8 (w8 (w_handleshellexp hk st c0 cd) (f8_handleshellexp st c0 cd))
        (sat_hse_ne st c0 cd)) (fun r => HT.pre_pure (fun hr => ?_))
      refine HT.weaken (break8nb r.1 c0 (!r.2) ?_ (fun _ => by rw [h]; rfl))
        (fun l e h => h.2) (fun _ _ _ h => h) (fun _ h => h)
      intro hg
      have : r.2 = false := by simpa using hg
      exact hr.2 this
    · -- `<(` or `>(`
      refine HT.bind (hse_paren hi hlen (hlt h) st c0 cd) (fun r => HT.pre_pure (fun hr => ?_))
      refine break8nb r.1 c0 (!r.2) (fun _ => hr.2) (fun hg => ?_)
      rw [hr.1] at hg; cases hg
  · -- a plain character: not a break character
    have hexp : (synClass c0).exp = false := by
      rw [← hx]
      cases hxx : x with
      | true => exact absurd hxx hx1
      | false => rfl
    have hnb : (synClass c0).brk = false := by
      rcases hws with h | h | h
      · exact h
      · rw [h] at hexp; cases hexp
      · rw [h] at hexp; cases hexp
    exact HT.pre (break8nb st c0 false (fun h => by cases h) (fun _ => hnb)) (fun l e h => h.1.mono hi)

/-- the invariant of the loop -/
def LoopI (L : Str) (sr : List RedirCell) (rk : List (Nat × Bool)) (a i : Nat) (c0 : Char)
    (st : RWState) (l : Local) (e : Env) : Prop :=
  First L sr rk a i c0 st l e ∨ Later L sr rk a st l e

/-- **`_readtokenword(c0)`**, entered with `c0` read at position `a`, the start recorded and the
    cursor at `i ≥ a + 1`: neither `token.__init__` nor `_is_assignment` raises -/
theorem readtokenword8 {i : Nat} (hlen : a + 2 ≤ L.length) (hnl : L[L.length - 1]? = some '\n')
    (hi : a + 1 ≤ i) (c0 : Char)
    (hws : (synClass c0).brk = false ∨ c0 = '<' ∨ c0 = '>')
    (hbs : c0 = '\\' → L[i]? ≠ some '\n')
    (hlt : (c0 = '<' ∨ c0 = '>') → L[i]? = some '(') :
    HT (WX L sr rk [a] i) (readtokenword c0) (fun _ => TrueI) F8 := by
  unfold readtokenword
  refine HT.bind (Q := fun _ => WX L sr rk [a] i) (HT.pure (fun _ _ h => h)) (fun fuel => ?_)
  refine HT.bind (Q := fun st l e => ExitW L sr rk a st l e) ?_ (fun st => ?_)
  · refine HT.pre (HT.loop (I := LoopI L sr rk a i c0) f8_fuel (fun s => ?_) fuel _)
      (fun l e h => Or.inl ⟨⟨rfl, rfl, rfl⟩, h⟩)
    have h1 := first8 (sr := sr) (rk := rk) hlen hi c0 hws hbs hlt s
    have h2 := step8 (sr := sr) (rk := rk) hlen hnl s
    have hstep : HT (LoopI L sr rk a i c0 s) (readtokenwordStep s) (StepPost L sr rk a) F8 := by
      intro l e h
      rcases h with h | h
      · exact h1 l e h
      · exact h2 l e h
    refine HT.post hstep (fun r l e h => ?_)
    cases r with
    | inl s' => exact Or.inr h
    | inr s' => exact h
  · refine HT.pre (P := fun l e => st.tokenword ≠ [] ∧ (l.positions = [a] ∧ a < (tapeOf l e).idx))
      (HT.pre_pure (fun htw => p_finishWordBody st a htw)) (fun l e h => ?_)
    obtain ⟨⟨a1, a2, a3, a4, a5, a6, a7⟩, htw⟩ := h
    exact ⟨htw, a4, by omega⟩

end

end Bashlex.C01
