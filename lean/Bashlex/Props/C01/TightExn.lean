/-
  C01 tight, part 1: the smaller exception discipline `TokExn1` of the tokenizer and the walks.

  `TokExn1` = `TokExn` without the seven raise sites that are excluded by facts about the
  PARAMETERS and the LOOP STATES of the tokenizer's functions (no fact about the parser state or
  the tape is needed, so the state-agnostic logic `Sat` carries them):
    TypeError|_parse_matched_pair, UnboundLocalError|handledollarword,
    AssertionError|handledollarword, IndexError|_parse_comsub, UnboundLocalError|_parse_comsub,
    TypeError|_readtokenword, ValueError|_readtoken.
  The remaining sites depend on the state (tape, delimiter stack, recorded positions, redirect
  store): `TightState*.lean` (two of them, still for all states), `TightK*.lean` (two, with an
  invariant of the parser object), `TightWitness.lean` (the last two), see `Props/C01Tight.lean`.
-/
import Bashlex.Props.C01.Tokenizer

namespace Bashlex.C01
open Bashlex Bashlex.M
set_option linter.unusedSimpArgs false
set_option linter.unusedVariables false

/-- the raise sites of the tokenizer that remain after the state-agnostic walk (all depend on the
    state of the parser object; four more are excluded in `TightState*.lean`, `TightK*.lean`) -/
def tokForeign1 : List Exn :=
  [ .foreign "IndexError" "_getc",
    .foreign "IndexError" "makeheredoc",
    .foreign "IndexError" "_pop_delimiter",
    .foreign "AssertionError" "_createtoken",
    .foreign "AssertionError" "token.__init__",
    .foreign "IndexError" "_is_assignment",
    .foreign "AssertionError" "ParsingError.__init__" ]

/-- what the tokenizer may raise, tightened -/
def TokExn1 (x : Exn) : Prop :=
  (∃ m s p, x = .parsing m s p) ∨ x ∈ tokForeign1 ∨ (∃ site, x = .outOfFuel site ∧ site ∈ tokFuel)

theorem tokExn1_tokExn {x : Exn} (h : TokExn1 x) : TokExn x := by
  rcases h with h | h | h
  · exact Or.inl h
  · refine Or.inr (Or.inl ?_)
    simp only [tokForeign1, List.mem_cons, List.mem_nil_iff, or_false] at h
    rcases h with rfl | rfl | rfl | rfl | rfl | rfl | rfl <;> simp [tokForeign]
  · exact Or.inr (Or.inr h)

theorem tokExn1_mkParsingError {m s p} : TokExn1 (mkParsingError m s p) := by
  unfold mkParsingError
  split
  · exact Or.inl ⟨_, _, _, rfl⟩
  · exact Or.inr (Or.inl (by simp [tokForeign1]))

/-- discharge `TokExn1 x` for a literal `x` -/
macro "tokexn1" : tactic => `(tactic| first
  | exact tokExn1_mkParsingError
  | (refine Or.inr (Or.inl ?_); simp [tokForeign1]; done)
  | (refine Or.inr (Or.inr ⟨_, rfl, ?_⟩); simp [tokFuel]; done))

abbrev TSat1 {α : Type} (m : M α) : Prop := Sat m (fun _ => True) TokExn1

/-- known callees, post-condition `True` (extended after each lemma) -/
syntax "t1_atom" : tactic
macro_rules | `(tactic| t1_atom) => `(tactic| assumption)
macro_rules | `(tactic| t1_atom) => `(tactic| exact NoExn.sat noExn_get)
macro_rules | `(tactic| t1_atom) => `(tactic| exact NoExn.sat (noExn_set _))
macro_rules | `(tactic| t1_atom) => `(tactic| exact NoExn.sat (noExn_modify _))
macro_rules | `(tactic| t1_atom) => `(tactic| exact NoExn.sat (noExn_ask _))
macro_rules | `(tactic| t1_atom) => `(tactic| exact NoExn.sat noExn_curIdx)
macro_rules | `(tactic| t1_atom) => `(tactic| exact NoExn.sat noExn_tapeSource)
macro_rules | `(tactic| t1_atom) => `(tactic| exact NoExn.sat noExn_tapeLine)
macro_rules | `(tactic| t1_atom) => `(tactic| exact NoExn.sat noExn_tapeAdded)
macro_rules | `(tactic| t1_atom) => `(tactic| exact NoExn.sat noExn_optStrict)
macro_rules | `(tactic| t1_atom) => `(tactic| exact NoExn.sat noExn_optProceed)
macro_rules | `(tactic| t1_atom) => `(tactic| exact NoExn.sat (noExn_pure _))

/-- walk through a program: post-condition `True`, exceptions `TokExn1` -/
macro "t1_walk" : tactic => `(tactic| repeat' (first
  | with_reducible exact Sat.pure True.intro
  | with_reducible refine Sat.ite (fun _ => ?_) (fun _ => ?_)
  | with_reducible t1_atom
  | with_reducible refine sat_bindE ?_ (fun _ => ?_)
  | ((with_reducible refine Sat.raise ?_); tokexn1)
  | ((with_reducible refine Sat.foreign ?_); tokexn1)
  | ((with_reducible refine sat_loopT ?_ (fun _ => ?_) _ _); focus tokexn1)
  | split))

/-- `bind` after a known callee whose result matters (extended per lemma): the fact about the
    result is the last hypothesis of the remaining goal -/
syntax "t1_bindv" : tactic

/-- the same walk with a post-condition: a compound first component of a `bind` is entered with
    the continuation as its post-condition (`Sat.bind'`), so the leaves are the post-condition at
    the returned value, with every test on the path in the context -/
macro "t1_stepP" : tactic => `(tactic| first
  | with_reducible refine Sat.pure ?_
  | with_reducible refine Sat.ite (fun _ => ?_) (fun _ => ?_)
  | with_reducible t1_bindv
  | ((with_reducible refine sat_bindE ?_ (fun _ => ?_)); focus (with_reducible t1_atom))
  | ((with_reducible refine Sat.raise ?_); tokexn1)
  | ((with_reducible refine Sat.foreign ?_); tokexn1)
  | with_reducible refine Sat.bind' ?_
  | split)

macro "t1_walkP" : tactic => `(tactic| repeat' t1_stepP)

end Bashlex.C01
