/-
  C01, part 8a: what the tokenizer itself may raise (`TokExn`): a `ParsingError`, one of an explicit
  list of foreign exceptions (its own raise sites, not analysed for reachability here), or the
  out-of-fuel marker of one of its loops.  The walk through `Model/Tokenizer.lean` is automatic
  (`tok_walk`): post-condition `True`, every raise site is looked up in the lists.
-/
import Bashlex.Props.C01.Basic
import Bashlex.Model.Tokenizer

namespace Bashlex.C01
open Bashlex Bashlex.M
set_option linter.unusedSimpArgs false
set_option linter.unusedVariables false

/-- the raise sites of the tokenizer (tokenizer.py, heredoc.py) for exceptions outside the
    contract; their reachability is not analysed at this level -/
def tokForeign : List Exn :=
  [ .foreign "IndexError" "_getc",
    .foreign "IndexError" "makeheredoc",
    .foreign "IndexError" "_pop_delimiter",
    .foreign "TypeError" "_parse_matched_pair",
    .foreign "UnboundLocalError" "handledollarword",
    .foreign "AssertionError" "handledollarword",
    .foreign "IndexError" "_parse_comsub",
    .foreign "UnboundLocalError" "_parse_comsub",
    .foreign "AssertionError" "_createtoken",
    .foreign "AssertionError" "token.__init__",
    .foreign "IndexError" "_is_assignment",
    .foreign "TypeError" "_readtokenword",
    .foreign "ValueError" "_readtoken",
    .foreign "AssertionError" "ParsingError.__init__" ]

/-- the loops of the tokenizer, covered by the 2^30 fuel (2^20 for the nesting of
    `_parse_matched_pair` / `_parse_comsub`) -/
def tokFuel : List String :=
  ["readline", "makeheredoc", "gatherheredocuments", "_parse_matched_pair", "_parse_comsub",
   "_readtokenword", "_discard_until", "_readtoken"]

/-- what the tokenizer may raise -/
def TokExn (x : Exn) : Prop :=
  (∃ m s p, x = .parsing m s p) ∨ x ∈ tokForeign ∨ (∃ site, x = .outOfFuel site ∧ site ∈ tokFuel)

theorem tokExn_mkParsingError {m s p} : TokExn (mkParsingError m s p) := by
  unfold mkParsingError
  split
  · exact Or.inl ⟨_, _, _, rfl⟩
  · exact Or.inr (Or.inl (by simp [tokForeign]))

/-- discharge `TokExn x` for a literal `x` -/
macro "tokexn" : tactic => `(tactic| first
  | exact tokExn_mkParsingError
  | (refine Or.inr (Or.inl ?_); simp [tokForeign]; done)
  | (refine Or.inr (Or.inr ⟨_, rfl, ?_⟩); simp [tokFuel]; done))

/-- a fuel loop with nothing to remember -/
theorem sat_loopT {σ α : Type} {site : String} {body : σ → M (σ ⊕ α)} {E : Exn → Prop}
    (hfuel : E (.outOfFuel site)) (hbody : ∀ s, Sat (body s) (fun _ => True) E) (fuel : Nat) (s : σ) :
    Sat (M.loop site body fuel s) (fun _ => True) E :=
  Sat.loop (I := fun _ => True) (R := fun _ => True) hfuel
    (fun s _ => (hbody s).weaken (fun r _ => by cases r <;> exact True.intro) (fun _ h => h)) fuel s
    True.intro

/-- known callees (extended after each lemma) -/
syntax "tok_atom" : tactic
macro_rules | `(tactic| tok_atom) => `(tactic| assumption)
set_option hygiene false in
macro_rules | `(tactic| tok_atom) => `(tactic| exact hpmp _)
set_option hygiene false in
macro_rules | `(tactic| tok_atom) => `(tactic| exact hpcs _)
set_option hygiene false in
macro_rules | `(tactic| tok_atom) => `(tactic| exact hd _ _ _)
set_option hygiene false in
macro_rules | `(tactic| tok_atom) => `(tactic| exact hpost _ _ _ _)
set_option hygiene false in
macro_rules | `(tactic| tok_atom) => `(tactic| exact hcpost _ _ _)
macro_rules | `(tactic| tok_atom) => `(tactic| exact NoExn.sat noExn_get)
macro_rules | `(tactic| tok_atom) => `(tactic| exact NoExn.sat (noExn_set _))
macro_rules | `(tactic| tok_atom) => `(tactic| exact NoExn.sat (noExn_modify _))
macro_rules | `(tactic| tok_atom) => `(tactic| exact NoExn.sat (noExn_ask _))
macro_rules | `(tactic| tok_atom) => `(tactic| exact NoExn.sat noExn_curIdx)
macro_rules | `(tactic| tok_atom) => `(tactic| exact NoExn.sat noExn_tapeSource)
macro_rules | `(tactic| tok_atom) => `(tactic| exact NoExn.sat noExn_tapeLine)
macro_rules | `(tactic| tok_atom) => `(tactic| exact NoExn.sat noExn_tapeAdded)
macro_rules | `(tactic| tok_atom) => `(tactic| exact NoExn.sat noExn_optStrict)
macro_rules | `(tactic| tok_atom) => `(tactic| exact NoExn.sat noExn_optProceed)
macro_rules | `(tactic| tok_atom) => `(tactic| exact NoExn.sat (noExn_pure _))

/-- walk through a program: post-condition `True`, exceptions `TokExn` -/
macro "tok_walk" : tactic => `(tactic| repeat' (first
  | with_reducible exact Sat.pure True.intro
  | with_reducible refine Sat.ite (fun _ => ?_) (fun _ => ?_)
  | with_reducible tok_atom
  | with_reducible refine sat_bindE ?_ (fun _ => ?_)
  | ((with_reducible refine Sat.raise ?_); tokexn)
  | ((with_reducible refine Sat.foreign ?_); tokexn)
  | ((with_reducible refine sat_loopT ?_ (fun _ => ?_) _ _); focus tokexn)
  | split))

abbrev TSat {α : Type} (m : M α) : Prop := Sat m (fun _ => True) TokExn

end Bashlex.C01
