/-
  C01, part 6: exception discipline of the semantic actions.  `shAction_sound`: on arguments of
  the shapes the grammar guarantees, an action returns a value of the shape of its left-hand side,
  accepts only if it is one of the accepting actions, and raises only `Allowed` exceptions — in
  particular none of the `AttributeError` / `TypeError` / `IndexError` branches of `p.slice`,
  `_partsspan`, `p_simple_list`, `p_shell_command`, … is reachable.
-/
import Bashlex.Props.C01.Shapes
import Bashlex.Props.C12.Actions

namespace Bashlex.C01
open Bashlex Bashlex.M Bashlex.LR Bashlex.C12
set_option linter.unusedSimpArgs false
set_option linter.unusedVariables false

variable {T : Exn → Prop}

/-- what the actions need from their surroundings -/
structure Ctx (T : Exn → Prop) (np : NestedParse) : Prop where
  word : ∀ t, TokQ t → Sat (expandword np t) (fun _ => True) (Allowed T)
  gather : Sat gatherheredocuments (fun _ => True) (Allowed T)

/-- post-condition of a non-accepting action of result shape `σ` -/
def PostN (σ : Sh) (r : SVal × Bool) : Prop := HasSh σ r.1 ∧ r.2 = false

theorem sat_of_noExn {α : Type} {m : M α} {P : α → Prop} {E : Exn → Prop} (h : NoExn m)
    (hp : ∀ a, P a) : Sat m P E :=
  (h E).weaken (fun a _ => hp a) (fun _ h => h)

theorem noExn_partsspan {parts : List Node} (h : parts ≠ []) : NoExn (partsspan parts) := by
  cases parts with
  | nil => exact absurd rfl h
  | cons a l =>
    unfold partsspan
    have hl : (a :: l).getLast? = some ((a :: l).getLast (by simp)) := List.getLast?_eq_some_getLast _
    simp only [List.head?_cons, hl]
    exact noExn_bind (noExn_nodePos _) (fun _ => noExn_bind (noExn_nodePos _) (fun _ => noExn_pure _))

theorem sat_handleAssert (b : Bool) : Sat (handleAssert b) (fun _ => True) (Allowed T) := by
  unfold handleAssert
  split
  · exact Sat.pure trivial
  · exact Sat.foreign known_handleAssert

theorem noExn_mkCompound1 {inner : Span → List Node → Node} {parts : List Node} (h : parts ≠ []) :
    NoExn (mkCompound1 inner parts) := by
  unfold mkCompound1
  exact noExn_bind (noExn_partsspan h) (fun _ => noExn_pure _)

theorem sat_mkCompound1 {inner : Span → List Node → Node} {parts : List Node} (h : parts ≠ []) :
    Sat (mkCompound1 inner parts) (HasSh .node) (Allowed T) := by
  unfold mkCompound1
  exact sat_bindN (noExn_partsspan h) (fun _ => Sat.pure ⟨_, rfl⟩)

/-! ### the simplest actions -/

theorem sh_empty {np args} : Sat (actionCore np "p_empty" args) (PostN .none) (Allowed T) := by
  unfold actionCore; simp only []
  exact Sat.pure ⟨rfl, rfl⟩

theorem sh_newline_list {np args} : Sat (actionCore np "p_newline_list" args) (PostN .none) (Allowed T) := by
  unfold actionCore; simp only []
  exact Sat.pure ⟨rfl, rfl⟩

theorem sh_simple_list_terminator {np args} :
    Sat (actionCore np "p_simple_list_terminator" args) (PostN .none) (Allowed T) := by
  unfold actionCore; simp only []
  exact Sat.pure ⟨rfl, rfl⟩

theorem sh_list_terminator {np args} :
    Sat (actionCore np "p_list_terminator" args) (PostN .optNode) (Allowed T) := by
  unfold actionCore; simp only []
  split
  · split
    · exact Sat.pure ⟨Or.inr ⟨_, rfl⟩, rfl⟩
    · exact Sat.pure ⟨Or.inl rfl, rfl⟩
  · exact Sat.pure ⟨Or.inl rfl, rfl⟩

theorem sh_inputunit {np args} :
    Sat (actionCore np "p_inputunit" args) (fun r => HasSh .optNode r.1) (Allowed T) := by
  unfold actionCore; simp only []
  refine sat_bindN noExn_get (fun l => ?_)
  have hm : Sat (match PCtx.slice ⟨np, args⟩ 1 with
      | .node n => (pure (SVal.node n, true) : M (SVal × Bool))
      | _ => pure (SVal.none, false)) (fun r => HasSh .optNode r.1) (Allowed T) := by
    split
    · exact Sat.pure (Or.inr ⟨_, rfl⟩)
    · exact Sat.pure (Or.inl rfl)
  split
  · exact sat_bindN (noExn_modify _) (fun _ => hm)
  · exact hm

theorem sh_word_list {np shapes args σ} (hC : Ctx T np) (h : shAction "p_word_list" shapes = some σ)
    (ha : Forall2 HasSh shapes args) : Sat (actionCore np "p_word_list" args) (PostN σ) (Allowed T) := by
  unfold shAction at h; simp only [] at h
  split at h
  · cases h
    obtain ⟨a, rfl, ⟨t, rfl, -, ht⟩⟩ := forall2_1 ha
    unfold actionCore; simp only []
    simp [PCtx.len, PCtx.tokAt, PCtx.slice]
    exact Sat.map ((hC.word t ht.2).weaken (fun w _ => ⟨⟨_, rfl, by simp⟩, rfl⟩) (fun _ h => h))
  · cases h
    obtain ⟨a, b, rfl, ⟨l, rfl, hl⟩, ⟨t, rfl, -, ht⟩⟩ := forall2_2 ha
    unfold actionCore; simp only []
    simp [PCtx.len, PCtx.tokAt, PCtx.slice, PCtx.nodesAt]
    exact Sat.map ((hC.word t ht.2).weaken (fun w _ => ⟨⟨_, rfl, by simp⟩, rfl⟩) (fun _ h => h))
  · cases h

theorem sh_redirection_list {np shapes args σ} (h : shAction "p_redirection_list" shapes = some σ)
    (ha : Forall2 HasSh shapes args) :
    Sat (actionCore np "p_redirection_list" args) (PostN σ) (Allowed T) := by
  unfold shAction at h; simp only [] at h
  split at h
  · cases h
    obtain ⟨a, rfl, ⟨n, rfl⟩⟩ := forall2_1 ha
    unfold actionCore; simp only []
    simp [PCtx.len, PCtx.nodeAt, PCtx.slice]
    exact Sat.pure ⟨⟨_, rfl, by simp⟩, rfl⟩
  · cases h
    obtain ⟨a, b, rfl, ⟨l, rfl, hl⟩, ⟨n, rfl⟩⟩ := forall2_2 ha
    unfold actionCore; simp only []
    simp [PCtx.len, PCtx.nodeAt, PCtx.slice, PCtx.nodesAt]
    exact Sat.pure ⟨⟨_, rfl, by simp⟩, rfl⟩
  · cases h

theorem sh_simple_command {np shapes args σ} (h : shAction "p_simple_command" shapes = some σ)
    (ha : Forall2 HasSh shapes args) :
    Sat (actionCore np "p_simple_command" args) (PostN σ) (Allowed T) := by
  unfold shAction at h; simp only [] at h
  split at h
  · cases h
    obtain ⟨a, rfl, ⟨l, rfl, hl⟩⟩ := forall2_1 ha
    unfold actionCore; simp only []
    simp [PCtx.len, PCtx.slice]
    exact Sat.pure ⟨⟨_, rfl, hl⟩, rfl⟩
  · cases h
    obtain ⟨a, b, rfl, ⟨l, rfl, hl⟩, ⟨r, rfl, hr⟩⟩ := forall2_2 ha
    unfold actionCore; simp only []
    simp [PCtx.len, PCtx.slice, PCtx.nodesAt]
    exact Sat.pure ⟨⟨_, rfl, by simp [hl]⟩, rfl⟩
  · cases h

theorem sh_redirection_heredoc {np shapes args σ}
    (h : shAction "p_redirection_heredoc" shapes = some σ) (ha : Forall2 HasSh shapes args) :
    Sat (actionCore np "p_redirection_heredoc" args) (PostN σ) (Allowed T) := by
  unfold shAction at h; simp only [] at h
  split at h
  · cases h
    obtain ⟨a, b, rfl, ⟨t, rfl, -, -⟩, ⟨w, rfl, -, -⟩⟩ := forall2_2 ha
    unfold actionCore; simp only []
    simp [PCtx.len, PCtx.tokAt, PCtx.slice, PCtx.strAt]
    exact sat_bindN noExn_get (fun l => Sat.map (sat_of_noExn (noExn_set _) (fun _ => ⟨⟨_, rfl⟩, rfl⟩)))
  · cases h
    obtain ⟨a, b, c, rfl, ⟨ti, rfl, -, -⟩, ⟨t, rfl, -, -⟩, ⟨w, rfl, -, -⟩⟩ := forall2_3 ha
    unfold actionCore; simp only []
    simp [PCtx.len, PCtx.tokAt, PCtx.slice, PCtx.strAt]
    exact sat_bindN noExn_get (fun l => Sat.map (sat_of_noExn (noExn_set _) (fun _ => ⟨⟨_, rfl⟩, rfl⟩)))
  · cases h

theorem sh_redirection {np shapes args σ} (hC : Ctx T np)
    (h : shAction "p_redirection" shapes = some σ) (ha : Forall2 HasSh shapes args) :
    Sat (actionCore np "p_redirection" args) (PostN σ) (Allowed T) := by
  unfold shAction at h; simp only [] at h
  split at h
  · cases h
    obtain ⟨a, b, rfl, ⟨t, rfl, -, -⟩, ⟨o, rfl, -, ho⟩⟩ := forall2_2 ha
    unfold actionCore; simp only []
    simp [PCtx.len, PCtx.tokAt, PCtx.slice, PCtx.strAt]
    split
    · exact Sat.map ((hC.word o ho.2).weaken (fun w _ => ⟨⟨_, rfl⟩, rfl⟩) (fun _ h => h))
    · exact Sat.pure ⟨⟨_, rfl⟩, rfl⟩
  · cases h
    obtain ⟨a, b, c, rfl, ⟨ti, rfl, -, -⟩, ⟨t, rfl, -, -⟩, ⟨o, rfl, -, ho⟩⟩ := forall2_3 ha
    unfold actionCore; simp only []
    simp [PCtx.len, PCtx.tokAt, PCtx.slice, PCtx.strAt]
    split
    · exact Sat.map ((hC.word o ho.2).weaken (fun w _ => ⟨⟨_, rfl⟩, rfl⟩) (fun _ h => h))
    · exact Sat.pure ⟨⟨_, rfl⟩, rfl⟩
  · cases h

theorem sh_simple_command_element {np shapes args σ} (hC : Ctx T np)
    (h : shAction "p_simple_command_element" shapes = some σ) (ha : Forall2 HasSh shapes args) :
    Sat (actionCore np "p_simple_command_element" args) (PostN σ) (Allowed T) := by
  unfold shAction at h; simp only [] at h
  split at h
  · cases h
    obtain ⟨a, rfl, ⟨n, rfl⟩⟩ := forall2_1 ha
    unfold actionCore; simp only []
    simp [PCtx.len, PCtx.slice]
    exact Sat.pure ⟨⟨_, rfl, by simp⟩, rfl⟩
  · cases h
    obtain ⟨a, rfl, ⟨t, rfl, -, ht⟩⟩ := forall2_1 ha
    unfold actionCore; simp only []
    simp [PCtx.len, PCtx.slice, PCtx.tokAt]
    refine sat_bindE (hC.word t ht.2) (fun w => ?_)
    split
    · split
      · exact Sat.pure ⟨⟨_, rfl, by simp⟩, rfl⟩
      · exact Sat.pure ⟨⟨_, rfl, by simp⟩, rfl⟩
    · exact Sat.pure ⟨⟨_, rfl, by simp⟩, rfl⟩
  · cases h

theorem sat_addRedirects {n : Node} {reds : List Node} (hr : reds ≠ []) :
    Sat (addRedirects n reds) (fun _ => True) (Allowed T) := by
  unfold addRedirects
  refine sat_bindE (sat_handleAssert _) (fun _ => ?_)
  split
  · simp only []
    split
    · rename_i r _ hnone
      exfalso
      have : r ++ reds = [] := List.getLast?_eq_none_iff.mp hnone
      exact hr (List.append_eq_nil_iff.mp this).2
    · exact sat_bindN (noExn_nodePos _) (fun _ => sat_bindE (sat_handleAssert _) (fun _ => Sat.pure trivial))
  · exact Sat.foreign known_handleAssert

theorem sh_command {np shapes args σ} (h : shAction "p_command" shapes = some σ)
    (ha : Forall2 HasSh shapes args) : Sat (actionCore np "p_command" args) (PostN σ) (Allowed T) := by
  unfold shAction at h; simp only [] at h
  split at h
  · cases h
    obtain ⟨a, rfl, ⟨n, rfl⟩⟩ := forall2_1 ha
    unfold actionCore; simp only []
    simp [PCtx.len, PCtx.slice]
    exact Sat.pure ⟨⟨_, rfl⟩, rfl⟩
  · cases h
    obtain ⟨a, b, rfl, ⟨n, rfl⟩, ⟨l, rfl, hl⟩⟩ := forall2_2 ha
    unfold actionCore; simp only []
    simp [PCtx.len, PCtx.slice, PCtx.nodesAt]
    exact Sat.map ((sat_addRedirects hl).weaken (fun r _ => ⟨⟨_, rfl⟩, rfl⟩) (fun _ h => h))
  · cases h
    obtain ⟨a, rfl, ⟨l, rfl, hl⟩⟩ := forall2_1 ha
    unfold actionCore; simp only []
    simp [PCtx.len, PCtx.slice, PCtx.nodesAt]
    exact Sat.map (sat_of_noExn (noExn_partsspan hl) (fun _ => ⟨⟨_, rfl⟩, rfl⟩))
  · cases h

theorem sh_function_body {np shapes args σ} (h : shAction "p_function_body" shapes = some σ)
    (ha : Forall2 HasSh shapes args) :
    Sat (actionCore np "p_function_body" args) (PostN σ) (Allowed T) := by
  unfold shAction at h; simp only [] at h
  split at h
  · cases h
    obtain ⟨a, rfl, ⟨n, rfl⟩⟩ := forall2_1 ha
    unfold actionCore; simp only []
    simp [PCtx.len, PCtx.slice, PCtx.nodeAt]
    exact Sat.map ((sat_handleAssert _).weaken (fun _ _ => ⟨⟨_, rfl⟩, rfl⟩) (fun _ h => h))
  · cases h
    obtain ⟨a, b, rfl, ⟨n, rfl⟩, ⟨l, rfl, hl⟩⟩ := forall2_2 ha
    unfold actionCore; simp only []
    simp [PCtx.len, PCtx.slice, PCtx.nodesAt, PCtx.nodeAt]
    refine sat_bindE (sat_handleAssert _) (fun _ => ?_)
    exact Sat.map ((sat_addRedirects hl).weaken (fun r _ => ⟨⟨_, rfl⟩, rfl⟩) (fun _ h => h))
  · cases h

theorem shGroup_inv {shapes args σ} (h : shGroup shapes = some σ) (ha : Forall2 HasSh shapes args) :
    σ = .node ∧ ∃ tl n tr, args = [.tok tl, .node n, .tok tr] := by
  unfold shGroup at h
  split at h
  · cases h
    obtain ⟨a, b, c, rfl, ⟨tl, rfl, -, -⟩, ⟨n, rfl⟩, ⟨tr, rfl, -, -⟩⟩ := forall2_3 ha
    exact ⟨rfl, tl, n, tr, rfl⟩
  · cases h

theorem sh_subshell {np shapes args σ} (h : shAction "p_subshell" shapes = some σ)
    (ha : Forall2 HasSh shapes args) : Sat (actionCore np "p_subshell" args) (PostN σ) (Allowed T) := by
  unfold shAction at h; simp only [] at h
  obtain ⟨rfl, tl, n, tr, rfl⟩ := shGroup_inv h ha
  unfold actionCore; simp only []
  simp [PCtx.len, PCtx.slice, PCtx.nodeAt, reservedAt, PCtx.strAt, PCtx.tokAt]
  exact Sat.map (sat_of_noExn (noExn_partsspan (by simp)) (fun _ => ⟨⟨_, rfl⟩, rfl⟩))

theorem sh_group_command {np shapes args σ} (h : shAction "p_group_command" shapes = some σ)
    (ha : Forall2 HasSh shapes args) :
    Sat (actionCore np "p_group_command" args) (PostN σ) (Allowed T) := by
  unfold shAction at h; simp only [] at h
  obtain ⟨rfl, tl, n, tr, rfl⟩ := shGroup_inv h ha
  unfold actionCore; simp only []
  simp [PCtx.len, PCtx.slice, PCtx.nodeAt, reservedAt, PCtx.strAt, PCtx.tokAt]
  exact Sat.map (sat_of_noExn (noExn_partsspan (by simp)) (fun _ => ⟨⟨_, rfl⟩, rfl⟩))

theorem sh_case_clause {np shapes args σ} (h : shAction "p_case_clause" shapes = some σ)
    (ha : Forall2 HasSh shapes args) :
    Sat (actionCore np "p_case_clause" args) (PostN σ) (Allowed T) := by
  unfold shAction at h; simp only [] at h
  split at h
  · cases h
    obtain ⟨a, rfl, ⟨n, rfl⟩⟩ := forall2_1 ha
    unfold actionCore; simp only []
    simp [PCtx.len, PCtx.nodeAt, PCtx.slice]
    exact Sat.pure ⟨⟨_, rfl, by simp⟩, rfl⟩
  · cases h
    obtain ⟨a, b, rfl, ⟨l, rfl, hl⟩, ⟨n, rfl⟩⟩ := forall2_2 ha
    unfold actionCore; simp only []
    simp [PCtx.len, PCtx.nodeAt, PCtx.slice, PCtx.nodesAt]
    exact Sat.pure ⟨⟨_, rfl, by simp⟩, rfl⟩
  · cases h

theorem sh_case_clause_sequence {np shapes args σ}
    (h : shAction "p_case_clause_sequence" shapes = some σ) (ha : Forall2 HasSh shapes args) :
    Sat (actionCore np "p_case_clause_sequence" args) (PostN σ) (Allowed T) := by
  unfold shAction at h; simp only [] at h
  split at h
  · cases h
    obtain ⟨a, b, rfl, ⟨n, rfl⟩, ⟨t, rfl, -, -⟩⟩ := forall2_2 ha
    unfold actionCore; simp only []
    simp [PCtx.len, PCtx.nodeAt, PCtx.slice, reservedAt, PCtx.strAt, PCtx.tokAt]
    exact Sat.pure ⟨⟨_, rfl, by simp⟩, rfl⟩
  · cases h
    obtain ⟨a, b, c, rfl, ⟨l, rfl, hl⟩, ⟨n, rfl⟩, ⟨t, rfl, -, -⟩⟩ := forall2_3 ha
    unfold actionCore; simp only []
    simp [PCtx.len, PCtx.nodeAt, PCtx.slice, reservedAt, PCtx.strAt, PCtx.tokAt, PCtx.nodesAt]
    exact Sat.pure ⟨⟨_, rfl, by simp⟩, rfl⟩
  · cases h

theorem sh_pattern {np shapes args σ} (hC : Ctx T np) (h : shAction "p_pattern" shapes = some σ)
    (ha : Forall2 HasSh shapes args) : Sat (actionCore np "p_pattern" args) (PostN σ) (Allowed T) := by
  unfold shAction at h; simp only [] at h
  split at h
  · cases h
    obtain ⟨a, rfl, ⟨t, rfl, -, ht⟩⟩ := forall2_1 ha
    unfold actionCore; simp only []
    simp [PCtx.len, PCtx.tokAt, PCtx.slice]
    exact Sat.map ((hC.word t ht.2).weaken (fun w _ => ⟨⟨_, rfl, by simp⟩, rfl⟩) (fun _ h => h))
  · cases h
    obtain ⟨a, b, c, rfl, ⟨l, rfl, hl⟩, ⟨tb, rfl, -, -⟩, ⟨t, rfl, -, ht⟩⟩ := forall2_3 ha
    unfold actionCore; simp only []
    simp [PCtx.len, PCtx.tokAt, PCtx.slice, PCtx.nodesAt, reservedAt, PCtx.strAt]
    exact Sat.map ((hC.word t ht.2).weaken (fun w _ => ⟨⟨_, rfl, by simp⟩, rfl⟩) (fun _ h => h))
  · cases h

theorem sh_list {np shapes args σ} (h : shAction "p_list" shapes = some σ)
    (ha : Forall2 HasSh shapes args) : Sat (actionCore np "p_list" args) (PostN σ) (Allowed T) := by
  unfold shAction at h; simp only [] at h
  split at h
  · cases h
    obtain ⟨a, b, rfl, -, hb⟩ := forall2_2 ha
    unfold actionCore; simp only []
    simp [PCtx.slice]
    exact Sat.pure ⟨hb, rfl⟩
  · cases h

theorem sh_pattern_list {np shapes args σ} (h : shAction "p_pattern_list" shapes = some σ)
    (ha : Forall2 HasSh shapes args) :
    Sat (actionCore np "p_pattern_list" args) (PostN σ) (Allowed T) := by
  unfold shAction at h; simp only [] at h
  split at h
  · cases h
    obtain ⟨x, a, r, b, rfl, -, ⟨pat, rfl, hpat⟩, ⟨tr, rfl, -, -⟩, -⟩ := forall2_4 ha
    unfold actionCore; simp only []
    simp [PCtx.len, PCtx.slice, PCtx.nodesAt, reservedAt, PCtx.strAt, PCtx.tokAt]
    refine sat_bindN (noExn_partsspan hpat) (fun sp => ?_)
    split
    · exact Sat.map (sat_of_noExn (noExn_partsspan (by simp)) (fun _ => ⟨⟨_, rfl⟩, rfl⟩))
    · exact Sat.map (sat_of_noExn (noExn_partsspan (by simp)) (fun _ => ⟨⟨_, rfl⟩, rfl⟩))
  · cases h
    obtain ⟨x, l, a, r, b, rfl, -, ⟨tl, rfl, -, -⟩, ⟨pat, rfl, hpat⟩, ⟨tr, rfl, -, -⟩, -⟩ := forall2_5 ha
    unfold actionCore; simp only []
    simp [PCtx.len, PCtx.slice, PCtx.nodesAt, reservedAt, PCtx.strAt, PCtx.tokAt]
    refine sat_bindN (noExn_partsspan hpat) (fun sp => ?_)
    split
    · exact Sat.map (sat_of_noExn (noExn_partsspan (by simp)) (fun _ => ⟨⟨_, rfl⟩, rfl⟩))
    · exact Sat.map (sat_of_noExn (noExn_partsspan (by simp)) (fun _ => ⟨⟨_, rfl⟩, rfl⟩))
  · cases h

theorem ne_of_length_gt {α} {l : List α} (h : l.length > 1) : l ≠ [] := by
  intro hl; subst hl; simp at h

theorem sh_compound_list {np shapes args σ} (h : shAction "p_compound_list" shapes = some σ)
    (ha : Forall2 HasSh shapes args) :
    Sat (actionCore np "p_compound_list" args) (PostN σ) (Allowed T) := by
  unfold shAction at h; simp only [] at h
  split at h
  · cases h
    obtain ⟨a, rfl, hn⟩ := forall2_1 ha
    unfold actionCore; simp only []
    simp [PCtx.len, PCtx.slice]
    exact Sat.pure ⟨hn, rfl⟩
  · cases h
    obtain ⟨a, b, rfl, -, ⟨l, rfl, hl⟩⟩ := forall2_2 ha
    unfold actionCore; simp only []
    simp [PCtx.len, PCtx.slice, PCtx.nodesAt]
    split
    · rename_i hlen
      exact Sat.map (sat_of_noExn (noExn_partsspan (ne_of_length_gt hlen)) (fun _ => ⟨⟨_, rfl⟩, rfl⟩))
    · split
      · exact Sat.pure ⟨⟨_, rfl⟩, rfl⟩
      · rename_i hnone
        exfalso
        cases l with
        | nil => exact hl rfl
        | cons x xs => simp at hnone
  · cases h

theorem sh_list0 {np shapes args σ} (h : shAction "p_list0" shapes = some σ)
    (ha : Forall2 HasSh shapes args) : Sat (actionCore np "p_list0" args) (PostN σ) (Allowed T) := by
  unfold shAction at h; simp only [] at h
  split at h
  · cases h
    obtain ⟨a, as, rfl, ⟨l, rfl, hl⟩, ha2⟩ := forall2_cons ha
    obtain ⟨b, bs, rfl, ⟨t, rfl, -, -⟩, ha3⟩ := forall2_cons ha2
    unfold actionCore; simp only []
    simp [PCtx.len, PCtx.slice, PCtx.nodesAt, operatorAt, PCtx.strAt, PCtx.tokAt]
    split
    · exact Sat.map (sat_of_noExn (noExn_partsspan (by simp)) (fun _ => ⟨⟨_, rfl⟩, rfl⟩))
    · split
      · exact Sat.pure ⟨⟨_, rfl⟩, rfl⟩
      · rename_i hnone
        exfalso
        cases l with
        | nil => exact hl rfl
        | cons x xs => simp at hnone
  · cases h

theorem sat_joinLists {np : NestedParse} {shapes : List Sh} {args : List SVal} {σ : Sh}
    {mk : Span → Str → Node} {site : String}
    (h : shJoin shapes = some σ) (ha : Forall2 HasSh shapes args) :
    Sat (joinLists ⟨np, args⟩ mk site) (HasSh σ) (Allowed T) := by
  unfold shJoin at h
  split at h
  · cases h
    obtain ⟨a, rfl, ⟨n, rfl⟩⟩ := forall2_1 ha
    simp [joinLists, PCtx.len, PCtx.nodeAt, PCtx.slice]
    exact Sat.pure ⟨_, rfl, by simp⟩
  · split at h
    · rename_i hlast
      cases h
      simp only [beq_iff_eq] at hlast
      obtain ⟨a, as, rfl, ⟨l, rfl, hl⟩, ha2⟩ := forall2_cons ha
      obtain ⟨b, bs, rfl, ⟨t, rfl, -, -⟩, ha3⟩ := forall2_cons ha2
      obtain ⟨v, hv, ⟨r, rfl, hr⟩⟩ := forall2_getLast ha3 _ hlast
      have hbs : bs ≠ [] := by intro hb; subst hb; simp at hv
      have hlast' : (SVal.nodes l :: SVal.tok t :: bs).getLast? = some (.nodes r) := by
        cases bs with
        | nil => exact absurd rfl hbs
        | cons c cs => simpa [List.getLast?_cons_cons] using hv
      have hlen : ¬ (PCtx.len ⟨np, SVal.nodes l :: SVal.tok t :: bs⟩ == 2) = true := by
        cases bs with
        | nil => exact absurd rfl hbs
        | cons c cs => simp [PCtx.len]
      unfold joinLists
      simp only [hlen, if_false, Bool.false_eq_true]
      simp only [PCtx.nodesAt, slice_last hlast']
      simp [PCtx.slice, PCtx.strAt, PCtx.tokAt]
      exact Sat.pure ⟨_, rfl, by simp⟩
    · cases h
  · cases h

theorem sh_list1 {np shapes args σ} (h : shAction "p_list1" shapes = some σ)
    (ha : Forall2 HasSh shapes args) : Sat (actionCore np "p_list1" args) (PostN σ) (Allowed T) := by
  unfold shAction at h; simp only [] at h
  unfold actionCore; simp only []
  exact Sat.bind (sat_joinLists h ha) (fun v hv => Sat.pure ⟨hv, rfl⟩)

theorem sh_simple_list1 {np shapes args σ} (h : shAction "p_simple_list1" shapes = some σ)
    (ha : Forall2 HasSh shapes args) :
    Sat (actionCore np "p_simple_list1" args) (PostN σ) (Allowed T) := by
  unfold shAction at h; simp only [] at h
  unfold actionCore; simp only []
  exact Sat.bind (sat_joinLists h ha) (fun v hv => Sat.pure ⟨hv, rfl⟩)

theorem sh_pipeline {np shapes args σ} (h : shAction "p_pipeline" shapes = some σ)
    (ha : Forall2 HasSh shapes args) : Sat (actionCore np "p_pipeline" args) (PostN σ) (Allowed T) := by
  unfold shAction at h; simp only [] at h
  unfold actionCore; simp only []
  exact Sat.bind (sat_joinLists h ha) (fun v hv => Sat.pure ⟨hv, rfl⟩)

theorem sat_fin {σ : Sh} {v : SVal} (hv : HasSh σ v) {f : Local → Bool} :
    Sat ((fun a => (v, f a)) <$> (get : M Local)) (fun r => HasSh σ r.1) (Allowed T) :=
  Sat.map (sat_of_noExn noExn_get (fun _ => hv))

theorem sh_simple_list {np shapes args σ} (hC : Ctx T np)
    (h : shAction "p_simple_list" shapes = some σ) (ha : Forall2 HasSh shapes args) :
    Sat (actionCore np "p_simple_list" args) (fun r => HasSh σ r.1) (Allowed T) := by
  unfold shAction at h; simp only [] at h
  split at h
  · cases h
    obtain ⟨a, rfl, ⟨l, rfl, hl⟩⟩ := forall2_1 ha
    unfold actionCore; simp only []
    simp [PCtx.len, PCtx.slice, PCtx.nodesAt]
    refine sat_bindE hC.gather (fun _ => ?_)
    split
    · rename_i hlen
      exact sat_bindN (noExn_partsspan (ne_of_length_gt hlen)) (fun _ => sat_fin (σ := .node) ⟨_, rfl⟩)
    · rename_i hlen
      split
      · exact sat_fin (σ := .node) ⟨_, rfl⟩
      · rename_i hnot
        exfalso
        cases l with
        | nil => exact hl rfl
        | cons x xs =>
          cases xs with
          | nil => exact hnot x rfl
          | cons y ys => simp at hlen
  · cases h
    obtain ⟨a, b, rfl, ⟨l, rfl, hl⟩, ⟨t, rfl, -, -⟩⟩ := forall2_2 ha
    unfold actionCore; simp only []
    simp [PCtx.len, PCtx.slice, PCtx.nodesAt, operatorAt, PCtx.strAt, PCtx.tokAt]
    refine sat_bindE hC.gather (fun _ => ?_)
    exact sat_bindN (noExn_partsspan (by simp)) (fun _ => sat_fin (σ := .node) ⟨_, rfl⟩)
  · cases h

theorem optNode_inv {s : Sh} {b : SVal} (hs : s = .node ∨ s = .optNode ∨ s = .none) (hb : HasSh s b) :
    b = .none ∨ ∃ n, b = .node n := by
  rcases hs with rfl | rfl | rfl
  · exact Or.inr hb
  · exact hb
  · exact Or.inl hb

theorem sat_bang {np : NestedParse} {x b : SVal} (hb : b = .none ∨ ∃ n, b = .node n) :
    Sat (actionCore np "p_pipeline_command" [x, b]) (PostN .node) (Allowed T) := by
  unfold actionCore; simp only []
  simp [PCtx.len, PCtx.slice]
  rcases hb with rfl | ⟨n, rfl⟩
  · simp only []
    exact Sat.pure ⟨⟨_, rfl⟩, rfl⟩
  · split
    · rename_i heq; cases heq
    · split
      · exact Sat.map (sat_of_noExn (noExn_nodePos _) (fun _ => ⟨⟨_, rfl⟩, rfl⟩))
      · rename_i hnone
        simp at hnone
    · exact Sat.map (sat_of_noExn (noExn_nodePos _) (fun _ => ⟨⟨_, rfl⟩, rfl⟩))
    · rename_i h1 h2 h3
      exact absurd rfl (h3 n)

theorem sh_pipeline_command {np shapes args σ} (h : shAction "p_pipeline_command" shapes = some σ)
    (ha : Forall2 HasSh shapes args) :
    Sat (actionCore np "p_pipeline_command" args) (PostN σ) (Allowed T) := by
  unfold shAction at h; simp only [] at h
  split at h
  · cases h
    obtain ⟨a, rfl, ⟨l, rfl, hl⟩⟩ := forall2_1 ha
    unfold actionCore; simp only []
    simp [PCtx.len, PCtx.slice, PCtx.nodesAt]
    split
    · exact Sat.pure ⟨⟨_, rfl⟩, rfl⟩
    · split
      · exact sat_bindN (noExn_nodePos _) (fun _ =>
          Sat.map (sat_of_noExn (noExn_nodePos _) (fun _ => ⟨⟨_, rfl⟩, rfl⟩)))
      · rename_i hnone
        exfalso
        cases l with
        | nil => exact hl rfl
        | cons x xs =>
          exact hnone x ((x :: xs).getLast (by simp)) rfl (List.getLast?_eq_some_getLast _)
  · cases h
    obtain ⟨x, b, rfl, -, hb⟩ := forall2_2 ha
    exact sat_bang (optNode_inv (Or.inl rfl) hb)
  · cases h
    obtain ⟨x, b, rfl, -, hb⟩ := forall2_2 ha
    exact sat_bang (optNode_inv (Or.inr (Or.inl rfl)) hb)
  · cases h
    obtain ⟨x, b, rfl, -, hb⟩ := forall2_2 ha
    exact sat_bang (optNode_inv (Or.inr (Or.inr rfl)) hb)
  · cases h

/-! ### `_makeparts` and the actions built on it -/

def ArgsOK (args : List SVal) : Prop := ∀ t, SVal.tok t ∈ args → TF t

theorem argsOK_of_forall2 {shapes : List Sh} {args : List SVal} (ha : Forall2 HasSh shapes args) :
    ArgsOK args := by
  induction ha with
  | nil => intro t ht; cases ht
  | @cons σ a ss as h1 _ ih =>
    intro t ht
    rcases List.mem_cons.mp ht with ht | ht
    · subst ht
      cases σ with
      | tok ty => obtain ⟨t', h, _, htf⟩ := h1; cases h; exact htf
      | none => cases h1
      | node => obtain ⟨_, h⟩ := h1; cases h
      | optNode => rcases h1 with h | ⟨_, h⟩ <;> cases h
      | nodes => obtain ⟨_, h, _⟩ := h1; cases h
      | nodes0 => obtain ⟨_, h⟩ := h1; cases h
    · exact ih t ht

/-- what `_makeparts` returns when the right-hand side starts with a terminal -/
def HeadOK (t : Token) (parts : List Node) : Prop :=
  parts ≠ [] ∧ (t.is .WORD = false →
    parts.head? = some (.reservedword (t.lexpos, t.endlexpos) (tvalStr t.value)))

theorem headOK_append {t : Token} {acc chunk : List Node} (h : HeadOK t acc) : HeadOK t (acc ++ chunk) := by
  obtain ⟨h1, h2⟩ := h
  refine ⟨by simp [h1], fun hw => ?_⟩
  cases acc with
  | nil => exact absurd rfl h1
  | cons x xs => simpa using h2 hw

theorem sat_makeparts {np : NestedParse} (hC : Ctx T np) (args : List SVal) (hargs : ArgsOK args) :
    Sat (makeparts ⟨np, args⟩) (fun parts => ∀ t rest, args = .tok t :: rest → HeadOK t parts)
      (Allowed T) := by
  unfold makeparts
  simp only [bind_pure]
  refine Sat.forIn_list
    (I := fun rest acc => ∃ done, args = done ++ rest ∧ (done = [] → acc = []) ∧
      (∀ t d', done = .tok t :: d' → HeadOK t acc)) ?_ ?_ args [] ⟨[], rfl, fun _ => rfl, ?_⟩
  · rintro a rest b ⟨done, hargs', hnil, hhead⟩
    have hmem : a ∈ args := by rw [hargs']; simp
    have hnext : ∀ chunk, (∀ t, a = .tok t → HeadOK t chunk) →
        ∃ done', args = done' ++ rest ∧ (done' = [] → b ++ chunk = []) ∧
          (∀ t d', done' = .tok t :: d' → HeadOK t (b ++ chunk)) := by
      intro chunk hc
      refine ⟨done ++ [a], by simp [hargs'], fun h => by simp at h, ?_⟩
      intro t d' hd
      cases done with
      | nil =>
        simp at hd
        rw [hnil rfl]
        simpa using hc t hd.1
      | cons x xs =>
        simp at hd
        exact headOK_append (hhead t xs (by rw [hd.1]))
    split
    · exact Sat.pure (hnext _ (fun t ht => by cases ht))
    · exact Sat.pure (hnext _ (fun t ht => by cases ht))
    · rename_i t
      split
      · rename_i hw
        refine sat_bindE (hC.word t (hargs t hmem).2) (fun w => Sat.pure (hnext [w] ?_))
        intro t' ht'; cases ht'
        exact ⟨by simp, fun hf => by rw [hw] at hf; cases hf⟩
      · refine Sat.pure (hnext _ ?_)
        intro t' ht'; cases ht'
        exact ⟨by simp, fun _ => rfl⟩
    · refine Sat.pure ?_
      have := hnext [] (fun t ht => by cases ht)
      simpa using this
  · rintro b ⟨done, hargs', _, hhead⟩
    simp only [List.append_nil] at hargs'
    subst hargs'
    exact hhead
  · intro t d' h; cases h

theorem shParts_inv {shapes args σ} (h : shParts shapes = some σ) (ha : Forall2 HasSh shapes args) :
    σ = .node ∧ ∃ t rest, args = .tok t :: rest := by
  unfold shParts at h
  split at h
  · cases h
    obtain ⟨a, as, rfl, ⟨t, rfl, -, -⟩, -⟩ := forall2_cons ha
    exact ⟨rfl, t, as, rfl⟩
  · cases h

/-- `_makeparts` on a right-hand side starting with a terminal: a non-empty list -/
theorem sat_makeparts_ne {np : NestedParse} (hC : Ctx T np) {shapes args σ}
    (h : shParts shapes = some σ) (ha : Forall2 HasSh shapes args) :
    Sat (makeparts ⟨np, args⟩) (fun parts => parts ≠ []) (Allowed T) := by
  obtain ⟨_, t, rest, hargs⟩ := shParts_inv h ha
  exact (sat_makeparts hC args (argsOK_of_forall2 ha)).weaken (fun parts hp => (hp t rest hargs).1)
    (fun _ h => h)

theorem sat_handleNotImplemented {np shapes args σ ty} (hC : Ctx T np)
    (h : shParts shapes = some σ) (ha : Forall2 HasSh shapes args) :
    Sat (handleNotImplemented ⟨np, args⟩ ty) (HasSh σ) (Allowed T) := by
  obtain ⟨rfl, _⟩ := shParts_inv h ha
  unfold handleNotImplemented
  refine sat_bindN noExn_optProceed (fun b => ?_)
  split
  · refine Sat.bind (sat_makeparts_ne hC h ha) (fun parts hne => ?_)
    exact sat_bindN (noExn_partsspan hne) (fun _ => Sat.pure ⟨_, rfl⟩)
  · exact Sat.raise allowed_ni

theorem sh_arith_for_command {np shapes args σ} (hC : Ctx T np)
    (h : shAction "p_arith_for_command" shapes = some σ) (ha : Forall2 HasSh shapes args) :
    Sat (actionCore np "p_arith_for_command" args) (PostN σ) (Allowed T) := by
  unfold shAction at h; simp only [] at h
  unfold actionCore; simp only []
  exact Sat.bind (sat_handleNotImplemented hC h ha) (fun v hv => Sat.pure ⟨hv, rfl⟩)

theorem sh_select_command {np shapes args σ} (hC : Ctx T np)
    (h : shAction "p_select_command" shapes = some σ) (ha : Forall2 HasSh shapes args) :
    Sat (actionCore np "p_select_command" args) (PostN σ) (Allowed T) := by
  unfold shAction at h; simp only [] at h
  unfold actionCore; simp only []
  exact Sat.bind (sat_handleNotImplemented hC h ha) (fun v hv => Sat.pure ⟨hv, rfl⟩)

theorem sh_coproc {np shapes args σ} (hC : Ctx T np)
    (h : shAction "p_coproc" shapes = some σ) (ha : Forall2 HasSh shapes args) :
    Sat (actionCore np "p_coproc" args) (PostN σ) (Allowed T) := by
  unfold shAction at h; simp only [] at h
  unfold actionCore; simp only []
  exact Sat.bind (sat_handleNotImplemented hC h ha) (fun v hv => Sat.pure ⟨hv, rfl⟩)

theorem sh_arith_command {np shapes args σ} (hC : Ctx T np)
    (h : shAction "p_arith_command" shapes = some σ) (ha : Forall2 HasSh shapes args) :
    Sat (actionCore np "p_arith_command" args) (PostN σ) (Allowed T) := by
  unfold shAction at h; simp only [] at h
  unfold actionCore; simp only []
  exact Sat.bind (sat_handleNotImplemented hC h ha) (fun v hv => Sat.pure ⟨hv, rfl⟩)

theorem sh_cond_command {np shapes args σ} (hC : Ctx T np)
    (h : shAction "p_cond_command" shapes = some σ) (ha : Forall2 HasSh shapes args) :
    Sat (actionCore np "p_cond_command" args) (PostN σ) (Allowed T) := by
  unfold shAction at h; simp only [] at h
  unfold actionCore; simp only []
  exact Sat.bind (sat_handleNotImplemented hC h ha) (fun v hv => Sat.pure ⟨hv, rfl⟩)

theorem sh_timespec {np shapes args σ} (hC : Ctx T np)
    (h : shAction "p_timespec" shapes = some σ) (ha : Forall2 HasSh shapes args) :
    Sat (actionCore np "p_timespec" args) (PostN σ) (Allowed T) := by
  unfold shAction at h; simp only [] at h
  unfold actionCore; simp only []
  exact Sat.bind (sat_handleNotImplemented hC h ha) (fun v hv => Sat.pure ⟨hv, rfl⟩)

theorem sh_if_command {np shapes args σ} (hC : Ctx T np)
    (h : shAction "p_if_command" shapes = some σ) (ha : Forall2 HasSh shapes args) :
    Sat (actionCore np "p_if_command" args) (PostN σ) (Allowed T) := by
  unfold shAction at h; simp only [] at h
  obtain ⟨rfl, _⟩ := shParts_inv h ha
  unfold actionCore; simp only []
  refine Sat.bind (sat_makeparts_ne hC h ha) (fun parts hne => ?_)
  exact Sat.bind (sat_mkCompound1 hne) (fun v hv => Sat.pure ⟨hv, rfl⟩)

theorem sh_case_command {np shapes args σ} (hC : Ctx T np)
    (h : shAction "p_case_command" shapes = some σ) (ha : Forall2 HasSh shapes args) :
    Sat (actionCore np "p_case_command" args) (PostN σ) (Allowed T) := by
  unfold shAction at h; simp only [] at h
  obtain ⟨rfl, _⟩ := shParts_inv h ha
  unfold actionCore; simp only []
  refine Sat.bind (sat_makeparts_ne hC h ha) (fun parts hne => ?_)
  exact Sat.bind (sat_mkCompound1 hne) (fun v hv => Sat.pure ⟨hv, rfl⟩)

theorem fix_ne : ∀ {l : List Node}, l ≠ [] → actionCore.fix l ≠ [] := by
  intro l h
  cases l with
  | nil => exact absurd rfl h
  | cons x rest =>
    cases x <;> simp [actionCore.fix]
    split <;> simp

theorem sh_for_command {np shapes args σ} (hC : Ctx T np)
    (h : shAction "p_for_command" shapes = some σ) (ha : Forall2 HasSh shapes args) :
    Sat (actionCore np "p_for_command" args) (PostN σ) (Allowed T) := by
  unfold shAction at h; simp only [] at h
  obtain ⟨rfl, _⟩ := shParts_inv h ha
  unfold actionCore; simp only []
  refine Sat.bind (sat_makeparts_ne hC h ha) (fun parts hne => ?_)
  exact Sat.bind (sat_mkCompound1 (fix_ne hne)) (fun v hv => Sat.pure ⟨hv, rfl⟩)

theorem sh_function_def {np shapes args σ} (hC : Ctx T np)
    (h : shAction "p_function_def" shapes = some σ) (ha : Forall2 HasSh shapes args) :
    Sat (actionCore np "p_function_def" args) (PostN σ) (Allowed T) := by
  unfold shAction at h; simp only [] at h
  obtain ⟨rfl, _⟩ := shParts_inv h ha
  unfold actionCore; simp only []
  refine Sat.bind (sat_makeparts_ne hC h ha) (fun parts hne => ?_)
  split
  · rename_i hemp
    exfalso
    cases parts with
    | nil => exact hne rfl
    | cons x xs => simp at hemp
  · exact sat_bindN (noExn_partsspan hne) (fun sp => Sat.pure ⟨⟨_, rfl⟩, rfl⟩)

theorem sh_elif_clause {np args} :
    Sat (actionCore np "p_elif_clause" args) (PostN .nodes0) (Allowed T) := by
  unfold actionCore; simp only []
  refine Sat.bind (P := fun _ => True) ?_ (fun parts _ => Sat.pure ⟨⟨_, rfl⟩, rfl⟩)
  refine Sat.forIn_list (I := fun _ _ => True) ?_ (fun _ _ => trivial) args [] trivial
  intro a rest b _
  split <;> exact Sat.pure trivial

theorem sh_shell_command {np shapes args σ} (hC : Ctx T np)
    (h : shAction "p_shell_command" shapes = some σ) (ha : Forall2 HasSh shapes args) :
    Sat (actionCore np "p_shell_command" args) (PostN σ) (Allowed T) := by
  unfold shAction at h; simp only [] at h
  split at h
  · cases h
    obtain ⟨a, rfl, ⟨n, rfl⟩⟩ := forall2_1 ha
    unfold actionCore; simp only []
    simp [PCtx.len, PCtx.slice, PCtx.nodeAt]
    exact Sat.map ((sat_handleAssert _).weaken (fun _ _ => ⟨⟨_, rfl⟩, rfl⟩) (fun _ h => h))
  · split at h
    · rename_i ty s2 srest hty
      cases h
      have hargs := argsOK_of_forall2 ha
      obtain ⟨a, as, rfl, ⟨t, rfl, htt, htf⟩, ha2⟩ := forall2_cons ha
      obtain ⟨b, bs, rfl, -, -⟩ := forall2_cons ha2
      have hlen : ¬ (PCtx.len ⟨np, SVal.tok t :: b :: bs⟩ == 2) = true := by simp [PCtx.len]
      have hnw : t.is .WORD = false := by
        simp only [Bool.or_eq_true, beq_iff_eq] at hty
        rcases hty with rfl | rfl <;> simp [Token.is, htt]
      have hval : tvalStr t.value = ['w', 'h', 'i', 'l', 'e'] ∨ tvalStr t.value = ['u', 'n', 't', 'i', 'l'] := by
        simp only [Bool.or_eq_true, beq_iff_eq] at hty
        rcases hty with rfl | rfl
        · left; rw [htf.1.1 htt]; rfl
        · right; rw [htf.1.2 htt]; rfl
      unfold actionCore; simp only []
      simp only [hlen, Bool.false_eq_true, if_false]
      refine Sat.bind (sat_makeparts hC _ hargs) (fun parts hp => ?_)
      obtain ⟨hne, hhead⟩ := hp t _ rfl
      have hh := hhead hnw
      split
      · rename_i pos w hw
        rw [hh] at hw
        cases hw
        refine sat_bindN (noExn_partsspan hne) (fun sp => ?_)
        split
        · exact Sat.pure ⟨⟨_, rfl⟩, rfl⟩
        · split
          · exact Sat.pure ⟨⟨_, rfl⟩, rfl⟩
          · rename_i h1 h2
            exfalso
            rcases hval with hv | hv
            · rw [hv] at h1; exact h1 (by decide)
            · rw [hv] at h2; exact h2 (by decide)
      · rename_i hnot
        exact absurd hh (hnot _ _)
    · cases h
  · cases h

/-! ### the dispatcher -/

/-- post-condition of an action of result shape `σ` -/
def Post (fname : String) (σ : Sh) (r : SVal × Bool) : Prop :=
  HasSh σ r.1 ∧ (r.2 = true → acceptingActions.contains fname = true)

theorem post_of_postN {fname : String} {σ : Sh} {m : M (SVal × Bool)}
    (h : Sat m (PostN σ) (Allowed T)) : Sat m (Post fname σ) (Allowed T) :=
  h.weaken (fun r hr => ⟨hr.1, fun h2 => by rw [hr.2] at h2; cases h2⟩) (fun _ h => h)

/-- **soundness of the shape checker**: an action applied to arguments of the shapes the grammar
    guarantees returns a value of the shape of the left-hand side, raises YaccAccept only if it
    is `p_inputunit` / `p_simple_list`, and raises only allowed exceptions -/
theorem shAction_sound {np : NestedParse} {fname : String} {shapes : List Sh} {args : List SVal}
    {σ : Sh} (hC : Ctx T np) (h : shAction fname shapes = some σ)
    (ha : Forall2 HasSh shapes args) : Sat (actionCore np fname args) (Post fname σ) (Allowed T) := by
  unfold shAction at h
  split at h
  · cases h; exact sh_inputunit.weaken (fun r hr => ⟨hr, fun _ => by decide⟩) (fun _ h => h)
  · exact post_of_postN (sh_word_list hC h ha)
  · exact post_of_postN (sh_redirection_heredoc h ha)
  · exact post_of_postN (sh_redirection hC h ha)
  · exact post_of_postN (sh_simple_command_element hC h ha)
  · exact post_of_postN (sh_redirection_list h ha)
  · exact post_of_postN (sh_simple_command h ha)
  · exact post_of_postN (sh_command h ha)
  · exact post_of_postN (sh_shell_command hC h ha)
  · exact post_of_postN (sh_for_command hC h ha)
  · exact post_of_postN (sh_arith_for_command hC h ha)
  · exact post_of_postN (sh_select_command hC h ha)
  · exact post_of_postN (sh_case_command hC h ha)
  · exact post_of_postN (sh_function_def hC h ha)
  · exact post_of_postN (sh_function_body h ha)
  · exact post_of_postN (sh_subshell h ha)
  · exact post_of_postN (sh_group_command h ha)
  · exact post_of_postN (sh_coproc hC h ha)
  · exact post_of_postN (sh_if_command hC h ha)
  · exact post_of_postN (sh_arith_command hC h ha)
  · exact post_of_postN (sh_cond_command hC h ha)
  · cases h; exact post_of_postN sh_elif_clause
  · exact post_of_postN (sh_case_clause h ha)
  · exact post_of_postN (sh_pattern_list h ha)
  · exact post_of_postN (sh_case_clause_sequence h ha)
  · exact post_of_postN (sh_pattern hC h ha)
  · exact post_of_postN (sh_list h ha)
  · exact post_of_postN (sh_compound_list h ha)
  · exact post_of_postN (sh_list0 h ha)
  · exact post_of_postN (sh_list1 h ha)
  · cases h; exact post_of_postN sh_simple_list_terminator
  · cases h; exact post_of_postN sh_list_terminator
  · cases h; exact post_of_postN sh_newline_list
  · exact (sh_simple_list hC h ha).weaken (fun r hr => ⟨hr, fun _ => by decide⟩) (fun _ h => h)
  · exact post_of_postN (sh_simple_list1 h ha)
  · exact post_of_postN (sh_pipeline_command h ha)
  · exact post_of_postN (sh_pipeline h ha)
  · exact post_of_postN (sh_timespec hC h ha)
  · cases h; exact post_of_postN sh_empty
  · cases h

/-- `action` = `actionCore` + an assertion that is dead: it never raises its `NotModelled` marker -/
theorem sat_action {np : NestedParse} {fname : String} {shapes : List Sh} {args : List SVal}
    {σ : Sh} (hC : Ctx T np) (h : shAction fname shapes = some σ)
    (ha : Forall2 HasSh shapes args) :
    Sat (action np fname args) (fun r => HasSh σ r.1) (Allowed T) := by
  unfold action
  refine Sat.bind (shAction_sound hC h ha) (fun r hr => ?_)
  split
  · rename_i hbad
    exfalso
    simp only [Bool.and_eq_true, Bool.not_eq_true'] at hbad
    rw [hr.2 hbad.1] at hbad
    exact absurd hbad.2 (by simp)
  · exact Sat.pure hr.1

end Bashlex.C01
