/-
  C01 tight 2, part 4 (state-agnostic): a semantic action never returns a token that was not
  among its arguments -- so the value invariant `VT` of the LR stack is kept.
-/
import Bashlex.Props.C01.T2Act

namespace Bashlex.C01
open Bashlex Bashlex.M Bashlex.C01.T2
set_option linter.unusedSimpArgs false
set_option linter.unusedVariables false

theorem vt_node {n : Node} : VT (.node n) := fun _ h => by cases h
theorem vt_nodes {l : List Node} : VT (.nodes l) := fun _ h => by cases h
theorem vt_none : VT .none := fun _ h => by cases h

/-- walk towards a fact about the returned value; values of type `SVal` bound on the way carry `VT` -/
macro "v_walk" : tactic => `(tactic| repeat' (first
  | with_reducible exact Sat.foreign trivial
  | with_reducible exact Sat.raise trivial
  | with_reducible refine Sat.ite (fun _ => ?_) (fun _ => ?_)
  | with_reducible refine Sat.bind (P := VT) ?_ (fun _ _ => ?_)
  | with_reducible refine Sat.bind_any (fun _ => ?_)
  | with_reducible refine Sat.pure ?_
  | (show Sat _ _ _; split)))

macro "v_leaf" : tactic => `(tactic| first
  | exact vt_node
  | exact vt_nodes
  | exact vt_none
  | exact vt_slice (by assumption) _ _
  | assumption)

theorem vt_handleNotImplemented (p : PCtx) (ty : String) : Sat (handleNotImplemented p ty) VT := by
  unfold handleNotImplemented
  v_walk
  all_goals v_leaf

theorem vt_mkCompound1 (inner : Span → List Node → Node) (parts : List Node) :
    Sat (mkCompound1 inner parts) VT := by
  unfold mkCompound1
  v_walk
  all_goals v_leaf

theorem vt_joinLists (p : PCtx) (mk : Span → Str → Node) (s : String) : Sat (joinLists p mk s) VT := by
  unfold joinLists
  v_walk
  all_goals v_leaf

set_option maxHeartbeats 4000000 in
theorem vt_actionCore (np : NestedParse) (fname : String) (args : List SVal) (hargs : ArgsT args) :
    Sat (actionCore np fname args) (fun r => VT r.1) := by
  unfold actionCore
  simp only []
  split
  all_goals repeat' (first
    | with_reducible exact vt_handleNotImplemented _ _
    | with_reducible exact vt_mkCompound1 _ _
    | with_reducible exact vt_joinLists _ _ _
    | with_reducible exact Sat.foreign trivial
    | with_reducible exact Sat.raise trivial
    | with_reducible refine Sat.ite (fun _ => ?_) (fun _ => ?_)
    | with_reducible refine Sat.bind (P := VT) ?_ (fun _ _ => ?_)
    | with_reducible refine Sat.bind_any (fun _ => ?_)
    | with_reducible refine Sat.pure ?_
    | (show Sat _ _ _; split))
  all_goals (show VT _; v_leaf)

theorem vt_action (np : NestedParse) (fname : String) (args : List SVal) (hargs : ArgsT args) :
    Sat (action np fname args) (fun r => VT r.1) := by
  unfold action
  refine Sat.bind (vt_actionCore np fname args hargs) (fun r hr => ?_)
  split
  · exact Sat.foreign trivial
  · exact Sat.pure hr

end Bashlex.C01
