/-
  C01: the three known defects listed in `knownForeign` are really produced by the model
  (kernel-evaluated runs of `parse`).
-/
import Bashlex.Props.C01.Basic

namespace Bashlex.C01
open Bashlex

/-- the exception `parse` raises (`none` if it returns) -/
def exnOf (s : Str) (o : Opts := {}) : Option Exn :=
  match (parse s o).1 with
  | .exn e => some e
  | _ => none

/-- D24: "` `" -/
theorem witness_recursiveparse :
    exnOf ['`', ' ', '`'] = some (.foreign "AttributeError" "_recursiveparse") := by decide +kernel

/-- D18: `select x in a; do b; done` with `proceedonerror=True` -/
theorem witness_handleAssert :
    exnOf ['s', 'e', 'l', 'e', 'c', 't', ' ', 'x', ' ', 'i', 'n', ' ', 'a', ';', ' ', 'd', 'o', ' ',
           'b', ';', ' ', 'd', 'o', 'n', 'e'] { proceed := true } =
      some (.foreign "AssertionError" "handleAssert") := by decide +kernel

/-- D35: `$("")""$($#$(<newline>"")` -/
theorem witness_parsedolparen :
    exnOf ['$', '(', '"', '"', ')', '"', '"', '$', '(', '$', '#', '$', '(', '\n', '"', '"', ')'] =
      some (.foreign "IndexError" "_parsedolparen") := by decide +kernel

end Bashlex.C01
