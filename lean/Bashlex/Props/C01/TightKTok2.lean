/-
  C01 tight, part 10: the rest of the tokenizer with the invariant `KI R` (generated from
  `TightStateTok.lean` by renaming: the programs are walked the same way).
-/
import Bashlex.Props.C01.TightKTok

namespace Bashlex.C01
open Bashlex Bashlex.M Bashlex.C10 Bashlex.C11
set_option linter.unusedSimpArgs false
set_option linter.unusedVariables false

/-! ### the two lists -/

theorem k_createtoken (ty : TokType) (v : TVal) (fl : WordFlags) (R : List (Nat × Bool)) :
    KSat R (createtoken ty v fl) := by
  unfold createtoken; (try simp only []); k_walk
macro_rules | `(tactic| k_atom) => `(tactic| exact k_createtoken _ _ _ _)

theorem k_pushDelimiter (c : Char) (R : List (Nat × Bool)) : KSat R (pushDelimiter c) := by
  unfold pushDelimiter; k_walk
theorem k_popDelimiter (R : List (Nat × Bool)) : KSat R popDelimiter := by
  unfold popDelimiter; (try simp only []); k_walk
theorem k_currentDelimiter (R : List (Nat × Bool)) : KSat R currentDelimiter := by
  unfold currentDelimiter; k_walk
macro_rules | `(tactic| k_atom) => `(tactic| exact k_pushDelimiter _ _)
macro_rules | `(tactic| k_atom) => `(tactic| exact k_popDelimiter _)
macro_rules | `(tactic| k_atom) => `(tactic| exact k_currentDelimiter _)

/-! ### `_parse_matched_pair`, `_parse_comsub` -/

theorem k_mpInit (P : MPParams) (R : List (Nat × Bool)) : KSat R (mpInit P) := by
  unfold mpInit; (try simp only []); k_walk
macro_rules | `(tactic| k_atom) => `(tactic| exact k_mpInit _ _)

theorem k_mpPre (P : MPParams) (lfc : Bool) (st : MPState) (R : List (Nat × Bool)) :
    KSat R (mpPre P lfc st) := by
  unfold mpPre; (try simp only []); k_walk
macro_rules | `(tactic| k_atom) => `(tactic| exact k_mpPre _ _ _ _)

theorem k_handledollarword {pmp : MPParams → M Str} {pcs : CSParams → M Str}
    (hpmp : ∀ P R, KSat R (pmp P)) (hpcs : ∀ P R, KSat R (pcs P)) (P : MPParams)
    (rdquote : Bool) (c : Char) (R : List (Nat × Bool)) :
    KSat R (handledollarword pmp pcs P rdquote c) := by
  unfold handledollarword; (try simp only []); k_walk

theorem k_mpPost {pmp : MPParams → M Str} {pcs : CSParams → M Str}
    (hpmp : ∀ P R, KSat R (pmp P)) (hpcs : ∀ P R, KSat R (pcs P)) (P : MPParams)
    (rdquote : Bool) (st : MPState) (c : Char) (R : List (Nat × Bool)) :
    KSat R (mpPost pmp pcs P rdquote st c) := by
  have hd := k_handledollarword hpmp hpcs
  unfold mpPost; (try simp only []); k_walk

theorem k_csDelimMatches (st : CSState) (R : List (Nat × Bool)) : KSat R (csDelimMatches st) := by
  unfold csDelimMatches; (try simp only []); k_walk
macro_rules | `(tactic| k_atom) => `(tactic| exact k_csDelimMatches _ _)

theorem k_csA (P : CSParams) (st : CSState) (R : List (Nat × Bool)) : KSat R (csA P st) := by
  unfold csA; (try simp only []); k_walk
theorem k_csB (b : Bool) (st : CSState) (c : Char) (R : List (Nat × Bool)) : KSat R (csB b st c) := by
  unfold csB; (try simp only []); k_walk
theorem k_csC (P : CSParams) (b : Bool) (st : CSState) (c : Char) (R : List (Nat × Bool)) :
    KSat R (csC P b st c) := by
  unfold csC; (try simp only []); k_walk
theorem k_csD (P : CSParams) (st : CSState) (c : Char) (R : List (Nat × Bool)) : KSat R (csD P st c) := by
  unfold csD; (try simp only []); k_walk
macro_rules | `(tactic| k_atom) => `(tactic| exact k_csA _ _ _)
macro_rules | `(tactic| k_atom) => `(tactic| exact k_csB _ _ _ _)
macro_rules | `(tactic| k_atom) => `(tactic| exact k_csC _ _ _ _ _)
macro_rules | `(tactic| k_atom) => `(tactic| exact k_csD _ _ _ _)

theorem k_csPre (P : CSParams) (b : Bool) (st : CSState) (R : List (Nat × Bool)) :
    KSat R (csPre P b st) := by
  unfold csPre; (try simp only []); k_walk
macro_rules | `(tactic| k_atom) => `(tactic| exact k_csPre _ _ _ _)

theorem k_csPost {pmp : MPParams → M Str} {pcs : CSParams → M Str}
    (hpmp : ∀ P R, KSat R (pmp P)) (hpcs : ∀ P R, KSat R (pcs P)) (P : CSParams)
    (st : CSState) (c : Char) (R : List (Nat × Bool)) : KSat R (csPost pmp pcs P st c) := by
  unfold csPost; (try simp only []); k_walk

/-- the two mutually recursive scanners, by induction on the depth fuel -/
theorem k_pmp_pcs : ∀ fuel, (∀ P R, KSat R (parseMatchedPair fuel P)) ∧
    (∀ P R, KSat R (parseComsub fuel P)) := by
  intro fuel
  induction fuel with
  | zero =>
    refine ⟨fun P R => ?_, fun P R => ?_⟩
    · unfold parseMatchedPair; k_walk
    · unfold parseComsub; k_walk
  | succ fuel ih =>
    obtain ⟨hpmp, hpcs⟩ := ih
    have hpost := k_mpPost hpmp hpcs
    have hcpost := k_csPost hpmp hpcs
    refine ⟨fun P R => ?_, fun P R => ?_⟩
    · unfold parseMatchedPair; (try simp only []); k_walk
    · unfold parseComsub; (try simp only []); k_walk

theorem k_parseMatchedPair (fuel : Nat) (P : MPParams) (R : List (Nat × Bool)) :
    KSat R (parseMatchedPair fuel P) := (k_pmp_pcs fuel).1 P R
theorem k_parseComsub (fuel : Nat) (P : CSParams) (R : List (Nat × Bool)) :
    KSat R (parseComsub fuel P) := (k_pmp_pcs fuel).2 P R
macro_rules | `(tactic| k_atom) => `(tactic| exact k_parseMatchedPair _ _ _)
macro_rules | `(tactic| k_atom) => `(tactic| exact k_parseComsub _ _ _)

/-! ### words -/

theorem k_isAssignment (s : Str) (R : List (Nat × Bool)) : KSat R (isAssignment s) := by
  unfold isAssignment; (try simp only []); k_walk
macro_rules | `(tactic| k_atom) => `(tactic| exact k_isAssignment _ _)

theorem k_specialcasetokens (s : Str) (R : List (Nat × Bool)) : KSat R (specialcasetokens s) := by
  unfold specialcasetokens; (try simp only []); k_walk
macro_rules | `(tactic| k_atom) => `(tactic| exact k_specialcasetokens _ _)

theorem k_handleshellquote (st : RWState) (c : Char) (R : List (Nat × Bool)) :
    KSat R (handleshellquote st c) := by
  unfold handleshellquote; (try simp only []); k_walk
macro_rules | `(tactic| k_atom) => `(tactic| exact k_handleshellquote _ _ _)

theorem k_handleshellexp (st : RWState) (c : Char) (cd : Option Char) (R : List (Nat × Bool)) :
    KSat R (handleshellexp st c cd) := by
  unfold handleshellexp; (try simp only []); k_walk
macro_rules | `(tactic| k_atom) => `(tactic| exact k_handleshellexp _ _ _ _)

set_option maxHeartbeats 1000000 in
theorem k_readtokenwordStep (st : RWState) (R : List (Nat × Bool)) : KSat R (readtokenwordStep st) := by
  unfold readtokenwordStep; (try simp only []); k_walk
macro_rules | `(tactic| k_atom) => `(tactic| exact k_readtokenwordStep _ _)

theorem k_discardUntil (c : Char) (R : List (Nat × Bool)) : KSat R (discardUntil c) := by
  unfold discardUntil; (try simp only []); k_walk
macro_rules | `(tactic| k_atom) => `(tactic| exact k_discardUntil _ _)

theorem k_tokentypeOfChar (c : Char) (R : List (Nat × Bool)) : KSat R (tokentypeOfChar c) := by
  unfold tokentypeOfChar; (try simp only []); k_walk
macro_rules | `(tactic| k_atom) => `(tactic| exact k_tokentypeOfChar _ _)

theorem k_readtokenMeta (c : Char) (R : List (Nat × Bool)) : KSat R (readtokenMeta c) := by
  unfold readtokenMeta; (try simp only []); k_walk
macro_rules | `(tactic| k_atom) => `(tactic| exact k_readtokenMeta _ _)

set_option maxHeartbeats 1000000 in
theorem k_finishWord (st : RWState) (R : List (Nat × Bool)) : KSat R (finishWord st) := by
  unfold finishWord; (try simp only []); k_walk
macro_rules | `(tactic| k_atom) => `(tactic| exact k_finishWord _ _)

theorem k_readtokenword (c : Char) (R : List (Nat × Bool)) : KSat R (readtokenword c) := by
  unfold readtokenword; (try simp only []); k_walk
macro_rules | `(tactic| k_atom) => `(tactic| exact k_readtokenword _ _)

set_option maxHeartbeats 1000000 in
theorem k_readtoken (R : List (Nat × Bool)) : KSat R readtoken := by
  unfold readtoken; (try simp only []); k_walk
macro_rules | `(tactic| k_atom) => `(tactic| exact k_readtoken _)

/-- **hTok** with the invariant -/
theorem k_nextToken (R : List (Nat × Bool)) : KSat R nextToken := by
  unfold nextToken; (try simp only []); k_walk

end Bashlex.C01
