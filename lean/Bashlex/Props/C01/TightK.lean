/-
  C01 tight, part 8: two raise sites that depend on an invariant of the whole parser object:
    IndexError|_getc         the look-ahead for backslash-newline reads `line[idx+1]`: the line
                             `tokenizer.__init__` builds never ends in a backslash (`LineOK`);
    IndexError|makeheredoc   (three sub-sites) the ids on `redirstack` index the redirect store
                             (`StoreOK`); a line returned by `readline` ends in a newline, so the
                             tab-stripping loop stops and `fullline[len(redirword)]` exists.
  Invariant `KI R` (`R`: ids known to be in the store), exception predicate `E3`; logic `HT` of
  `Props/C11/Hoare.lean`.
-/
import Bashlex.Props.C01.TightStateNext
import Bashlex.Props.C11.Inv

namespace Bashlex.C01
open Bashlex Bashlex.M Bashlex.C10 Bashlex.C11
set_option linter.unusedSimpArgs false
set_option linter.unusedVariables false

/-- the line does not end in a backslash -/
def LineOK (L : Str) : Prop := L.getLast? ≠ some '\\'

/-- the pending here-document redirects are in the store -/
def StoreOK (l : Local) : Prop := ∀ p, p ∈ l.redirstack → p.1 < l.store.length

def KI (R : List (Nat × Bool)) (l : Local) (e : Env) : Prop :=
  LineOK (tapeOf l e).line ∧ StoreOK l ∧ ∀ p, p ∈ R → p.1 < l.store.length

/-- everything but the two sites -/
def E3 (x : Exn) : Prop :=
  x ≠ .foreign "IndexError" "_getc" ∧ x ≠ .foreign "IndexError" "makeheredoc"

theorem e3_parsing {m s p} : E3 (.parsing m s p) := ⟨(fun h => by cases h), (fun h => by cases h)⟩
theorem e3_fuel {s} : E3 (.outOfFuel s) := ⟨(fun h => by cases h), (fun h => by cases h)⟩
theorem e3_ni {s} : E3 (.notImplemented s) := ⟨(fun h => by cases h), (fun h => by cases h)⟩
theorem e3_foreign {a b : String}
    (h : ((a == "IndexError" && b == "_getc") || (a == "IndexError" && b == "makeheredoc")) = false) :
    E3 (.foreign a b) := by
  constructor <;> (intro hx; cases hx; simp at h)
theorem e3_mkParsingError {m s p} : E3 (mkParsingError m s p) := by
  unfold mkParsingError
  split
  · exact e3_parsing
  · exact e3_foreign rfl

macro "e3" : tactic => `(tactic| first
  | exact e3_fuel
  | exact e3_foreign rfl
  | exact e3_mkParsingError
  | exact e3_parsing
  | exact e3_ni)

abbrev KSat {α : Type} (R : List (Nat × Bool)) (m : M α) : Prop := HT (KI R) m (fun _ => KI R) E3

/-! ### the tape keeps its line -/

theorem getc_error (rqn : Bool) : ∀ (fuel : Nat) (t : Tape), t.getc rqn fuel = .error () →
    t.line.getLast? = some '\\' := by
  intro fuel
  induction fuel with
  | zero => intro t h; simp [Tape.getc] at h
  | succ fuel ih =>
    intro t h
    unfold Tape.getc at h
    split at h
    · rename_i hlt
      split at h
      · cases h
      · rename_i c0 hc
        simp only [] at h
        split at h
        · rename_i hbs
          split at h
          · rename_i hn
            have hc0 : c0 = '\\' := by
              simp only [Bool.and_eq_true, beq_iff_eq] at hbs; exact hbs.1
            have hlen : t.line.length ≤ t.idx + 1 := List.getElem?_eq_none_iff.mp hn
            have : t.line.length - 1 = t.idx := by omega
            rw [List.getLast?_eq_getElem?, this, hc, hc0]
          · split at h
            · exact ih { line := t.line, idx := t.idx + 1 + 1, added := t.added } h
            · cases h
        · cases h
    · cases h

theorem answer_line (e : Env) (q : Query) : (e.answer q).2.tape.line = e.tape.line := by
  cases q with
  | getc rqn =>
    simp only [Env.answer]
    split
    · rename_i c t hg
      exact (getc_spec rqn _ _ _ _ hg).1
    · rfl
  | ungetc =>
    simp only [Env.answer]
    rcases ungetc_cases e.tape with h | h <;> rw [h]
  | syntab c => simp only [Env.answer]; split <;> rfl
  | _ => rfl

theorem tapeOf_line_answer (l : Local) (e : Env) (q : Query) :
    (tapeOf l (e.answer q).2).line = (tapeOf l e).line := by
  unfold tapeOf
  split
  · rfl
  · exact answer_line e q

theorem putL_redirstack (l : Local) (t : Tape) : (putL l t).redirstack = l.redirstack := by
  cases l with
  | mk tape => cases tape <;> rfl
theorem putL_store (l : Local) (t : Tape) : (putL l t).store = l.store := by
  cases l with
  | mk tape => cases tape <;> rfl

theorem KI.put {R l e} (h : KI R l e) {t' : Tape} (h1 : t'.line = (tapeOf l e).line) :
    KI R (putL l t') (putE l e t') := by
  unfold KI StoreOK at h ⊢
  rw [tapeOf_put, putL_redirstack, putL_store, h1]
  exact h

/-- known callees (extended after each lemma) -/
syntax "k_atom" : tactic
macro_rules | `(tactic| k_atom) => `(tactic| assumption)
set_option hygiene false in
macro_rules | `(tactic| k_atom) => `(tactic| exact hnp _ _ _)
set_option hygiene false in
macro_rules | `(tactic| k_atom) => `(tactic| exact hpmp _ _)
set_option hygiene false in
macro_rules | `(tactic| k_atom) => `(tactic| exact hpcs _ _)
set_option hygiene false in
macro_rules | `(tactic| k_atom) => `(tactic| exact hd _ _ _ _)
set_option hygiene false in
macro_rules | `(tactic| k_atom) => `(tactic| exact hpost _ _ _ _ _)
set_option hygiene false in
macro_rules | `(tactic| k_atom) => `(tactic| exact hcpost _ _ _ _)

theorem k_ask (q : Query) (R : List (Nat × Bool)) : KSat R (M.ask q) := by
  intro l e h
  rw [C10.run_ask]
  exact ⟨by rw [tapeOf_line_answer]; exact h.1, h.2⟩
macro_rules | `(tactic| k_atom) => `(tactic| exact k_ask _ _)

theorem hk_ask_bind {β : Type} {R : List (Nat × Bool)} {l0 : Local} {q : Query}
    {k : Answer q → M β} {Q : β → Local → Env → Prop}
    (h : ∀ a, HTQAt (KI R) l0 (k a) Q E3) : HTQAt (KI R) l0 (M.ask q >>= k) Q E3 := by
  intro l e ⟨hl, hp⟩
  rw [M.run_bind, C10.run_ask]
  exact h _ l _ ⟨hl, ⟨by rw [tapeOf_line_answer]; exact hp.1, hp.2⟩⟩

/-- one step of the forward walk: goal `HT (KI R) prog Q E3` -/
macro "k_step" : tactic => `(tactic| first
  | with_reducible exact HT.pure (fun _ _ h => h)
  | with_reducible refine HT.ite (fun _ => ?_) (fun _ => ?_)
  | with_reducible refine HTQAt.ite (fun _ => ?_) (fun _ => ?_)
  | with_reducible refine HTQAt.ite_bind (fun _ => ?_) (fun _ => ?_)
  | with_reducible k_atom
  | with_reducible refine ht_pure_bind ?_
  | with_reducible refine ht_bind_assoc ?_
  | with_reducible refine ht_ite_bind (fun _ => ?_) (fun _ => ?_)
  | ((with_reducible apply HT.bind); (focus (with_reducible k_atom)); intro _)
  | with_reducible refine HT.get_bind (fun _ => ?_)
  | ((with_reducible refine htq_modify_bind ?_ ?_); focus (intro _ _ h; exact h))
  | ((with_reducible refine HT.modify ?_); (intro _ _ h; exact h))
  | ((with_reducible refine HTQAt.set_bind ?_ ?_); focus (intro _ h; exact h))
  | ((with_reducible refine htq_set ?_); (intro _ h; exact h))
  | ((with_reducible refine HTQAt.foreign_bind ?_); e3)
  | ((with_reducible refine HTQAt.foreign ?_); e3)
  | with_reducible refine HTQAt.pure_bind ?_
  | with_reducible refine hk_ask_bind (fun _ => ?_)
  | with_reducible exact HT.pure (fun _ _ h => h.2)
  | split_head
  | with_reducible refine HTQAt.ofHT ?_
  | ((with_reducible refine ht_foreign_bind ?_); e3)
  | ((with_reducible refine ht_raise_bind ?_); e3)
  | ((with_reducible refine HT.raise ?_); e3)
  | ((with_reducible refine HT.foreign ?_); e3)
  | ((with_reducible refine HT.bind (Q := fun _ => KI _) (ht_loopI ?_ (fun _ => ?_) _ _) (fun _ => ?_)); focus e3)
  | ((with_reducible refine ht_loopI ?_ (fun _ => ?_) _ _); focus e3))

macro "k_walk" : tactic => `(tactic| repeat' k_step)

/-! ### tape access -/

theorem k_getc (rqn : Bool) (R : List (Nat × Bool)) : KSat R (getc rqn) := by
  intro l e hk
  cases hl : l.eolLookahead with
  | some c =>
    rw [run_getc_some rqn l e c hl]
    exact hk
  | none =>
    rw [C10.run_getc rqn l e hl]
    cases hg : (tapeOf l e).getc rqn ((tapeOf l e).line.length + 1) with
    | error u => exact absurd (getc_error rqn _ _ hg) hk.1
    | ok v =>
      obtain ⟨c, t'⟩ := v
      exact hk.put (getc_spec rqn _ _ _ _ hg).1
macro_rules | `(tactic| k_atom) => `(tactic| exact k_getc _ _)

theorem k_ungetc (c : Option Char) (R : List (Nat × Bool)) : KSat R (ungetc c) := by
  intro l e hk
  rw [C10.run_ungetc]
  rcases ungetc_cases (tapeOf l e) with h | h <;> rw [h]
  · exact hk.put rfl
  · exact hk
macro_rules | `(tactic| k_atom) => `(tactic| exact k_ungetc _ _)

theorem k_bumpIdx (R : List (Nat × Bool)) : KSat R bumpIdx := by
  intro l e hk
  rw [C10.run_bumpIdx]
  exact hk.put rfl
macro_rules | `(tactic| k_atom) => `(tactic| exact k_bumpIdx _)

theorem k_curIdx (R : List (Nat × Bool)) : KSat R curIdx := by
  unfold curIdx; (try simp only []); k_walk
theorem k_tapeSource (R : List (Nat × Bool)) : KSat R tapeSource := by
  unfold tapeSource; (try simp only []); k_walk
theorem k_tapeLine (R : List (Nat × Bool)) : KSat R tapeLine := by
  unfold tapeLine; (try simp only []); k_walk
theorem k_tapeAdded (R : List (Nat × Bool)) : KSat R tapeAdded := by
  unfold tapeAdded; (try simp only []); k_walk
theorem k_optStrict (R : List (Nat × Bool)) : KSat R optStrict := by
  unfold optStrict; (try simp only []); k_walk
theorem k_optProceed (R : List (Nat × Bool)) : KSat R optProceed := by
  unfold optProceed; (try simp only []); k_walk
theorem k_syn (c : Char) (R : List (Nat × Bool)) : KSat R (syn c) := k_ask _ _
macro_rules | `(tactic| k_atom) => `(tactic| exact k_curIdx _)
macro_rules | `(tactic| k_atom) => `(tactic| exact k_tapeSource _)
macro_rules | `(tactic| k_atom) => `(tactic| exact k_tapeLine _)
macro_rules | `(tactic| k_atom) => `(tactic| exact k_tapeAdded _)
macro_rules | `(tactic| k_atom) => `(tactic| exact k_optStrict _)
macro_rules | `(tactic| k_atom) => `(tactic| exact k_optProceed _)
macro_rules | `(tactic| k_atom) => `(tactic| exact k_syn _ _)

theorem k_shellmeta (c : Char) (R : List (Nat × Bool)) : KSat R (shellmeta c) := by unfold shellmeta; k_walk
theorem k_shellquote (c : Char) (R : List (Nat × Bool)) : KSat R (shellquote c) := by unfold shellquote; k_walk
theorem k_shellexp (c : Char) (R : List (Nat × Bool)) : KSat R (shellexp c) := by unfold shellexp; k_walk
theorem k_shellbreak (c : Char) (R : List (Nat × Bool)) : KSat R (shellbreak c) := by unfold shellbreak; k_walk
macro_rules | `(tactic| k_atom) => `(tactic| exact k_shellmeta _ _)
macro_rules | `(tactic| k_atom) => `(tactic| exact k_shellquote _ _)
macro_rules | `(tactic| k_atom) => `(tactic| exact k_shellexp _ _)
macro_rules | `(tactic| k_atom) => `(tactic| exact k_shellbreak _ _)

theorem k_peekc (rqn : Bool) (R : List (Nat × Bool)) : KSat R (peekc rqn) := by
  unfold peekc; (try simp only []); k_walk
macro_rules | `(tactic| k_atom) => `(tactic| exact k_peekc _ _)

theorem k_recordpos (rel : Nat) (R : List (Nat × Bool)) : KSat R (recordpos rel) := by
  unfold recordpos; k_walk
macro_rules | `(tactic| k_atom) => `(tactic| exact k_recordpos _ _)

theorem k_matchedPairError {α : Type} (c : Char) (R : List (Nat × Bool)) :
    KSat R (matchedPairError c : M α) := by
  unfold matchedPairError; k_walk
macro_rules | `(tactic| k_atom) => `(tactic| exact k_matchedPairError _ _)

theorem k_loopFuel (R : List (Nat × Bool)) : KSat R loopFuel := HT.pure (fun _ _ h => h)
theorem k_depthFuel (R : List (Nat × Bool)) : KSat R depthFuel := HT.pure (fun _ _ h => h)
macro_rules | `(tactic| k_atom) => `(tactic| exact k_loopFuel _)
macro_rules | `(tactic| k_atom) => `(tactic| exact k_depthFuel _)

end Bashlex.C01
