/-
  C01 tight, part 22: word expansion and the semantic actions neither set the flags `regexp` /
  `dblparen` nor raise `token.__init__` / `_is_assignment` (invariant `Fl`, exceptions `F8`;
  generated from `TightK.lean` / `TightKAct.lean` by renaming).
-/
import Bashlex.Props.C01.TightFlTok
import Bashlex.Props.C01.TightLvl
import Bashlex.Props.C01.TightKAct

namespace Bashlex.C01
open Bashlex Bashlex.M Bashlex.C10 Bashlex.C11
set_option linter.unusedSimpArgs false
set_option linter.unusedVariables false

abbrev GSat {α : Type} (m : M α) : Prop := HT Fl m (fun _ => Fl) F8

syntax "g_atom" : tactic
macro_rules | `(tactic| g_atom) => `(tactic| assumption)
set_option hygiene false in
macro_rules | `(tactic| g_atom) => `(tactic| exact hnp _ _)

theorem g_ask (q : Query) : GSat (M.ask q) := by
  intro l e h; rw [C10.run_ask]; exact h
macro_rules | `(tactic| g_atom) => `(tactic| exact g_ask _)

theorem hg_ask_bind {β : Type} {l0 : Local} {q : Query}
    {k : Answer q → M β} {Q : β → Local → Env → Prop}
    (h : ∀ a, HTQAt Fl l0 (k a) Q F8) : HTQAt Fl l0 (M.ask q >>= k) Q F8 := by
  intro l e ⟨hl, hp⟩
  rw [M.run_bind, C10.run_ask]
  exact h _ l _ ⟨hl, hp⟩

/-- one step of the forward walk: goal `HT (Fl) prog Q F8` -/
macro "g_step" : tactic => `(tactic| first
  | with_reducible exact HT.pure (fun _ _ h => h)
  | with_reducible refine HT.ite (fun _ => ?_) (fun _ => ?_)
  | with_reducible refine HTQAt.ite (fun _ => ?_) (fun _ => ?_)
  | with_reducible refine HTQAt.ite_bind (fun _ => ?_) (fun _ => ?_)
  | with_reducible g_atom
  | with_reducible refine ht_pure_bind ?_
  | with_reducible refine ht_bind_assoc ?_
  | with_reducible refine ht_ite_bind (fun _ => ?_) (fun _ => ?_)
  | ((with_reducible apply HT.bind); (focus (with_reducible g_atom)); intro _)
  | with_reducible refine HT.get_bind (fun _ => ?_)
  | ((with_reducible refine htq_modify_bind ?_ ?_); focus (intro _ _ h; exact h))
  | ((with_reducible refine HT.modify ?_); (intro _ _ h; exact h))
  | ((with_reducible refine HTQAt.set_bind ?_ ?_); focus (intro _ h; exact h))
  | ((with_reducible refine htq_set ?_); (intro _ h; exact h))
  | ((with_reducible refine HTQAt.foreign_bind ?_); f8exn)
  | ((with_reducible refine HTQAt.foreign ?_); f8exn)
  | with_reducible refine HTQAt.pure_bind ?_
  | with_reducible refine hg_ask_bind (fun _ => ?_)
  | with_reducible exact HT.pure (fun _ _ h => h.2)
  | split_head
  | with_reducible refine HTQAt.ofHT ?_
  | ((with_reducible refine ht_foreign_bind ?_); f8exn)
  | ((with_reducible refine ht_raise_bind ?_); f8exn)
  | ((with_reducible refine HT.raise ?_); f8exn)
  | ((with_reducible refine HT.foreign ?_); f8exn)
  | ((with_reducible refine HT.bind (Q := fun _ => Fl) (ht_loopI ?_ (fun _ => ?_) _ _) (fun _ => ?_)); focus f8exn)
  | ((with_reducible refine ht_loopI ?_ (fun _ => ?_) _ _); focus f8exn))

macro "g_walk" : tactic => `(tactic| repeat' g_step)


theorem g_of {α : Type} {m : M α} (h1 : FlSat m) (h2 : F8Sat m) : GSat m :=
  lift8 (HT.exn h1 (fun _ _ => True.intro)) h2

theorem g_tapeSource : GSat tapeSource := g_of fl_tapeSource (NoExn.sat noExn_tapeSource)
theorem g_optProceed : GSat optProceed := g_of fl_optProceed (NoExn.sat noExn_optProceed)
theorem g_curIdx : GSat curIdx := g_of fl_curIdx (NoExn.sat noExn_curIdx)
theorem g_gatherheredocuments : GSat gatherheredocuments := g_of fl_gatherheredocuments f8_gatherheredocuments
macro_rules | `(tactic| g_atom) => `(tactic| exact g_tapeSource)
macro_rules | `(tactic| g_atom) => `(tactic| exact g_optProceed)
macro_rules | `(tactic| g_atom) => `(tactic| exact g_curIdx)
macro_rules | `(tactic| g_atom) => `(tactic| exact g_gatherheredocuments)

/-- the nested parser keeps the invariant of its caller -/
abbrev NPF (np : NestedParse) : Prop := ∀ s b, GSat (np s b)

/-- the walk, with `for` loops and the one `set` that pushes a redirect -/
macro "ga_walk" : tactic => `(tactic| repeat' (first
  | g_step
  | with_reducible refine ht_forIn (fun _ _ => ?_) _ _
  | with_reducible refine HT.bind (Q := fun _ => Fl) (ht_forIn (fun _ _ => ?_) _ _) (fun _ => ?_)))

variable {np : NestedParse}

/-! ### word expansion -/

theorem g_adjustpositions (n : Node) (b l : Nat) :
    GSat (adjustpositions n b l) := by
  unfold adjustpositions; ga_walk
macro_rules | `(tactic| g_atom) => `(tactic| exact g_adjustpositions _ _ _)

theorem g_recursiveparse (hnp : NPF np) (base : Str) (i : Nat) (b : Bool) :
    GSat (recursiveparse np base i b) := by
  unfold recursiveparse; (try simp only []); ga_walk
macro_rules | `(tactic| g_atom) => `(tactic| exact g_recursiveparse (by assumption) _ _ _)

theorem g_parsedolparen (hnp : NPF np) (base : Str) (i : Nat) :
    GSat (parsedolparen np base i) := by
  unfold parsedolparen; (try simp only []); ga_walk
macro_rules | `(tactic| g_atom) => `(tactic| exact g_parsedolparen (by assumption) _ _)

theorem g_paramexpand (hnp : NPF np) (s : Str) (i : Nat) :
    GSat (paramexpand np s i) := by
  unfold paramexpand; (try simp only []); ga_walk
macro_rules | `(tactic| g_atom) => `(tactic| exact g_paramexpand (by assumption) _ _)

theorem g_expandStep (hnp : NPF np) (tok : Token) (s : Str) (qd : Bool) (st : ExpSt)
    : GSat (expandStep np tok s qd st) := by
  unfold expandStep; (try simp only []); ga_walk
macro_rules | `(tactic| g_atom) => `(tactic| exact g_expandStep (by assumption) _ _ _ _)

theorem g_expandwordinternal (hnp : NPF np) (tok : Token) (qd : Bool) :
    GSat (expandwordinternal np tok qd) := by
  unfold expandwordinternal; (try simp only []); ga_walk
macro_rules | `(tactic| g_atom) => `(tactic| exact g_expandwordinternal (by assumption) _ _)

theorem g_expandword (hnp : NPF np) (tok : Token) :
    GSat (expandword np tok) := by
  unfold expandword; (try simp only []); ga_walk
macro_rules | `(tactic| g_atom) => `(tactic| exact g_expandword (by assumption) _)

/-! ### the semantic actions -/

theorem g_tokAt (p : PCtx) (i : Nat) : GSat (p.tokAt i) := by
  unfold PCtx.tokAt; ga_walk
theorem g_strAt (p : PCtx) (i : Nat) : GSat (p.strAt i) := by
  have := g_tokAt p i
  unfold PCtx.strAt; ga_walk
theorem g_nodeAt (p : PCtx) (i : Nat) (s : String) : GSat (p.nodeAt i s) := by
  unfold PCtx.nodeAt; ga_walk
theorem g_nodesAt (p : PCtx) (i : Nat) (s : String) : GSat (p.nodesAt i s) := by
  unfold PCtx.nodesAt; ga_walk
macro_rules | `(tactic| g_atom) => `(tactic| exact g_tokAt _ _)
macro_rules | `(tactic| g_atom) => `(tactic| exact g_strAt _ _)
macro_rules | `(tactic| g_atom) => `(tactic| exact g_nodeAt _ _ _)
macro_rules | `(tactic| g_atom) => `(tactic| exact g_nodesAt _ _ _)

theorem g_nodePos (n : Node) : GSat (nodePos n) := by
  unfold nodePos; ga_walk
macro_rules | `(tactic| g_atom) => `(tactic| exact g_nodePos _)

theorem g_partsspan (parts : List Node) : GSat (partsspan parts) := by
  unfold partsspan; ga_walk
macro_rules | `(tactic| g_atom) => `(tactic| exact g_partsspan _)

theorem g_reservedAt (p : PCtx) (i : Nat) : GSat (reservedAt p i) := by
  unfold reservedAt; ga_walk
theorem g_operatorAt (p : PCtx) (i : Nat) : GSat (operatorAt p i) := by
  unfold operatorAt; ga_walk
macro_rules | `(tactic| g_atom) => `(tactic| exact g_reservedAt _ _)
macro_rules | `(tactic| g_atom) => `(tactic| exact g_operatorAt _ _)

theorem g_handleAssert (b : Bool) : GSat (handleAssert b) := by
  unfold handleAssert; ga_walk
macro_rules | `(tactic| g_atom) => `(tactic| exact g_handleAssert _)

theorem g_addRedirects (n : Node) (reds : List Node) :
    GSat (addRedirects n reds) := by
  unfold addRedirects; (try simp only []); ga_walk
macro_rules | `(tactic| g_atom) => `(tactic| exact g_addRedirects _ _)

theorem g_makeparts (hnp : NPF np) (args : List SVal) :
    GSat (makeparts ⟨np, args⟩) := by
  unfold makeparts; simp only [bind_pure]; ga_walk
macro_rules | `(tactic| g_atom) => `(tactic| exact g_makeparts (by assumption) _)

theorem g_handleNotImplemented (hnp : NPF np) (args : List SVal) (ty : String) :
    GSat (handleNotImplemented ⟨np, args⟩ ty) := by
  unfold handleNotImplemented; ga_walk
macro_rules | `(tactic| g_atom) => `(tactic| exact g_handleNotImplemented (by assumption) _ _)

theorem g_mkCompound1 (inner : Span → List Node → Node) (parts : List Node) :
    GSat (mkCompound1 inner parts) := by
  unfold mkCompound1; ga_walk
macro_rules | `(tactic| g_atom) => `(tactic| exact g_mkCompound1 _ _)

theorem g_joinLists (p : PCtx) (mk : Span → Str → Node) (s : String) :
    GSat (joinLists p mk s) := by
  unfold joinLists; (try simp only []); ga_walk
macro_rules | `(tactic| g_atom) => `(tactic| exact g_joinLists _ _ _)

set_option maxHeartbeats 4000000 in
/-- **every semantic action** keeps the invariant and raises nothing excluded by `E3` -/
theorem g_actionCore (hnp : NPF np) (fname : String) (args : List SVal) :
    GSat (actionCore np fname args) := by
  unfold actionCore
  simp only []
  split
  all_goals ga_walk

theorem g_action (hnp : NPF np) (fname : String) (args : List SVal) :
    GSat (action np fname args) := by
  have := g_actionCore hnp fname args
  unfold action; ga_walk

end Bashlex.C01
