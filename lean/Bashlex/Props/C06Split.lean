/-
  Property C06 for `split` (model level), and "expansions are kept verbatim".

    C06/STok, SFinish, SNext   the real tokenizer on a plain word: equations on runs through
                     `_readtokenword` (induction over the word), a *total* statement for the part
                     after `# got_token` whatever the parser-state flags and the token history are
                     (`run_finishWord`: no exception, invariant kept, the token spans the word),
                     blank skipping, the final NEWLINE token
    C06/SWords       `wordsOf` (maximal runs of non-blanks) and `shlexSplit_plain`
    C06/SSplit       the loop of `split`; the fuel `len(line) + 4` is adequate
    C06/SQSpec       `shlexSplit_chunks`: `shlex.split` = quote removal of every raw chunk (`shOK`)
    C06/SQTok, SQTok2, SQWord, SQLoop, SQNext   the tokenizer on a chunk with backslash escapes,
                     '…' and "…": `_parse_matched_pair` (both quote kinds), `_readtokenword`,
                     `token()`: a token over exactly the chunk, QUOTED iff it holds quoting
    C06/SQSplit, SQChunks, SQParse, SQShape   the loop of `split` over chunks, `rawChunks`, a decidable
                     parser for the input class, balanced / K8 / K9 from the shape
    C06/SVerb        `C06_verbatim`

  Exclusions (all decidable; witnesses at the end of this file, kernel-checked):
    plain class   CR (white space for shlex only), `#` (comment), metacharacters, newline: necessary;
                  `~ $` backquote: limits of the proof (`expandwordinternal_plain` needs `noExp`)
    quoted class  K1…K5 (`Spec.splitFeatures`), K8 line continuation, K9 = D33 final backslash,
                  `shOK` (inside "…" shlex keeps a backslash before `$`).
                  (The defect found by this proof — `split("a='b'")` yielded `a='b'`, every token
                  that is not a WORD being yielded as its raw source slice — is repaired in the
                  library and in the model: ASSIGNMENT_WORD tokens go through the expander; the
                  exclusion is gone.)
    both          `s.length + 3 ≤ 2^30`: the fuel of the model's tokenizer loops (Python has none)
-/
import Bashlex.Props.C06.SSplit
import Bashlex.Props.C06.SQShape
import Bashlex.Props.C06.SVerb

namespace Bashlex.C06S
open Bashlex Bashlex.M Bashlex.C10 Bashlex.C14 Bashlex.C06 Bashlex.Spec
set_option linter.unusedSimpArgs false
set_option linter.unusedVariables false

theorem split_nil : (split []).1 = .strs [] := by rfl

theorem invT_init : InvT ({} : Local) :=
  ⟨rfl, rfl, rfl, rfl, rfl, rfl, rfl, ⟨rfl, rfl⟩⟩

theorem ofInput_plain (s : Str) (hs : plainInput s = true) (hne : s ≠ []) :
    Tape.ofInput s = { line := s ++ ['\n'], added := true } := by
  unfold Tape.ofInput
  cases hg : s.getLast? with
  | none => rw [List.getLast?_eq_none_iff] at hg; exact absurd hg hne
  | some c =>
    have hc : c ∈ s := List.mem_of_getLast? hg
    have := List.all_eq_true.1 hs c hc
    have hcn : (c == '\n') = false := by
      rcases Bool.or_eq_true_iff.1 this with h | h
      · rw [plainC_eq] at h
        have := (plainCh_facts h).2.2.1; simp [this]
      · simp only [shellblank, Bool.or_eq_true, beq_iff_eq] at h
        rcases h with rfl | rfl <;> rfl
    simp [hcn]

theorem split_run_plain (s : Str) (hs : plainInput s = true) (hlen : s.length + 3 ≤ 1073741824)
    (hne : s ≠ []) :
    ∃ l' e', M.run (splitM s) {} { tape := Tape.ofInput s } = (.ok (wordsOf s, l'), e') := by
  rw [ofInput_plain s hs hne, splitM_eq, M.run_bind, run_tapeLine]
  simp only []
  rw [M.run_bind, C11.run_tapeAdded]
  simp only [tapeOf]
  obtain ⟨l', e', h⟩ := run_split_loop s hs hlen s.length s 0 [] {}
    { tape := { line := s ++ ['\n'], added := true } } ((s ++ ['\n']).length + 4)
    (Nat.le_refl _) (Nat.zero_le _) rfl invT_init rfl rfl (by simp)
  exact ⟨l', e', by simpa using h⟩

/-- **C06_split_plain**: on an input made of plain characters (no blank, newline, CR, backslash,
    quote, `$`, backquote, `~`, `#`, metacharacter), blanks and tabs — shorter than the fuel of
    the model's loops — `split` returns the words of the input, and so does POSIX `shlex.split`. -/
theorem C06_split_plain (s : Str) (hs : plainInput s = true) (hlen : s.length + 3 ≤ 1073741824) :
    (split s).1 = .strs (wordsOf s) ∧ shlexSplit s = some (wordsOf s) := by
  refine ⟨?_, shlexSplit_plain s hs⟩
  by_cases hne : s = []
  · subst hne; exact split_nil
  · obtain ⟨l', e', h⟩ := split_run_plain s hs hlen hne
    unfold split
    simp only []
    have : (splitM s).run {} { tape := Tape.ofInput s } = M.run (splitM s) {} { tape := Tape.ofInput s } := rfl
    rw [this, h]

/-- the loop of `split` (fuel `len(line) + 4`) does not run out of fuel on such inputs, nor does
    any tokenizer loop: `outOfFuel` (and every other exception of `C01_partial_split`) is excluded -/
theorem split_terminates_plain (s : Str) (hs : plainInput s = true)
    (hlen : s.length + 3 ≤ 1073741824) : ∀ x, (split s).1 ≠ .exn x := by
  intro x h
  rw [(C06_split_plain s hs hlen).1] at h
  cases h

theorem C06_split_eq_shlex_plain (s : Str) (hs : plainInput s = true)
    (hlen : s.length + 3 ≤ 1073741824) :
    ∃ ws, (split s).1 = .strs ws ∧ shlexSplit s = some ws :=
  ⟨wordsOf s, C06_split_plain s hs hlen⟩

/-! ## inputs with quotes and backslashes -/

theorem ofInput_nonl (s : Str) (hne : s ≠ []) (hnl : s.getLast? ≠ some '\n') :
    Tape.ofInput s = { line := s ++ ['\n'], added := true } := by
  unfold Tape.ofInput
  cases hg : s.getLast? with
  | none => rw [List.getLast?_eq_none_iff] at hg; exact absurd hg hne
  | some c =>
    have hcn : (c == '\n') = false := by
      rw [hg] at hnl
      have : c ≠ '\n' := fun h => hnl (by rw [h])
      simp [this]
    simp [hcn]

theorem split_run_quoted (s : Str) (cs : List (Str × Bool)) (h : QInputL s cs)
    (hgood : ∀ tq ∈ cs, chunkGood tq = true) (hnl : s.getLast? ≠ some '\n')
    (hlen : s.length + 3 ≤ 1073741824) (hne : s ≠ []) :
    ∃ l' e', M.run (splitM s) {} { tape := Tape.ofInput s } =
      (.ok (cs.map (fun tq => quoteRemove (fun _ => false) tq.1), l'), e') := by
  rw [ofInput_nonl s hne hnl, splitM_eq, M.run_bind, run_tapeLine]
  simp only []
  rw [M.run_bind, C11.run_tapeAdded]
  simp only [tapeOf]
  obtain ⟨l', e', h⟩ := run_split_qloop s hlen s cs h [] 0 [] {}
    { tape := { line := s ++ ['\n'], added := true } } ((s ++ ['\n']).length + 4)
    (by simp) (by simp) (by simp) invT_init rfl rfl (by simp) hgood
  exact ⟨l', e', by simpa using h⟩

theorem qinput_nil {cs : List (Str × Bool)} (h : QInputL [] cs) : cs = [] := by
  generalize hs : ([] : Str) = s at h
  cases h with
  | nil => rfl
  | blank => cases hs
  | chunk t q r cs ht hne =>
    have : t = [] := by
      have := congrArg List.length hs; simp at this; exact List.eq_nil_of_length_eq_zero (by omega)
    exact absurd this hne

/-- **C06_split_quoted**: an input that is a blank-separated sequence of chunks made of plain
    characters, backslash-character pairs, '…' and "…" strings (`QInputL s cs`), every chunk
    satisfying the hypotheses of `C06_plain` (`PlainOK`: K1…K5, K8, K9, no expansion character);
    `shlex` and quote removal agreeing on the input (`shOK`); no final newline; shorter than the
    fuel of the model's loops.  Then `split` yields the quote removal of every chunk, and so does
    POSIX `shlex.split`. -/
theorem C06_split_quoted (s : Str) (cs : List (Str × Bool)) (h : QInputL s cs)
    (hgood : ∀ tq ∈ cs, chunkGood tq = true) (hsh : shOK 0 s = true)
    (hnl : s.getLast? ≠ some '\n') (hlen : s.length + 3 ≤ 1073741824) :
    (split s).1 = .strs (cs.map (fun tq => quoteRemove (fun _ => false) tq.1)) ∧
    shlexSplit s = some (cs.map (fun tq => quoteRemove (fun _ => false) tq.1)) := by
  constructor
  · by_cases hne : s = []
    · subst hne
      rw [qinput_nil h]
      exact split_nil
    · obtain ⟨l', e', hrun⟩ := split_run_quoted s cs h hgood hnl hlen hne
      unfold split
      simp only []
      have : (splitM s).run {} { tape := Tape.ofInput s } =
          M.run (splitM s) {} { tape := Tape.ofInput s } := rfl
      rw [this, hrun]
  · rw [shlexSplit_chunks s hsh, rawChunks_input s cs h, List.map_map]
    rfl

/-- `split` and `shlex.split` agree on such inputs -/
theorem C06_split_eq_shlex (s : Str) (cs : List (Str × Bool)) (h : QInputL s cs)
    (hgood : ∀ tq ∈ cs, chunkGood tq = true) (hsh : shOK 0 s = true)
    (hnl : s.getLast? ≠ some '\n') (hlen : s.length + 3 ≤ 1073741824) :
    ∃ ws, (split s).1 = .strs ws ∧ shlexSplit s = some ws :=
  ⟨_, C06_split_quoted s cs h hgood hsh hnl hlen⟩

/-- all hypotheses of `C06_split_quoted` but the fuel bound, as one decidable predicate -/
def splitOK (s : Str) : Bool :=
  match parseInput s with
  | some cs => cs.all chunkGood && shOK 0 s && (s.getLast? != some '\n')
  | none => false

/-- **C06_split_quoted_dec**: the decidable form.  `parseInput` computes the chunks. -/
theorem C06_split_quoted_dec (s : Str) (h : splitOK s = true) (hlen : s.length + 3 ≤ 1073741824) :
    ∃ ws, (split s).1 = .strs ws ∧ shlexSplit s = some ws ∧
      ws = (rawChunks s).map (quoteRemove (fun _ => false)) := by
  unfold splitOK at h
  cases hp : parseInput s with
  | none => rw [hp] at h; cases h
  | some cs =>
    rw [hp] at h
    simp only [Bool.and_eq_true, bne_iff_ne, ne_eq] at h
    obtain ⟨⟨h1, h2⟩, h3⟩ := h
    have hq := parseInput_sound s cs hp
    obtain ⟨a, b⟩ := C06_split_quoted s cs hq (fun tq htq => List.all_eq_true.1 h1 tq htq) h2 h3 hlen
    refine ⟨_, a, b, ?_⟩
    rw [rawChunks_input s cs hq, List.map_map]
    rfl

/-- no exception (in particular no `outOfFuel "split"`) on such inputs -/
theorem split_terminates_quoted (s : Str) (h : splitOK s = true)
    (hlen : s.length + 3 ≤ 1073741824) : ∀ x, (split s).1 ≠ .exn x := by
  obtain ⟨ws, a, _⟩ := C06_split_quoted_dec s h hlen
  intro x hx
  rw [a] at hx
  cases hx

/-! ## link to `Spec.splitFeatures` (the feature union the executable check of C06 tags with) -/

def orF (f g : QFeat) : QFeat :=
  { k1 := f.k1 || g.k1, k2 := f.k2 || g.k2, k3 := f.k3 || g.k3, k4 := f.k4 || g.k4,
    k5 := f.k5 || g.k5, k6 := f.k6 || g.k6, k7 := f.k7 || g.k7 }

theorem noK_orF {f g : QFeat} (h : noK (orF f g) = true) : noK f = true ∧ noK g = true := by
  simp only [noK, orF, Bool.and_eq_true, Bool.not_eq_true', Bool.or_eq_false_iff] at h ⊢
  obtain ⟨⟨⟨⟨⟨a1, a2⟩, ⟨b1, b2⟩⟩, ⟨c1, c2⟩⟩, ⟨d1, d2⟩⟩, ⟨e1, e2⟩⟩ := h
  exact ⟨⟨⟨⟨⟨a1, b1⟩, c1⟩, d1⟩, e1⟩, ⟨⟨⟨⟨a2, b2⟩, c2⟩, d2⟩, e2⟩⟩

theorem noK_foldl : ∀ (l : List Str) (f : QFeat),
    noK (l.foldl (fun f ch => orF f (quoteFeatures ch)) f) = true →
    noK f = true ∧ ∀ t ∈ l, noK (quoteFeatures t) = true
  | [], f, h => ⟨h, fun t ht => by cases ht⟩
  | c :: l, f, h => by
    obtain ⟨h1, h2⟩ := noK_foldl l (orF f (quoteFeatures c)) h
    obtain ⟨h3, h4⟩ := noK_orF h1
    refine ⟨h3, fun t ht => ?_⟩
    rcases List.mem_cons.1 ht with rfl | ht
    · exact h4
    · exact h2 t ht

/-- if the feature union `Spec.splitFeatures s` shows none of K1…K5, no raw chunk of `s` does -/
theorem noK_splitFeatures (s : Str) (h : noK (splitFeatures s) = true) :
    ∀ t ∈ rawChunks s, noK (quoteFeatures t) = true :=
  (noK_foldl (rawChunks s) {} h).2

theorem qinput_items {s : Str} {cs : List (Str × Bool)} (h : QInputL s cs) :
    ∀ tq ∈ cs, Items tq.1 tq.2 := by
  induction h with
  | nil => intro tq h; cases h
  | blank b r cs hb _ ih => exact ih
  | chunk t q r cs ht hne hr _ ih =>
    intro tq h
    rcases List.mem_cons.1 h with rfl | h
    · exact ht
    · exact ih tq h

/-- the hypotheses in the form of the property's executable check: the input parses into chunks
    (`parseInput`), no chunk holds an expansion character, the feature union `Spec.splitFeatures s` shows none of K1…K5, `shlex` and quote
    removal agree (`shOK`), no final newline.  (Balanced quotes, K8 and K9/D33 — no line
    continuation, no final backslash — follow from the shape: `items_shape`.) -/
def splitOK2 (s : Str) : Bool :=
  match parseInput s with
  | some cs => cs.all (fun tq => noExp tq.1) && noK (splitFeatures s) &&
      shOK 0 s && (s.getLast? != some '\n')
  | none => false

theorem splitOK_of_splitOK2 (s : Str) (h : splitOK2 s = true) : splitOK s = true := by
  unfold splitOK2 at h
  unfold splitOK
  cases hp : parseInput s with
  | none => rw [hp] at h; cases h
  | some cs =>
    rw [hp] at h
    simp only [Bool.and_eq_true] at h ⊢
    obtain ⟨⟨⟨h1, h2⟩, h3⟩, h4⟩ := h
    refine ⟨⟨?_, h3⟩, h4⟩
    have hq := parseInput_sound s cs hp
    rw [List.all_eq_true]
    intro tq htq
    have a : noExp tq.1 = true := List.all_eq_true.1 h1 tq htq
    obtain ⟨hb, h8, h9⟩ := items_shape (qinput_items hq tq htq)
    have hk := noK_splitFeatures s h2 tq.1 (by rw [rawChunks_input s cs hq]; exact List.mem_map_of_mem htq)
    simp only [chunkGood, PlainOK, Bool.and_eq_true, Bool.not_eq_true']
    exact ⟨⟨⟨⟨a, hb⟩, hk⟩, h8⟩, h9⟩

/-- **C06_split_quoted_features**: `split s = shlex.split s` under `splitOK2` -/
theorem C06_split_quoted_features (s : Str) (h : splitOK2 s = true)
    (hlen : s.length + 3 ≤ 1073741824) :
    ∃ ws, (split s).1 = .strs ws ∧ shlexSplit s = some ws ∧
      ws = (rawChunks s).map (quoteRemove (fun _ => false)) :=
  C06_split_quoted_dec s (splitOK_of_splitOK2 s h) hlen

/-! ## non-vacuity and necessity of the exclusions (kernel-checked)

  `both s` = (what `split` yields, what POSIX `shlex.split` yields).                          -/

def strsOf (s : Str) : Option (List Str) :=
  match (split s).1 with
  | .strs l => some l
  | _ => none

def both (s : String) : Option (List String) × Option (List String) :=
  ((strsOf s.toList).map (·.map String.ofList), (shlexSplit s.toList).map (·.map String.ofList))

-- the hypotheses are satisfiable by non-trivial inputs, and the conclusion is what one expects
example : splitOK "a\\ b  'c d' \"e f\" g\\'h '' x\"y\\\"z\"w".toList = true := by decide +kernel
example : both "a\\ b  'c d' \"e f\" g\\'h '' x\"y\\\"z\"w" =
    (some ["a b", "c d", "e f", "g'h", "", "xy\"zw"], some ["a b", "c d", "e f", "g'h", "", "xy\"zw"]) := by
  decide +kernel
example : splitOK2 "'if' \"in\" a=b x='1' '='".toList = true := by decide +kernel
example : splitOK2 "a\\ b  'c d' \"e f\" g\\'h '' x\"y\\\"z\"w".toList = true := by decide +kernel
example : plainInput "if for x in {a,b} ! [[ a=b 12 = time function f { }".toList = true := by decide +kernel
example : both " if for x in {a,b} ! [[ a=b 12 = time function f { }" =
    (some ["if", "for", "x", "in", "{a,b}", "!", "[[", "a=b", "12", "=", "time", "function", "f", "{", "}"],
     some ["if", "for", "x", "in", "{a,b}", "!", "[[", "a=b", "12", "=", "time", "function", "f", "{", "}"]) := by
  decide +kernel

-- plain class (goal 1): carriage return, `#`, metacharacters, newline are necessary exclusions
example : both "a\rb" = (some ["a\rb"], some ["a", "b"]) := by decide +kernel
example : both "a #b" = (some ["a"], some ["a", "#b"]) := by decide +kernel
example : both "a|b" = (some ["a", "|", "b"], some ["a|b"]) := by decide +kernel
example : both "a\nb" = (some ["a", "\n", "b"], some ["a", "b"]) := by decide +kernel
-- (`~`, `$`, backquote are excluded because `expandwordinternal_plain` needs `noExp`; on
--  `~a $b` the two still agree: the exclusion is a limit of the proof, not of the implementation)
example : both "~a $b" = (some ["~a", "$b"], some ["~a", "$b"]) := by decide +kernel

-- quoted class (goal 2):
-- the defect found here (a quoted assignment in command position was yielded as its raw source
-- slice, `a='b'` for `a='b'`) is REPAIRED: `split` hands ASSIGNMENT_WORD tokens to the expander too.
-- Quoted assignment words in command position are covered by `C06_split_quoted*`:
example : splitOK2 "a='b' c".toList = true ∧ splitOK2 "a=\\b".toList = true ∧
    splitOK2 "x=\"b c\" d".toList = true ∧ splitOK2 "x a='b'".toList = true := by decide +kernel
example : both "a='b' c" = (some ["a=b", "c"], some ["a=b", "c"]) := by decide +kernel
example : both "a=\\b" = (some ["a=b"], some ["a=b"]) := by decide +kernel
example : both "x=\"b c\" d" = (some ["x=b c", "d"], some ["x=b c", "d"]) := by decide +kernel
example : both "x a='b'" = (some ["x", "a=b"], some ["x", "a=b"]) := by decide +kernel
-- plain assignments are covered by `C06_split_plain` (`=` and `+` are plain characters)
example : plainInput "a=b c+=d".toList = true := by decide +kernel
example : both "a=b c+=d" = (some ["a=b", "c+=d"], some ["a=b", "c+=d"]) := by decide +kernel
-- outside the class (a metacharacter): `a+=('x') b`
example : both "a+=('x') b" = (some ["a+=", "(", "x", ")", "b"], some ["a+=(x)", "b"]) := by decide +kernel
-- D33 / K9: final backslash (`shlex`: ValueError, No escaped character)
example : both "a\\" = (some ["a"], none) := by decide +kernel
-- K1 … K5 at the level of `split`
example : both "'a'b'c'" = (some ["a'b'c"], some ["abc"]) := by decide +kernel
example : both "a'b\\c'" = (some ["abc"], some ["ab\\c"]) := by decide +kernel
example : both "\"a\"'b'" = (some ["a'b'"], some ["ab"]) := by decide +kernel
example : both "a\"'\"" = (some ["a"], some ["a'"]) := by decide +kernel
example : both "\"\\a\"" = (some ["a"], some ["\\a"]) := by decide +kernel
-- K8: a line continuation (`shlex` keeps the newline)
example : both "a\\\nb" = (some ["ab"], some ["a\nb"]) := by decide +kernel
-- `shOK`: inside "…" `shlex` keeps a backslash before `$`, the shell (and bashlex) drop it
example : shlexSplit "\"\\$\"".toList = some ["\\$".toList] ∧
    quoteRemove (fun _ => false) "\"\\$\"".toList = "$".toList := by decide +kernel

end Bashlex.C06S

#print axioms Bashlex.C06S.C06_split_plain
#print axioms Bashlex.C06S.split_terminates_plain
#print axioms Bashlex.C06S.shlexSplit_chunks
#print axioms Bashlex.C06S.C06_split_quoted
#print axioms Bashlex.C06S.C06_split_quoted_dec
#print axioms Bashlex.C06S.split_terminates_quoted
#print axioms Bashlex.C06S.C06_split_quoted_features
#print axioms Bashlex.C06S.C06_verbatim
#print axioms Bashlex.C06S.C06_verbatim_word
