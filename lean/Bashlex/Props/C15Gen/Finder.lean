/-
  C15 by translation, `parser._endfinder` — the one subclass of `nodevisitor` that overrides a kind
  callback (`Gen.visitorSubclasses`, `subclasses_ok`): `visitheredoc(self, node, value)` is
  `self.end = max(self.end, node.pos[1])` with `self.end = -1` initially; it returns None, so nothing
  is pruned.  Run over the events of the generated visitor it computes `Node.lastHeredocEnd`
  (`Model/Ast.lean`, used by `parse` to find where the next part starts).
-/
import Bashlex.Props.C15Gen.Visit

namespace Bashlex.Props
open Bashlex

/-- the nodes the kind-specific callback is called on, in order -/
def calls : List Ev → List Node
  | [] => []
  | .call n _ :: r => n :: calls r
  | _ :: r => calls r

theorem calls_append (a b : List Ev) : calls (a ++ b) = calls a ++ calls b := by
  induction a with
  | nil => rfl
  | cons e a ih => cases e <;> simp [calls, ih]

mutual
/-- the kind callback runs exactly once on every node reached, in the order of `reached` -/
theorem calls_visit (prune : Node → Bool) : ∀ n, calls (visit prune n) = reached prune n
  | .operator .. | .reservedword .. | .pipe .. | .parameter .. | .tilde .. | .heredoc .. => by
    simp [visit, reached, calls]
  | .list _ ps | .pipeline _ ps | .ifN _ ps | .forN _ ps | .whileN _ ps | .untilN _ ps
  | .caseN _ ps | .pattern _ ps | .command _ ps | .unimplemented _ ps | .function _ _ _ ps
  | .word _ _ ps | .assignment _ _ ps => by
    simp only [visit, reached, List.cons_append, List.nil_append, calls, calls_append]
    split <;> simp [calls, calls_visitL prune ps]
  | .compound _ l r => by
    simp only [visit, reached, List.cons_append, List.nil_append, calls, calls_append]
    split <;> simp [calls, calls_append, calls_visitL prune l, calls_visitL prune r]
  | .redirect _ _ _ o _ h _ => by
    simp only [visit, reached, List.cons_append, List.nil_append, calls, calls_append]
    split <;> simp [calls, calls_append, calls_visitO prune o, calls_visitO prune h]
  | .commandsubstitution _ c | .processsubstitution _ c => by
    simp only [visit, reached, List.cons_append, List.nil_append, calls, calls_append]
    split <;> simp [calls, calls_visit prune c]
theorem calls_visitL (prune : Node → Bool) : ∀ l, calls (visitL prune l) = reachedL prune l
  | [] => rfl
  | n :: ns => by simp [visitL, reachedL, calls_append, calls_visit prune n, calls_visitL prune ns]
theorem calls_visitO (prune : Node → Bool) : ∀ o, calls (visitO prune o) = reachedO prune o
  | none => rfl
  | some n => by simp [visitO, reachedO, calls_visit prune n]
end

/-- `_endfinder.visitheredoc`: `self.end = max(self.end, node.pos[1])`; `none` is the initial -1 -/
def endStep (acc : Option Nat) (m : Node) : Option Nat :=
  match m with
  | .heredoc p _ => some (match acc with | none => p.2 | some e => max e p.2)
  | _ => acc

/-- `ef = _endfinder(); ef.visit(n); ef.end` over a trace of callback events -/
def endfinderRun (evs : List Ev) : Option Nat := (calls evs).foldl endStep none

theorem foldl_endStep (l : List Node) (acc : Option Nat) :
    l.foldl endStep acc =
      (l.filterMap fun m => match m with | .heredoc p _ => some p.2 | _ => none).foldl
        (fun a e => some (match a with | none => e | some x => max x e)) acc := by
  induction l generalizing acc with
  | nil => rfl
  | cons m l ih =>
    cases m <;> simp [endStep, ih]

theorem foldl_max_some (es : List Nat) (e : Nat) :
    es.foldl (fun a x => some (match a with | none => x | some y => max y x)) (some e) =
      some (es.foldl max e) := by
  induction es generalizing e with
  | nil => rfl
  | cons x es ih => simp [ih]

/-- **`_endfinder` over the generated visitor is `Node.lastHeredocEnd`** -/
theorem endfinder_gen (n : Node) :
    endfinderRun (EvT.evs (visitT Gen.visitDispatch (fun _ => false) n)) = n.lastHeredocEnd := by
  rw [visitT_evs, endfinderRun, calls_visit, reached_noprune, foldl_endStep, Node.lastHeredocEnd]
  generalize (n.preorder.filterMap fun m => match m with | .heredoc p _ => some p.2 | _ => none) = ends
  cases ends with
  | nil => rfl
  | cons e es => simp [foldl_max_some]

end Bashlex.Props
