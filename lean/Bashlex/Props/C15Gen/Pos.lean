/-
  C15 by translation, the span helpers.  `Gen.visitorSubclasses` (tools/extract.py) lists every
  subclass of `nodevisitor` in the package with the methods it overrides and what its `visitnode`
  rewrites: `posshifter` and the two local classes `v` of subst.py (`_adjustpositions`,
  `_expandwordinternal`) override `visitnode` ONLY, with `node.pos = (node.pos[0] + d, node.pos[1] + d)`
  (the classes of subst.py after an `assert`); `posconverter` overrides `visitnode` only
  (`pos` replaced by `s = string[start:end]`, a presentation the model leaves to the driver).
  Such a visitor inherits `visit`, `_visitnode` and every kind callback (they return None: nothing is
  pruned), so what it does to a tree is determined by the dispatch table.  Here the SAME interpreter
  `runNode` reads the table a second time (`touchSem`: which attributes of a node are traversed, and
  whether `visitnode` runs on it); `mapD` rebuilds the typed node accordingly; and

    `mapT_eq` :  on the generated table, rewriting with `g : Span → Option Span`
                 (`none` = the assert fails) succeeds iff `g` is defined on the span of every node of
                 the pre-order, and then yields `Node.mapPos`;
    `posshifter_eq_shift`, `adjustpositions_eq` : the instances the model uses (`Node.shift`,
                 `Model/Subst.lean` `adjustpositions`).
  In-place mutation of a node object reachable twice would rewrite it twice; the typed `Node` is a
  tree (the only alias of the Python AST, `function.name`/`.body` into `.parts`, is kept as indices,
  and `mapD` fails if a table traverses them).
-/
import Bashlex.Props.C15Gen.Visit
import Bashlex.Model.Subst

namespace Bashlex.Props
open Bashlex

/-- what one `visit(n)` does with the node object `n` itself: `visitnode(n)` ran, or the node(s)
    held by an attribute were traversed -/
inductive Touch where
  | self
  | attr (a : String)
  deriving DecidableEq

/-- the reading "which callbacks of interest ran, in order"; `none` = the traversal raises -/
def touchSem : Sem (Option (List Touch)) :=
  { nil := some []
    app := fun a b => match a, b with | some x, some y => some (x ++ y) | _, _ => none
    enter := fun _ => some [.self]
    call := fun _ _ => some []
    leave := fun _ => some []
    error := fun _ => none }

/-- one `visit(n)` of a visitor that keeps the inherited kind callbacks (nothing is pruned), read off
    the table by the interpreter of `Visit.lean` -/
def plan (d : VisitorDesc) (n : Node) : Option (List Touch) :=
  runNode touchSem d (fun _ => false) n (fun a => (n.attr a).map fun v => ⟨v, some [.attr a]⟩)

/-- `visitnode` ran `c` times on a node with span `p` -/
def newPos (g : Span → Option Span) (c : Nat) (p : Span) : Option Span :=
  match c with
  | 0 => some p
  | 1 => g p
  | _ => none

/-- an attribute traversed `c` times: untouched, rewritten once, or outside what is modelled -/
def pick {α : Type} (c : Nat) (orig : α) (img : Option α) : Option α :=
  match c with
  | 0 => some orig
  | 1 => img
  | _ => none

/-- both succeed -/
def consO {α : Type} : Option α → Option (List α) → Option (List α)
  | some a, some l => some (a :: l)
  | _, _ => none

mutual
/-- the tree after `X(…).visit(n)` for a visitor `X` overriding `visitnode` only, with
    `node.pos = g(node.pos)` (`none`: it raises) -/
def mapD (d : VisitorDesc) (g : Span → Option Span) : Node → Option Node
  | n@(.operator p a) =>
    (plan d n).bind fun vs => (newPos g (vs.count .self) p).map (.operator · a)
  | n@(.reservedword p a) =>
    (plan d n).bind fun vs => (newPos g (vs.count .self) p).map (.reservedword · a)
  | n@(.pipe p a) =>
    (plan d n).bind fun vs => (newPos g (vs.count .self) p).map (.pipe · a)
  | n@(.parameter p a) =>
    (plan d n).bind fun vs => (newPos g (vs.count .self) p).map (.parameter · a)
  | n@(.tilde p a) =>
    (plan d n).bind fun vs => (newPos g (vs.count .self) p).map (.tilde · a)
  | n@(.heredoc p a) =>
    (plan d n).bind fun vs => (newPos g (vs.count .self) p).map (.heredoc · a)
  | n@(.list p ps) =>
    (plan d n).bind fun vs => (newPos g (vs.count .self) p).bind fun p' =>
      (pick (vs.count (.attr "parts")) ps (mapDL d g ps)).map (.list p')
  | n@(.pipeline p ps) =>
    (plan d n).bind fun vs => (newPos g (vs.count .self) p).bind fun p' =>
      (pick (vs.count (.attr "parts")) ps (mapDL d g ps)).map (.pipeline p')
  | n@(.ifN p ps) =>
    (plan d n).bind fun vs => (newPos g (vs.count .self) p).bind fun p' =>
      (pick (vs.count (.attr "parts")) ps (mapDL d g ps)).map (.ifN p')
  | n@(.forN p ps) =>
    (plan d n).bind fun vs => (newPos g (vs.count .self) p).bind fun p' =>
      (pick (vs.count (.attr "parts")) ps (mapDL d g ps)).map (.forN p')
  | n@(.whileN p ps) =>
    (plan d n).bind fun vs => (newPos g (vs.count .self) p).bind fun p' =>
      (pick (vs.count (.attr "parts")) ps (mapDL d g ps)).map (.whileN p')
  | n@(.untilN p ps) =>
    (plan d n).bind fun vs => (newPos g (vs.count .self) p).bind fun p' =>
      (pick (vs.count (.attr "parts")) ps (mapDL d g ps)).map (.untilN p')
  | n@(.caseN p ps) =>
    (plan d n).bind fun vs => (newPos g (vs.count .self) p).bind fun p' =>
      (pick (vs.count (.attr "parts")) ps (mapDL d g ps)).map (.caseN p')
  | n@(.pattern p ps) =>
    (plan d n).bind fun vs => (newPos g (vs.count .self) p).bind fun p' =>
      (pick (vs.count (.attr "parts")) ps (mapDL d g ps)).map (.pattern p')
  | n@(.command p ps) =>
    (plan d n).bind fun vs => (newPos g (vs.count .self) p).bind fun p' =>
      (pick (vs.count (.attr "parts")) ps (mapDL d g ps)).map (.command p')
  | n@(.unimplemented p ps) =>
    (plan d n).bind fun vs => (newPos g (vs.count .self) p).bind fun p' =>
      (pick (vs.count (.attr "parts")) ps (mapDL d g ps)).map (.unimplemented p')
  | n@(.word p w ps) =>
    (plan d n).bind fun vs => (newPos g (vs.count .self) p).bind fun p' =>
      (pick (vs.count (.attr "parts")) ps (mapDL d g ps)).map (.word p' w)
  | n@(.assignment p w ps) =>
    (plan d n).bind fun vs => (newPos g (vs.count .self) p).bind fun p' =>
      (pick (vs.count (.attr "parts")) ps (mapDL d g ps)).map (.assignment p' w)
  | n@(.function p ni bi ps) =>
    (plan d n).bind fun vs => (newPos g (vs.count .self) p).bind fun p' =>
      if vs.count (.attr "name") = 0 ∧ vs.count (.attr "body") = 0 then
        (pick (vs.count (.attr "parts")) ps (mapDL d g ps)).map (.function p' ni bi)
      else none
  | n@(.compound p l r) =>
    (plan d n).bind fun vs => (newPos g (vs.count .self) p).bind fun p' =>
      (pick (vs.count (.attr "list")) l (mapDL d g l)).bind fun l' =>
        (pick (vs.count (.attr "redirects")) r (mapDL d g r)).map (.compound p' l')
  | n@(.redirect p i t o oa h hid) =>
    (plan d n).bind fun vs => (newPos g (vs.count .self) p).bind fun p' =>
      (pick (vs.count (.attr "output")) o (mapDO d g o)).bind fun o' =>
        (pick (vs.count (.attr "heredoc")) h (mapDO d g h)).map fun h' => .redirect p' i t o' oa h' hid
  | n@(.commandsubstitution p c) =>
    (plan d n).bind fun vs => (newPos g (vs.count .self) p).bind fun p' =>
      (pick (vs.count (.attr "command")) c (mapD d g c)).map (.commandsubstitution p')
  | n@(.processsubstitution p c) =>
    (plan d n).bind fun vs => (newPos g (vs.count .self) p).bind fun p' =>
      (pick (vs.count (.attr "command")) c (mapD d g c)).map (.processsubstitution p')
def mapDL (d : VisitorDesc) (g : Span → Option Span) : List Node → Option (List Node)
  | [] => some []
  | n :: ns => consO (mapD d g n) (mapDL d g ns)
def mapDO (d : VisitorDesc) (g : Span → Option Span) : Option Node → Option (Option Node)
  | none => some none
  | some n => (mapD d g n).map some
end

/-- **the table-driven span rewriter** -/
def mapT (table : List Arm) (g : Span → Option Span) (n : Node) : Option Node :=
  mapD (genVisitor table) g n

/-! ### the generated table -/

theorem runNode_genS {τ : Type} {S : Sem τ} {tbl : List Arm} {prune : Node → Bool} {n : Node}
    {env : String → Option (RVal τ)} {arm : Arm} (h : findArm tbl n.kind = some arm) :
    runNode S (genVisitor tbl) prune n env =
      S.app (S.app (S.app (S.enter n)
        (match callFields env arm.2.1 with
          | some fs => S.call n fs
          | none => S.error ("unknown attribute among the callback arguments of " ++ n.kind)))
        (if arm.2.2.1 && prune n then S.nil else runSteps S env arm.2.2.2)) (S.leave n) := by
  obtain ⟨ks, attrs, g, steps⟩ := arm
  simp only [runNode, genVisitor, h, Gen.visitEnterFirst, Gen.visitLeaveLast, if_true]
  try rfl

/-- `g` is defined on the span of `m` (the assert of `visitnode` holds) -/
def spanOK (g : Span → Option Span) (m : Node) : Bool := (g m.pos).isSome
/-- the total rewrite `g` stands for where it is defined -/
def getG (g : Span → Option Span) : Span → Span := fun p => (g p).getD p

/-- evaluation of `plan` and of the counts on the arm of `Gen.visitDispatch` found for the
    constructor at hand -/
macro "map_eval" : tactic => `(tactic|
  (rw [mapD, plan, runNode_genS (by rfl)]
   simp only [callFields, Node.attr, Node.attrs, List.lookup, String.reduceBEq, Option.map_some,
     Option.map_none, runSteps, runStep, touchSem, String.reduceEq, if_true, if_false, AVal.desc,
     AVal.isNode, AVal.truthy, Bool.true_and, Bool.false_and, Bool.and_false, List.append_nil,
     List.nil_append, List.cons_append, Bool.false_eq_true, Option.isSome_some, Option.isSome_none,
     Option.bind_some]
   simp only [List.count_cons, List.count_nil, beq_self_eq_true, beq_iff_eq, reduceCtorEq,
     Touch.attr.injEq, String.reduceEq, if_true, if_false, Nat.zero_add, Nat.add_zero, and_self,
     newPos, pick, Node.preorder, Node.mapPos, List.all_cons, getG]
   simp only [spanOK, Node.pos]))

theorem opt_leaf (x : Option Span) (p : Span) (k : Span → Node) :
    x.map k = bif x.isSome && true then some (k (x.getD p)) else none := by
  cases x <;> rfl

theorem opt_one {β : Type} (x : Option Span) (p : Span) (b : Bool) (y : β) (k : Span → β → Node) :
    (x.bind fun p' => (bif b then some y else none).map (k p')) =
      bif x.isSome && b then some (k (x.getD p) y) else none := by
  cases x <;> cases b <;> rfl

theorem opt_leaf' (x : Option Span) (p : Span) (k : Span → Node) :
    (x.bind fun p' => some (k p')) = bif x.isSome then some (k (x.getD p)) else none := by
  cases x <;> rfl

theorem opt_one' {β : Type} (x : Option Span) (p : Span) (b : Bool) (y : β) (k : Span → β → Node) :
    (x.bind fun p' => (bif b then some y else none).bind fun y' => some (k p' y')) =
      bif x.isSome && b then some (k (x.getD p) y) else none := by
  cases x <;> cases b <;> rfl

theorem opt_two {β γ : Type} (x : Option Span) (p : Span) (b c : Bool) (y : β) (z : γ)
    (k : Span → β → γ → Node) :
    (x.bind fun p' => (bif b then some y else none).bind fun y' =>
        (bif c then some z else none).map (k p' y')) =
      bif x.isSome && (b && c) then some (k (x.getD p) y z) else none := by
  cases x <;> cases b <;> cases c <;> rfl

theorem opt_cons {β : Type} (b c : Bool) (y : β) (z : List β) :
    consO (bif b then some y else none) (bif c then some z else none) =
      bif b && c then some (y :: z) else none := by
  cases b <;> cases c <;> rfl

theorem opt_some {β : Type} (b : Bool) (y : β) :
    (bif b then some y else none).map some = bif b then some (some y) else none := by
  cases b <;> rfl

mutual
theorem mapD_eq (g : Span → Option Span) : ∀ n : Node,
    mapD (genVisitor Gen.visitDispatch) g n =
      bif n.preorder.all (spanOK g) then some (n.mapPos (getG g)) else none
  | .operator p _ | .reservedword p _ | .pipe p _ | .parameter p _ | .tilde p _ | .heredoc p _ => by
    map_eval
    exact opt_leaf (g p) p _
  | .list p ps | .pipeline p ps | .ifN p ps | .forN p ps | .whileN p ps | .untilN p ps
  | .caseN p ps | .pattern p ps | .command p ps | .unimplemented p ps | .function p _ _ ps
  | .word p _ ps | .assignment p _ ps => by
    map_eval
    rw [mapDL_eq g ps]
    exact opt_one (g p) p _ _ _
  | .compound p l r => by
    map_eval
    rw [mapDL_eq g l, mapDL_eq g r, List.all_append]
    exact opt_two (g p) p _ _ _ _ _
  | .redirect p i t o oa h hid => by
    have iho := mapDO_eq g o
    have ihh := mapDO_eq g h
    cases o <;> cases h <;> map_eval <;>
      simp only [iho, ihh, List.all_append, Node.preorderO, Node.mapPosO, List.all_nil, Bool.and_true,
        Bool.true_and, Option.bind_some, Option.map_some]
    · exact opt_leaf' (g p) p (fun p' => Node.redirect p' i t none oa none hid)
    · exact opt_one (g p) p _ _ (fun p' h' => Node.redirect p' i t none oa h' hid)
    · exact opt_one' (g p) p _ _ (fun p' o' => Node.redirect p' i t o' oa none hid)
    · exact opt_two (g p) p _ _ _ _ (fun p' o' h' => Node.redirect p' i t o' oa h' hid)
  | .commandsubstitution p c | .processsubstitution p c => by
    map_eval
    rw [mapD_eq g c]
    exact opt_one (g p) p _ _ _
theorem mapDL_eq (g : Span → Option Span) : ∀ l : List Node,
    mapDL (genVisitor Gen.visitDispatch) g l =
      bif (Node.preorderL l).all (spanOK g) then some (Node.mapPosL (getG g) l) else none
  | [] => rfl
  | n :: ns => by
    rw [mapDL, mapD_eq g n, mapDL_eq g ns]
    simp only [Node.preorderL, Node.mapPosL, List.all_append]
    exact opt_cons _ _ _ _
theorem mapDO_eq (g : Span → Option Span) : ∀ o : Option Node,
    mapDO (genVisitor Gen.visitDispatch) g o =
      bif (Node.preorderO o).all (spanOK g) then some (Node.mapPosO (getG g) o) else none
  | none => rfl
  | some n => by
    rw [mapDO, mapD_eq g n]
    simp only [Node.preorderO, Node.mapPosO]
    exact opt_some _ _
end

/-- **the span rewriter generated from `ast.py`**: for a visitor that overrides `visitnode` only, with
    `node.pos = g(node.pos)` (`none`: an assert in it fails), the traversal succeeds iff `g` is defined
    on the span of every node of the pre-order, and then every span is rewritten exactly once:
    the result is `Node.mapPos` -/
theorem mapT_eq (g : Span → Option Span) (n : Node) :
    mapT Gen.visitDispatch g n =
      bif n.preorder.all (fun m => (g m.pos).isSome) then some (n.mapPos fun p => (g p).getD p)
      else none :=
  mapD_eq g n

/-- a total rewrite -/
theorem mapT_total (f : Span → Span) (n : Node) :
    mapT Gen.visitDispatch (fun p => some (f p)) n = some (n.mapPos f) := by
  rw [mapT_eq]
  have : n.preorder.all (fun m => (some (f m.pos)).isSome) = true := by simp
  rw [this]
  rfl

/-- **`posshifter(k).visit(n)` is `Node.shift k`** (ast.py: `visitnode` is
    `node.pos = (node.pos[0] + self.count, node.pos[1] + self.count)`) -/
theorem posshifter_eq_shift (k : Nat) (n : Node) :
    mapT Gen.visitDispatch (fun p => some (p.1 + k, p.2 + k)) n = some (n.shift k) :=
  mapT_total _ n

mutual
theorem mapPos_congr (f f' : Span → Span) : ∀ n : Node,
    (∀ m ∈ n.preorder, f m.pos = f' m.pos) → n.mapPos f = n.mapPos f'
  | .operator p _ | .reservedword p _ | .pipe p _ | .parameter p _ | .tilde p _ | .heredoc p _ => by
    intro h
    simp only [Node.preorder, List.mem_cons, forall_eq_or_imp] at h
    have h0 : f p = f' p := h.1
    simp only [Node.mapPos, h0]
  | .list p ps | .pipeline p ps | .ifN p ps | .forN p ps | .whileN p ps | .untilN p ps
  | .caseN p ps | .pattern p ps | .command p ps | .unimplemented p ps | .function p _ _ ps
  | .word p _ ps | .assignment p _ ps => by
    intro h
    simp only [Node.preorder, List.mem_cons, forall_eq_or_imp] at h
    have h0 : f p = f' p := h.1
    simp only [Node.mapPos, h0, mapPosL_congr f f' ps h.2]
  | .compound p l r => by
    intro h
    simp only [Node.preorder, List.mem_cons, List.mem_append, or_imp, forall_and] at h
    have h0 : f p = f' p := h.1 _ rfl
    simp only [Node.mapPos, h0, mapPosL_congr f f' l h.2.1, mapPosL_congr f f' r h.2.2]
  | .redirect p _ _ o _ hd _ => by
    intro h
    simp only [Node.preorder, List.mem_cons, List.mem_append, or_imp, forall_and] at h
    have h0 : f p = f' p := h.1 _ rfl
    simp only [Node.mapPos, h0, mapPosO_congr f f' o h.2.1, mapPosO_congr f f' hd h.2.2]
  | .commandsubstitution p c | .processsubstitution p c => by
    intro h
    simp only [Node.preorder, List.mem_cons, forall_eq_or_imp] at h
    have h0 : f p = f' p := h.1
    simp only [Node.mapPos, h0, mapPos_congr f f' c h.2]
theorem mapPosL_congr (f f' : Span → Span) : ∀ l : List Node,
    (∀ m ∈ Node.preorderL l, f m.pos = f' m.pos) → Node.mapPosL f l = Node.mapPosL f' l
  | [] => fun _ => rfl
  | n :: ns => by
    intro h
    simp only [Node.preorderL, List.mem_append, or_imp, forall_and] at h
    simp only [Node.mapPosL, mapPos_congr f f' n h.1, mapPosL_congr f f' ns h.2]
theorem mapPosO_congr (f f' : Span → Span) : ∀ o : Option Node,
    (∀ m ∈ Node.preorderO o, f m.pos = f' m.pos) → Node.mapPosO f o = Node.mapPosO f' o
  | none => fun _ => rfl
  | some n => by
    intro h
    simp only [Node.preorderO] at h
    simp only [Node.mapPosO, mapPos_congr f f' n h]
end

/-- the `visitnode` of the local class `v` of `subst._adjustpositions`:
    `assert node.pos[1] + base <= endlimit; node.pos = (node.pos[0] + base, node.pos[1] + base)` -/
def assertShift (base endlimit : Nat) (p : Span) : Option Span :=
  if p.2 + base ≤ endlimit then some (p.1 + base, p.2 + base) else none

theorem mapT_assertShift (base endlimit : Nat) (n : Node) :
    mapT Gen.visitDispatch (assertShift base endlimit) n =
      bif n.preorder.all (fun m => decide (m.pos.2 + base ≤ endlimit)) then some (n.shift base)
      else none := by
  rw [mapT_eq]
  have hc : (fun m : Node => ((assertShift base endlimit) m.pos).isSome) =
      fun m => decide (m.pos.2 + base ≤ endlimit) := by
    funext m
    simp only [assertShift]
    split <;> simp [*]
  rw [hc]
  cases hall : n.preorder.all (fun m => decide (m.pos.2 + base ≤ endlimit))
  · rfl
  · simp only [cond_true, Node.shift]
    congr 1
    apply mapPos_congr
    intro m hm
    have := List.all_eq_true.1 hall m hm
    simp only [decide_eq_true_eq] at this
    simp [assertShift, this]

/-- **the model's `adjustpositions` is the generated rewriter** run with the `visitnode` of
    `subst._adjustpositions` -/
theorem adjustpositions_gen (n : Node) (base endlimit : Nat) :
    adjustpositions n base endlimit =
      match mapT Gen.visitDispatch (assertShift base endlimit) n with
      | some n' => pure n'
      | none => M.foreign "AssertionError" "visitnode" := by
  rw [mapT_assertShift, adjustpositions]
  cases n.preorder.all (fun m => decide (m.pos.2 + base ≤ endlimit)) <;> simp

/-- `for node in parts: visitor.visit(node)` -/
def mapTs (table : List Arm) (g : Span → Option Span) : List Node → Option (List Node)
  | [] => some []
  | n :: ns => consO (mapT table g n) (mapTs table g ns)

/-- the tail of `subst._expandwordinternal` (class `v`, one visitor over all parts): it succeeds iff
    the assert holds on every node of every part, and then shifts every part — the condition and
    the result `Model/Subst.lean` `expandwordinternal` states -/
theorem mapTs_assertShift (base endlimit : Nat) : ∀ parts : List Node,
    mapTs Gen.visitDispatch (assertShift base endlimit) parts =
      bif parts.all (fun p => p.preorder.all fun m => decide (m.pos.2 + base ≤ endlimit)) then
        some (parts.map (·.shift base))
      else none
  | [] => rfl
  | n :: ns => by
    rw [mapTs, mapT_assertShift, mapTs_assertShift base endlimit ns, List.all_cons, List.map_cons]
    exact opt_cons _ _ _ _

/-! ### what the subclasses override (regenerated data) -/

/-- every subclass of `nodevisitor` in the package overrides either `visitnode` alone — rewriting
    `pos` by a shift (`posshifter`, the classes `v` of subst.py) or replacing it by the source slice
    (`posconverter`) — or `visitheredoc` alone (`_endfinder`); none overrides `visit`, `_visitnode`,
    `visitnodeend` or another kind callback, so none prunes and all of them traverse as the
    dispatch table says -/
theorem subclasses_ok :
    Gen.visitorSubclasses.all (fun c =>
      (c.2.2.1 == ["visitnode"] && (c.2.2.2.1 == "shift" || c.2.2.2.1 == "slice")) ||
      (c.2.2.1 == ["visitheredoc"] && c.2.2.2.1 == "none")) = true ∧
    Gen.visitorSubclasses.contains
      ("ast", "posshifter", ["visitnode"], "shift", "self.count", []) = true ∧
    Gen.visitorSubclasses.contains
      ("ast", "posconverter", ["visitnode"], "slice", "", ["hasattr(node, 'pos')"]) = true ∧
    Gen.visitorSubclasses.contains
      ("subst", "v", ["visitnode"], "shift", "base", ["node.pos[1] + base <= endlimit"]) = true ∧
    Gen.visitorSubclasses.contains
      ("subst", "v", ["visitnode"], "shift", "wordtoken.lexpos",
        ["node.pos[1] + wordtoken.lexpos <= wordtoken.endlexpos"]) = true ∧
    Gen.visitorSubclasses.contains ("parser", "_endfinder", ["visitheredoc"], "none", "", []) = true := by
  decide

/-! ### the rewriter is sensitive to the table (kernel-checked on `exTree`) -/

/-- the spans of the pre-order after a rewrite (`none`: the traversal fails or is outside the model) -/
def spansAfter (t : List Arm) (k : Nat) (n : Node) : Option (List Span) :=
  (mapT t (fun p => some (p.1 + k, p.2 + k)) n).map fun n' => n'.preorder.map Node.pos

example : spansAfter Gen.visitDispatch 10 exTree =
    some [(10, 19), (10, 11), (12, 13), (12, 13), (15, 19), (16, 17), (16, 17), (18, 19)] := by decide

/-- the loop of the `command` arm dropped: the word below the command keeps its span -/
example : spansAfter (editArm "command" (fun a => (a.1, a.2.1, a.2.2.1, [])) Gen.visitDispatch) 10
      exTree =
    some [(10, 19), (10, 11), (12, 13), (2, 3), (15, 19), (16, 17), (16, 17), (18, 19)] := by decide

/-- `if n.heredoc: self.visit(n.heredoc)` dropped: the body keeps its span -/
example : spansAfter (editArm "redirect" (fun a => (a.1, a.2.1, a.2.2.1, [("ifnode", "output")]))
      Gen.visitDispatch) 10 exTree =
    some [(10, 19), (10, 11), (12, 13), (12, 13), (15, 19), (16, 17), (16, 17), (8, 9)] := by decide

/-- the parts of a word traversed twice (each would be shifted twice in place): outside the model -/
example : spansAfter (editArm "word"
      (fun a => (a.1, a.2.1, a.2.2.1, [("for", "parts"), ("for", "parts")])) Gen.visitDispatch) 10
      exTree = none := by decide

/-- an arm removed: the traversal raises -/
example : spansAfter (Gen.visitDispatch.filter (fun a => !a.1.contains "redirect")) 10 exTree = none := by
  decide

/-- the assert of `_adjustpositions` fails on one node: no tree -/
example : (mapT Gen.visitDispatch (assertShift 10 18) exTree).isSome = false ∧
    (mapT Gen.visitDispatch (assertShift 10 19) exTree).isSome = true := by decide

end Bashlex.Props
