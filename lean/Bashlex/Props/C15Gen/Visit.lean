/-
  C15, tie by TRANSLATION.  `tools/extract.py` (`gen_kinds`) turns the Python AST of
  `nodevisitor.visit` / `nodevisitor._visitnode` (ast.py) into the table `Gen.visitDispatch` (one
  entry per `if/elif` arm, in source order) and the three frame facts `Gen.visitEnterFirst`,
  `Gen.visitLeaveLast`, `Gen.visitElseRaises`; the generator raises on every statement shape it does
  not recognise.  Here:

  * `Node.attrs` / `Node.attr` — Python attribute access by name over the typed `Node`;
  * `visitD` / `visitT` — a visitor that INTERPRETS such a table (it knows no kind and no arm);
    an unknown kind, an unknown attribute, an unknown mode or a traversal step applied to a value
    of the wrong type is the distinguished event `EvT.error` (a separate constructor, so it cannot
    be confused with a callback event) — nothing is silently skipped;
  * `visitD_unfold` — the interpreter satisfies the generic equation
    `visitD d prune n = runNode evSem d prune n (fun a => (n.attr a).map (decorate (visitD d prune)))`
    (it was defined by structural recursion on the nested inductive `Node`; this equation is what
    a definition by well-founded recursion through `Node.attr` would have unfolded to);
  * **`visitT_eq_visit`** — on the generated table the interpreter produces exactly the events of
    the hand-written `visit` (`Model/Visitor.lean`), for all trees and all prune predicates, hence
    no error event; `C15_gen` restates `Props.C15` for the generated visitor.
  An edit of `ast.py`'s dispatch changes `Gen/Kinds.lean` and breaks `visitT_eq_visit` unless the
  behaviour is the same.
-/
import Bashlex.Props.C15

namespace Bashlex.Props
open Bashlex

/-! ### attribute access by name -/

/-- the value of a Python attribute of a node -/
inductive AVal where
  /-- a string -/
  | str (s : Str)
  /-- `None`, a number or a string (`input` and a non-node `output` of a redirect) -/
  | rin (r : RedirIn)
  /-- a list of nodes -/
  | nodes (l : List Node)
  /-- a node -/
  | node (w : Node)
  /-- `None` or a node -/
  | opt (o : Option Node)

namespace AVal

/-- how the value is described in a callback event (`Model/Visitor.lean`) -/
def desc : AVal → String
  | .str s => descStr s
  | .rin r => descRedirIn r
  | .nodes l => descNodes l
  | .node w => descNode w
  | .opt o => descOpt o

/-- `isinstance(v, node)` -/
def isNode : AVal → Bool
  | .node _ => true
  | .opt (some _) => true
  | _ => false

/-- `bool(v)` (instances of `ast.node` define neither `__bool__` nor `__len__`: always true) -/
def truthy : AVal → Bool
  | .str s => !s.isEmpty
  | .rin .none => false
  | .rin (.num k) => k != 0
  | .rin (.str s) => !s.isEmpty
  | .nodes l => !l.isEmpty
  | .node _ => true
  | .opt o => o.isSome

end AVal

/-- the attributes of a node, by name (the `function` node keeps `name`/`body` as indices into
    `parts`; a redirect's `output` is a node or a number/string) -/
def _root_.Bashlex.Node.attrs : Node → List (String × AVal)
  | .operator _ op => [("op", .str op)]
  | .reservedword _ w => [("word", .str w)]
  | .pipe _ p => [("pipe", .str p)]
  | .list _ ps | .pipeline _ ps | .ifN _ ps | .forN _ ps | .whileN _ ps | .untilN _ ps
  | .caseN _ ps | .pattern _ ps | .command _ ps | .unimplemented _ ps => [("parts", .nodes ps)]
  | .compound _ l r => [("list", .nodes l), ("redirects", .nodes r)]
  | .function _ ni bi ps => [("name", .opt ps[ni]?), ("body", .opt ps[bi]?), ("parts", .nodes ps)]
  | .redirect _ i t o oa h _ =>
    [("input", .rin i), ("type", .str t),
     ("output", match o with | some w => .node w | none => .rin oa), ("heredoc", .opt h)]
  | .word _ w ps | .assignment _ w ps => [("word", .str w), ("parts", .nodes ps)]
  | .parameter _ v | .tilde _ v | .heredoc _ v => [("value", .str v)]
  | .commandsubstitution _ c | .processsubstitution _ c => [("command", .node c)]

/-- `n.A`; `none` = AttributeError -/
def _root_.Bashlex.Node.attr (n : Node) (a : String) : Option AVal := n.attrs.lookup a

/-! ### the table interpreter -/

/-- events of the interpreted visitor: a callback event or the distinguished error -/
inductive EvT where
  | ev (e : Ev)
  | error (what : String)

/-- the callback events of a trace -/
def EvT.evs : List EvT → List Ev
  | [] => []
  | .ev e :: r => e :: EvT.evs r
  | .error _ :: r => EvT.evs r

def EvT.isError : EvT → Bool
  | .error _ => true
  | .ev _ => false

/-- what a traversal computes: results are combined in order (`nil`, `app`); `enter`, `call`,
    `leave` are the three callbacks `visitnode(n)`, `visit<kind>(n, …)`, `visitnodeend(n)`; `error` is
    failure.  The table is interpreted once, for every such reading (`runNode`): events here,
    the touched attributes in `C15Gen/Pos.lean`. -/
structure Sem (τ : Type) where
  nil : τ
  app : τ → τ → τ
  enter : Node → τ
  call : Node → List String → τ
  leave : Node → τ
  error : String → τ

/-- the reading as a trace of events -/
def evSem : Sem (List EvT) :=
  { nil := [], app := (· ++ ·), enter := fun n => [.ev (.enter n)],
    call := fun n fs => [.ev (.call n fs)], leave := fun n => [.ev (.leave n)],
    error := fun w => [.error w] }

/-- an attribute value together with the result of visiting the node(s) it holds, in order -/
structure RVal (τ : Type) where
  val : AVal
  trace : τ

/-- one `if/elif` arm: kinds, attributes passed to the callback, guarded, traversal steps -/
abbrev Arm := List String × List String × Bool × List (String × String)

/-- what the translator extracts from `nodevisitor` -/
structure VisitorDesc where
  /-- `_visitnode` calls `self.visitnode(n)` before the kind-specific callback -/
  enterFirst : Bool
  /-- `visit` ends with `self.visitnodeend(n)` -/
  leaveLast : Bool
  /-- the `else` arm raises (otherwise there is no `else` arm) -/
  elseRaises : Bool
  arms : List Arm

/-- the first arm whose test `k == …` / `k in (…)` holds -/
def findArm : List Arm → String → Option Arm
  | [], _ => none
  | arm :: rest, k => if arm.1.contains k then some arm else findArm rest k

section
variable {τ : Type}

/-- the arguments of `self._visitnode(n, n.A₁, …)`; `none` if an attribute does not exist -/
def callFields (env : String → Option (RVal τ)) : List String → Option (List String)
  | [] => some []
  | a :: as =>
    match env a, callFields env as with
    | some r, some fs => some (r.val.desc :: fs)
    | _, _ => none

/-- one traversal step -/
def runStep (S : Sem τ) (env : String → Option (RVal τ)) (mode a : String) : τ :=
  match env a with
  | none => S.error ("unknown attribute " ++ a)
  | some r =>
    if mode = "for" then
      (match r.val with | .nodes _ => r.trace | _ => S.error ("for over a non-list " ++ a))
    else if mode = "ifnode" then (if r.val.isNode then r.trace else S.nil)
    else if mode = "iftrue" then
      (if r.val.truthy then
        (if r.val.isNode then r.trace else S.error ("visit of a non-node " ++ a))
       else S.nil)
    else if mode = "one" then
      (if r.val.isNode then r.trace else S.error ("visit of a non-node " ++ a))
    else S.error ("unknown mode " ++ mode)

def runSteps (S : Sem τ) (env : String → Option (RVal τ)) : List (String × String) → τ
  | [] => S.nil
  | (mode, a) :: rest => S.app (runStep S env mode a) (runSteps S env rest)

/-- `visit(n)` given the attribute environment of `n` -/
def runNode (S : Sem τ) (d : VisitorDesc) (prune : Node → Bool) (n : Node)
    (env : String → Option (RVal τ)) : τ :=
  match findArm d.arms n.kind with
  | none =>
    if d.elseRaises then S.error ("unknown node kind " ++ n.kind)
    else (if d.leaveLast then S.leave n else S.nil)
  | some (_, attrs, guarded, steps) =>
    S.app (S.app (S.app
      (if d.enterFirst then S.enter n else S.nil)
      (match callFields env attrs with
        | some fs => S.call n fs
        | none => S.error ("unknown attribute among the callback arguments of " ++ n.kind)))
      (if guarded && prune n then S.nil else runSteps S env steps))
      (if d.leaveLast then S.leave n else S.nil)

end

mutual
/-- the interpreted visitor; every arm below only lists the attributes of the constructor with the
    traces of the nodes they hold (`visitD_unfold`: it is `Node.attrs` decorated) -/
def visitD (d : VisitorDesc) (prune : Node → Bool) : Node → List EvT
  | n@(.operator _ op) => runNode evSem d prune n (List.lookup · [("op", ⟨.str op, []⟩)])
  | n@(.reservedword _ w) => runNode evSem d prune n (List.lookup · [("word", ⟨.str w, []⟩)])
  | n@(.pipe _ p) => runNode evSem d prune n (List.lookup · [("pipe", ⟨.str p, []⟩)])
  | n@(.list _ ps) | n@(.pipeline _ ps) | n@(.ifN _ ps) | n@(.forN _ ps) | n@(.whileN _ ps)
  | n@(.untilN _ ps) | n@(.caseN _ ps) | n@(.pattern _ ps) | n@(.command _ ps)
  | n@(.unimplemented _ ps) =>
    runNode evSem d prune n (List.lookup · [("parts", ⟨.nodes ps, visitDL d prune ps⟩)])
  | n@(.compound _ l r) =>
    runNode evSem d prune n (List.lookup ·
      [("list", ⟨.nodes l, visitDL d prune l⟩), ("redirects", ⟨.nodes r, visitDL d prune r⟩)])
  | n@(.function _ ni bi ps) =>
    runNode evSem d prune n (List.lookup ·
      [("name", ⟨.opt ps[ni]?, visitDAt d prune ps ni⟩), ("body", ⟨.opt ps[bi]?, visitDAt d prune ps bi⟩),
       ("parts", ⟨.nodes ps, visitDL d prune ps⟩)])
  | n@(.redirect _ i t o oa h _) =>
    runNode evSem d prune n (List.lookup ·
      [("input", ⟨.rin i, []⟩), ("type", ⟨.str t, []⟩),
       ("output", ⟨(match o with | some w => .node w | none => .rin oa), visitDO d prune o⟩),
       ("heredoc", ⟨.opt h, visitDO d prune h⟩)])
  | n@(.word _ w ps) | n@(.assignment _ w ps) =>
    runNode evSem d prune n (List.lookup ·
      [("word", ⟨.str w, []⟩), ("parts", ⟨.nodes ps, visitDL d prune ps⟩)])
  | n@(.parameter _ v) | n@(.tilde _ v) | n@(.heredoc _ v) =>
    runNode evSem d prune n (List.lookup · [("value", ⟨.str v, []⟩)])
  | n@(.commandsubstitution _ c) | n@(.processsubstitution _ c) =>
    runNode evSem d prune n (List.lookup · [("command", ⟨.node c, visitD d prune c⟩)])
def visitDL (d : VisitorDesc) (prune : Node → Bool) : List Node → List EvT
  | [] => []
  | n :: ns => visitD d prune n ++ visitDL d prune ns
def visitDO (d : VisitorDesc) (prune : Node → Bool) : Option Node → List EvT
  | none => []
  | some n => visitD d prune n
/-- the trace of `l[i]` if it exists (`function.name`, `function.body`) -/
def visitDAt (d : VisitorDesc) (prune : Node → Bool) : List Node → Nat → List EvT
  | [], _ => []
  | n :: _, 0 => visitD d prune n
  | _ :: ns, i + 1 => visitDAt d prune ns i
end

/-- the visitor description the translator produced, with the arms given -/
def genVisitor (table : List Arm) : VisitorDesc :=
  { enterFirst := Gen.visitEnterFirst, leaveLast := Gen.visitLeaveLast,
    elseRaises := Gen.visitElseRaises, arms := table }

/-- **the table-driven visitor** (frame facts as generated) -/
def visitT (table : List Arm) (prune : Node → Bool) (n : Node) : List EvT :=
  visitD (genVisitor table) prune n

/-! ### the interpreter is generic: it is `runNode` over `Node.attr`, recursively -/

/-- an attribute value with the traces of the nodes it holds, `vis` being the traversal -/
def decorate (vis : Node → List EvT) (v : AVal) : RVal (List EvT) :=
  ⟨v, match v with
      | .str _ | .rin _ => []
      | .nodes l => l.flatMap vis
      | .node w => vis w
      | .opt o => o.elim [] vis⟩

theorem visitDL_flatMap (d : VisitorDesc) (prune : Node → Bool) :
    ∀ l, visitDL d prune l = l.flatMap (visitD d prune)
  | [] => rfl
  | n :: ns => by simp [visitDL, visitDL_flatMap d prune ns]

theorem visitDAt_eq (d : VisitorDesc) (prune : Node → Bool) :
    ∀ l i, visitDAt d prune l i = visitDO d prune l[i]?
  | [], _ => by simp [visitDAt, visitDO]
  | n :: _, 0 => by simp [visitDAt, visitDO]
  | _ :: ns, i + 1 => by simp [visitDAt, visitDAt_eq d prune ns i]

theorem visitDO_elim (d : VisitorDesc) (prune : Node → Bool) (o : Option Node) :
    visitDO d prune o = o.elim [] (visitD d prune) := by
  cases o <;> rfl

theorem lookup_map {β γ : Type} (f : β → γ) (a : String) :
    ∀ l : List (String × β), List.lookup a (l.map fun kv => (kv.1, f kv.2)) = (List.lookup a l).map f
  | [] => rfl
  | (k, v) :: l => by
    simp only [List.map, List.lookup]
    cases a == k <;> simp [lookup_map f a l]

/-- **the fixpoint equation of the interpreter**: visiting `n` is `runNode` in the environment that
    maps an attribute name to its value (`Node.attr`) and the traces of the nodes the value holds.
    No kind and no attribute name occurs in it: all of that comes from the table and `Node.attrs`. -/
theorem visitD_unfold (d : VisitorDesc) (prune : Node → Bool) (n : Node) :
    visitD d prune n = runNode evSem d prune n (fun a => (n.attr a).map (decorate (visitD d prune))) := by
  have key : ∀ l : List (String × RVal (List EvT)),
      l = n.attrs.map (fun kv => (kv.1, decorate (visitD d prune) kv.2)) →
      runNode evSem d prune n (List.lookup · l) =
        runNode evSem d prune n (fun a => (n.attr a).map (decorate (visitD d prune))) := by
    intro l hl
    congr 1
    funext a
    rw [hl, Node.attr, lookup_map]
  cases n with
  | redirect p i t o oa h hid =>
    cases o <;> cases h <;> rw [visitD] <;> apply key <;>
      simp [Node.attrs, decorate, visitDO_elim]
  | _ =>
    rw [visitD]; apply key
    simp [Node.attrs, decorate, visitDL_flatMap, visitDAt_eq, visitDO_elim]

/-! ### the generated table -/

theorem runNode_gen {tbl : List Arm} {prune : Node → Bool} {n : Node} {env : String → Option (RVal (List EvT))}
    {arm : Arm} (h : findArm tbl n.kind = some arm) :
    runNode evSem (genVisitor tbl) prune n env =
      [.ev (.enter n)] ++
      (match callFields env arm.2.1 with
        | some fs => [.ev (.call n fs)]
        | none => [.error ("unknown attribute among the callback arguments of " ++ n.kind)]) ++
      (if arm.2.2.1 && prune n then [] else runSteps evSem env arm.2.2.2) ++ [.ev (.leave n)] := by
  obtain ⟨ks, attrs, g, steps⟩ := arm
  simp only [runNode, genVisitor, h, Gen.visitEnterFirst, Gen.visitLeaveLast, if_true, evSem]

/-- evaluation of the interpreter on the arm of `Gen.visitDispatch` found for the constructor at hand
    (`by rfl` runs `findArm` on the concrete table) -/
macro "interp" : tactic => `(tactic|
  (rw [visitD, runNode_gen (by rfl)]
   simp only [callFields, List.lookup, String.reduceBEq, runSteps, runStep, evSem, String.reduceEq,
     if_true, if_false, AVal.desc, AVal.isNode, AVal.truthy, visit, Bool.true_and, Bool.false_and,
     List.append_nil]))

mutual
theorem visitD_eq_visit (prune : Node → Bool) :
    ∀ n, visitD (genVisitor Gen.visitDispatch) prune n = (visit prune n).map .ev
  | .operator .. | .reservedword .. | .pipe .. | .parameter .. | .tilde .. | .heredoc .. => by
    interp; simp
  | .list _ ps | .pipeline _ ps | .ifN _ ps | .forN _ ps | .whileN _ ps | .untilN _ ps
  | .caseN _ ps | .pattern _ ps | .command _ ps | .unimplemented _ ps | .function _ _ _ ps
  | .word _ _ ps | .assignment _ _ ps => by
    interp; rw [visitDL_eq_visitL prune ps]; split <;> simp
  | .compound _ l r => by
    interp; rw [visitDL_eq_visitL prune l, visitDL_eq_visitL prune r]; split <;> simp
  | .redirect _ _ _ o _ h _ => by
    have iho := visitDO_eq_visitO prune o
    have ihh := visitDO_eq_visitO prune h
    cases o <;> cases h <;> interp <;> simp only [iho, ihh] <;> split <;> simp [visitO]
  | .commandsubstitution _ c | .processsubstitution _ c => by
    interp; rw [visitD_eq_visit prune c]; split <;> simp
theorem visitDL_eq_visitL (prune : Node → Bool) :
    ∀ l, visitDL (genVisitor Gen.visitDispatch) prune l = (visitL prune l).map .ev
  | [] => rfl
  | n :: ns => by simp [visitDL, visitL, visitD_eq_visit prune n, visitDL_eq_visitL prune ns]
theorem visitDO_eq_visitO (prune : Node → Bool) :
    ∀ o, visitDO (genVisitor Gen.visitDispatch) prune o = (visitO prune o).map .ev
  | none => rfl
  | some n => by simp [visitDO, visitO, visitD_eq_visit prune n]
end

/-- **the visitor generated from `ast.py` is the hand-written model**, for all trees and all prune
    predicates (the events of `visit`, each wrapped in `EvT.ev`: in particular no error event) -/
theorem visitT_eq_visit (prune : Node → Bool) (n : Node) :
    visitT Gen.visitDispatch prune n = (visit prune n).map .ev :=
  visitD_eq_visit prune n

theorem evs_map_ev : ∀ l : List Ev, EvT.evs (l.map .ev) = l
  | [] => rfl
  | e :: l => by simp [EvT.evs, evs_map_ev l]

/-- the callback events of the generated visitor are those of `visit` -/
theorem visitT_evs (prune : Node → Bool) (n : Node) :
    EvT.evs (visitT Gen.visitDispatch prune n) = visit prune n := by
  rw [visitT_eq_visit, evs_map_ev]

/-- **the generated visitor never fails**: no unknown kind, no unknown attribute, no ill-typed
    traversal step, on any tree -/
theorem visitT_no_error (prune : Node → Bool) (n : Node) :
    ∀ e ∈ visitT Gen.visitDispatch prune n, e.isError = false := by
  rw [visitT_eq_visit]
  intro e he
  obtain ⟨e', _, rfl⟩ := List.mem_map.1 he
  rfl

/-- **C15 for the generated visitor** -/
theorem C15_gen (prune : Node → Bool) (n : Node) :
    enters (EvT.evs (visitT Gen.visitDispatch prune n)) = reached prune n ∧
    enters (EvT.evs (visitT Gen.visitDispatch (fun _ => false) n)) = n.preorder ∧
    (∀ d, depthAfter (EvT.evs (visitT Gen.visitDispatch prune n)) d = some d) ∧
    (∀ e ∈ visitT Gen.visitDispatch prune n, e.isError = false) := by
  rw [visitT_evs, visitT_evs]
  exact ⟨(C15 prune n).1, (C15 prune n).2.1, (C15 prune n).2.2, visitT_no_error prune n⟩

/-! ### the interpreter is sensitive to the table (kernel-checked on one tree)

  Each edit of the generated table below is an edit of `ast.py` the generator would translate (or the
  table a wrong generator could have produced); the interpreter shows it as a different trace or as
  an error event.  After an error event the interpreter goes on (Python would unwind): an error
  anywhere in the trace means "this run fails". -/

/-- `{ a; } >f <<E`-like: a compound with a list and a redirect holding a word and a body -/
def exTree : Node :=
  .compound (0, 9) [.reservedword (0, 1) ['{'], .command (2, 3) [.word (2, 3) ['a'] []]]
    [.redirect (5, 9) .none ['>'] (some (.word (6, 7) ['f'] [.parameter (6, 7) ['x']])) .none
      (some (.heredoc (8, 9) ['h'])) none]

/-- a trace, abstracted to strings the kernel compares -/
def sketch (l : List EvT) : List String :=
  l.map fun
    | .ev (.enter n) => "E" ++ n.kind
    | .ev (.call n fs) => "C" ++ n.kind ++ toString fs.length
    | .ev (.leave n) => "L" ++ n.kind
    | .error w => "!" ++ w

/-- edit the arm(s) that handle `kind` -/
def editArm (kind : String) (f : Arm → Arm) (t : List Arm) : List Arm :=
  t.map fun arm => if arm.1.contains kind then f arm else arm

example : sketch (visitT Gen.visitDispatch (fun _ => false) exTree) =
    ["Ecompound", "Ccompound2", "Ereservedword", "Creservedword1", "Lreservedword", "Ecommand",
     "Ccommand1", "Eword", "Cword1", "Lword", "Lcommand", "Eredirect", "Credirect4", "Eword", "Cword1",
     "Eparameter", "Cparameter1", "Lparameter", "Lword", "Eheredoc", "Cheredoc1", "Lheredoc",
     "Lredirect", "Lcompound"] := by decide

/-- pruning at the redirect skips exactly its subtree -/
example : sketch (visitT Gen.visitDispatch (fun n => n.kind == "redirect") exTree) =
    ["Ecompound", "Ccompound2", "Ereservedword", "Creservedword1", "Lreservedword", "Ecommand",
     "Ccommand1", "Eword", "Cword1", "Lword", "Lcommand", "Eredirect", "Credirect4", "Lredirect",
     "Lcompound"] := by decide

/-- the two loops of the `compound` arm swapped: redirects before the list -/
example : sketch (visitT (editArm "compound" (fun a => (a.1, a.2.1, a.2.2.1, a.2.2.2.reverse))
      Gen.visitDispatch) (fun _ => false) exTree) =
    ["Ecompound", "Ccompound2", "Eredirect", "Credirect4", "Eword", "Cword1", "Eparameter",
     "Cparameter1", "Lparameter", "Lword", "Eheredoc", "Cheredoc1", "Lheredoc", "Lredirect",
     "Ereservedword", "Creservedword1", "Lreservedword", "Ecommand", "Ccommand1", "Eword", "Cword1",
     "Lword", "Lcommand", "Lcompound"] := by decide

/-- the `redirect` arm removed: unknown kind -/
example : sketch (visitT (Gen.visitDispatch.filter (fun a => !a.1.contains "redirect")) (fun _ => false)
      exTree) =
    ["Ecompound", "Ccompound2", "Ereservedword", "Creservedword1", "Lreservedword", "Ecommand",
     "Ccommand1", "Eword", "Cword1", "Lword", "Lcommand", "!unknown node kind redirect",
     "Lcompound"] := by decide

/-- a callback argument that is not an attribute of the kind -/
example : (sketch (visitT (editArm "reservedword" (fun a => (a.1, ["value"], a.2.2.1, a.2.2.2))
      Gen.visitDispatch) (fun _ => false) exTree)).contains
    "!unknown attribute among the callback arguments of reservedword" = true := by decide

/-- `self.visit(n.parts)` instead of the loop -/
example : (sketch (visitT (editArm "command" (fun a => (a.1, a.2.1, a.2.2.1, [("one", "parts")]))
      Gen.visitDispatch) (fun _ => false) exTree)).contains "!visit of a non-node parts" = true := by
  decide

/-- `if n.type: self.visit(n.type)` -/
example : (sketch (visitT (editArm "redirect" (fun a => (a.1, a.2.1, a.2.2.1, [("iftrue", "type")]))
      Gen.visitDispatch) (fun _ => false) exTree)).contains "!visit of a non-node type" = true := by
  decide

/-- the guard of the `compound` arm removed: a pruned compound is traversed all the same -/
example : (sketch (visitT Gen.visitDispatch (fun n => n.kind == "compound") exTree)).length = 3 ∧
    (sketch (visitT (editArm "compound" (fun a => (a.1, a.2.1, false, a.2.2.2)) Gen.visitDispatch)
      (fun n => n.kind == "compound") exTree)).length = 24 := by decide

end Bashlex.Props
