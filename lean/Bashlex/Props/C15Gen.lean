/-
  C15 by translation.  `tools/extract.py` (`gen_kinds`) translates `nodevisitor.visit` /
  `_visitnode` (ast.py) into the table `Gen.visitDispatch` (+ `Gen.visitEnterFirst`,
  `Gen.visitLeaveLast`, `Gen.visitElseRaises`, `Gen.visitorSubclasses`); it raises on any statement
  shape it does not know.
  * `C15Gen/Visit.lean`: a visitor that interprets such a table (`visitD`/`visitT`, generic equation
    `visitD_unfold`), and `visitT_eq_visit`: on the generated table it is the hand-written `visit`
    of `Model/Visitor.lean` for all trees and prune predicates; `C15_gen` = `Props.C15` for it.
  * `C15Gen/Pos.lean`: the same interpreter read as "what a `visitnode`-only visitor touches";
    `mapT_eq`: the generated span rewriter is `Node.mapPos` (rewrites that may fail: defined iff defined on
    every span of the pre-order); `posshifter_eq_shift`, `adjustpositions_gen`; `subclasses_ok`.
  * `C15Gen/Finder.lean`: `endfinder_gen`: `parser._endfinder` over the generated visitor is
    `Node.lastHeredocEnd`.
-/
import Bashlex.Props.C15Gen.Visit
import Bashlex.Props.C15Gen.Pos
import Bashlex.Props.C15Gen.Finder

namespace Bashlex.Props

#print axioms visitD_unfold
#print axioms visitT_eq_visit
#print axioms visitT_evs
#print axioms visitT_no_error
#print axioms C15_gen
#print axioms mapT_eq
#print axioms mapT_total
#print axioms posshifter_eq_shift
#print axioms mapT_assertShift
#print axioms adjustpositions_gen
#print axioms mapTs_assertShift
#print axioms subclasses_ok
#print axioms calls_visit
#print axioms endfinder_gen

end Bashlex.Props
