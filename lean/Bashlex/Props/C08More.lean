/-
  C08, second round (`C08More`): more all-length rejection families, and the text-level form of
  `C08_accept_derivable`.

  RUNNING LOG
  -----------
  DONE, building (no sorry, no new axiom):
  * C08/Balance.lean  -- `valid_weight`, `balance_ok` (kernel-decided on the grammar),
    `sentence_balanced`, **`C08_unclosed_never_accepted`**: every sentence has #`(` ≤ #`)`,
    #`{` = #`}`, #`if` = #`fi`, #`case` = #`esac`, #`do` = #`done`, #`[[` = #`]]`,
    #`if`+#`elif` = #`then`, #`while`+#`until` ≤ #`do`, #`case` ≤ #`in`; so a token stream that
    meets `$end` with an opener unclosed is never accepted (any token source, all lengths).
  * C08/Adjacent.lean -- FIRST/LAST/nullable certificates checked by the kernel (`cert_ok`),
    `valid_noBad`, **`C08_adjacent_never_accepted`**: no accepted stream holds two ADJACENT
    control operators of `badPairs` (`& ;`, `& &`, `; |`, `&& ;`, `| |` … 32 pairs), wherever
    they stand -- covers the pairs on which the engine reduces first.  `; ;`, `; &`, `; &&`,
    `; ||` are NOT in the list: the grammar derives them adjacent (FIRST/LAST computation), so
    their rejection in `a; ;` is context-dependent and not proved.
  * C08/MoreCor.lean  -- `RunSentence.clean`, **`C08_parts_clean`** (both facts for every part of `parse`).
  * C08/TextCond.lean -- `shift_inj`, `LogLink` (HYPOTHESIS), `RunText`, `PartsText`,
    **`C08_accept_text_conditional`**: `C05_final` and `C08_accept_derivable` zipped run by run.
  * C08/TextGen.lean -- `Trigger`, `unterminated_trigger`: the text-level chain of `Text.lean`,
    generic in what opens the unterminated construct.
  * C08/Brace.lean -- `br_scan`, `trigger_brace`, **`C08_unterminated_brace`**: `w${u` with `u`
    free of `} { \ $`, quotes and the `dolbrace` operator characters raises "… matching '}'".
  * C08/Arith.lean -- `ar_scan`, `run_parseComsub_paren`, `trigger_arith`,
    **`C08_unterminated_arith`**: `w$((u` with `u` free of `) \ $` and quotes (any number of `(`)
    raises "… matching ')'" (`_parse_comsub` hands `$((` over to `_parse_matched_pair`).
  OPEN: `LogLink` itself (see the header of TextCond.lean for what it needs); the general `$(…`
        (the reserved-word / here-document state machine of `_parse_comsub`: `csB` peeks the
        tape, `csC` compares the last word with `case`/`esac`/`do`; only `csA_eof` is proved);
        `a; ;` (context-dependent, see Adjacent.lean).
-/
import Bashlex.Props.C08
import Bashlex.Props.C08.Balance
import Bashlex.Props.C08.Adjacent
import Bashlex.Props.C08.TextCond
import Bashlex.Props.C08.TextGen
import Bashlex.Props.C08.Brace
import Bashlex.Props.C08.Arith
import Bashlex.Props.C08.MoreCor

#print axioms Bashlex.C08.balance_ok
#print axioms Bashlex.C08.sentence_balanced
#print axioms Bashlex.C08.C08_unclosed_never_accepted
#print axioms Bashlex.C08.cert_ok
#print axioms Bashlex.C08.valid_noBad
#print axioms Bashlex.C08.C08_adjacent_never_accepted
#print axioms Bashlex.C08.shift_inj
#print axioms Bashlex.C08.C08_accept_text_conditional
#print axioms Bashlex.C08.unterminated_trigger
#print axioms Bashlex.C08.C08_unterminated_brace
#print axioms Bashlex.C08.C08_unterminated_arith
#print axioms Bashlex.C08.C08_parts_clean
