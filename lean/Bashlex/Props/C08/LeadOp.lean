/-
  C08, parts 2/3 linked at text level, generic in the leading operator character:
  `leading_op`: if `_readtokenMeta c` delivers, from the state in which `_readtoken` has read a
  leading `c`, only token types of a list `tys` on which state 0 of the real tables has no action,
  then every input `c :: u` is rejected with `ParsingError("unexpected token …", s, 0)`.
  Instance: **`C08_leading_bar`** -- an input that starts with `|` is rejected, whatever follows
  (the token is `||`, `|&` or `|` according to the next character).
  (`C08_leading_rparen` in `RParen.lean` is the instance `)`, proved there directly.)
-/
import Bashlex.Props.C08.RParen

namespace Bashlex.C08
open Bashlex Bashlex.M Bashlex.C10
set_option linter.unusedSimpArgs false
set_option linter.unusedVariables false

/-- `_getc` at the top level inside a line that does not end in a backslash: succeeds, changes
    nothing but the cursor, which does not move back -/
theorem getc_top (l : Local) (e : Env) (ht : l.tape = none) (heol : l.eolLookahead = none)
    (hlt : e.tape.idx ≤ e.tape.line.length) (hbs : NoFinalBackslash e.tape.line) :
    ∃ p e1, M.run (getc true) l e = (.ok (p, l), e1) ∧
      e1.tape.line = e.tape.line ∧ e1.tape.added = e.tape.added ∧ e.tape.idx ≤ e1.tape.idx ∧
      e1.tape.idx ≤ e1.tape.line.length := by
  have hT : tapeOf l e = e.tape := tapeOf_top' ht e
  have hspec := tape_getc_spec (e.tape.line.length + 1) e.tape hlt (by omega)
  have hsome := getcS_isSome (e.tape.line.drop e.tape.idx) (hbs.drop _)
  cases hg : getcS (e.tape.line.drop e.tape.idx) with
  | none => rw [hg] at hsome; cases hsome
  | some v =>
    obtain ⟨p, rest⟩ := v
    rw [hg] at hspec
    simp only [] at hspec
    obtain ⟨pre, hpre, _, _⟩ := getcS_suffix _ hg
    have hlen : rest.length ≤ e.tape.line.length - e.tape.idx := by
      have := congrArg List.length hpre
      simp only [List.length_drop, List.length_append] at this
      omega
    refine ⟨p, { e with tape := seek e.tape rest }, ?_, rfl, rfl, ?_, ?_⟩
    · rw [run_getc _ l e heol, hT, hspec]
      simp only [putL_top ht, putE_top ht]
    · show e.tape.idx ≤ (seek e.tape rest).idx
      simp only [seek_idx, posOf]; omega
    · show (seek e.tape rest).idx ≤ e.tape.line.length
      simp only [seek_idx, posOf]; omega

/-- an operator token at `(0, p2)` -/
def opTok (ty : TokType) (p2 : Nat) : Token :=
  { ttype := some ty, value := ty.enumValue, pos := some (0, p2), flags := [] }

/-- what `p_error` says of it -/
def opMsg (ty : TokType) : String :=
  "unexpected token " ++ (match ty.enumValue with
    | .str s => pyReprStr s
    | .int n => toString n
    | .none => "None")

/-- what `token()` needs after `_readtokenMeta` -/
structure RPost (s : Str) (l : Local) (e : Env) : Prop where
  tape : l.tape = none
  pos : l.positions = [0]
  idx : 1 ≤ e.tape.idx
  src : e.tape.source = s

theorem RPSt.post {s : Str} {l : Local} {e : Env} (h : RPSt s l e) : RPost s l e :=
  ⟨h.tape, h.pos, h.idx, h.src⟩

/-- `_readtokenMeta c`, entered right after the leading `c` was read, delivers a type of `tys` -/
def MetaOK (c : Char) (tys : List TokType) : Prop :=
  ∀ (s : Str) (l : Local) (e : Env), RPSt s l e → l.eolLookahead = none →
    e.tape.idx < e.tape.line.length → NoFinalBackslash e.tape.line →
    Returns (readtokenMeta c) l e (fun r l' e' => (∃ ty ∈ tys, r = some ty) ∧ RPost s l' e')

theorem metaOK_rparen : MetaOK ')' [.RIGHT_PAREN] := by
  intro s l e h heol hlt hbs
  obtain ⟨r, l', e', hrun, hr, hS⟩ := readtokenMeta_rparen_returns h heol hlt hbs
  exact ⟨r, l', e', hrun, ⟨_, by simp, hr⟩, hS.post⟩

/-- the first `token()` of a parser over `c :: u` delivers an operator token at position 0 -/
theorem nextToken_op {c : Char} {tys : List TokType} (hM : MetaOK c tys)
    (hc1 : c ≠ '\\') (hc2 : shellblank c = false) (hc3 : c ≠ '#') (hc4 : (c == '\n') = false)
    (hc5 : (synClass c).metac = true) (u : Str) (o : Opts) :
    Returns nextToken (initLocal o) (initEnv (c :: u) o [])
      (fun t l e => (∃ ty ∈ tys, ∃ p2, t = opTok ty p2) ∧ l.tape = none ∧
        e.tape.source = c :: u) := by
  obtain ⟨tail, hline, htail, hidx, hsrc⟩ := ofInput_facts (c :: u)
  have hbs := ofInput_noFinalBackslash (c :: u)
  have hlen : 2 ≤ (Tape.ofInput (c :: u)).line.length := by
    rw [hline]
    rcases htail with rfl | rfl
    · cases u with
      | nil =>
        exfalso
        have hcn : c ≠ '\n' := by simpa using hc4
        have h1 : (Tape.ofInput [c]).line = [c] ++ ['\n'] := by
          unfold Tape.ofInput
          simp [hcn]
        rw [h1] at hline; simp at hline
      | cons x u' => simp
    · simp
  have h0 : (Tape.ofInput (c :: u)).line[(Tape.ofInput (c :: u)).idx]? = some c := by
    rw [hidx, hline]; rfl
  unfold nextToken
  refine Returns.bindOk (C10.run_modify _ _ _) ?_
  show Returns _ (tokShift (initLocal o)) _ _
  generalize hl1 : tokShift (initLocal o) = l1
  have hI : TInv (Tape.ofInput (c :: u)) l1 (initEnv (c :: u) o []) := by
    subst hl1; exact ⟨rfl, rfl, rfl⟩
  have ht1 : l1.tape = none := by subst hl1; rfl
  have hhead := readtokenHead_char' hI h0 hc1 hc2 hc3
  rw [putL_top ht1, putE_top ht1] at hhead
  have hrt : Returns readtoken l1 (initEnv (c :: u) o [])
      (fun r l e => (∃ ty ∈ tys, r = .inl ty) ∧ RPost (c :: u) l e) := by
    rw [C10.readtoken_eq]
    refine Returns.bindOk hhead ?_
    simp only []
    unfold C10.readtokenTail
    refine Returns.bindOk (run_recordpos 1 _ _) ?_
    simp only [hc4, Bool.false_eq_true, if_false]
    refine Returns.bindOk (C10.run_get _ _) ?_
    have hre : l1.ps.regexp = false := by subst hl1; rfl
    simp only [hre, Bool.false_eq_true, if_false]
    refine Returns.bindOk (run_shellmeta c _ _) ?_
    refine Returns.bindOk (C10.run_get _ _) ?_
    have hdp : l1.ps.dblparen = false := by subst hl1; rfl
    simp only [hc5, hdp, Bool.not_false, Bool.and_self, if_true]
    have hRP : RPSt (c :: u)
        { l1 with positions := l1.positions ++
          [(tapeOf l1 { (initEnv (c :: u) o []) with
            tape := { Tape.ofInput (c :: u) with idx := (Tape.ofInput (c :: u)).idx + 1 } }).idx - 1] }
        (touch { (initEnv (c :: u) o []) with
          tape := { Tape.ofInput (c :: u) with idx := (Tape.ofInput (c :: u)).idx + 1 } } c) := by
      subst hl1
      refine ⟨rfl, ?_, rfl, rfl, rfl, rfl, rfl, ?_, ?_⟩
      · show [] ++ [(Tape.ofInput (c :: u)).idx + 1 - 1] = [0]
        rw [hidx]; rfl
      · rw [touch_tape]; show 1 ≤ (Tape.ofInput (c :: u)).idx + 1; omega
      · rw [touch_tape]; exact hsrc
    obtain ⟨r, lM, eM, hmeta, ⟨ty, hty, hr⟩, hS⟩ := hM _ _ _ hRP
      (by subst hl1; rfl)
      (by rw [touch_tape]
          show (Tape.ofInput (c :: u)).idx + 1 < (Tape.ofInput (c :: u)).line.length
          rw [hidx]; omega)
      (by rw [touch_tape]; exact hbs)
    subst hr
    refine Returns.bindOk hmeta ?_
    simp only []
    exact Returns.pure ⟨⟨ty, hty, rfl⟩, hS⟩
  obtain ⟨r, lR, eR, hrun, ⟨ty, hty, rfl⟩, hR⟩ := hrt
  refine Returns.bindOk hrun ?_
  simp only []
  refine Returns.bindOk (run_recordpos 0 _ _) ?_
  have hpos : ({ lR with positions := lR.positions ++ [(tapeOf lR eR).idx - 0] } : Local).positions =
      [0, eR.tape.idx] := by
    show lR.positions ++ [(tapeOf lR eR).idx - 0] = _
    rw [hR.pos, tapeOf_top' hR.tape]; rfl
  refine Returns.bindOk (createtoken_run _ _ _ _ hpos hR.idx) ?_
  refine Returns.bindOk (C10.run_modify _ _ _) ?_
  refine Returns.bindOk (C10.run_modify _ _ _) ?_
  exact Returns.pure ⟨⟨ty, hty, eR.tape.idx, rfl⟩, hR.tape, hR.src⟩

theorem pError_op (ty : TokType) (hty : ty ≠ .EOF) (p2 : Nat) {l : Local} (h : l.tape = none)
    (e : Env) :
    M.run (pError (opTok ty p2)) l e = (.error (mkParsingError (opMsg ty) e.tape.source 0), e) := by
  unfold pError
  rw [bindOk (run_tapeSource_top h e)]
  have h1 : (opTok ty p2).is .EOF = false := by
    unfold Token.is opTok
    simp [hty]
  simp only [h1, Bool.false_eq_true, if_false]
  rfl

/-- **leading_op** -/
theorem leading_op {c : Char} {tys : List TokType} (hM : MetaOK c tys)
    (hc1 : c ≠ '\\') (hc2 : shellblank c = false) (hc3 : c ≠ '#') (hc4 : (c == '\n') = false)
    (hc5 : (synClass c).metac = true)
    (hrej : ∀ ty ∈ tys, ty ≠ .EOF ∧ LR.realTables.action 0 ty.sym = none)
    (u : Str) (o : Opts) :
    ∃ ty ∈ tys, (parse (c :: u) o).1 = .exn (.parsing (opMsg ty) (c :: u) 0) := by
  obtain ⟨t, lN, eN, hnext, ⟨ty, hty, p2, rfl⟩, htape, hsrc⟩ := nextToken_op hM hc1 hc2 hc3 hc4 hc5 u o
  obtain ⟨hne, hact⟩ := hrej ty hty
  refine ⟨ty, hty, ?_⟩
  have hsym : symOfTok (opTok ty p2) = ty.sym := rfl
  have hsym0 : (ty.sym == LR.realTables.endTok) = false := by
    have h0 : ty.sym ≠ 0 := by unfold TokType.sym; rw [if_neg hne]; omega
    have he : LR.realTables.endTok = 0 := rfl
    rw [he]
    simpa using h0
  have hstep : Raises (mkParsingError (opMsg ty) (c :: u) 0)
      (LR.step LR.realTables (lrHooks (C07.nestedOf 63)) {}) (initLocal o)
      (initEnv (c :: u) o []) := by
    unfold LR.step
    have hd : LR.realTables.dflt (LR.topState ({} : LR.Cfg SVal).stack) = none := real_dflt0
    simp only [hd]
    have hla : M.run (lrHooks (C07.nestedOf 63)).next (initLocal o) (initEnv (c :: u) o []) =
        (.ok ((ty.sym, SVal.tok (opTok ty p2)), lN), eN) := by
      show M.run (nextToken >>= fun t => pure (symOfTok t, SVal.tok t)) _ _ = _
      rw [bindOk hnext]
      rfl
    refine Raises.bindOk hla ?_
    have hact' : LR.realTables.action (LR.topState ([] : LR.Stack SVal)) ty.sym = none := hact
    simp only [hsym0, Bool.and_false, Bool.false_and, Bool.false_eq_true, if_false, LR.topState,
      hact, hact']
    refine Raises.bindErr ?_
    show Raises _ (pError (opTok ty p2)) lN eN
    exact ⟨eN, by rw [pError_op ty hne p2 htape eN, hsrc]⟩
  obtain ⟨e', he'⟩ := Raises.loop (site := "LRParser.parse") (fuel := 1073741824) (by decide) hstep
  have htop : topRun (c :: u) o [] = (.error _, e') := he'
  have hrp := runParser_topRun (c :: u) o []
  rw [htop, ofRun_error] at hrp
  unfold parse
  rw [hrp]
  simp [mkParsingError]
  omega

/-! ### `|` -/

theorem readtokenMeta_bar : readtokenMeta '|' = (do
    modify fun l => { l with ps := { l.ps with assignok := false } }
    let peek ← getc true
    if peek = some '|' then pure (some TokType.OR_OR)
    else if peek = some '&' then pure (some TokType.BAR_AND)
    else do
      ungetc peek
      pure (some TokType.BAR)) := by
  unfold readtokenMeta
  simp
  rfl

theorem metaOK_bar : MetaOK '|' [.OR_OR, .BAR_AND, .BAR] := by
  intro s l e h heol hlt hbs
  rw [readtokenMeta_bar]
  refine Returns.bindOk (C10.run_modify _ _ _) ?_
  obtain ⟨p, e1, l', e', hget, hunget, hl', hline, hadded, hidx⟩ :=
    peek_unget_top { l with ps := { l.ps with assignok := false } } e h.tape heol h.idx hlt hbs
  obtain ⟨p', e1', hget', hline1, hadded1, hidx1, _⟩ :=
    getc_top { l with ps := { l.ps with assignok := false } } e h.tape heol (Nat.le_of_lt hlt) hbs
  have hpp : p' = p ∧ e1' = e1 := by
    rw [hget] at hget'
    simp only [Prod.mk.injEq, Except.ok.injEq] at hget'
    exact ⟨hget'.1.1.symm, hget'.2.symm⟩
  obtain ⟨rfl, rfl⟩ := hpp
  refine Returns.bindOk hget ?_
  have hS1 : RPSt s { l with ps := { l.ps with assignok := false } } e1' :=
    ⟨h.tape, h.pos, h.lrt, h.casepat, h.subshell, h.regexp, h.dblparen,
      Nat.le_trans h.idx hidx1, by rw [← h.src]; unfold Tape.source; rw [hline1, hadded1]⟩
  by_cases h1 : p' = some '|'
  · simp only [h1, if_true]
    exact Returns.pure ⟨⟨_, by simp, rfl⟩, hS1.post⟩
  · simp only [h1, if_false]
    by_cases h2 : p' = some '&'
    · simp only [h2, if_true]
      exact Returns.pure ⟨⟨_, by simp, rfl⟩, hS1.post⟩
    · simp only [h2, if_false]
      refine Returns.bindOk hunget ?_
      have hsrc : e'.tape.source = s := by
        rw [← h.src]; unfold Tape.source; rw [hline, hadded]
      have hS2 : RPSt s l' e' := by
        rcases hl' with rfl | rfl
        · exact ⟨h.tape, h.pos, h.lrt, h.casepat, h.subshell, h.regexp, h.dblparen, hidx, hsrc⟩
        · exact ⟨h.tape, h.pos, h.lrt, h.casepat, h.subshell, h.regexp, h.dblparen, hidx, hsrc⟩
      exact Returns.pure ⟨⟨_, by simp, rfl⟩, hS2.post⟩

theorem bar_rejected : ∀ ty ∈ [TokType.OR_OR, TokType.BAR_AND, TokType.BAR],
    ty ≠ .EOF ∧ LR.realTables.action 0 ty.sym = none := by
  decide +kernel

/-- **C08_leading_bar** (all lengths, all options): an input that starts with `|` is rejected
    with "unexpected token '||'", "'|&'" or "'|'" at position 0, whatever follows -/
theorem C08_leading_bar (u : Str) (o : Opts) :
    ∃ ty ∈ [TokType.OR_OR, TokType.BAR_AND, TokType.BAR],
      (parse ('|' :: u) o).1 = .exn (.parsing (opMsg ty) ('|' :: u) 0) :=
  leading_op metaOK_bar (by decide) (by decide) (by decide) (by decide) (by decide) bar_rejected u o

end Bashlex.C08
