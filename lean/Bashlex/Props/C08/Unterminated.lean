/-
  C08, part 2: unbalanced quotes / parentheses / `${` are rejected.

  A. every scanner (`_parse_matched_pair`, `_parse_comsub`):
     * `sat_matchedPairError`: the error function of the scanners always raises the ParsingError
       "unexpected EOF while looking for matching …" (`IsEOFMatching`);
     * `mpPre_eof`, `csA_eof`: in ANY state, an iteration whose `_getc` returns `None` (end of
       input) IS that error -- whatever the quoting state, nesting, comment or here-document mode;
     * `loop_raises`: an exception of an iteration is the exception of the loop;
     * `parseMatchedPair_closes`: a normal return of `_parse_matched_pair` has read its closing
       character (the returned text ends with it): without a closer there is no normal return.
  B. the single-quote scanner, state-aware, for ALL lengths (`sq_scan`): from any state (top-level
     or nested parser) whose unread tape `u` holds no `'`, the scanner raises exactly
     `unexpected EOF while looking for matching "'"` at the end of the input.
-/
import Bashlex.Props.C04.TTScanMP
import Bashlex.Props.C04.TTScanCS
import Bashlex.Props.C10.Tape
import Bashlex.Props.C01.Basic

namespace Bashlex.C08
open Bashlex Bashlex.M Bashlex.C10
set_option linter.unusedSimpArgs false
set_option linter.unusedVariables false

/-! ## A. all scanners -/

/-- the message of `MatchedPairError` -/
def eofMsg (close : Char) : String :=
  s!"unexpected EOF while looking for matching {if close == '\'' then "\"'\"" else "'" ++ String.singleton close ++ "'"}"

/-- the ParsingError of an unterminated construct (or, were its position beyond the source, the
    assertion of `ParsingError.__init__` -- excluded by `C11`'s `no_init_assert`) -/
def IsEOFMatching (close : Char) (x : Exn) : Prop :=
  ∃ src p, x = mkParsingError (eofMsg close) src p

theorem matchedPairError_run {α : Type} (close : Char) (l : Local) (e : Env) :
    M.run (matchedPairError close : M α) l e =
      (.error (mkParsingError (eofMsg close) (tapeOf l e).source (((tapeOf l e).idx : Int) - 1)), e) := by
  cases l with
  | mk tape =>
    cases tape <;> rfl

theorem sat_matchedPairError {α : Type} (close : Char) :
    Sat (matchedPairError close : M α) (fun _ => False) (IsEOFMatching close) := by
  intro l e
  rw [matchedPairError_run]
  exact ⟨_, _, rfl⟩

/-- **end of input inside `_parse_matched_pair`**: in any state, if the `_getc` of the iteration
    returns `None`, the iteration raises the unexpected-EOF error -/
theorem mpPre_eof (P : MPParams) (lfc : Bool) (st : MPState) {l l' : Local} {e e' : Env}
    (h : M.run (getc (P.doublequotes != some '\'' && !st.passnextchar)) l e = (.ok (none, l'), e')) :
    M.run (mpPre P lfc st) l e =
      (.error (mkParsingError (eofMsg P.close) (tapeOf l' e').source (((tapeOf l' e').idx : Int) - 1)), e') := by
  rw [C04.TTP.mpPre_eq, M.run_bind, h]
  simp only []
  rw [M.run_bind, matchedPairError_run]

/-- **end of input inside `_parse_comsub`** -/
theorem csA_eof (P : CSParams) (st : CSState) {l l' : Local} {e e' : Env}
    (h : M.run (getc (P.doublequotes != some '\'' && !st.insidecomment && !st.passnextchar)) l e =
      (.ok (none, l'), e')) :
    M.run (csA P st) l e =
      (.error (mkParsingError (eofMsg P.close) (tapeOf l' e').source (((tapeOf l' e').idx : Int) - 1)), e') := by
  unfold csA
  rw [M.run_bind, h]
  simp only []
  rw [M.run_bind, matchedPairError_run]

/-- an exception of an iteration is the exception of the loop -/
theorem loop_raises {σ α : Type} (site : String) (body : σ → M (σ ⊕ α)) (fuel : Nat) (s : σ)
    {l : Local} {e e' : Env} {x : Exn} (h : M.run (body s) l e = (.error x, e')) :
    M.run (M.loop site body (fuel + 1) s) l e = (.error x, e') := by
  rw [run_loop_succ, h]

/-- `mpPost` does not touch the nesting count -/
theorem mpPost_count (pmp : MPParams → M Str) (pcs : CSParams → M Str) (P : MPParams)
    (rdquote : Bool) (st : MPState) (c : Char) :
    Sat (mpPost pmp pcs P rdquote st c) (fun s' => s'.count = st.count) := by
  unfold mpPost
  simp only []
  sat_auto
  all_goals rfl

theorem sat_mpPre (P : MPParams) (lfc : Bool) (st : MPState) :
    Sat (mpPre P lfc st) (fun r => ∃ c, C04.TTP.MPreR P st c r) := by
  rw [C04.TTP.mpPre_eq]
  refine Sat.bind_any (fun c0 => ?_)
  cases c0 with
  | none =>
    show Sat (matchedPairError P.close >>= fun c => C04.TTP.mpHead P lfc st c) _
    exact Sat.bind_any (fun c =>
      (C04.TTP.sat_mpHead P lfc st c).weaken (fun r hr => ⟨c, hr⟩) (fun _ h => h))
  | some c0 =>
    show Sat (pure c0 >>= fun c => C04.TTP.mpHead P lfc st c) _
    exact Sat.bind_any (fun c =>
      (C04.TTP.sat_mpHead P lfc st c).weaken (fun r hr => ⟨c, hr⟩) (fun _ h => h))

/-- **a normal return of `_parse_matched_pair` has read its closing character** -/
theorem parseMatchedPair_closes : ∀ (fuel : Nat) (P : MPParams),
    Sat (parseMatchedPair fuel P) (fun r => r.getLast? = some P.close) := by
  intro fuel P
  cases fuel with
  | zero => exact Sat.raise trivial
  | succ fuel =>
    unfold parseMatchedPair
    refine Sat.bind_any (fun lr => ?_)
    obtain ⟨lfc, rdq⟩ := lr
    simp only []
    refine Sat.bind_any (fun lf => ?_)
    refine Sat.loop (I := fun st => st.count ≠ 0) trivial ?_ lf _ (by simp)
    intro st hst
    have hc : (st.count == 0) = false := by simpa using hst
    simp only [hc, Bool.false_eq_true, if_false]
    refine Sat.bind (sat_mpPre P lfc st) ?_
    rintro r ⟨c, hr⟩
    cases r with
    | cont s => exact Sat.pure (hr.2 hst)
    | done r =>
      refine Sat.pure ?_
      show r.getLast? = some P.close
      rw [hr.1, hr.2 hst]; simp
    | next s c' =>
      refine Sat.bind ((mpPost_count _ _ P rdq s c').weaken (fun _ h => h) (fun _ _ => trivial)) ?_
      intro s' hs'
      refine Sat.pure ?_
      show s'.count ≠ 0
      rw [hs']; exact hr.2.2 hst

/-! ## B. the single-quote scanner, all lengths -/

/-- the parameters `handleshellquote` passes for `'` -/
def sqParams : MPParams :=
  { doublequotes := some '\'', opn := '\'', close := '\'', parsingcommand := false }

theorem tape_getc_false (t : Tape) (c : Char) (h : t.line[t.idx]? = some c) (fuel : Nat) :
    t.getc false (fuel + 1) = .ok (some c, { t with idx := t.idx + 1 }) := by
  have hlt : t.idx < t.line.length := by
    rcases Nat.lt_or_ge t.idx t.line.length with h' | h'
    · exact h'
    · rw [List.getElem?_eq_none h'] at h; cases h
  have h' : t.line[t.idx] = c := by
    rw [List.getElem?_eq_getElem hlt] at h; exact Option.some.inj h
  unfold Tape.getc
  simp [hlt, h']

theorem tape_getc_end (t : Tape) (rqn : Bool) (h : t.line.length ≤ t.idx) (fuel : Nat) :
    t.getc rqn fuel = .ok (none, t) := by
  cases fuel with
  | zero => rfl
  | succ fuel =>
    unfold Tape.getc
    simp [Nat.not_lt.mpr h]

/-- one iteration of the `'…'` scanner on a character that is not `'` -/
theorem mpHead_sq (st : MPState) (c : Char) (hc : c ≠ '\'') (h1 : st.insidecomment = false)
    (h2 : st.passnextchar = false) (h3 : st.count = 1) :
    C04.TTP.mpHead sqParams false st c = pure (.cont { st with ret := st.ret ++ [c] }) := by
  have hc' : (c == '\'') = false := by simpa using hc
  unfold C04.TTP.mpHead
  simp [sqParams, h1, h2, h3, hc']

/-- the loop body of `parseMatchedPair (fuel + 1) sqParams` -/
def sqBody (fuel : Nat) (st : MPState) : M (MPState ⊕ Str) := do
  if st.count == 0 then return .inr st.ret
  match ← mpPre sqParams false st with
  | .cont s => return .inl s
  | .done r => return .inr r
  | .next s c =>
    let s' ← mpPost (parseMatchedPair fuel) (parseComsub fuel) sqParams false s c
    return .inl s'

theorem parseMatchedPair_sq (fuel : Nat) :
    parseMatchedPair (fuel + 1) sqParams =
      (do let lf ← loopFuel; M.loop "_parse_matched_pair" (sqBody fuel) lf {}) := by
  unfold parseMatchedPair mpInit sqBody
  simp [sqParams]
  congr

theorem putL_eol (l : Local) (t : Tape) : (putL l t).eolLookahead = l.eolLookahead := by
  unfold putL; split <;> rfl

/-- the iteration at end of input -/
theorem sqBody_eof (dfuel : Nat) (st : MPState) (l : Local) (e : Env)
    (hl : l.eolLookahead = none) (hend : (tapeOf l e).line.length ≤ (tapeOf l e).idx)
    (h3 : st.count = 1) :
    M.run (sqBody dfuel st) l e =
      (.error (mkParsingError (eofMsg '\'') (tapeOf l e).source (((tapeOf l e).idx : Int) - 1)), e) := by
  have hg : M.run (getc (sqParams.doublequotes != some '\'' && !st.passnextchar)) l e =
      (.ok (none, l), e) := by
    rw [run_getc _ l e hl, tape_getc_end _ _ hend]
    simp only [putL_self, putE_self]
  unfold sqBody
  have hc : (st.count == 0) = false := by rw [h3]; rfl
  simp only [hc, Bool.false_eq_true, if_false]
  rw [M.run_bind, mpPre_eof sqParams false st hg]
  rfl

/-- the iteration on a character that is not `'` -/
theorem sqBody_step (dfuel : Nat) (st : MPState) (l : Local) (e : Env) (c : Char)
    (hl : l.eolLookahead = none) (hc : (tapeOf l e).line[(tapeOf l e).idx]? = some c)
    (hne : c ≠ '\'') (h1 : st.insidecomment = false) (h2 : st.passnextchar = false)
    (h3 : st.count = 1) :
    M.run (sqBody dfuel st) l e =
      (.ok (.inl { st with ret := st.ret ++ [c] },
            putL l { tapeOf l e with idx := (tapeOf l e).idx + 1 }),
       putE l e { tapeOf l e with idx := (tapeOf l e).idx + 1 }) := by
  have hg : M.run (getc (sqParams.doublequotes != some '\'' && !st.passnextchar)) l e =
      (.ok (some c, putL l { tapeOf l e with idx := (tapeOf l e).idx + 1 }),
       putE l e { tapeOf l e with idx := (tapeOf l e).idx + 1 }) := by
    have hr : (sqParams.doublequotes != some '\'' && !st.passnextchar) = false := by
      simp [sqParams]
    rw [hr, run_getc _ l e hl, tape_getc_false _ c hc]
  unfold sqBody
  have hc0 : (st.count == 0) = false := by rw [h3]; rfl
  simp only [hc0, Bool.false_eq_true, if_false]
  rw [M.run_bind, C04.TTP.mpPre_eq, M.run_bind, hg]
  simp only []
  rw [M.run_bind, M.run_pure]
  simp only []
  rw [mpHead_sq st c hne h1 h2 h3, M.run_pure]
  simp only []
  rw [M.run_pure]

/-- **the `'…'` scanner on a tape without `'`**: for every length, from every state (top-level or
    nested parser), it raises the unexpected-EOF error at the end of the input (or runs out of
    the loop fuel when the rest is longer than the fuel) -/
theorem sq_scan (dfuel : Nat) : ∀ (u : Str) (fuel : Nat) (st : MPState) (l : Local) (e : Env),
    l.eolLookahead = none → (tapeOf l e).idx ≤ (tapeOf l e).line.length →
    (tapeOf l e).line.drop (tapeOf l e).idx = u → '\'' ∉ u →
    st.insidecomment = false → st.passnextchar = false → st.count = 1 →
    ∃ e', M.run (M.loop "_parse_matched_pair" (sqBody dfuel) fuel st) l e =
      (.error (if u.length < fuel then
          mkParsingError (eofMsg '\'') (tapeOf l e).source (((tapeOf l e).line.length : Int) - 1)
        else .outOfFuel "_parse_matched_pair"), e') := by
  intro u
  induction u with
  | nil =>
    intro fuel st l e hl hle hu _ h1 h2 h3
    cases fuel with
    | zero => exact ⟨e, by rw [run_loop_zero]; simp⟩
    | succ fuel =>
      have hend : (tapeOf l e).line.length ≤ (tapeOf l e).idx := by
        have := congrArg List.length hu
        simp only [List.length_drop, List.length_nil] at this
        omega
      have hidx : (tapeOf l e).idx = (tapeOf l e).line.length := by omega
      refine ⟨e, ?_⟩
      rw [loop_raises _ _ _ _ (sqBody_eof dfuel st l e hl hend h3), hidx]
      simp
  | cons c u ih =>
    intro fuel st l e hl hle hu hq h1 h2 h3
    cases fuel with
    | zero => exact ⟨e, by rw [run_loop_zero]; simp⟩
    | succ fuel =>
      have hlt : (tapeOf l e).idx < (tapeOf l e).line.length := by
        have := congrArg List.length hu
        simp only [List.length_drop, List.length_cons] at this
        omega
      have hc : (tapeOf l e).line[(tapeOf l e).idx]? = some c := by
        rw [← List.head?_drop, hu]; rfl
      have hne : c ≠ '\'' := fun h => hq (by rw [h]; exact List.mem_cons_self)
      have hq' : '\'' ∉ u := fun h => hq (List.mem_cons_of_mem _ h)
      have hstep := sqBody_step dfuel st l e c hl hc hne h1 h2 h3
      have htape : tapeOf (putL l { tapeOf l e with idx := (tapeOf l e).idx + 1 })
          (putE l e { tapeOf l e with idx := (tapeOf l e).idx + 1 }) =
          { tapeOf l e with idx := (tapeOf l e).idx + 1 } := tapeOf_put _ _ _
      obtain ⟨e', he'⟩ := ih fuel { st with ret := st.ret ++ [c] }
        (putL l { tapeOf l e with idx := (tapeOf l e).idx + 1 })
        (putE l e { tapeOf l e with idx := (tapeOf l e).idx + 1 })
        (by rw [putL_eol]; exact hl)
        (by rw [htape]; exact hlt)
        (by
          rw [htape]
          show (tapeOf l e).line.drop ((tapeOf l e).idx + 1) = u
          rw [← List.drop_drop, hu]; rfl)
        hq' h1 h2 h3
      refine ⟨e', ?_⟩
      rw [run_loop_succ, hstep]
      simp only []
      rw [he', htape]
      simp only [List.length_cons, Nat.add_lt_add_iff_right]
      rfl

/-- **the scanner itself**: `_parse_matched_pair` called for `'` (by `handleshellquote`) on a
    rest `u` of the input that holds no `'` raises the unexpected-EOF ParsingError, whatever the
    length of `u` (below the constant loop fuel 2^30) -/
theorem parseMatchedPair_sq_raises (dfuel : Nat) (u : Str) (l : Local) (e : Env)
    (hl : l.eolLookahead = none) (hle : (tapeOf l e).idx ≤ (tapeOf l e).line.length)
    (hu : (tapeOf l e).line.drop (tapeOf l e).idx = u) (hq : '\'' ∉ u)
    (hlen : u.length < 1073741824) :
    ∃ e', M.run (parseMatchedPair (dfuel + 1) sqParams) l e =
      (.error (mkParsingError (eofMsg '\'') (tapeOf l e).source
        (((tapeOf l e).line.length : Int) - 1)), e') := by
  obtain ⟨e', he'⟩ := sq_scan dfuel u 1073741824 {} l e hl hle hu hq rfl rfl rfl
  refine ⟨e', ?_⟩
  rw [parseMatchedPair_sq]
  have hf : (loopFuel : M Nat) = pure 1073741824 := rfl
  rw [hf, pure_bind, he', if_pos hlen]

end Bashlex.C08
