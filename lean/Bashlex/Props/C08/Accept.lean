/-
  C08, part 1: no prefix acceptance / every token accounted for.

  `engine_good`: for the real tables, the real semantic actions, every nested parser and every
  token source, a normal return of the LR engine is either the all-NEWLINE return (everything
  consumed is NEWLINE) or an accepted derivation tree that is valid for the declared grammar, is
  rooted at `inputunit`/`simple_list`, and whose yield is EXACTLY what the engine consumed after
  the leading NEWLINEs (`C09_exact` + `run_sound_acc`).

  `runParser_topRun`: one top-level `_parser(s).parse()` is that engine run (`topRun`) from the
  initial state; `RunSentence` / `RunStops` say what the run was when it returned a node / no node.

  `C08_accept_derivable`: if `parse s o` returns parts, then the parts are the results of
  successive engine runs, each one a sentence (`Tiling`): run 0 starts at index 0, run i+1 starts
  at `max (nextIndex part_i) (start_i + 1)`, and after the last part either the restart index is
  at or beyond the end of the input, or the run on the rest consumed nothing that is not accounted
  for (only NEWLINE tokens, then `$end`; or a sentence that carries no node).  So `parse` never
  returns a tree for a proper prefix of the token sequence while ignoring the rest: a rest that
  is not itself a concatenation of sentences makes the whole call raise (`C08_rest_rejected`).
-/
import Bashlex.Props.C09
import Bashlex.LR.SoundAcc
import Bashlex.Props.C07.Nested
import Bashlex.Props.C13.Loop

namespace Bashlex.C08
open Bashlex Bashlex.M Bashlex.LR
set_option linter.unusedSimpArgs false
set_option linter.unusedVariables false

/-! ### the engine -/

/-- `c` is a run of NEWLINEs followed by a sentence of the declared grammar: the yield of a valid
    derivation tree rooted at `inputunit` (or `simple_list`) -/
def Sentence (c : List Nat) : Prop :=
  ∃ tr pre, Tree.Valid realTables tr ∧ tr.root ∈ acceptSyms ∧ c = pre ++ tr.yield ∧
    pre.all (· == realTables.nlTok) = true

/-- what a normal return of the engine is -/
def EngineGood : Res SVal → Prop
  | .accepted _ tr c _ => Tree.Valid realTables tr ∧ tr.root ∈ acceptSyms ∧
      ∃ pre, c = pre ++ tr.yield ∧ pre.all (· == realTables.nlTok) = true
  | .blank _ c => c.all (· == realTables.nlTok) = true

theorem EngineGood.sentence {v : SVal} {tr : Tree} {c : List Nat} {b : Bool}
    (h : EngineGood (.accepted v tr c b)) : Sentence c := by
  obtain ⟨h1, h2, pre, h3, h4⟩ := h
  exact ⟨tr, pre, h1, h2, h3, h4⟩

theorem acceptIn_ok : realRaw.checkAccept (fun s => acceptSyms.contains s) = true := by
  decide +kernel

theorem accept_in : ∀ s la, s ∈ realRaw.reach → realTables.action s la = some .accept →
    realRaw.accOf s ∈ acceptSyms := by
  intro s la hs ha
  have := Raw.checkAccept_sound acceptIn_ok s la hs ha
  simpa using this

/-- **the engine with the real tables and actions, every token source, every nested parser** -/
theorem engine_good (np : NestedParse) (next : M (Nat × SVal)) (fuel : Nat) :
    Sat (LR.run realTables { (lrHooks np) with next := next } fuel) EngineGood (fun _ => True) := by
  have h1 := Props.C09_exact np next fuel
  have hH : HooksAcc realTables { (lrHooks np) with next := next } (fun _ _ => True)
      (· ∈ acceptSyms) (fun _ => True) :=
    ⟨(Sat.trivial _).weaken (fun _ _ => True.intro) (fun _ h => h),
     fun p lhs rhs args hp _ =>
       (Props.real_accepts_only np p lhs rhs args hp).weaken (fun _ h => ⟨True.intro, h⟩) (fun _ h => h),
     fun _ => Sat.trivial _⟩
  have h2 := (run_sound_acc real_WF accept_in _ hH fuel).weaken (fun _ h => h) (fun _ _ => True.intro)
  refine (Sat.and h1 h2).weaken ?_ (fun _ h => h)
  intro res ⟨a1, a2⟩
  cases res with
  | accepted v tr c b =>
    obtain ⟨⟨hv, pre, hc, hpre⟩, _⟩ := a1
    exact ⟨hv, a2.2, pre, hc, hpre⟩
  | blank k c => exact a1

/-! ### one top-level parser run -/

def initLocal (o : Opts) : Local := { limit := o.limit }
def initEnv (s : Str) (o : Opts) (t : List Char) : Env :=
  { tape := Tape.ofInput s, strict := o.strict, proceed := o.proceed, touched := t }

/-- the engine run of the top-level parser object over `s` -/
def topRun (s : Str) (o : Opts) (t : List Char) : Except Exn (Res SVal × Local) × Env :=
  (LR.run realTables (lrHooks (C07.nestedOf 63)) 1073741824).run (initLocal o) (initEnv s o t)

/-- what `_parser.parse` makes of the engine's return -/
def ofRun : Except Exn (Res SVal × Local) × Env → Except Exn (Option Node) × List Char
  | (.ok (.accepted (.node n) _ _ _, l'), e') => (.ok (some (resolve l'.store n)), e'.touched)
  | (.ok (_, _), e') => (.ok none, e'.touched)
  | (.error x, e') => (.error x, e'.touched)

/-- **`runParser` is the engine run**, with the value turned into a node -/
theorem runParser_topRun (s : Str) (o : Opts) (t : List Char) :
    runParser s o t = ofRun (topRun s o t) := by
  unfold runParser topRun
  simp only []
  rw [show parserRun maxDepth = parserRun (63 + 1) from rfl, C07.parserRun_succ, M.run_bind]
  rcases h : (LR.run realTables (lrHooks (C07.nestedOf 63)) 1073741824).run (initLocal o)
      (initEnv s o t) with ⟨r, e'⟩
  have h' : (LR.run realTables (lrHooks (C07.nestedOf 63)) 1073741824).run { limit := o.limit }
      { tape := Tape.ofInput s, strict := o.strict, proceed := o.proceed, touched := t } =
      (r, e') := h
  rw [h']
  cases r with
  | error x => rfl
  | ok v =>
    obtain ⟨res, l'⟩ := v
    simp only []
    rw [M.run_bind]
    cases res with
    | blank k c => rfl
    | accepted v tr c b =>
      cases v <;> rfl

/-- the run over `s` returned the node `n` (table `t'` afterwards): it accepted a sentence -/
def RunSentence (s : Str) (o : Opts) (t : List Char) (n : Node) (t' : List Char) : Prop :=
  ∃ m tr c b l' e', topRun s o t = (.ok (.accepted (.node m) tr c b, l'), e') ∧
    n = resolve l'.store m ∧ t' = e'.touched ∧
    Tree.Valid realTables tr ∧ tr.root ∈ acceptSyms ∧
    ∃ pre, c = pre ++ tr.yield ∧ pre.all (· == realTables.nlTok) = true

/-- the run over `s` returned no node: all it consumed is NEWLINE tokens (then `$end`), or a
    sentence whose value is not a node -/
def RunStops (s : Str) (o : Opts) (t : List Char) (t' : List Char) : Prop :=
  ∃ res l' e', topRun s o t = (.ok (res, l'), e') ∧ t' = e'.touched ∧ EngineGood res ∧
    (match res with
     | .blank _ _ => True
     | .accepted v _ _ _ => ∀ m, v ≠ .node m)

theorem topRun_good {s : Str} {o : Opts} {t : List Char} {res : Res SVal} {l' : Local} {e' : Env}
    (h : topRun s o t = (.ok (res, l'), e')) : EngineGood res :=
  (engine_good (C07.nestedOf 63) (lrHooks (C07.nestedOf 63)).next 1073741824).ok h

theorem ofRun_node (n : Node) (tr : Tree) (c : List Nat) (b : Bool) (l' : Local) (e' : Env) :
    ofRun (.ok (.accepted (.node n) tr c b, l'), e') =
      (.ok (some (resolve l'.store n)), e'.touched) := rfl
theorem ofRun_blank (k : Nat) (c : List Nat) (l' : Local) (e' : Env) :
    ofRun (.ok (.blank k c, l'), e') = (.ok none, e'.touched) := rfl
theorem ofRun_error (x : Exn) (e' : Env) : ofRun (.error x, e') = (.error x, e'.touched) := rfl
theorem ofRun_other {v : SVal} (hv : ∀ m, v ≠ .node m) (tr : Tree) (c : List Nat) (b : Bool)
    (l' : Local) (e' : Env) :
    ofRun (.ok (.accepted v tr c b, l'), e') = (.ok none, e'.touched) := by
  cases v with
  | node m => exact absurd rfl (hv m)
  | _ => rfl

theorem runParser_some {s : Str} {o : Opts} {t t' : List Char} {n : Node}
    (h : runParser s o t = (.ok (some n), t')) : RunSentence s o t n t' := by
  rw [runParser_topRun] at h
  rcases hr : topRun s o t with ⟨r, e'⟩
  rw [hr] at h
  cases r with
  | error x => rw [ofRun_error] at h; cases h
  | ok v =>
    obtain ⟨res, l'⟩ := v
    have hg := topRun_good hr
    cases res with
    | blank k c => rw [ofRun_blank] at h; cases h
    | accepted v tr c b =>
      by_cases hv : ∃ m, v = .node m
      · obtain ⟨m, rfl⟩ := hv
        rw [ofRun_node] at h
        simp only [Prod.mk.injEq, Except.ok.injEq, Option.some.injEq] at h
        obtain ⟨h1, h2⟩ := h
        obtain ⟨g1, g2, g3⟩ := hg
        exact ⟨m, tr, c, b, l', e', hr, h1.symm, h2.symm, g1, g2, g3⟩
      · rw [ofRun_other (fun m hm => hv ⟨m, hm⟩)] at h; cases h

theorem runParser_none {s : Str} {o : Opts} {t t' : List Char}
    (h : runParser s o t = (.ok none, t')) : RunStops s o t t' := by
  rw [runParser_topRun] at h
  rcases hr : topRun s o t with ⟨r, e'⟩
  rw [hr] at h
  cases r with
  | error x => rw [ofRun_error] at h; cases h
  | ok v =>
    obtain ⟨res, l'⟩ := v
    have hg := topRun_good hr
    cases res with
    | blank k c =>
      rw [ofRun_blank] at h
      simp only [Prod.mk.injEq] at h
      exact ⟨_, l', e', hr, h.2.symm, hg, True.intro⟩
    | accepted v tr c b =>
      by_cases hv : ∃ m, v = .node m
      · obtain ⟨m, rfl⟩ := hv
        rw [ofRun_node] at h; cases h
      · have hv' : ∀ m, v ≠ .node m := fun m hm => hv ⟨m, hm⟩
        rw [ofRun_other hv'] at h
        simp only [Prod.mk.injEq] at h
        exact ⟨_, l', e', hr, h.2.symm, hg, hv'⟩

/-! ### the loop of `parse` -/

/-- **the runs tile the input**: entered at restart index `i` (table `t`), the remaining parts
    are the results of successive runs on suffixes of `s`, each a sentence -/
inductive Tiling (s : Str) (o : Opts) : Nat → List Char → List Node → Prop
  /-- the restart index is at or beyond the end of the input -/
  | done {i : Nat} {t : List Char} (h : ¬ i < s.length) : Tiling s o i t []
  /-- the run on the rest returned no node -/
  | stop {i : Nat} {t t' : List Char} (h : RunStops (s.drop i) o t t') : Tiling s o i t []
  /-- the run on `s[i:]` accepted a sentence and returned `n`; the next run starts at
      `max (nextIndex part) (i + 1)` -/
  | step {i : Nat} {t t' : List Char} {n : Node} {rest : List Node}
      (h : RunSentence (s.drop i) o t n t')
      (hl : Tiling s o (max (nextIndex (n.shift i)) (i + 1)) t' rest) :
      Tiling s o i t (n.shift i :: rest)

theorem tiling_of_loop {s : Str} {o : Opts} {i : Nat} {t : List Char} {r : C13.LoopRes}
    (h : C13.Loop s o i t r) : ∀ ps, r.1 = .ok ps → Tiling s o i t ps := by
  induction h with
  | done h => intro ps hps; cases hps; exact .done h
  | stop h hr => intro ps hps; cases hps; exact .stop (runParser_none hr)
  | raise h hr => intro ps hps; cases hps
  | @step i t t' part r h hr hl ih =>
    intro ps hps
    obtain ⟨x, u⟩ := r
    cases x with
    | error e => cases hps
    | ok qs =>
      simp only [C13.LoopRes.cons_ok] at hps
      cases hps
      exact .step (runParser_some hr) (ih qs rfl)

/- Scope: the TOP-LEVEL token sequence.  The text inside a word (`$(…)`, backquotes) is scanned
   by `_parse_comsub` / `_parse_matched_pair` and parsed by a nested parser whose result is
   attached to the word; defect D9 (`(parse "echo $(a\nb)".toList {}).1` = parts (1): the nested
   parser returns after `a`, the rest of the substitution is dropped silently) is about that
   nested run and is not excluded by this theorem: the top-level sentence is `WORD WORD NEWLINE`. -/

/-- **C08_accept_derivable** (all inputs, all options): the parts `parse` returns are the results
    of successive runs, each of which accepted a sentence of the declared grammar -- the yield of
    a valid derivation tree rooted at `inputunit`/`simple_list` is exactly what the run's engine
    consumed after leading NEWLINEs -- and the runs tile the input from index 0 to its end -/
theorem C08_accept_derivable (s : Str) (o : Opts) (parts : List Node)
    (h : (parse s o).1 = .parts parts) : Tiling s o 0 [] parts := by
  have hp := C13.parse_spec s o
  generalize parse s o = out at hp h
  cases hp with
  | raise hr => cases h
  | empty hr =>
    cases h
    exact .stop (by rw [List.drop_zero]; exact runParser_none hr)
  | @loop first t r hr hl =>
    obtain ⟨x, u⟩ := r
    cases x with
    | error e => cases h
    | ok qs =>
      simp only [C13.LoopRes.cons_ok, C13.LoopRes.outcome] at h
      cases h
      have h0 : first.shift 0 = first := Node.shift_zero first
      have := Tiling.step (s := s) (i := 0) (rest := qs)
        (by rw [List.drop_zero]; exact runParser_some hr)
        (by rw [h0]; exact tiling_of_loop hl qs rfl)
      rw [h0] at this
      exact this

/-- **no prefix acceptance**: if the parts `ps ++ more` are returned, the run entered at the
    restart index after `ps` was itself successful -- so when the run on the rest of the input
    raises, `parse` does not return `ps`: it has no normal return at all (`parse` is a function) -/
theorem Tiling.split {s : Str} {o : Opts} :
    ∀ {i : Nat} {t : List Char} (ps more : List Node), Tiling s o i t (ps ++ more) →
      ∃ j u, Tiling s o j u more := by
  intro i t ps
  induction ps generalizing i t with
  | nil => intro more h; exact ⟨i, t, h⟩
  | cons p ps ih =>
    intro more h
    cases h with
    | step _ hl => exact ih more hl

/-- the converse reading of `runParser_topRun`: a rest on which the engine raises makes the run
    raise, and then the whole `parse` raises (the loop propagates the exception) -/
theorem C08_rest_rejected {s : Str} {o : Opts} {i : Nat} {t t' : List Char} {e : Exn}
    {r : C13.LoopRes} (hl : C13.Loop s o i t r) (hi : i < s.length)
    (hr : runParser (s.drop i) o t = (.error e, t')) : r = (.error e, t') :=
  hl.det (.raise hi hr)

/-! ### `parsesingle` -/

/-- **C08, `parsesingle`**: the node `parsesingle` returns is the result of one engine run that
    accepted a sentence; `none` means the run consumed nothing but NEWLINE tokens (or a sentence
    without node) -/
theorem C08_accept_derivable_single (s : Str) (o : Opts) (r : Option Node)
    (h : (parsesingle s o).1 = .single r) :
    match r with
    | some n => ∃ t', RunSentence s o [] n t'
    | none => ∃ t', RunStops s o [] t' := by
  unfold parsesingle at h
  rcases hr : runParser s o [] with ⟨x, t⟩
  rw [hr] at h
  cases x with
  | error e => cases h
  | ok v =>
    simp only [Outcome.single.injEq] at h
    subst h
    cases v with
    | some n => exact ⟨t, runParser_some hr⟩
    | none => exact ⟨t, runParser_none hr⟩

end Bashlex.C08
