/-
  C08, part 1 (the meaning of `consumed`): the ghost list `consumed` the engine returns is exactly
  what the token source delivered, minus at most one look-ahead.

  For ANY tables, ANY token source equipped with a log (`Logged`: a ghost or real predicate
  `Log ds l e` = "the terminals delivered so far are `ds`", extended by `next`, kept by the
  semantic actions and the error function): at every normal return of the engine the log reads
  `consumed ++ la` with `la` at most one terminal -- the look-ahead; for the all-NEWLINE return
  `la` is one terminal, `$end` (or one the table accepts on in state 0: none for the real
  tables, `acceptNotInit`).  So in `C08_accept_derivable` "what the run's engine consumed" IS
  "the terminals the tokenizer delivered during the run, minus the look-ahead".
-/
import Bashlex.LR.Sound
import Bashlex.Proofs.HoareS

namespace Bashlex.C08
open Bashlex Bashlex.M Bashlex.LR
set_option linter.unusedSimpArgs false
set_option linter.unusedVariables false

variable {V : Type}

/-- a token source with a log of the terminals delivered -/
structure Logged (H : Hooks V) (Log : List Nat → Local → Env → Prop) (E : Exn → Prop) : Prop where
  next : ∀ ds, SatS H.next (Log ds) (fun la l e => Log (ds ++ [la.1]) l e) E
  act : ∀ p args ds, SatS (H.act p args) (Log ds) (fun _ l e => Log ds l e) E
  onError : ∀ la ds, SatS (H.onError la) (Log ds) (fun _ l e => Log ds l e) E

def laSyms (la : Option (Nat × V)) : List Nat :=
  match la with
  | none => []
  | some x => [x.1]

theorem laSyms_length (la : Option (Nat × V)) : (laSyms la).length ≤ 1 := by
  cases la <;> simp [laSyms]

/-- the log reads: consumed, then the look-ahead -/
def LogInv (Log : List Nat → Local → Env → Prop) (c : Cfg V) (l : Local) (e : Env) : Prop :=
  Log (c.consumed ++ laSyms c.la) l e

def LogGood (T : Tables) (Log : List Nat → Local → Env → Prop) : Res V → Local → Env → Prop
  | .accepted _ _ c _, l, e => ∃ la : List Nat, la.length ≤ 1 ∧ Log (c ++ la) l e
  | .blank _ c, l, e => ∃ x, Log (c ++ [x]) l e ∧ (x = T.endTok ∨ T.action 0 x = some .accept)

/-- exceptions: those of the hooks, or the engine's own (fuel, foreign) -/
def EngX (E : Exn → Prop) (x : Exn) : Prop :=
  E x ∨ (∃ a b, x = .foreign a b) ∨ (∃ s, x = .outOfFuel s)

theorem doReduce_log {T : Tables} {H : Hooks V} {Log E} (hL : Logged H Log E) (c : Cfg V) (p : Nat) :
    SatS (doReduce T H c p) (LogInv Log c)
      (fun r l e => Sum.elim (fun c' => LogInv Log c' l e) (fun res => LogGood T Log res l e) r)
      (EngX E) := by
  unfold doReduce
  cases hp : T.prods[p]? with
  | none => exact SatS.foreign (Or.inr (Or.inl ⟨_, _, rfl⟩))
  | some pr =>
    obtain ⟨lhs, rhs⟩ := pr
    simp only []
    cases hpop : popN rhs.length c.stack with
    | none => exact SatS.foreign (Or.inr (Or.inl ⟨_, _, rfl⟩))
    | some w =>
      obtain ⟨es, rest⟩ := w
      simp only []
      refine SatS.bind ((hL.act p _ _).weaken (fun _ _ h => h) (fun _ _ _ h => h) (fun _ h => Or.inl h)) ?_
      rintro ⟨v, accept⟩
      simp only []
      cases hg : T.goto (topState rest) lhs with
      | none => exact SatS.foreign (Or.inr (Or.inl ⟨_, _, rfl⟩))
      | some t =>
        simp only []
        by_cases hacc : accept = true
        · simp only [hacc, if_true]
          exact SatS.pure (fun l e h => ⟨laSyms c.la, laSyms_length _, h⟩)
        · simp only [hacc, Bool.false_eq_true, if_false]
          exact SatS.pure (fun l e h => h)

theorem step_log {T : Tables} {H : Hooks V} {Log E} (hL : Logged H Log E) (c : Cfg V) :
    SatS (step T H c) (LogInv Log c)
      (fun r l e => Sum.elim (fun c' => LogInv Log c' l e) (fun res => LogGood T Log res l e) r)
      (EngX E) := by
  unfold step
  simp only []
  cases hd : T.dflt (topState c.stack) with
  | some p => exact doReduce_log hL c p
  | none =>
    simp only []
    refine SatS.bind (Q := fun la l e => Log (c.consumed ++ [la.1]) l e) ?_ ?_
    · cases hla : c.la with
      | some la =>
        refine SatS.pure (fun l e h => ?_)
        unfold LogInv at h
        rw [hla] at h
        exact h
      | none =>
        refine ((hL.next c.consumed).weaken ?_ (fun _ _ _ h => h) (fun _ h => Or.inl h))
        intro l e h
        unfold LogInv at h
        rw [hla] at h
        simpa [laSyms] using h
    rintro ⟨la, lv⟩
    simp only []
    split
    · rename_i hblank
      refine SatS.pure (fun l e h => ?_)
      simp only [Bool.and_eq_true, beq_iff_eq] at hblank
      exact ⟨la, h, Or.inl hblank.1.2⟩
    · cases hact : T.action (topState c.stack) la with
      | none =>
        simp only []
        refine SatS.bind (Q := fun _ _ _ => True)
          ((hL.onError (la, lv) _).weaken (fun _ _ h => h) (fun _ _ _ _ => trivial)
            (fun _ h => Or.inl h)) ?_
        intro _
        exact SatS.foreign (Or.inr (Or.inl ⟨_, _, rfl⟩))
      | some a =>
        cases a with
        | shift t =>
          simp only []
          split
          · refine SatS.pure (fun l e h => ?_)
            show Log ((c.consumed ++ [la]) ++ laSyms none) l e
            simpa [laSyms] using h
          · refine SatS.pure (fun l e h => ?_)
            show Log ((c.consumed ++ [la]) ++ laSyms none) l e
            simpa [laSyms] using h
        | reduce p =>
          simp only []
          exact (doReduce_log hL { c with la := some (la, lv) } p).pre (fun l e h => h)
        | accept =>
          simp only []
          split
          · refine SatS.pure (fun l e h => ?_)
            exact ⟨[la], by simp, h⟩
          · rename_i hstk
            refine SatS.pure (fun l e h => ?_)
            refine ⟨la, h, Or.inr ?_⟩
            have hs : c.stack = [] := hstk
            rw [hs] at hact
            exact hact

/-- **run_consumed**: for any tables and any logged token source, at a normal return of the
    engine the log of delivered terminals is `consumed` followed by the look-ahead (at most one
    terminal; exactly one, `$end`, for the all-NEWLINE return) -/
theorem run_consumed {T : Tables} {H : Hooks V} {Log E} (hL : Logged H Log E) (fuel : Nat) :
    SatS (LR.run T H fuel) (Log []) (LogGood T Log) (EngX E) := by
  unfold LR.run
  refine (SatS.loop (I := LogInv Log) (R := LogGood T Log) (Or.inr (Or.inr ⟨_, rfl⟩))
    (fun s => step_log hL s) fuel {}).pre ?_
  intro l e h
  exact h

end Bashlex.C08
