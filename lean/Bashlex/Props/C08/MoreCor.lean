/-
  C08More, corollary for `parse`: every run that returned a part consumed a token stream that is
  balanced in every family of `balanceFamilies` and free of the adjacent pairs of `badPairs`
  (with `C08_accept_derivable`: this holds of every part `parse` returns).
-/
import Bashlex.Props.C08.Adjacent

namespace Bashlex.C08
open Bashlex Bashlex.M Bashlex.LR

theorem RunSentence.clean {s : Str} {o : Opts} {t t' : List Char} {n : Node}
    (h : RunSentence s o t n t') : ∃ m tr c b l' e',
      topRun s o t = (.ok (.accepted (.node m) tr c b, l'), e') ∧
      (∀ f ∈ balanceFamilies, wsum (famW f) c ≤ 0) ∧ NoBad badPairs c := by
  obtain ⟨m, tr, c, b, l', e', h1, _, _, h4, h5, pre, h6, h7⟩ := h
  have hs : Sentence c := ⟨tr, pre, h4, h5, h6, h7⟩
  exact ⟨m, tr, c, b, l', e', h1, fun f hf => sentence_balanced hs hf, sentence_noBad hs⟩

theorem tiling_clean {s : Str} {o : Opts} {i : Nat} {t : List Char} {ps : List Node}
    (ht : Tiling s o i t ps) : ∀ part ∈ ps, ∃ (i : Nat) (t : List Char) (n m : Node) (tr : Tree)
      (c : List Nat) (b : Bool) (l' : Local) (e' : Env),
      part = n.shift i ∧
      topRun (s.drop i) o t = (.ok (.accepted (.node m) tr c b, l'), e') ∧
      (∀ f ∈ balanceFamilies, wsum (famW f) c ≤ 0) ∧ NoBad badPairs c := by
  induction ht with
  | done _ => intro part hp; cases hp
  | stop _ => intro part hp; cases hp
  | @step i t t' n rest hrs _ ih =>
    intro part hp
    rcases List.mem_cons.mp hp with rfl | hp
    · obtain ⟨m, tr, c, b, l', e', h1, h2, h3⟩ := hrs.clean
      exact ⟨i, t, n, m, tr, c, b, l', e', rfl, h1, h2, h3⟩
    · exact ih part hp

/-- **C08_parts_clean**: for every part `parse` returns there is a run (over a suffix of the
    input) whose engine accepted a balanced, adjacency-free token stream and returned that part -/
theorem C08_parts_clean (s : Str) (o : Opts) (parts : List Node)
    (h : (parse s o).1 = .parts parts) : ∀ part ∈ parts, ∃ (i : Nat) (t : List Char) (n m : Node)
      (tr : Tree) (c : List Nat) (b : Bool) (l' : Local) (e' : Env),
      part = n.shift i ∧
      topRun (s.drop i) o t = (.ok (.accepted (.node m) tr c b, l'), e') ∧
      (∀ f ∈ balanceFamilies, wsum (famW f) c ≤ 0) ∧ NoBad badPairs c :=
  tiling_clean (C08_accept_derivable s o parts h)

end Bashlex.C08
