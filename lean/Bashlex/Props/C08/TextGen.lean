/-
  C08, part 2 (text level), generic in what opens the unterminated construct: `Trigger q cl u`
  says that the iteration of `_readtokenword` on the character `q`, with `u` unread, raises the
  unexpected-EOF error for the closer `cl`.  `unterminated_trigger`: a plain word, then `q`, then
  `u`: `parse` raises.  (Same proofs as `Text.lean`, where the trigger is a quote character; here
  it may be `$` followed by `{` …)
-/
import Bashlex.Props.C08.Text

namespace Bashlex.C08
open Bashlex Bashlex.M Bashlex.C10
set_option linter.unusedSimpArgs false
set_option linter.unusedVariables false

/-- the iteration of `_readtokenword` on `q` raises, `u` being the unread rest of the input -/
structure Trigger (q cl : Char) (u : Str) : Prop where
  nbs : q ≠ '\\'
  start : startOK q = true
  step : ∀ {T : Tape} {l : Local} {e : Env}, TInv T l e → ∀ (st : RWState), st.c = some q →
    st.passNext = false → T.idx ≤ T.line.length → T.line.drop T.idx = u →
    ∃ e', M.run (readtokenwordStep st) l e =
      (.error (mkParsingError (eofMsg cl) T.source ((T.line.length : Int) - 1)), e')

theorem rwLoopG_raises {q cl : Char} {u : Str} (hG : Trigger q cl u) :
    ∀ (w : Str) (fuel : Nat) (st : RWState) (c : Char) (T : Tape) (l : Local) (e : Env),
      st.c = some c → st.passNext = false → TInv T l e → T.idx ≤ T.line.length →
      c :: T.line.drop T.idx = w ++ q :: u → (∀ x ∈ w, plainChar x = true) → w.length < fuel →
      ∃ e', M.run (M.loop "_readtokenword" readtokenwordStep fuel st) l e =
        (.error (mkParsingError (eofMsg cl) T.source ((T.line.length : Int) - 1)), e') := by
  intro w
  induction w with
  | nil =>
    intro fuel st c T l e hc hpn hI hle heq _ hf
    simp only [List.nil_append, List.cons.injEq] at heq
    obtain ⟨rfl, hdrop⟩ := heq
    obtain ⟨e', he'⟩ := hG.step hI st hc hpn hle hdrop
    exact ⟨e', loop_raises' _ _ _ _ (by omega) he'⟩
  | cons x w ih =>
    intro fuel st c T l e hc hpn hI hle heq hw hf
    simp only [List.cons_append, List.cons.injEq] at heq
    obtain ⟨rfl, hdrop⟩ := heq
    obtain ⟨n, rfl⟩ : ∃ n, fuel = n + 1 := ⟨fuel - 1, by simp only [List.length_cons] at hf; omega⟩
    -- the next character
    obtain ⟨d, rest, hd⟩ : ∃ d rest, w ++ q :: u = d :: rest := by
      cases w with
      | nil => exact ⟨_, _, rfl⟩
      | cons y w' => exact ⟨_, _, rfl⟩
    have hdb : d ≠ '\\' := by
      cases w with
      | nil =>
        simp only [List.nil_append, List.cons.injEq] at hd
        rw [← hd.1]; exact hG.nbs
      | cons y w' =>
        simp only [List.cons_append, List.cons.injEq] at hd
        rw [← hd.1]; exact plain_ne_bs (hw y (by simp))
    have hlt : T.idx < T.line.length := by
      have := congrArg List.length hdrop
      rw [hd] at this
      simp only [List.length_drop, List.length_cons] at this
      omega
    have hdi : T.line[T.idx]? = some d := by
      rw [← List.head?_drop, hdrop, hd]; rfl
    obtain ⟨e1, hstep, hI1⟩ := rwStep_plain hI st c d hc hpn (hw c (by simp)) hdi hdb
    have hdrop1 : d :: T.line.drop (T.idx + 1) = w ++ q :: u := by
      rw [← List.drop_drop, hdrop, hd]; rfl
    obtain ⟨e', he'⟩ := ih n { handleescapedchar st c with c := some d } d
      { T with idx := T.idx + 1 } _ e1 rfl (by simp [handleescapedchar, hpn]) hI1 hlt hdrop1
      (fun y hy => hw y (List.mem_cons_of_mem _ hy))
      (by simp only [List.length_cons] at hf; omega)
    refine ⟨e', ?_⟩
    rw [run_loop_succ, hstep]
    exact he'

theorem readtokenG_raises {q cl : Char} {u : Str} (hG : Trigger q cl u)
    (w : Str) (hw : ∀ x ∈ w, plainChar x = true) (hwl : w.length < 1073741824)
    {T : Tape} {l : Local} {e : Env} (hI : TInv T l e) (hle : T.idx ≤ T.line.length)
    (hdrop : T.line.drop T.idx = w ++ q :: u) (hre : l.ps.regexp = false)
    (hlrt : (l.lastReadToken.is .LESS_AND || l.lastReadToken.is .GREATER_AND) = false) :
    ∃ e', M.run readtoken l e =
      (.error (mkParsingError (eofMsg cl) T.source ((T.line.length : Int) - 1)), e') := by
  obtain ⟨ch, rest, hch⟩ : ∃ d rest, w ++ q :: u = d :: rest := by
    cases w with
    | nil => exact ⟨_, _, rfl⟩
    | cons y w' => exact ⟨_, _, rfl⟩
  have hs : startOK ch = true := by
    cases w with
    | nil =>
      simp only [List.nil_append, List.cons.injEq] at hch
      rw [← hch.1]; exact hG.start
    | cons y w' =>
      simp only [List.cons_append, List.cons.injEq] at hch
      rw [← hch.1]; exact startOK_plain (hw y (by simp))
  have hlt : T.idx < T.line.length := by
    have := congrArg List.length hdrop
    rw [hch] at this
    simp only [List.length_drop, List.length_cons] at this
    omega
  have hdi : T.line[T.idx]? = some ch := by
    rw [← List.head?_drop, hdrop, hch]; rfl
  have hhead := readtokenHead_char hI hdi hs
  have hI1 : TInv { T with idx := T.idx + 1 } (putL l { T with idx := T.idx + 1 })
      (putE l e { T with idx := T.idx + 1 }) := hI.put _
  have hdrop1 : ch :: T.line.drop (T.idx + 1) = w ++ q :: u := by
    rw [← List.drop_drop, hdrop, hch]; rfl
  -- the loop of `_readtokenword` raises, from the state after `recordpos` and the table lookups
  have hloop := fun (l2 : Local) (e2 : Env) (h2 : TInv { T with idx := T.idx + 1 } l2 e2) =>
    rwLoopG_raises hG w 1073741824 { c := some ch, allDigit := isDigit ch } ch
      { T with idx := T.idx + 1 } l2 e2 rfl rfl h2 hlt hdrop1 hw hwl
  unfold startOK at hs
  simp only [Bool.and_eq_true, bne_iff_ne, ne_eq, Bool.not_eq_true'] at hs
  obtain ⟨⟨⟨⟨h1, h2⟩, h3⟩, h4⟩, h5⟩ := hs
  have hnl : (ch == '\n') = false := by simpa using h4
  show Raises _ readtoken l e
  rw [C10.readtoken_eq]
  refine Raises.bindOk hhead ?_
  simp only []
  unfold C10.readtokenTail
  refine Raises.bindOk (run_recordpos 1 _ _) ?_
  simp only [hnl, Bool.false_eq_true, if_false]
  refine Raises.bindOk (C10.run_get _ _) ?_
  simp only [putL_ps, hre, Bool.false_eq_true, if_false]
  refine Raises.bindOk (run_shellmeta ch _ _) ?_
  refine Raises.bindOk (C10.run_get _ _) ?_
  simp only [h5, Bool.false_and, Bool.false_eq_true, if_false]
  refine Raises.bindOk (C10.run_get _ _) ?_
  simp only [putL_lrt, hlrt, Bool.and_false, Bool.false_eq_true, if_false]
  refine Raises.bindErr ?_
  unfold readtokenword
  refine Raises.bindOk (run_loopFuel _ _) ?_
  refine Raises.bindErr ?_
  exact hloop _ _ ⟨hI1.eol, hI1.ds, by rw [tapeOf_touch]; exact hI1.tape⟩

theorem nextTokenG_raises {q cl : Char} {u : Str} (hG : Trigger q cl u)
    (w : Str) (hw : ∀ x ∈ w, plainChar x = true) (hwl : w.length < 1073741824)
    {T : Tape} {l : Local} {e : Env} (hI : TInv T l e) (hle : T.idx ≤ T.line.length)
    (hdrop : T.line.drop T.idx = w ++ q :: u) (hre : l.ps.regexp = false)
    (hcur : (l.currentToken.is .LESS_AND || l.currentToken.is .GREATER_AND) = false) :
    Raises (mkParsingError (eofMsg cl) T.source ((T.line.length : Int) - 1)) nextToken l e := by
  unfold nextToken
  refine Raises.bindOk (C10.run_modify _ _ _) ?_
  refine Raises.bindErr ?_
  show Raises _ readtoken _ _
  refine readtokenG_raises hG w hw hwl ?_ hle hdrop ?_ ?_
  · exact ⟨hI.eol, hI.ds, hI.tape⟩
  · exact hre
  · exact hcur

/-- **the generic text-level theorem**: a word of plain characters, then a quote character `q`
    whose scanner raises on everything that follows (with or without the newline the tokenizer
    appends): `parse` raises the unexpected-EOF ParsingError, for all options -/
theorem unterminated_trigger {q cl : Char} (w u : Str) (o : Opts)
    (hw : ∀ x ∈ w, plainChar x = true) (hwl : w.length < 1073741824)
    (hG : ∀ tail, tail = [] ∨ tail = ['\n'] → Trigger q cl (u ++ tail)) :
    (parse (w ++ q :: u) o).1 =
      .exn (.parsing (eofMsg cl) (w ++ q :: u)
        (((Tape.ofInput (w ++ q :: u)).line.length : Int) - 1)) := by
  obtain ⟨tail, hline, htail, hidx, hsrc⟩ := ofInput_facts (w ++ q :: u)
  have hI : TInv (Tape.ofInput (w ++ q :: u)) (initLocal o) (initEnv (w ++ q :: u) o []) :=
    ⟨rfl, rfl, rfl⟩
  have hdrop : (Tape.ofInput (w ++ q :: u)).line.drop (Tape.ofInput (w ++ q :: u)).idx =
      w ++ q :: (u ++ tail) := by
    rw [hidx, hline]; simp
  have hnext := nextTokenG_raises (hG tail htail) w hw hwl hI (by rw [hidx]; exact Nat.zero_le _)
    hdrop rfl rfl
  have hstep := step_raises (C07.nestedOf 63) hnext
  obtain ⟨e', he'⟩ := Raises.loop (site := "LRParser.parse") (fuel := 1073741824) (by decide) hstep
  have htop : topRun (w ++ q :: u) o [] = (.error _, e') := he'
  have hrp := runParser_topRun (w ++ q :: u) o []
  rw [htop, ofRun_error] at hrp
  unfold parse
  rw [hrp]
  simp only [hsrc]
  have hle : (((Tape.ofInput (w ++ q :: u)).line.length : Int) - 1) ≤
      ((w ++ q :: u).length : Int) := by
    rw [hline]
    rcases htail with rfl | rfl <;> simp <;> omega
  simp only [mkParsingError, hle, if_true]


end Bashlex.C08
