/-
  C08, part 3 (more families, all lengths): dangling / doubled control operators ANYWHERE in the
  token stream are never accepted -- including those where the engine first REDUCES on the second
  operator and finds the error later (`a & ;`, `a ; |`, `a && ; b` …), which `Reject.lean` does
  not cover.

  Grammar-level argument, kernel-checked on the regenerated grammar: FIRST / LAST / nullable
  certificates (`cert`, computed by iteration; the check `certOK` validates what it uses) give for
  every valid derivation tree: no pair of `badPairs` occurs as two ADJACENT terminals of its
  yield (`valid_noBad`).  With `engine_good`: whatever the engine consumed at a normal return
  contains no such adjacent pair (`C08_adjacent_never_accepted`), for every token source.

  NOT in `badPairs`, because the grammar DOES derive them adjacent: `pipeline_command →
  BANG list_terminator` ends in `;`, so `! ; ; a`, `! ; & a`, `! ; && a`, `a; ! ; || b` are
  sentences -- and the implementation accepts them (`#eval (parse "! ; ; a".toList {}).1` = parts,
  likewise the other three; checked).  Hence `; ;`, `; &`, `; &&`, `; ||` cannot be in the list;
  the rejection of `a; ;` (`#eval` = ParsingError "unexpected token ';'" @3) depends on the
  context and is not proved.
-/
import Bashlex.Props.C08.Balance

namespace Bashlex.C08
open Bashlex Bashlex.M Bashlex.LR
set_option linter.unusedSimpArgs false
set_option linter.unusedVariables false

/-! ### adjacency-free lists -/

def okp (bad : List (Nat × Nat)) (a b : Nat) : Bool := !bad.contains (a, b)

def NoBad (bad : List (Nat × Nat)) : List Nat → Prop
  | [] => True
  | [_] => True
  | a :: b :: r => okp bad a b = true ∧ NoBad bad (b :: r)

theorem noBad_append (bad : List (Nat × Nat)) : ∀ (u v : List Nat), NoBad bad u → NoBad bad v →
    (∀ a b, u.getLast? = some a → v.head? = some b → okp bad a b = true) → NoBad bad (u ++ v)
  | [], v, _, hv, _ => hv
  | [a], [], _, _, _ => trivial
  | [a], b :: r, _, hv, h => ⟨h a b rfl rfl, hv⟩
  | a :: b :: r, v, hu, hv, h =>
    ⟨hu.1, noBad_append bad (b :: r) v hu.2 hv (fun x y hx hy =>
      h x y (by rw [List.getLast?_cons_cons]; exact hx) hy)⟩

/-! ### certificates -/

structure Cert where
  nul : List Nat
  fst : List (List Nat)
  lst : List (List Nat)

namespace Cert
def isNul (C : Cert) (x : Nat) : Bool := C.nul.contains x
def fstOf (C : Cert) (x : Nat) : List Nat := C.fst.getD x []
def lstOf (C : Cert) (x : Nat) : List Nat := C.lst.getD x []

/-- possible first terminals of a sequence of symbols -/
def firsts (C : Cert) : List Nat → List Nat
  | [] => []
  | x :: r => C.fstOf x ++ (if C.isNul x then firsts C r else [])

/-- possible last terminals after a sequence of symbols, `prev` before it -/
def lastsAcc (C : Cert) : List Nat → List Nat → List Nat
  | prev, [] => prev
  | prev, x :: r => lastsAcc C (if C.isNul x then prev ++ C.lstOf x else C.lstOf x) r

/-- no bad pair at any junction of the sequence -/
def scan (C : Cert) (bad : List (Nat × Nat)) : List Nat → List Nat → Bool
  | _, [] => true
  | prev, x :: r =>
    prev.all (fun a => (C.fstOf x).all (fun b => okp bad a b)) &&
    scan C bad (if C.isNul x then prev ++ C.lstOf x else C.lstOf x) r

def subset (a b : List Nat) : Bool := a.all (fun x => b.contains x)

def prodOK (C : Cert) (bad : List (Nat × Nat)) (p : Nat × List Nat) : Bool :=
  (!(p.2.all C.isNul) || C.isNul p.1) && subset (C.firsts p.2) (C.fstOf p.1) &&
  subset (C.lastsAcc [] p.2) (C.lstOf p.1) && C.scan bad [] p.2

def certOK (C : Cert) (bad : List (Nat × Nat)) (nT : Nat) (prods : List (Nat × List Nat)) : Bool :=
  prods.all (C.prodOK bad) &&
  (List.range nT).all (fun x => (C.fstOf x).contains x && (C.lstOf x).contains x)
end Cert

/-- what the certificates say of a yield `y` of symbol `X` -/
def PY (C : Cert) (bad : List (Nat × Nat)) (X : Nat) (y : List Nat) : Prop :=
  (y = [] → C.isNul X = true) ∧ (∀ a, y.head? = some a → a ∈ C.fstOf X) ∧
  (∀ b, y.getLast? = some b → b ∈ C.lstOf X) ∧ NoBad bad y

theorem subset_mem {a b : List Nat} (h : Cert.subset a b = true) {x : Nat} (hx : x ∈ a) : x ∈ b := by
  unfold Cert.subset at h
  have := List.all_eq_true.mp h x hx
  simpa using this

theorem firsts_sound (C : Cert) (bad : List (Nat × Nat)) : ∀ (ks : List Tree),
    (∀ k ∈ ks, PY C bad k.root k.yield) →
    (Tree.yields ks = [] → (ks.map Tree.root).all C.isNul = true) ∧
    (∀ a, (Tree.yields ks).head? = some a → a ∈ C.firsts (ks.map Tree.root)) := by
  intro ks
  induction ks with
  | nil => intro _; exact ⟨fun _ => rfl, fun a h => by simp [Tree.yields] at h⟩
  | cons k ks ih =>
    intro hk
    have hk0 := hk k List.mem_cons_self
    obtain ⟨ih1, ih2⟩ := ih (fun k' h' => hk k' (List.mem_cons_of_mem _ h'))
    simp only [Tree.yields, List.map_cons, List.all_cons, Cert.firsts]
    refine ⟨?_, ?_⟩
    · intro h
      obtain ⟨h1, h2⟩ := List.append_eq_nil_iff.mp h
      rw [hk0.1 h1, ih1 h2]; rfl
    · intro a ha
      cases hy : k.yield with
      | nil =>
        rw [hy, List.nil_append] at ha
        rw [hk0.1 hy]
        simp only [if_true]
        exact List.mem_append_right _ (ih2 a ha)
      | cons c r =>
        rw [hy, List.cons_append] at ha
        simp only [List.head?_cons, Option.some.injEq] at ha
        exact List.mem_append_left _ (hk0.2.1 a (by rw [hy, ← ha]; rfl))

theorem scan_sound (C : Cert) (bad : List (Nat × Nat)) : ∀ (ks : List Tree) (prev u : List Nat),
    (∀ k ∈ ks, PY C bad k.root k.yield) → NoBad bad u → (∀ a, u.getLast? = some a → a ∈ prev) →
    C.scan bad prev (ks.map Tree.root) = true →
    NoBad bad (u ++ Tree.yields ks) ∧
    (∀ b, (u ++ Tree.yields ks).getLast? = some b → b ∈ C.lastsAcc prev (ks.map Tree.root)) := by
  intro ks
  induction ks with
  | nil =>
    intro prev u _ hu hl _
    simp only [Tree.yields, List.append_nil, List.map_nil, Cert.lastsAcc]
    exact ⟨hu, hl⟩
  | cons k ks ih =>
    intro prev u hk hu hl hs
    have hk0 := hk k List.mem_cons_self
    simp only [List.map_cons, Cert.scan, Bool.and_eq_true, List.all_eq_true] at hs
    obtain ⟨hs1, hs2⟩ := hs
    simp only [Tree.yields, List.map_cons, Cert.lastsAcc, ← List.append_assoc]
    refine ih _ (u ++ k.yield) (fun k' h' => hk k' (List.mem_cons_of_mem _ h')) ?_ ?_ hs2
    · refine noBad_append bad u k.yield hu hk0.2.2.2 ?_
      intro a b ha hb
      exact hs1 a (hl a ha) b (hk0.2.1 b hb)
    · intro a ha
      cases hy : k.yield with
      | nil =>
        rw [hy, List.append_nil] at ha
        rw [hk0.1 hy]
        simp only [if_true]
        exact List.mem_append_left _ (hl a ha)
      | cons c r =>
        rw [hy] at ha
        have hla : (c :: r).getLast? = some a := by
          rw [List.getLast?_append] at ha
          cases hl2 : (c :: r).getLast? with
          | none => simp at hl2
          | some z => rw [hl2] at ha; simpa using ha
        have := hk0.2.2.1 a (by rw [hy]; exact hla)
        split
        · exact List.mem_append_right _ this
        · exact this

/-- **soundness of the certificates** -/
theorem valid_PY {T : Tables} {C : Cert} {bad : List (Nat × Nat)}
    (hc : C.certOK bad T.nTerms T.prods = true) :
    ∀ {tr : Tree}, Tree.Valid T tr → PY C bad tr.root tr.yield := by
  unfold Cert.certOK at hc
  simp only [Bool.and_eq_true, List.all_eq_true] at hc
  obtain ⟨hprods, hterm⟩ := hc
  intro tr h
  induction h with
  | leaf s hs =>
    have := hterm s (List.mem_range.mpr hs)
    simp only [Bool.and_eq_true, List.contains_iff_mem] at this
    simp only [Tree.root, Tree.yield]
    refine ⟨fun h => (by cases h), ?_, ?_, trivial⟩
    · intro a ha; simp only [List.head?_cons, Option.some.injEq] at ha; rw [← ha]; exact this.1
    · intro b hb; simp only [List.getLast?_singleton, Option.some.injEq] at hb; rw [← hb]; exact this.2
  | node p lhs ks rhs hp hroots hk ih =>
    have hmem : (lhs, rhs) ∈ T.prods := List.mem_of_getElem? hp
    have hpo := hprods _ hmem
    unfold Cert.prodOK at hpo
    simp only [Bool.and_eq_true, Bool.or_eq_true, Bool.not_eq_true'] at hpo
    obtain ⟨⟨⟨h1, h2⟩, h3⟩, h4⟩ := hpo
    obtain ⟨f1, f2⟩ := firsts_sound C bad ks ih
    have hsc := scan_sound C bad ks [] [] ih trivial (fun a h => by cases h) (by rw [hroots]; exact h4)
    simp only [List.nil_append] at hsc
    rw [hroots] at f1 f2 hsc
    simp only [Tree.root, Tree.yield]
    refine ⟨?_, ?_, ?_, hsc.1⟩
    · intro hy
      rcases h1 with h1 | h1
      · rw [f1 hy] at h1; cases h1
      · exact h1
    · intro a ha; exact subset_mem h2 (f2 a ha)
    · intro b hb; exact subset_mem h3 (hsc.2 b hb)

/-! ### the certificates of the shell grammar -/

def nSyms : Nat := Gen.termNames.length + Gen.ntNames.length

def cert0 : Cert :=
  { nul := []
    fst := (List.range nSyms).map (fun x => if x < Gen.termNames.length then [x] else [])
    lst := (List.range nSyms).map (fun x => if x < Gen.termNames.length then [x] else []) }

def uni (a b : List Nat) : List Nat :=
  b.foldl (fun acc x => if acc.contains x then acc else acc ++ [x]) a

def certStep (C : Cert) : Cert :=
  Gen.prodTable.foldl (fun C p =>
    { nul := if p.2.all C.isNul && !C.isNul p.1 then C.nul ++ [p.1] else C.nul
      fst := C.fst.set p.1 (uni (C.fstOf p.1) (C.firsts p.2))
      lst := C.lst.set p.1 (uni (C.lstOf p.1) (C.lastsAcc [] p.2)) }) C

def certIter : Nat → Cert → Cert
  | 0, C => C
  | n + 1, C => certIter n (certStep C)

/-- FIRST / LAST / nullable of the regenerated grammar (untrusted: `cert_ok` checks them) -/
def cert : Cert := certIter 12 cert0

/-- pairs of control operators that no sentence holds adjacent -/
def badNames : List (String × String) :=
  let ops := ["SEMICOLON", "AMPERSAND", "AND_AND", "OR_OR", "BAR", "BAR_AND"]
  (ops.flatMap fun a => ops.map fun b => (a, b)).filter fun p =>
    !(p.1 == "SEMICOLON" && (p.2 == "SEMICOLON" || p.2 == "AMPERSAND" || p.2 == "AND_AND" ||
      p.2 == "OR_OR"))

def badPairs : List (Nat × Nat) := badNames.map fun p => (tnum p.1, tnum p.2)

set_option maxRecDepth 200000 in
theorem cert_ok : cert.certOK badPairs realTables.nTerms realTables.prods = true := by
  decide +kernel

theorem bad_not_nl : badPairs.all (fun p => p.1 != realTables.nlTok) = true := by decide +kernel

/-- **no valid derivation tree has two adjacent control operators of `badPairs` in its yield** -/
theorem valid_noBad {tr : Tree} (h : Tree.Valid realTables tr) : NoBad badPairs tr.yield :=
  (valid_PY cert_ok h).2.2.2

theorem noBad_nl : ∀ (pre : List Nat), pre.all (· == realTables.nlTok) = true → NoBad badPairs pre
  | [], _ => trivial
  | [_], _ => trivial
  | a :: b :: r, h => by
    simp only [List.all_cons, Bool.and_eq_true, beq_iff_eq] at h
    refine ⟨?_, noBad_nl (b :: r) (by simp [h.2.1, h.2.2])⟩
    have := List.all_eq_true.mp bad_not_nl
    unfold okp
    simp only [Bool.not_eq_true', List.contains_eq_mem, decide_eq_false_iff_not]
    intro hm
    have := this _ hm
    simp [h.1] at this

theorem sentence_noBad {c : List Nat} (h : Sentence c) : NoBad badPairs c := by
  obtain ⟨tr, pre, hv, _, hc, hpre⟩ := h
  rw [hc]
  refine noBad_append _ pre tr.yield (noBad_nl pre hpre) (valid_noBad hv) ?_
  intro a b ha _
  have hmem : a ∈ pre := List.mem_of_getLast? ha
  have ha' : a = realTables.nlTok := by
    have := List.all_eq_true.mp hpre a hmem
    simpa using this
  have := List.all_eq_true.mp bad_not_nl
  unfold okp
  simp only [Bool.not_eq_true', List.contains_eq_mem, decide_eq_false_iff_not]
  intro hm
  have := this _ hm
  simp [ha'] at this

/-- **C08_adjacent_never_accepted**: real tables and actions, EVERY token source and nested
    parser: what the engine consumed at a normal return holds no two adjacent control operators
    of `badPairs` -- `& ;`, `& &`, `; |`, `&& &&`, `&& ;`, `| |`, `|| &`, … anywhere -/
theorem C08_adjacent_never_accepted (np : NestedParse) (next : M (Nat × SVal)) (fuel : Nat) :
    Sat (LR.run realTables { (lrHooks np) with next := next } fuel)
      (fun res => NoBad badPairs (consumedOf res)) (fun _ => True) := by
  refine (engine_good np next fuel).weaken ?_ (fun _ h => h)
  intro res h
  cases res with
  | accepted v tr c b => exact sentence_noBad h.sentence
  | blank k c => exact noBad_nl c h

end Bashlex.C08
