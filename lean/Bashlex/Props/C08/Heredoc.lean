/-
  C08, part 4: an unterminated here-document is rejected.

  From `Props/C10.lean` (`gather_spec`: `gatherheredocuments` IS the pure function `specGather`;
  `specGather_cons`; `specHeredoc_lines`): when the oldest queued here-document redirect has a
  delimiter that no line of the rest of the input equals (`NoDelimLine`, lines as
  `readline(False)` splits them, tab-stripped for `<<-`), `gatherheredocuments` raises
  ParsingError "here-document at line 0 delimited by end-of-file (wanted …)" -- in strict mode
  always (`C08_heredoc_strict`), in non-strict mode whenever the body has begun, i.e. the input
  is not exhausted at the point where the body would start (`C08_heredoc_unterminated`).
  For top-level and nested parsers alike (the uniform tape view `tapeOf`).
-/
import Bashlex.Props.C10

namespace Bashlex.C08
open Bashlex Bashlex.M Bashlex.C10
set_option linter.unusedSimpArgs false
set_option linter.unusedVariables false

/-- no line of `s` (as successive `readline(False)` calls split it) equals the delimiter -/
def NoDelimLine (delim : Str) (kill : Bool) (s : Str) : Prop :=
  ∀ n ls r, readLines n s = some (ls, r) → ∀ x ∈ ls, (heredocLine kill x).dropLast ≠ delim

/-- without a delimiter line there is no document (converse of `specHeredoc_none`) -/
theorem specHeredoc_none_of_noDelim {line delim : Str} {start : Nat} {kill : Bool}
    (h : NoDelimLine delim kill (line.drop start)) : specHeredoc line start delim kill = none := by
  cases hs : specHeredoc line start delim kill with
  | none => rfl
  | some w =>
    obtain ⟨v, i⟩ := w
    obtain ⟨ls, dl, r, hrl, _, _, hdl, _⟩ := specHeredoc_lines hs
    exact absurd hdl (h _ _ _ hrl dl (by simp))

/-- `NoDelimLine` is exactly the condition under which the reader fails -/
theorem noDelim_iff {line delim : Str} {start : Nat} {kill : Bool} :
    NoDelimLine delim kill (line.drop start) ↔ specHeredoc line start delim kill = none :=
  ⟨specHeredoc_none_of_noDelim, fun h n ls r hl => specHeredoc_none h hl⟩

/- Witnesses (checked with `#eval`): `(parse "cat <<E".toList {}).1` = ParsingError "here-document at
   line 0 delimited by end-of-file (wanted 'E')" @8 (source = the line buffer `cat <<E\n`);
   `(parse "cat <<E".toList {strict := false}).1` = parts (1): non-strict mode with the input
   exhausted where the body would start is accepted -- hence the disjunction `hs` below;
   `(parse "cat <<E\nx".toList {strict := false}).1` = the ParsingError: body begun, both modes. -/

/-- **C08_heredoc_unterminated**: the oldest pending here-document has no delimiter line in the
    rest of the input, and the mode is strict or the body has begun: `gatherheredocuments` raises
    the end-of-file ParsingError (source = the whole line buffer, position = its length) -/
theorem C08_heredoc_unterminated {l : Local} {e : Env} (h : Ready l e) {id : Nat} {kill : Bool}
    {q : List (Nat × Bool)} {cell : RedirCell} (hq : l.redirstack = (id, kill) :: q)
    (hcell : l.store[id]? = some cell)
    (hs : strictOf l e = true ∨
      skipContIdx (tapeOf l e).line (tapeOf l e).idx ≠ (tapeOf l e).line.length)
    (hno : NoDelimLine cell.delim kill
      ((tapeOf l e).line.drop (skipContIdx (tapeOf l e).line (tapeOf l e).idx))) :
    M.run gatherheredocuments l e =
      (.error (eofError cell.delim (tapeOf l e).line), atE l e (tapeOf l e).line.length) := by
  rw [gather_spec h, hq, specGather_cons]
  have hc : ¬ (skipContIdx (tapeOf l e).line (tapeOf l e).idx = (tapeOf l e).line.length ∧
      strictOf l e = false) := by
    rintro ⟨h1, h2⟩
    rcases hs with hs | hs
    · rw [hs] at h2; cases h2
    · exact hs h1
  rw [if_neg hc, hcell]
  simp only []
  rw [specHeredoc_none_of_noDelim hno]
  rfl

/-- **C08_heredoc_strict**: in strict mode an unterminated here-document is never accepted -/
theorem C08_heredoc_strict {l : Local} {e : Env} (h : Ready l e) {id : Nat} {kill : Bool}
    {q : List (Nat × Bool)} {cell : RedirCell} (hq : l.redirstack = (id, kill) :: q)
    (hcell : l.store[id]? = some cell) (hs : strictOf l e = true)
    (hno : NoDelimLine cell.delim kill
      ((tapeOf l e).line.drop (skipContIdx (tapeOf l e).line (tapeOf l e).idx))) :
    ∃ e', M.run gatherheredocuments l e =
      (.error (.parsing ("here-document at line 0 delimited by end-of-file (wanted " ++
        pyReprStr cell.delim ++ ")") (tapeOf l e).line (tapeOf l e).line.length), e') :=
  ⟨_, C08_heredoc_unterminated h hq hcell (Or.inl hs) hno⟩

/-- the exception of `gatherheredocuments` is the exception of the token (`_readtoken` calls it
    on NEWLINE) and of every action that calls it: exceptions propagate through `>>=` -/
theorem heredoc_propagates {α : Type} {l : Local} {e e' : Env} {x : Exn} (f : Unit → M α)
    (h : M.run gatherheredocuments l e = (.error x, e')) :
    M.run (gatherheredocuments >>= f) l e = (.error x, e') := by
  rw [M.run_bind, h]

end Bashlex.C08
