/-
  C08 text level, the consumed-indexed pass: `leaves_hooks` / `leaves_hooksC` (`Props/C05/Hooks.lean`,
  `TGRun.lean`) redone TRANSPARENTLY for `HooksOrdC` (`FSoundC.lean`): the stack invariant `SILC`
  is C05's `SIL` with the link `consumed = (lead ++ tss.flatten).map symOfTok` (the look-ahead
  excluded); every move of the engine keeps it (the witnesses of the original proof are explicit:
  `next` same; `shift` `tss ++ [[t]]`; dropped NEWLINE `lead ++ [t]`; reduce
  `tssR ++ [tssA.flatten]`).  Same proof text, one more conjunct.
-/
import Bashlex.Props.C08.FSoundC
import Bashlex.Props.C05.TGRun

namespace Bashlex.C05
open Bashlex Bashlex.Spec Bashlex.Node Bashlex.M Bashlex.LR Bashlex.C12 Bashlex.C03
set_option linter.unusedSimpArgs false
set_option linter.unusedVariables false

/-- C05's `SIL`, indexed by what the engine consumed -/
def SILC (TL : List Token → Nat → Nat → Local → Env → Prop) (len : Nat) (cs : List Nat)
    (vs : List (Nat × SVal)) (la : Option (Nat × SVal)) (l : Local) (e : Env) : Prop :=
  ∃ lead tss, cs = (lead ++ tss.flatten).map symOfTok ∧ (Covers lead [] ∧ NoEOF lead) ∧
    Forall2 Acc vs tss ∧ C03.SI (TL (lead ++ tss.flatten ++ laToks la)) len vs la l e

/-- C05's `FinL`, with the link: the tokens accounted for are, as terminals, what was consumed -/
def FinLC (TL : List Token → Nat → Nat → Local → Env → Prop) (len : Nat) (cs : List Nat) (v : SVal)
    (l : Local) (e : Env) : Prop :=
  C03.Fin len v l e ∧ ∀ n, v = .node n → ∃ ts la F l' e', TL (ts ++ la) len F l' e' ∧
    la.length ≤ 1 ∧ NoEOF ts ∧ Covers ts (aleaves n) ∧ ts.map symOfTok = cs

section
variable {TL : List Token → Nat → Nat → Local → Env → Prop} {len : Nat}

theorem leaves_hooksT (hL : TokLogC TL) {np : NestedParse} (hnp : NPOK np)
    (hW : ∀ tr F st, C03.WordSat (StP (TL tr) len F st) np len) :
    HooksOrdC realTables (lrHooks np) (SILC TL len) (FinLC TL len) (fun _ _ _ => True)
      (fun _ => True) (fun s => s = iuSym) := by
  have hC := hooks_ok sat_nextToken hnp
  refine ⟨?_, ?_, ?_, ?_, ?_, fun la => Sat.trivial _, fun _ _ _ _ _ _ => trivial⟩
  · -- next: the token delivered is appended to the log
    intro cs vs
    have h1 : SatS (lrHooks np).next (SILC TL len cs vs none)
        (fun la l e => ∃ lead tss, cs = (lead ++ tss.flatten).map symOfTok ∧ (Covers lead [] ∧ NoEOF lead) ∧ Forall2 Acc vs tss ∧
          SIs (TL (lead ++ tss.flatten ++ laToks (some la))) len vs (some la) l e ∧
          ∀ x ∈ vs, VI x.1 x.2) := by
      refine SatS.intro_state ?_
      rintro l e ⟨lead, tss, hcs, hlead, hacc, ⟨g, F, hseg, hlain, hti, hent⟩, hvi, _⟩
      show SatS (nextToken >>= fun t => pure (symOfTok t, SVal.tok t)) _ _
      refine SatS.bind (SatS.pre (hL.next (lead ++ tss.flatten ++ laToks none) len F l.store) ?_) ?_
      · rintro l1 e1 ⟨rfl, rfl⟩; exact ⟨hti, rfl⟩
      · intro t
        refine SatS.pure ?_
        rintro l' e' ⟨a, b, hFa, htok, hti', hstep⟩
        refine ⟨lead, tss, hcs, hlead, hacc, ⟨g, b, hseg, ⟨t, a, b, rfl, ?_, Nat.le_refl _, htok⟩, ?_, ?_⟩,
          hvi⟩
        · have : g ≤ F := hlain
          omega
        · simpa [laToks] using hti'
        · intro x hx; exact entryOK_step hstep (hent x hx)
    refine SatS.post (SatS.and_sat h1 hC.next) ?_
    rintro la l e ⟨⟨lead, tss, hcs, hlead, hacc, hs, hvi⟩, hla⟩
    exact ⟨lead, tss, hcs, hlead, hacc, hs, hvi, by intro x hx; cases hx; exact hla⟩
  · -- shift: the look-ahead becomes an entry accounting for itself
    rintro cs vs la l e ⟨lead, tss, hcs, hlead, hacc, ⟨g, F, hseg, hlain, hti, hent⟩, hvi, hvila⟩
    obtain ⟨t, a, b, rfl, hga, hbF, htok⟩ := hlain
    refine ⟨lead, tss ++ [[t]], (by rw [hcs]; simp), hlead, forall2_snoc hacc (acc_tok t), ⟨F, F,
      Seg.append hseg (seg_single.mpr (tokAt_valIn htok hga hbF)), Nat.le_refl F, ?_, ?_⟩,
      ?_, by intro x hx; cases hx⟩
    · simpa [laToks, List.append_assoc] using hti
    · intro x hx
      rcases List.mem_append.mp hx with hx | hx
      · exact hent x hx
      · simp only [List.mem_singleton] at hx; subst hx; exact Or.inl fresh_tok
    · intro x hx
      rcases List.mem_append.mp hx with hx | hx
      · exact hvi x hx
      · simp only [List.mem_singleton] at hx; subst hx; exact hvila _ rfl
  · -- a NEWLINE shifted in state 0 is dropped
    rintro cs la l e hnl ⟨lead, tss, hcs, hlead, hacc, ⟨g, F, hseg, hlain, hti, hent⟩, hvi, hvila⟩
    obtain ⟨t, a, b, rfl, hga, hbF, htok⟩ := hlain
    have htss : tss = [] := by cases hacc; rfl
    subst htss
    have hd : Droppable t := Or.inl (symOfTok_nl_inv hnl)
    have hlead' : Covers (lead ++ [t]) [] ∧ NoEOF (lead ++ [t]) := by
      refine ⟨?_, ?_⟩
      · have := Covers.append hlead.1 (Covers.drop hd)
        simpa using this
      · intro t' ht'
        rcases List.mem_append.mp ht' with ht' | ht'
        · exact hlead.2 t' ht'
        · simp only [List.mem_singleton] at ht'
          subst ht'
          rw [symOfTok_nl_inv hnl]
          intro hc; cases hc
    refine ⟨lead ++ [t], [], (by rw [hcs]; simp), hlead', .nil, ⟨0, F, Nat.le_refl 0, Nat.zero_le F, ?_,
      (by intro x hx; cases hx)⟩, ⟨(by intro x hx; cases hx), (by intro x hx; cases hx)⟩⟩
    simpa [laToks] using hti
  · -- the semantic actions
    intro cs p lhs rhs rest args la hprod hargs hrest hla
    rw [lrHooks_act]
    refine SatS.intro_state ?_
    rintro l0 e0 ⟨lead, tss, hcs, hlead, hacc, hs0, hvi, hvila⟩
    obtain ⟨tssR, tssA, rfl, haccR, haccA⟩ := forall2_append_left hacc
    have hti0 : ∃ F, TL (lead ++ (tssR ++ tssA).flatten ++ laToks la) len F l0 e0 := by
      obtain ⟨g, F, _, _, hti, _⟩ := hs0
      exact ⟨F, hti⟩
    have hvargs : ∀ x ∈ args, VI x.1 x.2 := fun x hx => hvi x (List.mem_append_right _ hx)
    have hvrest : ∀ x ∈ rest, VI x.1 x.2 := fun x hx => hvi x (List.mem_append_left _ hx)
    have hF2 : Forall2 VI rhs (args.map (·.2)) := by rw [← hargs]; exact forall2_vi args hvargs
    have hCact := hC.act p lhs rhs _ hprod hF2
    have hp' : Gen.prodTable[p]? = some (lhs, rhs) := hprod
    have hlt : p < Gen.prodFuncs.length := by
      rw [prodFuncs_length]; exact (List.getElem?_eq_some_iff.mp hp').1
    have hfn : Gen.prodFuncs[p]? = some (fn p) := by
      simp [fn, List.getD_eq_getElem?_getD, List.getElem?_eq_getElem hlt]
    have hz : (List.zip Gen.prodFuncs Gen.prodTable)[p]? = some (fn p, (lhs, rhs)) :=
      List.getElem?_zip_eq_some.mpr ⟨hfn, hp'⟩
    have hg := grammar_ok
    unfold grammarCheck at hg
    have hthis := List.all_eq_true.mp hg _ (List.mem_of_getElem? hz)
    simp only [Bool.or_eq_true, beq_iff_eq] at hthis
    rcases hthis with he | hab
    · rw [he]
      exact SatS.weaken (SatS.of_sat action_unknown _) (fun _ _ _ => trivial)
        (fun _ _ _ h => h.elim) (fun _ h => h)
    · have hspan := satS_action_of_core
        (act_spans (TI := TL (lead ++ (tssR ++ tssA).flatten ++ laToks la)) (len := len)
          (hL.act _) (hW _) hprod hargs hrest hla hab (forall2_hasSort_of_vi hF2))
      have hleaf : Sat (action np (fn p) (args.map (·.2))) (PostL lhs tssA) :=
        sat_action_of_core (act_leaves hprod hargs hab (forall2_hasSort_of_vi hF2) haccA)
      have hacc' := sat_action_accepts (np := np) (fname := fn p) (args := args.map (·.2))
      refine SatS.weaken (SatS.and_sat (SatS.and_sat (SatS.and_sat hspan
        (hCact.weaken (fun _ h => h.1) (fun _ _ => trivial))) hleaf) hacc') ?_ ?_ (fun _ h => h)
      · rintro l e ⟨rfl, rfl⟩; exact hs0
      · rintro r l e ⟨⟨⟨hpost, hvr⟩, hpl⟩, hfa⟩
        unfold PostS at hpost
        by_cases hacc1 : r.2 = true
        · simp only [hacc1, if_true] at hpost ⊢
          refine ⟨hpost, ?_⟩
          intro n hn
          have hrest0 := rest_nil_of_accept hprod hrest (hfa hacc1)
          subst hrest0
          have htR : tssR = [] := by cases haccR; rfl
          subst htR
          obtain ⟨F, hti⟩ := hti0
          refine ⟨lead ++ tssA.flatten, laToks la, F, l0, e0, by simpa using hti, laToks_le la, ?_, ?_,
            (by rw [hcs]; simp)⟩
          · intro t ht
            rcases List.mem_append.mp ht with ht | ht
            · exact hlead.2 t ht
            · exact hpl.2.2 t ht
          · have := Covers.append hlead.1 (hpl.1 n hn)
            simpa using this
        · simp only [hacc1, if_false] at hpost ⊢
          have hfalse : r.2 = false := by simpa using hacc1
          refine ⟨lead, tssR ++ [tssA.flatten], (by rw [hcs]; simp), hlead, forall2_snoc haccR (hpl.2.1 hfalse),
            ⟨?_, ?_, hvila⟩⟩
          · have he : (tssR ++ [tssA.flatten]).flatten = (tssR ++ tssA).flatten := by simp
            rw [he]
            exact hpost
          · intro x hx
            rcases List.mem_append.mp hx with hx | hx
            · exact hvrest x hx
            · simp only [List.mem_singleton] at hx; subst hx; exact hvr
  · -- the `accept` entry: the top of the stack is an `inputunit` entry, which holds `None`
    rintro cs vs x la l e hx _ ⟨lead, tss, hcs, hlead, hacc, hsi⟩
    obtain ⟨tssR, tssA, rfl, haccR, haccA⟩ := forall2_append_left hacc
    obtain ⟨ts, rfl, hax⟩ := forall2_1 haccA
    have hnone : x.2 = .none := acc_none_of_iu hax hx
    refine ⟨?_, ?_⟩
    · intro n hn; rw [hnone] at hn; cases hn
    · intro n hn; rw [hnone] at hn; cases hn


end

end Bashlex.C05
