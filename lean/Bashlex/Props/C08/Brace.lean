/-
  C08, part 2 (text level, `${`): an unterminated parameter expansion is rejected, for ALL
  lengths: `C08_unterminated_brace`: input `w ++ "${" ++ u` with `w` plain and `u` made of
  characters the `${…}` scanner just appends (`brPlain`: no `}`, `{`, backslash, `$`, quote,
  and none of the operator characters `# % ^ , ~ : - = ? + /` that move the `dolbrace` state
  machine): `parse` raises "unexpected EOF while looking for matching '}'".
-/
import Bashlex.Props.C08.TextGen
import Bashlex.Props.C08.DQuote

namespace Bashlex.C08
open Bashlex Bashlex.M Bashlex.C10
set_option linter.unusedSimpArgs false
set_option linter.unusedVariables false

/-- the parameters `handleshellexp` passes for `${` outside quotes -/
def brParams : MPParams :=
  { doublequotes := none, opn := '{', close := '}', firstclose := true, dolbrace := true }

/-- a character the `${…}` scanner just appends, staying in state `param` -/
def brPlain (c : Char) : Bool :=
  c != '}' && c != '{' && c != '\\' && c != '$' && !(synClass c).quote && !isDolOp c

theorem mpHead_br (st : MPState) (c : Char) (hc : brPlain c = true) (h1 : st.insidecomment = false)
    (h2 : st.passnextchar = false) (h3 : st.count = 1) (h4 : st.dolbracestate = .param) :
    C04.TTP.mpHead brParams false st c = pure (.next { st with ret := st.ret ++ [c] } c) := by
  unfold brPlain at hc
  simp only [Bool.and_eq_true, bne_iff_ne, ne_eq, Bool.not_eq_true'] at hc
  obtain ⟨⟨⟨⟨⟨c1, c2⟩, c3⟩, c4⟩, c5⟩, c6⟩ := hc
  have e1 : (c == '}') = false := by simpa using c1
  have e3 : (c == '\\') = false := by simpa using c3
  have hop : ∀ x ∈ ['#', '%', '^', ',', '~', ':', '-', '=', '?', '+', '/'], c ≠ x := by
    intro x hx hcx
    unfold isDolOp at c6
    rw [hcx] at c6
    have : (['#', '%', '^', ',', '~', ':', '-', '=', '?', '+', '/'] : List Char).contains x = true := by
      simpa using hx
    rw [this] at c6; cases c6
  have o1 : (c == '%') = false := by simpa using hop '%' (by simp)
  have o2 : (c == '#') = false := by simpa using hop '#' (by simp)
  have o3 : (c == '^') = false := by simpa using hop '^' (by simp)
  have o4 : (c == ',') = false := by simpa using hop ',' (by simp)
  have o5 : (c == '/') = false := by simpa using hop '/' (by simp)
  unfold C04.TTP.mpHead C04.TTP.mpTail
  have e2 : (c == '{') = false := by simpa using c2
  simp [brParams, h1, h2, h3, h4, e1, e2, c2, e3, c6, o1, o2, o3, o4, o5]

theorem run_mpPost_br (pmp : MPParams → M Str) (pcs : CSParams → M Str) (st : MPState) (c : Char)
    (hc : brPlain c = true) (l : Local) (e : Env) :
    M.run (mpPost pmp pcs brParams false st c) l e =
      (.ok ({ st with sawdollar := false }, l), touch e c) := by
  unfold brPlain at hc
  simp only [Bool.and_eq_true, bne_iff_ne, ne_eq, Bool.not_eq_true'] at hc
  obtain ⟨⟨⟨⟨⟨c1, c2⟩, c3⟩, c4⟩, c5⟩, c6⟩ := hc
  have e4 : (c == '$') = false := by simpa using c4
  unfold mpPost
  have hne : (brParams.opn != brParams.close) = true := by decide
  simp only [hne, if_true]
  rw [bindOk (run_shellquote c l e)]
  simp only [c5, Bool.false_eq_true, if_false]
  have ha : brParams.arraysub = false := rfl
  simp only [ha, Bool.false_and, Bool.false_eq_true, if_false, e4]
  rfl

/-- the loop body of `parseMatchedPair (fuel + 1) brParams` -/
def brBody (fuel : Nat) (st : MPState) : M (MPState ⊕ Str) := do
  if st.count == 0 then return .inr st.ret
  match ← mpPre brParams false st with
  | .cont s => return .inl s
  | .done r => return .inr r
  | .next s c =>
    let s' ← mpPost (parseMatchedPair fuel) (parseComsub fuel) brParams false s c
    return .inl s'

theorem parseMatchedPair_br (fuel : Nat) :
    parseMatchedPair (fuel + 1) brParams =
      (do let lf ← loopFuel
          M.loop "_parse_matched_pair" (brBody fuel) lf { dolbracestate := .param }) := by
  unfold parseMatchedPair mpInit brBody
  simp [brParams]
  congr

theorem brBody_eof (dfuel : Nat) (st : MPState) (l : Local) (e : Env)
    (hl : l.eolLookahead = none) (hend : (tapeOf l e).line.length ≤ (tapeOf l e).idx)
    (h3 : st.count = 1) :
    M.run (brBody dfuel st) l e =
      (.error (mkParsingError (eofMsg '}') (tapeOf l e).source (((tapeOf l e).idx : Int) - 1)), e) := by
  have hg : M.run (getc (brParams.doublequotes != some '\'' && !st.passnextchar)) l e =
      (.ok (none, l), e) := by
    rw [run_getc _ l e hl, tape_getc_end _ _ hend]
    simp only [putL_self, putE_self]
  unfold brBody
  have hc : (st.count == 0) = false := by rw [h3]; rfl
  simp only [hc, Bool.false_eq_true, if_false]
  rw [M.run_bind, mpPre_eof brParams false st hg]
  rfl

theorem brBody_step (dfuel : Nat) (st : MPState) (l : Local) (e : Env) (c : Char)
    (hl : l.eolLookahead = none) (hc : (tapeOf l e).line[(tapeOf l e).idx]? = some c)
    (hp : brPlain c = true) (h1 : st.insidecomment = false) (h2 : st.passnextchar = false)
    (h3 : st.count = 1) (h4 : st.dolbracestate = .param) :
    M.run (brBody dfuel st) l e =
      (.ok (.inl { st with ret := st.ret ++ [c], sawdollar := false },
            putL l { tapeOf l e with idx := (tapeOf l e).idx + 1 }),
       touch (putE l e { tapeOf l e with idx := (tapeOf l e).idx + 1 }) c) := by
  have hnb : c ≠ '\\' := by
    unfold brPlain at hp
    simp only [Bool.and_eq_true, bne_iff_ne, ne_eq] at hp
    exact hp.1.1.1.2
  have hg : M.run (getc (brParams.doublequotes != some '\'' && !st.passnextchar)) l e =
      (.ok (some c, putL l { tapeOf l e with idx := (tapeOf l e).idx + 1 }),
       putE l e { tapeOf l e with idx := (tapeOf l e).idx + 1 }) := by
    rw [run_getc _ l e hl, tape_getc_nb _ c hc hnb]
  unfold brBody
  have hc0 : (st.count == 0) = false := by rw [h3]; rfl
  simp only [hc0, Bool.false_eq_true, if_false]
  rw [M.run_bind, C04.TTP.mpPre_eq, M.run_bind, hg]
  simp only []
  rw [M.run_bind, M.run_pure]
  simp only []
  rw [mpHead_br st c hp h1 h2 h3 h4, M.run_pure]
  simp only []
  rw [M.run_bind, run_mpPost_br _ _ { st with ret := st.ret ++ [c] } c hp]
  simp only []
  rw [M.run_pure]

theorem br_scan (dfuel : Nat) : ∀ (u : Str) (fuel : Nat) (st : MPState) (l : Local) (e : Env),
    l.eolLookahead = none → (tapeOf l e).idx ≤ (tapeOf l e).line.length →
    (tapeOf l e).line.drop (tapeOf l e).idx = u → (∀ x ∈ u, brPlain x = true) →
    st.insidecomment = false → st.passnextchar = false → st.count = 1 →
    st.dolbracestate = .param →
    ∃ e', M.run (M.loop "_parse_matched_pair" (brBody dfuel) fuel st) l e =
      (.error (if u.length < fuel then
          mkParsingError (eofMsg '}') (tapeOf l e).source (((tapeOf l e).line.length : Int) - 1)
        else .outOfFuel "_parse_matched_pair"), e') := by
  intro u
  induction u with
  | nil =>
    intro fuel st l e hl hle hu _ h1 h2 h3 h4
    cases fuel with
    | zero => exact ⟨e, by rw [run_loop_zero]; simp⟩
    | succ fuel =>
      have hend : (tapeOf l e).line.length ≤ (tapeOf l e).idx := by
        have := congrArg List.length hu
        simp only [List.length_drop, List.length_nil] at this
        omega
      have hidx : (tapeOf l e).idx = (tapeOf l e).line.length := by omega
      refine ⟨e, ?_⟩
      rw [loop_raises _ _ _ _ (brBody_eof dfuel st l e hl hend h3), hidx]
      simp
  | cons c u ih =>
    intro fuel st l e hl hle hu hq h1 h2 h3 h4
    cases fuel with
    | zero => exact ⟨e, by rw [run_loop_zero]; simp⟩
    | succ fuel =>
      have hlt : (tapeOf l e).idx < (tapeOf l e).line.length := by
        have := congrArg List.length hu
        simp only [List.length_drop, List.length_cons] at this
        omega
      have hc : (tapeOf l e).line[(tapeOf l e).idx]? = some c := by
        rw [← List.head?_drop, hu]; rfl
      have hp : brPlain c = true := hq c List.mem_cons_self
      have hq' : ∀ x ∈ u, brPlain x = true := fun x hx => hq x (List.mem_cons_of_mem _ hx)
      have hstep := brBody_step dfuel st l e c hl hc hp h1 h2 h3 h4
      have htape : tapeOf (putL l { tapeOf l e with idx := (tapeOf l e).idx + 1 })
          (touch (putE l e { tapeOf l e with idx := (tapeOf l e).idx + 1 }) c) =
          { tapeOf l e with idx := (tapeOf l e).idx + 1 } := by
        rw [tapeOf_touch]; exact tapeOf_put _ _ _
      obtain ⟨e', he'⟩ := ih fuel { st with ret := st.ret ++ [c], sawdollar := false }
        (putL l { tapeOf l e with idx := (tapeOf l e).idx + 1 })
        (touch (putE l e { tapeOf l e with idx := (tapeOf l e).idx + 1 }) c)
        (by rw [putL_eol]; exact hl)
        (by rw [htape]; exact hlt)
        (by
          rw [htape]
          show (tapeOf l e).line.drop ((tapeOf l e).idx + 1) = u
          rw [← List.drop_drop, hu]; rfl)
        hq' h1 h2 h3 h4
      refine ⟨e', ?_⟩
      rw [run_loop_succ, hstep]
      simp only []
      rw [he', htape]
      simp only [List.length_cons, Nat.add_lt_add_iff_right]
      rfl

theorem parseMatchedPair_br_raises (dfuel : Nat) (u : Str) (l : Local) (e : Env)
    (hl : l.eolLookahead = none) (hle : (tapeOf l e).idx ≤ (tapeOf l e).line.length)
    (hu : (tapeOf l e).line.drop (tapeOf l e).idx = u) (hq : ∀ x ∈ u, brPlain x = true)
    (hlen : u.length < 1073741824) :
    ∃ e', M.run (parseMatchedPair (dfuel + 1) brParams) l e =
      (.error (mkParsingError (eofMsg '}') (tapeOf l e).source
        (((tapeOf l e).line.length : Int) - 1)), e') := by
  obtain ⟨e', he'⟩ := br_scan dfuel u 1073741824 { dolbracestate := .param } l e hl hle hu hq
    rfl rfl rfl rfl
  refine ⟨e', ?_⟩
  rw [parseMatchedPair_br]
  have hf : (loopFuel : M Nat) = pure 1073741824 := rfl
  rw [hf, pure_bind, he', if_pos hlen]

/-! ### the iteration of `_readtokenword` on `$` followed by `{` -/

theorem trigger_brace {u : Str} (hq : ∀ x ∈ u, brPlain x = true) (hlen : u.length < 1073741824) :
    Trigger '$' '}' ('{' :: u) := by
  refine ⟨by decide, by decide, ?_⟩
  intro T l e hI st hc hpn hle hu
  have hlt : T.idx < T.line.length := by
    have := congrArg List.length hu
    simp only [List.length_drop, List.length_cons] at this
    omega
  have hd : T.line[T.idx]? = some '{' := by
    rw [← List.head?_drop, hu]; rfl
  have hI2 : TInv T l (touch (touch e '$') '$') := (hI.touch '$').touch '$'
  have hI3 := hI2.put { T with idx := T.idx + 1 }
  have hraise := parseMatchedPair_br_raises 1048575 u (putL l { T with idx := T.idx + 1 })
    (putE l (touch (touch e '$') '$') { T with idx := T.idx + 1 }) hI3.eol
    (by rw [hI3.tape]; exact hlt)
    (by rw [hI3.tape]
        show T.line.drop (T.idx + 1) = u
        rw [← List.drop_drop, hu]; rfl) hq hlen
  obtain ⟨e', he'⟩ := hraise
  rw [hI3.tape] at he'
  refine ⟨e', ?_⟩
  rw [C04.TTP.readtokenwordStep_eq]
  simp only [hc, hpn, Bool.false_eq_true, if_false]
  rw [bindOk (run_currentDelimiter l e)]
  have hb : (('$' : Char) == '\\') = false := by decide
  simp only [hb, Bool.false_eq_true, if_false]
  rw [bindOk (run_shellquote '$' l e)]
  have hsq : (synClass '$').quote = false := by decide
  simp only [hsq, Bool.false_eq_true, if_false]
  rw [bindOk (run_shellexp '$' l _)]
  have hse : (synClass '$').exp = true := by decide
  simp only [hse, if_true]
  refine bindErr ?_
  unfold handleshellexp
  rw [bindOk (run_getc_nb hI2 true hd (by decide))]
  have hcond : ((some '{' : Option Char) == some '(' ||
      (('$' : Char) == '$' && ((some '{' : Option Char) == some '{' || (some '{' : Option Char) == some '['))) = true := by
    decide
  have hp : ((some '{' : Option Char) == some '{') = true := by decide
  simp only [hcond, if_true]
  simp only [hp, if_true]
  rw [hI.ds]
  rw [bindOk (run_depthFuel _ _)]
  refine bindErr ?_
  exact he'

/-- **C08_unterminated_brace** (all lengths, all options): a word of plain characters, then `${`
    that is never closed, followed by `brPlain` text: `parse` raises
    "unexpected EOF while looking for matching '}'" -/
theorem C08_unterminated_brace (w u : Str) (o : Opts) (hw : ∀ x ∈ w, plainChar x = true)
    (hu : ∀ x ∈ u, brPlain x = true) (hwl : w.length < 1073741824)
    (hul : u.length + 1 < 1073741824) :
    (parse (w ++ '$' :: '{' :: u) o).1 =
      .exn (.parsing (eofMsg '}') (w ++ '$' :: '{' :: u)
        (((Tape.ofInput (w ++ '$' :: '{' :: u)).line.length : Int) - 1)) := by
  refine unterminated_trigger w ('{' :: u) o hw hwl (fun tail htail => ?_)
  show Trigger '$' '}' ('{' :: (u ++ tail))
  refine trigger_brace ?_ ?_
  · intro x hx
    rcases List.mem_append.mp hx with h | h
    · exact hu x h
    · rcases htail with rfl | rfl
      · cases h
      · simp only [List.mem_singleton] at h; subst h; decide
  · rcases htail with rfl | rfl <;> simp <;> omega

end Bashlex.C08
