/-
  C08, part 3 (more families, all lengths): unclosed openers are never accepted.

  A linear weight on terminals (`W pos neg`: +1 on `pos`, -1 on `neg`) whose sum is ≤ 0 over the
  right-hand side of EVERY production of the regenerated grammar (kernel-decided, `balance_ok`)
  is ≤ 0 over the yield of every valid derivation tree (`valid_weight`), hence over everything an
  accepting run of the engine consumed (`engine_balanced`: for the real tables and actions, every
  token source, every nested parser).  With the families of `balanceFamilies`, every sentence has
    #`(` ≤ #`)`      (`)` also closes a case pattern)
    #`{` = #`}`,  #`if` = #`fi`,  #`case` = #`esac`,  #`do` = #`done`,  #`[[` = #`]]`,
    #`if` + #`elif` = #`then`,  #`while` + #`until` ≤ #`do`,  #`case` ≤ #`in`.
  So a token stream that ends (`$end` is the look-ahead, not consumed) with an unclosed `(`,
  `{`, `if`, `if … then`, `while … do`, `case … in`, `[[` is never accepted: the run raises.
-/
import Bashlex.Props.C08.Accept

namespace Bashlex.C08
open Bashlex Bashlex.M Bashlex.LR
set_option linter.unusedSimpArgs false
set_option linter.unusedVariables false

/-- +1 on `pos`, -1 on `neg` -/
def W (pos neg : List Nat) (x : Nat) : Int :=
  (if pos.contains x then 1 else 0) - (if neg.contains x then 1 else 0)

def wsum (w : Nat → Int) (l : List Nat) : Int := (l.map w).sum

theorem wsum_append (w : Nat → Int) (a b : List Nat) : wsum w (a ++ b) = wsum w a + wsum w b := by
  simp [wsum, List.map_append, List.sum_append]

/-- the check on the grammar: left-hand sides weigh nothing, right-hand sides at most nothing -/
def prodsLe (w : Nat → Int) (prods : List (Nat × List Nat)) : Bool :=
  prods.all fun p => w p.1 == 0 && decide (wsum w p.2 ≤ 0)

theorem valid_weight {T : Tables} {w : Nat → Int} (hc : prodsLe w T.prods = true) :
    ∀ {tr : Tree}, Tree.Valid T tr → wsum w tr.yield ≤ w tr.root ∧
      (∀ p lhs ks, tr = .node p lhs ks → wsum w tr.yield ≤ 0 ∧ w lhs = 0) := by
  intro tr h
  induction h with
  | leaf s hs =>
    refine ⟨by simp [Tree.yield, Tree.root, wsum], ?_⟩
    intro p lhs ks h; cases h
  | node p lhs ks rhs hp hroots hk ih =>
    have hmem : (lhs, rhs) ∈ T.prods := List.mem_of_getElem? hp
    have hall := List.all_eq_true.mp hc _ hmem
    simp only [Bool.and_eq_true, beq_iff_eq, decide_eq_true_eq] at hall
    obtain ⟨hl, hr⟩ := hall
    -- the yields of the children weigh at most their roots
    have key : ∀ (l : List Tree), (∀ k ∈ l, wsum w k.yield ≤ w k.root) →
        wsum w (Tree.yields l) ≤ wsum w (l.map Tree.root) := by
      intro l
      induction l with
      | nil => intro _; simp [Tree.yields, wsum]
      | cons k ks' ihl =>
        intro hk'
        have h1 := hk' k List.mem_cons_self
        have h2 := ihl (fun k' hk'' => hk' k' (List.mem_cons_of_mem _ hk''))
        simp only [Tree.yields, wsum_append, List.map_cons]
        have : wsum w (k.root :: List.map Tree.root ks') = w k.root + wsum w (List.map Tree.root ks') := by
          simp [wsum]
        rw [this]; omega
    have hy := key ks (fun k hk' => (ih k hk').1)
    rw [hroots] at hy
    have hyield : wsum w (Tree.node p lhs ks).yield ≤ 0 := by
      simp only [Tree.yield]; omega
    refine ⟨by simp only [Tree.root]; omega, ?_⟩
    intro p' lhs' ks' heq
    cases heq
    exact ⟨hyield, hl⟩

def tnum (name : String) : Nat := Gen.termNames.idxOf name

/-- the balance facts of the shell grammar, as (positive, negative) terminal names -/
def balanceFamilies : List (List String × List String) :=
  [(["LEFT_PAREN"], ["RIGHT_PAREN"]),
   (["LEFT_CURLY"], ["RIGHT_CURLY"]), (["RIGHT_CURLY"], ["LEFT_CURLY"]),
   (["IF"], ["FI"]), (["FI"], ["IF"]),
   (["CASE"], ["ESAC"]), (["ESAC"], ["CASE"]),
   (["DO"], ["DONE"]), (["DONE"], ["DO"]),
   (["COND_START"], ["COND_END"]), (["COND_END"], ["COND_START"]),
   (["IF", "ELIF"], ["THEN"]), (["THEN"], ["IF", "ELIF"]),
   (["WHILE", "UNTIL"], ["DO"]), (["WHILE", "UNTIL"], ["DONE"]),
   (["CASE"], ["IN"])]

def famW (f : List String × List String) : Nat → Int := W (f.1.map tnum) (f.2.map tnum)

/-- **kernel-decided on the regenerated grammar** -/
theorem balance_ok : balanceFamilies.all (fun f =>
    prodsLe (famW f) Gen.prodTable && famW f realTables.nlTok == 0) = true := by
  decide +kernel

theorem fam_spec {f : List String × List String} (hf : f ∈ balanceFamilies) :
    prodsLe (famW f) realTables.prods = true ∧ famW f realTables.nlTok = 0 := by
  have := List.all_eq_true.mp balance_ok f hf
  simp only [Bool.and_eq_true, beq_iff_eq] at this
  exact this

theorem wsum_nl {w : Nat → Int} (hw : w realTables.nlTok = 0) :
    ∀ (pre : List Nat), pre.all (· == realTables.nlTok) = true → wsum w pre = 0 := by
  intro pre
  induction pre with
  | nil => intro _; rfl
  | cons a pre ih =>
    intro h
    simp only [List.all_cons, Bool.and_eq_true, beq_iff_eq] at h
    have := ih h.2
    simp only [wsum, List.map_cons, List.sum_cons] at this ⊢
    rw [h.1, hw]; omega

/-- **every sentence is balanced** -/
theorem sentence_balanced {c : List Nat} (h : Sentence c) {f : List String × List String}
    (hf : f ∈ balanceFamilies) : wsum (famW f) c ≤ 0 := by
  obtain ⟨tr, pre, hv, hroot, hc, hpre⟩ := h
  obtain ⟨hp, hnl⟩ := fam_spec hf
  have hvw := valid_weight hp hv
  rw [hc, wsum_append, wsum_nl hnl pre hpre]
  cases tr with
  | leaf s =>
    -- the root of an accepted tree is a non-terminal: `acceptSyms` holds no terminal
    exfalso
    have : ∀ x ∈ acceptSyms, Gen.termNames.length ≤ x := by decide +kernel
    have h1 := this _ hroot
    cases hv with
    | leaf _ hs => exact absurd hs (Nat.not_lt.mpr h1)
  | node p lhs ks =>
    have := (hvw.2 p lhs ks rfl).1
    omega

/-- what the engine consumed -/
def consumedOf {V : Type} : Res V → List Nat
  | .accepted _ _ c _ => c
  | .blank _ c => c

theorem engineGood_balanced {res : Res SVal} (h : EngineGood res) {f : List String × List String}
    (hf : f ∈ balanceFamilies) : wsum (famW f) (consumedOf res) ≤ 0 := by
  cases res with
  | accepted v tr c b => exact sentence_balanced h.sentence hf
  | blank k c =>
    have := wsum_nl (fam_spec hf).2 c h
    simp only [consumedOf]; omega

/-- **C08_unclosed_never_accepted**: for the real tables and actions, EVERY token source and every
    nested parser: whatever the engine consumed at a normal return is balanced in each family --
    a token stream with an opener left unclosed when `$end` is met has no normal return -/
theorem C08_unclosed_never_accepted (np : NestedParse) (next : M (Nat × SVal)) (fuel : Nat) :
    Sat (LR.run realTables { (lrHooks np) with next := next } fuel)
      (fun res => ∀ f ∈ balanceFamilies, wsum (famW f) (consumedOf res) ≤ 0) (fun _ => True) :=
  (engine_good np next fuel).weaken (fun res h f hf => engineGood_balanced h hf) (fun _ h => h)

/-- the same for the parts of `parse`: each run that returned a part consumed a balanced stream -/
theorem RunSentence.balanced {s : Str} {o : Opts} {t t' : List Char} {n : Node}
    (h : RunSentence s o t n t') : ∃ m tr c b l' e',
      topRun s o t = (.ok (.accepted (.node m) tr c b, l'), e') ∧
      ∀ f ∈ balanceFamilies, wsum (famW f) c ≤ 0 := by
  obtain ⟨m, tr, c, b, l', e', h1, _, _, h4, h5, pre, h6, h7⟩ := h
  exact ⟨m, tr, c, b, l', e', h1, fun f hf => sentence_balanced ⟨tr, pre, h4, h5, h6, h7⟩ hf⟩

end Bashlex.C08
