/-
  C08, part 3, instances: the rejection theorems of `Reject.lean` are about an arbitrary token
  source (`Stream`) and error function (`ErrRaises`).  Here:
  * bashlex's error function `p_error` always raises a ParsingError (`real_errRaises`);
  * a concrete list-driven token source (`listNext`: pops terminal numbers from a list kept in
    the parser object) satisfies `Stream` -- the theorems are not vacuous -- and with it the
    engine with the REAL semantic actions and error function rejects every token list
    `NEWLINE^n x …` (`x` a control operator, closer, …) and `NEWLINE^n r x …` (`r` a redirection
    operator, `x` not a word) with a ParsingError (`listHooks_rejects_leading`,
    `listHooks_rejects_redir`), for all `n` and all continuations.
-/
import Bashlex.Props.C08.Reject
import Bashlex.Props.C08.Consumed
import Bashlex.Props.C01.Basic

namespace Bashlex.C08
open Bashlex Bashlex.M Bashlex.LR
set_option linter.unusedSimpArgs false
set_option linter.unusedVariables false

/-- a ParsingError object (or the assertion of its constructor) -/
def IsPError (x : Exn) : Prop := ∃ msg src p, x = mkParsingError msg src p

theorem pError_raises (t : Token) : Sat (pError t) (fun _ => False) IsPError := by
  unfold pError
  refine C01.sat_bindN C01.noExn_tapeSource (fun src => ?_)
  split
  · exact Sat.raise ⟨_, _, _, rfl⟩
  · exact Sat.raise ⟨_, _, _, rfl⟩

/-- bashlex's error function always raises -/
theorem real_errRaises (np : NestedParse) :
    ErrRaises (lrHooks np) (fun x => IsPError x ∨ x = .foreign "AssertionError" "p_error") := by
  intro la
  show Sat (match la.2 with
    | .tok t => pError t
    | _ => M.foreign "AssertionError" "p_error") _ _
  split
  · exact (pError_raises _).weaken (fun _ h => h) (fun _ h => Or.inl h)
  · exact Sat.foreign (Or.inr rfl)

/-! ### a list-driven token source -/

/-- pops the next terminal number from `positions` (a list of naturals in the parser object that
    the engine and the error function do not touch); `$end` when exhausted -/
def listNext : M (Nat × SVal) := do
  let l ← get
  match l.positions with
  | [] => pure (0, .tok {})
  | t :: ts =>
    set { l with positions := ts }
    pure (t, .tok { value := .str ['?'] })

def listHooks (np : NestedParse) : Hooks SVal := { (lrHooks np) with next := listNext }

theorem listHooks_stream (np : NestedParse) :
    Stream (listHooks np) (fun ts l _ => l.positions = ts) := by
  refine ⟨fun t ts l e hp => ?_⟩
  have : M.run listNext l e =
      (.ok ((t, .tok { value := .str ['?'] }), { l with positions := ts }), e) := by
    unfold listNext
    rw [M.run_bind, M.run_get]
    simp only [hp]
    rfl
  have hn : (listHooks np).next = listNext := rfl
  rw [hn, this]
  exact ⟨rfl, rfl⟩

theorem listHooks_errRaises (np : NestedParse) :
    ErrRaises (listHooks np) (fun x => IsPError x ∨ x = .foreign "AssertionError" "p_error") :=
  real_errRaises np

/-- what `SatS … (fun _ _ _ => False) E` says of one run: it raises, and `E` holds -/
theorem raises_of_satS {α : Type} {m : M α} {P : Local → Env → Prop} {E : Exn → Prop}
    (h : SatS m P (fun _ _ _ => False) E) {l : Local} {e : Env} (hp : P l e) :
    ∃ x e', M.run m l e = (.error x, e') ∧ E x := by
  have := h l e hp
  rcases hr : M.run m l e with ⟨r, e'⟩
  rw [hr] at this
  cases r with
  | ok v => exact this.elim
  | error x => exact ⟨x, e', rfl, this⟩

/-- **every token list `NEWLINE^n x …`, `x ∈ leadingRejected`, is rejected with a ParsingError**
    by the engine with the real tables, semantic actions and error function (the token carries a
    value, so `p_error` builds "unexpected token …") -/
theorem listHooks_rejects_leading (np : NestedParse) (n : Nat) {x : Nat} (hx : x ∈ leadingRejected)
    (rest : List Nat) (l : Local) (e : Env)
    (hl : l.positions = List.replicate n realTables.nlTok ++ x :: rest) :
    ∃ y e', M.run (LR.run realTables (listHooks np) (n + 1)) l e = (.error y, e') ∧
      (IsPError y ∨ y = .foreign "AssertionError" "p_error") :=
  raises_of_satS (run_rejects_leading (listHooks_stream np) (listHooks_errRaises np) n hx rest 0) hl

/-- **every token list `NEWLINE^n r x …` with `r` a redirection operator and `x` not a word
    (NUMBER / DASH after `<&`, `>&`) is rejected with a ParsingError** -/
theorem listHooks_rejects_redir (np : NestedParse) (n : Nat) {r x : Nat} (hr : r ∈ redirTerms)
    (hx : x ∈ redirBad r) (rest : List Nat) (l : Local) (e : Env)
    (hl : l.positions = List.replicate n realTables.nlTok ++ r :: x :: rest) :
    ∃ y e', M.run (LR.run realTables (listHooks np) (n + 2)) l e = (.error y, e') ∧
      (IsPError y ∨ y = .foreign "AssertionError" "p_error") := by
  have hp : pairRejected r (redirBad r) = true := by
    have := redir_pairs
    rw [List.all_eq_true] at this
    exact this r hr
  have hs : ∃ t, realTables.action 0 r = some (.shift t) := by
    have := redir_shift0
    rw [List.all_eq_true] at this
    have h := this r hr
    cases ha : realTables.action 0 r with
    | none => rw [ha] at h; cases h
    | some a =>
      cases a with
      | shift t => exact ⟨t, rfl⟩
      | reduce p => rw [ha] at h; cases h
      | accept => rw [ha] at h; cases h
  obtain ⟨t, ht⟩ := hs
  exact raises_of_satS (run_rejects_first_pair (listHooks_stream np) (listHooks_errRaises np) n hp hx
    ht rest 0) hl

end Bashlex.C08
