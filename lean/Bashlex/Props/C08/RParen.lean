/-
  C08, parts 2/3 linked at text level: an input that starts with `)` is rejected, whatever
  follows, for all lengths and options:

    `C08_leading_rparen`: `(parse (')' :: u) o).1 = .exn (.parsing "unexpected token ')'" (')' :: u) 0)`.

  End to end through the real tokenizer (`_readtoken`, `readtokenMeta` with its look-ahead
  `_getc` / `_ungetc` over an arbitrary continuation, `_createtoken`), the real tables (state 0
  has no action on RIGHT_PAREN) and the real error function `p_error`.
-/
import Bashlex.Props.C08.Text
import Bashlex.Props.C08.Instances
import Bashlex.Props.C10

namespace Bashlex.C08
open Bashlex Bashlex.M Bashlex.C10
set_option linter.unusedSimpArgs false
set_option linter.unusedVariables false

/-- `m` returns normally from `l`, `e`, with `Q` -/
def Returns {α : Type} (m : M α) (l : Local) (e : Env) (Q : α → Local → Env → Prop) : Prop :=
  ∃ a l' e', M.run m l e = (.ok (a, l'), e') ∧ Q a l' e'

theorem Returns.bindOk {α β : Type} {m : M α} {f : α → M β} {l l' : Local} {e e' : Env} {a : α}
    {Q : β → Local → Env → Prop} (h : M.run m l e = (.ok (a, l'), e'))
    (hr : Returns (f a) l' e' Q) : Returns (m >>= f) l e Q := by
  obtain ⟨b, l2, e2, h2, hq⟩ := hr
  exact ⟨b, l2, e2, by rw [C08.bindOk h]; exact h2, hq⟩

theorem Returns.bind {α β : Type} {m : M α} {f : α → M β} {l : Local} {e : Env}
    {Q : β → Local → Env → Prop}
    (h : Returns m l e (fun a l' e' => Returns (f a) l' e' Q)) : Returns (m >>= f) l e Q := by
  obtain ⟨a, l1, e1, h1, hr⟩ := h
  exact Returns.bindOk h1 hr

theorem Returns.pure {α : Type} {a : α} {l : Local} {e : Env} {Q : α → Local → Env → Prop}
    (h : Q a l e) : Returns (Pure.pure a : M α) l e Q :=
  ⟨a, l, e, M.run_pure a l e, h⟩

theorem putL_top {l : Local} (h : l.tape = none) (t : Tape) : putL l t = l := by
  unfold putL; rw [h]
theorem putE_top {l : Local} (h : l.tape = none) (e : Env) (t : Tape) :
    putE l e t = { e with tape := t } := by
  unfold putE; rw [h]
theorem tapeOf_top' {l : Local} (h : l.tape = none) (e : Env) : tapeOf l e = e.tape := by
  unfold tapeOf; rw [h]

/-- look-ahead and push-back at the top level, inside a line that does not end in a backslash:
    both succeed; the parser object changes at most in `_eol_ungetc_lookahead`, the tape only in
    its cursor, which stays ≥ 1 -/
theorem peek_unget_top (l : Local) (e : Env) (ht : l.tape = none) (heol : l.eolLookahead = none)
    (h1 : 1 ≤ e.tape.idx) (hlt : e.tape.idx < e.tape.line.length)
    (hbs : NoFinalBackslash e.tape.line) :
    ∃ p e1 l' e', M.run (getc true) l e = (.ok (p, l), e1) ∧
      M.run (ungetc p) l e1 = (.ok ((), l'), e') ∧
      (l' = l ∨ l' = { l with eolLookahead := p }) ∧
      e'.tape.line = e.tape.line ∧ e'.tape.added = e.tape.added ∧ 1 ≤ e'.tape.idx := by
  have hT : tapeOf l e = e.tape := tapeOf_top' ht e
  have hspec := tape_getc_spec (e.tape.line.length + 1) e.tape (Nat.le_of_lt hlt) (by omega)
  have hsome := getcS_isSome (e.tape.line.drop e.tape.idx) (hbs.drop _)
  cases hg : getcS (e.tape.line.drop e.tape.idx) with
  | none => rw [hg] at hsome; cases hsome
  | some v =>
    obtain ⟨p, rest⟩ := v
    rw [hg] at hspec
    simp only [] at hspec
    have hget : M.run (getc true) l e = (.ok (p, l), { e with tape := seek e.tape rest }) := by
      rw [run_getc _ l e heol, hT, hspec]
      simp only [putL_top ht, putE_top ht]
    obtain ⟨pre, hpre, hpne, hpnone⟩ := getcS_suffix _ hg
    have hsuf : rest <:+ e.tape.line.drop e.tape.idx := ⟨pre, hpre.symm⟩
    have hlen : rest.length ≤ e.tape.line.length - e.tape.idx := by
      have := hsuf.length_le
      simpa [List.length_drop] using this
    -- the cursor after `_getc`
    have hidx1 : e.tape.idx ≤ (seek e.tape rest).idx := by
      simp only [seek_idx, posOf]; omega
    have hT1 : tapeOf l { e with tape := seek e.tape rest } = seek e.tape rest := tapeOf_top' ht _
    refine ⟨p, { e with tape := seek e.tape rest }, ?_⟩
    rcases ungetc_cases (seek e.tape rest) with hu | hu
    · -- moved: only if the cursor was advanced or sits at the end
      refine ⟨l, { e with tape := { seek e.tape rest with idx := (seek e.tape rest).idx - 1 } },
        hget, ?_, Or.inl rfl, rfl, rfl, ?_⟩
      · rw [run_ungetc, hT1, hu]
        simp only [putL_top ht, putE_top ht]
      · show 1 ≤ (seek e.tape rest).idx - 1
        -- either a character was read (cursor advanced past idx ≥ 1) or the end was reached
        have hstrict : e.tape.idx < (seek e.tape rest).idx := by
          simp only [seek_idx, posOf]
          cases p with
          | none =>
            -- end of input: rest = []
            rw [hpnone rfl]; simp; omega
          | some ch =>
            have := getcS_length_lt hg
            simp only [List.length_drop] at this
            omega
        omega
    · refine ⟨{ l with eolLookahead := p }, { e with tape := seek e.tape rest },
        hget, ?_, Or.inr rfl, rfl, rfl, ?_⟩
      · rw [run_ungetc, hT1, hu]
      · show 1 ≤ (seek e.tape rest).idx
        omega

/-! ### `readtokenMeta ')'` -/

theorem readtokenMeta_rparen : readtokenMeta ')' = (do
    modify fun l => { l with ps := { l.ps with assignok := false } }
    let peek ← getc true
    ungetc peek
    let l ← get
    if l.lastReadToken.value == .str ['('] && l.tokenBeforeThat.is .WORD then
      modify fun l => { l with ps := { l.ps with allowopnbrc := true } }
    let l ← get
    if l.ps.casepat then
      set { l with ps := { l.ps with casepat := false } }
    else if l.ps.subshell then
      set { l with ps := { l.ps with subshell := false } }
    return some (← tokentypeOfChar ')')) := by
  unfold readtokenMeta
  simp

/-- the state in which `_readtoken` has read the leading `)` of the input `s` -/
structure RPSt (s : Str) (l : Local) (e : Env) : Prop where
  tape : l.tape = none
  pos : l.positions = [0]
  lrt : l.lastReadToken = .null
  casepat : l.ps.casepat = false
  subshell : l.ps.subshell = false
  regexp : l.ps.regexp = false
  dblparen : l.ps.dblparen = false
  idx : 1 ≤ e.tape.idx
  src : e.tape.source = s

theorem readtokenMeta_rparen_returns {s : Str} {l : Local} {e : Env} (h : RPSt s l e)
    (heol : l.eolLookahead = none) (hlt : e.tape.idx < e.tape.line.length)
    (hbs : NoFinalBackslash e.tape.line) :
    Returns (readtokenMeta ')') l e (fun r l' e' => r = some .RIGHT_PAREN ∧ RPSt s l' e') := by
  obtain ⟨p, e1, l', e', hget, hunget, hl', hline, hadded, hidx⟩ :=
    peek_unget_top { l with ps := { l.ps with assignok := false } } e h.tape heol h.idx hlt hbs
  have hsrc : e'.tape.source = s := by
    rw [← h.src]; unfold Tape.source; rw [hline, hadded]
  have hfields : l'.tape = none ∧ l'.positions = [0] ∧ l'.lastReadToken = .null ∧
      l'.tokenBeforeThat = l.tokenBeforeThat ∧
      l'.ps = { l.ps with assignok := false } := by
    rcases hl' with rfl | rfl
    · exact ⟨h.tape, h.pos, h.lrt, rfl, rfl⟩
    · exact ⟨h.tape, h.pos, h.lrt, rfl, rfl⟩
  obtain ⟨f1, f2, f3, f4, f5⟩ := hfields
  have hv : (l'.lastReadToken.value == TVal.str ['(']) = false := by rw [f3]; rfl
  have hcp : l'.ps.casepat = false := by rw [f5]; exact h.casepat
  have hss : l'.ps.subshell = false := by rw [f5]; exact h.subshell
  have htt : tokentypeOfChar ')' = pure TokType.RIGHT_PAREN := rfl
  have hre : l'.ps.regexp = false := by rw [f5]; exact h.regexp
  have hdp : l'.ps.dblparen = false := by rw [f5]; exact h.dblparen
  have hfin : RPSt s l' e' := ⟨f1, f2, f3, hcp, hss, hre, hdp, hidx, hsrc⟩
  refine ⟨some .RIGHT_PAREN, l', e', ?_, rfl, hfin⟩
  rw [readtokenMeta_rparen]
  simp only [M.run_bind, C10.run_modify, hget, hunget, C10.run_get, hv, hcp, hss, Bool.false_and,
    Bool.false_eq_true, if_false, M.run_pure, htt]

/-! ### `_readtoken`, `token()` -/

theorem readtokenHead_char' {T : Tape} {l : Local} {e : Env} (hI : TInv T l e) {ch : Char}
    (hd : T.line[T.idx]? = some ch) (h1 : ch ≠ '\\') (h2 : shellblank ch = false) (h3 : ch ≠ '#') :
    M.run C10.readtokenHead l e =
      (.ok (some ch, putL l { T with idx := T.idx + 1 }), putE l e { T with idx := T.idx + 1 }) := by
  have hhash : (ch == '#') = false := by simpa using h3
  unfold C10.readtokenHead
  rw [bindOk (run_loopFuel l e), bindOk (run_getc_nb hI true hd h1)]
  rw [bindOk (loop_exit' _ _ 1073741824 (some ch) (by decide) (a := some ch)
    (l' := putL l { T with idx := T.idx + 1 }) (e' := putE l e { T with idx := T.idx + 1 }) ?_)]
  · simp only [hhash, Bool.false_eq_true, if_false]
    rfl
  · simp only [h2, Bool.false_eq_true, if_false]
    rfl

theorem createtoken_run (ty : TokType) (v : TVal) (l : Local) (e : Env) {a b : Nat}
    (hp : l.positions = [a, b]) (hab : a < b) :
    M.run (createtoken ty v) l e =
      (.ok ({ ttype := some ty, value := v, pos := some (a, b), flags := [] },
        { l with positions := [] }), e) := by
  unfold createtoken
  simp [M.run_bind, C10.run_get, C10.run_set, M.run_pure, hp, hab, Nat.not_le.mpr hab]
  rw [map_eq_pure_bind, M.run_bind, C10.run_set]
  rfl

/-- the bookkeeping at the start of `token()` -/
def tokShift (l : Local) : Local :=
  { l with twoTokensAgo := l.tokenBeforeThat, tokenBeforeThat := l.lastReadToken,
           lastReadToken := l.currentToken }

/-- the token `)` at `(0, p2)` -/
def tokRP (p2 : Nat) : Token :=
  { ttype := some .RIGHT_PAREN, value := .str [')'], pos := some (0, p2), flags := [] }

/-- the first `token()` of a parser over `')' :: u` delivers RIGHT_PAREN at position 0 -/
theorem nextToken_rparen (u : Str) (o : Opts) :
    Returns nextToken (initLocal o) (initEnv (')' :: u) o [])
      (fun t l e => (∃ p2, t = tokRP p2) ∧ l.tape = none ∧ e.tape.source = ')' :: u) := by
  obtain ⟨tail, hline, htail, hidx, hsrc⟩ := ofInput_facts (')' :: u)
  have hbs := ofInput_noFinalBackslash (')' :: u)
  have hlen : 2 ≤ (Tape.ofInput (')' :: u)).line.length := by
    rw [hline]
    rcases htail with rfl | rfl
    · -- no newline appended: the input ends in a newline, so `u ≠ []`
      cases u with
      | nil =>
        exfalso
        have : (Tape.ofInput [')']).line = [')', '\n'] := by decide
        rw [this] at hline; simp at hline
      | cons x u' => simp
    · simp
  have h0 : (Tape.ofInput (')' :: u)).line[(Tape.ofInput (')' :: u)).idx]? = some ')' := by
    rw [hidx, hline]; rfl
  unfold nextToken
  refine Returns.bindOk (C10.run_modify _ _ _) ?_
  -- the state after the bookkeeping of `token()`
  show Returns _ (tokShift (initLocal o)) _ _
  generalize hl1 : tokShift (initLocal o) = l1
  have hI : TInv (Tape.ofInput (')' :: u)) l1 (initEnv (')' :: u) o []) := by
    subst hl1; exact ⟨rfl, rfl, rfl⟩
  have ht1 : l1.tape = none := by subst hl1; rfl
  have hhead := readtokenHead_char' hI h0 (by decide) (by decide) (by decide)
  rw [putL_top ht1, putE_top ht1] at hhead
  -- `_readtoken`
  have hrt : Returns readtoken l1 (initEnv (')' :: u) o [])
      (fun r l e => r = .inl .RIGHT_PAREN ∧ RPSt (')' :: u) l e ∧ e.tape.idx < e.tape.line.length ∨
        r = .inl .RIGHT_PAREN ∧ RPSt (')' :: u) l e) := by
    rw [C10.readtoken_eq]
    refine Returns.bindOk hhead ?_
    simp only []
    unfold C10.readtokenTail
    refine Returns.bindOk (run_recordpos 1 _ _) ?_
    have hnl : ((')' : Char) == '\n') = false := by decide
    simp only [hnl, Bool.false_eq_true, if_false]
    refine Returns.bindOk (C10.run_get _ _) ?_
    have hre : l1.ps.regexp = false := by subst hl1; rfl
    simp only [hre, Bool.false_eq_true, if_false]
    refine Returns.bindOk (run_shellmeta ')' _ _) ?_
    refine Returns.bindOk (C10.run_get _ _) ?_
    have hm : (synClass ')').metac = true := by decide
    have hdp : l1.ps.dblparen = false := by subst hl1; rfl
    simp only [hm, hdp, Bool.not_false, Bool.and_self, if_true]
    -- `readtokenMeta ')'`
    have hRP : RPSt (')' :: u)
        { l1 with positions := l1.positions ++
          [(tapeOf l1 { (initEnv (')' :: u) o []) with
            tape := { Tape.ofInput (')' :: u) with idx := (Tape.ofInput (')' :: u)).idx + 1 } }).idx - 1] }
        (touch { (initEnv (')' :: u) o []) with
          tape := { Tape.ofInput (')' :: u) with idx := (Tape.ofInput (')' :: u)).idx + 1 } } ')') := by
      subst hl1
      refine ⟨rfl, ?_, rfl, rfl, rfl, rfl, rfl, ?_, ?_⟩
      · show [] ++ [(Tape.ofInput (')' :: u)).idx + 1 - 1] = [0]
        rw [hidx]; rfl
      · rw [touch_tape]; show 1 ≤ (Tape.ofInput (')' :: u)).idx + 1; omega
      · rw [touch_tape]; exact hsrc
    obtain ⟨r, lM, eM, hmeta, hr, hM⟩ := readtokenMeta_rparen_returns hRP
      (by subst hl1; rfl)
      (by rw [touch_tape]
          show (Tape.ofInput (')' :: u)).idx + 1 < (Tape.ofInput (')' :: u)).line.length
          rw [hidx]; omega)
      (by rw [touch_tape]; exact hbs)
    subst hr
    refine Returns.bindOk hmeta ?_
    simp only []
    exact Returns.pure (Or.inr ⟨rfl, hM⟩)
  obtain ⟨r, lR, eR, hrun, hQ⟩ := hrt
  have hQ' : r = .inl .RIGHT_PAREN ∧ RPSt (')' :: u) lR eR := by
    rcases hQ with ⟨h1, h2, _⟩ | h; exact ⟨h1, h2⟩; exact h
  obtain ⟨rfl, hR⟩ := hQ'
  refine Returns.bindOk hrun ?_
  simp only []
  -- `recordpos(); _createtoken(RIGHT_PAREN, ")")`
  refine Returns.bindOk (run_recordpos 0 _ _) ?_
  have hpos : ({ lR with positions := lR.positions ++ [(tapeOf lR eR).idx - 0] } : Local).positions =
      [0, eR.tape.idx] := by
    show lR.positions ++ [(tapeOf lR eR).idx - 0] = _
    rw [hR.pos, tapeOf_top' hR.tape]; rfl
  refine Returns.bindOk (createtoken_run _ _ _ _ hpos hR.idx) ?_
  refine Returns.bindOk (C10.run_modify _ _ _) ?_
  refine Returns.bindOk (C10.run_modify _ _ _) ?_
  exact Returns.pure ⟨⟨eR.tape.idx, rfl⟩, hR.tape, hR.src⟩

/-! ### the engine and `p_error` -/

theorem run_tapeSource_top {l : Local} (h : l.tape = none) (e : Env) :
    M.run tapeSource l e = (.ok (e.tape.source, l), e) := by
  unfold tapeSource
  rw [bindOk (C10.run_get l e)]
  simp only [h]
  rfl

/-- the message of `p_error` for the token `)` -/
def rparenMsg : String := "unexpected token " ++ pyReprStr [')']

theorem pError_rparen (p2 : Nat) {l : Local} (h : l.tape = none) (e : Env) :
    M.run (pError (tokRP p2)) l e = (.error (mkParsingError rparenMsg e.tape.source 0), e) := by
  unfold pError
  rw [bindOk (run_tapeSource_top h e)]
  have h1 : (tokRP p2).is .EOF = false := by rfl
  simp only [h1, Bool.false_eq_true, if_false]
  rfl

theorem rparen_no_action :
    LR.realTables.action (LR.topState ([] : LR.Stack SVal)) TokType.RIGHT_PAREN.sym = none := by
  decide +kernel

/-- **C08_leading_rparen** (all lengths, all options): an input that starts with `)` is rejected
    with `ParsingError("unexpected token ')'", s, 0)`, whatever follows -/
theorem C08_leading_rparen (u : Str) (o : Opts) :
    (parse (')' :: u) o).1 = .exn (.parsing rparenMsg (')' :: u) 0) := by
  obtain ⟨t, lN, eN, hnext, ⟨p2, rfl⟩, htape, hsrc⟩ := nextToken_rparen u o
  have hstep : Raises (mkParsingError rparenMsg (')' :: u) 0)
      (LR.step LR.realTables (lrHooks (C07.nestedOf 63)) {}) (initLocal o)
      (initEnv (')' :: u) o []) := by
    unfold LR.step
    have hd : LR.realTables.dflt (LR.topState ({} : LR.Cfg SVal).stack) = none := real_dflt0
    simp only [hd]
    have hla : M.run (lrHooks (C07.nestedOf 63)).next (initLocal o) (initEnv (')' :: u) o []) =
        (.ok ((TokType.RIGHT_PAREN.sym, SVal.tok (tokRP p2)), lN), eN) := by
      show M.run (nextToken >>= fun t => pure (symOfTok t, SVal.tok t)) _ _ = _
      rw [bindOk hnext]
      rfl
    refine Raises.bindOk hla ?_
    have hne : (TokType.RIGHT_PAREN.sym == LR.realTables.endTok) = false := by decide
    have hact := rparen_no_action
    have hact0 : LR.realTables.action 0 TokType.RIGHT_PAREN.sym = none := hact
    simp only [hne, Bool.and_false, Bool.false_and, Bool.false_eq_true, if_false, LR.topState,
      hact, hact0]
    refine Raises.bindErr ?_
    show Raises _ (pError (tokRP p2)) lN eN
    exact ⟨eN, by rw [pError_rparen p2 htape eN, hsrc]⟩
  obtain ⟨e', he'⟩ := Raises.loop (site := "LRParser.parse") (fuel := 1073741824) (by decide) hstep
  have htop : topRun (')' :: u) o [] = (.error _, e') := he'
  have hrp := runParser_topRun (')' :: u) o []
  rw [htop, ofRun_error] at hrp
  unfold parse
  rw [hrp]
  simp [mkParsingError]
  omega

end Bashlex.C08
