/-
  C08, part 2 (text level, `$((`): an unterminated arithmetic expansion / nested command
  substitution opener is rejected, for ALL lengths: `C08_unterminated_arith`: input
  `w ++ "$((" ++ u` with `w` plain and `u` free of `)`, backslash, `$` and quote characters
  (`(` is allowed: it only raises the nesting count): `parse` raises
  "unexpected EOF while looking for matching ')'".  (`_parse_comsub` sees the second `(` and
  hands over to `_parse_matched_pair`; the general `$(…` goes through the reserved-word state
  machine of `_parse_comsub` and is not covered: `csA_eof` is the statement for it.)
-/
import Bashlex.Props.C08.Brace

namespace Bashlex.C08
open Bashlex Bashlex.M Bashlex.C10
set_option linter.unusedSimpArgs false
set_option linter.unusedVariables false

/-- the parameters `_parse_comsub` passes on for `$((` -/
def arParams : MPParams := { doublequotes := none, opn := '(', close := ')' }

def arPlain (c : Char) : Bool :=
  c != ')' && c != '\\' && c != '$' && !(synClass c).quote

theorem mpHead_ar (st : MPState) (c : Char) (hc : arPlain c = true) (h1 : st.insidecomment = false)
    (h2 : st.passnextchar = false) (h3 : st.count ≠ 0) :
    C04.TTP.mpHead arParams false st c =
      pure (.next { st with count := if c = '(' then st.count + 1 else st.count,
                            ret := st.ret ++ [c] } c) := by
  unfold arPlain at hc
  simp only [Bool.and_eq_true, bne_iff_ne, ne_eq, Bool.not_eq_true'] at hc
  obtain ⟨⟨⟨c1, c2⟩, c3⟩, c4⟩ := hc
  have e1 : (c == ')') = false := by simpa using c1
  have e2 : (c == '\\') = false := by simpa using c2
  unfold C04.TTP.mpHead C04.TTP.mpTail
  by_cases hp : c = '('
  · subst hp
    simp [arParams, h1, h2, h3]
  · have e3 : (c == '(') = false := by simpa using hp
    simp [arParams, h1, h2, h3, e1, e2, e3, hp, c1]

theorem run_mpPost_ar (pmp : MPParams → M Str) (pcs : CSParams → M Str) (st : MPState) (c : Char)
    (hc : arPlain c = true) (l : Local) (e : Env) :
    M.run (mpPost pmp pcs arParams false st c) l e =
      (.ok ({ st with sawdollar := false }, l), touch e c) := by
  unfold arPlain at hc
  simp only [Bool.and_eq_true, bne_iff_ne, ne_eq, Bool.not_eq_true'] at hc
  obtain ⟨⟨⟨c1, c2⟩, c3⟩, c4⟩ := hc
  have e3 : (c == '$') = false := by simpa using c3
  unfold mpPost
  have hne : (arParams.opn != arParams.close) = true := by decide
  simp only [hne, if_true]
  rw [bindOk (run_shellquote c l e)]
  simp only [c4, Bool.false_eq_true, if_false]
  have ha : arParams.arraysub = false := rfl
  simp only [ha, Bool.false_and, Bool.false_eq_true, if_false, e3]
  rfl

def arBody (fuel : Nat) (st : MPState) : M (MPState ⊕ Str) := do
  if st.count == 0 then return .inr st.ret
  match ← mpPre arParams false st with
  | .cont s => return .inl s
  | .done r => return .inr r
  | .next s c =>
    let s' ← mpPost (parseMatchedPair fuel) (parseComsub fuel) arParams false s c
    return .inl s'

theorem parseMatchedPair_ar (fuel : Nat) :
    parseMatchedPair (fuel + 1) arParams =
      (do let lf ← loopFuel; M.loop "_parse_matched_pair" (arBody fuel) lf {}) := by
  unfold parseMatchedPair mpInit arBody
  simp [arParams]
  congr

theorem arBody_eof (dfuel : Nat) (st : MPState) (l : Local) (e : Env)
    (hl : l.eolLookahead = none) (hend : (tapeOf l e).line.length ≤ (tapeOf l e).idx)
    (h3 : st.count ≠ 0) :
    M.run (arBody dfuel st) l e =
      (.error (mkParsingError (eofMsg ')') (tapeOf l e).source (((tapeOf l e).idx : Int) - 1)), e) := by
  have hg : M.run (getc (arParams.doublequotes != some '\'' && !st.passnextchar)) l e =
      (.ok (none, l), e) := by
    rw [run_getc _ l e hl, tape_getc_end _ _ hend]
    simp only [putL_self, putE_self]
  unfold arBody
  have hc : (st.count == 0) = false := by simpa using h3
  simp only [hc, Bool.false_eq_true, if_false]
  rw [M.run_bind, mpPre_eof arParams false st hg]
  rfl

theorem arBody_step (dfuel : Nat) (st : MPState) (l : Local) (e : Env) (c : Char)
    (hl : l.eolLookahead = none) (hc : (tapeOf l e).line[(tapeOf l e).idx]? = some c)
    (hp : arPlain c = true) (h1 : st.insidecomment = false) (h2 : st.passnextchar = false)
    (h3 : st.count ≠ 0) :
    M.run (arBody dfuel st) l e =
      (.ok (.inl { st with count := if c = '(' then st.count + 1 else st.count,
                            ret := st.ret ++ [c], sawdollar := false },
            putL l { tapeOf l e with idx := (tapeOf l e).idx + 1 }),
       touch (putE l e { tapeOf l e with idx := (tapeOf l e).idx + 1 }) c) := by
  have hnb : c ≠ '\\' := by
    unfold arPlain at hp
    simp only [Bool.and_eq_true, bne_iff_ne, ne_eq] at hp
    exact hp.1.1.2
  have hg : M.run (getc (arParams.doublequotes != some '\'' && !st.passnextchar)) l e =
      (.ok (some c, putL l { tapeOf l e with idx := (tapeOf l e).idx + 1 }),
       putE l e { tapeOf l e with idx := (tapeOf l e).idx + 1 }) := by
    rw [run_getc _ l e hl, tape_getc_nb _ c hc hnb]
  unfold arBody
  have hc0 : (st.count == 0) = false := by simpa using h3
  simp only [hc0, Bool.false_eq_true, if_false]
  rw [M.run_bind, C04.TTP.mpPre_eq, M.run_bind, hg]
  simp only []
  rw [M.run_bind, M.run_pure]
  simp only []
  rw [mpHead_ar st c hp h1 h2 h3, M.run_pure]
  simp only []
  rw [M.run_bind, run_mpPost_ar _ _ _ c hp]
  simp only []
  rw [M.run_pure]

theorem ar_scan (dfuel : Nat) : ∀ (u : Str) (fuel : Nat) (st : MPState) (l : Local) (e : Env),
    l.eolLookahead = none → (tapeOf l e).idx ≤ (tapeOf l e).line.length →
    (tapeOf l e).line.drop (tapeOf l e).idx = u → (∀ x ∈ u, arPlain x = true) →
    st.insidecomment = false → st.passnextchar = false → st.count ≠ 0 →
    ∃ e', M.run (M.loop "_parse_matched_pair" (arBody dfuel) fuel st) l e =
      (.error (if u.length < fuel then
          mkParsingError (eofMsg ')') (tapeOf l e).source (((tapeOf l e).line.length : Int) - 1)
        else .outOfFuel "_parse_matched_pair"), e') := by
  intro u
  induction u with
  | nil =>
    intro fuel st l e hl hle hu _ h1 h2 h3
    cases fuel with
    | zero => exact ⟨e, by rw [run_loop_zero]; simp⟩
    | succ fuel =>
      have hend : (tapeOf l e).line.length ≤ (tapeOf l e).idx := by
        have := congrArg List.length hu
        simp only [List.length_drop, List.length_nil] at this
        omega
      have hidx : (tapeOf l e).idx = (tapeOf l e).line.length := by omega
      refine ⟨e, ?_⟩
      rw [loop_raises _ _ _ _ (arBody_eof dfuel st l e hl hend h3), hidx]
      simp
  | cons c u ih =>
    intro fuel st l e hl hle hu hq h1 h2 h3
    cases fuel with
    | zero => exact ⟨e, by rw [run_loop_zero]; simp⟩
    | succ fuel =>
      have hlt : (tapeOf l e).idx < (tapeOf l e).line.length := by
        have := congrArg List.length hu
        simp only [List.length_drop, List.length_cons] at this
        omega
      have hc : (tapeOf l e).line[(tapeOf l e).idx]? = some c := by
        rw [← List.head?_drop, hu]; rfl
      have hp : arPlain c = true := hq c List.mem_cons_self
      have hq' : ∀ x ∈ u, arPlain x = true := fun x hx => hq x (List.mem_cons_of_mem _ hx)
      have hstep := arBody_step dfuel st l e c hl hc hp h1 h2 h3
      have htape : tapeOf (putL l { tapeOf l e with idx := (tapeOf l e).idx + 1 })
          (touch (putE l e { tapeOf l e with idx := (tapeOf l e).idx + 1 }) c) =
          { tapeOf l e with idx := (tapeOf l e).idx + 1 } := by
        rw [tapeOf_touch]; exact tapeOf_put _ _ _
      obtain ⟨e', he'⟩ := ih fuel
        { st with count := if c = '(' then st.count + 1 else st.count,
                  ret := st.ret ++ [c], sawdollar := false }
        (putL l { tapeOf l e with idx := (tapeOf l e).idx + 1 })
        (touch (putE l e { tapeOf l e with idx := (tapeOf l e).idx + 1 }) c)
        (by rw [putL_eol]; exact hl)
        (by rw [htape]; exact hlt)
        (by
          rw [htape]
          show (tapeOf l e).line.drop ((tapeOf l e).idx + 1) = u
          rw [← List.drop_drop, hu]; rfl)
        hq' h1 h2 (by show (if c = '(' then st.count + 1 else st.count) ≠ 0; split <;> omega)
      refine ⟨e', ?_⟩
      rw [run_loop_succ, hstep]
      simp only []
      rw [he', htape]
      simp only [List.length_cons, Nat.add_lt_add_iff_right]
      rfl

theorem parseMatchedPair_ar_raises (dfuel : Nat) (u : Str) (l : Local) (e : Env)
    (hl : l.eolLookahead = none) (hle : (tapeOf l e).idx ≤ (tapeOf l e).line.length)
    (hu : (tapeOf l e).line.drop (tapeOf l e).idx = u) (hq : ∀ x ∈ u, arPlain x = true)
    (hlen : u.length < 1073741824) :
    ∃ e', M.run (parseMatchedPair (dfuel + 1) arParams) l e =
      (.error (mkParsingError (eofMsg ')') (tapeOf l e).source
        (((tapeOf l e).line.length : Int) - 1)), e') := by
  obtain ⟨e', he'⟩ := ar_scan dfuel u 1073741824 {} l e hl hle hu hq rfl rfl (by decide)
  refine ⟨e', ?_⟩
  rw [parseMatchedPair_ar]
  have hf : (loopFuel : M Nat) = pure 1073741824 := rfl
  rw [hf, pure_bind, he', if_pos hlen]

/-! ### the iteration of `_readtokenword` on `$` followed by `((` -/

theorem getc_char2 {T : Tape} {l : Local} {e : Env} (heol : l.eolLookahead = none)
    (htape : tapeOf l e = T) (rqn : Bool) {d : Char} (hd : T.line[T.idx]? = some d)
    (hnb : d ≠ '\\') :
    ∃ l' e', M.run (getc rqn) l e = (.ok (some d, l'), e') ∧ l'.eolLookahead = none ∧
      tapeOf l' e' = { T with idx := T.idx + 1 } := by
  refine ⟨putL l { T with idx := T.idx + 1 }, putE l e { T with idx := T.idx + 1 }, ?_, ?_, ?_⟩
  · rw [run_getc _ l e heol, htape, tape_getc_nb T d hd hnb]
  · rw [putL_eol]; exact heol
  · exact tapeOf_put _ _ _

theorem ungetc_back {T : Tape} {l : Local} {e : Env} (heol : l.eolLookahead = none)
    (htape : tapeOf l e = T) (h0 : T.idx ≠ 0) (hle : T.idx ≤ T.line.length) (c : Option Char) :
    ∃ l' e', M.run (ungetc c) l e = (.ok ((), l'), e') ∧ l'.eolLookahead = none ∧
      tapeOf l' e' = { T with idx := T.idx - 1 } := by
  have hu : T.ungetc = (true, { T with idx := T.idx - 1 }) := by
    unfold Tape.ungetc
    have hne : T.line.isEmpty = false := by
      cases hl : T.line with
      | nil => rw [hl] at hle; simp at hle; exact absurd hle h0
      | cons a r => rfl
    simp [hne, h0, hle]
  refine ⟨putL l { T with idx := T.idx - 1 }, putE l e { T with idx := T.idx - 1 }, ?_, ?_, ?_⟩
  · rw [run_ungetc, htape, hu]
  · rw [putL_eol]; exact heol
  · exact tapeOf_put _ _ _

theorem run_parseComsub_paren (fuel : Nat) (P : CSParams) {l l1 l2 : Local} {e e1 e2 : Env}
    (h1 : M.run (getc false) l e = (.ok (some '(', l1), e1))
    (h2 : M.run (ungetc (some '(')) l1 e1 = (.ok ((), l2), e2)) :
    M.run (parseComsub (fuel + 1) P) l e =
      M.run (parseMatchedPair fuel
        { doublequotes := P.doublequotes, opn := P.opn, close := P.close }) l2 e2 := by
  unfold parseComsub
  rw [bindOk h1, bindOk h2]
  simp

theorem trigger_arith {u : Str} (hq : ∀ x ∈ u, arPlain x = true) (hlen : u.length + 1 < 1073741824) :
    Trigger '$' ')' ('(' :: '(' :: u) := by
  refine ⟨by decide, by decide, ?_⟩
  intro T l e hI st hc hpn hle hu
  have hlen2 : T.idx + 2 ≤ T.line.length := by
    have := congrArg List.length hu
    simp only [List.length_drop, List.length_cons] at this
    omega
  have hd : T.line[T.idx]? = some '(' := by
    rw [← List.head?_drop, hu]; rfl
  have hdrop1 : T.line.drop (T.idx + 1) = '(' :: u := by
    rw [← List.drop_drop, hu]; rfl
  have hd1 : T.line[T.idx + 1]? = some '(' := by
    rw [← List.head?_drop, hdrop1]; rfl
  have hI2 : TInv T l (touch (touch e '$') '$') := (hI.touch '$').touch '$'
  -- `_getc` in `handleshellexp`
  obtain ⟨l1, e1, hg1, heol1, ht1⟩ := getc_char2 hI2.eol hI2.tape true hd (by decide)
  -- `_push_delimiter`, then the two tape moves of `_parse_comsub`
  have ht1' : tapeOf { l1 with dstack := l1.dstack ++ ['('] } e1 = { T with idx := T.idx + 1 } := ht1
  obtain ⟨l2, e2, hg2, heol2, ht2⟩ := getc_char2 (l := { l1 with dstack := l1.dstack ++ ['('] })
    heol1 ht1' false (d := '(') hd1 (by decide)
  obtain ⟨l3, e3, hg3, heol3, ht3⟩ := ungetc_back heol2 ht2 (show T.idx + 1 + 1 ≠ 0 by omega)
    (show T.idx + 1 + 1 ≤ T.line.length by omega) (some '(')
  have ht3' : tapeOf l3 e3 = { T with idx := T.idx + 1 } := by
    rw [ht3]
    show ({ line := T.line, idx := T.idx + 1 + 1 - 1, added := T.added } : Tape) = _
    simp
  have hraise := parseMatchedPair_ar_raises 1048574 ('(' :: u) l3 e3 heol3
    (by rw [ht3']; simp; omega) (by rw [ht3']; exact hdrop1)
    (by
      intro x hx
      rcases List.mem_cons.mp hx with rfl | hx
      · decide
      · exact hq x hx)
    (by simp; omega)
  obtain ⟨e', he'⟩ := hraise
  rw [ht3'] at he'
  refine ⟨e', ?_⟩
  rw [C04.TTP.readtokenwordStep_eq]
  simp only [hc, hpn, Bool.false_eq_true, if_false]
  rw [bindOk (run_currentDelimiter l e)]
  have hb : (('$' : Char) == '\\') = false := by decide
  simp only [hb, Bool.false_eq_true, if_false]
  rw [bindOk (run_shellquote '$' l e)]
  have hsq : (synClass '$').quote = false := by decide
  simp only [hsq, Bool.false_eq_true, if_false]
  rw [bindOk (run_shellexp '$' l _)]
  have hse : (synClass '$').exp = true := by decide
  simp only [hse, if_true]
  refine bindErr ?_
  unfold handleshellexp
  rw [bindOk hg1]
  have hcond : ((some '(' : Option Char) == some '(' ||
      (('$' : Char) == '$' && ((some '(' : Option Char) == some '{' || (some '(' : Option Char) == some '['))) = true := by
    decide
  simp only [hcond, if_true]
  have hp1 : ((some '(' : Option Char) == some '{') = false := by decide
  have hp2 : ((some '(' : Option Char) == some '(') = true := by decide
  simp only [hp1, hp2, Bool.false_eq_true, if_false, if_true]
  unfold pushDelimiter
  rw [bindOk (C10.run_modify _ l1 e1), bindOk (run_depthFuel _ _)]
  first
    | (refine bindErr ?_
       rw [run_parseComsub_paren 1048575 _ hg2 hg3])
    | (refine bindErr (bindErr ?_)
       rw [run_parseComsub_paren 1048575 _ hg2 hg3])
  rw [hI.ds]
  exact he'

/-- **C08_unterminated_arith** (all lengths, all options): a word of plain characters, then `$((`
    that is never closed, followed by `arPlain` text: `parse` raises
    "unexpected EOF while looking for matching ')'" -/
theorem C08_unterminated_arith (w u : Str) (o : Opts) (hw : ∀ x ∈ w, plainChar x = true)
    (hu : ∀ x ∈ u, arPlain x = true) (hwl : w.length < 1073741824)
    (hul : u.length + 2 < 1073741824) :
    (parse (w ++ '$' :: '(' :: '(' :: u) o).1 =
      .exn (.parsing (eofMsg ')') (w ++ '$' :: '(' :: '(' :: u)
        (((Tape.ofInput (w ++ '$' :: '(' :: '(' :: u)).line.length : Int) - 1)) := by
  refine unterminated_trigger w ('(' :: '(' :: u) o hw hwl (fun tail htail => ?_)
  show Trigger '$' ')' ('(' :: '(' :: (u ++ tail))
  refine trigger_arith ?_ ?_
  · intro x hx
    rcases List.mem_append.mp hx with h | h
    · exact hu x h
    · rcases htail with rfl | rfl
      · cases h
      · simp only [List.mem_singleton] at h; subst h; decide
  · rcases htail with rfl | rfl <;> simp <;> omega

end Bashlex.C08
