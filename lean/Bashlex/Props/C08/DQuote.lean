/-
  C08, part 2 (text level, double quote): an unterminated double quote is rejected, for ALL
  lengths: `C08_unterminated_dquote`: input `w ++ "\"" ++ u` with `w` plain and `u` free of
  `"`, backslash, `$` and backquote.  (With these characters the scanner recurses into nested
  scanners / skips an escaped quote; the general statement is `parseMatchedPair_closes` +
  `mpPre_eof`.)
-/
import Bashlex.Props.C08.Text

namespace Bashlex.C08
open Bashlex Bashlex.M Bashlex.C10
set_option linter.unusedSimpArgs false
set_option linter.unusedVariables false

/-- the parameters `handleshellquote` passes for `"` -/
def dqParams : MPParams :=
  { doublequotes := some '"', opn := '"', close := '"', parsingcommand := false }

/-- a character the `"…"` scanner just appends -/
def dqPlain (c : Char) : Bool := c != '"' && c != '\\' && c != '$' && c != '`'

theorem mpHead_dq (st : MPState) (c : Char) (hc : dqPlain c = true) (h1 : st.insidecomment = false)
    (h2 : st.passnextchar = false) (h3 : st.count = 1) :
    C04.TTP.mpHead dqParams false st c = pure (.next { st with ret := st.ret ++ [c] } c) := by
  unfold dqPlain at hc
  simp only [Bool.and_eq_true, bne_iff_ne, ne_eq] at hc
  obtain ⟨⟨⟨c1, c2⟩, c3⟩, c4⟩ := hc
  have e1 : (c == '"') = false := by simpa using c1
  have e2 : (c == '\\') = false := by simpa using c2
  unfold C04.TTP.mpHead C04.TTP.mpTail
  simp [dqParams, h1, h2, h3, e1, e2]

theorem mpPost_dq (pmp : MPParams → M Str) (pcs : CSParams → M Str) (st : MPState) (c : Char)
    (hc : dqPlain c = true) (hs : st.sawdollar = false) :
    mpPost pmp pcs dqParams true st c = pure { st with sawdollar := false } := by
  unfold dqPlain at hc
  simp only [Bool.and_eq_true, bne_iff_ne, ne_eq] at hc
  obtain ⟨⟨⟨c1, c2⟩, c3⟩, c4⟩ := hc
  have e3 : (c == '$') = false := by simpa using c3
  have e4 : (c == '`') = false := by simpa using c4
  unfold mpPost
  simp [dqParams, hs, e3, e4]

/-- the loop body of `parseMatchedPair (fuel + 1) dqParams` -/
def dqBody (fuel : Nat) (st : MPState) : M (MPState ⊕ Str) := do
  if st.count == 0 then return .inr st.ret
  match ← mpPre dqParams false st with
  | .cont s => return .inl s
  | .done r => return .inr r
  | .next s c =>
    let s' ← mpPost (parseMatchedPair fuel) (parseComsub fuel) dqParams true s c
    return .inl s'

theorem parseMatchedPair_dq (fuel : Nat) :
    parseMatchedPair (fuel + 1) dqParams =
      (do let lf ← loopFuel; M.loop "_parse_matched_pair" (dqBody fuel) lf {}) := by
  unfold parseMatchedPair mpInit dqBody
  simp [dqParams]
  congr

theorem dqBody_eof (dfuel : Nat) (st : MPState) (l : Local) (e : Env)
    (hl : l.eolLookahead = none) (hend : (tapeOf l e).line.length ≤ (tapeOf l e).idx)
    (h3 : st.count = 1) :
    M.run (dqBody dfuel st) l e =
      (.error (mkParsingError (eofMsg '"') (tapeOf l e).source (((tapeOf l e).idx : Int) - 1)), e) := by
  have hg : M.run (getc (dqParams.doublequotes != some '\'' && !st.passnextchar)) l e =
      (.ok (none, l), e) := by
    rw [run_getc _ l e hl, tape_getc_end _ _ hend]
    simp only [putL_self, putE_self]
  unfold dqBody
  have hc : (st.count == 0) = false := by rw [h3]; rfl
  simp only [hc, Bool.false_eq_true, if_false]
  rw [M.run_bind, mpPre_eof dqParams false st hg]
  rfl

theorem dqBody_step (dfuel : Nat) (st : MPState) (l : Local) (e : Env) (c : Char)
    (hl : l.eolLookahead = none) (hc : (tapeOf l e).line[(tapeOf l e).idx]? = some c)
    (hp : dqPlain c = true) (h1 : st.insidecomment = false) (h2 : st.passnextchar = false)
    (h3 : st.count = 1) (h4 : st.sawdollar = false) :
    M.run (dqBody dfuel st) l e =
      (.ok (.inl { st with ret := st.ret ++ [c], sawdollar := false },
            putL l { tapeOf l e with idx := (tapeOf l e).idx + 1 }),
       putE l e { tapeOf l e with idx := (tapeOf l e).idx + 1 }) := by
  have hnb : c ≠ '\\' := by
    unfold dqPlain at hp
    simp only [Bool.and_eq_true, bne_iff_ne, ne_eq] at hp
    exact hp.1.1.2
  have hg : M.run (getc (dqParams.doublequotes != some '\'' && !st.passnextchar)) l e =
      (.ok (some c, putL l { tapeOf l e with idx := (tapeOf l e).idx + 1 }),
       putE l e { tapeOf l e with idx := (tapeOf l e).idx + 1 }) := by
    rw [run_getc _ l e hl, tape_getc_nb _ c hc hnb]
  unfold dqBody
  have hc0 : (st.count == 0) = false := by rw [h3]; rfl
  simp only [hc0, Bool.false_eq_true, if_false]
  rw [M.run_bind, C04.TTP.mpPre_eq, M.run_bind, hg]
  simp only []
  rw [M.run_bind, M.run_pure]
  simp only []
  rw [mpHead_dq st c hp h1 h2 h3, M.run_pure]
  simp only []
  rw [M.run_bind, mpPost_dq _ _ { st with ret := st.ret ++ [c] } c hp h4, M.run_pure]
  simp only []
  rw [M.run_pure]

theorem dq_scan (dfuel : Nat) : ∀ (u : Str) (fuel : Nat) (st : MPState) (l : Local) (e : Env),
    l.eolLookahead = none → (tapeOf l e).idx ≤ (tapeOf l e).line.length →
    (tapeOf l e).line.drop (tapeOf l e).idx = u → (∀ x ∈ u, dqPlain x = true) →
    st.insidecomment = false → st.passnextchar = false → st.count = 1 → st.sawdollar = false →
    ∃ e', M.run (M.loop "_parse_matched_pair" (dqBody dfuel) fuel st) l e =
      (.error (if u.length < fuel then
          mkParsingError (eofMsg '"') (tapeOf l e).source (((tapeOf l e).line.length : Int) - 1)
        else .outOfFuel "_parse_matched_pair"), e') := by
  intro u
  induction u with
  | nil =>
    intro fuel st l e hl hle hu _ h1 h2 h3 h4
    cases fuel with
    | zero => exact ⟨e, by rw [run_loop_zero]; simp⟩
    | succ fuel =>
      have hend : (tapeOf l e).line.length ≤ (tapeOf l e).idx := by
        have := congrArg List.length hu
        simp only [List.length_drop, List.length_nil] at this
        omega
      have hidx : (tapeOf l e).idx = (tapeOf l e).line.length := by omega
      refine ⟨e, ?_⟩
      rw [loop_raises _ _ _ _ (dqBody_eof dfuel st l e hl hend h3), hidx]
      simp
  | cons c u ih =>
    intro fuel st l e hl hle hu hq h1 h2 h3 h4
    cases fuel with
    | zero => exact ⟨e, by rw [run_loop_zero]; simp⟩
    | succ fuel =>
      have hlt : (tapeOf l e).idx < (tapeOf l e).line.length := by
        have := congrArg List.length hu
        simp only [List.length_drop, List.length_cons] at this
        omega
      have hc : (tapeOf l e).line[(tapeOf l e).idx]? = some c := by
        rw [← List.head?_drop, hu]; rfl
      have hp : dqPlain c = true := hq c List.mem_cons_self
      have hq' : ∀ x ∈ u, dqPlain x = true := fun x hx => hq x (List.mem_cons_of_mem _ hx)
      have hstep := dqBody_step dfuel st l e c hl hc hp h1 h2 h3 h4
      have htape : tapeOf (putL l { tapeOf l e with idx := (tapeOf l e).idx + 1 })
          (putE l e { tapeOf l e with idx := (tapeOf l e).idx + 1 }) =
          { tapeOf l e with idx := (tapeOf l e).idx + 1 } := tapeOf_put _ _ _
      obtain ⟨e', he'⟩ := ih fuel { st with ret := st.ret ++ [c], sawdollar := false }
        (putL l { tapeOf l e with idx := (tapeOf l e).idx + 1 })
        (putE l e { tapeOf l e with idx := (tapeOf l e).idx + 1 })
        (by rw [putL_eol]; exact hl)
        (by rw [htape]; exact hlt)
        (by
          rw [htape]
          show (tapeOf l e).line.drop ((tapeOf l e).idx + 1) = u
          rw [← List.drop_drop, hu]; rfl)
        hq' h1 h2 h3 rfl
      refine ⟨e', ?_⟩
      rw [run_loop_succ, hstep]
      simp only []
      rw [he', htape]
      simp only [List.length_cons, Nat.add_lt_add_iff_right]
      rfl

theorem parseMatchedPair_dq_raises (dfuel : Nat) (u : Str) (l : Local) (e : Env)
    (hl : l.eolLookahead = none) (hle : (tapeOf l e).idx ≤ (tapeOf l e).line.length)
    (hu : (tapeOf l e).line.drop (tapeOf l e).idx = u) (hq : ∀ x ∈ u, dqPlain x = true)
    (hlen : u.length < 1073741824) :
    ∃ e', M.run (parseMatchedPair (dfuel + 1) dqParams) l e =
      (.error (mkParsingError (eofMsg '"') (tapeOf l e).source
        (((tapeOf l e).line.length : Int) - 1)), e') := by
  obtain ⟨e', he'⟩ := dq_scan dfuel u 1073741824 {} l e hl hle hu hq rfl rfl rfl rfl
  refine ⟨e', ?_⟩
  rw [parseMatchedPair_dq]
  have hf : (loopFuel : M Nat) = pure 1073741824 := rfl
  rw [hf, pure_bind, he', if_pos hlen]

theorem dqParams_eq :
    ({ doublequotes := some '"', opn := '"', close := '"', parsingcommand := '"' == '`' } : MPParams) =
      dqParams := by
  unfold dqParams; congr

theorem scanRaises_dquote {u : Str} (hq : ∀ x ∈ u, dqPlain x = true)
    (hlen : u.length < 1073741824) : ScanRaises '"' u := by
  intro l e hl hle hu
  rw [dqParams_eq]
  exact parseMatchedPair_dq_raises 1048575 u l e hl hle hu hq hlen

/- Exclusions on `u` (witnesses checked with `#eval`):
   * `$`:  `(parse "a\"$(".toList {}).1` = ParsingError "… looking for matching ')'" @4: still
     rejected, but by the nested scanner, with another message                     -- necessary
   * backquote: `(parse "a\"`".toList {}).1` = "… matching '`'" @3                 -- necessary
   * backslash: `(parse "a\"b\\".toList {}).1` = "… matching '\"'" @4: the statement holds, the
     proof does not cover it (`passnextchar`, continuation lines)                 -- proof limit -/

/-- **C08_unterminated_dquote** (all lengths, all options): a word of plain characters, then a
    double quote that is never closed, followed by text free of `"`, backslash, `$`, backquote:
    `parse` raises `unexpected EOF while looking for matching '"'` -/
theorem C08_unterminated_dquote (w u : Str) (o : Opts) (hw : ∀ x ∈ w, plainChar x = true)
    (hu : ∀ x ∈ u, dqPlain x = true) (hwl : w.length < 1073741824)
    (hul : u.length + 1 < 1073741824) :
    (parse (w ++ '"' :: u) o).1 =
      .exn (.parsing (eofMsg '"') (w ++ '"' :: u)
        (((Tape.ofInput (w ++ '"' :: u)).line.length : Int) - 1)) := by
  refine unterminated_quote quoteChar_dquote w u o hw hwl (fun tail htail => ?_)
  refine scanRaises_dquote ?_ ?_
  · intro x hx
    rcases List.mem_append.mp hx with h | h
    · exact hu x h
    · rcases htail with rfl | rfl
      · cases h
      · simp only [List.mem_singleton] at h; subst h; decide
  · rcases htail with rfl | rfl <;> simp <;> omega

end Bashlex.C08
