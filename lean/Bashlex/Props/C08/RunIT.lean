/-
  C08 text level, the FULL consumed-indexed pass: `Props/C05/FRun.lean` (`leaves_hooksI`: the
  C05 pass with conservation of here-document bodies, `run_sound_ordB`, the loop of `parse`)
  redone for `HooksOrdC` with the link `consumed = (lead ++ tss.flatten).map symOfTok`.  Same
  proof text, one more conjunct; `RunOKI` becomes `RunOKIS` = `RunOKI` ∧ "the log, as terminals,
  is NEWLINEs then a sentence" (`C08.engine_good` conjoined on the same run).
-/
import Bashlex.Props.C08.HooksT
import Bashlex.Props.C08.Accept
import Bashlex.Props.C05.FRun

namespace Bashlex.C05
open Bashlex Bashlex.Spec Bashlex.Node Bashlex.M Bashlex.LR Bashlex.C12 Bashlex.C03
  Bashlex.C05.TG
set_option linter.unusedSimpArgs false
set_option linter.unusedVariables false

def SILIC (TL : List Token → Nat → Nat → Local → Env → Prop) (len : Nat) (cs : List Nat)
    (vs : List (Nat × SVal)) (la : Option (Nat × SVal)) (l : Local) (e : Env) : Prop :=
  SILC TL len cs vs la l e ∧ IdI vs l ∧ IuAlone vs

def FinLIC (TL : List Token → Nat → Nat → Local → Env → Prop) (len : Nat) (cs : List Nat) (v : SVal)
    (l : Local) (e : Env) : Prop :=
  C03.Fin len v l e ∧ (∀ n, v = .node n → ∃ ts la F l' e', TL (ts ++ la) len F l' e' ∧
    la.length ≤ 1 ∧ NoEOF ts ∧ Covers ts (aleaves n) ∧
    (∀ p, InBody l'.store p → InBody l.store p) ∧
    (∀ id, id < l.store.length → id ∈ pends (aleaves n)) ∧ ts.map symOfTok = cs) ∧
  ((∀ n, v ≠ .node n) → NoneL TL len l e)

section
variable {TL : List Token → Nat → Nat → Local → Env → Prop} {len : Nat}

theorem leaves_hooksIT (hL : TokLogC TL) {np : NestedParse} (hnp : NPOK np)
    (hW : ∀ tr F st, C03.WordSat (StP (TL tr) len F st) np len) :
    HooksOrdC realTables (lrHooks np) (SILIC TL len) (FinLIC TL len) (fun _ => NoneL TL len)
      (fun _ => True) (fun s => s = iuSym) := by
  have hH0 := leaves_hooksT (len := len) hL hnp hW
  have hC := hooks_ok sat_nextToken hnp
  refine ⟨?_, ?_, ?_, ?_, ?_, fun la => Sat.trivial _, ?_⟩
  · -- next: `token()` keeps the length of the store
    intro cs vs
    refine SatS.intro_state ?_
    rintro l0 e0 ⟨hsil, hid, hiu⟩
    have h2 : SatS (lrHooks np).next (fun l e => l = l0 ∧ e = e0)
        (fun _ l e => l.store.length = l0.store.length) := by
      obtain ⟨lead, tss, hcs, hlead, hacc, ⟨g, F, hseg, hlain, hti, hent⟩, hvi, _⟩ := hsil
      show SatS (nextToken >>= fun t => pure (symOfTok t, SVal.tok t)) _ _
      refine SatS.bind (SatS.pre (hL.next (lead ++ tss.flatten ++ laToks none) len F l0.store) ?_) ?_
      · rintro l1 e1 ⟨rfl, rfl⟩; exact ⟨hti, rfl⟩
      · intro t
        refine SatS.pure ?_
        rintro l' e' ⟨a, b, _, _, _, hstep⟩
        exact hstep.1
    refine SatS.post (SatS.and (SatS.pre (hH0.next cs vs) (by rintro l e ⟨rfl, rfl⟩; exact hsil)) h2) ?_
    rintro la l e ⟨h, hlen⟩
    exact ⟨h, fun id hlt => hid id (by rw [← hlen]; exact hlt), hiu⟩
  · -- shift
    rintro cs vs la l e ⟨h, hid, hiu⟩
    refine ⟨hH0.shift cs vs la l e h, fun id hlt => ?_, ?_⟩
    · obtain ⟨x, hx, hxi⟩ := hid id hlt
      exact ⟨x, List.mem_append_left _ hx, hxi⟩
    · intro vs' x hvs hx
      obtain ⟨h1, h2⟩ := List.append_inj' hvs rfl
      simp only [List.cons.injEq, and_true] at h2
      subst h2
      obtain ⟨lead, tss, _, _, _, ⟨g, F, _, hlain, _, _⟩, _⟩ := h
      obtain ⟨t, a, b, rfl, _⟩ := hlain
      have := symOfTok_le t
      simp only [iuSym_eq] at hx
      omega
  · -- a NEWLINE shifted in state 0 is dropped
    rintro cs la l e hnl ⟨h, hid, hiu⟩
    exact ⟨hH0.shiftNl cs la l e hnl h, hid, hiu⟩
  · -- the semantic actions
    intro cs p lhs rhs rest args la hprod hargs hrest hla
    rw [lrHooks_act]
    refine SatS.intro_state ?_
    rintro l0 e0 ⟨⟨lead, tss, hcs, hlead, hacc, hs0, hvi, hvila⟩, hid0, hiu0⟩
    obtain ⟨tssR, tssA, rfl, haccR, haccA⟩ := forall2_append_left hacc
    have hti0 : ∃ F, TL (lead ++ (tssR ++ tssA).flatten ++ laToks la) len F l0 e0 := by
      obtain ⟨g, F, _, _, hti, _⟩ := hs0
      exact ⟨F, hti⟩
    have hvargs : ∀ x ∈ args, VI x.1 x.2 := fun x hx => hvi x (List.mem_append_right _ hx)
    have hvrest : ∀ x ∈ rest, VI x.1 x.2 := fun x hx => hvi x (List.mem_append_left _ hx)
    have hF2 : Forall2 VI rhs (args.map (·.2)) := by rw [← hargs]; exact forall2_vi args hvargs
    have hCact := hC.act p lhs rhs _ hprod hF2
    have hp' : Gen.prodTable[p]? = some (lhs, rhs) := hprod
    have hlt : p < Gen.prodFuncs.length := by
      rw [prodFuncs_length]; exact (List.getElem?_eq_some_iff.mp hp').1
    have hfn : Gen.prodFuncs[p]? = some (fn p) := by
      simp [fn, List.getD_eq_getElem?_getD, List.getElem?_eq_getElem hlt]
    have hz : (List.zip Gen.prodFuncs Gen.prodTable)[p]? = some (fn p, (lhs, rhs)) :=
      List.getElem?_zip_eq_some.mpr ⟨hfn, hp'⟩
    have hg := grammar_ok
    unfold grammarCheck at hg
    have hthis := List.all_eq_true.mp hg _ (List.mem_of_getElem? hz)
    simp only [Bool.or_eq_true, beq_iff_eq] at hthis
    rcases hthis with he | hab
    · rw [he]
      exact SatS.weaken (SatS.of_sat action_unknown _) (fun _ _ _ => trivial)
        (fun _ _ _ h => h.elim) (fun _ h => h)
    · have hspan := satS_action_of_core
        (act_spans (TI := TL (lead ++ (tssR ++ tssA).flatten ++ laToks la)) (len := len)
          (hL.act _) (hW _) hprod hargs hrest hla hab (forall2_hasSort_of_vi hF2))
      have hstore := satS_action_of_core
        (act_store (TI := TL (lead ++ (tssR ++ tssA).flatten ++ laToks la)) (len := len)
          (hL.act _) (hW _) hprod hargs hrest hla hab (forall2_hasSort_of_vi hF2) l0.store)
      have hleaf : Sat (action np (fn p) (args.map (·.2))) (PostL lhs tssA) :=
        sat_action_of_core (act_leaves hprod hargs hab (forall2_hasSort_of_vi hF2) haccA)
      have hids : Sat (action np (fn p) (args.map (·.2))) (PostI (args.map (·.2))) :=
        sat_action_of_core (act_ids hprod hargs hab (forall2_hasSort_of_vi hF2) haccA)
      have hacc' := sat_action_accepts (np := np) (fname := fn p) (args := args.map (·.2))
      have hnd := accept_node (np := np) (fname := fn p) (args := args.map (·.2))
      have hbig := SatS.and_sat (SatS.and_sat (SatS.and_sat (SatS.and_sat (SatS.and_sat hspan
        (hCact.weaken (fun _ h => h.1) (fun _ _ => trivial))) hleaf) hacc') hids) hnd
      have hbig' := SatS.and
        (SatS.pre hbig (P' := fun l e => l = l0 ∧ e = e0) (by rintro l e ⟨rfl, rfl⟩; exact hs0))
        (SatS.pre hstore (P' := fun l e => l = l0 ∧ e = e0)
          (by rintro l e ⟨rfl, rfl⟩; exact ⟨hs0, rfl⟩))
      refine SatS.post hbig' ?_
      rintro r l e ⟨⟨⟨⟨⟨⟨hpost, hvr⟩, hpl⟩, hfa⟩, hpi⟩, hnode⟩, hsr⟩
      -- conservation: every cell of the new store is among the leaves of `rest` or of `r`
      have hcons : ∀ id, id < l.store.length →
          (∃ x ∈ rest, id ∈ pends (valLeaves x.2)) ∨ id ∈ pends (valLeaves r.1) := by
        intro id hlt
        have hold : id < l0.store.length →
            (∃ x ∈ rest, id ∈ pends (valLeaves x.2)) ∨ id ∈ pends (valLeaves r.1) := by
          intro h0
          obtain ⟨x, hx, hxi⟩ := hid0 id h0
          rcases List.mem_append.mp hx with hx | hx
          · exact Or.inl ⟨x, hx, hxi⟩
          · exact Or.inr (hpi id (mem_pends_flatMap hx hxi))
        rcases hsr.1 with h1 | ⟨h1, h2⟩
        · exact hold (by rw [← h1]; exact hlt)
        · by_cases h0 : id < l0.store.length
          · exact hold h0
          · have : id = l0.store.length := by omega
            rw [this]
            exact Or.inr h2
      unfold PostS at hpost
      by_cases hacc1 : r.2 = true
      · simp only [hacc1, if_true] at hpost ⊢
        refine ⟨hpost, ?_, fun hne => absurd (hnode hacc1).choose_spec (hne _)⟩
        intro n hn
        have hrest0 := rest_nil_of_accept hprod hrest (hfa hacc1)
        subst hrest0
        have htR : tssR = [] := by cases haccR; rfl
        subst htR
        obtain ⟨F, hti⟩ := hti0
        refine ⟨lead ++ tssA.flatten, laToks la, F, l0, e0, by simpa using hti, laToks_le la, ?_, ?_,
          hsr.2, ?_, (by rw [hcs]; simp)⟩
        · intro t ht
          rcases List.mem_append.mp ht with ht | ht
          · exact hlead.2 t ht
          · exact hpl.2.2 t ht
        · have := Covers.append hlead.1 (hpl.1 n hn)
          simpa using this
        · intro id hlt
          rcases hcons id hlt with ⟨x, hx, _⟩ | h
          · cases hx
          · rw [hn] at h; exact h
      · simp only [hacc1, if_false] at hpost ⊢
        have hfalse : r.2 = false := by simpa using hacc1
        refine ⟨⟨lead, tssR ++ [tssA.flatten], (by rw [hcs]; simp), hlead, forall2_snoc haccR (hpl.2.1 hfalse),
          ⟨?_, ?_, hvila⟩⟩, ?_, ?_⟩
        · have he : (tssR ++ [tssA.flatten]).flatten = (tssR ++ tssA).flatten := by simp
          rw [he]
          exact hpost
        · intro x hx
          rcases List.mem_append.mp hx with hx | hx
          · exact hvrest x hx
          · simp only [List.mem_singleton] at hx; subst hx; exact hvr
        · intro id hlt
          rcases hcons id hlt with ⟨x, hx, hxi⟩ | h
          · exact ⟨x, List.mem_append_left _ hx, hxi⟩
          · exact ⟨(lhs, r.1), List.mem_append_right _ (by simp), h⟩
        · intro vs' x hvs hx
          obtain ⟨h1, h2⟩ := List.append_inj' hvs rfl
          simp only [List.cons.injEq, and_true] at h2
          subst h2
          subst h1
          rcases hrest with h | ⟨s', t, hs', hg⟩
          · exact h
          · have hx' : lhs = iuSym := hx
            rw [hx'] at hg
            exact absurd (goto_iu hg) hs'
  · -- the `accept` entry: the top of the stack is an `inputunit` entry, which holds `None`
    rintro cs vs x la l e hx ⟨s', hs'⟩ ⟨⟨lead, tss, hcs, hlead, hacc, hsi⟩, hid, hiu⟩
    have hla0 : la.1 = 0 := accept_end hs'
    have hvs : vs = [] := hiu vs x rfl hx
    subst hvs
    obtain ⟨tssR, tssA, rfl, haccR, haccA⟩ := forall2_append_left hacc
    obtain ⟨ts, rfl, hax⟩ := forall2_1 haccA
    have htR : tssR = [] := by cases haccR; rfl
    subst htR
    have hnone : x.2 = .none := acc_none_of_iu hax hx
    refine ⟨?_, ?_, fun _ => ?_⟩
    · intro n hn; rw [hnone] at hn; cases hn
    · intro n hn; rw [hnone] at hn; cases hn
    · obtain ⟨⟨g, F, _, hlain, hti, _⟩, _⟩ := hsi
      have hc : Covers ts [] := by
        have := hax.1
        rw [hnone] at this
        exact this
      have hne : NoEOF ts := hax.2.2.2.2 (by rw [hnone]; exact notTok_none)
      refine ⟨lead ++ ts, laToks (some la), F, by simpa [List.append_assoc] using hti, laToks_le _, ?_, ?_,
        ?_, la_eof hlain hla0⟩
      · have := Covers.append hlead.1 hc
        simpa using this
      · intro t ht
        rcases List.mem_append.mp ht with ht | ht
        · exact hlead.2 t ht
        · exact hne t ht
      · refine store_nil_of_idI hid ?_
        intro y hy
        simp only [List.nil_append, List.mem_singleton] at hy
        subst hy
        rw [hnone]; rfl
  · -- the all-newline return: the stack is empty
    rintro cs la l e hhint ⟨⟨lead, tss, hcs, hlead, hacc, ⟨⟨g, F, _, hlain, hti, _⟩, _⟩⟩, hid, _⟩
    have htss : tss = [] := by cases hacc; rfl
    subst htss
    have hla0 : la.1 = 0 := by
      rcases hhint with h | h
      · exact h
      · exact accept_end h
    exact ⟨lead, laToks (some la), F, by simpa using hti, laToks_le _, hlead.1, hlead.2,
      store_nil_of_idI hid (fun y hy => by cases hy), la_eof hlain hla0⟩

end

/-! ## one checked parser run -/

/-- `RunOK`, and: **every here-document body attached in the store -- in the state the log was
    known in -- is a leaf of the returned tree** -/
def RunOKIS (TL : List Token → Nat → Nat → Local → Env → Prop) (s : Str) (n : Node) : Prop :=
  TopOK s.length n ∧ ∃ ts la F l' e', TL (ts ++ la) s.length F l' e' ∧ la.length ≤ 1 ∧
    NoEOF ts ∧ FCovers s.length ts (Spec.leaves n) ∧
    (∀ p, InBody l'.store p → InBodyLeaf (Spec.leaves n) p) ∧ C08.Sentence (ts.map symOfTok)

section
attribute [local instance] C16.stdEnvRel
variable {TL : List Token → Nat → Nat → Local → Env → Prop}

/-- **one checked parser run**, with conservation of the bodies -/
theorem parserRunK_leavesIT (hL : TokLogC TL)
    (hN : ∀ tr d, NPSpans (TL tr) (npK true (parserRunK d))) :
    ∀ d s, SatS (parserRunK d) (fun l e => InitState s l e ∧ TL [] s.length 0 l e)
      (fun r _ _ => (∀ n, r = some n → RunOKIS TL s n) ∧ (r = none → RunNone TL s)) := by
  intro d
  cases d with
  | zero => intro s; exact SatS.raise trivial
  | succ d =>
    intro s
    rw [parserRunK_succ]
    unfold C16.level
    have hnps : ∀ tr, NPSpans (TL tr) (npK true (parserRunK d)) := fun tr => hN tr d
    have hH := leaves_hooksIT (len := s.length) hL (npok_npK d)
      (fun tr => C03.wordContract_act (hL.act tr) _ (hnps tr) s.length)
    have hEG := C08.engine_good (npK true (parserRunK d)) (lrHooks (npK true (parserRunK d))).next
      1073741824
    refine SatS.bind (SatS.weaken (SatS.and_sat
      (run_sound_ordC real_WF accept_iu _ hH 1073741824) hEG) ?_
      (fun _ _ _ h => h) (fun _ _ => trivial)) (fun res => ?_)
    · intro l e hinit
      refine ⟨⟨[], [], rfl, ⟨.nil, fun t ht => by cases ht⟩, .nil,
        ⟨0, 0, Nat.le_refl 0, Nat.le_refl 0, ?_, ?_⟩, ?_, ?_⟩, ?_, ?_⟩
      · exact hinit.2
      · intro x hx; cases hx
      · intro x hx; cases hx
      · intro x hx; cases hx
      · intro id hlt
        rw [hinit.1.1] at hlt
        cases hlt
      · intro vs' x h _
        exact absurd h (by simp)
    · refine SatS.bind SatS.get (fun l => ?_)
      split
      · rename_i n _ _ _
        refine SatS.pure ?_
        rintro l' e' ⟨rfl, hgood, heg⟩
        refine ⟨fun m hm => ?_, fun h => by cases h⟩
        cases hm
        obtain ⟨hfin, hcov, _⟩ := hgood
        obtain ⟨hs, hroot, hseal, g, hends, hdone⟩ := hfin n rfl
        obtain ⟨ts, la, F, l1, e1, htl, hla, hno, hc, hbody, hall, hlink⟩ := hcov n rfl
        refine ⟨⟨strict_resolve _ n hs hends hdone, noPend_resolve _ n hseal, ?_⟩,
          ts, la, F, l1, e1, htl, hla, hno, ?_, ?_, (by rw [hlink]; exact heg.sentence)⟩
        · rcases hroot with ht | hne
          · exact Or.inl (tainted_resolve _ n hdone ht)
          · obtain ⟨e1', e2'⟩ := ext_pos_resolve hdone
            right; omega
        · rw [leaves_resolve]
          refine fcovers_of_covers (g := g) hc ?_
          intro id p hh hmem c hc'
          obtain ⟨m, hm1, hm2⟩ := pend_mem id p hh n hmem
          exact ((hdone m hm1) id p hm2).2 c hc'
        · intro p hp
          exact body_in_leaf hall (hbody p hp)
      · rename_i hne
        refine SatS.pure ?_
        rintro l' e' ⟨rfl, hgood, heg⟩
        refine ⟨fun n hn => (by cases hn), fun _ => ?_⟩
        cases res with
        | accepted v tr cs b =>
          have hg : FinLIC TL s.length cs v l e' := hgood
          obtain ⟨lead, la, F, h1, h2, h3, h4, h5, h6⟩ :=
            hg.2.2 (fun n hv => hne n tr cs b (by rw [hv]))
          exact ⟨lead, la, F, l, e', h1, h2, h3, h4, h5, h6⟩
        | blank a b =>
          have hg : NoneL TL s.length l e' := hgood
          obtain ⟨lead, la, F, h1, h2, h3, h4, h5, h6⟩ := hg
          exact ⟨lead, la, F, l, e', h1, h2, h3, h4, h5, h6⟩

theorem runParserK_leavesIT (hL : TokLogC TL)
    (hN : ∀ tr d, NPSpans (TL tr) (npK true (parserRunK d))) {s : Str} {o : Opts}
    {t : List Char} {n : Node} (hinit : ∀ l e, InitState s l e → TL [] s.length 0 l e)
    (h : (runParserK s o t).1 = .ok (some n)) : RunOKIS TL s n := by
  obtain ⟨l', e', hr⟩ := runParserK_ok h
  have hi : InitState s ({ limit := o.limit } : Local)
      { tape := Tape.ofInput s, strict := o.strict, proceed := o.proceed, touched := t } :=
    ⟨rfl, rfl, rfl, rfl, Or.inr ⟨rfl, rfl⟩⟩
  exact ((parserRunK_leavesIT hL hN maxDepth s).ok ⟨hi, hinit _ _ hi⟩ hr).1 n rfl

theorem runParserK_noneT (hL : TokLogC TL)
    (hN : ∀ tr d, NPSpans (TL tr) (npK true (parserRunK d))) {s : Str} {o : Opts}
    {t : List Char} (hinit : ∀ l e, InitState s l e → TL [] s.length 0 l e)
    (h : (runParserK s o t).1 = .ok none) : RunNone TL s := by
  obtain ⟨l', e', hr⟩ := runParserK_ok h
  have hi : InitState s ({ limit := o.limit } : Local)
      { tape := Tape.ofInput s, strict := o.strict, proceed := o.proceed, touched := t } :=
    ⟨rfl, rfl, rfl, rfl, Or.inr ⟨rfl, rfl⟩⟩
  exact ((parserRunK_leavesIT hL hN maxDepth s).ok ⟨hi, hinit _ _ hi⟩ hr).2 rfl

end

/-- **the parts `parse` returns from index `i` on**, each run with its own invariant, with
    conservation of the bodies -/
inductive PartsIS (TLf : Str → List Token → Nat → Nat → Local → Env → Prop) (s : Str) :
    Nat → List Node → Prop
  /-- the loop of `parse` stops at the end of the input … -/
  | done (i : Nat) : s.length ≤ i → PartsIS TLf s i []
  /-- … or when a run returns `None`: that run consumed NEWLINE tokens only -/
  | stop (i : Nat) : RunNone (TLf (s.drop i)) (s.drop i) → PartsIS TLf s i []
  | cons {i : Nat} {n : Node} {rest : List Node} : i ≤ s.length →
      RunOKIS (TLf (s.drop i)) (s.drop i) n →
      PartsIS TLf s (max (nextIndex (n.shift i)) (i + 1)) rest →
      PartsIS TLf s i (n.shift i :: rest)

theorem PartsIS.mem {TLf : Str → List Token → Nat → Nat → Local → Env → Prop} {s : Str} :
    ∀ {i : Nat} {ps : List Node}, PartsIS TLf s i ps → ∀ part ∈ ps,
      ∃ k n, i ≤ k ∧ k ≤ s.length ∧ part = n.shift k ∧ RunOKIS (TLf (s.drop k)) (s.drop k) n := by
  intro i ps h
  induction h with
  | done i _ => intro part hp; cases hp
  | stop i _ => intro part hp; cases hp
  | @cons i n rest hi hrun _ ih =>
    intro part hp
    rcases List.mem_cons.mp hp with rfl | hp
    · exact ⟨i, n, Nat.le_refl i, hi, rfl, hrun⟩
    · obtain ⟨k, m, h1, h2, h3, h4⟩ := ih part hp
      refine ⟨k, m, ?_, h2, h3, h4⟩
      have : i + 1 ≤ max (nextIndex (n.shift i)) (i + 1) := Nat.le_max_right _ _
      omega

section
attribute [local instance] C16.stdEnvRel
variable {TLf : Str → List Token → Nat → Nat → Local → Env → Prop}

theorem parseLoopK_leavesIT (hL : ∀ s0, TokLogC (TLf s0))
    (hN : ∀ s0 tr d, NPSpans (TLf s0 tr) (npK true (parserRunK d)))
    (hinit : ∀ s0 l e, InitState s0 l e → TLf s0 [] s0.length 0 l e) (s : Str) (o : Opts) :
    ∀ (fuel index : Nat) (acc : List Node) (touched : List Char) (ps : List Node),
      (parseLoopK s o fuel index acc touched).1 = .ok ps →
      ∃ rest, ps = acc ++ rest ∧ PartsIS TLf s index rest := by
  intro fuel
  induction fuel with
  | zero => intro index acc touched ps h; simp [parseLoopK] at h
  | succ fuel ih =>
    intro index acc touched ps h
    unfold parseLoopK at h
    split at h
    · rename_i hidx
      rcases hr : runParserK (s.drop index) o touched with ⟨r, t⟩
      rw [hr] at h
      cases r with
      | error e => simp only [] at h; cases h
      | ok v =>
        cases v with
        | none =>
          simp only [] at h; cases h
          exact ⟨[], by simp, .stop _ (runParserK_noneT (hL _) (hN _) (hinit _) (by rw [hr]))⟩
        | some part =>
          simp only [] at h
          have hp : RunOKIS (TLf (s.drop index)) (s.drop index) part :=
            runParserK_leavesIT (hL _) (hN _) (hinit _) (by rw [hr])
          obtain ⟨rest, hps, hrest⟩ := ih _ _ _ ps h
          exact ⟨part.shift index :: rest, by simp [hps], .cons (Nat.le_of_lt hidx) hp hrest⟩
    · rename_i hidx
      cases h; exact ⟨[], by simp, .done _ (by omega)⟩

theorem parseK_leavesIT (hL : ∀ s0, TokLogC (TLf s0))
    (hN : ∀ s0 tr d, NPSpans (TLf s0 tr) (npK true (parserRunK d)))
    (hinit : ∀ s0 l e, InitState s0 l e → TLf s0 [] s0.length 0 l e) (s : Str) (o : Opts)
    (parts : List Node) (h : (parseK s o).1 = .parts parts) : PartsIS TLf s 0 parts := by
  unfold parseK at h
  rcases hr : runParserK s o [] with ⟨r, t⟩
  rw [hr] at h
  cases r with
  | error e => simp only [] at h; cases h
  | ok v =>
    cases v with
    | none =>
      simp only [] at h; cases h
      have := runParserK_noneT (hL s) (hN s) (hinit s) (o := o) (t := []) (by rw [hr])
      exact .stop 0 (by simpa using this)
    | some first =>
      simp only [] at h
      have hp : RunOKIS (TLf s) s first := runParserK_leavesIT (hL _) (hN _) (hinit _) (by rw [hr])
      rcases hl : parseLoopK s o (s.length + 1) (max (nextIndex first) 1) [first] t with ⟨r2, t2⟩
      rw [hl] at h
      cases r2 with
      | error e => simp only [] at h; cases h
      | ok ps =>
        simp only [] at h
        cases h
        obtain ⟨rest, hps, hrest⟩ := parseLoopK_leavesIT hL hN hinit s o _ _ _ _ parts (by rw [hl])
        rw [hps]
        have h0 : first.shift 0 = first := Node.shift_zero first
        have := PartsIS.cons (TLf := TLf) (s := s) (i := 0) (n := first) (rest := rest)
          (Nat.zero_le _) (by simpa using hp) (by rw [h0]; simpa using hrest)
        rw [h0] at this
        simpa using this

end

end Bashlex.C05
