/-
  C08 text level: the run theorem and the loop of `parse` for the consumed-indexed pass
  (`FSoundC.lean`, `HooksT.lean`); same text as `Props/C05/TGRun.lean` with `RunOK` strengthened
  to `RunTextK`: the token log of the run -- the SAME log the tokenizer invariant `TL` speaks
  about and that covers the leaves of the returned tree -- is, as a sequence of terminals, what the
  engine consumed, which is NEWLINEs followed by a sentence of the grammar (`C08.engine_good`,
  conjoined on the same run by `SatS.and_sat`).
-/
import Bashlex.Props.C08.HooksT
import Bashlex.Props.C08.Accept

namespace Bashlex.C05
open Bashlex Bashlex.Spec Bashlex.Node Bashlex.M Bashlex.LR Bashlex.C12 Bashlex.C03
set_option linter.unusedSimpArgs false
set_option linter.unusedVariables false

/-- `RunOK` (`Props/C05/Run.lean`) and: the log `ts`, as terminals, is NEWLINEs then a sentence -/
def RunTextK (TL : List Token → Nat → Nat → Local → Env → Prop) (s : Str) (n : Node) : Prop :=
  TopOK s.length n ∧ ∃ ts la F l' e', TL (ts ++ la) s.length F l' e' ∧ la.length ≤ 1 ∧
    NoEOF ts ∧ FCovers s.length ts (Spec.leaves n) ∧ C08.Sentence (ts.map symOfTok)

/-! ## one checked parser run, the loop of `parse` -/

section
attribute [local instance] C16.stdEnvRel
variable {TL : List Token → Nat → Nat → Local → Env → Prop}

/-- **one checked parser run** from an initial state in which the invariant holds -/
theorem parserRunK_textT (hL : TokLogC TL)
    (hN : ∀ tr d, NPSpans (TL tr) (npK true (parserRunK d))) :
    ∀ d s, SatS (parserRunK d) (fun l e => InitState s l e ∧ TL [] s.length 0 l e)
      (fun r _ _ => ∀ n, r = some n → RunTextK TL s n) := by
  intro d
  cases d with
  | zero => intro s; exact SatS.raise trivial
  | succ d =>
    intro s
    rw [parserRunK_succ]
    unfold C16.level
    have hnps : ∀ tr, NPSpans (TL tr) (npK true (parserRunK d)) := fun tr => hN tr d
    have hH := leaves_hooksT (len := s.length) hL (npok_npK d)
      (fun tr => C03.wordContract_act (hL.act tr) _ (hnps tr) s.length)
    have hEG := C08.engine_good (npK true (parserRunK d)) (lrHooks (npK true (parserRunK d))).next
      1073741824
    refine SatS.bind (SatS.weaken (SatS.and_sat
      (run_sound_ordC real_WF accept_iu _ hH 1073741824) hEG) ?_
      (fun _ _ _ h => h) (fun _ _ => trivial)) (fun res => ?_)
    · intro l e hinit
      refine ⟨[], [], rfl, ⟨.nil, fun t ht => by cases ht⟩, .nil,
        ⟨0, 0, Nat.le_refl 0, Nat.le_refl 0, ?_, ?_⟩, ?_, ?_⟩
      · exact hinit.2
      · intro x hx; cases hx
      · intro x hx; cases hx
      · intro x hx; cases hx
    · refine SatS.bind SatS.get (fun l => ?_)
      split
      · rename_i n _ _ _
        refine SatS.pure ?_
        rintro l' e' ⟨rfl, hgood, heg⟩ m hm
        cases hm
        obtain ⟨hfin, hcov⟩ := hgood
        obtain ⟨hs, hroot, hseal, g, hends, hdone⟩ := hfin n rfl
        obtain ⟨ts, la, F, l1, e1, htl, hla, hno, hc, hlink⟩ := hcov n rfl
        refine ⟨⟨strict_resolve _ n hs hends hdone, noPend_resolve _ n hseal, ?_⟩,
          ts, la, F, l1, e1, htl, hla, hno, ?_, (by rw [hlink]; exact heg.sentence)⟩
        · rcases hroot with ht | hne
          · exact Or.inl (tainted_resolve _ n hdone ht)
          · obtain ⟨e1', e2'⟩ := ext_pos_resolve hdone
            right; omega
        · rw [leaves_resolve]
          refine fcovers_of_covers (g := g) hc ?_
          intro id p hh hmem c hc'
          obtain ⟨m, hm1, hm2⟩ := pend_mem id p hh n hmem
          exact ((hdone m hm1) id p hm2).2 c hc'
      · exact SatS.pure (fun _ _ _ n hn => by cases hn)

theorem runParserK_textT (hL : TokLogC TL)
    (hN : ∀ tr d, NPSpans (TL tr) (npK true (parserRunK d))) {s : Str} {o : Opts}
    {t : List Char} {n : Node} (hinit : ∀ l e, InitState s l e → TL [] s.length 0 l e)
    (h : (runParserK s o t).1 = .ok (some n)) : RunTextK TL s n := by
  obtain ⟨l', e', hr⟩ := runParserK_ok h
  have hi : InitState s ({ limit := o.limit } : Local)
      { tape := Tape.ofInput s, strict := o.strict, proceed := o.proceed, touched := t } :=
    ⟨rfl, rfl, rfl, rfl, Or.inr ⟨rfl, rfl⟩⟩
  exact (parserRunK_textT hL hN maxDepth s).ok ⟨hi, hinit _ _ hi⟩ hr n rfl

end

/-- **the parts `parse` returns from index `i` on**, each run with its own invariant `TLf s[i:]` -/
inductive PartsT (TLf : Str → List Token → Nat → Nat → Local → Env → Prop) (s : Str) :
    Nat → List Node → Prop
  | nil (i : Nat) : PartsT TLf s i []
  | cons {i : Nat} {n : Node} {rest : List Node} : i ≤ s.length →
      RunTextK (TLf (s.drop i)) (s.drop i) n →
      PartsT TLf s (max (nextIndex (n.shift i)) (i + 1)) rest →
      PartsT TLf s i (n.shift i :: rest)

theorem PartsT.mem {TLf : Str → List Token → Nat → Nat → Local → Env → Prop} {s : Str} :
    ∀ {i : Nat} {ps : List Node}, PartsT TLf s i ps → ∀ part ∈ ps,
      ∃ k n, i ≤ k ∧ k ≤ s.length ∧ part = n.shift k ∧ RunTextK (TLf (s.drop k)) (s.drop k) n := by
  intro i ps h
  induction h with
  | nil i => intro part hp; cases hp
  | @cons i n rest hi hrun _ ih =>
    intro part hp
    rcases List.mem_cons.mp hp with rfl | hp
    · exact ⟨i, n, Nat.le_refl i, hi, rfl, hrun⟩
    · obtain ⟨k, m, h1, h2, h3, h4⟩ := ih part hp
      refine ⟨k, m, ?_, h2, h3, h4⟩
      have : i + 1 ≤ max (nextIndex (n.shift i)) (i + 1) := Nat.le_max_right _ _
      omega

section
attribute [local instance] C16.stdEnvRel
variable {TLf : Str → List Token → Nat → Nat → Local → Env → Prop}

theorem parseLoopK_textT (hL : ∀ s0, TokLogC (TLf s0))
    (hN : ∀ s0 tr d, NPSpans (TLf s0 tr) (npK true (parserRunK d)))
    (hinit : ∀ s0 l e, InitState s0 l e → TLf s0 [] s0.length 0 l e) (s : Str) (o : Opts) :
    ∀ (fuel index : Nat) (acc : List Node) (touched : List Char) (ps : List Node),
      (parseLoopK s o fuel index acc touched).1 = .ok ps →
      ∃ rest, ps = acc ++ rest ∧ PartsT TLf s index rest := by
  intro fuel
  induction fuel with
  | zero => intro index acc touched ps h; simp [parseLoopK] at h
  | succ fuel ih =>
    intro index acc touched ps h
    unfold parseLoopK at h
    split at h
    · rename_i hidx
      rcases hr : runParserK (s.drop index) o touched with ⟨r, t⟩
      rw [hr] at h
      cases r with
      | error e => simp only [] at h; cases h
      | ok v =>
        cases v with
        | none => simp only [] at h; cases h; exact ⟨[], by simp, .nil _⟩
        | some part =>
          simp only [] at h
          have hp : RunTextK (TLf (s.drop index)) (s.drop index) part :=
            runParserK_textT (hL _) (hN _) (hinit _) (by rw [hr])
          obtain ⟨rest, hps, hrest⟩ := ih _ _ _ ps h
          exact ⟨part.shift index :: rest, by simp [hps], .cons (Nat.le_of_lt hidx) hp hrest⟩
    · cases h; exact ⟨[], by simp, .nil _⟩

theorem parseK_textT (hL : ∀ s0, TokLogC (TLf s0))
    (hN : ∀ s0 tr d, NPSpans (TLf s0 tr) (npK true (parserRunK d)))
    (hinit : ∀ s0 l e, InitState s0 l e → TLf s0 [] s0.length 0 l e) (s : Str) (o : Opts)
    (parts : List Node) (h : (parseK s o).1 = .parts parts) : PartsT TLf s 0 parts := by
  unfold parseK at h
  rcases hr : runParserK s o [] with ⟨r, t⟩
  rw [hr] at h
  cases r with
  | error e => simp only [] at h; cases h
  | ok v =>
    cases v with
    | none => simp only [] at h; cases h; exact .nil _
    | some first =>
      simp only [] at h
      have hp : RunTextK (TLf s) s first := runParserK_textT (hL _) (hN _) (hinit _) (by rw [hr])
      rcases hl : parseLoopK s o (s.length + 1) (max (nextIndex first) 1) [first] t with ⟨r2, t2⟩
      rw [hl] at h
      cases r2 with
      | error e => simp only [] at h; cases h
      | ok ps =>
        simp only [] at h
        cases h
        obtain ⟨rest, hps, hrest⟩ := parseLoopK_textT hL hN hinit s o _ _ _ _ parts (by rw [hl])
        rw [hps]
        have h0 : first.shift 0 = first := Node.shift_zero first
        have := PartsT.cons (TLf := TLf) (s := s) (i := 0) (n := first) (rest := rest)
          (Nat.zero_le _) (by simpa using hp) (by rw [h0]; simpa using hrest)
        rw [h0] at this
        simpa using this

end

end Bashlex.C05
