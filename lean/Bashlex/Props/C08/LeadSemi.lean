/-
  C08, text level: an input that starts with `;` is rejected, whatever follows
  (**`C08_leading_semi`**: the token is `;;&`, `;;`, `;&` or `;` according to what follows; state 0
  of the real tables has no action on any of them).  Instance of `leading_op`.
-/
import Bashlex.Props.C08.LeadOp

namespace Bashlex.C08
open Bashlex Bashlex.M Bashlex.C10
set_option linter.unusedSimpArgs false
set_option linter.unusedVariables false

/-- `peek_unget_top` with the cursor anywhere inside a line of at least two characters -/
theorem peek_unget_top' (l : Local) (e : Env) (ht : l.tape = none) (heol : l.eolLookahead = none)
    (h1 : 1 ≤ e.tape.idx) (hle : e.tape.idx ≤ e.tape.line.length) (h2 : 2 ≤ e.tape.line.length)
    (hbs : NoFinalBackslash e.tape.line) :
    ∃ p e1 l' e', M.run (getc true) l e = (.ok (p, l), e1) ∧
      M.run (ungetc p) l e1 = (.ok ((), l'), e') ∧
      (l' = l ∨ l' = { l with eolLookahead := p }) ∧
      e'.tape.line = e.tape.line ∧ e'.tape.added = e.tape.added ∧ 1 ≤ e'.tape.idx := by
  have hT : tapeOf l e = e.tape := tapeOf_top' ht e
  have hspec := tape_getc_spec (e.tape.line.length + 1) e.tape hle (by omega)
  have hsome := getcS_isSome (e.tape.line.drop e.tape.idx) (hbs.drop _)
  cases hg : getcS (e.tape.line.drop e.tape.idx) with
  | none => rw [hg] at hsome; cases hsome
  | some v =>
    obtain ⟨p, rest⟩ := v
    rw [hg] at hspec
    simp only [] at hspec
    have hget : M.run (getc true) l e = (.ok (p, l), { e with tape := seek e.tape rest }) := by
      rw [run_getc _ l e heol, hT, hspec]
      simp only [putL_top ht, putE_top ht]
    obtain ⟨pre, hpre, hpne, hpnone⟩ := getcS_suffix _ hg
    have hlen : rest.length ≤ e.tape.line.length - e.tape.idx := by
      have := congrArg List.length hpre
      simp only [List.length_drop, List.length_append] at this
      omega
    have hidx1 : e.tape.idx ≤ (seek e.tape rest).idx := by
      simp only [seek_idx, posOf]; omega
    have hT1 : tapeOf l { e with tape := seek e.tape rest } = seek e.tape rest := tapeOf_top' ht _
    refine ⟨p, { e with tape := seek e.tape rest }, ?_⟩
    rcases ungetc_cases (seek e.tape rest) with hu | hu
    · refine ⟨l, { e with tape := { seek e.tape rest with idx := (seek e.tape rest).idx - 1 } },
        hget, ?_, Or.inl rfl, rfl, rfl, ?_⟩
      · rw [run_ungetc, hT1, hu]
        simp only [putL_top ht, putE_top ht]
      · show 1 ≤ (seek e.tape rest).idx - 1
        have hstrict : 2 ≤ (seek e.tape rest).idx := by
          simp only [seek_idx, posOf]
          cases p with
          | none => rw [hpnone rfl]; simp; omega
          | some ch =>
            have := getcS_length_lt hg
            simp only [List.length_drop] at this
            omega
        omega
    · refine ⟨{ l with eolLookahead := p }, { e with tape := seek e.tape rest },
        hget, ?_, Or.inr rfl, rfl, rfl, ?_⟩
      · rw [run_ungetc, hT1, hu]
      · show 1 ≤ (seek e.tape rest).idx
        omega

theorem readtokenMeta_semi : readtokenMeta ';' = (do
    modify fun l => { l with ps := { l.ps with assignok := false } }
    let peek ← getc true
    if peek = some ';' then do
      modify fun l => { l with ps := { l.ps with casepat := true } }
      let p ← getc true
      if p = some '&' then pure (some TokType.SEMI_SEMI_AND)
      else do
        ungetc p
        pure (some TokType.SEMI_SEMI)
    else if peek = some '&' then pure (some TokType.SEMI_AND)
    else do
      ungetc peek
      pure (some TokType.SEMICOLON)) := by
  unfold readtokenMeta
  simp
  rfl

theorem metaOK_semi : MetaOK ';' [.SEMI_SEMI_AND, .SEMI_SEMI, .SEMI_AND, .SEMICOLON] := by
  intro s l e h heol hlt hbs
  rw [readtokenMeta_semi]
  refine Returns.bindOk (C10.run_modify _ _ _) ?_
  -- first look-ahead
  obtain ⟨p, e1, l', e', hget, hunget, hl', hline, hadded, hidx⟩ :=
    peek_unget_top { l with ps := { l.ps with assignok := false } } e h.tape heol h.idx hlt hbs
  obtain ⟨p', e1', hget', hline1, hadded1, hidx1, hle1⟩ :=
    getc_top { l with ps := { l.ps with assignok := false } } e h.tape heol (Nat.le_of_lt hlt) hbs
  have hpp : p' = p ∧ e1' = e1 := by
    rw [hget] at hget'
    simp only [Prod.mk.injEq, Except.ok.injEq] at hget'
    exact ⟨hget'.1.1.symm, hget'.2.symm⟩
  obtain ⟨rfl, rfl⟩ := hpp
  refine Returns.bindOk hget ?_
  have hsrc1 : e1'.tape.source = s := by
    rw [← h.src]; unfold Tape.source; rw [hline1, hadded1]
  by_cases h1 : p' = some ';'
  · simp only [h1, if_true]
    refine Returns.bindOk (C10.run_modify _ _ _) ?_
    -- second look-ahead, from the state with `casepat` set
    have hbs1 : NoFinalBackslash e1'.tape.line := by rw [hline1]; exact hbs
    have h2len : 2 ≤ e1'.tape.line.length := by rw [hline1]; have := h.idx; omega
    obtain ⟨q, f1, m', f', hgetq, hungetq, hm', hlineq, haddedq, hidxq⟩ :=
      peek_unget_top' { l with ps := { l.ps with assignok := false, casepat := true } } e1' h.tape
        heol (Nat.le_trans h.idx hidx1) hle1 h2len hbs1
    obtain ⟨q', f1', hgetq', hlineq1, haddedq1, hidxq1, _⟩ :=
      getc_top { l with ps := { l.ps with assignok := false, casepat := true } } e1' h.tape heol
        hle1 hbs1
    have hqq : q' = q ∧ f1' = f1 := by
      rw [hgetq] at hgetq'
      simp only [Prod.mk.injEq, Except.ok.injEq] at hgetq'
      exact ⟨hgetq'.1.1.symm, hgetq'.2.symm⟩
    obtain ⟨rfl, rfl⟩ := hqq
    refine Returns.bindOk hgetq ?_
    by_cases h2 : q' = some '&'
    · simp only [h2, if_true]
      refine Returns.pure ⟨⟨_, by simp, rfl⟩, h.tape, h.pos, ?_, ?_⟩
      · exact Nat.le_trans (Nat.le_trans h.idx hidx1) hidxq1
      · rw [← hsrc1]; unfold Tape.source; rw [hlineq1, haddedq1]
    · simp only [h2, if_false]
      refine Returns.bindOk hungetq ?_
      have hsrc2 : f'.tape.source = s := by
        rw [← hsrc1]; unfold Tape.source; rw [hlineq, haddedq]
      rcases hm' with rfl | rfl
      · exact Returns.pure ⟨⟨_, by simp, rfl⟩, h.tape, h.pos, hidxq, hsrc2⟩
      · exact Returns.pure ⟨⟨_, by simp, rfl⟩, h.tape, h.pos, hidxq, hsrc2⟩
  · simp only [h1, if_false]
    by_cases h2 : p' = some '&'
    · simp only [h2, if_true]
      exact Returns.pure ⟨⟨_, by simp, rfl⟩, h.tape, h.pos, Nat.le_trans h.idx hidx1, hsrc1⟩
    · simp only [h2, if_false]
      refine Returns.bindOk hunget ?_
      have hsrc : e'.tape.source = s := by
        rw [← h.src]; unfold Tape.source; rw [hline, hadded]
      rcases hl' with rfl | rfl
      · exact Returns.pure ⟨⟨_, by simp, rfl⟩, h.tape, h.pos, hidx, hsrc⟩
      · exact Returns.pure ⟨⟨_, by simp, rfl⟩, h.tape, h.pos, hidx, hsrc⟩

theorem semi_rejected : ∀ ty ∈ [TokType.SEMI_SEMI_AND, TokType.SEMI_SEMI, TokType.SEMI_AND,
    TokType.SEMICOLON], ty ≠ .EOF ∧ LR.realTables.action 0 ty.sym = none := by
  decide +kernel

/-- **C08_leading_semi** (all lengths, all options): an input that starts with `;` is rejected
    with "unexpected token ';;&'", "';;'", "';&'" or "';'" at position 0, whatever follows -/
theorem C08_leading_semi (u : Str) (o : Opts) :
    ∃ ty ∈ [TokType.SEMI_SEMI_AND, TokType.SEMI_SEMI, TokType.SEMI_AND, TokType.SEMICOLON],
      (parse (';' :: u) o).1 = .exn (.parsing (opMsg ty) (';' :: u) 0) :=
  leading_op metaOK_semi (by decide) (by decide) (by decide) (by decide) (by decide)
    semi_rejected u o

end Bashlex.C08
