/-
  C08, part 2 (text level): an unterminated single quote is rejected, for ALL lengths.

  `C08_unterminated_squote`: for every input `w ++ "'" ++ u` where `w` consists of plain word
  characters (`plainChar`: no backslash, quote, expansion, break or comment character) and `u`
  holds no `'`, and for all options, `parse` raises
  `ParsingError("unexpected EOF while looking for matching \"'\"", s, p)`.

  The proof is a symbolic execution of the model on an input of arbitrary length: `_readtoken`
  up to `_readtokenword`, the loop of `_readtokenword` over `w` (induction), `handleshellquote`,
  the loop of `_parse_matched_pair` over `u` (induction, `sq_scan`), and the propagation of the
  exception through `token()`, the LR engine, `_parser.parse` and `parse`.
-/
import Bashlex.Props.C08.Unterminated
import Bashlex.Props.C04.TTWord
import Bashlex.Props.C10.Entry
import Bashlex.Props.C08.Accept
import Bashlex.Props.C08.Reject

namespace Bashlex.C08
open Bashlex Bashlex.M Bashlex.C10
set_option linter.unusedSimpArgs false
set_option linter.unusedVariables false

/-! ### running the primitives -/

theorem bindOk {α β : Type} {m : M α} {f : α → M β} {l l' : Local} {e e' : Env} {a : α}
    (h : M.run m l e = (.ok (a, l'), e')) : M.run (m >>= f) l e = M.run (f a) l' e' := by
  rw [M.run_bind, h]

theorem bindErr {α β : Type} {m : M α} {f : α → M β} {l : Local} {e e' : Env} {x : Exn}
    (h : M.run m l e = (.error x, e')) : M.run (m >>= f) l e = (.error x, e') := by
  rw [M.run_bind, h]

/-- the environment after a lookup of `sh_syntaxtab[c]` -/
def touch (e : Env) (c : Char) : Env := (e.answer (.syntab c)).2

theorem touch_tape (e : Env) (c : Char) : (touch e c).tape = e.tape := by
  unfold touch Env.answer
  simp only []
  split <;> rfl

theorem tapeOf_touch (l : Local) (e : Env) (c : Char) : tapeOf l (touch e c) = tapeOf l e := by
  unfold tapeOf
  split
  · rfl
  · exact touch_tape e c

theorem run_syn (c : Char) (l : Local) (e : Env) :
    M.run (syn c) l e = (.ok (synClass c, l), touch e c) := rfl
theorem run_shellquote (c : Char) (l : Local) (e : Env) :
    M.run (shellquote c) l e = (.ok ((synClass c).quote, l), touch e c) := rfl
theorem run_shellexp (c : Char) (l : Local) (e : Env) :
    M.run (shellexp c) l e = (.ok ((synClass c).exp, l), touch e c) := rfl
theorem run_shellbreak (c : Char) (l : Local) (e : Env) :
    M.run (shellbreak c) l e = (.ok ((synClass c).brk, l), touch e c) := rfl
theorem run_shellmeta (c : Char) (l : Local) (e : Env) :
    M.run (shellmeta c) l e = (.ok ((synClass c).metac, l), touch e c) := rfl
theorem run_currentDelimiter (l : Local) (e : Env) :
    M.run currentDelimiter l e = (.ok (l.dstack.getLast?, l), e) := rfl

/-! ### the state invariant -/

/-- the tokenizer is between characters of the tape `T`: no pending `_eol_ungetc_lookahead`, no
    open delimiter -/
structure TInv (T : Tape) (l : Local) (e : Env) : Prop where
  eol : l.eolLookahead = none
  ds : l.dstack = []
  tape : tapeOf l e = T

theorem putL_ds (l : Local) (t : Tape) : (putL l t).dstack = l.dstack := by
  unfold putL; split <;> rfl

theorem TInv.touch {T : Tape} {l : Local} {e : Env} (h : TInv T l e) (c : Char) :
    TInv T l (touch e c) :=
  ⟨h.eol, h.ds, by rw [tapeOf_touch]; exact h.tape⟩

theorem TInv.put {T : Tape} {l : Local} {e : Env} (h : TInv T l e) (T' : Tape) :
    TInv T' (putL l T') (putE l e T') :=
  ⟨by rw [putL_eol]; exact h.eol, by rw [putL_ds]; exact h.ds, tapeOf_put _ _ _⟩

theorem tape_getc_nb (t : Tape) (c : Char) (h : t.line[t.idx]? = some c) (hc : c ≠ '\\')
    (rqn : Bool) (fuel : Nat) :
    t.getc rqn (fuel + 1) = .ok (some c, { t with idx := t.idx + 1 }) := by
  have hlt : t.idx < t.line.length := by
    rcases Nat.lt_or_ge t.idx t.line.length with h' | h'
    · exact h'
    · rw [List.getElem?_eq_none h'] at h; cases h
  have h' : t.line[t.idx] = c := by
    rw [List.getElem?_eq_getElem hlt] at h; exact Option.some.inj h
  have hb : (c == '\\') = false := by simpa using hc
  unfold Tape.getc
  simp [hlt, h', hb]

/-- `_getc` on a character that is not a backslash -/
theorem run_getc_nb {T : Tape} {l : Local} {e : Env} (hI : TInv T l e) (rqn : Bool) {d : Char}
    (hd : T.line[T.idx]? = some d) (hdb : d ≠ '\\') :
    M.run (getc rqn) l e =
      (.ok (some d, putL l { T with idx := T.idx + 1 }), putE l e { T with idx := T.idx + 1 }) := by
  rw [run_getc _ l e hI.eol, hI.tape, tape_getc_nb T d hd hdb]

/-! ### plain word characters -/

/-- a character `_readtoken` / `_readtokenword` treat as an ordinary word character -/
def plainChar (c : Char) : Bool :=
  c != '\\' && !(synClass c).quote && !(synClass c).exp && !(synClass c).brk &&
  !(synClass c).metac && !shellblank c && c != '#' && c != '\n'

/-- e.g. letters, digits, `-`, `_`, `/`, `.`, `=`, `{`, `}`, `!`, `*`, `?`, `[`, `]`, `~`, `:` -/
theorem plainChar_examples : "azAZ09-_/.={}!*?[]~:,+%@^".toList.all plainChar = true := by decide

/-! ### one iteration of `_readtokenword` on a plain character -/

theorem rwStep_plain {T : Tape} {l : Local} {e : Env} (hI : TInv T l e) (st : RWState)
    (c d : Char) (hc : st.c = some c) (hpn : st.passNext = false) (hp : plainChar c = true)
    (hd : T.line[T.idx]? = some d) (hdb : d ≠ '\\') :
    ∃ e', M.run (readtokenwordStep st) l e =
        (.ok (.inl { handleescapedchar st c with c := some d }, putL l { T with idx := T.idx + 1 }), e') ∧
      TInv { T with idx := T.idx + 1 } (putL l { T with idx := T.idx + 1 }) e' := by
  unfold plainChar at hp
  simp only [Bool.and_eq_true, bne_iff_ne, ne_eq, Bool.not_eq_true'] at hp
  obtain ⟨⟨⟨⟨⟨⟨⟨h1, h2⟩, h3⟩, h4⟩, h5⟩, h6⟩, h7⟩, h8⟩ := hp
  have hb : (c == '\\') = false := by simpa using h1
  rw [C04.TTP.readtokenwordStep_eq]
  simp only [hc, hpn, Bool.false_eq_true, if_false]
  rw [bindOk (run_currentDelimiter l e)]
  simp only [hb, Bool.false_eq_true, if_false]
  rw [bindOk (run_shellquote c l e)]
  simp only [h2, Bool.false_eq_true, if_false]
  rw [bindOk (run_shellexp c l _)]
  simp only [h3, Bool.false_eq_true, if_false]
  unfold C04.TTP.rwBreak
  simp only [Bool.not_false, if_true]
  rw [bindOk (run_shellbreak c l _)]
  simp only [h4, Bool.false_eq_true, if_false]
  unfold C04.TTP.rwTail
  rw [bindOk (run_currentDelimiter l _)]
  have hI3 : TInv T l (touch (touch (touch e c) c) c) := ((hI.touch c).touch c).touch c
  have hrq : (l.dstack.getLast? != some '\'' && !(handleescapedchar st c).passNext) = true := by
    rw [hI.ds]; simp [handleescapedchar, hpn]
  rw [hrq, bindOk (run_getc_nb hI3 true hd hdb), M.run_pure]
  exact ⟨_, rfl, hI3.put _⟩

/-! ### the quote: `handleshellquote` raises -/

theorem run_depthFuel (l : Local) (e : Env) : M.run depthFuel l e = (.ok (1048576, l), e) := rfl
theorem run_loopFuel (l : Local) (e : Env) : M.run loopFuel l e = (.ok (1073741824, l), e) := rfl

/-- what `_readtoken` needs of the first character of a word -/
def startOK (c : Char) : Bool :=
  c != '\\' && !shellblank c && c != '#' && c != '\n' && !(synClass c).metac

theorem startOK_plain {c : Char} (h : plainChar c = true) : startOK c = true := by
  unfold plainChar at h
  unfold startOK
  simp only [Bool.and_eq_true, bne_iff_ne, ne_eq, Bool.not_eq_true'] at h ⊢
  obtain ⟨⟨⟨⟨⟨⟨⟨h1, h2⟩, h3⟩, h4⟩, h5⟩, h6⟩, h7⟩, h8⟩ := h
  exact ⟨⟨⟨⟨h1, h6⟩, h7⟩, h8⟩, h5⟩

/-- a quote character of `_readtokenword` (`'`, `"`, backquote) -/
structure QuoteChar (q : Char) : Prop where
  nbs : q ≠ '\\'
  quote : (synClass q).quote = true
  start : startOK q = true

theorem quoteChar_squote : QuoteChar '\'' := ⟨by decide, by decide, by decide⟩
theorem quoteChar_dquote : QuoteChar '"' := ⟨by decide, by decide, by decide⟩
theorem quoteChar_bquote : QuoteChar '`' := ⟨by decide, by decide, by decide⟩

/-- the scanner `handleshellquote` calls for `q` raises the unexpected-EOF error on the rest `u`
    of the input, from every state -/
def ScanRaises (q : Char) (u : Str) : Prop :=
  ∀ (l : Local) (e : Env), l.eolLookahead = none →
    (tapeOf l e).idx ≤ (tapeOf l e).line.length → (tapeOf l e).line.drop (tapeOf l e).idx = u →
    ∃ e', M.run (parseMatchedPair 1048576
        { doublequotes := some q, opn := q, close := q, parsingcommand := q == '`' }) l e =
      (.error (mkParsingError (eofMsg q) (tapeOf l e).source
        (((tapeOf l e).line.length : Int) - 1)), e')

theorem sqParams_eq :
    ({ doublequotes := some '\'', opn := '\'', close := '\'', parsingcommand := '\'' == '`' } : MPParams) =
      sqParams := by
  unfold sqParams; congr

theorem scanRaises_squote {u : Str} (hq : '\'' ∉ u) (hlen : u.length < 1073741824) :
    ScanRaises '\'' u := by
  intro l e hl hle hu
  rw [sqParams_eq]
  exact parseMatchedPair_sq_raises 1048575 u l e hl hle hu hq hlen

theorem rwStep_quote {q : Char} (hQ : QuoteChar q) {u : Str} (hS : ScanRaises q u)
    {T : Tape} {l : Local} {e : Env} (hI : TInv T l e) (st : RWState)
    (hc : st.c = some q) (hpn : st.passNext = false) (hle : T.idx ≤ T.line.length)
    (hu : T.line.drop T.idx = u) :
    ∃ e', M.run (readtokenwordStep st) l e =
      (.error (mkParsingError (eofMsg q) T.source ((T.line.length : Int) - 1)), e') := by
  have hI2 : tapeOf { l with dstack := l.dstack ++ [q] } (touch e q) = T :=
    (hI.touch q).tape
  -- the scanner raises
  have hraise := hS { l with dstack := l.dstack ++ [q] }
    (touch e q) hI.eol (by rw [hI2]; exact hle) (by rw [hI2]; exact hu)
  obtain ⟨e', he'⟩ := hraise
  rw [hI2] at he'
  refine ⟨e', ?_⟩
  rw [C04.TTP.readtokenwordStep_eq]
  simp only [hc, hpn, Bool.false_eq_true, if_false]
  rw [bindOk (run_currentDelimiter l e)]
  have hb : (q == '\\') = false := by simpa using hQ.nbs
  simp only [hb, Bool.false_eq_true, if_false]
  rw [bindOk (run_shellquote q l e)]
  simp only [hQ.quote, if_true]
  refine bindErr ?_
  unfold handleshellquote pushDelimiter
  rw [bindOk (C10.run_modify _ l _), bindOk (run_depthFuel _ _)]
  exact bindErr he'

/-! ### the loop of `_readtokenword` over the plain prefix -/

theorem loop_raises' {σ α : Type} (site : String) (body : σ → M (σ ⊕ α)) (fuel : Nat) (s : σ)
    (hf : 0 < fuel) {l : Local} {e e' : Env} {x : Exn} (h : M.run (body s) l e = (.error x, e')) :
    M.run (M.loop site body fuel s) l e = (.error x, e') := by
  obtain ⟨n, rfl⟩ : ∃ n, fuel = n + 1 := ⟨fuel - 1, by omega⟩
  exact loop_raises site body n s h

theorem loop_exit' {σ α : Type} (site : String) (body : σ → M (σ ⊕ α)) (fuel : Nat) (s : σ)
    (hf : 0 < fuel) {l l' : Local} {e e' : Env} {a : α}
    (h : M.run (body s) l e = (.ok (.inr a, l'), e')) :
    M.run (M.loop site body fuel s) l e = (.ok (a, l'), e') := by
  obtain ⟨n, rfl⟩ : ∃ n, fuel = n + 1 := ⟨fuel - 1, by omega⟩
  rw [run_loop_succ, h]

theorem plain_ne_bs {c : Char} (h : plainChar c = true) : c ≠ '\\' := by
  unfold plainChar at h
  simp only [Bool.and_eq_true, bne_iff_ne, ne_eq] at h
  exact h.1.1.1.1.1.1.1

theorem rwLoop_raises {q : Char} (hQ : QuoteChar q) {u : Str} (hS : ScanRaises q u) :
    ∀ (w : Str) (fuel : Nat) (st : RWState) (c : Char) (T : Tape) (l : Local) (e : Env),
      st.c = some c → st.passNext = false → TInv T l e → T.idx ≤ T.line.length →
      c :: T.line.drop T.idx = w ++ q :: u → (∀ x ∈ w, plainChar x = true) → w.length < fuel →
      ∃ e', M.run (M.loop "_readtokenword" readtokenwordStep fuel st) l e =
        (.error (mkParsingError (eofMsg q) T.source ((T.line.length : Int) - 1)), e') := by
  intro w
  induction w with
  | nil =>
    intro fuel st c T l e hc hpn hI hle heq _ hf
    simp only [List.nil_append, List.cons.injEq] at heq
    obtain ⟨rfl, hdrop⟩ := heq
    obtain ⟨e', he'⟩ := rwStep_quote hQ hS hI st hc hpn hle hdrop
    exact ⟨e', loop_raises' _ _ _ _ (by omega) he'⟩
  | cons x w ih =>
    intro fuel st c T l e hc hpn hI hle heq hw hf
    simp only [List.cons_append, List.cons.injEq] at heq
    obtain ⟨rfl, hdrop⟩ := heq
    obtain ⟨n, rfl⟩ : ∃ n, fuel = n + 1 := ⟨fuel - 1, by simp only [List.length_cons] at hf; omega⟩
    -- the next character
    obtain ⟨d, rest, hd⟩ : ∃ d rest, w ++ q :: u = d :: rest := by
      cases w with
      | nil => exact ⟨_, _, rfl⟩
      | cons y w' => exact ⟨_, _, rfl⟩
    have hdb : d ≠ '\\' := by
      cases w with
      | nil =>
        simp only [List.nil_append, List.cons.injEq] at hd
        rw [← hd.1]; exact hQ.nbs
      | cons y w' =>
        simp only [List.cons_append, List.cons.injEq] at hd
        rw [← hd.1]; exact plain_ne_bs (hw y (by simp))
    have hlt : T.idx < T.line.length := by
      have := congrArg List.length hdrop
      rw [hd] at this
      simp only [List.length_drop, List.length_cons] at this
      omega
    have hdi : T.line[T.idx]? = some d := by
      rw [← List.head?_drop, hdrop, hd]; rfl
    obtain ⟨e1, hstep, hI1⟩ := rwStep_plain hI st c d hc hpn (hw c (by simp)) hdi hdb
    have hdrop1 : d :: T.line.drop (T.idx + 1) = w ++ q :: u := by
      rw [← List.drop_drop, hdrop, hd]; rfl
    obtain ⟨e', he'⟩ := ih n { handleescapedchar st c with c := some d } d
      { T with idx := T.idx + 1 } _ e1 rfl (by simp [handleescapedchar, hpn]) hI1 hlt hdrop1
      (fun y hy => hw y (List.mem_cons_of_mem _ hy))
      (by simp only [List.length_cons] at hf; omega)
    refine ⟨e', ?_⟩
    rw [run_loop_succ, hstep]
    exact he'

/-! ### `_readtoken` up to `_readtokenword` -/

/-- `m` raises `x` from state `l`, `e` -/
def Raises (x : Exn) {α : Type} (m : M α) (l : Local) (e : Env) : Prop :=
  ∃ e', M.run m l e = (.error x, e')

theorem Raises.bindOk {x : Exn} {α β : Type} {m : M α} {f : α → M β} {l l' : Local} {e e' : Env}
    {a : α} (h : M.run m l e = (.ok (a, l'), e')) (hr : Raises x (f a) l' e') :
    Raises x (m >>= f) l e := by
  obtain ⟨e2, h2⟩ := hr
  exact ⟨e2, by rw [C08.bindOk h]; exact h2⟩

theorem Raises.bindErr {x : Exn} {α β : Type} {m : M α} {f : α → M β} {l : Local} {e : Env}
    (hr : Raises x m l e) : Raises x (m >>= f) l e := by
  obtain ⟨e2, h2⟩ := hr
  exact ⟨e2, C08.bindErr h2⟩

theorem putL_ps (l : Local) (t : Tape) : (putL l t).ps = l.ps := by
  unfold putL; split <;> rfl
theorem putL_lrt (l : Local) (t : Tape) : (putL l t).lastReadToken = l.lastReadToken := by
  unfold putL; split <;> rfl

theorem run_recordpos (rel : Nat) (l : Local) (e : Env) :
    M.run (recordpos rel) l e =
      (.ok ((), { l with positions := l.positions ++ [(tapeOf l e).idx - rel] }), e) := by
  unfold recordpos
  rw [bindOk (run_curIdx l e)]
  rfl

theorem readtokenHead_char {T : Tape} {l : Local} {e : Env} (hI : TInv T l e) {ch : Char}
    (hd : T.line[T.idx]? = some ch) (hs : startOK ch = true) :
    M.run C10.readtokenHead l e =
      (.ok (some ch, putL l { T with idx := T.idx + 1 }), putE l e { T with idx := T.idx + 1 }) := by
  unfold startOK at hs
  simp only [Bool.and_eq_true, bne_iff_ne, ne_eq, Bool.not_eq_true'] at hs
  obtain ⟨⟨⟨⟨h1, h2⟩, h3⟩, h4⟩, h5⟩ := hs
  have hhash : (ch == '#') = false := by simpa using h3
  unfold C10.readtokenHead
  rw [bindOk (run_loopFuel l e), bindOk (run_getc_nb hI true hd h1)]
  rw [bindOk (loop_exit' _ _ 1073741824 (some ch) (by decide) (a := some ch)
    (l' := putL l { T with idx := T.idx + 1 }) (e' := putE l e { T with idx := T.idx + 1 }) ?_)]
  · simp only [hhash, Bool.false_eq_true, if_false]
    rfl
  · simp only [h2, Bool.false_eq_true, if_false]
    rfl

theorem readtoken_raises {q : Char} (hQ : QuoteChar q) {u : Str} (hS : ScanRaises q u)
    (w : Str) (hw : ∀ x ∈ w, plainChar x = true) (hwl : w.length < 1073741824)
    {T : Tape} {l : Local} {e : Env} (hI : TInv T l e) (hle : T.idx ≤ T.line.length)
    (hdrop : T.line.drop T.idx = w ++ q :: u) (hre : l.ps.regexp = false)
    (hlrt : (l.lastReadToken.is .LESS_AND || l.lastReadToken.is .GREATER_AND) = false) :
    ∃ e', M.run readtoken l e =
      (.error (mkParsingError (eofMsg q) T.source ((T.line.length : Int) - 1)), e') := by
  obtain ⟨ch, rest, hch⟩ : ∃ d rest, w ++ q :: u = d :: rest := by
    cases w with
    | nil => exact ⟨_, _, rfl⟩
    | cons y w' => exact ⟨_, _, rfl⟩
  have hs : startOK ch = true := by
    cases w with
    | nil =>
      simp only [List.nil_append, List.cons.injEq] at hch
      rw [← hch.1]; exact hQ.start
    | cons y w' =>
      simp only [List.cons_append, List.cons.injEq] at hch
      rw [← hch.1]; exact startOK_plain (hw y (by simp))
  have hlt : T.idx < T.line.length := by
    have := congrArg List.length hdrop
    rw [hch] at this
    simp only [List.length_drop, List.length_cons] at this
    omega
  have hdi : T.line[T.idx]? = some ch := by
    rw [← List.head?_drop, hdrop, hch]; rfl
  have hhead := readtokenHead_char hI hdi hs
  have hI1 : TInv { T with idx := T.idx + 1 } (putL l { T with idx := T.idx + 1 })
      (putE l e { T with idx := T.idx + 1 }) := hI.put _
  have hdrop1 : ch :: T.line.drop (T.idx + 1) = w ++ q :: u := by
    rw [← List.drop_drop, hdrop, hch]; rfl
  -- the loop of `_readtokenword` raises, from the state after `recordpos` and the table lookups
  have hloop := fun (l2 : Local) (e2 : Env) (h2 : TInv { T with idx := T.idx + 1 } l2 e2) =>
    rwLoop_raises hQ hS w 1073741824 { c := some ch, allDigit := isDigit ch } ch
      { T with idx := T.idx + 1 } l2 e2 rfl rfl h2 hlt hdrop1 hw hwl
  unfold startOK at hs
  simp only [Bool.and_eq_true, bne_iff_ne, ne_eq, Bool.not_eq_true'] at hs
  obtain ⟨⟨⟨⟨h1, h2⟩, h3⟩, h4⟩, h5⟩ := hs
  have hnl : (ch == '\n') = false := by simpa using h4
  show Raises _ readtoken l e
  rw [C10.readtoken_eq]
  refine Raises.bindOk hhead ?_
  simp only []
  unfold C10.readtokenTail
  refine Raises.bindOk (run_recordpos 1 _ _) ?_
  simp only [hnl, Bool.false_eq_true, if_false]
  refine Raises.bindOk (C10.run_get _ _) ?_
  simp only [putL_ps, hre, Bool.false_eq_true, if_false]
  refine Raises.bindOk (run_shellmeta ch _ _) ?_
  refine Raises.bindOk (C10.run_get _ _) ?_
  simp only [h5, Bool.false_and, Bool.false_eq_true, if_false]
  refine Raises.bindOk (C10.run_get _ _) ?_
  simp only [putL_lrt, hlrt, Bool.and_false, Bool.false_eq_true, if_false]
  refine Raises.bindErr ?_
  unfold readtokenword
  refine Raises.bindOk (run_loopFuel _ _) ?_
  refine Raises.bindErr ?_
  exact hloop _ _ ⟨hI1.eol, hI1.ds, by rw [tapeOf_touch]; exact hI1.tape⟩

/-! ### `token()`, the LR engine, `_parser.parse`, `parse` -/

theorem Raises.loop {x : Exn} {σ α : Type} {site : String} {body : σ → M (σ ⊕ α)} {fuel : Nat}
    {s : σ} (hf : 0 < fuel) {l : Local} {e : Env} (h : Raises x (body s) l e) :
    Raises x (M.loop site body fuel s) l e := by
  obtain ⟨e', he'⟩ := h
  exact ⟨e', loop_raises' _ _ _ _ hf he'⟩

theorem nextToken_raises {q : Char} (hQ : QuoteChar q) {u : Str} (hS : ScanRaises q u)
    (w : Str) (hw : ∀ x ∈ w, plainChar x = true) (hwl : w.length < 1073741824)
    {T : Tape} {l : Local} {e : Env} (hI : TInv T l e) (hle : T.idx ≤ T.line.length)
    (hdrop : T.line.drop T.idx = w ++ q :: u) (hre : l.ps.regexp = false)
    (hcur : (l.currentToken.is .LESS_AND || l.currentToken.is .GREATER_AND) = false) :
    Raises (mkParsingError (eofMsg q) T.source ((T.line.length : Int) - 1)) nextToken l e := by
  unfold nextToken
  refine Raises.bindOk (C10.run_modify _ _ _) ?_
  refine Raises.bindErr ?_
  show Raises _ readtoken _ _
  refine readtoken_raises hQ hS w hw hwl ?_ hle hdrop ?_ ?_
  · exact ⟨hI.eol, hI.ds, hI.tape⟩
  · exact hre
  · exact hcur

theorem step_raises {x : Exn} (np : NestedParse) {l : Local} {e : Env}
    (h : Raises x nextToken l e) : Raises x (LR.step LR.realTables (lrHooks np) {}) l e := by
  unfold LR.step
  have hd : LR.realTables.dflt (LR.topState ({} : LR.Cfg SVal).stack) = none := real_dflt0
  simp only [hd]
  refine Raises.bindErr ?_
  show Raises x (lrHooks np).next l e
  exact Raises.bindErr h

theorem ofInput_facts (s : Str) : ∃ tail, (Tape.ofInput s).line = s ++ tail ∧
    (tail = [] ∨ tail = ['\n']) ∧ (Tape.ofInput s).idx = 0 ∧ (Tape.ofInput s).source = s := by
  unfold Tape.ofInput
  split
  · exact ⟨[], by simp, Or.inl rfl, rfl, rfl⟩
  · split
    · exact ⟨[], by simp, Or.inl rfl, rfl, rfl⟩
    · exact ⟨['\n'], rfl, Or.inr rfl, rfl, by simp [Tape.source]⟩

/-- **the generic text-level theorem**: a word of plain characters, then a quote character `q`
    whose scanner raises on everything that follows (with or without the newline the tokenizer
    appends): `parse` raises the unexpected-EOF ParsingError, for all options -/
theorem unterminated_quote {q : Char} (hQ : QuoteChar q) (w u : Str) (o : Opts)
    (hw : ∀ x ∈ w, plainChar x = true) (hwl : w.length < 1073741824)
    (hS : ∀ tail, tail = [] ∨ tail = ['\n'] → ScanRaises q (u ++ tail)) :
    (parse (w ++ q :: u) o).1 =
      .exn (.parsing (eofMsg q) (w ++ q :: u)
        (((Tape.ofInput (w ++ q :: u)).line.length : Int) - 1)) := by
  obtain ⟨tail, hline, htail, hidx, hsrc⟩ := ofInput_facts (w ++ q :: u)
  have hI : TInv (Tape.ofInput (w ++ q :: u)) (initLocal o) (initEnv (w ++ q :: u) o []) :=
    ⟨rfl, rfl, rfl⟩
  have hdrop : (Tape.ofInput (w ++ q :: u)).line.drop (Tape.ofInput (w ++ q :: u)).idx =
      w ++ q :: (u ++ tail) := by
    rw [hidx, hline]; simp
  have hnext := nextToken_raises hQ (hS tail htail) w hw hwl hI (by rw [hidx]; exact Nat.zero_le _)
    hdrop rfl rfl
  have hstep := step_raises (C07.nestedOf 63) hnext
  obtain ⟨e', he'⟩ := Raises.loop (site := "LRParser.parse") (fuel := 1073741824) (by decide) hstep
  have htop : topRun (w ++ q :: u) o [] = (.error _, e') := he'
  have hrp := runParser_topRun (w ++ q :: u) o []
  rw [htop, ofRun_error] at hrp
  unfold parse
  rw [hrp]
  simp only [hsrc]
  have hle : (((Tape.ofInput (w ++ q :: u)).line.length : Int) - 1) ≤
      ((w ++ q :: u).length : Int) := by
    rw [hline]
    rcases htail with rfl | rfl <;> simp <;> omega
  simp only [mkParsingError, hle, if_true]

/- Exclusions, each necessary or a stated proof limit; witnesses checked with `#eval` (scratch):
   * `'` in `u`:            `(parse "a'b'".toList {}).1`  = parts (1)          -- necessary
   * `w` not plain, `#`:    `(parse "#'".toList {}).1`    = parts (0, a comment) -- necessary
   * `w` not plain, `\`:    `(parse "\\'".toList {}).1`   = parts (1, escaped quote) -- necessary
   * `w` not plain, `"`:    `(parse "\"'\"".toList {}).1` = parts (1)          -- necessary
   * `w` with a blank:      `(parse "a b'".toList {}).1`  = the same ParsingError (@4): true but not
     covered (the quote must be in the FIRST token of the input: a proof limit, one token). -/

/-- **C08_unterminated_squote** (all lengths, all options): a word of plain characters, then a
    single quote that is never closed -- whatever follows, across lines, operators, comments,
    here-document operators -- makes `parse` raise the unexpected-EOF ParsingError.
    (The bounds are the constant loop fuel 2^30 of the model's tokenizer loops.) -/
theorem C08_unterminated_squote (w u : Str) (o : Opts) (hw : ∀ x ∈ w, plainChar x = true)
    (hu : '\'' ∉ u) (hwl : w.length < 1073741824) (hul : u.length + 1 < 1073741824) :
    (parse (w ++ '\'' :: u) o).1 =
      .exn (.parsing (eofMsg '\'') (w ++ '\'' :: u)
        (((Tape.ofInput (w ++ '\'' :: u)).line.length : Int) - 1)) := by
  refine unterminated_quote quoteChar_squote w u o hw hwl (fun tail htail => ?_)
  refine scanRaises_squote ?_ ?_
  · intro h
    rcases List.mem_append.mp h with h | h
    · exact hu h
    · rcases htail with rfl | rfl
      · cases h
      · simp at h
  · rcases htail with rfl | rfl <;> simp <;> omega

end Bashlex.C08
