/-
  C08, part 1 at TEXT level -- CONDITIONAL.

  `C05_final` (`Props/C05Final.lean`): the parts `parse` returns are the trees of successive runs;
  each run comes with a token log `ts` (+ at most one look-ahead `la`) ANCHORED IN THE TEXT
  (`CharsData`: the line up to the cursor is a chain `Skip token Skip token …`, every position is
  inside a leaf / layout / the look-ahead, the leaves are covered by `ts`), and a final run that
  returns no node found layout only (`CharsNone`: `Spec.isLayout` of the whole rest).
  `C08_accept_derivable` (`Props/C08/Accept.lean`): what each run's ENGINE consumed is NEWLINEs
  followed by a sentence of the grammar.

  MISSING LINK, made an explicit hypothesis (`LogLink`): that the token log of C05 is the token
  sequence whose terminal numbers the engine consumed.  Both are produced by the same run, but
  C05's log is a GHOST list existentially quantified inside the engine invariant `SIL`
  (`lead ++ tss.flatten ++ laToks la`, `Forall2 Acc vs tss`), and no engine theorem carries the
  ghost `consumed` / the ghost derivation trees together with `tss` (`run_sound_ordB` sees only
  `(symbol, value)` pairs of the stack).  Discharging it needs `leaves_hooks` redone with an
  invariant indexed by `consumed` (`Acc` already gives `x.1 = symOfTok t` for token entries).

  `C08_accept_text_conditional`: under `LogLink`, if `parse s o` returns parts then the whole text
  of `s` is layout + the tokens of successive runs, the terminal sequence of each run being
  NEWLINEs then a sentence, and nothing of `s` is left unparsed (`PartsText`).
-/
import Bashlex.Props.C05Final
import Bashlex.Props.C08.Accept

namespace Bashlex.C08
open Bashlex Bashlex.M Bashlex.LR
set_option linter.unusedSimpArgs false
set_option linter.unusedVariables false

theorem shift_inj (k : Nat) {n m : Node} (h : n.shift k = m.shift k) : n = m := by
  have key : ∀ x : Node, Node.mapPos (fun p => (p.1 - k, p.2 - k)) (x.shift k) = x := by
    intro x
    unfold Node.shift
    rw [Node.mapPos_mapPos]
    have : (fun p : Span => ((p.1 + k, p.2 + k).1 - k, (p.1 + k, p.2 + k).2 - k)) = fun p => p := by
      funext p; simp
    rw [this, Node.mapPos_id]
  rw [← key n, ← key m, h]

/-- **HYPOTHESIS** (see the header): for a run over `s0` that returned the node `n`, the
    text-anchored token log of `C05` can be taken to be the tokens whose terminal numbers are what
    the run's engine consumed -/
structure LogLink : Prop where
  link : ∀ (s0 : Str) (o : Opts) (t t' : List Char) (n : Node),
    RunSentence s0 o t n t' → C05.CharsTotal s0 n →
    ∃ (ts la : List Token) (B : Nat) (st : List RedirCell) (m : Node) (tr : Tree) (c : List Nat)
      (b : Bool) (l' : Local) (e' : Env),
      C05.CharsData s0 n ts la B st ∧
      topRun s0 o t = (.ok (.accepted (.node m) tr c b, l'), e') ∧ c = ts.map symOfTok

/-- one run, text and grammar together: the tokens `ts` are anchored in the text of `s0`
    (`CharsData`) and spell, as terminals, NEWLINEs then a sentence -/
def RunText (s0 : Str) (n : Node) : Prop :=
  ∃ (ts la : List Token) (B : Nat) (st : List RedirCell),
    C05.CharsData s0 n ts la B st ∧ Sentence (ts.map symOfTok)

/-- the parts of `parse` from index `i` on: runs tile the text, every run is `RunText`, the rest
    behind the last part is layout -/
inductive PartsText (s : Str) : Nat → List Node → Prop
  | done (i : Nat) : s.length ≤ i → PartsText s i []
  | stop (i : Nat) : C05.CharsNone (s.drop i) → PartsText s i []
  | cons {i : Nat} {n : Node} {rest : List Node} : i ≤ s.length → RunText (s.drop i) n →
      PartsText s (max (nextIndex (n.shift i)) (i + 1)) rest →
      PartsText s i (n.shift i :: rest)

theorem partsText_of (hL : LogLink) {s : Str} {o : Opts} :
    ∀ {i : Nat} {ps : List Node}, C05.PartsFinal s i ps → ∀ {t : List Char}, Tiling s o i t ps →
      PartsText s i ps := by
  intro i ps h
  induction h with
  | done i hi => intro t _; exact .done i hi
  | stop i hn => intro t _; exact .stop i hn
  | @cons i n rest hi _ hch _ ih =>
    intro t ht
    generalize hps : n.shift i :: rest = ps' at ht
    cases ht with
    | done _ => cases hps
    | stop _ => cases hps
    | @step _ _ t' n' rest' hrs hl =>
      simp only [List.cons.injEq] at hps
      obtain ⟨h1, h2⟩ := hps
      have hn : n = n' := shift_inj i h1
      subst hn; subst h2
      obtain ⟨ts, la, B, st, m, tr, c, b, l', e', hcd, htop, hc⟩ := hL.link _ o t t' n hrs hch
      -- the sentence, from the engine side
      obtain ⟨m2, tr2, c2, b2, l2, e2, htop2, _, _, hv, hroot, pre, hc2, hpre⟩ := hrs
      rw [htop] at htop2
      simp only [Prod.mk.injEq, Except.ok.injEq, Res.accepted.injEq] at htop2
      obtain ⟨⟨⟨_, rfl, rfl, _⟩, _⟩, _⟩ := htop2
      refine .cons hi ⟨ts, la, B, st, hcd, ⟨tr, pre, hv, hroot, ?_, hpre⟩⟩ (ih hl)
      rw [← hc]; exact hc2

/-- **C08_accept_text_conditional**: under `LogLink` (and the conditions of `C05_final`: the
    decidable `rootEndsChecked s o` -- discharged for all inputs by `Totals.rootEndsChecked_all`
    upstream -- and the loop-fuel bound) -/
theorem C08_accept_text_conditional (hL : LogLink) (s : Str) (o : Opts) (parts : List Node)
    (hlen : s.length + 1 < 1073741824) (hc : C03.rootEndsChecked s o = true)
    (h : (parse s o).1 = .parts parts) : PartsText s 0 parts :=
  partsText_of hL (C05.C05_final s o parts hlen hc h) (C08_accept_derivable s o parts h)

end Bashlex.C08
