/-
  C08, part 3: token-level rejection families, for ALL lengths, from the tables bashlex really
  uses, for an ARBITRARY token source and arbitrary semantic actions.

  A token source is described by a ghost predicate `Src ts l e` ("the terminals still to be
  delivered are `ts`") that `H.next` respects (`Stream`).  Then

  * `run_rejects_leading`: a stream `NEWLINE^n x …` with `x` one of the 25 terminals state 0 has
    no action on (`leadingRejected`: all control operators, closers, `then`/`fi`/… ) makes the
    engine call the error function on `x`; it never returns;
  * `loop_rejects_pair`: from EVERY engine configuration that waits for a token and can shift
    `r`, the stream `r x …` is rejected when `pairRejected r [x]` (decided on the tables: in every
    state, the state entered by shifting `r` has no default reduction and no action on `x`);
  * `redir_pairs`: that holds for every redirection operator `r` and every terminal `x` that is
    not WORD (NUMBER, DASH as well after `<&`, `>&`) -- "a redirection without target", `$end`
    included; `ctrl_pairs`: doubled / dangling control operators.
  * `run_rejects_first_pair`: the run-level corollary for streams `NEWLINE^n r x …`.
-/
import Bashlex.LR.Real
import Bashlex.Model.Parse
import Bashlex.Proofs.HoareS

namespace Bashlex.C08
open Bashlex Bashlex.M Bashlex.LR
set_option linter.unusedSimpArgs false
set_option linter.unusedVariables false

variable {V : Type}

/-! ### token sources as streams -/

/-- `H.next` delivers the terminals of the ghost stream, in order, without raising -/
structure Stream (H : Hooks V) (Src : List Nat → Local → Env → Prop) : Prop where
  next : ∀ t ts, SatS H.next (Src (t :: ts)) (fun la l e => la.1 = t ∧ Src ts l e) (fun _ => False)

/-- the error function always raises (bashlex's `p_error` does: `sat_pError`) -/
def ErrRaises (H : Hooks V) (E : Exn → Prop) : Prop :=
  ∀ la, Sat (H.onError la) (fun _ => False) E

/-! ### single steps of the engine -/

/-- the engine fetches `x`, finds no action: the error function is called, nothing returns -/
theorem step_error {T : Tables} {H : Hooks V} {Src : List Nat → Local → Env → Prop} {E : Exn → Prop}
    (hS : Stream H Src) (hE : ErrRaises H E) (c : Cfg V) (x : Nat) (ts : List Nat)
    (hla : c.la = none) (hd : T.dflt (topState c.stack) = none)
    (hact : T.action (topState c.stack) x = none)
    (hnb : topState c.stack ≠ 0 ∨ x ≠ T.endTok) :
    SatS (step T H c) (Src (x :: ts)) (fun _ _ _ => False) E := by
  unfold step
  simp only [hd, hla]
  refine SatS.bind ((hS.next x ts).weaken (fun _ _ h => h) (fun _ _ _ h => h) (fun _ h => h.elim)) ?_
  rintro ⟨la, lv⟩
  refine SatS.assume (fun (hx : la = x) => ?_)
  subst hx
  have hb : (topState c.stack == 0 && la == T.endTok &&
      c.stack.all (fun e => H.isNl e.val)) = false := by
    rcases hnb with h | h
    · have : (topState c.stack == 0) = false := by simpa using h
      simp [this]
    · have : (la == T.endTok) = false := by simpa using h
      simp [this]
  simp only [hb, Bool.false_eq_true, if_false, hact]
  refine SatS.bind (Q := fun _ _ _ => False)
    ((SatS.of_sat (hE (la, lv)) _).weaken (fun _ _ h => h) (fun _ _ _ h => h) (fun _ h => h)) ?_
  intro _ l e hf
  exact hf.elim

/-- the engine fetches `r` and shifts it: next configuration waits for a token in state `t` -/
theorem step_shift {T : Tables} {H : Hooks V} {Src : List Nat → Local → Env → Prop} {E : Exn → Prop}
    (hS : Stream H Src) (c : Cfg V) (r t : Nat) (ts : List Nat)
    (hla : c.la = none) (hd : T.dflt (topState c.stack) = none)
    (hact : T.action (topState c.stack) r = some (.shift t))
    (hr0 : r ≠ T.endTok) (hrn : r ≠ T.nlTok) :
    SatS (step T H c) (Src (r :: ts))
      (fun res l e => (∃ c', res = .inl c' ∧ c'.la = none ∧ topState c'.stack = t) ∧ Src ts l e) E := by
  unfold step
  simp only [hd, hla]
  refine SatS.bind ((hS.next r ts).weaken (fun _ _ h => h) (fun _ _ _ h => h) (fun _ h => h.elim)) ?_
  rintro ⟨la, lv⟩
  refine SatS.assume (fun (hx : la = r) => ?_)
  subst hx
  have h1 : (la == T.endTok) = false := by simpa using hr0
  have h2 : (la == T.nlTok) = false := by simpa using hrn
  simp only [h1, h2, Bool.and_false, Bool.false_and, Bool.false_eq_true, if_false, hact]
  exact SatS.pure (fun l e h => ⟨⟨_, rfl, rfl, rfl⟩, h⟩)

/-- a NEWLINE fetched in state 0 (empty stack) is dropped: the stack stays empty -/
theorem step_nl {T : Tables} {H : Hooks V} {Src : List Nat → Local → Env → Prop} {E : Exn → Prop}
    (hS : Stream H Src) (c : Cfg V) (t : Nat) (ts : List Nat)
    (hla : c.la = none) (hstk : c.stack = []) (hd : T.dflt 0 = none)
    (hact : T.action 0 T.nlTok = some (.shift t)) (hne : T.nlTok ≠ T.endTok) :
    SatS (step T H c) (Src (T.nlTok :: ts))
      (fun res l e => (∃ c', res = .inl c' ∧ c'.la = none ∧ c'.stack = []) ∧ Src ts l e) E := by
  unfold step
  simp only [hstk, topState, hd, hla]
  refine SatS.bind ((hS.next T.nlTok ts).weaken (fun _ _ h => h) (fun _ _ _ h => h) (fun _ h => h.elim)) ?_
  rintro ⟨la, lv⟩
  refine SatS.assume (fun (hx : la = T.nlTok) => ?_)
  simp only [hx]
  have h1 : (T.nlTok == T.endTok) = false := by simpa using hne
  simp only [h1, Bool.and_false, Bool.false_and, Bool.false_eq_true, if_false, hact,
    beq_self_eq_true, Bool.and_self, if_true]
  exact SatS.pure (fun l e h => ⟨⟨_, rfl, rfl, rfl⟩, h⟩)

/-! ### the loop -/

theorem loop_succ {σ α : Type} (site : String) (body : σ → M (σ ⊕ α)) (fuel : Nat) (s : σ) :
    M.loop site body (fuel + 1) s = (body s >>= fun r =>
      match r with
      | .inl s' => M.loop site body fuel s'
      | .inr a => pure a) := rfl

/-- leading NEWLINEs are skipped, then whatever holds of the loop from an empty stack holds -/
theorem loop_skip_nl {T : Tables} {H : Hooks V} {Src : List Nat → Local → Env → Prop} {E : Exn → Prop}
    (hS : Stream H Src) {t0 : Nat} (hd : T.dflt 0 = none)
    (hact : T.action 0 T.nlTok = some (.shift t0)) (hne : T.nlTok ≠ T.endTok)
    {Q : Res V → Local → Env → Prop} (rest : List Nat) (k : Nat)
    (hrest : ∀ c : Cfg V, c.la = none → c.stack = [] →
      SatS (M.loop "LRParser.parse" (step T H) k c) (Src rest) Q E) :
    ∀ (n : Nat) (c : Cfg V), c.la = none → c.stack = [] →
      SatS (M.loop "LRParser.parse" (step T H) (n + k) c)
        (Src (List.replicate n T.nlTok ++ rest)) Q E := by
  intro n
  induction n with
  | zero => intro c h1 h2; simpa using hrest c h1 h2
  | succ n ih =>
    intro c h1 h2
    rw [show n + 1 + k = (n + k) + 1 by omega, loop_succ]
    refine SatS.bind (step_nl hS c t0 _ h1 h2 hd hact hne) ?_
    intro r
    refine SatS.assume (fun hc => ?_)
    obtain ⟨c', rfl, h1', h2'⟩ := hc
    exact ih c' h1' h2'

/-! ### table facts -/

/-- terminals (other than `$end`, handled by the all-NEWLINE return) on which state 0 has no
    action -/
def leadingRejected : List Nat :=
  (List.range realRaw.nTerms).filter fun x => x != realRaw.endTok && (realTables.action 0 x).isNone

/-- by name: every control operator, every closer, every non-initial reserved word -/
theorem leadingRejected_names : leadingRejected.map (fun x => Gen.termNames.getD x "") =
    ["THEN", "ELSE", "ELIF", "FI", "ESAC", "DO", "DONE", "COND_END", "IN", "TIMEOPT", "TIMEIGN",
     "ARITH_FOR_EXPRS", "COND_CMD", "AND_AND", "OR_OR", "SEMI_SEMI", "SEMI_AND", "SEMI_SEMI_AND",
     "BAR_AND", "RIGHT_CURLY", "RIGHT_PAREN", "BAR", "SEMICOLON", "DASH", "AMPERSAND"] := by
  decide +kernel

theorem leadingRejected_spec {x : Nat} (hx : x ∈ leadingRejected) :
    realTables.action 0 x = none ∧ x ≠ realTables.endTok := by
  unfold leadingRejected at hx
  simp only [List.mem_filter, Bool.and_eq_true, bne_iff_ne, ne_eq, Option.isNone_iff_eq_none] at hx
  exact ⟨hx.2.2, hx.2.1⟩

theorem real_dflt0 : realTables.dflt 0 = none := by decide +kernel
theorem real_nl0 : ∃ t, realTables.action 0 realTables.nlTok = some (.shift t) :=
  ⟨3, by decide +kernel⟩
theorem real_nl_ne : realTables.nlTok ≠ realTables.endTok := by decide

/-- in every row: if `r` is shifted to `t`, then `t ≠ 0`, `t` has no default reduction and no
    action on any of `xs` -/
def pairRejected (r : Nat) (xs : List Nat) : Bool :=
  r != realRaw.endTok && r != realRaw.nlTok &&
  Gen.actionRows.all fun row =>
    match rowLookup row r with
    | none => true
    | some code =>
      match decodeAct code with
      | .shift t => t != 0 && (realRaw.dfltOf t).isNone &&
          xs.all (fun x => (rowLookup (realRaw.actionRow t) x).isNone)
      | _ => true

theorem actionRow_mem {s la : Nat} {a : Act} (h : realTables.action s la = some a) :
    realRaw.actionRow s ∈ Gen.actionRows := by
  show Gen.actionRows.getD s [] ∈ Gen.actionRows
  by_cases hlt : s < Gen.actionRows.length
  · simp [List.getD_eq_getElem?_getD, List.getElem?_eq_getElem hlt]
  · exfalso
    have hnil : realRaw.actionRow s = [] := by
      show Gen.actionRows.getD s [] = []
      simp [List.getD_eq_getElem?_getD, List.getElem?_eq_none (Nat.le_of_not_lt hlt)]
    have : realTables.action s la = none := by
      show (rowLookup (realRaw.actionRow s) la).map decodeAct = none
      rw [hnil]; rfl
    rw [this] at h; cases h

theorem pairRejected_spec {r : Nat} {xs : List Nat} (h : pairRejected r xs = true)
    {s t : Nat} (hs : realTables.action s r = some (.shift t)) :
    r ≠ realTables.endTok ∧ r ≠ realTables.nlTok ∧ t ≠ 0 ∧ realTables.dflt t = none ∧
      ∀ x ∈ xs, realTables.action t x = none := by
  unfold pairRejected at h
  simp only [Bool.and_eq_true, bne_iff_ne, ne_eq, List.all_eq_true] at h
  obtain ⟨⟨h0, hn⟩, hall⟩ := h
  refine ⟨h0, hn, ?_⟩
  have hrow := hall _ (actionRow_mem hs)
  have hs' : (rowLookup (realRaw.actionRow s) r).map decodeAct = some (.shift t) := hs
  cases hl : rowLookup (realRaw.actionRow s) r with
  | none => rw [hl] at hs'; cases hs'
  | some code =>
    rw [hl] at hs' hrow
    simp only [Option.map_some, Option.some.injEq] at hs'
    simp only [hs', Bool.and_eq_true, bne_iff_ne, ne_eq, Option.isNone_iff_eq_none,
      List.all_eq_true] at hrow
    obtain ⟨⟨ht0, hdf⟩, hxs⟩ := hrow
    refine ⟨ht0, hdf, ?_⟩
    intro x hx
    show (rowLookup (realRaw.actionRow t) x).map decodeAct = none
    rw [hxs x hx]; rfl

/-! ### the families -/

def termNum (name : String) : Nat := Gen.termNames.idxOf name

/-- the redirection operators -/
def redirTerms : List Nat :=
  ["GREATER", "LESS", "GREATER_GREATER", "LESS_LESS", "LESS_AND", "LESS_LESS_LESS", "GREATER_AND",
   "LESS_LESS_MINUS", "AND_GREATER", "AND_GREATER_GREATER", "LESS_GREATER", "GREATER_BAR"].map termNum

/-- what may follow a redirection operator: a WORD; after `<&` and `>&` also NUMBER and `-` -/
def redirAllowed (r : Nat) : List Nat :=
  if r = termNum "LESS_AND" ∨ r = termNum "GREATER_AND" then
    [termNum "WORD", termNum "NUMBER", termNum "DASH"]
  else [termNum "WORD"]

def redirBad (r : Nat) : List Nat :=
  (List.range realRaw.nTerms).filter fun x => !(redirAllowed r).contains x

/-- **a redirection without target is rejected in every state** (table fact): wherever a
    redirection operator is shifted, the state entered has no default reduction and no action on
    any terminal but WORD (NUMBER, DASH) -- `$end`, NEWLINE, every operator and reserved word
    included -/
theorem redir_pairs : redirTerms.all (fun r => pairRejected r (redirBad r)) = true := by
  decide +kernel

/- `(parse "a; ;".toList {}).1` = ParsingError "unexpected token ';'" @3 and
   `(parse "a && && b".toList {}).1` = "unexpected token '&&'" @5 (checked with `#eval`): both
   rejected; `&& &&` is covered by `ctrl_pairs`, `; ;` is NOT (the state after `;` reduces
   `list_terminator` on `;` before the error is found). -/

/-- doubled / dangling control operators that are rejected directly (table fact).  NOT in the
    list, because the state after the first operator *reduces* on the second and the error is
    found later (not covered here): `; ;`, `; &&`, `& ;` … -/
def ctrlPairs : List (String × List String) :=
  [("AND_AND", ["$end", "AND_AND", "OR_OR", "BAR", "BAR_AND", "SEMICOLON", "AMPERSAND", "SEMI_SEMI",
                "RIGHT_PAREN", "RIGHT_CURLY", "THEN", "DO", "DONE", "FI", "ESAC"]),
   ("OR_OR", ["$end", "AND_AND", "OR_OR", "BAR", "BAR_AND", "SEMICOLON", "AMPERSAND", "SEMI_SEMI",
              "RIGHT_PAREN", "RIGHT_CURLY", "THEN", "DO", "DONE", "FI", "ESAC"]),
   ("BAR", ["$end", "AND_AND", "OR_OR", "BAR", "BAR_AND", "SEMICOLON", "AMPERSAND", "SEMI_SEMI",
            "RIGHT_PAREN", "RIGHT_CURLY", "THEN", "DO", "DONE", "FI", "ESAC", "BANG", "TIME"]),
   ("BAR_AND", ["$end", "AND_AND", "OR_OR", "BAR", "BAR_AND", "SEMICOLON", "AMPERSAND", "SEMI_SEMI",
                "RIGHT_PAREN", "RIGHT_CURLY", "THEN", "DO", "DONE", "FI", "ESAC", "BANG", "TIME"]),
   ("SEMI_SEMI", ["$end", "AND_AND", "OR_OR", "BAR", "SEMICOLON", "AMPERSAND", "SEMI_SEMI",
                  "RIGHT_PAREN", "RIGHT_CURLY"]),
   ("LEFT_PAREN", ["$end", "RIGHT_CURLY", "AND_AND", "OR_OR", "BAR", "SEMICOLON", "AMPERSAND"])]

theorem ctrl_pairs :
    ctrlPairs.all (fun p => pairRejected (termNum p.1) (p.2.map termNum)) = true := by
  decide +kernel

/-! ### run-level theorems, arbitrary token source -/

/-- **from every configuration that waits for a token and can shift `r`, the stream `r x …` is
    rejected**: the error function is called on `x`, the engine does not return -/
theorem loop_rejects_pair {H : Hooks V} {Src : List Nat → Local → Env → Prop} {E : Exn → Prop}
    (hS : Stream H Src) (hE : ErrRaises H E) {r : Nat} {xs : List Nat}
    (hp : pairRejected r xs = true) {x : Nat} (hx : x ∈ xs) (rest : List Nat)
    (c : Cfg V) (hla : c.la = none) (hd : realTables.dflt (topState c.stack) = none) {t : Nat}
    (hact : realTables.action (topState c.stack) r = some (.shift t)) (fuel : Nat) :
    SatS (M.loop "LRParser.parse" (step realTables H) (fuel + 2) c) (Src (r :: x :: rest))
      (fun _ _ _ => False) E := by
  obtain ⟨h0, hn, ht0, hdt, hxs⟩ := pairRejected_spec hp hact
  rw [loop_succ]
  refine SatS.bind (step_shift hS c r t _ hla hd hact h0 hn) ?_
  intro res
  refine SatS.assume (fun hc => ?_)
  obtain ⟨c', rfl, hla', htop⟩ := hc
  show SatS (M.loop "LRParser.parse" (step realTables H) (fuel + 1) c') _ _ _
  rw [loop_succ]
  refine SatS.bind (Q := fun _ _ _ => False)
    (step_error hS hE c' x rest hla' (by rw [htop]; exact hdt) (by rw [htop]; exact hxs x hx)
      (Or.inl (by rw [htop]; exact ht0))) ?_
  intro _ l e hf
  exact hf.elim

/-- **C08, leading operator**: for every token source, a stream `NEWLINE^n x …` with `x` one of
    the terminals of `leadingRejected` (all control operators and closers) is rejected -/
theorem run_rejects_leading {H : Hooks V} {Src : List Nat → Local → Env → Prop} {E : Exn → Prop}
    (hS : Stream H Src) (hE : ErrRaises H E) (n : Nat) {x : Nat} (hx : x ∈ leadingRejected)
    (rest : List Nat) (fuel : Nat) :
    SatS (LR.run realTables H (n + (fuel + 1))) (Src (List.replicate n realTables.nlTok ++ x :: rest))
      (fun _ _ _ => False) E := by
  obtain ⟨t0, hnl⟩ := real_nl0
  obtain ⟨hact, hne⟩ := leadingRejected_spec hx
  unfold LR.run
  refine loop_skip_nl hS real_dflt0 hnl real_nl_ne (x :: rest) (fuel + 1) ?_ n {} rfl rfl
  intro c hla hstk
  rw [loop_succ]
  refine SatS.bind (Q := fun _ _ _ => False)
    (step_error hS hE c x rest hla (by rw [hstk]; exact real_dflt0) (by rw [hstk]; exact hact)
      (Or.inr hne)) ?_
  intro _ l e hf
  exact hf.elim

/-- **C08, first pair**: for every token source, a stream `NEWLINE^n r x …` is rejected when
    state 0 shifts `r` and `x ∈ xs` with `pairRejected r xs` (e.g. `> ;`, `> $end`, `( ;`) -/
theorem run_rejects_first_pair {H : Hooks V} {Src : List Nat → Local → Env → Prop} {E : Exn → Prop}
    (hS : Stream H Src) (hE : ErrRaises H E) (n : Nat) {r : Nat} {xs : List Nat}
    (hp : pairRejected r xs = true) {x : Nat} (hx : x ∈ xs) {t : Nat}
    (hact : realTables.action 0 r = some (.shift t)) (rest : List Nat) (fuel : Nat) :
    SatS (LR.run realTables H (n + (fuel + 2)))
      (Src (List.replicate n realTables.nlTok ++ r :: x :: rest)) (fun _ _ _ => False) E := by
  obtain ⟨t0, hnl⟩ := real_nl0
  unfold LR.run
  refine loop_skip_nl hS real_dflt0 hnl real_nl_ne (r :: x :: rest) (fuel + 2) ?_ n {} rfl rfl
  intro c hla hstk
  exact loop_rejects_pair hS hE hp hx rest c hla (by rw [hstk]; exact real_dflt0)
    (by rw [hstk]; exact hact) fuel

/-- every redirection operator is shifted in state 0 -/
theorem redir_shift0 : redirTerms.all (fun r =>
    match realTables.action 0 r with | some (.shift _) => true | _ => false) = true := by
  decide +kernel

end Bashlex.C08
