/-
  `run_sound_ordC` (`Props/C05/FSoundB.lean`) with the relational stack invariant INDEXED BY THE
  ENGINE'S GHOST `consumed` (the terminals shifted so far): the client sees, at every move, what
  the engine has consumed, and `Fin` / `Blank` are told what the returned `Res` carries.
  Same walk through `step` (copied); `LR/*.lean`, `FSoundB.lean` unchanged.
-/
import Bashlex.LR.SoundOrdH

namespace Bashlex.LR
open Bashlex
set_option linter.unusedSimpArgs false
set_option linter.unusedVariables false

variable {V : Type}

/-- what a normal return of the engine guarantees, the all-newline return included -/
def GoodC (Fin : List Nat → V → Local → Env → Prop) (Blank : List Nat → Local → Env → Prop) :
    Res V → Local → Env → Prop
  | .accepted v _ cs _, l, e => Fin cs v l e
  | .blank _ cs, l, e => Blank cs l e

/-- the engine invariant: a path-shaped stack of valid trees, and the client's invariant of what
    was consumed, the stack and the look-ahead -/
def InvC (T : Tables) (reach : Nat → Prop)
    (SI : List Nat → List (Nat × V) → Option (Nat × V) → Local → Env → Prop) (c : Cfg V)
    (l : Local) (e : Env) : Prop :=
  (PathOK T reach c.stack ∧ AllValid T c.stack) ∧ SI c.consumed (symVals c.stack) c.la l e

/-- closure of a relational stack invariant under the engine's moves, with hints -/
structure HooksOrdC (T : Tables) (H : Hooks V)
    (SI : List Nat → List (Nat × V) → Option (Nat × V) → Local → Env → Prop)
    (Fin : List Nat → V → Local → Env → Prop) (Blank : List Nat → Local → Env → Prop) (E : Exn → Prop)
    (A : Nat → Prop) : Prop where
  next : ∀ cs vs, M.SatS H.next (SI cs vs none) (fun la => SI cs vs (some la)) E
  shift : ∀ cs vs la l e, SI cs vs (some la) l e → SI (cs ++ [la.1]) (vs ++ [la]) none l e
  /-- a NEWLINE shifted in state 0 is not pushed -/
  shiftNl : ∀ cs la l e, la.1 = T.nlTok → SI cs [] (some la) l e → SI (cs ++ [la.1]) [] none l e
  act : ∀ cs p lhs rhs rest args la, T.prods[p]? = some (lhs, rhs) → args.map (·.1) = rhs →
      RestHint T rest lhs → LaHint T la p →
      M.SatS (H.act p (args.map (·.2))) (SI cs (rest ++ args) la)
        (fun r l e => if r.2 = true then Fin cs r.1 l e else SI cs (rest ++ [(lhs, r.1)]) la l e) E
  /-- the `accept` entry of the action table returns the top of the stack -/
  accept : ∀ cs vs x (la : Nat × V) l e, A x.1 → (∃ s, T.action s la.1 = some .accept) →
    SI cs (vs ++ [x]) (some la) l e → Fin cs x.2 l e
  onError : ∀ la, M.Sat (H.onError la) (fun _ => True) E
  /-- the "everything is a newline" return happens on an empty stack, with the end-of-input
      look-ahead (or, never for the real tables, at an `accept` entry of state 0) -/
  blank : ∀ cs la l e, (la.1 = T.endTok ∨ T.action 0 la.1 = some .accept) → SI cs [] (some la) l e →
    Blank cs l e

theorem doReduce_ordC {T reach acc} (h : WF T reach acc) (H : Hooks V) {SI Fin Blank E A}
    (hH : HooksOrdC T H SI Fin Blank E A) (c : Cfg V) (p : Nat)
    (hla : LaHint T c.la p)
    (hb : ∃ lhs rhs, T.prods[p]? = some (lhs, rhs) ∧
          BackOK T reach acc (topState c.stack) rhs.reverse lhs) :
    M.SatS (doReduce T H c p) (InvC T reach SI c)
      (fun r l e => Sum.elim (fun c' => InvC T reach SI c' l e) (fun res => GoodC Fin Blank res l e) r)
      (EngineExn E) := by
  intro l0 e0 hinv
  obtain ⟨⟨hp, hv⟩, hsi⟩ := hinv
  obtain ⟨lhs, rhs, hprod, hback⟩ := hb
  obtain ⟨es, rest, t, hpop, hroots, hvl, hp', hv', hg, hl, hy, hmes, hmrest⟩ :=
    pop_of_back h rhs.reverse c.stack lhs hp hv hback
  simp only [List.length_reverse] at hpop
  have hroots' : es.map (fun e => e.tree.root) = rhs := by simpa using hroots
  have hstk : c.stack = es.reverse ++ rest := popN_eq _ _ _ _ hpop
  have hvalid : Tree.Valid T (Tree.node p lhs (es.map (·.tree))) := by
    refine .node p lhs _ rhs hprod ?_ ?_
    · simpa [List.map_map, Function.comp_def] using hroots
    · intro k hk
      obtain ⟨e, he, rfl⟩ := List.mem_map.mp hk
      exact hvl e he
  have hnt : ¬ lhs < T.nTerms := Nat.not_lt.mpr hl
  have hrest : RestHint T (symVals rest) lhs := by
    cases hr : rest with
    | nil => exact Or.inl rfl
    | cons x r =>
      right
      rw [hr] at hp' hg
      refine ⟨x.state, t, ?_, by simpa [topState] using hg⟩
      exact (h.closed _ _ _ (reach_top h hp'.2.2) hp'.2.1).2.2
  have hargs1 : (es.map (fun e => (e.tree.root, e.val))).map (·.1) = rhs := by
    simpa [List.map_map, Function.comp_def] using hroots'
  have hargs2 : (es.map (fun e => (e.tree.root, e.val))).map (·.2) = es.map (·.val) := by
    simp [List.map_map, Function.comp_def]
  have hsi' : SI c.consumed (symVals rest ++ es.map (fun e => (e.tree.root, e.val))) c.la l0 e0 := by
    rw [← symVals_append, ← hstk]; exact hsi
  have hact := hH.act c.consumed p lhs rhs (symVals rest) _ c.la hprod hargs1 hrest hla
  rw [hargs2] at hact
  have key : M.SatS (doReduce T H c p)
      (SI c.consumed (symVals rest ++ es.map (fun e => (e.tree.root, e.val))) c.la)
      (fun r l e => Sum.elim (fun c' => InvC T reach SI c' l e) (fun res => GoodC Fin Blank res l e) r)
      (EngineExn E) := by
    unfold doReduce
    simp only [hprod, hpop]
    refine M.SatS.bind (hact.weaken (fun _ _ h => h) (fun _ _ _ h => h) (fun _ h => Or.inl h)) ?_
    rintro ⟨v, accept⟩
    simp only [hg]
    by_cases hacc : accept = true
    · simp only [hacc, if_true]
      exact M.SatS.pure (fun l e hf => by simpa [GoodC] using hf)
    · simp only [hacc]
      refine M.SatS.pure (fun l e hf => ?_)
      simp only [Sum.elim_inl]
      simp only [Bool.false_eq_true, if_false] at hf
      refine ⟨⟨⟨?_, ?_, hp'⟩, ⟨hvalid, hv'⟩⟩, ?_⟩
      · have hedge : T.edge (topState rest) lhs = some t := by simp [Tables.edge, hnt, hg]
        exact (h.closed _ _ _ (reach_top h hp') hedge).1
      · simp [Tree.root, Tables.edge, hnt, hg]
      · simp only [symVals_cons, Tree.root]
        exact hf
  exact key l0 e0 hsi'

theorem step_ordC {T reach acc} (h : WF T reach acc) {A : Nat → Prop}
    (hA : ∀ s la, reach s → T.action s la = some .accept → A (acc s))
    (H : Hooks V) {SI Fin Blank E} (hH : HooksOrdC T H SI Fin Blank E A) (c : Cfg V) :
    M.SatS (step T H c) (InvC T reach SI c)
      (fun r l e => Sum.elim (fun c' => InvC T reach SI c' l e) (fun res => GoodC Fin Blank res l e) r)
      (EngineExn E) := by
  intro l0 e0 hinv
  have hinv' := hinv
  obtain ⟨⟨hp, hv⟩, hsi⟩ := hinv
  have hr := reach_top h hp
  have key : M.SatS (step T H c) (InvC T reach SI c)
      (fun r l e => Sum.elim (fun c' => InvC T reach SI c' l e) (fun res => GoodC Fin Blank res l e) r)
      (EngineExn E) := by
    unfold step
    simp only
    cases hd : T.dflt (topState c.stack) with
    | some p => exact doReduce_ordC h H hH c p (Or.inl ⟨_, hd⟩) (h.redDflt _ p hr hd)
    | none =>
      simp only
      refine M.SatS.bind
        (Q := fun la l e => InvC T reach SI { c with la := some la } l e) ?_ ?_
      · cases hla : c.la with
        | some la =>
          refine M.SatS.pure (fun l e hi => ?_)
          obtain ⟨hs, hsi⟩ := hi
          exact ⟨hs, by rw [hla] at hsi; exact hsi⟩
        | none =>
          intro l e hi
          obtain ⟨hs, hsi⟩ := hi
          rw [hla] at hsi
          have := (hH.next c.consumed (symVals c.stack)).weaken (fun _ _ h => h) (fun _ _ _ h => h)
            (fun _ h => (Or.inl h : EngineExn E _)) l e hsi
          revert this
          rcases H.next.run l e with ⟨r, e'⟩
          cases r with
          | ok v => intro this; exact ⟨hs, this⟩
          | error x => intro this; exact this
      rintro ⟨la, lv⟩
      simp only
      split
      · rename_i hcond
        refine M.SatS.pure (fun l e hi => ?_)
        simp only [Sum.elim_inr, GoodC]
        simp only [Bool.and_eq_true, beq_iff_eq] at hcond
        obtain ⟨⟨hs0, hend⟩, _⟩ := hcond
        have hnil : c.stack = [] := by
          cases hstk : c.stack with
          | nil => rfl
          | cons top rest =>
            rw [hstk] at hp hs0
            exact absurd hs0 (h.closed _ _ _ (reach_top h hp.2.2) hp.2.1).2.2
        obtain ⟨hs, hsi⟩ := hi
        simp only [hnil, symVals_nil] at hsi
        exact hH.blank _ _ l e (Or.inl hend) hsi
      · cases hact : T.action (topState c.stack) la with
        | none =>
          simp only
          refine M.SatS.bind (Q := fun _ _ _ => True)
            (((M.SatS.of_sat (hH.onError (la, lv)) _)).weaken (fun _ _ h => h) (fun _ _ _ _ => trivial)
              (fun _ h => Or.inl h)) ?_
          intro _
          exact M.SatS.foreign (Or.inr (Or.inr rfl))
        | some a =>
          cases a with
          | shift t =>
            have hla := h.shiftTerm _ _ _ hact
            simp only
            split
            · rename_i hnlc
              refine M.SatS.pure (fun l e hi => ?_)
              simp only [Sum.elim_inl]
              simp only [Bool.and_eq_true, beq_iff_eq] at hnlc
              obtain ⟨hs0, hlanl⟩ := hnlc
              have hnil : c.stack = [] := by
                cases hstk : c.stack with
                | nil => rfl
                | cons top rest =>
                  rw [hstk] at hp hs0
                  exact absurd hs0 (h.closed _ _ _ (reach_top h hp.2.2) hp.2.1).2.2
              obtain ⟨hs, hsi⟩ := hi
              refine ⟨hs, ?_⟩
              simp only [hnil, symVals_nil] at hsi ⊢
              exact hH.shiftNl _ _ l e hlanl hsi
            · refine M.SatS.pure (fun l e hi => ?_)
              simp only [Sum.elim_inl]
              obtain ⟨⟨hp1, hv1⟩, hsi⟩ := hi
              refine ⟨⟨⟨?_, ?_, hp1⟩, ⟨.leaf _ hla, hv1⟩⟩, ?_⟩
              · have hedge : T.edge (topState c.stack) la = some t := by
                  simp [Tables.edge, hla, hact]
                exact (h.closed _ _ _ hr hedge).1
              · simp [Tree.root, Tables.edge, hla, hact]
              · simp only [symVals_cons, Tree.root]
                exact hH.shift _ _ _ l e hsi
          | reduce p =>
            exact doReduce_ordC h H hH _ p (Or.inr ⟨(la, lv), _, rfl, hact⟩)
              (h.redAct _ _ p hr hact)
          | accept =>
            simp only
            split
            · rename_i top rest hstk
              have hstk' : c.stack = top :: rest := hstk
              refine M.SatS.pure (fun l e hi => ?_)
              simp only [Sum.elim_inr, GoodC]
              obtain ⟨_, hsi⟩ := hi
              simp only [hstk', symVals_cons] at hsi
              have hA' : A top.tree.root := by
                rw [hstk'] at hp hact
                have hroot := (h.closed _ _ _ (reach_top h hp.2.2) hp.2.1).2.1
                rw [← hroot]
                exact hA _ _ hp.1 hact
              exact hH.accept _ _ (top.tree.root, top.val) (la, lv) l e hA' ⟨_, hact⟩ hsi
            · rename_i hstk
              have hstk' : c.stack = [] := hstk
              refine M.SatS.pure (fun l e hi => ?_)
              simp only [Sum.elim_inr, GoodC]
              obtain ⟨_, hsi⟩ := hi
              simp only [hstk', symVals_nil] at hsi
              rw [hstk'] at hact
              exact hH.blank _ (la, lv) l e (Or.inr hact) hsi
  exact key l0 e0 hinv'

/-- **run_sound_ord with hints** -/
theorem run_sound_ordC {T reach acc} (h : WF T reach acc) {A : Nat → Prop}
    (hA : ∀ s la, reach s → T.action s la = some .accept → A (acc s))
    (H : Hooks V) {SI Fin Blank E} (hH : HooksOrdC T H SI Fin Blank E A) (fuel : Nat) :
    M.SatS (run T H fuel) (SI [] [] none) (GoodC Fin Blank) (EngineExn E) := by
  unfold run
  refine (M.SatS.loop (I := InvC T reach SI) (R := GoodC Fin Blank) (Or.inr (Or.inl rfl))
    (fun s => step_ordC h hA H hH s) fuel {}).pre ?_
  intro l e hsi
  exact ⟨⟨True.intro, True.intro⟩, hsi⟩

end Bashlex.LR
