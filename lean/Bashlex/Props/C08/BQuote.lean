/-
  C08, part 2 (text level, backquote): an unterminated backquote is rejected, for ALL lengths:
  `C08_unterminated_bquote`: input `w ++ "`" ++ u` with `w` plain and `u` free of backquote and
  backslash.  Same development as `DQuote.lean` (the scanner parameters differ:
  `parsingcommand = true`, no nested scanners since `open = '`'`).
-/
import Bashlex.Props.C08.DQuote

namespace Bashlex.C08
open Bashlex Bashlex.M Bashlex.C10
set_option linter.unusedSimpArgs false
set_option linter.unusedVariables false

/-- the parameters `handleshellquote` passes for a backquote -/
def bqParams : MPParams :=
  { doublequotes := some '`', opn := '`', close := '`', parsingcommand := true }

/-- a character the `"…"` scanner just appends -/
def bqPlain (c : Char) : Bool := c != '`' && c != '\\'

theorem mpHead_bq (st : MPState) (c : Char) (hc : bqPlain c = true) (h1 : st.insidecomment = false)
    (h2 : st.passnextchar = false) (h3 : st.count = 1) :
    C04.TTP.mpHead bqParams false st c = pure (.next { st with ret := st.ret ++ [c] } c) := by
  unfold bqPlain at hc
  simp only [Bool.and_eq_true, bne_iff_ne, ne_eq] at hc
  obtain ⟨c1, c2⟩ := hc
  have e1 : (c == '`') = false := by simpa using c1
  have e2 : (c == '\\') = false := by simpa using c2
  unfold C04.TTP.mpHead C04.TTP.mpTail
  simp [bqParams, h1, h2, h3, e1, e2]

theorem mpPost_bq (pmp : MPParams → M Str) (pcs : CSParams → M Str) (st : MPState) (c : Char) :
    mpPost pmp pcs bqParams false st c = pure { st with sawdollar := c == '$' } := by
  unfold mpPost
  simp [bqParams]

/-- the loop body of `parseMatchedPair (fuel + 1) bqParams` -/
def bqBody (fuel : Nat) (st : MPState) : M (MPState ⊕ Str) := do
  if st.count == 0 then return .inr st.ret
  match ← mpPre bqParams false st with
  | .cont s => return .inl s
  | .done r => return .inr r
  | .next s c =>
    let s' ← mpPost (parseMatchedPair fuel) (parseComsub fuel) bqParams false s c
    return .inl s'

theorem parseMatchedPair_bq (fuel : Nat) :
    parseMatchedPair (fuel + 1) bqParams =
      (do let lf ← loopFuel; M.loop "_parse_matched_pair" (bqBody fuel) lf {}) := by
  unfold parseMatchedPair mpInit bqBody
  simp [bqParams]
  congr

theorem bqBody_eof (dfuel : Nat) (st : MPState) (l : Local) (e : Env)
    (hl : l.eolLookahead = none) (hend : (tapeOf l e).line.length ≤ (tapeOf l e).idx)
    (h3 : st.count = 1) :
    M.run (bqBody dfuel st) l e =
      (.error (mkParsingError (eofMsg '`') (tapeOf l e).source (((tapeOf l e).idx : Int) - 1)), e) := by
  have hg : M.run (getc (bqParams.doublequotes != some '\'' && !st.passnextchar)) l e =
      (.ok (none, l), e) := by
    rw [run_getc _ l e hl, tape_getc_end _ _ hend]
    simp only [putL_self, putE_self]
  unfold bqBody
  have hc : (st.count == 0) = false := by rw [h3]; rfl
  simp only [hc, Bool.false_eq_true, if_false]
  rw [M.run_bind, mpPre_eof bqParams false st hg]
  rfl

theorem bqBody_step (dfuel : Nat) (st : MPState) (l : Local) (e : Env) (c : Char)
    (hl : l.eolLookahead = none) (hc : (tapeOf l e).line[(tapeOf l e).idx]? = some c)
    (hp : bqPlain c = true) (h1 : st.insidecomment = false) (h2 : st.passnextchar = false)
    (h3 : st.count = 1) :
    M.run (bqBody dfuel st) l e =
      (.ok (.inl { st with ret := st.ret ++ [c], sawdollar := c == '$' },
            putL l { tapeOf l e with idx := (tapeOf l e).idx + 1 }),
       putE l e { tapeOf l e with idx := (tapeOf l e).idx + 1 }) := by
  have hnb : c ≠ '\\' := by
    unfold bqPlain at hp
    simp only [Bool.and_eq_true, bne_iff_ne, ne_eq] at hp
    exact hp.2
  have hg : M.run (getc (bqParams.doublequotes != some '\'' && !st.passnextchar)) l e =
      (.ok (some c, putL l { tapeOf l e with idx := (tapeOf l e).idx + 1 }),
       putE l e { tapeOf l e with idx := (tapeOf l e).idx + 1 }) := by
    rw [run_getc _ l e hl, tape_getc_nb _ c hc hnb]
  unfold bqBody
  have hc0 : (st.count == 0) = false := by rw [h3]; rfl
  simp only [hc0, Bool.false_eq_true, if_false]
  rw [M.run_bind, C04.TTP.mpPre_eq, M.run_bind, hg]
  simp only []
  rw [M.run_bind, M.run_pure]
  simp only []
  rw [mpHead_bq st c hp h1 h2 h3, M.run_pure]
  simp only []
  rw [M.run_bind, mpPost_bq _ _ { st with ret := st.ret ++ [c] } c, M.run_pure]
  simp only []
  rw [M.run_pure]

theorem bq_scan (dfuel : Nat) : ∀ (u : Str) (fuel : Nat) (st : MPState) (l : Local) (e : Env),
    l.eolLookahead = none → (tapeOf l e).idx ≤ (tapeOf l e).line.length →
    (tapeOf l e).line.drop (tapeOf l e).idx = u → (∀ x ∈ u, bqPlain x = true) →
    st.insidecomment = false → st.passnextchar = false → st.count = 1 →
    ∃ e', M.run (M.loop "_parse_matched_pair" (bqBody dfuel) fuel st) l e =
      (.error (if u.length < fuel then
          mkParsingError (eofMsg '`') (tapeOf l e).source (((tapeOf l e).line.length : Int) - 1)
        else .outOfFuel "_parse_matched_pair"), e') := by
  intro u
  induction u with
  | nil =>
    intro fuel st l e hl hle hu _ h1 h2 h3
    cases fuel with
    | zero => exact ⟨e, by rw [run_loop_zero]; simp⟩
    | succ fuel =>
      have hend : (tapeOf l e).line.length ≤ (tapeOf l e).idx := by
        have := congrArg List.length hu
        simp only [List.length_drop, List.length_nil] at this
        omega
      have hidx : (tapeOf l e).idx = (tapeOf l e).line.length := by omega
      refine ⟨e, ?_⟩
      rw [loop_raises _ _ _ _ (bqBody_eof dfuel st l e hl hend h3), hidx]
      simp
  | cons c u ih =>
    intro fuel st l e hl hle hu hq h1 h2 h3
    cases fuel with
    | zero => exact ⟨e, by rw [run_loop_zero]; simp⟩
    | succ fuel =>
      have hlt : (tapeOf l e).idx < (tapeOf l e).line.length := by
        have := congrArg List.length hu
        simp only [List.length_drop, List.length_cons] at this
        omega
      have hc : (tapeOf l e).line[(tapeOf l e).idx]? = some c := by
        rw [← List.head?_drop, hu]; rfl
      have hp : bqPlain c = true := hq c List.mem_cons_self
      have hq' : ∀ x ∈ u, bqPlain x = true := fun x hx => hq x (List.mem_cons_of_mem _ hx)
      have hstep := bqBody_step dfuel st l e c hl hc hp h1 h2 h3
      have htape : tapeOf (putL l { tapeOf l e with idx := (tapeOf l e).idx + 1 })
          (putE l e { tapeOf l e with idx := (tapeOf l e).idx + 1 }) =
          { tapeOf l e with idx := (tapeOf l e).idx + 1 } := tapeOf_put _ _ _
      obtain ⟨e', he'⟩ := ih fuel { st with ret := st.ret ++ [c], sawdollar := c == '$' }
        (putL l { tapeOf l e with idx := (tapeOf l e).idx + 1 })
        (putE l e { tapeOf l e with idx := (tapeOf l e).idx + 1 })
        (by rw [putL_eol]; exact hl)
        (by rw [htape]; exact hlt)
        (by
          rw [htape]
          show (tapeOf l e).line.drop ((tapeOf l e).idx + 1) = u
          rw [← List.drop_drop, hu]; rfl)
        hq' h1 h2 h3
      refine ⟨e', ?_⟩
      rw [run_loop_succ, hstep]
      simp only []
      rw [he', htape]
      simp only [List.length_cons, Nat.add_lt_add_iff_right]
      rfl

theorem parseMatchedPair_bq_raises (dfuel : Nat) (u : Str) (l : Local) (e : Env)
    (hl : l.eolLookahead = none) (hle : (tapeOf l e).idx ≤ (tapeOf l e).line.length)
    (hu : (tapeOf l e).line.drop (tapeOf l e).idx = u) (hq : ∀ x ∈ u, bqPlain x = true)
    (hlen : u.length < 1073741824) :
    ∃ e', M.run (parseMatchedPair (dfuel + 1) bqParams) l e =
      (.error (mkParsingError (eofMsg '`') (tapeOf l e).source
        (((tapeOf l e).line.length : Int) - 1)), e') := by
  obtain ⟨e', he'⟩ := bq_scan dfuel u 1073741824 {} l e hl hle hu hq rfl rfl rfl
  refine ⟨e', ?_⟩
  rw [parseMatchedPair_bq]
  have hf : (loopFuel : M Nat) = pure 1073741824 := rfl
  rw [hf, pure_bind, he', if_pos hlen]

theorem bqParams_eq :
    ({ doublequotes := some '`', opn := '`', close := '`', parsingcommand := '`' == '`' } : MPParams) =
      bqParams := by
  unfold bqParams; congr

theorem scanRaises_bquote {u : Str} (hq : ∀ x ∈ u, bqPlain x = true)
    (hlen : u.length < 1073741824) : ScanRaises '`' u := by
  intro l e hl hle hu
  rw [bqParams_eq]
  exact parseMatchedPair_bq_raises 1048575 u l e hl hle hu hq hlen

/-- **C08_unterminated_bquote** (all lengths, all options): a word of plain characters, then a
    double quote that is never closed, followed by text free of `"`, backslash, `$`, backquote:
    `parse` raises `unexpected EOF while looking for matching '"'` -/
theorem C08_unterminated_bquote (w u : Str) (o : Opts) (hw : ∀ x ∈ w, plainChar x = true)
    (hu : ∀ x ∈ u, bqPlain x = true) (hwl : w.length < 1073741824)
    (hul : u.length + 1 < 1073741824) :
    (parse (w ++ '`' :: u) o).1 =
      .exn (.parsing (eofMsg '`') (w ++ '`' :: u)
        (((Tape.ofInput (w ++ '`' :: u)).line.length : Int) - 1)) := by
  refine unterminated_quote quoteChar_bquote w u o hw hwl (fun tail htail => ?_)
  refine scanRaises_bquote ?_ ?_
  · intro x hx
    rcases List.mem_append.mp hx with h | h
    · exact hu x h
    · rcases htail with rfl | rfl
      · cases h
      · simp only [List.mem_singleton] at h; subst h; decide
  · rcases htail with rfl | rfl <;> simp <;> omega

end Bashlex.C08
