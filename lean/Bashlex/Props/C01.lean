/-
  Property C01 ("disciplined totality") at model level, for all inputs and all options.

  For `parse`, `parsesingle` (and `split`): the outcome is the documented result shape or an
  exception satisfying `Allowed TokExn`:
    * a `ParsingError` or a `NotImplementedError`;
    * one of the foreign exceptions of `knownForeign` (raised above the tokenizer: three defects
      the model reproduces, with kernel-checked witnesses in `Props/C01/Witness.lean`, and four
      sites that could not be excluded without positional facts about tokens; no witness found);
    * one of the tokenizer's own raise sites `tokForeign` (not analysed for reachability);
    * the out-of-fuel marker of a loop covered by fuel only: the LR engine, the nesting depth
      (`fuelSites`), the loops of the tokenizer (`tokFuel`), and, for `split`, its token loop.
  No other foreign exception escapes — none of the `AttributeError` / `TypeError` / `IndexError` /
  `AssertionError` branches of the semantic actions (`p.slice`, `_partsspan`, `p_simple_list`,
  `p_shell_command`, `p_pipeline_command`, …), no internal failure of the LR engine, not the
  engine's unmodelled error recovery, not the dead `accept` assertion — and neither the loop of
  `_expandwordinternal` nor the loop of `parse` ever runs out of fuel (`expand_progress`,
  `parseLoop_exn`: their out-of-fuel markers are not in the lists).

  Files:
    C01/Basic.lean      `Allowed`, `knownForeign`, `fuelSites`, Hoare rules (`sat_loop_measure`)
    C01/Expand.lean     word expansion: discipline + progress (`expand_progress`)
    C01/Engine.lean     LR engine with an error function that never returns (`run_sound'`)
    C01/Tokens.lean     token facts `TF` (WHILE/UNTIL spelling, QUOTED ⇒ non-empty)
    C01/Shapes.lean     shapes of semantic values, `shAction`, grammar obligation `shape_ok`
    C01/Actions.lean    `shAction_sound`: one lemma per action function
    C01/Parse.lean      hooks, `parserRun_exn` (all depths), entry points, shape lemmas, `split`
    C01/TokExn.lean, C01/Tokenizer.lean   `TokExn`, automatic walk through the tokenizer
    C01/Fuel.lean       fuel adequacy of the structurally recursive scanners
    C01/Witness.lean    kernel-checked witnesses of the three known defects
-/
import Bashlex.Props.C01.Parse
import Bashlex.Props.C01.Tokenizer
import Bashlex.Props.C01.Fuel

namespace Bashlex.C01
open Bashlex Bashlex.M

/-- the exception discipline with the tokenizer's part made explicit -/
abbrev Disciplined : Exn → Prop := Allowed TokExn

/-- `Disciplined`, spelled out -/
theorem disciplined_iff (x : Exn) :
    Disciplined x ↔
      (∃ m s p, x = .parsing m s p) ∨ (∃ w, x = .notImplemented w) ∨
      x ∈ knownForeign ∨ x ∈ tokForeign ∨
      (∃ site, x = .outOfFuel site ∧ (site ∈ fuelSites ∨ site ∈ tokFuel)) := by
  constructor
  · rintro ((h | h | ⟨site, rfl, h⟩) | h | h | h | ⟨site, rfl, h⟩)
    · exact Or.inl h
    · exact Or.inr (Or.inr (Or.inr (Or.inl h)))
    · exact Or.inr (Or.inr (Or.inr (Or.inr ⟨site, rfl, Or.inr h⟩)))
    · exact Or.inl h
    · exact Or.inr (Or.inl h)
    · exact Or.inr (Or.inr (Or.inl h))
    · exact Or.inr (Or.inr (Or.inr (Or.inr ⟨site, rfl, Or.inl h⟩)))
  · rintro (h | h | h | h | ⟨site, rfl, h | h⟩)
    · exact Or.inr (Or.inl h)
    · exact Or.inr (Or.inr (Or.inl h))
    · exact Or.inr (Or.inr (Or.inr (Or.inl h)))
    · exact Or.inl (Or.inr (Or.inl h))
    · exact Or.inr (Or.inr (Or.inr (Or.inr ⟨site, rfl, h⟩)))
    · exact Or.inl (Or.inr (Or.inr ⟨site, rfl, h⟩))

/-- every exception escaping one parser run, at every nesting depth, is disciplined -/
theorem C01_parserRun (d : Nat) : Sat (parserRun d) (fun _ => True) Disciplined :=
  parserRun_exn tok_nextToken tok_gatherheredocuments d

/-- **C01 (model level), `parse`**: for every input and all options, `parse` returns a list of
    nodes or raises a disciplined exception -/
theorem C01_partial (s : Str) (o : Opts) :
    match (parse s o).1 with
    | .parts _ => True
    | .exn x => Disciplined x
    | _ => False := by
  have h := parse_ok tok_nextToken tok_gatherheredocuments s o
  revert h
  cases (parse s o).1 <;> exact fun h => h

/-- **C01 (model level), `parsesingle`** -/
theorem C01_partial_single (s : Str) (o : Opts) :
    match (parsesingle s o).1 with
    | .single _ => True
    | .exn x => Disciplined x
    | _ => False := by
  have h := parsesingle_ok tok_nextToken tok_gatherheredocuments s o
  revert h
  cases (parsesingle s o).1 <;> exact fun h => h

/-- **C01 (model level), `split`**: strings, or a disciplined exception, or the out-of-fuel marker
    of its token loop -/
theorem C01_partial_split (s : Str) :
    match (split s).1 with
    | .strs _ => True
    | .exn x => Disciplined x ∨ x = .outOfFuel "split"
    | _ => False := by
  have h := split_ok tok_nextToken tok_gatherheredocuments s
  revert h
  cases (split s).1 <;> exact fun h => h

/-- C01 above the tokenizer, for *every* token source discipline `T`: whatever `nextToken` and
    `gatherheredocuments` may raise, nothing else is added but the items of `Allowed` -/
theorem C01_conditional {T : Exn → Prop} (hTok : Sat nextToken (fun _ => True) T)
    (hGather : Sat gatherheredocuments (fun _ => True) T) (s : Str) (o : Opts) :
    ParseOK T (parse s o).1 ∧ SingleOK T (parsesingle s o).1 ∧ SplitOK T (split s).1 :=
  ⟨parse_ok hTok hGather s o, parsesingle_ok hTok hGather s o, split_ok hTok hGather s⟩

/-- **termination, `_expandwordinternal`** (3a): the loop never runs out of its `2·len + 4` fuel —
    `outOfFuel "_expandwordinternal"` is not disciplined, and the expansion is -/
theorem C01_expand_terminates :
    ¬ Disciplined (.outOfFuel "_expandwordinternal") := by
  rw [disciplined_iff]
  simp [knownForeign, tokForeign, fuelSites, tokFuel]

/-- **termination, the loop of `parse`** (3b): `outOfFuel "parse"` is not disciplined -/
theorem C01_parse_terminates : ¬ Disciplined (.outOfFuel "parse") := by
  rw [disciplined_iff]
  simp [knownForeign, tokForeign, fuelSites, tokFuel]

/-- the markers of the model itself never escape -/
theorem C01_no_marker (site : String) : ¬ Disciplined (.foreign "NotModelled" site) := by
  rw [disciplined_iff]
  simp [knownForeign, tokForeign, fuelSites, tokFuel]

/-- no `TypeError`, `AttributeError` other than D24's, `KeyError`, `NameError` from above the
    tokenizer: the foreign exceptions that can escape are exactly the two lists -/
theorem C01_foreign (ty site : String) (h : Disciplined (.foreign ty site)) :
    Exn.foreign ty site ∈ knownForeign ∨ Exn.foreign ty site ∈ tokForeign := by
  rw [disciplined_iff] at h
  rcases h with ⟨_, _, _, h⟩ | ⟨_, h⟩ | h | h | ⟨_, h, _⟩
  · cases h
  · cases h
  · exact Or.inl h
  · exact Or.inr h
  · cases h

end Bashlex.C01

#print axioms Bashlex.C01.C01_partial
#print axioms Bashlex.C01.C01_partial_single
#print axioms Bashlex.C01.C01_partial_split
#print axioms Bashlex.C01.C01_conditional
#print axioms Bashlex.C01.C01_parserRun
#print axioms Bashlex.C01.expand_progress
#print axioms Bashlex.C01.sat_expandwordinternal
#print axioms Bashlex.C01.parseLoop_exn
#print axioms Bashlex.C01.parse_nil
#print axioms Bashlex.C01.shAction_sound
#print axioms Bashlex.C01.C01_expand_terminates
#print axioms Bashlex.C01.C01_foreign
#print axioms Bashlex.C01.stringextract_adequate
