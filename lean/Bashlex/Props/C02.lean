/-
  C02 — the first all-inputs ROUND-TRIP theorems: for every abstract command tree of a sub-language
  and every spelling of it in a spelling family, `parse` (real tokenizer, real LR tables, real
  actions, real word expansion, real outer loop of `Model/Parse.lean`) returns exactly the AST
  denoting the tree: node kinds, nesting, operators, word values, spans.  All options.

  Main theorems (this file):
  * `C02_simple_roundtrip`   words `w₁ gap₁ w₂ … wₙ`, leading / trailing blanks;
  * `C02_seq_roundtrip`      `c₁ ; c₂ ; … ; cₙ` (n ≥ 2);
  * `C02_pipeline_roundtrip` `c₁ | c₂ | … | cₙ` (n ≥ 2);
  * `C02_andor_roundtrip`    `c₁ op₂ c₂ …`, operators `;`, `&&`, `||` in any mix (one flat list node);
  * `C02_lines_roundtrip`, `C02_oplines_roundtrip`  several newline-separated lines, one part per line;
  * `C02_full_roundtrip`     lines of lists (`;`, `&&`, `||`) of pipelines (`|`) of simple commands of
                             plain words — subsumes all of the above;
  * `C02_full_roundtrip5`    (= `C02_full_roundtrip2` over the types as they stand) adds file-descriptor
                             prefixes `2> w`, `10< w`, `2>>w` (`Elem.nredir`: NUMBER token, four-symbol
                             productions, `redirect … (num n) …` nodes), anywhere in a command;
  * `C02_full_roundtrip4`    adds a redirection as the FIRST element of a command (`GCmd.first : Elem`),
                             also redirection-only commands (`>f`);
  * `C02_full_roundtrip3`    (= `C02_full_roundtrip2` after the in-place generalisation of `Elem`) adds the
                             redirections `> w`, `< w`, `>> w` after the first item of a command;
  * `C02_full_roundtrip2`    the same with GENERAL simple commands (`GCmd`, items `Item`): assignments
                             `a=b` in command position (ASSIGNMENT_WORD → `assignment` nodes; also
                             assignment-only commands), words of the form `a=b` after the command
                             word stay `word` nodes; `C02_full_roundtrip_of2` derives
                             `C02_full_roundtrip` from it through the embedding `SCmd.toG`.

  The sub-language: a word is `PlainWord` (non-empty, over letters, digits and `_ - . / , : + @ %`);
  the FIRST word of every simple command is not in the model's table `valid_reserved_first_command`
  (`reservedFirstCommandChars`); later words may be reserved words (`echo if` is a command).
  The spelling family: any non-empty run of blanks/tabs between words; any (possibly empty) run of
  blanks/tabs before a command, after it, around every operator and at the end of a line; with or
  without a final newline.

  Exclusions (explicit hypotheses), each necessary — witnesses checked with `#eval`:
  * first word reserved:  `(parse "if".toList {}).1 = .exn (.parsing "unexpected EOF" … 2)`,
      `(parse "time x".toList {}).1 = .exn (.notImplemented "time command")`,
      `(parse "a ; if".toList {}).1 = .exn (.parsing "unexpected EOF" … 6)` (after `;`, `&&`, `||`, `|` a
      reserved word is acceptable again), while `(parse "echo if".toList {}).1` is the command node;
  * size: `5 * length + 20 ≤ 2^30` — an artefact of the MODEL (its loops run on the constant fuel
      2^30 and raise `outOfFuel` beyond); the implementation has no such bound.
  Outside the family (not claimed): empty commands (`a;;b` is `.exn (.parsing "unexpected token ';;'" …)`),
  a trailing `;` (`"a;"` gives a list node with a final operator), empty lines, `&`, `|&`, quoting,
  expansions, the other redirection operators (`>&`, `<&`, `>|`, `<>`, `&>`, `<<<`, here-documents),
  compound commands.  (For `&`: `TokAmp.tot_nextToken_amp` is the tokenizer half; the engine path is the
  mirror image of `;` — 6 →`&` 60, goto(60,93)=132, p153 at 132, and p149 `simple_list1 &` at 60 on
  NEWLINE — but `SeqOps.bstack/slOf/collapse` hard-code 61/133/p154.)
  A number is a NUMBER token only directly before `>`/`<` (`2 >f` is the word `2` and a plain redirection —
  that spelling is `.simple (.word "2")`, gap, `.redir …`, also covered).

  Structure of the proof (`Props/C02/*.lean`):
  * `Tot`      a total-correctness calculus `Tot m l T P` over (parser object, tape);
  * `Tok`, `TokOp`   the tokenizer: blanks + plain word (`tot_nextToken_word`), newline, EOF, `;`, `|`,
               `&&`, `||`;
  * `Tables`   the 180 entries of the regenerated tables the engine consults (kernel-decided);
  * `Engine`, `Actions`   the engine step by step; the actions on the path, exact results;
  * `Run`, `Glue`        a simple command on a line (`run_line`), `parserRun`, `runParser`;
  * `Cmd`      one simple command over any base stack, up to any terminator (continuation style);
  * `Seq`, `SeqGlue`, `Shift`   `;`-sequences, several lines (`posshifter`);
  * `Pipe`, `PipeGlue`   pipelines: `|` is right-nested on the stack (pending segments, unwinding);
  * `SeqOps`, `OpsGlue`  mixed `;`/`&&`/`||`: two stack shapes (flat, or `simple_list1 ;` under a group);
  * `PipeE`, `SeqPE`, `PEGlue`, `ShiftE`   pipelines as the elements of the lists;
  * `TokG`, `CmdG`, `PipeG`, `SeqPG`, `PGGlue`, `ShiftG`   general simple commands: the tokenizer on
               words with `=` (`tot_nextToken_gen`: assignment bookkeeping `_assignment_acceptable`),
               the item type `Item`, the run over the items (`g_items13`, `g_run13`), and the chain above
               over `GCmd`.  To add an item kind: extend `Item` and the `cases it` lemmas of `CmdG`.
  * `TokRedir`, `TokNum`  the tokenizer on `>`, `<`, `>>` and on digits directly before `>`/`<` (NUMBER);
               `CmdG.Elem` = item | `redir` | `nredir`; `CmdG.elem_step` (an element in state 13) and
               `CmdG.first_step` (the first element over the base) are the two places with one case per
               element kind.  `TokAmp`: groundwork for `&` (not used yet).
-/
import Bashlex.Props.C02.Glue
import Bashlex.Props.C02.SeqGlue
import Bashlex.Props.C02.Shift
import Bashlex.Props.C02.PipeGlue
import Bashlex.Props.C02.OpsGlue
import Bashlex.Props.C02.ShiftE
import Bashlex.Props.C02.ShiftG
import Bashlex.Props.C02.TokAmp

namespace Bashlex.C02
open Bashlex
set_option linter.unusedSimpArgs false
set_option linter.unusedVariables false

theorem nextIndex_cmdNode (i : Nat) (g1 w1 : Str) (items : List (Str × Str)) :
    nextIndex (cmdNode i g1 w1 items) = i + g1.length + w1.length + (spellI items).length := by
  unfold cmdNode
  rw [nextIndex_command (cmdNode_words i g1 w1 items)]
  exact endI_eq items _

theorem parseLoop_done (s : Str) (o : Opts) (fuel index : Nat) (parts : List Node) (t : List Char)
    (h : s.length ≤ index) : parseLoop s o (fuel + 1) index parts t = (.ok parts, t) := by
  rw [parseLoop, if_neg (Nat.not_lt.mpr h)]

/-- the round trip for a line without trailing blanks -/
theorem parse_line_notail {g1 w1 : Str} {items : List (Str × Str)} (o : Opts)
    (hg1 : Blank g1) (hw1 : PlainWord w1) (hnr : reservedFirstCommandChars.lookup w1 = none)
    (hi : ItemsOK items)
    (hsz : 3 * (lineText g1 w1 items []).length + 14 ≤ 1073741824) :
    (parse (lineText g1 w1 items []) o).1 = .parts [cmdNode 0 g1 w1 items] := by
  obtain ⟨t', hr⟩ := runParser_line o [] hg1 hw1 hnr hi (fun _ h => by cases h) hsz
  have hlen : (lineText g1 w1 items []).length = g1.length + w1.length + (spellI items).length := by
    simp [lineText]; omega
  unfold parse
  rw [hr]
  simp only [nextIndex_cmdNode, Nat.zero_add]
  rw [parseLoop_done _ _ _ _ _ _ (by rw [hlen]; omega)]

/-- **the round trip for a line of plain words**, leading and trailing blanks included: one part,
    the command node over the word nodes, every span exact — for all options -/
theorem parse_line {g1 w1 : Str} {items : List (Str × Str)} {tail : Str} (o : Opts)
    (hg1 : Blank g1) (hw1 : PlainWord w1) (hnr : reservedFirstCommandChars.lookup w1 = none)
    (hi : ItemsOK items) (htail : Blank tail)
    (hsz : 3 * (lineText g1 w1 items tail).length + 14 ≤ 1073741824) :
    (parse (lineText g1 w1 items tail) o).1 = .parts [cmdNode 0 g1 w1 items] := by
  obtain ⟨t', hr⟩ := runParser_line o [] hg1 hw1 hnr hi htail hsz
  have hw : 0 < w1.length := List.length_pos_iff.mpr hw1.1
  have hlen : (lineText g1 w1 items tail).length =
      g1.length + w1.length + (spellI items).length + tail.length := by
    simp [lineText]; omega
  unfold parse
  rw [hr]
  simp only [nextIndex_cmdNode, Nat.zero_add]
  have hmax : max (g1.length + w1.length + (spellI items).length) 1 =
      g1.length + w1.length + (spellI items).length := by omega
  rw [hmax]
  cases htl : tail with
  | nil =>
    subst htl
    rw [parseLoop_done _ _ _ _ _ _ (by rw [hlen]; simp)]
  | cons y tl =>
    rw [← htl]
    have hdrop : (lineText g1 w1 items tail).drop (g1.length + w1.length + (spellI items).length) =
        tail := by
      have : g1.length + w1.length + (spellI items).length = (g1 ++ w1 ++ spellI items).length := by
        simp; omega
      rw [this]
      exact List.drop_left' rfl
    obtain ⟨t'', hb⟩ := runParser_blank o t' (by rw [htl]; exact List.cons_ne_nil _ _) htail
      (by rw [hlen] at hsz; omega)
    rw [parseLoop, if_pos (by rw [hlen, htl]; simp), hdrop, hb]

/-! ## the statement in terms of words and gaps -/

/-- the spelling `w₁ gap₁ w₂ gap₂ … wₙ` (`gaps` are the `n − 1` separators) -/
def spell : List Str → List Str → Str
  | [], _ => []
  | w :: ws, gaps => w ++ spellI (gaps.zip ws)

/-- the expected word nodes, the first word starting at offset `off` -/
def wordNodes (off : Nat) : List Str → List Str → List Node
  | [], _ => []
  | w :: ws, gaps => Node.word (off, off + w.length) w [] :: nodesI (off + w.length) (gaps.zip ws)

/-- a separator: a non-empty run of blanks and tabs -/
def GapOK (g : Str) : Prop := g ≠ [] ∧ Blank g

instance (g : Str) : Decidable (GapOK g) := by unfold GapOK; exact inferInstance

/-- the first word is no reserved word (the model's own table `valid_reserved_first_command`) -/
def NotReserved (w : Str) : Prop := reservedFirstCommandChars.lookup w = none

instance (w : Str) : Decidable (NotReserved w) := by unfold NotReserved; exact inferInstance

/-- **C02, simple commands**: for every non-empty list of plain words whose first is no reserved
    word, every choice of separators (non-empty runs of blanks/tabs), every run of leading and of
    trailing blanks/tabs, and ALL options, `parse` returns exactly one part: the command node
    spanning from the first to the last word, over one part-less word node per word, each with its
    exact span and its text as value.
    (`hsz`: the model's loops run on the constant fuel 2^30; the implementation has no such bound.) -/
theorem C02_simple_roundtrip (ws gaps : List Str) (lead trail : Str) (o : Opts)
    (hws : ws ≠ []) (hp : ∀ w ∈ ws, PlainWord w) (hfirst : ∀ w, ws.head? = some w → NotReserved w)
    (hlen : gaps.length + 1 = ws.length) (hg : ∀ g ∈ gaps, GapOK g)
    (hlead : Blank lead) (htrail : Blank trail)
    (hsz : 3 * (lead ++ spell ws gaps ++ trail).length + 14 ≤ 1073741824) :
    (parse (lead ++ spell ws gaps ++ trail) o).1 =
      .parts [Node.command (lead.length, lead.length + (spell ws gaps).length)
        (wordNodes lead.length ws gaps)] := by
  cases ws with
  | nil => exact absurd rfl hws
  | cons w1 ws' =>
    have hi : ItemsOK (gaps.zip ws') := by
      intro it hit
      obtain ⟨g, w⟩ := it
      have := List.of_mem_zip hit
      exact ⟨hg g this.1, hp w (List.mem_cons_of_mem _ this.2)⟩
    have htext : lead ++ spell (w1 :: ws') gaps ++ trail = lineText lead w1 (gaps.zip ws') trail := by
      simp [spell, lineText]
    rw [htext] at hsz ⊢
    rw [parse_line o hlead (hp w1 (List.mem_cons_self ..)) (hfirst w1 rfl) hi htrail hsz]
    simp only [cmdNode, wordNodes, spell, Nat.zero_add, endI_eq, List.length_append]
    rw [Nat.add_assoc]

/-! ## sequences `c₁ ; c₂ ; … ; cₙ` -/

/-- from one parser run to `parse`: the node ends where the trailing blanks begin -/
theorem parse_of_run {s X LT : Str} {N : Node} (o : Opts)
    (hr : ∃ t', runParser s o [] = (.ok (some N), t')) (hidx : nextIndex N = X.length)
    (hs : s = X ++ LT) (hX : 1 ≤ X.length) (hLT : Blank LT) (hsz : LT.length + 3 ≤ 1073741824) :
    (parse s o).1 = .parts [N] := by
  obtain ⟨t', hr⟩ := hr
  have hlen : s.length = X.length + LT.length := by rw [hs]; simp
  unfold parse
  rw [hr]
  simp only [hidx]
  have hmax : max X.length 1 = X.length := by omega
  rw [hmax]
  cases htl : LT with
  | nil =>
    rw [parseLoop_done _ _ _ _ _ _ (by rw [hlen, htl]; simp)]
  | cons y tl =>
    have hdrop : s.drop X.length = LT := by rw [hs]; exact List.drop_left' rfl
    obtain ⟨t'', hb⟩ := runParser_blank o t' (by rw [htl]; exact List.cons_ne_nil _ _) hLT hsz
    rw [parseLoop, if_pos (by rw [hlen, htl]; simp), hdrop, hb]

/-- the trailing blanks of the last command -/
def lastTrail (t0 : Str) : List SCmd → Str
  | [] => t0
  | c :: cs => lastTrail c.trail cs

theorem lastTrail_blank : ∀ (cs : List SCmd) (t0 : Str), Blank t0 → (∀ c ∈ cs, c.OK) →
    Blank (lastTrail t0 cs)
  | [], _, h, _ => h
  | c :: cs, _, _, hcs =>
    lastTrail_blank cs c.trail (hcs c (List.mem_cons_self ..)).trail
      (fun x hx => hcs x (List.mem_cons_of_mem _ hx))

theorem lastTrail_length_le : ∀ (cs : List SCmd) (t0 : Str),
    (lastTrail t0 cs).length ≤ t0.length + (restText cs).length
  | [], _ => by simp [lastTrail, restText]
  | c :: cs, t0 => by
    have := lastTrail_length_le cs c.trail
    simp only [lastTrail, restText, List.length_cons, List.length_append, SCmd.text, lineText] at this ⊢
    omega

/-- the text splits into everything up to the end of the last word, and the last trailing blanks -/
theorem seq_split : ∀ (cs : List SCmd) (pre t0 : Str) (e a : Nat), pre.length = e →
    e + t0.length = a →
    ∃ X, pre ++ t0 ++ restText cs = X ++ lastTrail t0 cs ∧ X.length = lastEnd e a cs
  | [], pre, t0, e, a, he, _ => ⟨pre, by simp [restText, lastTrail], by simpa [lastEnd] using he⟩
  | c :: cs, pre, t0, e, a, he, ha => by
    obtain ⟨X, hX, hXl⟩ := seq_split cs (pre ++ t0 ++ [';'] ++ c.lead ++ c.w1 ++ spellI c.items) c.trail
      (c.endPos (a + 1)) (a + 1 + c.text.length)
      (by simp only [SCmd.endPos, endI_eq, List.length_append, List.length_cons, List.length_nil]; omega)
      (endPos_trail c (a + 1))
    refine ⟨X, ?_, by simpa [lastEnd] using hXl⟩
    show pre ++ t0 ++ restText (c :: cs) = X ++ lastTrail c.trail cs
    rw [← hX]
    simp [restText, SCmd.text, lineText]

theorem lastEnd_pos : ∀ (cs : List SCmd) (e a : Nat), 1 ≤ e → 1 ≤ lastEnd e a cs
  | [], _, _, h => h
  | c :: cs, _, a, _ => lastEnd_pos cs _ _ (by simp only [SCmd.endPos, endI_eq]; omega)

theorem cost_le : ∀ (cs : List SCmd), (∀ c ∈ cs, c.OK) → cost cs ≤ 5 * (restText cs).length + 4
  | [], _ => by simp [cost, restText]
  | c :: cs, h => by
    have hc := h c (List.mem_cons_self ..)
    have ih := cost_le cs (fun x hx => h x (List.mem_cons_of_mem _ hx))
    have h1 := spellI_length c.items hc.items
    have hw : 0 < c.w1.length := List.length_pos_iff.mpr hc.w1.1
    simp only [cost, restText, List.length_cons, List.length_append, SCmd.text, lineText]
    omega

/-- **C02, sequences**: for every `n ≥ 2` simple commands of plain words (first words no reserved
    words), every spelling with blanks/tabs between the words, around the `;` and at both ends,
    and ALL options, `parse` returns exactly one part: the list node from the first word of the
    first command to the last word of the last, over `cmd₁, operator ";", cmd₂, …` with exact spans. -/
theorem C02_seq_roundtrip (c1 : SCmd) (cs : List SCmd) (o : Opts)
    (hc1 : c1.OK) (hcs : ∀ c ∈ cs, c.OK) (hne : cs ≠ [])
    (hsz : 5 * (seqText c1 cs).length + 20 ≤ 1073741824) :
    (parse (seqText c1 cs) o).1 = .parts [seqNode 0 c1 cs] := by
  have hw : 0 < c1.w1.length := List.length_pos_iff.mpr hc1.w1.1
  have hcost := cost_le cs hcs
  have h1 := spellI_length c1.items hc1.items
  have hlenT : (seqText c1 cs).length = c1.lead.length + c1.w1.length + (spellI c1.items).length +
      c1.trail.length + (restText cs).length := by
    simp [seqText, SCmd.text, lineText]; omega
  obtain ⟨X, hX, hXl⟩ := seq_split cs (c1.lead ++ c1.w1 ++ spellI c1.items) c1.trail
    (c1.endPos 0) (0 + c1.text.length)
    (by simp only [SCmd.endPos, endI_eq, List.length_append]; omega) (endPos_trail c1 0)
  have hLTlen := lastTrail_length_le cs c1.trail
  refine parse_of_run (X := X) (LT := lastTrail c1.trail cs) (N := seqNode 0 c1 cs) o
    (by rw [← lineNode_of_ne 0 c1 hne]; exact runParser_seq o [] hc1 hcs (by omega) (by omega))
    ?_ ?_ ?_
    (lastTrail_blank cs _ hc1.trail hcs) (by omega)
  · unfold seqNode
    rw [nextIndex_list (seqNodes_allSeq c1 cs 0 _), hXl]
  · rw [← hX]; simp [seqText, SCmd.text, lineText]
  · rw [hXl]
    exact lastEnd_pos cs _ _ (by simp only [SCmd.endPos, endI_eq]; omega)

/-! ## several lines: newline-separated lines `c₁ ; … ; cₙ` (n ≥ 1 each), several parts -/

theorem ofInput_idx (S : Str) : (Tape.ofInput S).idx = 0 := by
  unfold Tape.ofInput
  split
  · rfl
  · split <;> rfl

/-- the tape of an input that continues with nothing or with a newline after `A` -/
theorem line_shape {S A R : Str} (hS : S = A ++ R) (hR : R = [] ∨ ∃ nlr, R = '\n' :: nlr)
    {c : Char} (hA : A.getLast? = some c) (hc : c ≠ '\n') :
    ∃ L adn nlr', Tape.ofInput S = ⟨L, 0, adn⟩ ∧ L = A ++ '\n' :: nlr' ∧ L.length ≤ S.length + 1 := by
  have hc' : (c == '\n') = false := by simpa using hc
  rcases hR with rfl | ⟨nlr, rfl⟩
  · simp only [List.append_nil] at hS
    subst hS
    refine ⟨S ++ ['\n'], true, [], ?_, rfl, by simp⟩
    unfold Tape.ofInput
    simp only [hA, hc', Bool.false_eq_true, if_false]
  · subst hS
    cases hl : (A ++ '\n' :: nlr).getLast? with
    | none => simp [List.getLast?_eq_none_iff] at hl
    | some d =>
      by_cases hd : (d == '\n') = true
      · refine ⟨A ++ '\n' :: nlr, false, nlr, ?_, rfl, by omega⟩
        unfold Tape.ofInput
        simp only [hl, hd, if_true]
      · have hd' : (d == '\n') = false := by simpa using hd
        refine ⟨A ++ '\n' :: nlr ++ ['\n'], true, nlr ++ ['\n'], ?_, by simp, by simp; omega⟩
        unfold Tape.ofInput
        simp only [hl, hd', Bool.false_eq_true, if_false]

/-- from `_parser.parse()` to one top-level parser run -/
theorem runParser_of_tot {S : Str} {o : Opts} {t : List Char} {N : Option Node} {L : Str} {adn : Bool}
    (hof : Tape.ofInput S = ⟨L, 0, adn⟩)
    (h : Tot (parserRun (63 + 1)) { limit := o.limit } ⟨L, 0, adn⟩ (fun r _ _ => r = N)) :
    ∃ t', runParser S o t = (.ok N, t') := by
  obtain ⟨a, l', e', hrun, ha⟩ := h.elim
    { tape := Tape.ofInput S, strict := o.strict, proceed := o.proceed, touched := t } hof
  refine ⟨e'.touched, ?_⟩
  have hrun' : (parserRun maxDepth).run { limit := o.limit }
      { tape := Tape.ofInput S, strict := o.strict, proceed := o.proceed, touched := t } =
      (.ok (a, l'), e') := hrun
  unfold runParser
  simp only [hrun', ha]
  rfl

/-- a line: `c₁ ; … ; cₙ`, n ≥ 1 -/
abbrev Line := SCmd × List SCmd
def Line.text (ln : Line) : Str := seqText ln.1 ln.2
def Line.OK (ln : Line) : Prop := ln.1.OK ∧ ∀ c ∈ ln.2, c.OK
instance (ln : Line) : Decidable ln.OK := by unfold Line.OK; exact inferInstance
/-- its AST when its text starts at offset `off`: the command node (n = 1) or the list node -/
def Line.node (off : Nat) (ln : Line) : Node := lineNode off ln.1 ln.2

theorem Line.text_noNL {ln : Line} (h : ln.OK) : ∀ x ∈ ln.text, x ≠ '\n' := by
  intro x hx
  simp only [Line.text, seqText, List.mem_append] at hx
  rcases hx with hx | hx
  · exact lineText_noNL h.1.lead h.1.w1 h.1.items h.1.trail x hx
  · exact restText_noNL ln.2 h.2 x hx

theorem Line.text_pos {ln : Line} (h : ln.OK) : 0 < ln.text.length := by
  have hw : 0 < ln.1.w1.length := List.length_pos_iff.mpr h.1.w1.1
  simp [Line.text, seqText, SCmd.text, lineText]; omega

theorem Line.last {ln : Line} (h : ln.OK) (P : Str) :
    ∃ c, (P ++ ln.text).getLast? = some c ∧ c ≠ '\n' := by
  have hne : ln.text ≠ [] := List.length_pos_iff.mp (Line.text_pos h)
  rw [List.getLast?_append]
  cases hl : ln.text.getLast? with
  | none => simp [List.getLast?_eq_none_iff] at hl; exact absurd hl hne
  | some c => exact ⟨c, by simp, Line.text_noNL h c (List.mem_of_getLast? hl)⟩

theorem Line.cost {ln : Line} (h : ln.OK) :
    cost ln.2 + (3 * ln.1.items.length + 6) + 2 ≤ 5 * ln.text.length + 12 := by
  have hcost := cost_le ln.2 h.2
  have h1 := spellI_length ln.1.items h.1.items
  have hw : 0 < ln.1.w1.length := List.length_pos_iff.mpr h.1.w1.1
  simp only [Line.text, seqText, SCmd.text, lineText, List.length_append]
  omega

/-- one parser run on `line ++ R`, `R` empty or starting with a newline -/
theorem runParser_lineG {ln : Line} {R S : Str} (o : Opts) (t : List Char) (h : ln.OK)
    (hS : S = ln.text ++ R) (hR : R = [] ∨ ∃ nlr, R = '\n' :: nlr)
    (hsz : 5 * S.length + 20 ≤ 1073741824) :
    ∃ t', runParser S o t = (.ok (some (ln.node 0)), t') := by
  obtain ⟨c, hc1, hc2⟩ := Line.last h []
  obtain ⟨L, adn, nlr', hof, hL, hLl⟩ := line_shape (A := ln.text) hS hR (by simpa using hc1) hc2
  have hlen : ln.text.length ≤ S.length := by rw [hS]; simp
  refine runParser_of_tot hof ?_
  refine tot_parserRun_seq (nlr := nlr') (by omega) h.1 h.2 (initial_POK _) rfl ?_
    (by have := Line.cost h; omega)
  rw [hL]; simp [Line.text, seqText]

/-- one parser run on `pre ++ "\n" ++ line ++ R` -/
theorem runParser_lineG_nl {ln : Line} {R S pre : Str} (o : Opts) (t : List Char) (h : ln.OK)
    (hpre : Blank pre) (hS : S = pre ++ '\n' :: (ln.text ++ R))
    (hR : R = [] ∨ ∃ nlr, R = '\n' :: nlr) (hsz : 5 * S.length + 20 ≤ 1073741824) :
    ∃ t', runParser S o t = (.ok (some (ln.node (pre.length + 1))), t') := by
  obtain ⟨c, hc1, hc2⟩ := Line.last h (pre ++ ['\n'])
  have hS' : S = (pre ++ ['\n'] ++ ln.text) ++ R := by rw [hS]; simp
  obtain ⟨L, adn, nlr', hof, hL, hLl⟩ := line_shape hS' hR hc1 hc2
  have hlen : ln.text.length ≤ S.length := by rw [hS]; simp; omega
  refine runParser_of_tot hof ?_
  have := tot_parserRun_seq_nl (L := L) (adn := adn) (i := 0) (d := 63) (nlr := nlr') (pre := pre)
    (l := { limit := o.limit }) (by omega) h.1 h.2 (initial_POK _) rfl hpre
    (by rw [hL]; simp [Line.text, seqText]) (by have := Line.cost h; omega)
  simpa [Line.node] using this

theorem ofInput_endsNL (S : Str) : Tape.ofInput (S ++ ['\n']) = ⟨S ++ ['\n'], 0, false⟩ := by
  unfold Tape.ofInput
  simp

/-- one parser run on trailing blanks, with or without a final newline -/
theorem runParser_blankG {tail S : Str} (o : Opts) (t : List Char) (htail : Blank tail)
    (hS : (S = tail ∧ tail ≠ []) ∨ S = tail ++ ['\n']) (hsz : S.length + 3 ≤ 1073741824) :
    ∃ t', runParser S o t = (.ok none, t') := by
  rcases hS with ⟨rfl, hne⟩ | rfl
  · exact runParser_blank o t hne htail hsz
  · refine runParser_of_tot (ofInput_endsNL tail) ?_
    exact tot_parserRun_blank htail (by simp at hsz ⊢; omega) (initial_POK _).wok (by simp)

/-- the text after the first line: `"\n" line₂ "\n" line₃ …`, with or without a final newline -/
def moreText (fin : Bool) : List Line → Str
  | [] => if fin then ['\n'] else []
  | ln :: lns => '\n' :: (ln.text ++ moreText fin lns)

/-- the expected parts, the first line starting at offset `off` -/
def partsOf (off : Nat) : List Line → List Node
  | [] => []
  | ln :: lns => ln.node off :: partsOf (off + ln.text.length + 1) lns

theorem moreText_shape (fin : Bool) (lns : List Line) :
    moreText fin lns = [] ∨ ∃ nlr, moreText fin lns = '\n' :: nlr := by
  cases lns with
  | nil => cases fin <;> simp [moreText]
  | cons ln lns => exact Or.inr ⟨_, rfl⟩

theorem moreText_length (fin : Bool) : ∀ (lns : List Line), lns.length ≤ (moreText fin lns).length
  | [] => by simp
  | ln :: lns => by
    have := moreText_length fin lns
    simp only [moreText, List.length_cons, List.length_append]; omega

/-- a line splits into everything up to the end of its last word, and its last trailing blanks -/
theorem Line.split (ln : Line) (h : ln.OK) :
    ∃ X LT, ln.text = X ++ LT ∧ Blank LT ∧ 1 ≤ X.length ∧
      ∀ off, nextIndex (ln.node off) = off + X.length := by
  have hw : 0 < ln.1.w1.length := List.length_pos_iff.mpr h.1.w1.1
  obtain ⟨X, hX, hXl⟩ := seq_split ln.2 (ln.1.lead ++ ln.1.w1 ++ spellI ln.1.items) ln.1.trail
    (ln.1.endPos 0) (0 + ln.1.text.length)
    (by simp only [SCmd.endPos, endI_eq, List.length_append]; omega) (endPos_trail ln.1 0)
  refine ⟨X, lastTrail ln.1.trail ln.2, ?_, lastTrail_blank ln.2 _ h.1.trail h.2, ?_, ?_⟩
  · rw [← hX]; simp [Line.text, seqText, SCmd.text, lineText]
  · rw [hXl]; exact lastEnd_pos ln.2 _ _ (by simp only [SCmd.endPos, endI_eq]; omega)
  · intro off
    rw [Line.node, nextIndex_lineNode, hXl]
    have := lastEnd_shift off ln.2 (ln.1.endPos 0) (0 + ln.1.text.length)
    have e1 : ln.1.endPos off = ln.1.endPos 0 + off := by rw [← endPos_shift]; simp
    have e2 : off + ln.1.text.length = 0 + ln.1.text.length + off := by omega
    rw [e1, e2, this]
    omega


/-- **the loop of `parse`** over the remaining lines: `index` stands at the end of the last word of
    the previous line -/
theorem loop_lines (s : Str) (o : Opts) (fin : Bool) (hsz : 5 * s.length + 20 ≤ 1073741824) :
    ∀ (lns : List Line) (index fuel : Nat) (parts : List Node) (t : List Char) (trail : Str),
      (∀ ln ∈ lns, ln.OK) → Blank trail → s.drop index = trail ++ moreText fin lns →
      lns.length + 2 ≤ fuel →
      ∃ t', parseLoop s o fuel index parts t =
        (.ok (parts ++ partsOf (index + trail.length + 1) lns), t') := by
  intro lns
  induction lns with
  | nil =>
    intro index fuel parts t trail _ htrail hdrop hf
    obtain ⟨f, rfl⟩ : ∃ f, fuel = f + 1 := ⟨fuel - 1, by omega⟩
    have hdl : (s.drop index).length ≤ s.length := by rw [List.length_drop]; omega
    by_cases hlt : index < s.length
    · have hne : s.drop index ≠ [] := by
        intro h0
        have := List.drop_eq_nil_iff.mp h0
        omega
      have hb : ∃ t', runParser (s.drop index) o t = (.ok none, t') := by
        refine runParser_blankG (tail := trail) o t htrail ?_ (by omega)
        rw [hdrop] at hne ⊢
        cases fin with
        | true => exact Or.inr (by simp [moreText])
        | false =>
          refine Or.inl ⟨by simp [moreText], ?_⟩
          simpa [moreText] using hne
      obtain ⟨t', hb⟩ := hb
      refine ⟨t', ?_⟩
      rw [parseLoop, if_pos hlt, hb]
      simp [partsOf]
    · refine ⟨t, ?_⟩
      rw [parseLoop_done _ _ _ _ _ _ (by omega)]
      simp [partsOf]
  | cons ln lns ih =>
    intro index fuel parts t trail hok htrail hdrop hf
    obtain ⟨f, rfl⟩ : ∃ f, fuel = f + 1 := ⟨fuel - 1, by omega⟩
    have hln := hok ln (List.mem_cons_self ..)
    have hok' : ∀ x ∈ lns, x.OK := fun x hx => hok x (List.mem_cons_of_mem _ hx)
    have hdl : (s.drop index).length = s.length - index := List.length_drop
    have hlt : index < s.length := by
      have : 0 < (s.drop index).length := by rw [hdrop]; simp [moreText]; omega
      omega
    obtain ⟨t', hr⟩ := runParser_lineG_nl (S := s.drop index) (R := moreText fin lns) o t hln htrail
      (by rw [hdrop]; simp [moreText]) (moreText_shape fin lns) (by omega)
    obtain ⟨X, LT, hsplit, hLT, hX1, hni⟩ := Line.split ln hln
    have hshift : (ln.node (trail.length + 1)).shift index = ln.node (index + trail.length + 1) := by
      rw [Line.node, lineNode_shift, Line.node]
      congr 1; omega
    have hnext : max (nextIndex (ln.node (index + trail.length + 1))) (index + 1) =
        index + trail.length + 1 + X.length := by
      rw [hni]; omega
    have hdrop' : s.drop (index + trail.length + 1 + X.length) = LT ++ moreText fin lns := by
      have e : index + trail.length + 1 + X.length = index + (trail ++ '\n' :: X).length := by
        simp; omega
      rw [e, ← List.drop_drop, hdrop]
      have : trail ++ moreText fin (ln :: lns) = (trail ++ '\n' :: X) ++ (LT ++ moreText fin lns) := by
        simp [moreText, hsplit]
      rw [this]
      exact List.drop_left' rfl
    obtain ⟨t'', hih⟩ := ih (index + trail.length + 1 + X.length) f
      (parts ++ [ln.node (index + trail.length + 1)]) t' LT hok' hLT hdrop' (by simp at hf; omega)
    refine ⟨t'', ?_⟩
    rw [parseLoop, if_pos hlt, hr]
    simp only [hshift, hnext, hih]
    have e2 : index + trail.length + 1 + X.length + LT.length + 1 =
        index + trail.length + 1 + ln.text.length + 1 := by rw [hsplit]; simp; omega
    simp [partsOf, e2]

/-- the text of several lines -/
def linesText (fin : Bool) (ln1 : Line) (lns : List Line) : Str := ln1.text ++ moreText fin lns

/-- **C02, several lines**: newline-separated lines, each a sequence `c₁ ; … ; cₙ` (n ≥ 1) of
    simple commands of plain words, with or without a final newline: `parse` returns one part per
    line — the command node or the list node of that line, at its absolute offset — for ALL options. -/
theorem C02_lines_roundtrip (ln1 : Line) (lns : List Line) (fin : Bool) (o : Opts)
    (h1 : ln1.OK) (hl : ∀ ln ∈ lns, ln.OK)
    (hsz : 5 * (linesText fin ln1 lns).length + 20 ≤ 1073741824) :
    (parse (linesText fin ln1 lns) o).1 = .parts (partsOf 0 (ln1 :: lns)) := by
  obtain ⟨t1, hr⟩ := runParser_lineG (S := linesText fin ln1 lns) (R := moreText fin lns) o [] h1 rfl
    (moreText_shape fin lns) hsz
  obtain ⟨X, LT, hsplit, hLT, hX1, hni⟩ := Line.split ln1 h1
  have hdrop : (linesText fin ln1 lns).drop X.length = LT ++ moreText fin lns := by
    have : linesText fin ln1 lns = X ++ (LT ++ moreText fin lns) := by
      simp [linesText, hsplit]
    rw [this]
    exact List.drop_left' rfl
  have hlen : lns.length + 2 ≤ (linesText fin ln1 lns).length + 1 := by
    have := moreText_length fin lns
    have := Line.text_pos h1
    simp only [linesText, List.length_append]; omega
  obtain ⟨t2, hloop⟩ := loop_lines (linesText fin ln1 lns) o fin hsz lns X.length
    ((linesText fin ln1 lns).length + 1) [ln1.node 0] t1 LT hl hLT hdrop hlen
  unfold parse
  rw [hr]
  simp only [hni, Nat.zero_add]
  have hmax : max X.length 1 = X.length := by omega
  rw [hmax, hloop]
  have e2 : X.length + LT.length + 1 = 0 + ln1.text.length + 1 := by rw [hsplit]; simp
  simp [partsOf, e2]

/-! ## pipelines `c₁ | c₂ | … | cₙ` -/

theorem pipe_split : ∀ (cs : List SCmd) (pre t0 : Str) (e a : Nat), pre.length = e →
    e + t0.length = a →
    ∃ X, pre ++ t0 ++ prestText cs = X ++ lastTrail t0 cs ∧ X.length = lastEnd e a cs
  | [], pre, t0, e, a, he, _ => ⟨pre, by simp [prestText, lastTrail], by simpa [lastEnd] using he⟩
  | c :: cs, pre, t0, e, a, he, ha => by
    obtain ⟨X, hX, hXl⟩ := pipe_split cs (pre ++ t0 ++ ['|'] ++ c.lead ++ c.w1 ++ spellI c.items) c.trail
      (c.endPos (a + 1)) (a + 1 + c.text.length)
      (by simp only [SCmd.endPos, endI_eq, List.length_append, List.length_cons, List.length_nil]; omega)
      (endPos_trail c (a + 1))
    refine ⟨X, ?_, by simpa [lastEnd] using hXl⟩
    show pre ++ t0 ++ prestText (c :: cs) = X ++ lastTrail c.trail cs
    rw [← hX]
    simp [prestText, SCmd.text, lineText]

theorem lastTrail_length_leP : ∀ (cs : List SCmd) (t0 : Str),
    (lastTrail t0 cs).length ≤ t0.length + (prestText cs).length
  | [], _ => by simp [lastTrail, prestText]
  | c :: cs, t0 => by
    have := lastTrail_length_leP cs c.trail
    simp only [lastTrail, prestText, List.length_cons, List.length_append, SCmd.text, lineText] at this ⊢
    omega

theorem pcost_le : ∀ (cs : List SCmd) (k : Nat), (∀ c ∈ cs, c.OK) →
    pcost k cs ≤ 5 * (prestText cs).length + k + 6
  | [], k, _ => by simp [pcost, prestText]
  | c :: cs, k, h => by
    have hc := h c (List.mem_cons_self ..)
    have ih := pcost_le cs (k + 1) (fun x hx => h x (List.mem_cons_of_mem _ hx))
    have h1 := spellI_length c.items hc.items
    have hw : 0 < c.w1.length := List.length_pos_iff.mpr hc.w1.1
    simp only [pcost, prestText, List.length_cons, List.length_append, SCmd.text, lineText]
    omega

/-- **C02, pipelines**: for every `n ≥ 2` simple commands of plain words (first words no reserved
    words), every spelling with blanks/tabs between the words, around the `|` and at both ends,
    and ALL options, `parse` returns exactly one part: the pipeline node from the first word of the
    first command to the last word of the last, over `cmd₁, pipe "|", cmd₂, …` with exact spans. -/
theorem C02_pipeline_roundtrip (c1 : SCmd) (cs : List SCmd) (o : Opts)
    (hc1 : c1.OK) (hcs : ∀ c ∈ cs, c.OK) (hne : cs ≠ [])
    (hsz : 5 * (pipeText c1 cs).length + 20 ≤ 1073741824) :
    (parse (pipeText c1 cs) o).1 = .parts [pipeNode 0 c1 cs] := by
  have hw : 0 < c1.w1.length := List.length_pos_iff.mpr hc1.w1.1
  have hcost := pcost_le cs 0 hcs
  have h1 := spellI_length c1.items hc1.items
  have hlenT : (pipeText c1 cs).length = c1.lead.length + c1.w1.length + (spellI c1.items).length +
      c1.trail.length + (prestText cs).length := by
    simp [pipeText, SCmd.text, lineText]; omega
  obtain ⟨X, hX, hXl⟩ := pipe_split cs (c1.lead ++ c1.w1 ++ spellI c1.items) c1.trail
    (c1.endPos 0) (0 + c1.text.length)
    (by simp only [SCmd.endPos, endI_eq, List.length_append]; omega) (endPos_trail c1 0)
  have hLTlen := lastTrail_length_leP cs c1.trail
  refine parse_of_run (X := X) (LT := lastTrail c1.trail cs) (N := pipeNode 0 c1 cs) o
    (runParser_pipe o [] hc1 hcs hne (by omega) (by omega)) ?_ ?_ ?_
    (lastTrail_blank cs _ hc1.trail hcs) (by omega)
  · rw [nextIndex_pipeNode, hXl]
  · rw [← hX]; simp [pipeText, SCmd.text, lineText]
  · rw [hXl]
    exact lastEnd_pos cs _ _ (by simp only [SCmd.endPos, endI_eq]; omega)

/-! ## sequences with mixed operators `;`, `&&`, `||` -/

def olastTrail (t0 : Str) : List (Op × SCmd) → Str
  | [] => t0
  | (_, c) :: cs => olastTrail c.trail cs

theorem olastTrail_blank : ∀ (cs : List (Op × SCmd)) (t0 : Str), Blank t0 → (∀ x ∈ cs, x.2.OK) →
    Blank (olastTrail t0 cs)
  | [], _, h, _ => h
  | (o, c) :: cs, _, _, hcs =>
    olastTrail_blank cs c.trail (hcs (o, c) (List.mem_cons_self ..)).trail
      (fun x hx => hcs x (List.mem_cons_of_mem _ hx))

theorem olastTrail_length_le : ∀ (cs : List (Op × SCmd)) (t0 : Str),
    (olastTrail t0 cs).length ≤ t0.length + (orestText cs).length
  | [], _ => by simp [olastTrail, orestText]
  | (o, c) :: cs, t0 => by
    have := olastTrail_length_le cs c.trail
    simp only [olastTrail, orestText, List.length_cons, List.length_append, SCmd.text, lineText] at this ⊢
    omega

theorem ops_split : ∀ (cs : List (Op × SCmd)) (pre t0 : Str) (e a : Nat), pre.length = e →
    e + t0.length = a →
    ∃ X, pre ++ t0 ++ orestText cs = X ++ olastTrail t0 cs ∧ X.length = olastEnd e a cs
  | [], pre, t0, e, a, he, _ => ⟨pre, by simp [orestText, olastTrail], by simpa [olastEnd] using he⟩
  | (o, c) :: cs, pre, t0, e, a, he, ha => by
    obtain ⟨X, hX, hXl⟩ := ops_split cs (pre ++ t0 ++ o.txt ++ c.lead ++ c.w1 ++ spellI c.items) c.trail
      (c.endPos (a + o.txt.length)) (a + o.txt.length + c.text.length)
      (by simp only [SCmd.endPos, endI_eq, List.length_append]; omega)
      (endPos_trail c (a + o.txt.length))
    refine ⟨X, ?_, by simpa [olastEnd] using hXl⟩
    show pre ++ t0 ++ orestText ((o, c) :: cs) = X ++ olastTrail c.trail cs
    rw [← hX]
    simp [orestText, SCmd.text, lineText]

theorem olastEnd_pos : ∀ (cs : List (Op × SCmd)) (e a : Nat), 1 ≤ e → 1 ≤ olastEnd e a cs
  | [], _, _, h => h
  | (o, c) :: cs, _, a, _ =>
    olastEnd_pos cs _ _ (by have := Op.txt_pos o; simp only [SCmd.endPos, endI_eq]; omega)

theorem ocost_le : ∀ (cs : List (Op × SCmd)) (k : Nat), k ≤ 1 → (∀ x ∈ cs, x.2.OK) →
    ocost k cs ≤ 5 * (orestText cs).length + k + 4
  | [], k, _, _ => by simp [ocost, orestText]
  | (o, c) :: cs, k, hk, h => by
    have hc := h (o, c) (List.mem_cons_self ..)
    have ih1 := ocost_le cs 1 (Nat.le_refl _) (fun x hx => h x (List.mem_cons_of_mem _ hx))
    have ihk := ocost_le cs k hk (fun x hx => h x (List.mem_cons_of_mem _ hx))
    have h1 := spellI_length c.items hc.items
    have hw : 0 < c.w1.length := List.length_pos_iff.mpr hc.w1.1
    have ho := Op.txt_pos o
    cases o <;>
      simp only [ocost, orestText, List.length_cons, List.length_append, SCmd.text, lineText, Op.txt,
        List.length_nil] at * <;> omega

/-- **C02, sequences with `;`, `&&`, `||`**: for every `n ≥ 2` simple commands of plain words
    (first words no reserved words) joined by ANY mix of the operators `;`, `&&`, `||`, every
    spelling with blanks/tabs between the words, around the operators and at both ends, and ALL
    options, `parse` returns exactly one part: ONE flat list node over
    `cmd₁, operator op₂, cmd₂, …` with exact spans (the precedence of `&&`/`||` over `;` shows only in
    the engine's run, not in the AST). -/
theorem C02_andor_roundtrip (c1 : SCmd) (cs : List (Op × SCmd)) (o : Opts)
    (hc1 : c1.OK) (hcs : ∀ x ∈ cs, x.2.OK) (hne : cs ≠ [])
    (hsz : 5 * (opsText c1 cs).length + 20 ≤ 1073741824) :
    (parse (opsText c1 cs) o).1 = .parts [opsNode 0 c1 cs] := by
  have hw : 0 < c1.w1.length := List.length_pos_iff.mpr hc1.w1.1
  have hcost := ocost_le cs 0 (Nat.zero_le _) hcs
  have h1 := spellI_length c1.items hc1.items
  have hlenT : (opsText c1 cs).length = c1.lead.length + c1.w1.length + (spellI c1.items).length +
      c1.trail.length + (orestText cs).length := by
    simp [opsText, SCmd.text, lineText]; omega
  obtain ⟨X, hX, hXl⟩ := ops_split cs (c1.lead ++ c1.w1 ++ spellI c1.items) c1.trail
    (c1.endPos 0) (0 + c1.text.length)
    (by simp only [SCmd.endPos, endI_eq, List.length_append]; omega) (endPos_trail c1 0)
  have hLTlen := olastTrail_length_le cs c1.trail
  refine parse_of_run (X := X) (LT := olastTrail c1.trail cs) (N := opsNode 0 c1 cs) o
    (runParser_ops o [] hc1 hcs hne (by omega) (by omega)) ?_ ?_ ?_
    (olastTrail_blank cs _ hc1.trail hcs) (by omega)
  · rw [nextIndex_opsNode, hXl]
  · rw [← hX]; simp [opsText, SCmd.text, lineText]
  · rw [hXl]
    exact olastEnd_pos cs _ _ (by simp only [SCmd.endPos, endI_eq]; omega)

/-! ## several lines with mixed operators -/

/-- a line with mixed operators: `c₁ op₂ c₂ …`, n ≥ 1, opᵢ ∈ {`;`, `&&`, `||`} -/
abbrev OLine := SCmd × List (Op × SCmd)
def OLine.text (ln : OLine) : Str := opsText ln.1 ln.2
def OLine.OK (ln : OLine) : Prop := ln.1.OK ∧ ∀ x ∈ ln.2, x.2.OK
instance (ln : OLine) : Decidable ln.OK := by unfold OLine.OK; exact inferInstance
/-- its AST when its text starts at offset `off`: the command node (n = 1) or the list node -/
def OLine.node (off : Nat) (ln : OLine) : Node := olineNode off ln.1 ln.2

theorem OLine.text_noNL {ln : OLine} (h : ln.OK) : ∀ x ∈ ln.text, x ≠ '\n' := by
  intro x hx
  simp only [OLine.text, opsText, List.mem_append] at hx
  rcases hx with hx | hx
  · exact lineText_noNL h.1.lead h.1.w1 h.1.items h.1.trail x hx
  · exact orestText_noNL ln.2 h.2 x hx

theorem OLine.text_pos {ln : OLine} (h : ln.OK) : 0 < ln.text.length := by
  have hw : 0 < ln.1.w1.length := List.length_pos_iff.mpr h.1.w1.1
  simp [OLine.text, opsText, SCmd.text, lineText]; omega

theorem OLine.last {ln : OLine} (h : ln.OK) (P : Str) :
    ∃ c, (P ++ ln.text).getLast? = some c ∧ c ≠ '\n' := by
  have hne : ln.text ≠ [] := List.length_pos_iff.mp (OLine.text_pos h)
  rw [List.getLast?_append]
  cases hl : ln.text.getLast? with
  | none => simp [List.getLast?_eq_none_iff] at hl; exact absurd hl hne
  | some c => exact ⟨c, by simp, OLine.text_noNL h c (List.mem_of_getLast? hl)⟩

theorem OLine.cost {ln : OLine} (h : ln.OK) :
    ocost 0 ln.2 + (3 * ln.1.items.length + 6) + 2 ≤ 5 * ln.text.length + 12 := by
  have hcost := ocost_le ln.2 0 (Nat.zero_le _) h.2
  have h1 := spellI_length ln.1.items h.1.items
  have hw : 0 < ln.1.w1.length := List.length_pos_iff.mpr h.1.w1.1
  simp only [OLine.text, opsText, SCmd.text, lineText, List.length_append]
  omega

/-- one parser run on `line ++ R`, `R` empty or starting with a newline -/
theorem runParser_olineG {ln : OLine} {R S : Str} (o : Opts) (t : List Char) (h : ln.OK)
    (hS : S = ln.text ++ R) (hR : R = [] ∨ ∃ nlr, R = '\n' :: nlr)
    (hsz : 5 * S.length + 20 ≤ 1073741824) :
    ∃ t', runParser S o t = (.ok (some (ln.node 0)), t') := by
  obtain ⟨c, hc1, hc2⟩ := OLine.last h []
  obtain ⟨L, adn, nlr', hof, hL, hLl⟩ := line_shape (A := ln.text) hS hR (by simpa using hc1) hc2
  have hlen : ln.text.length ≤ S.length := by rw [hS]; simp
  refine runParser_of_tot hof ?_
  refine tot_parserRun_opsG (nlr := nlr') (by omega) h.1 h.2 (initial_POK _) rfl ?_
    (by have := OLine.cost h; omega)
  rw [hL]; simp [OLine.text, opsText]

/-- one parser run on `pre ++ "\n" ++ line ++ R` -/
theorem runParser_olineG_nl {ln : OLine} {R S pre : Str} (o : Opts) (t : List Char) (h : ln.OK)
    (hpre : Blank pre) (hS : S = pre ++ '\n' :: (ln.text ++ R))
    (hR : R = [] ∨ ∃ nlr, R = '\n' :: nlr) (hsz : 5 * S.length + 20 ≤ 1073741824) :
    ∃ t', runParser S o t = (.ok (some (ln.node (pre.length + 1))), t') := by
  obtain ⟨c, hc1, hc2⟩ := OLine.last h (pre ++ ['\n'])
  have hS' : S = (pre ++ ['\n'] ++ ln.text) ++ R := by rw [hS]; simp
  obtain ⟨L, adn, nlr', hof, hL, hLl⟩ := line_shape hS' hR hc1 hc2
  have hlen : ln.text.length ≤ S.length := by rw [hS]; simp; omega
  refine runParser_of_tot hof ?_
  have := tot_parserRun_opsG_nl (L := L) (adn := adn) (i := 0) (d := 63) (nlr := nlr') (pre := pre)
    (l := { limit := o.limit }) (by omega) h.1 h.2 (initial_POK _) rfl hpre
    (by rw [hL]; simp [OLine.text, opsText]) (by have := OLine.cost h; omega)
  simpa [OLine.node] using this

/-- the text after the first line: `"\n" line₂ "\n" line₃ …`, with or without a final newline -/
def omoreText (fin : Bool) : List OLine → Str
  | [] => if fin then ['\n'] else []
  | ln :: lns => '\n' :: (ln.text ++ omoreText fin lns)

/-- the expected parts, the first line starting at offset `off` -/
def opartsOf (off : Nat) : List OLine → List Node
  | [] => []
  | ln :: lns => ln.node off :: opartsOf (off + ln.text.length + 1) lns

theorem omoreText_shape (fin : Bool) (lns : List OLine) :
    omoreText fin lns = [] ∨ ∃ nlr, omoreText fin lns = '\n' :: nlr := by
  cases lns with
  | nil => cases fin <;> simp [omoreText]
  | cons ln lns => exact Or.inr ⟨_, rfl⟩

theorem omoreText_length (fin : Bool) : ∀ (lns : List OLine), lns.length ≤ (omoreText fin lns).length
  | [] => by simp
  | ln :: lns => by
    have := omoreText_length fin lns
    simp only [omoreText, List.length_cons, List.length_append]; omega

/-- a line splits into everything up to the end of its last word, and its last trailing blanks -/
theorem OLine.split (ln : OLine) (h : ln.OK) :
    ∃ X LT, ln.text = X ++ LT ∧ Blank LT ∧ 1 ≤ X.length ∧
      ∀ off, nextIndex (ln.node off) = off + X.length := by
  have hw : 0 < ln.1.w1.length := List.length_pos_iff.mpr h.1.w1.1
  obtain ⟨X, hX, hXl⟩ := ops_split ln.2 (ln.1.lead ++ ln.1.w1 ++ spellI ln.1.items) ln.1.trail
    (ln.1.endPos 0) (0 + ln.1.text.length)
    (by simp only [SCmd.endPos, endI_eq, List.length_append]; omega) (endPos_trail ln.1 0)
  refine ⟨X, olastTrail ln.1.trail ln.2, ?_, olastTrail_blank ln.2 _ h.1.trail h.2, ?_, ?_⟩
  · rw [← hX]; simp [OLine.text, opsText, SCmd.text, lineText]
  · rw [hXl]; exact olastEnd_pos ln.2 _ _ (by simp only [SCmd.endPos, endI_eq]; omega)
  · intro off
    rw [OLine.node, nextIndex_olineNode, hXl]
    have := olastEnd_shift off ln.2 (ln.1.endPos 0) (0 + ln.1.text.length)
    have e1 : ln.1.endPos off = ln.1.endPos 0 + off := by rw [← endPos_shift]; simp
    have e2 : off + ln.1.text.length = 0 + ln.1.text.length + off := by omega
    rw [e1, e2, this]
    omega


/-- **the loop of `parse`** over the remaining lines: `index` stands at the end of the last word of
    the previous line -/
theorem loop_olines (s : Str) (o : Opts) (fin : Bool) (hsz : 5 * s.length + 20 ≤ 1073741824) :
    ∀ (lns : List OLine) (index fuel : Nat) (parts : List Node) (t : List Char) (trail : Str),
      (∀ ln ∈ lns, ln.OK) → Blank trail → s.drop index = trail ++ omoreText fin lns →
      lns.length + 2 ≤ fuel →
      ∃ t', parseLoop s o fuel index parts t =
        (.ok (parts ++ opartsOf (index + trail.length + 1) lns), t') := by
  intro lns
  induction lns with
  | nil =>
    intro index fuel parts t trail _ htrail hdrop hf
    obtain ⟨f, rfl⟩ : ∃ f, fuel = f + 1 := ⟨fuel - 1, by omega⟩
    have hdl : (s.drop index).length ≤ s.length := by rw [List.length_drop]; omega
    by_cases hlt : index < s.length
    · have hne : s.drop index ≠ [] := by
        intro h0
        have := List.drop_eq_nil_iff.mp h0
        omega
      have hb : ∃ t', runParser (s.drop index) o t = (.ok none, t') := by
        refine runParser_blankG (tail := trail) o t htrail ?_ (by omega)
        rw [hdrop] at hne ⊢
        cases fin with
        | true => exact Or.inr (by simp [omoreText])
        | false =>
          refine Or.inl ⟨by simp [omoreText], ?_⟩
          simpa [omoreText] using hne
      obtain ⟨t', hb⟩ := hb
      refine ⟨t', ?_⟩
      rw [parseLoop, if_pos hlt, hb]
      simp [opartsOf]
    · refine ⟨t, ?_⟩
      rw [parseLoop_done _ _ _ _ _ _ (by omega)]
      simp [opartsOf]
  | cons ln lns ih =>
    intro index fuel parts t trail hok htrail hdrop hf
    obtain ⟨f, rfl⟩ : ∃ f, fuel = f + 1 := ⟨fuel - 1, by omega⟩
    have hln := hok ln (List.mem_cons_self ..)
    have hok' : ∀ x ∈ lns, x.OK := fun x hx => hok x (List.mem_cons_of_mem _ hx)
    have hdl : (s.drop index).length = s.length - index := List.length_drop
    have hlt : index < s.length := by
      have : 0 < (s.drop index).length := by rw [hdrop]; simp [omoreText]; omega
      omega
    obtain ⟨t', hr⟩ := runParser_olineG_nl (S := s.drop index) (R := omoreText fin lns) o t hln htrail
      (by rw [hdrop]; simp [omoreText]) (omoreText_shape fin lns) (by omega)
    obtain ⟨X, LT, hsplit, hLT, hX1, hni⟩ := OLine.split ln hln
    have hshift : (ln.node (trail.length + 1)).shift index = ln.node (index + trail.length + 1) := by
      rw [OLine.node, olineNode_shift, OLine.node]
      congr 1; omega
    have hnext : max (nextIndex (ln.node (index + trail.length + 1))) (index + 1) =
        index + trail.length + 1 + X.length := by
      rw [hni]; omega
    have hdrop' : s.drop (index + trail.length + 1 + X.length) = LT ++ omoreText fin lns := by
      have e : index + trail.length + 1 + X.length = index + (trail ++ '\n' :: X).length := by
        simp; omega
      rw [e, ← List.drop_drop, hdrop]
      have : trail ++ omoreText fin (ln :: lns) = (trail ++ '\n' :: X) ++ (LT ++ omoreText fin lns) := by
        simp [omoreText, hsplit]
      rw [this]
      exact List.drop_left' rfl
    obtain ⟨t'', hih⟩ := ih (index + trail.length + 1 + X.length) f
      (parts ++ [ln.node (index + trail.length + 1)]) t' LT hok' hLT hdrop' (by simp at hf; omega)
    refine ⟨t'', ?_⟩
    rw [parseLoop, if_pos hlt, hr]
    simp only [hshift, hnext, hih]
    have e2 : index + trail.length + 1 + X.length + LT.length + 1 =
        index + trail.length + 1 + ln.text.length + 1 := by rw [hsplit]; simp; omega
    simp [opartsOf, e2]

/-- the text of several lines -/
def olinesText (fin : Bool) (ln1 : OLine) (lns : List OLine) : Str := ln1.text ++ omoreText fin lns

/-- **C02, several lines, mixed operators**: newline-separated lines, each `c₁ op₂ c₂ …` (n ≥ 1,
    operators `;`, `&&`, `||` in any mix) of
    simple commands of plain words, with or without a final newline: `parse` returns one part per
    line — the command node or the list node of that line, at its absolute offset — for ALL options. -/
theorem C02_oplines_roundtrip (ln1 : OLine) (lns : List OLine) (fin : Bool) (o : Opts)
    (h1 : ln1.OK) (hl : ∀ ln ∈ lns, ln.OK)
    (hsz : 5 * (olinesText fin ln1 lns).length + 20 ≤ 1073741824) :
    (parse (olinesText fin ln1 lns) o).1 = .parts (opartsOf 0 (ln1 :: lns)) := by
  obtain ⟨t1, hr⟩ := runParser_olineG (S := olinesText fin ln1 lns) (R := omoreText fin lns) o [] h1 rfl
    (omoreText_shape fin lns) hsz
  obtain ⟨X, LT, hsplit, hLT, hX1, hni⟩ := OLine.split ln1 h1
  have hdrop : (olinesText fin ln1 lns).drop X.length = LT ++ omoreText fin lns := by
    have : olinesText fin ln1 lns = X ++ (LT ++ omoreText fin lns) := by
      simp [olinesText, hsplit]
    rw [this]
    exact List.drop_left' rfl
  have hlen : lns.length + 2 ≤ (olinesText fin ln1 lns).length + 1 := by
    have := omoreText_length fin lns
    have := OLine.text_pos h1
    simp only [olinesText, List.length_append]; omega
  obtain ⟨t2, hloop⟩ := loop_olines (olinesText fin ln1 lns) o fin hsz lns X.length
    ((olinesText fin ln1 lns).length + 1) [ln1.node 0] t1 LT hl hLT hdrop hlen
  unfold parse
  rw [hr]
  simp only [hni, Nat.zero_add]
  have hmax : max X.length 1 = X.length := by omega
  rw [hmax, hloop]
  have e2 : X.length + LT.length + 1 = 0 + ln1.text.length + 1 := by rw [hsplit]; simp
  simp [opartsOf, e2]


/-! ## several lines of lists of pipelines — the full sub-language -/

theorem PE.text_noNL {e : PE} (he : e.OK) : ∀ x ∈ e.text, x ≠ '\n' := by
  intro x hx
  simp only [PE.text, List.mem_append] at hx
  rcases hx with hx | hx
  · exact lineText_noNL he.1.lead he.1.w1 he.1.items he.1.trail x hx
  · exact prestText_noNL e.cs he.2 x hx

theorem erestText_noNL : ∀ (es : List (Op × PE)), (∀ x ∈ es, x.2.OK) →
    ∀ x ∈ erestText es, x ≠ '\n'
  | [], _ => fun x hx => by cases hx
  | (o, e) :: es, h => by
    intro x hx
    have he := h (o, e) (List.mem_cons_self ..)
    simp only [erestText, List.mem_append] at hx
    rcases hx with hx | hx | hx
    · exact op_noNL o x hx
    · exact PE.text_noNL he x hx
    · exact erestText_noNL es (fun y hy => h y (List.mem_cons_of_mem _ hy)) x hx

theorem pcostB_le : ∀ (cs : List SCmd) (k : Nat), (∀ c ∈ cs, c.OK) →
    pcostB k cs ≤ 5 * (prestText cs).length + k + 2
  | [], k, _ => by simp [pcostB, prestText]
  | c :: cs, k, h => by
    have hc := h c (List.mem_cons_self ..)
    have ih := pcostB_le cs (k + 1) (fun x hx => h x (List.mem_cons_of_mem _ hx))
    have h1 := spellI_length c.items hc.items
    have hw : 0 < c.w1.length := List.length_pos_iff.mpr hc.w1.1
    simp only [pcostB, prestText, List.length_cons, List.length_append, SCmd.text, lineText]
    omega

theorem PE.cost_le {e : PE} (he : e.OK) : e.cost ≤ 5 * e.text.length + 1 := by
  have h0 := pcostB_le e.cs 0 he.2
  have h1 := spellI_length e.c1.items he.1.items
  have hw : 0 < e.c1.w1.length := List.length_pos_iff.mpr he.1.w1.1
  simp only [PE.cost, PE.text, SCmd.text, lineText, List.length_append]
  omega

theorem PE.text_pos {e : PE} (he : e.OK) : 0 < e.text.length := by
  have hw : 0 < e.c1.w1.length := List.length_pos_iff.mpr he.1.w1.1
  simp [PE.text, SCmd.text, lineText]; omega

theorem ecost_le : ∀ (es : List (Op × PE)) (k : Nat), k ≤ 1 → (∀ x ∈ es, x.2.OK) →
    ecost k es ≤ 5 * (erestText es).length + k + 4
  | [], k, _, _ => by simp [ecost, erestText]
  | (o, e) :: es, k, hk, h => by
    have he := h (o, e) (List.mem_cons_self ..)
    have ih1 := ecost_le es 1 (Nat.le_refl _) (fun x hx => h x (List.mem_cons_of_mem _ hx))
    have ihk := ecost_le es k hk (fun x hx => h x (List.mem_cons_of_mem _ hx))
    have hc := PE.cost_le he
    cases o <;>
      simp only [ecost, erestText, List.length_cons, List.length_append, Op.txt,
        List.length_nil] at * <;> omega

def elastTrail (t0 : Str) : List (Op × PE) → Str
  | [] => t0
  | (_, e) :: es => elastTrail e.trail es

theorem elastTrail_blank : ∀ (es : List (Op × PE)) (t0 : Str), Blank t0 → (∀ x ∈ es, x.2.OK) →
    Blank (elastTrail t0 es)
  | [], _, h, _ => h
  | (o, e) :: es, _, _, hes =>
    elastTrail_blank es e.trail (PE.trail_blank (hes (o, e) (List.mem_cons_self ..)))
      (fun x hx => hes x (List.mem_cons_of_mem _ hx))

theorem esplit : ∀ (es : List (Op × PE)) (pre t0 : Str) (e0 a : Nat), (∀ x ∈ es, x.2.OK) →
    pre.length = e0 → e0 + t0.length = a →
    ∃ Y, pre ++ t0 ++ erestText es = Y ++ elastTrail t0 es ∧ Y.length = elastEnd e0 a es
  | [], pre, t0, e0, a, _, he, _ =>
    ⟨pre, by simp [erestText, elastTrail], by simpa [elastEnd] using he⟩
  | (o, p) :: es, pre, t0, e0, a, hes, he, ha => by
    have hp := hes (o, p) (List.mem_cons_self ..)
    obtain ⟨Yp, hYp, _, hYe⟩ := PE.split p hp
    obtain ⟨Y, hY, hYl⟩ := esplit es (pre ++ t0 ++ o.txt ++ Yp) p.trail
      (p.endPos (a + o.txt.length)) (a + o.txt.length + p.text.length)
      (fun x hx => hes x (List.mem_cons_of_mem _ hx))
      (by rw [hYe]; simp only [List.length_append]; omega)
      (PE.endPos_trail hp (a + o.txt.length))
    refine ⟨Y, ?_, by simpa [elastEnd] using hYl⟩
    show pre ++ t0 ++ erestText ((o, p) :: es) = Y ++ elastTrail p.trail es
    rw [← hY]
    simp [erestText, hYp]

theorem elastEnd_pos : ∀ (es : List (Op × PE)) (e0 a : Nat), (∀ x ∈ es, x.2.OK) → 1 ≤ e0 →
    1 ≤ elastEnd e0 a es
  | [], _, _, _, h => h
  | (o, p) :: es, _, a, hes, _ => by
    obtain ⟨Yp, _, hY1, hYe⟩ := PE.split p (hes (o, p) (List.mem_cons_self ..))
    exact elastEnd_pos es _ _ (fun x hx => hes x (List.mem_cons_of_mem _ hx))
      (by rw [hYe]; omega)

/-- the text of a line of pipelines -/
def elineText (p1 : PE) (es : List (Op × PE)) : Str := p1.text ++ erestText es

/-- a line: a list `p₁ op₂ p₂ …` (n ≥ 1, opᵢ ∈ {`;`, `&&`, `||`}) of pipelines `c | c | …` (m ≥ 1) -/
abbrev ELine := PE × List (Op × PE)
def ELine.text (ln : ELine) : Str := elineText ln.1 ln.2
def ELine.OK (ln : ELine) : Prop := ln.1.OK ∧ ∀ x ∈ ln.2, x.2.OK
instance (ln : ELine) : Decidable ln.OK := by unfold ELine.OK; exact inferInstance
/-- its AST when its text starts at offset `off`: the command node (n = 1) or the list node -/
def ELine.node (off : Nat) (ln : ELine) : Node := elineNode off ln.1 ln.2

theorem ELine.text_noNL {ln : ELine} (h : ln.OK) : ∀ x ∈ ln.text, x ≠ '\n' := by
  intro x hx
  simp only [ELine.text, elineText, List.mem_append] at hx
  rcases hx with hx | hx
  · exact PE.text_noNL h.1 x hx
  · exact erestText_noNL ln.2 h.2 x hx

theorem ELine.text_pos {ln : ELine} (h : ln.OK) : 0 < ln.text.length := by
  have := PE.text_pos h.1
  simp only [ELine.text, elineText, List.length_append]; omega

theorem ELine.last {ln : ELine} (h : ln.OK) (P : Str) :
    ∃ c, (P ++ ln.text).getLast? = some c ∧ c ≠ '\n' := by
  have hne : ln.text ≠ [] := List.length_pos_iff.mp (ELine.text_pos h)
  rw [List.getLast?_append]
  cases hl : ln.text.getLast? with
  | none => simp [List.getLast?_eq_none_iff] at hl; exact absurd hl hne
  | some c => exact ⟨c, by simp, ELine.text_noNL h c (List.mem_of_getLast? hl)⟩

theorem ELine.cost {ln : ELine} (h : ln.OK) :
    ecost 0 ln.2 + ln.1.cost + 3 ≤ 5 * ln.text.length + 12 := by
  have hcost := ecost_le ln.2 0 (Nat.zero_le _) h.2
  have hc := PE.cost_le h.1
  simp only [ELine.text, elineText, List.length_append]
  omega

/-- one parser run on `line ++ R`, `R` empty or starting with a newline -/
theorem runParser_elineG {ln : ELine} {R S : Str} (o : Opts) (t : List Char) (h : ln.OK)
    (hS : S = ln.text ++ R) (hR : R = [] ∨ ∃ nlr, R = '\n' :: nlr)
    (hsz : 5 * S.length + 20 ≤ 1073741824) :
    ∃ t', runParser S o t = (.ok (some (ln.node 0)), t') := by
  obtain ⟨c, hc1, hc2⟩ := ELine.last h []
  obtain ⟨L, adn, nlr', hof, hL, hLl⟩ := line_shape (A := ln.text) hS hR (by simpa using hc1) hc2
  have hlen : ln.text.length ≤ S.length := by rw [hS]; simp
  refine runParser_of_tot hof ?_
  refine tot_parserRun_E (nlr := nlr') (by omega) h.1 h.2 (initial_POK _) rfl ?_
    (by have := ELine.cost h; omega)
  rw [hL]; simp [ELine.text, elineText]

/-- one parser run on `pre ++ "\n" ++ line ++ R` -/
theorem runParser_elineG_nl {ln : ELine} {R S pre : Str} (o : Opts) (t : List Char) (h : ln.OK)
    (hpre : Blank pre) (hS : S = pre ++ '\n' :: (ln.text ++ R))
    (hR : R = [] ∨ ∃ nlr, R = '\n' :: nlr) (hsz : 5 * S.length + 20 ≤ 1073741824) :
    ∃ t', runParser S o t = (.ok (some (ln.node (pre.length + 1))), t') := by
  obtain ⟨c, hc1, hc2⟩ := ELine.last h (pre ++ ['\n'])
  have hS' : S = (pre ++ ['\n'] ++ ln.text) ++ R := by rw [hS]; simp
  obtain ⟨L, adn, nlr', hof, hL, hLl⟩ := line_shape hS' hR hc1 hc2
  have hlen : ln.text.length ≤ S.length := by rw [hS]; simp; omega
  refine runParser_of_tot hof ?_
  have := tot_parserRun_E_nl (L := L) (adn := adn) (i := 0) (d := 63) (nlr := nlr') (pre := pre)
    (l := { limit := o.limit }) (by omega) h.1 h.2 (initial_POK _) rfl hpre
    (by rw [hL]; simp [ELine.text, elineText]) (by have := ELine.cost h; omega)
  simpa [ELine.node] using this

/-- the text after the first line: `"\n" line₂ "\n" line₃ …`, with or without a final newline -/
def emoreText (fin : Bool) : List ELine → Str
  | [] => if fin then ['\n'] else []
  | ln :: lns => '\n' :: (ln.text ++ emoreText fin lns)

/-- the expected parts, the first line starting at offset `off` -/
def epartsOf (off : Nat) : List ELine → List Node
  | [] => []
  | ln :: lns => ln.node off :: epartsOf (off + ln.text.length + 1) lns

theorem emoreText_shape (fin : Bool) (lns : List ELine) :
    emoreText fin lns = [] ∨ ∃ nlr, emoreText fin lns = '\n' :: nlr := by
  cases lns with
  | nil => cases fin <;> simp [emoreText]
  | cons ln lns => exact Or.inr ⟨_, rfl⟩

theorem emoreText_length (fin : Bool) : ∀ (lns : List ELine), lns.length ≤ (emoreText fin lns).length
  | [] => by simp
  | ln :: lns => by
    have := emoreText_length fin lns
    simp only [emoreText, List.length_cons, List.length_append]; omega

/-- a line splits into everything up to the end of its last word, and its last trailing blanks -/
theorem ELine.split (ln : ELine) (h : ln.OK) :
    ∃ X LT, ln.text = X ++ LT ∧ Blank LT ∧ 1 ≤ X.length ∧
      ∀ off, nextIndex (ln.node off) = off + X.length := by
  obtain ⟨Y1, hY1, hY1pos, hY1e⟩ := PE.split ln.1 h.1
  obtain ⟨X, hX, hXl⟩ := esplit ln.2 Y1 ln.1.trail (ln.1.endPos 0) (0 + ln.1.text.length) h.2
    (by rw [hY1e]; simp) (PE.endPos_trail h.1 0)
  refine ⟨X, elastTrail ln.1.trail ln.2, ?_, elastTrail_blank ln.2 _ (PE.trail_blank h.1) h.2, ?_, ?_⟩
  · rw [← hX]; simp [ELine.text, elineText, hY1]
  · rw [hXl]; exact elastEnd_pos ln.2 _ _ h.2 (by rw [hY1e]; omega)
  · intro off
    rw [ELine.node, nextIndex_elineNode, hXl]
    have := elastEnd_shift off ln.2 (ln.1.endPos 0) (0 + ln.1.text.length)
    have e1 : ln.1.endPos off = ln.1.endPos 0 + off := by rw [← PE.endPos_shift]; simp
    have e2 : off + ln.1.text.length = 0 + ln.1.text.length + off := by omega
    rw [e1, e2, this]
    omega

/-- **the loop of `parse`** over the remaining lines: `index` stands at the end of the last word of
    the previous line -/
theorem loop_elines (s : Str) (o : Opts) (fin : Bool) (hsz : 5 * s.length + 20 ≤ 1073741824) :
    ∀ (lns : List ELine) (index fuel : Nat) (parts : List Node) (t : List Char) (trail : Str),
      (∀ ln ∈ lns, ln.OK) → Blank trail → s.drop index = trail ++ emoreText fin lns →
      lns.length + 2 ≤ fuel →
      ∃ t', parseLoop s o fuel index parts t =
        (.ok (parts ++ epartsOf (index + trail.length + 1) lns), t') := by
  intro lns
  induction lns with
  | nil =>
    intro index fuel parts t trail _ htrail hdrop hf
    obtain ⟨f, rfl⟩ : ∃ f, fuel = f + 1 := ⟨fuel - 1, by omega⟩
    have hdl : (s.drop index).length ≤ s.length := by rw [List.length_drop]; omega
    by_cases hlt : index < s.length
    · have hne : s.drop index ≠ [] := by
        intro h0
        have := List.drop_eq_nil_iff.mp h0
        omega
      have hb : ∃ t', runParser (s.drop index) o t = (.ok none, t') := by
        refine runParser_blankG (tail := trail) o t htrail ?_ (by omega)
        rw [hdrop] at hne ⊢
        cases fin with
        | true => exact Or.inr (by simp [emoreText])
        | false =>
          refine Or.inl ⟨by simp [emoreText], ?_⟩
          simpa [emoreText] using hne
      obtain ⟨t', hb⟩ := hb
      refine ⟨t', ?_⟩
      rw [parseLoop, if_pos hlt, hb]
      simp [epartsOf]
    · refine ⟨t, ?_⟩
      rw [parseLoop_done _ _ _ _ _ _ (by omega)]
      simp [epartsOf]
  | cons ln lns ih =>
    intro index fuel parts t trail hok htrail hdrop hf
    obtain ⟨f, rfl⟩ : ∃ f, fuel = f + 1 := ⟨fuel - 1, by omega⟩
    have hln := hok ln (List.mem_cons_self ..)
    have hok' : ∀ x ∈ lns, x.OK := fun x hx => hok x (List.mem_cons_of_mem _ hx)
    have hdl : (s.drop index).length = s.length - index := List.length_drop
    have hlt : index < s.length := by
      have : 0 < (s.drop index).length := by rw [hdrop]; simp [emoreText]; omega
      omega
    obtain ⟨t', hr⟩ := runParser_elineG_nl (S := s.drop index) (R := emoreText fin lns) o t hln htrail
      (by rw [hdrop]; simp [emoreText]) (emoreText_shape fin lns) (by omega)
    obtain ⟨X, LT, hsplit, hLT, hX1, hni⟩ := ELine.split ln hln
    have hshift : (ln.node (trail.length + 1)).shift index = ln.node (index + trail.length + 1) := by
      rw [ELine.node, elineNode_shift, ELine.node]
      congr 1; omega
    have hnext : max (nextIndex (ln.node (index + trail.length + 1))) (index + 1) =
        index + trail.length + 1 + X.length := by
      rw [hni]; omega
    have hdrop' : s.drop (index + trail.length + 1 + X.length) = LT ++ emoreText fin lns := by
      have e : index + trail.length + 1 + X.length = index + (trail ++ '\n' :: X).length := by
        simp; omega
      rw [e, ← List.drop_drop, hdrop]
      have : trail ++ emoreText fin (ln :: lns) = (trail ++ '\n' :: X) ++ (LT ++ emoreText fin lns) := by
        simp [emoreText, hsplit]
      rw [this]
      exact List.drop_left' rfl
    obtain ⟨t'', hih⟩ := ih (index + trail.length + 1 + X.length) f
      (parts ++ [ln.node (index + trail.length + 1)]) t' LT hok' hLT hdrop' (by simp at hf; omega)
    refine ⟨t'', ?_⟩
    rw [parseLoop, if_pos hlt, hr]
    simp only [hshift, hnext, hih]
    have e2 : index + trail.length + 1 + X.length + LT.length + 1 =
        index + trail.length + 1 + ln.text.length + 1 := by rw [hsplit]; simp; omega
    simp [epartsOf, e2]

/-- the text of several lines -/
def elinesText (fin : Bool) (ln1 : ELine) (lns : List ELine) : Str := ln1.text ++ emoreText fin lns

/-- **C02, the full sub-language**: newline-separated lines; each line a list `p₁ op₂ p₂ …` (n ≥ 1,
    operators `;`, `&&`, `||` in any mix); each `pᵢ` a pipeline `c | c | …` (m ≥ 1) of simple commands
    of plain words (first words no reserved words); blanks/tabs between the words, around every
    operator and at the ends of the lines; with or without a final newline.  For ALL options `parse`
    returns one part per line: the command node, the pipeline node, or the flat list node over
    commands / pipeline nodes / operators — every kind, nesting, operator, word value and span exact. -/
theorem C02_full_roundtrip (ln1 : ELine) (lns : List ELine) (fin : Bool) (o : Opts)
    (h1 : ln1.OK) (hl : ∀ ln ∈ lns, ln.OK)
    (hsz : 5 * (elinesText fin ln1 lns).length + 20 ≤ 1073741824) :
    (parse (elinesText fin ln1 lns) o).1 = .parts (epartsOf 0 (ln1 :: lns)) := by
  obtain ⟨t1, hr⟩ := runParser_elineG (S := elinesText fin ln1 lns) (R := emoreText fin lns) o [] h1 rfl
    (emoreText_shape fin lns) hsz
  obtain ⟨X, LT, hsplit, hLT, hX1, hni⟩ := ELine.split ln1 h1
  have hdrop : (elinesText fin ln1 lns).drop X.length = LT ++ emoreText fin lns := by
    have : elinesText fin ln1 lns = X ++ (LT ++ emoreText fin lns) := by
      simp [elinesText, hsplit]
    rw [this]
    exact List.drop_left' rfl
  have hlen : lns.length + 2 ≤ (elinesText fin ln1 lns).length + 1 := by
    have := emoreText_length fin lns
    have := ELine.text_pos h1
    simp only [elinesText, List.length_append]; omega
  obtain ⟨t2, hloop⟩ := loop_elines (elinesText fin ln1 lns) o fin hsz lns X.length
    ((elinesText fin ln1 lns).length + 1) [ln1.node 0] t1 LT hl hLT hdrop hlen
  unfold parse
  rw [hr]
  simp only [hni, Nat.zero_add]
  have hmax : max X.length 1 = X.length := by omega
  rw [hmax, hloop]
  have e2 : X.length + LT.length + 1 = 0 + ln1.text.length + 1 := by rw [hsplit]; simp
  simp [epartsOf, e2]



/-! ## the full sub-language with GENERAL simple commands (assignments, `a=b` words) -/

theorem gprestText_noNL : ∀ (cs : List GCmd), (∀ c ∈ cs, c.OK) → ∀ x ∈ gprestText cs, x ≠ '\n'
  | [], _ => fun x hx => by cases hx
  | c :: cs, h => by
    intro x hx
    simp only [gprestText, List.mem_cons, List.mem_append] at hx
    rcases hx with rfl | hx | hx
    · decide
    · exact GCmd.text_noNL (h c (List.mem_cons_self ..)) x hx
    · exact gprestText_noNL cs (fun y hy => h y (List.mem_cons_of_mem _ hy)) x hx

theorem GPE.text_noNL {e : GPE} (he : e.OK) : ∀ x ∈ e.text, x ≠ '\n' := by
  intro x hx
  simp only [GPE.text, List.mem_append] at hx
  rcases hx with hx | hx
  · exact GCmd.text_noNL he.1 x hx
  · exact gprestText_noNL e.cs he.2 x hx

theorem hrestText_noNL : ∀ (es : List (Op × GPE)), (∀ x ∈ es, x.2.OK) →
    ∀ x ∈ hrestText es, x ≠ '\n'
  | [], _ => fun x hx => by cases hx
  | (o, e) :: es, h => by
    intro x hx
    have he := h (o, e) (List.mem_cons_self ..)
    simp only [hrestText, List.mem_append] at hx
    rcases hx with hx | hx | hx
    · exact op_noNL o x hx
    · exact GPE.text_noNL he x hx
    · exact hrestText_noNL es (fun y hy => h y (List.mem_cons_of_mem _ hy)) x hx

theorem gpcostB_le : ∀ (cs : List GCmd) (k : Nat), (∀ c ∈ cs, c.OK) →
    gpcostB k cs ≤ 5 * (gprestText cs).length + k + 2
  | [], k, _ => by simp [gpcostB, gprestText]
  | c :: cs, k, h => by
    have hc := GCmd.cost_le (h c (List.mem_cons_self ..))
    have ih := gpcostB_le cs (k + 1) (fun x hx => h x (List.mem_cons_of_mem _ hx))
    simp only [gpcostB, gprestText, List.length_cons, List.length_append]
    omega

theorem GPE.cost_le {e : GPE} (he : e.OK) : e.cost ≤ 5 * e.text.length + 1 := by
  have h0 := gpcostB_le e.cs 0 he.2
  have h1 := GCmd.cost_le he.1
  simp only [GPE.cost, GPE.text, List.length_append]
  omega

theorem GPE.text_pos {e : GPE} (he : e.OK) : 0 < e.text.length := by
  have := GCmd.text_pos he.1
  simp only [GPE.text, List.length_append]; omega

theorem hcost_le : ∀ (es : List (Op × GPE)) (k : Nat), k ≤ 1 → (∀ x ∈ es, x.2.OK) →
    hcost k es ≤ 5 * (hrestText es).length + k + 4
  | [], k, _, _ => by simp [hcost, hrestText]
  | (o, e) :: es, k, hk, h => by
    have he := h (o, e) (List.mem_cons_self ..)
    have ih1 := hcost_le es 1 (Nat.le_refl _) (fun x hx => h x (List.mem_cons_of_mem _ hx))
    have ihk := hcost_le es k hk (fun x hx => h x (List.mem_cons_of_mem _ hx))
    have hc := GPE.cost_le he
    cases o <;>
      simp only [hcost, hrestText, List.length_cons, List.length_append, Op.txt,
        List.length_nil] at * <;> omega

def hlastTrail (t0 : Str) : List (Op × GPE) → Str
  | [] => t0
  | (_, e) :: es => hlastTrail e.trail es

theorem hlastTrail_blank : ∀ (es : List (Op × GPE)) (t0 : Str), Blank t0 → (∀ x ∈ es, x.2.OK) →
    Blank (hlastTrail t0 es)
  | [], _, h, _ => h
  | (o, e) :: es, _, _, hes =>
    hlastTrail_blank es e.trail (GPE.trail_blank (hes (o, e) (List.mem_cons_self ..)))
      (fun x hx => hes x (List.mem_cons_of_mem _ hx))

theorem hsplit : ∀ (es : List (Op × GPE)) (pre t0 : Str) (e0 a : Nat), (∀ x ∈ es, x.2.OK) →
    pre.length = e0 → e0 + t0.length = a →
    ∃ Y, pre ++ t0 ++ hrestText es = Y ++ hlastTrail t0 es ∧ Y.length = hlastEnd e0 a es
  | [], pre, t0, e0, a, _, he, _ =>
    ⟨pre, by simp [hrestText, hlastTrail], by simpa [hlastEnd] using he⟩
  | (o, p) :: es, pre, t0, e0, a, hes, he, ha => by
    have hp := hes (o, p) (List.mem_cons_self ..)
    obtain ⟨Yp, hYp, _, hYe⟩ := GPE.split p hp
    obtain ⟨Y, hY, hYl⟩ := hsplit es (pre ++ t0 ++ o.txt ++ Yp) p.trail
      (p.endPos (a + o.txt.length)) (a + o.txt.length + p.text.length)
      (fun x hx => hes x (List.mem_cons_of_mem _ hx))
      (by rw [hYe]; simp only [List.length_append]; omega)
      (GPE.endPos_trail hp (a + o.txt.length))
    refine ⟨Y, ?_, by simpa [hlastEnd] using hYl⟩
    show pre ++ t0 ++ hrestText ((o, p) :: es) = Y ++ hlastTrail p.trail es
    rw [← hY]
    simp [hrestText, hYp]

theorem hlastEnd_pos : ∀ (es : List (Op × GPE)) (e0 a : Nat), (∀ x ∈ es, x.2.OK) → 1 ≤ e0 →
    1 ≤ hlastEnd e0 a es
  | [], _, _, _, h => h
  | (o, p) :: es, _, a, hes, _ => by
    obtain ⟨Yp, _, hY1, hYe⟩ := GPE.split p (hes (o, p) (List.mem_cons_self ..))
    exact hlastEnd_pos es _ _ (fun x hx => hes x (List.mem_cons_of_mem _ hx))
      (by rw [hYe]; omega)

/-- the text of a line -/
def hlineText (p1 : GPE) (es : List (Op × GPE)) : Str := p1.text ++ hrestText es

/-- a line: a list `p₁ op₂ p₂ …` (n ≥ 1, opᵢ ∈ {`;`, `&&`, `||`}) of pipelines `c | c | …` (m ≥ 1) -/
abbrev HLine := GPE × List (Op × GPE)
def HLine.text (ln : HLine) : Str := hlineText ln.1 ln.2
def HLine.OK (ln : HLine) : Prop := ln.1.OK ∧ ∀ x ∈ ln.2, x.2.OK
instance (ln : HLine) : Decidable ln.OK := by unfold HLine.OK; exact inferInstance
/-- its AST when its text starts at offset `off`: the command node (n = 1) or the list node -/
def HLine.node (off : Nat) (ln : HLine) : Node := hlineNode off ln.1 ln.2

theorem HLine.text_noNL {ln : HLine} (h : ln.OK) : ∀ x ∈ ln.text, x ≠ '\n' := by
  intro x hx
  simp only [HLine.text, hlineText, List.mem_append] at hx
  rcases hx with hx | hx
  · exact GPE.text_noNL h.1 x hx
  · exact hrestText_noNL ln.2 h.2 x hx

theorem HLine.text_pos {ln : HLine} (h : ln.OK) : 0 < ln.text.length := by
  have := GPE.text_pos h.1
  simp only [HLine.text, hlineText, List.length_append]; omega

theorem HLine.last {ln : HLine} (h : ln.OK) (P : Str) :
    ∃ c, (P ++ ln.text).getLast? = some c ∧ c ≠ '\n' := by
  have hne : ln.text ≠ [] := List.length_pos_iff.mp (HLine.text_pos h)
  rw [List.getLast?_append]
  cases hl : ln.text.getLast? with
  | none => simp [List.getLast?_eq_none_iff] at hl; exact absurd hl hne
  | some c => exact ⟨c, by simp, HLine.text_noNL h c (List.mem_of_getLast? hl)⟩

theorem HLine.cost {ln : HLine} (h : ln.OK) :
    hcost 0 ln.2 + ln.1.cost + 3 ≤ 5 * ln.text.length + 12 := by
  have hcost := hcost_le ln.2 0 (Nat.zero_le _) h.2
  have hc := GPE.cost_le h.1
  simp only [HLine.text, hlineText, List.length_append]
  omega

/-- one parser run on `line ++ R`, `R` empty or starting with a newline -/
theorem runParser_hlineG {ln : HLine} {R S : Str} (o : Opts) (t : List Char) (h : ln.OK)
    (hS : S = ln.text ++ R) (hR : R = [] ∨ ∃ nlr, R = '\n' :: nlr)
    (hsz : 5 * S.length + 20 ≤ 1073741824) :
    ∃ t', runParser S o t = (.ok (some (ln.node 0)), t') := by
  obtain ⟨c, hc1, hc2⟩ := HLine.last h []
  obtain ⟨L, adn, nlr', hof, hL, hLl⟩ := line_shape (A := ln.text) hS hR (by simpa using hc1) hc2
  have hlen : ln.text.length ≤ S.length := by rw [hS]; simp
  refine runParser_of_tot hof ?_
  refine tot_parserRun_H (nlr := nlr') (by omega) h.1 h.2 (initial_POK _) rfl rfl ?_
    (by have := HLine.cost h; omega)
  rw [hL]; simp [HLine.text, hlineText]

/-- one parser run on `pre ++ "\n" ++ line ++ R` -/
theorem runParser_hlineG_nl {ln : HLine} {R S pre : Str} (o : Opts) (t : List Char) (h : ln.OK)
    (hpre : Blank pre) (hS : S = pre ++ '\n' :: (ln.text ++ R))
    (hR : R = [] ∨ ∃ nlr, R = '\n' :: nlr) (hsz : 5 * S.length + 20 ≤ 1073741824) :
    ∃ t', runParser S o t = (.ok (some (ln.node (pre.length + 1))), t') := by
  obtain ⟨c, hc1, hc2⟩ := HLine.last h (pre ++ ['\n'])
  have hS' : S = (pre ++ ['\n'] ++ ln.text) ++ R := by rw [hS]; simp
  obtain ⟨L, adn, nlr', hof, hL, hLl⟩ := line_shape hS' hR hc1 hc2
  have hlen : ln.text.length ≤ S.length := by rw [hS]; simp; omega
  refine runParser_of_tot hof ?_
  have := tot_parserRun_H_nl (L := L) (adn := adn) (i := 0) (d := 63) (nlr := nlr') (pre := pre)
    (l := { limit := o.limit }) (by omega) h.1 h.2 (initial_POK _) rfl hpre
    (by rw [hL]; simp [HLine.text, hlineText]) (by have := HLine.cost h; omega)
  simpa [HLine.node] using this

/-- the text after the first line: `"\n" line₂ "\n" line₃ …`, with or without a final newline -/
def hmoreText (fin : Bool) : List HLine → Str
  | [] => if fin then ['\n'] else []
  | ln :: lns => '\n' :: (ln.text ++ hmoreText fin lns)

/-- the expected parts, the first line starting at offset `off` -/
def hpartsOf (off : Nat) : List HLine → List Node
  | [] => []
  | ln :: lns => ln.node off :: hpartsOf (off + ln.text.length + 1) lns

theorem hmoreText_shape (fin : Bool) (lns : List HLine) :
    hmoreText fin lns = [] ∨ ∃ nlr, hmoreText fin lns = '\n' :: nlr := by
  cases lns with
  | nil => cases fin <;> simp [hmoreText]
  | cons ln lns => exact Or.inr ⟨_, rfl⟩

theorem hmoreText_length (fin : Bool) : ∀ (lns : List HLine), lns.length ≤ (hmoreText fin lns).length
  | [] => by simp
  | ln :: lns => by
    have := hmoreText_length fin lns
    simp only [hmoreText, List.length_cons, List.length_append]; omega

/-- a line splits into everything up to the end of its last word, and its last trailing blanks -/
theorem HLine.split (ln : HLine) (h : ln.OK) :
    ∃ X LT, ln.text = X ++ LT ∧ Blank LT ∧ 1 ≤ X.length ∧
      ∀ off, nextIndex (ln.node off) = off + X.length := by
  obtain ⟨Y1, hY1, hY1pos, hY1e⟩ := GPE.split ln.1 h.1
  obtain ⟨X, hX, hXl⟩ := hsplit ln.2 Y1 ln.1.trail (ln.1.endPos 0) (0 + ln.1.text.length) h.2
    (by rw [hY1e]; simp) (GPE.endPos_trail h.1 0)
  refine ⟨X, hlastTrail ln.1.trail ln.2, ?_, hlastTrail_blank ln.2 _ (GPE.trail_blank h.1) h.2, ?_, ?_⟩
  · rw [← hX]; simp [HLine.text, hlineText, hY1]
  · rw [hXl]; exact hlastEnd_pos ln.2 _ _ h.2 (by rw [hY1e]; omega)
  · intro off
    rw [HLine.node, nextIndex_hlineNode, hXl]
    have := hlastEnd_shift off ln.2 (ln.1.endPos 0) (0 + ln.1.text.length)
    have e1 : ln.1.endPos off = ln.1.endPos 0 + off := by rw [← GPE.endPos_shift]; simp
    have e2 : off + ln.1.text.length = 0 + ln.1.text.length + off := by omega
    rw [e1, e2, this]
    omega

/-- **the loop of `parse`** over the remaining lines: `index` stands at the end of the last word of
    the previous line -/
theorem loop_hlines (s : Str) (o : Opts) (fin : Bool) (hsz : 5 * s.length + 20 ≤ 1073741824) :
    ∀ (lns : List HLine) (index fuel : Nat) (parts : List Node) (t : List Char) (trail : Str),
      (∀ ln ∈ lns, ln.OK) → Blank trail → s.drop index = trail ++ hmoreText fin lns →
      lns.length + 2 ≤ fuel →
      ∃ t', parseLoop s o fuel index parts t =
        (.ok (parts ++ hpartsOf (index + trail.length + 1) lns), t') := by
  intro lns
  induction lns with
  | nil =>
    intro index fuel parts t trail _ htrail hdrop hf
    obtain ⟨f, rfl⟩ : ∃ f, fuel = f + 1 := ⟨fuel - 1, by omega⟩
    have hdl : (s.drop index).length ≤ s.length := by rw [List.length_drop]; omega
    by_cases hlt : index < s.length
    · have hne : s.drop index ≠ [] := by
        intro h0
        have := List.drop_eq_nil_iff.mp h0
        omega
      have hb : ∃ t', runParser (s.drop index) o t = (.ok none, t') := by
        refine runParser_blankG (tail := trail) o t htrail ?_ (by omega)
        rw [hdrop] at hne ⊢
        cases fin with
        | true => exact Or.inr (by simp [hmoreText])
        | false =>
          refine Or.inl ⟨by simp [hmoreText], ?_⟩
          simpa [hmoreText] using hne
      obtain ⟨t', hb⟩ := hb
      refine ⟨t', ?_⟩
      rw [parseLoop, if_pos hlt, hb]
      simp [hpartsOf]
    · refine ⟨t, ?_⟩
      rw [parseLoop_done _ _ _ _ _ _ (by omega)]
      simp [hpartsOf]
  | cons ln lns ih =>
    intro index fuel parts t trail hok htrail hdrop hf
    obtain ⟨f, rfl⟩ : ∃ f, fuel = f + 1 := ⟨fuel - 1, by omega⟩
    have hln := hok ln (List.mem_cons_self ..)
    have hok' : ∀ x ∈ lns, x.OK := fun x hx => hok x (List.mem_cons_of_mem _ hx)
    have hdl : (s.drop index).length = s.length - index := List.length_drop
    have hlt : index < s.length := by
      have : 0 < (s.drop index).length := by rw [hdrop]; simp [hmoreText]; omega
      omega
    obtain ⟨t', hr⟩ := runParser_hlineG_nl (S := s.drop index) (R := hmoreText fin lns) o t hln htrail
      (by rw [hdrop]; simp [hmoreText]) (hmoreText_shape fin lns) (by omega)
    obtain ⟨X, LT, hsplit, hLT, hX1, hni⟩ := HLine.split ln hln
    have hshift : (ln.node (trail.length + 1)).shift index = ln.node (index + trail.length + 1) := by
      rw [HLine.node, hlineNode_shift, HLine.node]
      congr 1; omega
    have hnext : max (nextIndex (ln.node (index + trail.length + 1))) (index + 1) =
        index + trail.length + 1 + X.length := by
      rw [hni]; omega
    have hdrop' : s.drop (index + trail.length + 1 + X.length) = LT ++ hmoreText fin lns := by
      have e : index + trail.length + 1 + X.length = index + (trail ++ '\n' :: X).length := by
        simp; omega
      rw [e, ← List.drop_drop, hdrop]
      have : trail ++ hmoreText fin (ln :: lns) = (trail ++ '\n' :: X) ++ (LT ++ hmoreText fin lns) := by
        simp [hmoreText, hsplit]
      rw [this]
      exact List.drop_left' rfl
    obtain ⟨t'', hih⟩ := ih (index + trail.length + 1 + X.length) f
      (parts ++ [ln.node (index + trail.length + 1)]) t' LT hok' hLT hdrop' (by simp at hf; omega)
    refine ⟨t'', ?_⟩
    rw [parseLoop, if_pos hlt, hr]
    simp only [hshift, hnext, hih]
    have e2 : index + trail.length + 1 + X.length + LT.length + 1 =
        index + trail.length + 1 + ln.text.length + 1 := by rw [hsplit]; simp; omega
    simp [hpartsOf, e2]

/-- the text of several lines -/
def hlinesText (fin : Bool) (ln1 : HLine) (lns : List HLine) : Str := ln1.text ++ hmoreText fin lns

/-- **C02, the full sub-language**: newline-separated lines; each line a list `p₁ op₂ p₂ …` (n ≥ 1,
    operators `;`, `&&`, `||` in any mix); each `pᵢ` a pipeline `c | c | …` (m ≥ 1) of GENERAL simple commands:
    assignments `a=b` in command position (also assignment-only commands), then words (a first
    word is no reserved word; words of the form `a=b` after the command word stay words); blanks/tabs between the words, around every
    operator and at the ends of the lines; with or without a final newline.  For ALL options `parse`
    returns one part per line: the command node, the pipeline node, or the flat list node over
    commands / pipeline nodes / operators — every kind, nesting, operator, word value and span exact. -/
theorem C02_full_roundtrip2 (ln1 : HLine) (lns : List HLine) (fin : Bool) (o : Opts)
    (h1 : ln1.OK) (hl : ∀ ln ∈ lns, ln.OK)
    (hsz : 5 * (hlinesText fin ln1 lns).length + 20 ≤ 1073741824) :
    (parse (hlinesText fin ln1 lns) o).1 = .parts (hpartsOf 0 (ln1 :: lns)) := by
  obtain ⟨t1, hr⟩ := runParser_hlineG (S := hlinesText fin ln1 lns) (R := hmoreText fin lns) o [] h1 rfl
    (hmoreText_shape fin lns) hsz
  obtain ⟨X, LT, hsplit, hLT, hX1, hni⟩ := HLine.split ln1 h1
  have hdrop : (hlinesText fin ln1 lns).drop X.length = LT ++ hmoreText fin lns := by
    have : hlinesText fin ln1 lns = X ++ (LT ++ hmoreText fin lns) := by
      simp [hlinesText, hsplit]
    rw [this]
    exact List.drop_left' rfl
  have hlen : lns.length + 2 ≤ (hlinesText fin ln1 lns).length + 1 := by
    have := hmoreText_length fin lns
    have := HLine.text_pos h1
    simp only [hlinesText, List.length_append]; omega
  obtain ⟨t2, hloop⟩ := loop_hlines (hlinesText fin ln1 lns) o fin hsz lns X.length
    ((hlinesText fin ln1 lns).length + 1) [ln1.node 0] t1 LT hl hLT hdrop hlen
  unfold parse
  rw [hr]
  simp only [hni, Nat.zero_add]
  have hmax : max X.length 1 = X.length := by omega
  rw [hmax, hloop]
  have e2 : X.length + LT.length + 1 = 0 + ln1.text.length + 1 := by rw [hsplit]; simp
  simp [hpartsOf, e2]


/-! ## non-vacuity: the hypotheses are decidable and satisfiable (kernel-checked instance) -/

/-- ` ls -l|wc &&wc ` followed by a second line `wc` and a final newline -/
example :
    let ca : SCmd := ⟨[' '], ['l', 's'], [([' '], ['-', 'l'])], []⟩
    let cb : SCmd := ⟨[], ['w', 'c'], [], [' ']⟩
    let ln1 : ELine := (⟨ca, [cb]⟩, [(.andand, ⟨cb, []⟩)])
    let ln2 : ELine := (⟨cb, []⟩, [])
    (parse (elinesText true ln1 [ln2]) {}).1 = .parts (epartsOf 0 [ln1, ln2]) := by
  intro ca cb ln1 ln2
  exact C02_full_roundtrip ln1 [ln2] true {} (by decide) (by decide) (by decide)

/-! ## `C02_full_roundtrip2` subsumes `C02_full_roundtrip`: the embedding of the old commands -/

def SCmd.toG (c : SCmd) : GCmd :=
  ⟨c.lead, .simple (.word c.w1), c.items.map (fun p => (p.1, Elem.simple (Item.word p.2))), c.trail⟩

theorem spellJ_map : ∀ (items : List (Str × Str)),
    spellJ (items.map (fun p => (p.1, Elem.simple (Item.word p.2)))) = spellI items
  | [] => rfl
  | (g, w) :: r => by simp [spellJ, spellI, Elem.text, Item.text, spellJ_map r]

theorem nodesJ_map : ∀ (items : List (Str × Str)) (off : Nat),
    nodesJ off (items.map (fun p => (p.1, Elem.simple (Item.word p.2)))) = nodesI off items
  | [], _ => rfl
  | (g, w) :: r, off => by simp [nodesJ, nodesI, Elem.text, Elem.node, Item.text, Item.node, nodesJ_map r]

theorem endJ_map : ∀ (items : List (Str × Str)) (off : Nat),
    endJ off (items.map (fun p => (p.1, Elem.simple (Item.word p.2)))) = endI off items
  | [], _ => rfl
  | (g, w) :: r, off => by simp [endJ, endI, Elem.text, Item.text, endJ_map r]

theorem plain_item {w : Str} (h : PlainWord w) (pos : Bool) : (Item.word w).OK pos :=
  ⟨h.gen, fun _ => looksAssign_plain h⟩

theorem ItemsJ_map : ∀ (items : List (Str × Str)), ItemsOK items →
    ItemsJ false (items.map (fun p => (p.1, Elem.simple (Item.word p.2))))
  | [], _ => trivial
  | (g, w) :: r, h => by
    have h1 := h (g, w) (List.mem_cons_self ..)
    exact ⟨h1.1, plain_item h1.2 _, ItemsJ_map r (fun x hx => h x (List.mem_cons_of_mem _ hx))⟩

theorem SCmd.toG_text (c : SCmd) : c.toG.text = c.text := by
  simp [SCmd.toG, GCmd.text, SCmd.text, lineText, spellJ_map, Item.text, Elem.text]

theorem SCmd.toG_node (c : SCmd) (off : Nat) : c.toG.node off = c.node off := by
  simp [SCmd.toG, GCmd.node, GCmd.nodes, GCmd.endPos, SCmd.node, cmdNode, nodesJ_map, endJ_map,
    Item.text, Item.node, Elem.text, Elem.node]

theorem SCmd.toG_endPos (c : SCmd) (off : Nat) : c.toG.endPos off = c.endPos off := by
  simp [SCmd.toG, GCmd.endPos, SCmd.endPos, endJ_map, Item.text, Elem.text]

theorem SCmd.toG_OK {c : SCmd} (h : c.OK) : c.toG.OK :=
  ⟨h.lead, plain_item h.w1 _, h.nr, ItemsJ_map c.items h.items, h.trail⟩

def PE.toG (e : PE) : GPE := ⟨e.c1.toG, e.cs.map SCmd.toG⟩

theorem gprestText_map : ∀ (cs : List SCmd), gprestText (cs.map SCmd.toG) = prestText cs
  | [] => rfl
  | c :: cs => by simp [gprestText, prestText, SCmd.toG_text, gprestText_map cs]

theorem gprestNodes_map : ∀ (cs : List SCmd) (a : Nat),
    gprestNodes a (cs.map SCmd.toG) = prestNodes a cs
  | [], _ => rfl
  | c :: cs, a => by simp [gprestNodes, prestNodes, SCmd.toG_text, SCmd.toG_node, gprestNodes_map cs]

theorem glastEnd_map : ∀ (cs : List SCmd) (e a : Nat), glastEnd e a (cs.map SCmd.toG) = lastEnd e a cs
  | [], _, _ => rfl
  | c :: cs, e, a => by simp [glastEnd, lastEnd, SCmd.toG_text, SCmd.toG_endPos, glastEnd_map cs]

theorem PE.toG_text (e : PE) : e.toG.text = e.text := by
  simp [PE.toG, GPE.text, PE.text, SCmd.toG_text, gprestText_map]

theorem PE.toG_endPos (e : PE) (off : Nat) : e.toG.endPos off = e.endPos off := by
  simp [PE.toG, GPE.endPos, PE.endPos, SCmd.toG_text, SCmd.toG_endPos, glastEnd_map]

theorem PE.toG_node (e : PE) (off : Nat) : e.toG.node off = e.node off := by
  show mkPipe (off + e.c1.toG.lead.length) (e.toG.endPos off)
    (e.c1.toG.node off :: gprestNodes (off + e.c1.toG.text.length) (e.cs.map SCmd.toG)) = _
  rw [PE.toG_endPos, SCmd.toG_node, SCmd.toG_text, gprestNodes_map]
  rfl

theorem PE.toG_OK {e : PE} (h : e.OK) : e.toG.OK := by
  refine ⟨SCmd.toG_OK h.1, ?_⟩
  intro c hc
  simp only [PE.toG, List.mem_map] at hc
  obtain ⟨c', hc', rfl⟩ := hc
  exact SCmd.toG_OK (h.2 c' hc')

def esToG (es : List (Op × PE)) : List (Op × GPE) := es.map (fun x => (x.1, x.2.toG))

theorem hrestText_map : ∀ (es : List (Op × PE)), hrestText (esToG es) = erestText es
  | [] => rfl
  | (o, e) :: es => by
    have := hrestText_map es
    simp only [esToG] at this
    simp [esToG, hrestText, erestText, PE.toG_text, this]

theorem hrestNodes_map : ∀ (es : List (Op × PE)) (a : Nat), hrestNodes a (esToG es) = erestNodes a es
  | [], _ => rfl
  | (o, e) :: es, a => by
    have := hrestNodes_map es
    simp only [esToG] at this
    simp [esToG, hrestNodes, erestNodes, PE.toG_text, PE.toG_node, this]

theorem hlastEnd_map : ∀ (es : List (Op × PE)) (e0 a : Nat),
    hlastEnd e0 a (esToG es) = elastEnd e0 a es
  | [], _, _ => rfl
  | (o, e) :: es, e0, a => by
    have := hlastEnd_map es
    simp only [esToG] at this
    simp [esToG, hlastEnd, elastEnd, PE.toG_text, PE.toG_endPos, this]

def ELine.toH (ln : ELine) : HLine := (ln.1.toG, esToG ln.2)

theorem ELine.toH_text (ln : ELine) : ln.toH.text = ln.text := by
  simp [ELine.toH, HLine.text, ELine.text, hlineText, elineText, PE.toG_text, hrestText_map]

theorem ELine.toH_node (ln : ELine) (off : Nat) : ln.toH.node off = ln.node off := by
  simp only [ELine.toH, HLine.node, ELine.node, hlineNode, elineNode, PE.toG_text, PE.toG_node,
    PE.toG_endPos, hrestNodes_map, hlastEnd_map]
  simp [PE.toG, SCmd.toG]

theorem ELine.toH_OK {ln : ELine} (h : ln.OK) : ln.toH.OK := by
  refine ⟨PE.toG_OK h.1, ?_⟩
  intro x hx
  simp only [ELine.toH, esToG, List.mem_map] at hx
  obtain ⟨y, hy, rfl⟩ := hx
  exact PE.toG_OK (h.2 y hy)

theorem hmoreText_map (fin : Bool) : ∀ (lns : List ELine),
    hmoreText fin (lns.map ELine.toH) = emoreText fin lns
  | [] => rfl
  | ln :: lns => by simp [hmoreText, emoreText, ELine.toH_text, hmoreText_map fin lns]

theorem hpartsOf_map : ∀ (lns : List ELine) (off : Nat),
    hpartsOf off (lns.map ELine.toH) = epartsOf off lns
  | [], _ => rfl
  | ln :: lns, off => by simp [hpartsOf, epartsOf, ELine.toH_text, ELine.toH_node, hpartsOf_map lns]

/-- `C02_full_roundtrip`, derived from `C02_full_roundtrip2` through the embedding -/
theorem C02_full_roundtrip_of2 (ln1 : ELine) (lns : List ELine) (fin : Bool) (o : Opts)
    (h1 : ln1.OK) (hl : ∀ ln ∈ lns, ln.OK)
    (hsz : 5 * (elinesText fin ln1 lns).length + 20 ≤ 1073741824) :
    (parse (elinesText fin ln1 lns) o).1 = .parts (epartsOf 0 (ln1 :: lns)) := by
  have ht : hlinesText fin ln1.toH (lns.map ELine.toH) = elinesText fin ln1 lns := by
    simp [hlinesText, elinesText, ELine.toH_text, hmoreText_map]
  have := C02_full_roundtrip2 ln1.toH (lns.map ELine.toH) fin o (ELine.toH_OK h1)
    (by
      intro x hx
      simp only [List.mem_map] at hx
      obtain ⟨y, hy, rfl⟩ := hx
      exact ELine.toH_OK (hl y hy))
    (by rw [ht]; exact hsz)
  rw [ht] at this
  rw [this]
  have := hpartsOf_map (ln1 :: lns) 0
  simpa using congrArg Outcome.parts this

/-- non-vacuity of `C02_full_roundtrip2` (kernel-checked): ` a=b c=d x  e=f >out < in |ls -l >>log&&v=1`,
    then `v=1;ls -l >>log` on a second line -/
example :
    let g1 : GCmd := ⟨[' '], .simple (.assign ['a', '=', 'b']), [([' '], .simple (.assign ['c', '=', 'd'])),
      ([' '], .simple (.word ['x'])), ([' ', ' '], .simple (.word ['e', '=', 'f'])),
      ([' '], .redir .gt [] ['o', 'u', 't']), ([' '], .redir .lt [' '] ['i', 'n'])], [' ']⟩
    let g2 : GCmd := ⟨[], .simple (.assign ['v', '=', '1']), [], []⟩
    let g3 : GCmd := ⟨[], .simple (.word ['l', 's']), [([' '], .simple (.word ['-', 'l'])),
      ([' '], .redir .gg [] ['l', 'o', 'g'])], []⟩
    let L1 : HLine := (⟨g1, [g3]⟩, [(.andand, ⟨g2, []⟩)])
    let L2 : HLine := (⟨g2, []⟩, [(.semi, ⟨g3, []⟩)])
    (parse (hlinesText true L1 [L2]) {}).1 = .parts (hpartsOf 0 [L1, L2]) := by
  intro g1 g2 g3 L1 L2
  exact C02_full_roundtrip2 L1 [L2] true {} (by decide) (by decide) (by decide)

/-- **C02, step (4)**: the statement of `C02_full_roundtrip2` over the item/element types as they
    stand now — `Elem` includes the redirections `> w`, `< w`, `>> w` (no file-descriptor prefix; blanks
    allowed between operator and word) anywhere after the first item of a simple command; each gives
    a `redirect` node `(start of op, end of w) none op (some (word …)) none none none`.
    (`GCmd`/`Elem` were generalised in place, so this is the same theorem as `C02_full_roundtrip2`;
    the step-(3) statement is its restriction to commands without `Elem.redir`.) -/
theorem C02_full_roundtrip3 (ln1 : HLine) (lns : List HLine) (fin : Bool) (o : Opts)
    (h1 : ln1.OK) (hl : ∀ ln ∈ lns, ln.OK)
    (hsz : 5 * (hlinesText fin ln1 lns).length + 20 ≤ 1073741824) :
    (parse (hlinesText fin ln1 lns) o).1 = .parts (hpartsOf 0 (ln1 :: lns)) :=
  C02_full_roundtrip2 ln1 lns fin o h1 hl hsz

/-- **C02, step (4b), first half**: the statement of `C02_full_roundtrip2` over the types as they stand
    now — the FIRST element of a simple command (`GCmd.first : Elem`) may itself be a redirection
    `> w`, `< w`, `>> w` (`>out cmd a`, `a | <in cat`, `x && >>log`, and redirection-only commands
    `>f`).  After a leading redirection the model accepts neither reserved words nor assignments
    (`>f a=b` gives the WORD `a=b`), which is what `Elem.after`/`GCmd.OK` say.  (`GCmd` was generalised
    in place; the step-(3)/(4) statement is the restriction to `first = .simple it`.) -/
theorem C02_full_roundtrip4 (ln1 : HLine) (lns : List HLine) (fin : Bool) (o : Opts)
    (h1 : ln1.OK) (hl : ∀ ln ∈ lns, ln.OK)
    (hsz : 5 * (hlinesText fin ln1 lns).length + 20 ≤ 1073741824) :
    (parse (hlinesText fin ln1 lns) o).1 = .parts (hpartsOf 0 (ln1 :: lns)) :=
  C02_full_roundtrip2 ln1 lns fin o h1 hl hsz

/-- non-vacuity of `C02_full_roundtrip4` (kernel-checked): ` >out x a=b <in|< in cat&&>>log`, then
    `>f;>>g v=1 <h` on a second line -/
example :
    let g1 : GCmd := ⟨[' '], .redir .gt [] ['o', 'u', 't'], [([' '], .simple (.word ['x'])),
      ([' '], .simple (.word ['a', '=', 'b'])), ([' '], .redir .lt [] ['i', 'n'])], []⟩
    let g2 : GCmd := ⟨[], .redir .lt [' '] ['i', 'n'], [([' '], .simple (.word ['c', 'a', 't']))], []⟩
    let g3 : GCmd := ⟨[], .redir .gg [] ['l', 'o', 'g'], [], []⟩
    let g4 : GCmd := ⟨[], .redir .gt [] ['f'], [], []⟩
    let g5 : GCmd := ⟨[], .redir .gg [] ['g'], [([' '], .simple (.word ['v', '=', '1'])),
      ([' '], .redir .lt [] ['h'])], []⟩
    let L1 : HLine := (⟨g1, [g2]⟩, [(.andand, ⟨g3, []⟩)])
    let L2 : HLine := (⟨g4, []⟩, [(.semi, ⟨g5, []⟩)])
    (parse (hlinesText true L1 [L2]) {}).1 = .parts (hpartsOf 0 [L1, L2]) := by
  intro g1 g2 g3 g4 g5 L1 L2
  exact C02_full_roundtrip4 L1 [L2] true {} (by decide) (by decide) (by decide)

/-- **C02, step (4b), second half**: the statement of `C02_full_roundtrip2` over the types as they
    stand now — `Elem.nredir n op g2 w` is a redirection with a file-descriptor prefix, `2> w`,
    `10< w`, `2>>w` (digits `n` directly before the operator: the tokenizer's NUMBER token, the
    four-symbol productions `redirection : NUMBER op WORD`), anywhere in a simple command, also first;
    its node is `redirect (start of n, end of w) (num n) op (some (word …)) none none none` with
    `n` read by the model's `digitsToNat`.  (`Elem` was generalised in place; the step-(4b, first half)
    statement is the restriction to commands without `Elem.nredir`.) -/
theorem C02_full_roundtrip5 (ln1 : HLine) (lns : List HLine) (fin : Bool) (o : Opts)
    (h1 : ln1.OK) (hl : ∀ ln ∈ lns, ln.OK)
    (hsz : 5 * (hlinesText fin ln1 lns).length + 20 ≤ 1073741824) :
    (parse (hlinesText fin ln1 lns) o).1 = .parts (hpartsOf 0 (ln1 :: lns)) :=
  C02_full_roundtrip2 ln1 lns fin o h1 hl hsz

/-- non-vacuity of `C02_full_roundtrip5` (kernel-checked): ` 2>err x 10< in a=b|2>>log cat&&>o 1> p`,
    then `v=1 2>e;0<i` on a second line -/
example :
    let g1 : GCmd := ⟨[' '], .nredir ['2'] .gt [] ['e', 'r', 'r'], [([' '], .simple (.word ['x'])),
      ([' '], .nredir ['1', '0'] .lt [' '] ['i', 'n']), ([' '], .simple (.word ['a', '=', 'b']))], []⟩
    let g2 : GCmd := ⟨[], .nredir ['2'] .gg [] ['l', 'o', 'g'], [([' '], .simple (.word ['c', 'a', 't']))], []⟩
    let g3 : GCmd := ⟨[], .redir .gt [] ['o'], [([' '], .nredir ['1'] .gt [' '] ['p'])], []⟩
    let g4 : GCmd := ⟨[], .simple (.assign ['v', '=', '1']), [([' '], .nredir ['2'] .gt [] ['e'])], []⟩
    let g5 : GCmd := ⟨[], .nredir ['0'] .lt [] ['i'], [], []⟩
    let L1 : HLine := (⟨g1, [g2]⟩, [(.andand, ⟨g3, []⟩)])
    let L2 : HLine := (⟨g4, []⟩, [(.semi, ⟨g5, []⟩)])
    (parse (hlinesText true L1 [L2]) {}).1 = .parts (hpartsOf 0 [L1, L2]) := by
  intro g1 g2 g3 g4 g5 L1 L2
  exact C02_full_roundtrip5 L1 [L2] true {} (by decide) (by decide) (by decide)

end Bashlex.C02

/-! ## axioms -/
#print axioms Bashlex.C02.tot_nextToken_word
#print axioms Bashlex.C02.tot_nextToken_nl
#print axioms Bashlex.C02.run_line
#print axioms Bashlex.C02.runParser_line
#print axioms Bashlex.C02.parse_line
#print axioms Bashlex.C02.C02_simple_roundtrip
#print axioms Bashlex.C02.tot_nextToken_semi
#print axioms Bashlex.C02.run_seq
#print axioms Bashlex.C02.C02_seq_roundtrip
#print axioms Bashlex.C02.C02_lines_roundtrip
#print axioms Bashlex.C02.tot_nextToken_bar
#print axioms Bashlex.C02.run_pipe
#print axioms Bashlex.C02.C02_pipeline_roundtrip
#print axioms Bashlex.C02.tot_nextToken_and
#print axioms Bashlex.C02.tot_nextToken_or
#print axioms Bashlex.C02.run_seqO
#print axioms Bashlex.C02.C02_andor_roundtrip
#print axioms Bashlex.C02.C02_oplines_roundtrip
#print axioms Bashlex.C02.pe_run
#print axioms Bashlex.C02.run_seqE
#print axioms Bashlex.C02.C02_full_roundtrip
#print axioms Bashlex.C02.tot_nextToken_gen
#print axioms Bashlex.C02.gpe_run
#print axioms Bashlex.C02.C02_full_roundtrip2
#print axioms Bashlex.C02.C02_full_roundtrip_of2
#print axioms Bashlex.C02.elem_step
#print axioms Bashlex.C02.C02_full_roundtrip3
#print axioms Bashlex.C02.C02_full_roundtrip4
#print axioms Bashlex.C02.C02_full_roundtrip5
#print axioms Bashlex.C02.tot_nextToken_num
#print axioms Bashlex.C02.tot_nextToken_amp
