/-
  C10, reader part: pure specifications of `tokenizer._getc(True)`, `tokenizer.readline(False)`
  and `heredoc.makeheredoc` on strings, and the facts that make them the right specification
  (independent of the model monad).

  All functions come in two forms: on the *unread rest* of the input (`…S`, structural recursion,
  used in the proofs) and on `(line, idx)` (the form the theorems about the model are stated in).
-/
import Bashlex.Basic

namespace Bashlex.C10
open Bashlex

/-! ## `_getc(True)` -/

/-- `_getc(True)` on the unread rest: skip backslash-newline pairs, then deliver one character
    (`some none` = end of input, Python `None`).  Outer `none` = IndexError (`line[idx]` after a
    backslash that is the last character of the input). -/
def getcS : Str → Option (Option Char × Str)
  | [] => some (none, [])
  | c :: rest =>
    if c = '\\' then
      match rest with
      | [] => none
      | d :: rest' => if d = '\n' then getcS rest' else some (some c, rest)
    else some (some c, rest)

/-- the input does not end in a backslash (true of every tape built by `Tape.ofInput`, which
    makes the input end in a newline): `_getc` never raises IndexError on such input -/
def NoFinalBackslash (s : Str) : Prop := s.getLast? ≠ some '\\'

instance (s : Str) : Decidable (NoFinalBackslash s) := by unfold NoFinalBackslash; exact inferInstance

theorem NoFinalBackslash.tail {c : Char} {s : Str} (h : NoFinalBackslash (c :: s)) (hs : s ≠ []) :
    NoFinalBackslash s := by
  unfold NoFinalBackslash at *
  cases s with
  | nil => exact absurd rfl hs
  | cons d s' => rwa [List.getLast?_cons_cons] at h

theorem NoFinalBackslash.nil : NoFinalBackslash [] := by simp [NoFinalBackslash]

theorem NoFinalBackslash.drop {s : Str} (h : NoFinalBackslash s) (n : Nat) :
    NoFinalBackslash (s.drop n) := by
  induction n generalizing s with
  | zero => simpa using h
  | succ n ih =>
    cases s with
    | nil => simpa using h
    | cons c s' =>
      rw [List.drop_succ_cons]
      by_cases hs : s' = []
      · subst hs; simp [NoFinalBackslash]
      · exact ih (h.tail hs)

theorem NoFinalBackslash.of_append {p s : Str} (h : NoFinalBackslash (p ++ s)) (hs : s ≠ []) :
    NoFinalBackslash s := by
  unfold NoFinalBackslash at *
  rw [List.getLast?_append] at h
  cases hl : s.getLast? with
  | none => exact absurd (List.getLast?_eq_none_iff.mp hl) hs
  | some c => rw [hl] at h; simpa using h

/-- what `getcS` returns is a suffix of its argument, strictly shorter when a character is read -/
theorem getcS_suffix : ∀ (s : Str) {c : Option Char} {r : Str}, getcS s = some (c, r) →
    ∃ p, s = p ++ r ∧ (c.isSome → p ≠ []) ∧ (c = none → r = [])
  | [], c, r, h => by
    simp only [getcS, Option.some.injEq, Prod.mk.injEq] at h
    obtain ⟨rfl, rfl⟩ := h
    exact ⟨[], rfl, by simp, fun _ => rfl⟩
  | [a], c, r, h => by
    simp only [getcS] at h
    split at h
    · cases h
    · simp only [Option.some.injEq, Prod.mk.injEq] at h
      obtain ⟨rfl, rfl⟩ := h
      exact ⟨[a], rfl, by simp, by simp⟩
  | a :: d :: rest', c, r, h => by
    simp only [getcS] at h
    split at h
    · split at h
      · obtain ⟨p, hp, h1, h2⟩ := getcS_suffix rest' h
        refine ⟨a :: d :: p, by rw [hp]; rfl, by simp, h2⟩
      · simp only [Option.some.injEq, Prod.mk.injEq] at h
        obtain ⟨rfl, rfl⟩ := h
        exact ⟨[a], rfl, by simp, by simp⟩
    · simp only [Option.some.injEq, Prod.mk.injEq] at h
      obtain ⟨rfl, rfl⟩ := h
      exact ⟨[a], rfl, by simp, by simp⟩

theorem getcS_length_le {s : Str} {c : Option Char} {r : Str} (h : getcS s = some (c, r)) :
    r.length ≤ s.length := by
  obtain ⟨p, hp, _, _⟩ := getcS_suffix s h
  rw [hp, List.length_append]; omega

theorem getcS_length_lt {s : Str} {c : Char} {r : Str} (h : getcS s = some (some c, r)) :
    r.length < s.length := by
  obtain ⟨p, hp, h1, _⟩ := getcS_suffix s h
  have : p ≠ [] := h1 rfl
  have : 0 < p.length := List.length_pos_iff.mpr this
  rw [hp, List.length_append]; omega

/-- without a final backslash there is no IndexError -/
theorem getcS_isSome : ∀ (s : Str), NoFinalBackslash s → (getcS s).isSome
  | [], _ => rfl
  | [a], h => by
    have : a ≠ '\\' := by
      intro ha; subst ha; exact h rfl
    simp [getcS, this]
  | a :: d :: rest', h => by
    simp only [getcS]
    split
    · split
      · by_cases hr : rest' = []
        · subst hr; rfl
        · exact getcS_isSome rest' ((h.tail (by simp)).tail hr)
      · rfl
    · rfl

theorem getcS_cons_ne {c : Char} (h : c ≠ '\\') (r : Str) : getcS (c :: r) = some (some c, r) := by
  cases r <;> simp [getcS, h]

/-- drop leading backslash-newline pairs: what `_peekc()` skips before the character it shows -/
def skipCont : Str → Str
  | c :: d :: rest => if c = '\\' ∧ d = '\n' then skipCont rest else c :: d :: rest
  | s => s

theorem skipCont_suffix : ∀ (s : Str), skipCont s <:+ s
  | [] => List.suffix_refl _
  | [_] => List.suffix_refl _
  | c :: d :: rest => by
    simp only [skipCont]
    split
    · exact (skipCont_suffix rest).trans ⟨[c, d], rfl⟩
    · exact List.suffix_refl _

/-- `_getc(True)` delivers the first character after the leading continuation pairs -/
theorem getcS_skipCont : ∀ (s : Str) {c : Option Char} {r : Str}, getcS s = some (c, r) →
    (c = none ∧ r = [] ∧ skipCont s = []) ∨ (∃ ch, c = some ch ∧ skipCont s = ch :: r)
  | [], c, r, h => by
    simp only [getcS, Option.some.injEq, Prod.mk.injEq] at h
    exact Or.inl ⟨h.1.symm, h.2.symm, rfl⟩
  | [a], c, r, h => by
    simp only [getcS] at h
    split at h
    · cases h
    · simp only [Option.some.injEq, Prod.mk.injEq] at h
      exact Or.inr ⟨a, h.1.symm, by rw [← h.2]; rfl⟩
  | a :: d :: rest', c, r, h => by
    simp only [getcS] at h
    simp only [skipCont]
    split at h
    · rename_i ha
      split at h
      · rename_i hd
        rw [if_pos ⟨ha, hd⟩]
        exact getcS_skipCont rest' h
      · rename_i hd
        rw [if_neg (fun hh => hd hh.2)]
        simp only [Option.some.injEq, Prod.mk.injEq] at h
        exact Or.inr ⟨a, h.1.symm, by rw [← h.2]⟩
    · rename_i ha
      rw [if_neg (fun hh => ha hh.1)]
      simp only [Option.some.injEq, Prod.mk.injEq] at h
      exact Or.inr ⟨a, h.1.symm, by rw [← h.2]⟩

theorem NoFinalBackslash.of_suffix {s r : Str} (h : NoFinalBackslash s) (hr : r <:+ s) :
    NoFinalBackslash r := by
  by_cases h0 : r = []
  · subst h0; exact NoFinalBackslash.nil
  · obtain ⟨p, rfl⟩ := hr
    exact h.of_append h0

/-! ## `readline(False)` -/

/-- `readline(False)` on the unread rest: the text of the next line — continuation pairs removed
    (by `_getc(True)` underneath), terminated by a newline which is *added* when the input ends
    without one — and the rest after it.  `none` = Python `None`: the input ended (possibly after
    continuation pairs) before any character was read.  (Also `none` where the code raises
    IndexError; excluded by `NoFinalBackslash`.) -/
def specReadlineS (s : Str) : Option (Str × Str) :=
  match _h : getcS s with
  | none => none
  | some (none, _) => none
  | some (some c, rest) =>
    if c = '\n' then some (['\n'], rest)
    else match specReadlineS rest with
      | some (txt, r) => some (c :: txt, r)
      | none => some ([c, '\n'], [])
termination_by s.length
decreasing_by exact getcS_length_lt _h

/-- `specReadlineS` unfolded once: one iteration of the `while True` loop of `readline` -/
theorem specReadlineS_eq (s : Str) : specReadlineS s =
    match getcS s with
    | none => none
    | some (none, _) => none
    | some (some c, rest) =>
      if c = '\n' then some (['\n'], rest)
      else match specReadlineS rest with
        | some (txt, r) => some (c :: txt, r)
        | none => some ([c, '\n'], []) := by
  rw [specReadlineS]
  split <;> simp_all

/-- the rest after a line is a strict suffix -/
theorem specReadlineS_suffix : ∀ (n : Nat) (s : Str), s.length ≤ n → ∀ {txt r : Str},
    specReadlineS s = some (txt, r) → ∃ p, s = p ++ r ∧ p ≠ []
  | 0, s, hn, txt, r, h => by
    have : s = [] := List.eq_nil_of_length_eq_zero (Nat.le_zero.mp hn)
    subst this; rw [specReadlineS_eq] at h; simp [getcS] at h
  | n + 1, s, hn, txt, r, h => by
    rw [specReadlineS_eq] at h
    split at h
    · cases h
    · cases h
    · rename_i c rest hg
      obtain ⟨p, hp, h1, _⟩ := getcS_suffix s hg
      have hp0 : p ≠ [] := h1 rfl
      have hlt := getcS_length_lt hg
      split at h
      · simp only [Option.some.injEq, Prod.mk.injEq] at h
        obtain ⟨_, rfl⟩ := h
        exact ⟨p, hp, hp0⟩
      · split at h
        · rename_i txt' r' hr
          simp only [Option.some.injEq, Prod.mk.injEq] at h
          obtain ⟨_, rfl⟩ := h
          obtain ⟨p', hp', _⟩ := specReadlineS_suffix n rest (by omega) hr
          refine ⟨p ++ p', by rw [hp, hp', List.append_assoc], by simp [hp0]⟩
        · simp only [Option.some.injEq, Prod.mk.injEq] at h
          obtain ⟨_, rfl⟩ := h
          rename_i hr
          -- the rest was read to the end
          refine ⟨s, by simp, ?_⟩
          intro hs; rw [hs] at hp
          exact hp0 (List.append_eq_nil_iff.mp hp.symm).1

theorem specReadlineS_length_lt {s txt r : Str} (h : specReadlineS s = some (txt, r)) :
    r.length < s.length := by
  obtain ⟨p, hp, hp0⟩ := specReadlineS_suffix s.length s (Nat.le_refl _) h
  have : 0 < p.length := List.length_pos_iff.mpr hp0
  rw [hp, List.length_append]; omega

/-- a line returned by `readline` is a non-empty text without newline followed by one newline -/
theorem specReadlineS_text : ∀ (n : Nat) (s : Str), s.length ≤ n → ∀ {txt r : Str},
    specReadlineS s = some (txt, r) → ∃ body, txt = body ++ ['\n'] ∧ '\n' ∉ body
  | 0, s, hn, txt, r, h => by
    have : s = [] := List.eq_nil_of_length_eq_zero (Nat.le_zero.mp hn)
    subst this; rw [specReadlineS_eq] at h; simp [getcS] at h
  | n + 1, s, hn, txt, r, h => by
    rw [specReadlineS_eq] at h
    split at h
    · cases h
    · cases h
    · rename_i c rest hg
      have hlt := getcS_length_lt hg
      split at h
      · simp only [Option.some.injEq, Prod.mk.injEq] at h
        obtain ⟨rfl, _⟩ := h
        exact ⟨[], rfl, by simp⟩
      · rename_i hc
        split at h
        · rename_i txt' r' hr
          simp only [Option.some.injEq, Prod.mk.injEq] at h
          obtain ⟨rfl, _⟩ := h
          obtain ⟨b, hb, hnb⟩ := specReadlineS_text n rest (by omega) hr
          refine ⟨c :: b, by rw [hb]; rfl, ?_⟩
          simp only [List.mem_cons, not_or]
          exact ⟨fun h => hc h.symm, hnb⟩
        · simp only [Option.some.injEq, Prod.mk.injEq] at h
          obtain ⟨rfl, _⟩ := h
          refine ⟨[c], rfl, ?_⟩
          simp only [List.mem_singleton]
          exact fun h => hc h.symm

/-! ## `makeheredoc` -/

/-- `while fullline[0] == '\t': fullline = fullline[1:]` (total version) -/
def stripTabs : Str → Str
  | [] => []
  | c :: cs => if c = '\t' then stripTabs cs else c :: cs

/-- the line as `makeheredoc` compares and stores it -/
def heredocLine (kill : Bool) (txt : Str) : Str := if kill then stripTabs txt else txt

/-- `makeheredoc` on the unread rest: the document and the rest after the delimiter line.
    The delimiter line is appended without its newline.  `none`: the input ends first. -/
def specHeredocS (delim : Str) (kill : Bool) (s : Str) : Option (Str × Str) :=
  match _h : specReadlineS s with
  | none => none
  | some (txt, rest) =>
    if (heredocLine kill txt).dropLast = delim then some (delim, rest)
    else
      match specHeredocS delim kill rest with
      | none => none
      | some (v, r) => some (heredocLine kill txt ++ v, r)
termination_by s.length
decreasing_by exact specReadlineS_length_lt _h

theorem specHeredocS_eq (delim : Str) (kill : Bool) (s : Str) : specHeredocS delim kill s =
    match specReadlineS s with
    | none => none
    | some (txt, rest) =>
      if (heredocLine kill txt).dropLast = delim then some (delim, rest)
      else
        match specHeredocS delim kill rest with
        | none => none
        | some (v, r) => some (heredocLine kill txt ++ v, r) := by
  rw [specHeredocS]
  split <;> simp_all

/-- the text of a line ends in a newline -/
theorem specReadlineS_last {s txt r : Str} (h : specReadlineS s = some (txt, r)) :
    txt.getLast? = some '\n' := by
  obtain ⟨b, hb, _⟩ := specReadlineS_text s.length s (Nat.le_refl _) h
  rw [hb]; simp

/-- the rest after a here-document is a strict suffix -/
theorem specHeredocS_suffix (delim : Str) (kill : Bool) : ∀ (n : Nat) (s : Str), s.length ≤ n →
    ∀ {v r : Str}, specHeredocS delim kill s = some (v, r) → ∃ p, s = p ++ r ∧ p ≠ []
  | 0, s, hn, v, r, h => by
    have : s = [] := List.eq_nil_of_length_eq_zero (Nat.le_zero.mp hn)
    subst this
    rw [specHeredocS_eq, specReadlineS_eq] at h; simp [getcS] at h
  | n + 1, s, hn, v, r, h => by
    rw [specHeredocS_eq] at h
    cases hr : specReadlineS s with
    | none => rw [hr] at h; cases h
    | some w =>
      obtain ⟨txt, rest⟩ := w
      rw [hr] at h
      obtain ⟨p, hp, hp0⟩ := specReadlineS_suffix s.length s (Nat.le_refl _) hr
      have hlt := specReadlineS_length_lt hr
      simp only [] at h
      split at h
      · simp only [Option.some.injEq, Prod.mk.injEq] at h
        obtain ⟨_, rfl⟩ := h
        exact ⟨p, hp, hp0⟩
      · cases hh : specHeredocS delim kill rest with
        | none => rw [hh] at h; cases h
        | some w =>
          obtain ⟨v', r'⟩ := w
          rw [hh] at h
          simp only [Option.some.injEq, Prod.mk.injEq] at h
          obtain ⟨_, rfl⟩ := h
          obtain ⟨p', hp', _⟩ := specHeredocS_suffix delim kill n rest (by omega) hh
          exact ⟨p ++ p', by rw [hp, hp', List.append_assoc], by simp [hp0]⟩

theorem specHeredocS_isSuffix {delim : Str} {kill : Bool} {s v r : Str}
    (h : specHeredocS delim kill s = some (v, r)) : r <:+ s := by
  obtain ⟨p, hp, _⟩ := specHeredocS_suffix delim kill s.length s (Nat.le_refl _) h
  exact ⟨p, hp.symm⟩

theorem specReadlineS_isSuffix {s txt r : Str} (h : specReadlineS s = some (txt, r)) : r <:+ s := by
  obtain ⟨p, hp, _⟩ := specReadlineS_suffix s.length s (Nat.le_refl _) h
  exact ⟨p, hp.symm⟩

theorem eq_dropLast_append {s : Str} (h : s.getLast? = some '\n') : s = s.dropLast ++ ['\n'] := by
  obtain ⟨ys, rfl⟩ := List.getLast?_eq_some_iff.mp h
  rw [List.dropLast_concat]

/-! ## the `(line, idx)` forms -/

/-- position reached in `line` when `rest` is what remains unread -/
def posOf (line rest : Str) : Nat := line.length - rest.length

/-- `readline(False)` with the cursor at `idx`: the text and the cursor after it -/
def specReadline (line : Str) (idx : Nat) : Option (Str × Nat) :=
  (specReadlineS (line.drop idx)).map fun (txt, rest) => (txt, posOf line rest)

/-- `makeheredoc` with the cursor at `start`: the document value and the cursor after the
    delimiter line -/
def specHeredoc (line : Str) (start : Nat) (delim : Str) (kill : Bool) : Option (Str × Nat) :=
  (specHeredocS delim kill (line.drop start)).map fun (v, rest) => (v, posOf line rest)

end Bashlex.C10
