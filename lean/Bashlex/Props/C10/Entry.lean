/-
  C10, reader part: the state in which `_readtoken` enters `gatherheredocuments`.
  `readtoken_eq` splits the model's `readtoken` into the part that determines the first character
  of the token (`readtokenHead`) and the rest (`readtokenTail g`, with the call of
  `gatherheredocuments` abstracted); `readtoken_gather_slot_empty`: putting a guard
  "`_eol_ungetc_lookahead` is empty" in front of that call does not change any run, i.e. hypothesis
  `Ready.eol` of the reader theorems holds at this call site in every state.
-/
import Bashlex.Props.C10.Gather

namespace Bashlex.C10
open Bashlex
set_option linter.unusedSimpArgs false
set_option linter.unusedVariables false

/-- `_getc` always leaves `_eol_ungetc_lookahead` empty (in `_readtoken` the call of
    `gatherheredocuments` follows a `_getc` with only `_recordpos` in between) -/
theorem getc_clears_slot (rqn : Bool) (l : Local) (e : Env) {c : Option Char} {l' : Local} {e' : Env}
    (h : M.run (getc rqn) l e = (.ok (c, l'), e')) : l'.eolLookahead = none := by
  cases hl : l.eolLookahead with
  | some ch =>
    have : M.run (getc rqn) l e = (.ok (some ch, { l with eolLookahead := none }), e) := by
      unfold getc
      simp only [M.run_bind, run_get, hl, run_set, M.run_pure]
    rw [this] at h
    simp only [Prod.mk.injEq, Except.ok.injEq] at h
    rw [← h.1.2]
  | none =>
    rw [run_getc rqn l e hl] at h
    split at h
    · simp only [Prod.mk.injEq, Except.ok.injEq] at h
      rw [← h.1.2, putL_eol]; exact hl
    · simp at h

/-- `_readtoken` after the character that starts the token was determined, with the call of
    `gatherheredocuments` abstracted to `g` -/
def readtokenTail (g : M Unit) (character : Char) : M (TokType ⊕ Token) := do
  recordpos 1
  if character == '\n' then
    g
    modify fun l => { l with ps := { l.ps with assignok := false } }
    return .inl (← tokentypeOfChar character)
  if (← get).ps.regexp then
    return .inr (← readtokenword character)
  if (← shellmeta character) && !(← get).ps.dblparen then
    match ← readtokenMeta character with
    | some t => return .inl t
    | none => pure ()
  let l ← get
  if character == '-' && (l.lastReadToken.is .LESS_AND || l.lastReadToken.is .GREATER_AND) then
    return .inl (← tokentypeOfChar character)
  return .inr (← readtokenword character)

/-- `_readtoken` up to there: skip blanks and a comment; `none` = end of input -/
def readtokenHead : M (Option Char) := do
  let fuel ← loopFuel
  let c0 ← getc true
  let c1 ← M.loop "_readtoken" (fun (c : Option Char) => do
    match c with
    | some ch => if shellblank ch then return .inl (← getc true) else return .inr c
    | none => return .inr c) fuel c0
  match c1 with
  | none => return none
  | some ch =>
    if ch == '#' then
      discardUntil '\n'
      let _ ← getc false
      return some '\n'
    else return some ch

theorem readtoken_eq : readtoken = (do
    match ← readtokenHead with
    | none => return .inr { ttype := some .EOF, value := .none }
    | some character => readtokenTail gatherheredocuments character) := by
  unfold readtoken readtokenHead
  simp only [bind_assoc, pure_bind]
  refine bind_congr (fun fuel => bind_congr (fun c0 => bind_congr (fun c1 => ?_)))
  cases c1 with
  | none => rfl
  | some ch =>
    simp only []
    by_cases hc : (ch == '#') = true
    · simp only [hc, if_true, bind_assoc, pure_bind]
      rfl
    · simp only [hc, if_false, Bool.false_eq_true, bind_assoc, pure_bind]
      rfl


/-! ### the look-ahead slot is empty whenever `_readtoken` enters `gatherheredocuments` -/

/-- every normal return of `m` leaves the look-ahead slot empty -/
def EndsEol {α : Type} (m : M α) : Prop :=
  ∀ l e a l' e', M.run m l e = (.ok (a, l'), e') → l'.eolLookahead = none
/-- `m` started with an empty slot returns with an empty slot -/
def KeepsEol {α : Type} (m : M α) : Prop :=
  ∀ l e a l' e', l.eolLookahead = none → M.run m l e = (.ok (a, l'), e') → l'.eolLookahead = none

theorem EndsEol.keeps {α : Type} {m : M α} (h : EndsEol m) : KeepsEol m :=
  fun l e a l' e' _ hr => h l e a l' e' hr

theorem run_bind_ok {α β : Type} {m : M α} {f : α → M β} {l : Local} {e : Env} {b : β}
    {l2 : Local} {e2 : Env} (h : M.run (m >>= f) l e = (.ok (b, l2), e2)) :
    ∃ a l1 e1, M.run m l e = (.ok (a, l1), e1) ∧ M.run (f a) l1 e1 = (.ok (b, l2), e2) := by
  rw [M.run_bind] at h
  rcases hm : M.run m l e with ⟨r, e1⟩
  rw [hm] at h
  cases r with
  | error x => simp at h
  | ok v => obtain ⟨a, l1⟩ := v; exact ⟨a, l1, e1, rfl, h⟩

theorem KeepsEol.pure {α : Type} (a : α) : KeepsEol (Pure.pure a : M α) := by
  intro l e a' l' e' hl hr
  rw [M.run_pure] at hr
  simp only [Prod.mk.injEq, Except.ok.injEq] at hr
  rw [← hr.1.2]; exact hl

theorem KeepsEol.bind {α β : Type} {m : M α} {f : α → M β} (hm : KeepsEol m)
    (hf : ∀ a, KeepsEol (f a)) : KeepsEol (m >>= f) := by
  intro l e b l2 e2 hl hr
  obtain ⟨a, l1, e1, h1, h2⟩ := run_bind_ok hr
  exact hf a l1 e1 b l2 e2 (hm l e a l1 e1 hl h1) h2

theorem EndsEol.bind_right {α β : Type} {m : M α} {f : α → M β} (hf : ∀ a, EndsEol (f a)) :
    EndsEol (m >>= f) := by
  intro l e b l2 e2 hr
  obtain ⟨a, l1, e1, h1, h2⟩ := run_bind_ok hr
  exact hf a l1 e1 b l2 e2 h2

theorem EndsEol.bind_left {α β : Type} {m : M α} {f : α → M β} (hm : EndsEol m)
    (hf : ∀ a, KeepsEol (f a)) : EndsEol (m >>= f) := by
  intro l e b l2 e2 hr
  obtain ⟨a, l1, e1, h1, h2⟩ := run_bind_ok hr
  exact hf a l1 e1 b l2 e2 (hm l e a l1 e1 h1) h2

theorem KeepsEol.loop {σ α : Type} {site : String} {body : σ → M (σ ⊕ α)}
    (hb : ∀ s, KeepsEol (body s)) : ∀ (fuel : Nat) (s : σ), KeepsEol (M.loop site body fuel s)
  | 0, s => by
    intro l e a l' e' _ hr
    rw [run_loop_zero] at hr; simp at hr
  | fuel + 1, s => by
    show KeepsEol (body s >>= _)
    refine KeepsEol.bind (hb s) (fun r => ?_)
    cases r with
    | inl s' => exact KeepsEol.loop hb fuel s'
    | inr a => exact KeepsEol.pure a

theorem endsEol_getc (rqn : Bool) : EndsEol (getc rqn) :=
  fun l e _ _ _ hr => getc_clears_slot rqn l e hr

theorem endsEol_readtokenHead : EndsEol readtokenHead := by
  unfold readtokenHead
  refine EndsEol.bind_right (fun fuel => ?_)
  refine EndsEol.bind_left (endsEol_getc true) (fun c0 => ?_)
  refine KeepsEol.bind ?_ (fun c1 => ?_)
  · refine KeepsEol.loop (fun c => ?_) fuel c0
    cases c with
    | none => exact KeepsEol.pure _
    | some ch =>
      simp only []
      split
      · exact ((endsEol_getc true).bind_left (fun a => KeepsEol.pure _)).keeps
      · exact KeepsEol.pure _
  · cases c1 with
    | none => exact KeepsEol.pure _
    | some ch =>
      simp only []
      split
      · exact (EndsEol.bind_right (fun _ =>
          (endsEol_getc false).bind_left (fun _ => KeepsEol.pure _))).keeps
      · exact KeepsEol.pure _

/-- a guard that raises unless `_eol_ungetc_lookahead` is empty -/
def slotGuard : M Unit := do
  if (← get).eolLookahead.isSome then M.foreign "AssertionError" "slotGuard"

theorem run_slotGuard {l : Local} (h : l.eolLookahead = none) (e : Env) :
    M.run slotGuard l e = (.ok ((), l), e) := by
  unfold slotGuard
  simp only [M.run_bind, run_get, h, Option.isSome_none, Bool.false_eq_true, if_false, M.run_pure]

theorem run_recordpos (rel : Nat) (l : Local) (e : Env) :
    M.run (recordpos rel) l e =
      (.ok ((), { l with positions := l.positions ++ [(tapeOf l e).idx - rel] }), e) := by
  unfold recordpos
  simp only [M.run_bind, run_curIdx, run_modify]

theorem run_readtokenTail_guard {l : Local} (h : l.eolLookahead = none) (e : Env) (ch : Char) :
    M.run (readtokenTail (slotGuard >>= fun _ => gatherheredocuments) ch) l e =
      M.run (readtokenTail gatherheredocuments ch) l e := by
  unfold readtokenTail
  simp only [M.run_bind, run_recordpos]
  split
  · simp only [M.run_bind]
    rw [run_slotGuard (by simpa using h)]
  · rfl

/-- the guard is dead: `_readtoken` enters `gatherheredocuments` only with an empty
    `_eol_ungetc_lookahead` (hypothesis `Ready.eol` holds at this call site, in every state) -/
theorem readtoken_gather_slot_empty (l : Local) (e : Env) :
    M.run readtoken l e = M.run (do
      match ← readtokenHead with
      | none => return .inr { ttype := some .EOF, value := .none }
      | some character =>
        readtokenTail (slotGuard >>= fun _ => gatherheredocuments) character) l e := by
  rw [readtoken_eq, M.run_bind, M.run_bind]
  rcases hh : M.run readtokenHead l e with ⟨r, e1⟩
  cases r with
  | error x => rfl
  | ok v =>
    obtain ⟨o, l1⟩ := v
    cases o with
    | none => rfl
    | some ch =>
      simp only []
      exact (run_readtokenTail_guard (endsEol_readtokenHead l e _ l1 e1 hh) e1 ch).symm

end Bashlex.C10
