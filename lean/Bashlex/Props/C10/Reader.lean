/-
  C10, reader part: `_getc`, `_peekc`, `readline(False)` and `makeheredoc` of the model compute
  the pure specifications of `Spec.lean`, for top-level and nested parsers alike (uniform view of
  `Tape.lean`).  States are written `(stL l e s, stE l e s)`: "the state `(l, e)` with the cursor
  where the suffix `s` of the input remains unread".
-/
import Bashlex.Props.C10.Tape

namespace Bashlex.C10
open Bashlex
set_option linter.unusedSimpArgs false
set_option linter.unusedVariables false


theorem drop_nil_iff {line : Str} {i : Nat} (h : line.drop i = []) : line[i]? = none := by
  rw [List.getElem?_eq_none_iff]; exact List.drop_eq_nil_iff.mp h

theorem drop_cons {line : Str} {i : Nat} {c : Char} {r : Str} (h : line.drop i = c :: r) :
    line[i]? = some c ∧ line.drop (i + 1) = r ∧ i < line.length := by
  have h1 : (line.drop i).head? = some c := by rw [h]; rfl
  have h2 : (line.drop i).tail = r := by rw [h]; rfl
  rw [List.head?_drop] at h1
  rw [List.tail_drop] at h2
  refine ⟨h1, h2, ?_⟩
  exact (List.getElem?_eq_some_iff.mp h1).1

theorem tape_getc_spec : ∀ (fuel : Nat) (t : Tape), t.idx ≤ t.line.length →
    t.line.length - t.idx < fuel →
    t.getc true fuel = match getcS (t.line.drop t.idx) with
      | none => .error ()
      | some (c, rest) => .ok (c, seek t rest)
  | 0, t, _, hf => absurd hf (Nat.not_lt_zero _)
  | fuel + 1, t, hi, hf => by
    rw [Tape.getc_succ]
    cases hd : t.line.drop t.idx with
    | nil =>
      rw [drop_nil_iff hd]
      have : t.idx = t.line.length := by
        have := List.drop_eq_nil_iff.mp hd; omega
      simp only [getcS]
      congr 2
      unfold seek posOf; rw [List.length_nil, Nat.sub_zero, ← this]
    | cons c r =>
      obtain ⟨h1, h2, h3⟩ := drop_cons hd
      rw [h1]
      simp only [Bool.and_true, beq_iff_eq]
      by_cases hc : c = '\\'
      · subst hc
        simp only [if_true]
        cases hr : r with
        | nil =>
          rw [hr] at h2
          rw [drop_nil_iff h2]
          simp only [getcS, if_true]
        | cons d r' =>
          rw [hr] at h2
          obtain ⟨g1, g2, g3⟩ := drop_cons h2
          rw [g1]
          simp only [getcS, if_true]
          by_cases hdn : d = '\n'
          · subst hdn
            simp only [if_true]
            have ih := tape_getc_spec fuel { t with idx := t.idx + 2 } (by simp only; omega)
              (by simp only; omega)
            simp only at ih
            rw [ih, g2]
            rfl
          · simp only [if_neg hdn]
            congr 2
            unfold seek; rw [← h2, posOf_drop (by omega)]
      · simp only [if_neg hc, getcS_cons_ne hc]
        congr 2
        unfold seek; rw [← h2, posOf_drop (by omega)]


theorem suffix_posOf_le {line s : Str} (h : s <:+ line) : s.length ≤ line.length := h.length_le

theorem run_getc_st (l : Local) (e : Env) (hla : l.eolLookahead = none) {s : Str}
    (hs : s <:+ (tapeOf l e).line) :
    M.run (getc true) (stL l e s) (stE l e s) =
      match getcS s with
      | none => (.error (.foreign "IndexError" "_getc"), stE l e s)
      | some (c, rest) => (.ok (c, stL l e rest), stE l e rest) := by
  rw [run_getc _ _ _ (by rw [stL_eol]; exact hla), tapeOf_st]
  rw [tape_getc_spec _ _ (by simp only [seek_idx, seek_line]; exact posOf_le _ _)
    (by simp only [seek_idx, seek_line]; omega)]
  simp only [seek_idx, seek_line, drop_posOf hs]
  cases getcS s with
  | none => rfl
  | some v =>
    obtain ⟨c, rest⟩ := v
    simp only [seek_seek]
    unfold stL stE
    rw [putL_putL, putE_putE]

def rlBody (removequotenewline : Bool) (st : RLState) : M (RLState ⊕ Option Str) := do
    let c0 ← getc
    if c0.isNone && st.indx == 0 then return .inr none
    let c : Char := c0.getD '\n'
    let mut st := st
    if st.passnext then
      st := { st with linebuffer := st.linebuffer ++ [c], indx := st.indx + 1, passnext := false }
    else if c == '\\' && removequotenewline then
      let peek ← getc
      if peek == some '\n' then
        return .inl st            -- `continue`
      else
        ungetc peek
        st := { st with passnext := true, linebuffer := st.linebuffer ++ [c], indx := st.indx + 1 }
    else
      st := { st with linebuffer := st.linebuffer ++ [c], indx := st.indx + 1 }
    if c == '\n' then return .inr (some st.linebuffer)
    return .inl st

theorem readline_eq (rqn : Bool) :
    readline rqn = (loopFuel >>= fun fuel => M.loop "readline" (rlBody rqn) fuel {}) := rfl

theorem run_rlBody (l : Local) (e : Env) (hla : l.eolLookahead = none) {s : Str}
    (hs : s <:+ (tapeOf l e).line) (acc : Str) (n : Nat) :
    M.run (rlBody false { linebuffer := acc, passnext := false, indx := n }) (stL l e s) (stE l e s) =
      match getcS s with
      | none => (.error (.foreign "IndexError" "_getc"), stE l e s)
      | some (none, rest) =>
        if n = 0 then (.ok (.inr none, stL l e rest), stE l e rest)
        else (.ok (.inr (some (acc ++ ['\n'])), stL l e rest), stE l e rest)
      | some (some c, rest) =>
        if c = '\n' then (.ok (.inr (some (acc ++ ['\n'])), stL l e rest), stE l e rest)
        else (.ok (.inl { linebuffer := acc ++ [c], passnext := false, indx := n + 1 }, stL l e rest),
              stE l e rest) := by
  unfold rlBody
  simp only [M.run_bind]
  rw [run_getc_st l e hla hs]
  cases getcS s with
  | none => rfl
  | some v =>
    obtain ⟨c, rest⟩ := v
    cases c with
    | none =>
      by_cases hn : n = 0
      · subst hn; rfl
      · simp [hn, M.run_pure]
    | some c =>
      by_cases hc : c = '\n'
      · subst hc; simp [M.run_pure]
      · simp [hc, M.run_pure]

/-! ## `_peekc` -/

/-- `_ungetc` right after a character was read moves the cursor back onto it -/
theorem run_ungetc_st (l : Local) (e : Env) (c : Option Char) {ch : Char} {r : Str}
    (hs : ch :: r <:+ (tapeOf l e).line) :
    M.run (ungetc c) (stL l e r) (stE l e r) = (.ok ((), stL l e (ch :: r)), stE l e (ch :: r)) := by
  rw [run_ungetc, tapeOf_st]
  obtain ⟨p, hp⟩ := hs
  have hlen : (tapeOf l e).line.length = p.length + (r.length + 1) := by
    rw [← hp, List.length_append, List.length_cons]
  have h1 : posOf (tapeOf l e).line r = p.length + 1 := by unfold posOf; omega
  have h2 : posOf (tapeOf l e).line (ch :: r) = p.length := by
    unfold posOf; rw [List.length_cons]; omega
  have hne : (tapeOf l e).line ≠ [] := by
    intro h; rw [h] at hlen; simp at hlen
  have : (seek (tapeOf l e) r).ungetc = (true, seek (tapeOf l e) (ch :: r)) := by
    unfold Tape.ungetc
    simp only [seek_line, seek_idx, h1, h2]
    rw [if_pos]
    · simp [seek, h2]
    · simp [hne]; omega
  rw [this]
  simp only [seek_seek]
  unfold stL stE
  rw [putL_putL, putE_putE]

/-- `_peekc()`: shows the first character after leading continuation pairs and leaves the cursor
    on it (the pairs stay consumed) -/
theorem run_peekc_st (l : Local) (e : Env) (hla : l.eolLookahead = none) {s : Str}
    (hs : s <:+ (tapeOf l e).line) (hbs : NoFinalBackslash s) :
    M.run (peekc true) (stL l e s) (stE l e s) =
      (.ok ((skipCont s).head?, stL l e (skipCont s)), stE l e (skipCont s)) := by
  unfold peekc
  simp only [M.run_bind]
  rw [run_getc_st l e hla hs]
  have hsome := getcS_isSome s hbs
  cases hg : getcS s with
  | none => rw [hg] at hsome; cases hsome
  | some v =>
    obtain ⟨c, rest⟩ := v
    rcases getcS_skipCont s hg with ⟨rfl, rfl, h3⟩ | ⟨ch, rfl, h3⟩
    · rw [h3]; rfl
    · rw [h3]
      have hs2 : ch :: rest <:+ (tapeOf l e).line := by
        rw [← h3]; exact (skipCont_suffix s).trans hs
      simp only [Option.isSome_some, if_true]
      rw [M.run_bind, run_ungetc_st l e _ hs2]
      rfl

/-! ## `readline(False)` -/

theorem run_readline_loop (l : Local) (e : Env) (hla : l.eolLookahead = none) :
    ∀ (fuel : Nat) (s : Str), s <:+ (tapeOf l e).line → NoFinalBackslash s → s.length < fuel →
    ∀ (acc : Str) (n : Nat),
    M.run (M.loop "readline" (rlBody false) fuel { linebuffer := acc, passnext := false, indx := n })
        (stL l e s) (stE l e s) =
      match specReadlineS s with
      | some (txt, r) => (.ok (some (acc ++ txt), stL l e r), stE l e r)
      | none =>
        if n = 0 then (.ok (none, stL l e []), stE l e [])
        else (.ok (some (acc ++ ['\n']), stL l e []), stE l e [])
  | 0, s, _, _, hf, _, _ => absurd hf (Nat.not_lt_zero _)
  | fuel + 1, s, hs, hbs, hf, acc, n => by
    rw [run_loop_succ, run_rlBody l e hla hs, specReadlineS_eq s]
    have hsome := getcS_isSome s hbs
    cases hg : getcS s with
    | none => rw [hg] at hsome; cases hsome
    | some v =>
      obtain ⟨c, rest⟩ := v
      obtain ⟨p, hp, _, hnone⟩ := getcS_suffix s hg
      cases c with
      | none =>
        have := hnone rfl; subst this
        by_cases hn : n = 0
        · simp only [hn, if_true]
        · simp only [hn, if_false]
      | some c =>
        by_cases hc : c = '\n'
        · simp only [hc, if_true]
        · simp only [hc, if_false]
          have hrs : rest <:+ s := ⟨p, hp.symm⟩
          have hlt := getcS_length_lt hg
          rw [run_readline_loop l e hla fuel rest (hrs.trans hs) (hbs.of_suffix hrs) (by omega)]
          cases specReadlineS rest with
          | none => simp
          | some w => obtain ⟨txt, r⟩ := w; simp

theorem run_readline_st (l : Local) (e : Env) (hla : l.eolLookahead = none) {s : Str}
    (hs : s <:+ (tapeOf l e).line) (hbs : NoFinalBackslash s) (hlen : s.length < 1073741824) :
    M.run (readline false) (stL l e s) (stE l e s) =
      match specReadlineS s with
      | some (txt, r) => (.ok (some txt, stL l e r), stE l e r)
      | none => (.ok (none, stL l e []), stE l e []) := by
  rw [readline_eq, M.run_bind]
  show M.run (M.loop "readline" (rlBody false) 1073741824 { linebuffer := [], passnext := false, indx := 0 }) _ _ = _
  rw [run_readline_loop l e hla _ s hs hbs hlen]
  cases specReadlineS s with
  | none => simp
  | some w => obtain ⟨txt, r⟩ := w; simp

/-! ## `makeheredoc` -/

/-- the body of the `while fullline:` loop of `makeheredoc` -/
def mhBody (redirword : Str) (killleading : Bool) (st : HDState) : M (HDState ⊕ HDState) := do
    if !strTruthy st.fullline then return .inr st
    let mut fullline : Str := st.fullline.getD []
    if killleading then
      match stripLeadingTabs fullline with
      | none => M.foreign "IndexError" "makeheredoc"
      | some f => fullline := f
    if fullline.isEmpty then return .inl { st with fullline := some fullline }   -- `continue`
    if pyDropLastN fullline 1 == redirword then
      match fullline[redirword.length]? with
      | none => M.foreign "IndexError" "makeheredoc"
      | some ch =>
        if ch == '\n' then
          -- `break` with a truthy `fullline`
          return .inr { fullline := some fullline, document := st.document ++ pyDropLastN fullline 1 }
    let document := st.document ++ fullline
    let next ← readline false
    return .inl { fullline := next, document := document }

/-- what `makeheredoc` does once the loop has ended -/
def mhFinish (id : Nat) (cell : RedirCell) (startpos : Nat) (fin : HDState) : M Unit := do
  if !strTruthy fin.fullline then
    let line ← tapeLine
    let i ← curIdx
    M.raise (mkParsingError
      ("here-document at line 0 delimited by end-of-file (wanted " ++ pyReprStr cell.delim ++ ")")
      line (i : Int))
  let document := fin.document
  let endpos := (← curIdx) - 1
  let l ← get
  let pos := if cell.pos.2 + 1 == startpos then (cell.pos.1, endpos) else cell.pos
  let cell' : RedirCell :=
    { cell with heredoc := some ((startpos, endpos), document), pos := pos }
  set { l with store := l.store.set id cell' }

theorem makeheredoc_eq (id : Nat) (kill : Bool) :
    makeheredoc id kill = (do
      let l ← get
      let cell ← match l.store[id]? with
        | some c => pure c
        | none => M.foreign "IndexError" "makeheredoc"
      let startpos ← curIdx
      let first ← readline false
      let fuel ← loopFuel
      let fin ← M.loop "makeheredoc" (mhBody cell.delim kill) fuel { fullline := first }
      mhFinish id cell startpos fin) := rfl


theorem stripLeadingTabs_eq : ∀ (s : Str), s.getLast? = some '\n' →
    stripLeadingTabs s = some (stripTabs s) ∧ (stripTabs s).getLast? = some '\n'
  | [], h => by simp at h
  | [c], h => by
    simp only [List.getLast?_singleton, Option.some.injEq] at h
    subst h
    exact ⟨rfl, rfl⟩
  | c :: d :: r, h => by
    rw [List.getLast?_cons_cons] at h
    by_cases hc : c = '\t'
    · subst hc
      simp only [stripLeadingTabs, stripTabs, beq_self_eq_true, if_true]
      exact stripLeadingTabs_eq (d :: r) h
    · have hb : (c == '\t') = false := by simpa using hc
      simp only [stripLeadingTabs, stripTabs, hb, if_neg hc, Bool.false_eq_true, if_false]
      exact ⟨trivial, by rw [List.getLast?_cons_cons]; exact h⟩

theorem heredocLine_last (kill : Bool) {txt : Str} (h : txt.getLast? = some '\n') :
    (heredocLine kill txt).getLast? = some '\n' := by
  unfold heredocLine; cases kill
  · exact h
  · exact (stripLeadingTabs_eq txt h).2

theorem mhBody_none (d : Str) (k : Bool) (doc : Str) :
    mhBody d k { fullline := none, document := doc } =
      pure (.inr { fullline := none, document := doc }) := rfl

theorem mhBody_match (d : Str) (k : Bool) (doc : Str) {txt : Str} (h : txt.getLast? = some '\n')
    (hm : (heredocLine k txt).dropLast = d) :
    mhBody d k { fullline := some txt, document := doc } =
      pure (.inr { fullline := some (heredocLine k txt), document := doc ++ d }) := by
  have hl := heredocLine_last k h
  have heq := eq_dropLast_append hl
  rw [hm] at heq
  have hne : txt ≠ [] := by intro h0; subst h0; simp at h
  have htr : strTruthy (some txt) = true := by
    cases txt with
    | nil => exact absurd rfl hne
    | cons => rfl
  have hidx : (heredocLine k txt)[d.length]? = some '\n' := by
    rw [heq]; simp
  have hdl : pyDropLastN (heredocLine k txt) 1 = d := by
    unfold pyDropLastN; rw [← List.dropLast_eq_take, hm]
  have hemp : (heredocLine k txt).isEmpty = false := by
    rw [heq]; simp
  unfold mhBody
  cases k
  · rw [show heredocLine false txt = txt from rfl] at hidx hdl hemp ⊢
    simp [htr, hidx, hdl, hemp]
  · rw [show heredocLine true txt = stripTabs txt from rfl] at hidx hdl hemp ⊢
    simp [htr, hidx, hdl, hemp, (stripLeadingTabs_eq txt h).1]

theorem mhBody_nomatch (d : Str) (k : Bool) (doc : Str) {txt : Str} (h : txt.getLast? = some '\n')
    (hm : (heredocLine k txt).dropLast ≠ d) :
    mhBody d k { fullline := some txt, document := doc } =
      (readline false >>= fun next =>
        pure (.inl { fullline := next, document := doc ++ heredocLine k txt })) := by
  have hl := heredocLine_last k h
  have heq := eq_dropLast_append hl
  have hne : txt ≠ [] := by intro h0; subst h0; simp at h
  have htr : strTruthy (some txt) = true := by
    cases txt with
    | nil => exact absurd rfl hne
    | cons => rfl
  have hdl : (pyDropLastN (heredocLine k txt) 1 == d) = false := by
    unfold pyDropLastN; rw [← List.dropLast_eq_take]; simpa using hm
  have hemp : (heredocLine k txt).isEmpty = false := by
    rw [heq]; simp
  unfold mhBody
  cases k
  · rw [show heredocLine false txt = txt from rfl] at hdl hemp ⊢
    simp [htr, hdl, hemp]
  · rw [show heredocLine true txt = stripTabs txt from rfl] at hdl hemp ⊢
    simp [htr, hdl, hemp, (stripLeadingTabs_eq txt h).1]


theorem mh_loop_nomatch (d : Str) (k : Bool) (doc : Str) (fuel : Nat) {txt : Str}
    (h : txt.getLast? = some '\n') (hm : (heredocLine k txt).dropLast ≠ d) :
    M.loop "makeheredoc" (mhBody d k) (fuel + 1) { fullline := some txt, document := doc } =
      (readline false >>= fun x =>
        M.loop "makeheredoc" (mhBody d k) fuel { fullline := x, document := doc ++ heredocLine k txt }) := by
  show (mhBody d k _ >>= _) = _
  rw [mhBody_nomatch d k doc h hm]
  simp only [bind_assoc, pure_bind]

theorem strTruthy_of_last {txt : Str} (h : txt.getLast? = some '\n') : strTruthy (some txt) = true := by
  cases txt with
  | nil => simp at h
  | cons => rfl

theorem run_mh_loop (l : Local) (e : Env) (hla : l.eolLookahead = none) (d : Str) (k : Bool) :
    ∀ (fuel : Nat) (s : Str), s <:+ (tapeOf l e).line → NoFinalBackslash s → s.length < fuel →
    s.length < 1073741824 → ∀ (doc : Str),
    match specHeredocS d k s with
    | some (v, r) => ∃ fin,
        M.run (readline false >>= fun x =>
            M.loop "makeheredoc" (mhBody d k) fuel { fullline := x, document := doc })
          (stL l e s) (stE l e s) = (.ok (fin, stL l e r), stE l e r) ∧
        strTruthy fin.fullline = true ∧ fin.document = doc ++ v
    | none => ∃ fin,
        M.run (readline false >>= fun x =>
            M.loop "makeheredoc" (mhBody d k) fuel { fullline := x, document := doc })
          (stL l e s) (stE l e s) = (.ok (fin, stL l e []), stE l e []) ∧
        strTruthy fin.fullline = false
  | 0, s, _, _, hf, _, _ => absurd hf (Nat.not_lt_zero _)
  | fuel + 1, s, hs, hbs, hf, hlen, doc => by
    rw [M.run_bind, run_readline_st l e hla hs hbs hlen, specHeredocS_eq]
    cases hr : specReadlineS s with
    | none =>
      simp only [run_loop_succ, mhBody_none, M.run_pure]
      exact ⟨_, rfl, rfl⟩
    | some w =>
      obtain ⟨txt, rest⟩ := w
      have hlast := specReadlineS_last hr
      obtain ⟨p, hp, _⟩ := specReadlineS_suffix s.length s (Nat.le_refl _) hr
      have hrs : rest <:+ s := ⟨p, hp.symm⟩
      have hlt := specReadlineS_length_lt hr
      simp only []
      by_cases hm : (heredocLine k txt).dropLast = d
      · simp only [hm, if_true, run_loop_succ, mhBody_match d k doc hlast hm, M.run_pure]
        exact ⟨_, rfl, strTruthy_of_last (heredocLine_last k hlast), rfl⟩
      · simp only [hm, if_false]
        rw [mh_loop_nomatch d k doc fuel hlast hm]
        have ih := run_mh_loop l e hla d k fuel rest (hrs.trans hs) (hbs.of_suffix hrs) (by omega)
          (by omega) (doc ++ heredocLine k txt)
        cases hh : specHeredocS d k rest with
        | none =>
          rw [hh] at ih
          exact ih
        | some w =>
          obtain ⟨v, r⟩ := w
          rw [hh] at ih
          obtain ⟨fin, h1, h2, h3⟩ := ih
          exact ⟨fin, h1, h2, by rw [h3, List.append_assoc]⟩

/-- `makeheredoc`'s writes to the redirect node: attach the body, and extend the node's span over
    it iff the body starts right after the node -/
def attach (cell : RedirCell) (startpos endpos : Nat) (v : Str) : RedirCell :=
  { cell with
    heredoc := some ((startpos, endpos), v)
    pos := if cell.pos.2 + 1 = startpos then (cell.pos.1, endpos) else cell.pos }

/-- the error of `makeheredoc` when the input ends before the delimiter: the position is the end
    of the tokenizer's input -/
def eofError (delim line : Str) : Exn :=
  .parsing ("here-document at line 0 delimited by end-of-file (wanted " ++ pyReprStr delim ++ ")")
    line line.length

theorem makeheredoc_eq2 (id : Nat) (kill : Bool) :
    makeheredoc id kill = (do
      let l ← get
      let cell ← match l.store[id]? with
        | some c => pure c
        | none => M.foreign "IndexError" "makeheredoc"
      let startpos ← curIdx
      let fin ← (readline false >>= fun first =>
        M.loop "makeheredoc" (mhBody cell.delim kill) 1073741824 { fullline := first })
      mhFinish id cell startpos fin) := by
  rw [makeheredoc_eq]
  simp only [loopFuel, bind_assoc, pure_bind]
  try rfl

theorem run_mhFinish_ok (l : Local) (e : Env) (id : Nat) (cell : RedirCell) (startpos : Nat)
    (fin : HDState) (h : strTruthy fin.fullline = true) :
    M.run (mhFinish id cell startpos fin) l e =
      (.ok ((), { l with
          store := l.store.set id (attach cell startpos ((tapeOf l e).idx - 1) fin.document) }), e) := by
  unfold mhFinish
  simp only [h, Bool.not_true, Bool.false_eq_true, if_false, M.run_bind, run_curIdx, run_get,
    run_set, M.run_pure, pure_bind, attach, beq_iff_eq]

theorem run_mhFinish_eof (l : Local) (e : Env) (id : Nat) (cell : RedirCell) (startpos : Nat)
    (fin : HDState) (h : strTruthy fin.fullline = false)
    (hi : (tapeOf l e).idx = (tapeOf l e).line.length) :
    M.run (mhFinish id cell startpos fin) l e = (.error (eofError cell.delim (tapeOf l e).line), e) := by
  unfold mhFinish
  simp only [h, Bool.not_false, if_true, M.run_bind, run_tapeLine, run_curIdx, M.run_raise,
    mkParsingError, hi, eofError, Int.le_refl]


theorem stL_self' {l : Local} {e : Env} {r : Str}
    (h : (tapeOf l e).idx = posOf (tapeOf l e).line r) : stL l e r = l := by
  unfold stL seek; rw [← h]; exact putL_self l e

theorem stE_self' {l : Local} {e : Env} {r : Str}
    (h : (tapeOf l e).idx = posOf (tapeOf l e).line r) : stE l e r = e := by
  unfold stE seek; rw [← h]; exact putE_self l e

/-- `makeheredoc` on the state with `s` unread -/
theorem run_makeheredoc_st (l : Local) (e : Env) (hla : l.eolLookahead = none) {s : Str}
    (hs : s <:+ (tapeOf l e).line) (hbs : NoFinalBackslash s) (hlen : s.length < 1073741824)
    {id : Nat} {cell : RedirCell} (hcell : l.store[id]? = some cell) (kill : Bool) :
    M.run (makeheredoc id kill) (stL l e s) (stE l e s) =
      match specHeredocS cell.delim kill s with
      | some (v, r) =>
        (.ok ((), { stL l e r with
            store := l.store.set id (attach cell (posOf (tapeOf l e).line s)
              (posOf (tapeOf l e).line r - 1) v) }), stE l e r)
      | none => (.error (eofError cell.delim (tapeOf l e).line), stE l e []) := by
  rw [makeheredoc_eq2]
  simp only [M.run_bind, run_get, stL_store, hcell, M.run_pure, run_curIdx, tapeOf_st, seek_idx]
  have key := run_mh_loop l e hla cell.delim kill 1073741824 s hs hbs hlen hlen []
  rw [M.run_bind] at key
  cases hh : specHeredocS cell.delim kill s with
  | none =>
    rw [hh] at key
    obtain ⟨fin, h1, h2⟩ := key
    simp only [] at h1 ⊢
    rw [h1]
    simp only []
    rw [run_mhFinish_eof _ _ _ _ _ _ h2 (by simp [posOf])]
    simp
  | some w =>
    obtain ⟨v, r⟩ := w
    rw [hh] at key
    obtain ⟨fin, h1, h2, h3⟩ := key
    simp only [] at h1 ⊢
    rw [h1]
    simp only []
    rw [run_mhFinish_ok _ _ _ _ _ _ h2, h3]
    simp


/-- an id outside the store (never the case for ids queued by the parser): an artefact exception
    of the model, raised before anything is read -/
theorem run_makeheredoc_badId (l : Local) (e : Env) {id : Nat} (hcell : l.store[id]? = none)
    (kill : Bool) :
    M.run (makeheredoc id kill) l e = (.error (.foreign "IndexError" "makeheredoc"), e) := by
  rw [makeheredoc_eq2, M.run_bind, run_get]
  simp only [hcell, M.run_bind, run_foreign]

end Bashlex.C10
