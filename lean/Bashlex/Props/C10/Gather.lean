/-
  C10, reader part: `gatherheredocuments` consumes the queue of pending here-document redirects
  first in, first out; body i+1 starts where body i ended (after the continuation pairs `_peekc`
  skips).  Pure specification `specGatherS` / `specGather` and the exact run theorem.
-/
import Bashlex.Props.C10.Reader

namespace Bashlex.C10
open Bashlex
set_option linter.unusedSimpArgs false
set_option linter.unusedVariables false

/-! ## specification -/

/-- the ways `gatherheredocuments` ends -/
inductive GatherOut where
  /-- the queue is empty; the final store; `rest` remains unread -/
  | done (store : List RedirCell) (rest : Str)
  /-- non-strict mode, the input ended where a body should start: the cursor is bumped one past
      the end of the input and `queue` stays pending (its redirects keep `heredoc = None`) -/
  | stopped (store : List RedirCell) (queue : List (Nat × Bool))
  /-- the input ended before the delimiter line (either mode): ParsingError -/
  | eof (delim : Str)
  /-- an id outside the store (never queued by the parser) -/
  | badId (rest : Str)
  deriving Repr

/-- `gatherheredocuments` on queue, store and unread rest -/
def specGatherS (line : Str) (strict : Bool) : List (Nat × Bool) → List RedirCell → Str → GatherOut
  | [], store, s => .done store s
  | (id, kill) :: q, store, s =>
    if skipCont s = [] ∧ strict = false then .stopped store ((id, kill) :: q)
    else
      match store[id]? with
      | none => .badId (skipCont s)
      | some cell =>
        match specHeredocS cell.delim kill (skipCont s) with
        | none => .eof cell.delim
        | some (v, r) =>
          specGatherS line strict q
            (store.set id (attach cell (posOf line (skipCont s)) (posOf line r - 1) v)) r

/-! ## the two fields the loop writes besides the tape -/

def upd (l : Local) (q : List (Nat × Bool)) (st : List RedirCell) : Local :=
  { l with redirstack := q, store := st }

@[simp] theorem upd_upd (l : Local) (q q' : List (Nat × Bool)) (st st' : List RedirCell) :
    upd (upd l q st) q' st' = upd l q' st' := rfl
@[simp] theorem upd_redirstack (l : Local) (q : List (Nat × Bool)) (st : List RedirCell) :
    (upd l q st).redirstack = q := rfl
@[simp] theorem upd_store (l : Local) (q : List (Nat × Bool)) (st : List RedirCell) :
    (upd l q st).store = st := rfl
@[simp] theorem upd_eol (l : Local) (q : List (Nat × Bool)) (st : List RedirCell) :
    (upd l q st).eolLookahead = l.eolLookahead := rfl
@[simp] theorem tapeOf_upd (l : Local) (e : Env) (q : List (Nat × Bool)) (st : List RedirCell) :
    tapeOf (upd l q st) e = tapeOf l e := rfl
@[simp] theorem strictOf_upd (l : Local) (e : Env) (q : List (Nat × Bool)) (st : List RedirCell) :
    strictOf (upd l q st) e = strictOf l e := rfl
@[simp] theorem putE_upd (l : Local) (e : Env) (t : Tape) (q : List (Nat × Bool))
    (st : List RedirCell) : putE (upd l q st) e t = putE l e t := rfl
theorem putL_upd (l : Local) (t : Tape) (q : List (Nat × Bool)) (st : List RedirCell) :
    putL (upd l q st) t = upd (putL l t) q st := by
  cases l with
  | mk tape => cases tape <;> rfl
@[simp] theorem stE_upd (l : Local) (e : Env) (r : Str) (q : List (Nat × Bool))
    (st : List RedirCell) : stE (upd l q st) e r = stE l e r := rfl
@[simp] theorem stL_upd (l : Local) (e : Env) (r : Str) (q : List (Nat × Bool))
    (st : List RedirCell) : stL (upd l q st) e r = upd (stL l e r) q st := by
  unfold stL; rw [tapeOf_upd, putL_upd]
theorem upd_self (l : Local) {q : List (Nat × Bool)} {st : List RedirCell}
    (h1 : l.redirstack = q) (h2 : l.store = st) : upd l q st = l := by
  subst h1 h2; rfl

/-- outcome of a run of `gatherheredocuments` started in `(l, e)` (any cursor) -/
def gatherResult (l : Local) (e : Env) : GatherOut → Except Exn (Unit × Local) × Env
  | .done store r => (.ok ((), upd (stL l e r) [] store), stE l e r)
  | .stopped store q =>
    let t' : Tape := { tapeOf l e with idx := (tapeOf l e).line.length + 1 }
    (.ok ((), upd (putL l t') q store), putE l e t')
  | .eof d => (.error (eofError d (tapeOf l e).line), stE l e [])
  | .badId r => (.error (.foreign "IndexError" "makeheredoc"), stE l e r)

/-! ## the loop -/

/-- the body of `while tokenizer.redirstack:` -/
def gBody (_ : Unit) : M (Unit ⊕ Unit) := do
    let l ← get
    match l.redirstack with
    | [] => return .inr ()
    | (id, kill) :: rest =>
      let p ← peekc
      if p.isNone then
        if !(← optStrict) then
          bumpIdx
          return .inr ()
      modify fun l => { l with redirstack := rest }
      makeheredoc id kill
      return .inl ()

theorem gather_eq : gatherheredocuments = (do
    let fuel := (← get).redirstack.length + 1
    M.loop "gatherheredocuments" gBody fuel ()) := rfl

theorem run_gBody_nil (l : Local) (e : Env) (h : l.redirstack = []) :
    M.run (gBody ()) l e = (.ok (.inr (), l), e) := by
  unfold gBody
  simp only [M.run_bind, run_get, h, M.run_pure]

theorem head?_isNone_iff (s : Str) : (s.head?).isNone = true ↔ s = [] := by
  cases s <;> simp

theorem run_gTail (l : Local) (e : Env) (id : Nat) (kill : Bool) (rest : List (Nat × Bool)) :
    M.run (do
        modify fun l => { l with redirstack := rest }
        makeheredoc id kill
        pure (Sum.inl () : Unit ⊕ Unit)) l e =
      match M.run (makeheredoc id kill) (upd l rest l.store) e with
      | (.ok (_, l'), e') => (.ok (.inl (), l'), e')
      | (.error x, e') => (.error x, e') := by
  simp only [M.run_bind, run_modify]
  have : ({ l with redirstack := rest } : Local) = upd l rest l.store := rfl
  rw [this]
  rcases M.run (makeheredoc id kill) (upd l rest l.store) e with ⟨r, e'⟩
  cases r <;> rfl

theorem run_gBody_cons (l : Local) (e : Env) (hla : l.eolLookahead = none) {s : Str}
    (hs : s <:+ (tapeOf l e).line) (hbs : NoFinalBackslash s)
    {id : Nat} {kill : Bool} {rest : List (Nat × Bool)} (hq : l.redirstack = (id, kill) :: rest) :
    M.run (gBody ()) (stL l e s) (stE l e s) =
      if skipCont s = [] ∧ strictOf l e = false then
        (.ok (.inr (), putL l { tapeOf l e with idx := (tapeOf l e).line.length + 1 }),
          putE l e { tapeOf l e with idx := (tapeOf l e).line.length + 1 })
      else
        match M.run (makeheredoc id kill) (stL (upd l rest l.store) e (skipCont s))
            (stE (upd l rest l.store) e (skipCont s)) with
        | (.ok (_, l'), e') => (.ok (.inl (), l'), e')
        | (.error x, e') => (.error x, e') := by
  unfold gBody
  simp only [M.run_bind, run_get, stL_redirstack, hq]
  rw [run_peekc_st l e hla hs hbs]
  simp only [head?_isNone_iff]
  by_cases h0 : skipCont s = []
  · simp only [h0, if_true, M.run_bind, run_optStrict, strictOf_st, true_and]
    cases hst : strictOf l e
    · simp only [Bool.not_false, if_true, M.run_bind, run_bumpIdx, M.run_pure, tapeOf_st]
      simp only [seek, posOf, List.length_nil, Nat.sub_zero, stL, stE, putL_putL,
        putE_putE]
    · simp only [Bool.not_true, Bool.false_eq_true, if_false]
      rw [run_gTail, stL_upd, stE_upd, stL_store]
      simp
  · simp only [h0, if_false, false_and]
    rw [run_gTail, stL_upd, stE_upd, stL_store]

theorem gatherResult_st (l : Local) (e : Env) (r : Str) (q : List (Nat × Bool))
    (X : List RedirCell) (o : GatherOut) :
    gatherResult (upd (stL l e r) q X) (stE l e r) o = gatherResult l e o := by
  cases o with
  | done store r' => simp [gatherResult]
  | stopped store q' =>
    simp only [gatherResult, tapeOf_upd, tapeOf_st, putE_upd, putL_upd, upd_upd, seek_line]
    unfold stL stE
    rw [putL_putL, putE_putE]
    rfl
  | eof d => simp [gatherResult]
  | badId r' => simp [gatherResult]

theorem run_gather_loop : ∀ (q : List (Nat × Bool)) (fuel : Nat) (l : Local) (e : Env) (s : Str),
    l.redirstack = q → q.length < fuel → l.eolLookahead = none → s <:+ (tapeOf l e).line →
    NoFinalBackslash s → s.length < 1073741824 →
    M.run (M.loop "gatherheredocuments" gBody fuel ()) (stL l e s) (stE l e s) =
      gatherResult l e (specGatherS (tapeOf l e).line (strictOf l e) q l.store s)
  | _, 0, _, _, _, _, hf, _, _, _, _ => absurd hf (Nat.not_lt_zero _)
  | [], fuel + 1, l, e, s, hq, hf, hla, hs, hbs, hlen => by
    rw [run_loop_succ, run_gBody_nil _ _ (by rw [stL_redirstack]; exact hq)]
    simp only [specGatherS, gatherResult]
    rw [upd_self _ (by rw [stL_redirstack]; exact hq) (stL_store _ _ _)]
  | (id, kill) :: q', fuel + 1, l, e, s, hq, hf, hla, hs, hbs, hlen => by
    rw [run_loop_succ, run_gBody_cons l e hla hs hbs hq]
    simp only [specGatherS]
    by_cases hc : skipCont s = [] ∧ strictOf l e = false
    · simp only [hc, and_self, if_true, gatherResult]
      rw [← hq, upd_self _ (putL_redirstack _ _) (putL_store _ _)]
    · simp only [hc, if_false]
      have hs1 : skipCont s <:+ (tapeOf l e).line := (skipCont_suffix s).trans hs
      have hbs1 : NoFinalBackslash (skipCont s) := hbs.of_suffix (skipCont_suffix s)
      have hlen1 : (skipCont s).length < 1073741824 :=
        Nat.lt_of_le_of_lt (skipCont_suffix s).length_le hlen
      cases hcell : l.store[id]? with
      | none =>
        rw [run_makeheredoc_badId _ _ (by rw [stL_store]; exact hcell)]
        simp [gatherResult]
      | some cell =>
        have hrun := run_makeheredoc_st (upd l q' l.store) e hla (id := id) (cell := cell)
          hs1 hbs1 hlen1 hcell kill
        rw [hrun]
        cases hh : specHeredocS cell.delim kill (skipCont s) with
        | none => simp [gatherResult, hh]
        | some w =>
          obtain ⟨v, r⟩ := w
          have hr : r <:+ skipCont s := specHeredocS_isSuffix hh
          simp only [tapeOf_upd, upd_store, stL_upd, stE_upd]
          have hl3 : ({ upd (stL l e r) q' l.store with
              store := l.store.set id (attach cell (posOf (tapeOf l e).line (skipCont s))
                (posOf (tapeOf l e).line r - 1) v) } : Local) =
              upd (stL l e r) q' (l.store.set id (attach cell (posOf (tapeOf l e).line (skipCont s))
                (posOf (tapeOf l e).line r - 1) v)) := rfl
          rw [hl3]
          have ih := run_gather_loop q' fuel
            (upd (stL l e r) q' (l.store.set id (attach cell (posOf (tapeOf l e).line (skipCont s))
                (posOf (tapeOf l e).line r - 1) v))) (stE l e r) r rfl (by simp at hf; omega)
            (by simp [hla]) (by simp; exact hr.trans hs1) (hbs1.of_suffix hr)
            (Nat.lt_of_le_of_lt hr.length_le hlen1)
          simp only [stL_upd, stE_upd, stL_stL, stE_stE, tapeOf_upd, tapeOf_st, seek_line,
            strictOf_upd, strictOf_st, upd_store, gatherResult_st] at ih
          simp only [hh]
          exact ih


/-- `gatherheredocuments` on the state with `s` unread -/
theorem run_gather_st (l : Local) (e : Env) (hla : l.eolLookahead = none) {s : Str}
    (hs : s <:+ (tapeOf l e).line) (hbs : NoFinalBackslash s) (hlen : s.length < 1073741824) :
    M.run gatherheredocuments (stL l e s) (stE l e s) =
      gatherResult l e (specGatherS (tapeOf l e).line (strictOf l e) l.redirstack l.store s) := by
  rw [gather_eq, M.run_bind, run_get]
  simp only [M.run_pure, stL_redirstack]
  exact run_gather_loop l.redirstack _ l e s rfl (Nat.lt_succ_self _) hla hs hbs hlen

/-! ## FIFO, explicitly -/

/-- FIFO, explicitly: if the queue is emptied, there are cut points `cuts[0] = s, …, cuts[n] = r`
    (unread rests) such that the i-th queued redirect gets the body read from `cuts[i]` (after the
    continuation pairs `_peekc` skips), that body ends at `cuts[i+1]`, and nothing else in the
    store changes.  (Ids are distinct: each redirect node is queued once.) -/
theorem specGatherS_fifo (line : Str) (strict : Bool) :
    ∀ (q : List (Nat × Bool)) (store : List RedirCell) (s : Str) {store' : List RedirCell} {r : Str},
    specGatherS line strict q store s = .done store' r → (q.map Prod.fst).Nodup →
    ∃ cuts : List Str, cuts.length = q.length + 1 ∧ cuts.head? = some s ∧ cuts.getLast? = some r ∧
      (∀ i id kill, q[i]? = some (id, kill) → ∃ cell v a b,
        cuts[i]? = some a ∧ cuts[i + 1]? = some b ∧ store[id]? = some cell ∧
        specHeredocS cell.delim kill (skipCont a) = some (v, b) ∧
        store'[id]? = some (attach cell (posOf line (skipCont a)) (posOf line b - 1) v)) ∧
      (∀ j, j ∉ q.map Prod.fst → store'[j]? = store[j]?) ∧ store'.length = store.length
  | [], store, s, store', r, h, _ => by
    simp only [specGatherS, GatherOut.done.injEq] at h
    obtain ⟨rfl, rfl⟩ := h
    exact ⟨[s], rfl, rfl, rfl, by simp, by simp, rfl⟩
  | (id, kill) :: q', store, s, store', r, h, hnd => by
    simp only [specGatherS] at h
    split at h
    · cases h
    · cases hcell : store[id]? with
      | none => rw [hcell] at h; cases h
      | some cell =>
        rw [hcell] at h
        simp only [] at h
        cases hh : specHeredocS cell.delim kill (skipCont s) with
        | none => rw [hh] at h; cases h
        | some w =>
          obtain ⟨v, b⟩ := w
          rw [hh] at h
          simp only [] at h
          simp only [List.map_cons, List.nodup_cons] at hnd
          obtain ⟨hid, hnd'⟩ := hnd
          obtain ⟨cuts, c1, c2, c3, c4, c5, c6⟩ := specGatherS_fifo line strict q' _ b h hnd'
          have hidlt : id < store.length := (List.getElem?_eq_some_iff.mp hcell).1
          refine ⟨s :: cuts, by simp [c1], rfl, ?_, ?_, ?_, ?_⟩
          · cases cuts with
            | nil => simp at c1
            | cons x xs => rw [List.getLast?_cons_cons]; exact c3
          · intro i id' kill' hi
            cases i with
            | zero =>
              simp only [List.getElem?_cons_zero, Option.some.injEq, Prod.mk.injEq] at hi
              obtain ⟨rfl, rfl⟩ := hi
              refine ⟨cell, v, s, b, rfl, ?_, hcell, hh, ?_⟩
              · cases cuts with
                | nil => simp at c1
                | cons x xs => simp at c2 ⊢; exact c2
              · rw [c5 id hid, List.getElem?_set_self hidlt]
            | succ i =>
              simp only [List.getElem?_cons_succ] at hi
              obtain ⟨cell', v', a', b', d1, d2, d3, d4, d5⟩ := c4 i id' kill' hi
              have hne : id ≠ id' := by
                intro he; subst he
                exact hid (List.mem_map.mpr ⟨(id, kill'), List.mem_of_getElem? hi, rfl⟩)
              refine ⟨cell', v', a', b', by simpa using d1, by simpa using d2, ?_, d4, d5⟩
              rw [List.getElem?_set_ne hne] at d3; exact d3
          · intro j hj
            simp only [List.map_cons, List.mem_cons, not_or] at hj
            rw [c5 j hj.2, List.getElem?_set_ne (Ne.symm hj.1)]
          · rw [c6, List.length_set]

end Bashlex.C10
