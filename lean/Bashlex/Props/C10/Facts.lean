/-
  C10, reader part: facts about the pure specifications that make them the RIGHT specification
  (nothing here mentions the model monad):
  * `removeCont` — the input with backslash-newline pairs removed, scanning left to right — is
    the character stream `_getc(True)` delivers (`removeCont_getcS`);
  * a line / a here-document consumes a non-empty prefix of the input that ends with a newline
    or at the end of the input (`specReadlineS_prefix`, `specHeredocS_prefix`);
  * for `kill = false` the document plus a newline is that prefix with the continuation pairs
    removed (`specHeredocS_slice`);
  * the document ends with the delimiter, is the concatenation of the lines read, and no earlier
    line equals the delimiter (`specHeredocS_lines`); `none` only if no line of the rest of the
    input equals the delimiter (`specHeredocS_none`).
-/
import Bashlex.Props.C10.Spec

namespace Bashlex.C10
open Bashlex
set_option linter.unusedSimpArgs false
set_option linter.unusedVariables false

/-- the input with every backslash-newline pair removed, scanning left to right -/
def removeCont : Str → Str
  | c :: d :: rest => if c = '\\' ∧ d = '\n' then removeCont rest else c :: removeCont (d :: rest)
  | s => s

theorem removeCont_nil : removeCont [] = [] := by simp [removeCont]
theorem removeCont_single (c : Char) : removeCont [c] = [c] := by simp [removeCont]
theorem removeCont_pair (r : Str) : removeCont ('\\' :: '\n' :: r) = removeCont r := by
  simp [removeCont]
theorem removeCont_cons_ne {c : Char} (h : c ≠ '\\') (r : Str) :
    removeCont (c :: r) = c :: removeCont r := by
  cases r with
  | nil => simp [removeCont]
  | cons d r => simp [removeCont, h]
theorem removeCont_bs_ne {d : Char} (h : d ≠ '\n') (r : Str) :
    removeCont ('\\' :: d :: r) = '\\' :: removeCont (d :: r) := by
  simp [removeCont, h]

/-- `removeCont` is the stream of characters `_getc(True)` delivers -/
theorem removeCont_getcS : ∀ (s : Str) {c : Option Char} {r : Str}, getcS s = some (c, r) →
    match c with
    | none => removeCont s = []
    | some ch => removeCont s = ch :: removeCont r
  | [], c, r, h => by
    simp only [getcS, Option.some.injEq, Prod.mk.injEq] at h
    obtain ⟨rfl, rfl⟩ := h
    exact removeCont_nil
  | [a], c, r, h => by
    simp only [getcS] at h
    split at h
    · cases h
    · simp only [Option.some.injEq, Prod.mk.injEq] at h
      obtain ⟨rfl, rfl⟩ := h
      simp [removeCont]
  | a :: d :: rest', c, r, h => by
    simp only [getcS] at h
    split at h
    · rename_i ha; subst ha
      split at h
      · rename_i hd; subst hd
        rw [removeCont_pair]
        exact removeCont_getcS rest' h
      · rename_i hd
        simp only [Option.some.injEq, Prod.mk.injEq] at h
        obtain ⟨rfl, rfl⟩ := h
        exact removeCont_bs_ne hd _
    · rename_i ha
      simp only [Option.some.injEq, Prod.mk.injEq] at h
      obtain ⟨rfl, rfl⟩ := h
      exact removeCont_cons_ne ha _

/-- no pair straddles a boundary that does not follow a backslash -/
theorem removeCont_append : ∀ (n : Nat) (p : Str), p.length ≤ n → NoFinalBackslash p → ∀ (q : Str),
    removeCont (p ++ q) = removeCont p ++ removeCont q
  | _, [], _, _, q => by simp [removeCont_nil]
  | _, [c], _, h, q => by
    have hc : c ≠ '\\' := by intro hc; subst hc; exact h rfl
    rw [removeCont_single]
    exact removeCont_cons_ne hc q
  | 0, _ :: _ :: _, hn, _, _ => by simp at hn
  | n + 1, c :: d :: rest, hn, h, q => by
    have h1 : NoFinalBackslash (d :: rest) := h.tail (by simp)
    by_cases hp : c = '\\' ∧ d = '\n'
    · obtain ⟨rfl, rfl⟩ := hp
      show removeCont ('\\' :: '\n' :: (rest ++ q)) = _
      rw [removeCont_pair, removeCont_pair]
      by_cases hr : rest = []
      · subst hr; simp [removeCont_nil]
      · exact removeCont_append n rest (by simp at hn; omega) (h1.tail hr) q
    · have e1 : ∀ x : Str, removeCont (c :: d :: x) = c :: removeCont (d :: x) := by
        intro x; simp [removeCont, hp]
      show removeCont (c :: d :: (rest ++ q)) = _
      rw [e1, e1]
      have := removeCont_append n (d :: rest) (by simp at hn ⊢; omega) h1 q
      rw [List.cons_append] at this
      rw [this]; rfl


/-! ## what a line consumes -/

theorem getcS_split {s : Str} {c : Char} {r : Str} (h : getcS s = some (some c, r)) :
    ∃ P, s = P ++ c :: r := by
  rcases getcS_skipCont s h with ⟨h1, _, _⟩ | ⟨ch, h1, h2⟩
  · cases h1
  · cases h1
    obtain ⟨P, hP⟩ := skipCont_suffix s
    exact ⟨P, by rw [← hP, h2]⟩

theorem specReadlineS_none {s : Str} (hbs : NoFinalBackslash s) (h : specReadlineS s = none) :
    removeCont s = [] := by
  rw [specReadlineS_eq] at h
  have hsome := getcS_isSome s hbs
  cases hg : getcS s with
  | none => rw [hg] at hsome; cases hsome
  | some w =>
    obtain ⟨c, rest⟩ := w
    rw [hg] at h
    cases c with
    | none => exact removeCont_getcS s hg
    | some c =>
      simp only [] at h
      split at h
      · cases h
      · split at h <;> cases h

/-- `readline(False)` returns the delivered stream up to and including the first newline; at the
    end of the input the newline is synthetic -/
theorem specReadlineS_stream : ∀ (n : Nat) (s : Str), s.length ≤ n → NoFinalBackslash s →
    ∀ {txt r : Str}, specReadlineS s = some (txt, r) →
    (removeCont s = txt ++ removeCont r) ∨ (r = [] ∧ removeCont s ++ ['\n'] = txt)
  | 0, s, hn, _, txt, r, h => by
    have : s = [] := List.eq_nil_of_length_eq_zero (Nat.le_zero.mp hn)
    subst this; rw [specReadlineS_eq] at h; simp [getcS] at h
  | n + 1, s, hn, hbs, txt, r, h => by
    rw [specReadlineS_eq] at h
    cases hg : getcS s with
    | none => rw [hg] at h; cases h
    | some w =>
      obtain ⟨c, rest⟩ := w
      rw [hg] at h
      cases c with
      | none => cases h
      | some c =>
        have hrc : removeCont s = c :: removeCont rest := removeCont_getcS s hg
        have hlt := getcS_length_lt hg
        obtain ⟨p, hp, _, _⟩ := getcS_suffix s hg
        have hbr : NoFinalBackslash rest := hbs.of_suffix ⟨p, hp.symm⟩
        simp only [] at h
        split at h
        · rename_i hc
          simp only [Option.some.injEq, Prod.mk.injEq] at h
          obtain ⟨rfl, rfl⟩ := h
          left; rw [hrc, hc]; rfl
        · cases hr : specReadlineS rest with
          | none =>
            rw [hr] at h
            simp only [Option.some.injEq, Prod.mk.injEq] at h
            obtain ⟨rfl, rfl⟩ := h
            right
            rw [hrc, specReadlineS_none hbr hr]
            exact ⟨rfl, rfl⟩
          | some w =>
            obtain ⟨txt', r'⟩ := w
            rw [hr] at h
            simp only [Option.some.injEq, Prod.mk.injEq] at h
            obtain ⟨rfl, rfl⟩ := h
            rcases specReadlineS_stream n rest (by omega) hbr hr with h1 | ⟨h1, h2⟩
            · left; rw [hrc, h1]; rfl
            · right; refine ⟨h1, ?_⟩; rw [hrc, ← h2]; rfl

/-- a line consumes a non-empty prefix that ends with a newline or at the end of the input -/
theorem specReadlineS_prefix : ∀ (n : Nat) (s : Str), s.length ≤ n → ∀ {txt r : Str},
    specReadlineS s = some (txt, r) →
    ∃ pre, s = pre ++ r ∧ pre ≠ [] ∧ (pre.getLast? = some '\n' ∨ r = [])
  | 0, s, hn, txt, r, h => by
    have : s = [] := List.eq_nil_of_length_eq_zero (Nat.le_zero.mp hn)
    subst this; rw [specReadlineS_eq] at h; simp [getcS] at h
  | n + 1, s, hn, txt, r, h => by
    rw [specReadlineS_eq] at h
    cases hg : getcS s with
    | none => rw [hg] at h; cases h
    | some w =>
      obtain ⟨c, rest⟩ := w
      rw [hg] at h
      cases c with
      | none => cases h
      | some c =>
        have hlt := getcS_length_lt hg
        obtain ⟨P, hP⟩ := getcS_split hg
        simp only [] at h
        split at h
        · rename_i hc
          simp only [Option.some.injEq, Prod.mk.injEq] at h
          obtain ⟨_, rfl⟩ := h
          refine ⟨P ++ [c], by rw [hP]; simp, by simp, Or.inl ?_⟩
          rw [hc]; simp
        · cases hr : specReadlineS rest with
          | none =>
            rw [hr] at h
            simp only [Option.some.injEq, Prod.mk.injEq] at h
            obtain ⟨_, rfl⟩ := h
            refine ⟨s, by simp, ?_, Or.inr rfl⟩
            intro hs; rw [hs] at hP; simp at hP
          | some w =>
            obtain ⟨txt', r'⟩ := w
            rw [hr] at h
            simp only [Option.some.injEq, Prod.mk.injEq] at h
            obtain ⟨_, rfl⟩ := h
            obtain ⟨pre', h1, h2, h3⟩ := specReadlineS_prefix n rest (by omega) hr
            refine ⟨P ++ c :: pre', by rw [hP, h1]; simp, by simp, ?_⟩
            rcases h3 with h3 | h3
            · left
              obtain ⟨ys, rfl⟩ := List.getLast?_eq_some_iff.mp h3
              exact List.getLast?_eq_some_iff.mpr ⟨P ++ c :: ys, by simp⟩
            · exact Or.inr h3

/-! ## what a here-document consumes -/

/-- one step of `specHeredocS`, as a case distinction -/
theorem specHeredocS_cases {d : Str} {k : Bool} {s v r : Str} (h : specHeredocS d k s = some (v, r)) :
    ∃ txt rest, specReadlineS s = some (txt, rest) ∧
      (((heredocLine k txt).dropLast = d ∧ v = d ∧ r = rest) ∨
       ((heredocLine k txt).dropLast ≠ d ∧ ∃ v', specHeredocS d k rest = some (v', r) ∧
          v = heredocLine k txt ++ v')) := by
  rw [specHeredocS_eq] at h
  cases hr : specReadlineS s with
  | none => rw [hr] at h; cases h
  | some w =>
    obtain ⟨txt, rest⟩ := w
    rw [hr] at h
    refine ⟨txt, rest, rfl, ?_⟩
    simp only [] at h
    split at h
    · rename_i hm
      simp only [Option.some.injEq, Prod.mk.injEq] at h
      exact Or.inl ⟨hm, h.1.symm, h.2.symm⟩
    · rename_i hm
      cases hh : specHeredocS d k rest with
      | none => rw [hh] at h; cases h
      | some w =>
        obtain ⟨v', r'⟩ := w
        rw [hh] at h
        simp only [Option.some.injEq, Prod.mk.injEq] at h
        obtain ⟨rfl, rfl⟩ := h
        exact Or.inr ⟨hm, v', rfl, rfl⟩

/-- a here-document consumes a non-empty prefix that ends with a newline or at the end of the
    input: the cursor afterwards is just after the newline of the delimiter line, or at the end -/
theorem specHeredocS_prefix (d : Str) (k : Bool) : ∀ (n : Nat) (s : Str), s.length ≤ n →
    ∀ {v r : Str}, specHeredocS d k s = some (v, r) →
    ∃ pre, s = pre ++ r ∧ pre ≠ [] ∧ (pre.getLast? = some '\n' ∨ r = [])
  | 0, s, hn, v, r, h => by
    have : s = [] := List.eq_nil_of_length_eq_zero (Nat.le_zero.mp hn)
    subst this
    rw [specHeredocS_eq, specReadlineS_eq] at h; simp [getcS] at h
  | n + 1, s, hn, v, r, h => by
    obtain ⟨txt, rest, hr, hc⟩ := specHeredocS_cases h
    have hlt := specReadlineS_length_lt hr
    obtain ⟨pre, h1, h2, h3⟩ := specReadlineS_prefix s.length s (Nat.le_refl _) hr
    rcases hc with ⟨_, _, rfl⟩ | ⟨_, v', hh, _⟩
    · exact ⟨pre, h1, h2, h3⟩
    · obtain ⟨pre', g1, g2, g3⟩ := specHeredocS_prefix d k n rest (by omega) hh
      refine ⟨pre ++ pre', by rw [h1, g1, List.append_assoc], by simp [h2], ?_⟩
      rcases g3 with g3 | g3
      · left
        obtain ⟨ys, rfl⟩ := List.getLast?_eq_some_iff.mp g3
        exact List.getLast?_eq_some_iff.mpr ⟨pre ++ ys, by simp⟩
      · exact Or.inr g3

/-- `kill = false`: the delivered stream from the start of the body is the document, a newline
    (unless the input ended right after the delimiter), and the delivered stream of the rest -/
theorem specHeredocS_stream (d : Str) : ∀ (n : Nat) (s : Str), s.length ≤ n → NoFinalBackslash s →
    ∀ {v r : Str}, specHeredocS d false s = some (v, r) →
    (removeCont s = v ++ '\n' :: removeCont r) ∨ (r = [] ∧ removeCont s = v)
  | 0, s, hn, _, v, r, h => by
    have : s = [] := List.eq_nil_of_length_eq_zero (Nat.le_zero.mp hn)
    subst this
    rw [specHeredocS_eq, specReadlineS_eq] at h; simp [getcS] at h
  | n + 1, s, hn, hbs, v, r, h => by
    obtain ⟨txt, rest, hr, hc⟩ := specHeredocS_cases h
    have hlt := specReadlineS_length_lt hr
    have hst := specReadlineS_stream s.length s (Nat.le_refl _) hbs hr
    have hlast := specReadlineS_last hr
    have htxt := eq_dropLast_append hlast
    rw [show heredocLine false txt = txt from rfl] at hc
    rcases hc with ⟨hm, rfl, rfl⟩ | ⟨hm, v', hh, rfl⟩
    · rw [hm] at htxt
      rcases hst with h1 | ⟨h1, h2⟩
      · left; rw [h1, htxt]; simp
      · right; refine ⟨h1, ?_⟩
        rw [htxt] at h2
        exact List.append_cancel_right h2
    · have hbr : NoFinalBackslash rest := hbs.of_suffix (specReadlineS_isSuffix hr)
      rcases hst with h1 | ⟨h1, h2⟩
      · rcases specHeredocS_stream d n rest (by omega) hbr hh with g1 | ⟨g1, g2⟩
        · left; rw [h1, g1]; simp
        · right; exact ⟨g1, by rw [h1, g2]⟩
      · subst h1
        rw [specHeredocS_eq, specReadlineS_eq] at hh; simp [getcS] at hh

/-- `kill = false`: the document (plus a newline, unless the input ended right after the
    delimiter) is the consumed prefix of the input with the continuation pairs removed -/
theorem specHeredocS_slice {d s v r : Str} (hbs : NoFinalBackslash s)
    (h : specHeredocS d false s = some (v, r)) :
    ∃ pre, s = pre ++ r ∧ pre ≠ [] ∧ (pre.getLast? = some '\n' ∨ r = []) ∧
      (removeCont pre = v ++ ['\n'] ∨ (r = [] ∧ removeCont pre = v)) := by
  obtain ⟨pre, h1, h2, h3⟩ := specHeredocS_prefix d false s.length s (Nat.le_refl _) h
  have hst := specHeredocS_stream d s.length s (Nat.le_refl _) hbs h
  refine ⟨pre, h1, h2, h3, ?_⟩
  rcases hst with g | ⟨g1, g2⟩
  · rcases h3 with h3 | h3
    · left
      have hnb : NoFinalBackslash pre := by
        unfold NoFinalBackslash; rw [h3]; simp
      rw [h1, removeCont_append pre.length pre (Nat.le_refl _) hnb r] at g
      have : removeCont pre ++ removeCont r = (v ++ ['\n']) ++ removeCont r := by
        rw [g]; simp
      exact List.append_cancel_right this
    · subst h3
      rw [List.append_nil] at h1; subst h1
      left; rw [g, removeCont_nil]
  · exact Or.inr ⟨g1, by rw [g1, List.append_nil] at h1; rw [← h1]; exact g2⟩


/-! ## the lines of a here-document -/

/-- `n` successive `readline(False)` results and the rest after them -/
def readLines : Nat → Str → Option (List Str × Str)
  | 0, s => some ([], s)
  | n + 1, s =>
    match specReadlineS s with
    | none => none
    | some (txt, rest) =>
      match readLines n rest with
      | none => none
      | some (ls, r) => some (txt :: ls, r)

/-- the document is the concatenation of the lines read before the delimiter line (tab-stripped
    for `<<-`) and the delimiter; the delimiter line is the FIRST line that equals the delimiter -/
theorem specHeredocS_lines (d : Str) (k : Bool) : ∀ (n : Nat) (s : Str), s.length ≤ n →
    ∀ {v r : Str}, specHeredocS d k s = some (v, r) →
    ∃ ls dl, readLines (ls.length + 1) s = some (ls ++ [dl], r) ∧
      (∀ x ∈ ls, (heredocLine k x).dropLast ≠ d) ∧ (heredocLine k dl).dropLast = d ∧
      v = (ls.map (heredocLine k)).flatten ++ d
  | 0, s, hn, v, r, h => by
    have : s = [] := List.eq_nil_of_length_eq_zero (Nat.le_zero.mp hn)
    subst this
    rw [specHeredocS_eq, specReadlineS_eq] at h; simp [getcS] at h
  | n + 1, s, hn, v, r, h => by
    obtain ⟨txt, rest, hr, hc⟩ := specHeredocS_cases h
    have hlt := specReadlineS_length_lt hr
    rcases hc with ⟨hm, rfl, rfl⟩ | ⟨hm, v', hh, rfl⟩
    · exact ⟨[], txt, by simp [readLines, hr], by simp, hm, by simp⟩
    · obtain ⟨ls, dl, h1, h2, h3, h4⟩ := specHeredocS_lines d k n rest (by omega) hh
      refine ⟨txt :: ls, dl, ?_, ?_, h3, ?_⟩
      · show readLines (ls.length + 1 + 1) s = _
        rw [readLines, hr]; simp only []; rw [h1]; rfl
      · intro x hx
        rcases List.mem_cons.mp hx with rfl | hx
        · exact hm
        · exact h2 x hx
      · rw [h4]; simp

/-- the document ends with the delimiter -/
theorem specHeredocS_value_suffix {d : Str} {k : Bool} {s v r : Str}
    (h : specHeredocS d k s = some (v, r)) : d <:+ v := by
  obtain ⟨ls, dl, _, _, _, h4⟩ := specHeredocS_lines d k s.length s (Nat.le_refl _) h
  exact ⟨_, h4.symm⟩

/-- `none` (the ParsingError) only if no line of the rest of the input equals the delimiter -/
theorem specHeredocS_none (d : Str) (k : Bool) : ∀ (n : Nat) (s : Str),
    specHeredocS d k s = none → ∀ {ls : List Str} {r : Str}, readLines n s = some (ls, r) →
    ∀ x ∈ ls, (heredocLine k x).dropLast ≠ d
  | 0, s, _, ls, r, hl => by
    simp only [readLines, Option.some.injEq, Prod.mk.injEq] at hl
    obtain ⟨rfl, _⟩ := hl
    simp
  | n + 1, s, h, ls, r, hl => by
    rw [readLines] at hl
    cases hr : specReadlineS s with
    | none => rw [hr] at hl; cases hl
    | some w =>
      obtain ⟨txt, rest⟩ := w
      rw [hr] at hl
      simp only [] at hl
      cases hn : readLines n rest with
      | none => rw [hn] at hl; cases hl
      | some w =>
        obtain ⟨ls', r'⟩ := w
        rw [hn] at hl
        simp only [Option.some.injEq, Prod.mk.injEq] at hl
        obtain ⟨rfl, rfl⟩ := hl
        rw [specHeredocS_eq, hr] at h
        simp only [] at h
        split at h
        · cases h
        · rename_i hm
          have hrest : specHeredocS d k rest = none := by
            cases hh : specHeredocS d k rest with
            | none => rfl
            | some w => rw [hh] at h; cases h
          intro x hx
          rcases List.mem_cons.mp hx with rfl | hx
          · exact hm
          · exact specHeredocS_none d k n rest hrest hn x hx

end Bashlex.C10
