/-
  C10, reader part: a uniform view of the tape of a parser, for top-level parsers (the tape is
  the environment's, `Local.tape = none`) and nested parsers (`Local.tape = some t`) alike, and
  exact run lemmas for the tape accessors of `Model/Monad.lean` in that view.

  `tapeOf l e` is the tape the parser reads, `(putL l t, putE l e t)` the state after the tape was
  replaced by `t`.  For `l.tape = some _` these are pure state functions, for `l.tape = none`
  they act on the environment; every accessor satisfies ONE equation covering both
  (`run_getc`, `run_ungetc`, `run_curIdx`, `run_bumpIdx`, `run_tapeLine`): this is the
  simulation "a top-level run equals the local-tape run with the tape moved into the state",
  stated per accessor.  All theorems of `Reader.lean` / `Gather.lean` are proved once, in this
  view, and so hold for both kinds of parsers.
-/
import Bashlex.Props.C10.Spec
import Bashlex.Model.Tokenizer
import Bashlex.Proofs.Hoare
import Bashlex.Proofs.QCongr

namespace Bashlex.C10
open Bashlex

/-! ## the uniform view -/

/-- the tape read by a parser in local state `l` and environment `e` -/
def tapeOf (l : Local) (e : Env) : Tape :=
  match l.tape with
  | some t => t
  | none => e.tape

/-- local state after the tape became `t` -/
def putL (l : Local) (t : Tape) : Local :=
  match l.tape with
  | some _ => { l with tape := some t }
  | none => l

/-- environment after the tape became `t` -/
def putE (l : Local) (e : Env) (t : Tape) : Env :=
  match l.tape with
  | some _ => e
  | none => { e with tape := t }

/-- `tokenizer._strictmode` as seen by the parser -/
def strictOf (l : Local) (e : Env) : Bool :=
  match l.opts with
  | some (s, _) => s
  | none => e.strict

theorem tapeOf_put (l : Local) (e : Env) (t : Tape) : tapeOf (putL l t) (putE l e t) = t := by
  cases l with
  | mk tape => cases tape <;> rfl

theorem putL_putL (l : Local) (t t' : Tape) : putL (putL l t) t' = putL l t' := by
  cases l with
  | mk tape => cases tape <;> rfl

theorem putE_putE (l : Local) (e : Env) (t t' : Tape) :
    putE (putL l t) (putE l e t) t' = putE l e t' := by
  cases l with
  | mk tape => cases tape <;> rfl

theorem putL_self (l : Local) (e : Env) : putL l (tapeOf l e) = l := by
  cases l with
  | mk tape => cases tape <;> rfl

theorem putE_self (l : Local) (e : Env) : putE l e (tapeOf l e) = e := by
  cases l with
  | mk tape => cases tape <;> rfl

@[simp] theorem putL_eol (l : Local) (t : Tape) : (putL l t).eolLookahead = l.eolLookahead := by
  cases l with
  | mk tape => cases tape <;> rfl
@[simp] theorem putL_store (l : Local) (t : Tape) : (putL l t).store = l.store := by
  cases l with
  | mk tape => cases tape <;> rfl
@[simp] theorem putL_redirstack (l : Local) (t : Tape) : (putL l t).redirstack = l.redirstack := by
  cases l with
  | mk tape => cases tape <;> rfl
@[simp] theorem putL_opts (l : Local) (t : Tape) : (putL l t).opts = l.opts := by
  cases l with
  | mk tape => cases tape <;> rfl
@[simp] theorem strictOf_put (l : Local) (e : Env) (t : Tape) :
    strictOf (putL l t) (putE l e t) = strictOf l e := by
  cases l with
  | mk tape => cases tape <;> rfl

/-- the fields the reader writes besides the tape -/
theorem putL_setStore (l : Local) (t : Tape) (s : List RedirCell) :
    putL { l with store := s } t = { putL l t with store := s } := by
  cases l with
  | mk tape => cases tape <;> rfl
theorem putL_setRedirstack (l : Local) (t : Tape) (s : List (Nat × Bool)) :
    putL { l with redirstack := s } t = { putL l t with redirstack := s } := by
  cases l with
  | mk tape => cases tape <;> rfl
@[simp] theorem tapeOf_setStore (l : Local) (e : Env) (s : List RedirCell) :
    tapeOf { l with store := s } e = tapeOf l e := rfl
@[simp] theorem tapeOf_setRedirstack (l : Local) (e : Env) (s : List (Nat × Bool)) :
    tapeOf { l with redirstack := s } e = tapeOf l e := rfl
@[simp] theorem putE_setStore (l : Local) (e : Env) (t : Tape) (s : List RedirCell) :
    putE { l with store := s } e t = putE l e t := rfl
@[simp] theorem putE_setRedirstack (l : Local) (e : Env) (t : Tape) (s : List (Nat × Bool)) :
    putE { l with redirstack := s } e t = putE l e t := rfl
@[simp] theorem strictOf_setStore (l : Local) (e : Env) (s : List RedirCell) :
    strictOf { l with store := s } e = strictOf l e := rfl
@[simp] theorem strictOf_setRedirstack (l : Local) (e : Env) (s : List (Nat × Bool)) :
    strictOf { l with redirstack := s } e = strictOf l e := rfl

/-! ## running the primitives -/

theorem run_get (l : Local) (e : Env) : M.run (get : M Local) l e = (.ok (l, l), e) := rfl
theorem run_set (l' l : Local) (e : Env) : M.run (set l' : M Unit) l e = (.ok ((), l'), e) := rfl
theorem run_modify (f : Local → Local) (l : Local) (e : Env) :
    M.run (modify f : M Unit) l e = (.ok ((), f l), e) := rfl
theorem run_ask (q : Query) (l : Local) (e : Env) :
    M.run (M.ask q) l e = (.ok ((e.answer q).1, l), (e.answer q).2) := rfl
theorem run_foreign {α : Type} (a b : String) (l : Local) (e : Env) :
    M.run (M.foreign a b : M α) l e = (.error (.foreign a b), e) := rfl

theorem run_loop_zero {σ α : Type} (site : String) (body : σ → M (σ ⊕ α)) (s : σ)
    (l : Local) (e : Env) :
    M.run (M.loop site body 0 s) l e = (.error (.outOfFuel site), e) := rfl

theorem run_loop_succ {σ α : Type} (site : String) (body : σ → M (σ ⊕ α)) (fuel : Nat) (s : σ)
    (l : Local) (e : Env) :
    M.run (M.loop site body (fuel + 1) s) l e =
      match M.run (body s) l e with
      | (.ok (.inl s', l'), e') => M.run (M.loop site body fuel s') l' e'
      | (.ok (.inr a, l'), e') => (.ok (a, l'), e')
      | (.error x, e') => (.error x, e') := by
  show M.run (body s >>= _) l e = _
  rw [M.run_bind]
  rcases M.run (body s) l e with ⟨r, e'⟩
  cases r with
  | error x => rfl
  | ok v =>
    obtain ⟨r, l'⟩ := v
    cases r <;> rfl

theorem run_ask_getc (rqn : Bool) (l : Local) (e : Env) :
    M.run (M.ask (.getc rqn)) l e =
      match e.tape.getc rqn (e.tape.line.length + 1) with
      | .ok (c, t) => (.ok (.ok c, l), { e with tape := t })
      | .error () => (.ok (.error (), l), e) := by
  rw [run_ask]; simp only [Env.answer]
  split <;> rename_i hg <;> simp only [hg]

/-! ## the accessors in the uniform view -/

/-- `_getc` with an empty `_eol_ungetc_lookahead` slot -/
theorem run_getc (rqn : Bool) (l : Local) (e : Env) (h : l.eolLookahead = none) :
    M.run (getc rqn) l e =
      match (tapeOf l e).getc rqn ((tapeOf l e).line.length + 1) with
      | .ok (c, t') => (.ok (c, putL l t'), putE l e t')
      | .error () => (.error (.foreign "IndexError" "_getc"), e) := by
  cases l with
  | mk tape opts eol =>
  simp only at h; subst h
  unfold getc
  simp only [M.run_bind, run_get]
  cases tape with
  | none =>
    simp only [tapeOf, putL, putE, M.run_bind]
    rw [run_ask_getc]
    cases hg : e.tape.getc rqn (e.tape.line.length + 1) with
    | ok v => obtain ⟨c, t'⟩ := v; simp only [M.run_pure]
    | error u => cases u; simp only [run_foreign]
  | some t =>
    simp only [tapeOf, putL, putE]
    split <;> rename_i hg <;> simp only [hg, M.run_bind, run_set, M.run_pure, run_foreign]

theorem run_ask_ungetc (l : Local) (e : Env) :
    M.run (M.ask .ungetc) l e = (.ok (e.tape.ungetc.1, l), { e with tape := e.tape.ungetc.2 }) := rfl

theorem ungetc_cases (t : Tape) :
    t.ungetc = (true, { t with idx := t.idx - 1 }) ∨ t.ungetc = (false, t) := by
  unfold Tape.ungetc; split
  · exact Or.inl rfl
  · exact Or.inr rfl

/-- `_ungetc(c)` -/
theorem run_ungetc (c : Option Char) (l : Local) (e : Env) :
    M.run (ungetc c) l e =
      match (tapeOf l e).ungetc with
      | (true, t') => (.ok ((), putL l t'), putE l e t')
      | (false, _) => (.ok ((), { l with eolLookahead := c }), e) := by
  cases l with
  | mk tape opts eol =>
  unfold ungetc
  simp only [M.run_bind, run_get]
  cases tape with
  | none =>
    simp only [tapeOf, putL, putE, M.run_bind]
    rw [run_ask_ungetc]
    rcases ungetc_cases e.tape with hu | hu <;> simp only [hu] <;> rfl
  | some t =>
    simp only [tapeOf, putL, putE]
    rcases ungetc_cases t with hu | hu <;> rw [hu] <;> rfl

theorem run_curIdx (l : Local) (e : Env) : M.run curIdx l e = (.ok ((tapeOf l e).idx, l), e) := by
  cases l with
  | mk tape => cases tape <;> rfl

theorem run_bumpIdx (l : Local) (e : Env) :
    M.run bumpIdx l e =
      (.ok ((), putL l { tapeOf l e with idx := (tapeOf l e).idx + 1 }),
       putE l e { tapeOf l e with idx := (tapeOf l e).idx + 1 }) := by
  cases l with
  | mk tape => cases tape <;> rfl

theorem run_tapeLine (l : Local) (e : Env) :
    M.run tapeLine l e = (.ok ((tapeOf l e).line, l), e) := by
  cases l with
  | mk tape => cases tape <;> rfl

theorem run_optStrict (l : Local) (e : Env) :
    M.run optStrict l e = (.ok (strictOf l e, l), e) := by
  cases l with
  | mk tape opts =>
    cases opts with
    | none => rfl
    | some p => obtain ⟨s, p⟩ := p; rfl

/-! ## positions as unread rests -/

/-- the tape with the cursor where `rest` remains unread -/
def seek (t : Tape) (rest : Str) : Tape := { t with idx := posOf t.line rest }

/-- the state `(l, e)` with the cursor moved to where `rest` remains unread -/
def stL (l : Local) (e : Env) (rest : Str) : Local := putL l (seek (tapeOf l e) rest)
def stE (l : Local) (e : Env) (rest : Str) : Env := putE l e (seek (tapeOf l e) rest)

@[simp] theorem seek_line (t : Tape) (r : Str) : (seek t r).line = t.line := rfl
@[simp] theorem seek_idx (t : Tape) (r : Str) : (seek t r).idx = posOf t.line r := rfl
@[simp] theorem seek_seek (t : Tape) (r r' : Str) : seek (seek t r) r' = seek t r' := rfl

@[simp] theorem tapeOf_st (l : Local) (e : Env) (r : Str) :
    tapeOf (stL l e r) (stE l e r) = seek (tapeOf l e) r := tapeOf_put _ _ _

@[simp] theorem stL_stL (l : Local) (e : Env) (r r' : Str) :
    stL (stL l e r) (stE l e r) r' = stL l e r' := by
  unfold stL stE; rw [tapeOf_put, putL_putL]; rfl

@[simp] theorem stE_stE (l : Local) (e : Env) (r r' : Str) :
    stE (stL l e r) (stE l e r) r' = stE l e r' := by
  unfold stL stE; rw [tapeOf_put, putE_putE]; rfl

@[simp] theorem stL_eol (l : Local) (e : Env) (r : Str) : (stL l e r).eolLookahead = l.eolLookahead :=
  putL_eol _ _
@[simp] theorem stL_store (l : Local) (e : Env) (r : Str) : (stL l e r).store = l.store :=
  putL_store _ _
@[simp] theorem stL_redirstack (l : Local) (e : Env) (r : Str) :
    (stL l e r).redirstack = l.redirstack := putL_redirstack _ _
@[simp] theorem strictOf_st (l : Local) (e : Env) (r : Str) :
    strictOf (stL l e r) (stE l e r) = strictOf l e := strictOf_put _ _ _

theorem posOf_drop {line : Str} {i : Nat} (h : i ≤ line.length) : posOf line (line.drop i) = i := by
  unfold posOf; rw [List.length_drop]; omega

theorem drop_posOf {line r : Str} (h : r <:+ line) : line.drop (posOf line r) = r := by
  obtain ⟨p, rfl⟩ := h
  unfold posOf
  rw [List.length_append, Nat.add_sub_cancel, List.drop_left]

theorem posOf_le (line r : Str) : posOf line r ≤ line.length := Nat.sub_le _ _

/-- a state whose cursor is inside the input is the state "at the rest from the cursor" -/
theorem seek_self {t : Tape} (h : t.idx ≤ t.line.length) : seek t (t.line.drop t.idx) = t := by
  unfold seek; rw [posOf_drop h]

theorem stL_self {l : Local} {e : Env} (h : (tapeOf l e).idx ≤ (tapeOf l e).line.length) :
    stL l e ((tapeOf l e).line.drop (tapeOf l e).idx) = l := by
  unfold stL; rw [seek_self h, putL_self]

theorem stE_self {l : Local} {e : Env} (h : (tapeOf l e).idx ≤ (tapeOf l e).line.length) :
    stE l e ((tapeOf l e).line.drop (tapeOf l e).idx) = e := by
  unfold stE; rw [seek_self h, putE_self]

end Bashlex.C10
