/-
  The tape simulation, generically: a top-level run (`Local.tape = none`, tape in the environment)
  and the run with the tape moved into the state (`Local.tape = some t`) proceed in lock step for
  every program that touches the tape only through the uniform accessors of `Model/Monad.lean`.

  `TapeRel l₁ e₁ l₂ e₂`: `(l₂, e₂)` is `(l₁, e₁)` with the tape moved into the state.
  `Sim m₁ m₂ V`: from related states, `m₁` (top) and `m₂` (local) either both return, with
  `V`-related values and related states, or both raise the same exception (environments equal up
  to the tape).  `SimEq m = Sim m m Eq`.
  Rules: `pure`, `bind`, `loop`, `raise`, `ite`/`dite` by `split`, every accessor (`sim_getc`,
  `sim_ungetc`, `sim_peekc`, `sim_curIdx`, `sim_bumpIdx`, `sim_tapeLine`, `sim_tapeSource`,
  `sim_tapeAdded`, `sim_optStrict`, `sim_optProceed`, `sim_syn`), `modify` with a function that
  does not look at the tape, and `get`/`set` at run level (`Sim.get_bind`, `OutRel.set`).
  Instances: `simEq_readline`, `simEq_makeheredoc`, `simEq_gatherheredocuments` — with NO
  hypothesis on the state (look-ahead slot, cursor, strictness, input length are arbitrary).
  `SimEq.top_eq_local` turns `SimEq m` into the statement about `M.run m l e` versus
  `M.run m {l with tape := some e.tape} e`.
-/
import Bashlex.Props.C10.Gather

namespace Bashlex.C10
open Bashlex
set_option linter.unusedSimpArgs false
set_option linter.unusedVariables false

/-- environments equal up to the tape -/
def SameButTape (e₁ e₂ : Env) : Prop :=
  e₁.strict = e₂.strict ∧ e₁.proceed = e₂.proceed ∧ e₁.touched = e₂.touched

theorem SameButTape.refl (e : Env) : SameButTape e e := ⟨rfl, rfl, rfl⟩

/-- `(l₂, e₂)` is `(l₁, e₁)` with the tape moved into the state -/
structure TapeRel (l₁ : Local) (e₁ : Env) (l₂ : Local) (e₂ : Env) : Prop where
  loc : l₂.tape = some e₁.tape
  leq : l₁ = { l₂ with tape := none }
  env : SameButTape e₁ e₂

theorem TapeRel.init (l : Local) (e : Env) (h : l.tape = none) :
    TapeRel l e { l with tape := some e.tape } e := by
  refine ⟨rfl, ?_, SameButTape.refl e⟩
  cases l with
  | mk tape => simp only at h; subst h; rfl

/-- related outcomes -/
def OutRel {α β : Type} (V : α → β → Prop) :
    Except Exn (α × Local) × Env → Except Exn (β × Local) × Env → Prop
  | (.ok (a₁, l₁), e₁), (.ok (a₂, l₂), e₂) => V a₁ a₂ ∧ TapeRel l₁ e₁ l₂ e₂
  | (.error x₁, e₁), (.error x₂, e₂) => x₁ = x₂ ∧ SameButTape e₁ e₂
  | _, _ => False

def Sim {α β : Type} (m₁ : M α) (m₂ : M β) (V : α → β → Prop) : Prop :=
  ∀ l₁ e₁ l₂ e₂, TapeRel l₁ e₁ l₂ e₂ → OutRel V (M.run m₁ l₁ e₁) (M.run m₂ l₂ e₂)

abbrev SimEq {α : Type} (m : M α) : Prop := Sim m m Eq

/-! ## structural rules -/

theorem Sim.pure {α β : Type} {V : α → β → Prop} {a : α} {b : β} (h : V a b) :
    Sim (Pure.pure a : M α) (Pure.pure b : M β) V := by
  intro l₁ e₁ l₂ e₂ hr
  exact ⟨h, hr⟩

theorem Sim.raise {α β : Type} {V : α → β → Prop} (x : Exn) :
    Sim (M.raise x : M α) (M.raise x : M β) V := by
  intro l₁ e₁ l₂ e₂ hr
  exact ⟨rfl, hr.env⟩

theorem Sim.foreign {α β : Type} {V : α → β → Prop} (a b : String) :
    Sim (M.foreign a b : M α) (M.foreign a b : M β) V := Sim.raise _

theorem Sim.bind {α β γ δ : Type} {m₁ : M α} {m₂ : M β} {f₁ : α → M γ} {f₂ : β → M δ}
    {V : α → β → Prop} {W : γ → δ → Prop}
    (hm : Sim m₁ m₂ V) (hf : ∀ a b, V a b → Sim (f₁ a) (f₂ b) W) :
    Sim (m₁ >>= f₁) (m₂ >>= f₂) W := by
  intro l₁ e₁ l₂ e₂ hr
  rw [M.run_bind, M.run_bind]
  have h := hm l₁ e₁ l₂ e₂ hr
  rcases h1 : M.run m₁ l₁ e₁ with ⟨r₁, e₁'⟩
  rcases h2 : M.run m₂ l₂ e₂ with ⟨r₂, e₂'⟩
  rw [h1, h2] at h
  cases r₁ with
  | error x₁ =>
    cases r₂ with
    | error x₂ => exact h
    | ok v₂ => exact h.elim
  | ok v₁ =>
    obtain ⟨a₁, l₁'⟩ := v₁
    cases r₂ with
    | error x₂ => exact h.elim
    | ok v₂ =>
      obtain ⟨a₂, l₂'⟩ := v₂
      exact hf a₁ a₂ h.1 l₁' e₁' l₂' e₂' h.2

theorem SimEq.bind {α β : Type} {m : M α} {f : α → M β}
    (hm : SimEq m) (hf : ∀ a, SimEq (f a)) : SimEq (m >>= f) :=
  Sim.bind hm (fun a b hab => by subst hab; exact hf a)

theorem SimEq.pure {α : Type} (a : α) : SimEq (Pure.pure a : M α) := Sim.pure rfl

/-- lock-step loops -/
theorem Sim.loop {σ τ α β : Type} {site : String} {b₁ : σ → M (σ ⊕ α)} {b₂ : τ → M (τ ⊕ β)}
    {S : σ → τ → Prop} {V : α → β → Prop}
    (hb : ∀ s t, S s t → Sim (b₁ s) (b₂ t) (fun x y =>
      match x, y with
      | .inl s', .inl t' => S s' t'
      | .inr a, .inr b => V a b
      | _, _ => False)) :
    ∀ (fuel : Nat) (s : σ) (t : τ), S s t → Sim (M.loop site b₁ fuel s) (M.loop site b₂ fuel t) V
  | 0, s, t, _ => Sim.raise _
  | fuel + 1, s, t, hst => by
    show Sim (b₁ s >>= _) (b₂ t >>= _) V
    refine Sim.bind (hb s t hst) ?_
    intro x y hxy
    cases x with
    | inl s' =>
      cases y with
      | inl t' => exact Sim.loop hb fuel s' t' hxy
      | inr b => exact hxy.elim
    | inr a =>
      cases y with
      | inl t' => exact hxy.elim
      | inr b => exact Sim.pure hxy

theorem SimEq.loop {σ α : Type} {site : String} {body : σ → M (σ ⊕ α)}
    (hb : ∀ s, SimEq (body s)) (fuel : Nat) (s : σ) : SimEq (M.loop site body fuel s) := by
  refine Sim.loop (S := Eq) (V := Eq) ?_ fuel s s rfl
  intro s t hst; subst hst
  intro l₁ e₁ l₂ e₂ hr
  have h := hb s l₁ e₁ l₂ e₂ hr
  rcases h1 : M.run (body s) l₁ e₁ with ⟨r₁, e₁'⟩
  rcases h2 : M.run (body s) l₂ e₂ with ⟨r₂, e₂'⟩
  rw [h1, h2] at h
  cases r₁ with
  | error x₁ =>
    cases r₂ with
    | error x₂ => exact h
    | ok v₂ => exact h.elim
  | ok v₁ =>
    obtain ⟨a₁, l₁'⟩ := v₁
    cases r₂ with
    | error x₂ => exact h.elim
    | ok v₂ =>
      obtain ⟨a₂, l₂'⟩ := v₂
      obtain ⟨hv, hrel⟩ := h
      subst hv
      refine ⟨?_, hrel⟩
      cases a₁ <;> rfl

/-- `get >>= k`: the continuations are compared on the two related states themselves -/
theorem Sim.get_bind {α β : Type} {k₁ : Local → M α} {k₂ : Local → M β} {V : α → β → Prop}
    (h : ∀ l₁ e₁ l₂ e₂, TapeRel l₁ e₁ l₂ e₂ →
      OutRel V (M.run (k₁ l₁) l₁ e₁) (M.run (k₂ l₂) l₂ e₂)) :
    Sim (get >>= k₁) (get >>= k₂) V := by
  intro l₁ e₁ l₂ e₂ hr
  exact h l₁ e₁ l₂ e₂ hr

/-- a state update that does not look at the tape -/
theorem SimEq.modify {f : Local → Local} (hf : ∀ l : Local, (f l).tape = l.tape)
    (hc : ∀ l : Local, f { l with tape := none } = { f l with tape := none }) :
    SimEq (modify f : M Unit) := by
  intro l₁ e₁ l₂ e₂ hr
  refine ⟨rfl, ?_, ?_, hr.env⟩
  · rw [hf]; exact hr.loc
  · rw [hr.leq, hc]

/-! ## the accessors -/

/-- destructure related states: the local one is `mk (some e₁.tape) …`, the top one `mk none …` -/
theorem TapeRel.cases {l₁ : Local} {e₁ : Env} {l₂ : Local} {e₂ : Env} (h : TapeRel l₁ e₁ l₂ e₂) :
    l₁.tape = none ∧ tapeOf l₁ e₁ = e₁.tape ∧ tapeOf l₂ e₂ = e₁.tape ∧
    l₁.eolLookahead = l₂.eolLookahead ∧ l₁.opts = l₂.opts := by
  obtain ⟨h1, h2, h3⟩ := h
  subst h2
  refine ⟨rfl, rfl, ?_, rfl, rfl⟩
  unfold tapeOf; rw [h1]

theorem TapeRel.put {l₁ : Local} {e₁ : Env} {l₂ : Local} {e₂ : Env} (h : TapeRel l₁ e₁ l₂ e₂)
    (t : Tape) : TapeRel (putL l₁ t) (putE l₁ e₁ t) (putL l₂ t) (putE l₂ e₂ t) := by
  obtain ⟨h1, h2, h3⟩ := h
  subst h2
  cases l₂ with
  | mk tape =>
    simp only at h1; subst h1
    exact ⟨rfl, rfl, h3⟩

theorem TapeRel.setEol {l₁ : Local} {e₁ : Env} {l₂ : Local} {e₂ : Env} (h : TapeRel l₁ e₁ l₂ e₂)
    (c : Option Char) :
    TapeRel { l₁ with eolLookahead := c } e₁ { l₂ with eolLookahead := c } e₂ := by
  obtain ⟨h1, h2, h3⟩ := h
  subst h2
  exact ⟨h1, rfl, h3⟩

theorem sim_getc (rqn : Bool) : SimEq (getc rqn) := by
  intro l₁ e₁ l₂ e₂ hr
  obtain ⟨_, ht1, ht2, heol, _⟩ := hr.cases
  cases hl : l₂.eolLookahead with
  | some ch =>
    have r1 : M.run (getc rqn) l₁ e₁ = (.ok (some ch, { l₁ with eolLookahead := none }), e₁) := by
      unfold getc
      simp only [M.run_bind, run_get, heol, hl, run_set, M.run_pure]
    have r2 : M.run (getc rqn) l₂ e₂ = (.ok (some ch, { l₂ with eolLookahead := none }), e₂) := by
      unfold getc
      simp only [M.run_bind, run_get, hl, run_set, M.run_pure]
    rw [r1, r2]
    exact ⟨rfl, hr.setEol none⟩
  | none =>
    rw [run_getc rqn l₁ e₁ (by rw [heol, hl]), run_getc rqn l₂ e₂ hl, ht1, ht2]
    cases e₁.tape.getc rqn (e₁.tape.line.length + 1) with
    | error u => exact ⟨rfl, hr.env⟩
    | ok v => obtain ⟨c, t'⟩ := v; exact ⟨rfl, hr.put t'⟩

theorem sim_ungetc (c : Option Char) : SimEq (ungetc c) := by
  intro l₁ e₁ l₂ e₂ hr
  obtain ⟨_, ht1, ht2, _, _⟩ := hr.cases
  rw [run_ungetc, run_ungetc, ht1, ht2]
  rcases ungetc_cases e₁.tape with hu | hu <;> rw [hu]
  · exact ⟨rfl, hr.put _⟩
  · exact ⟨rfl, hr.setEol c⟩

theorem sim_curIdx : SimEq curIdx := by
  intro l₁ e₁ l₂ e₂ hr
  obtain ⟨_, ht1, ht2, _, _⟩ := hr.cases
  rw [run_curIdx, run_curIdx, ht1, ht2]
  exact ⟨rfl, hr⟩

theorem sim_bumpIdx : SimEq bumpIdx := by
  intro l₁ e₁ l₂ e₂ hr
  obtain ⟨_, ht1, ht2, _, _⟩ := hr.cases
  rw [run_bumpIdx, run_bumpIdx, ht1, ht2]
  exact ⟨rfl, hr.put _⟩

theorem sim_tapeLine : SimEq tapeLine := by
  intro l₁ e₁ l₂ e₂ hr
  obtain ⟨_, ht1, ht2, _, _⟩ := hr.cases
  rw [run_tapeLine, run_tapeLine, ht1, ht2]
  exact ⟨rfl, hr⟩

theorem run_tapeSource (l : Local) (e : Env) :
    M.run tapeSource l e = (.ok ((tapeOf l e).source, l), e) := by
  cases l with
  | mk tape => cases tape <;> rfl

theorem run_tapeAdded (l : Local) (e : Env) :
    M.run tapeAdded l e = (.ok ((tapeOf l e).added, l), e) := by
  cases l with
  | mk tape => cases tape <;> rfl

theorem sim_tapeSource : SimEq tapeSource := by
  intro l₁ e₁ l₂ e₂ hr
  obtain ⟨_, ht1, ht2, _, _⟩ := hr.cases
  rw [run_tapeSource, run_tapeSource, ht1, ht2]
  exact ⟨rfl, hr⟩

theorem sim_tapeAdded : SimEq tapeAdded := by
  intro l₁ e₁ l₂ e₂ hr
  obtain ⟨_, ht1, ht2, _, _⟩ := hr.cases
  rw [run_tapeAdded, run_tapeAdded, ht1, ht2]
  exact ⟨rfl, hr⟩

theorem sim_optStrict : SimEq optStrict := by
  intro l₁ e₁ l₂ e₂ hr
  obtain ⟨_, _, _, _, hopts⟩ := hr.cases
  rw [run_optStrict, run_optStrict]
  refine ⟨?_, hr⟩
  unfold strictOf; rw [hopts, hr.env.1]

theorem run_optProceed (l : Local) (e : Env) :
    M.run optProceed l e =
      (.ok ((match l.opts with | some (_, p) => p | none => e.proceed), l), e) := by
  cases l with
  | mk tape opts =>
    cases opts with
    | none => rfl
    | some p => obtain ⟨s, p⟩ := p; rfl

theorem sim_optProceed : SimEq optProceed := by
  intro l₁ e₁ l₂ e₂ hr
  obtain ⟨_, _, _, _, hopts⟩ := hr.cases
  rw [run_optProceed, run_optProceed]
  refine ⟨?_, hr⟩
  rw [hopts, hr.env.2.1]

theorem sim_syn (c : Char) : SimEq (syn c) := by
  intro l₁ e₁ l₂ e₂ hr
  obtain ⟨h1, h2, h3, h4, h5⟩ := hr
  have r : ∀ (l : Local) (e : Env), M.run (syn c) l e =
      (.ok (synClass c, l),
        if e.touched.contains c then e else { e with touched := e.touched ++ [c] }) := by
    intro l e; rfl
  rw [r, r, h5]
  by_cases hc : e₂.touched.contains c = true
  · simp only [hc, if_true]
    exact ⟨rfl, h1, h2, h3, h4, h5⟩
  · simp only [hc, if_false]
    exact ⟨rfl, h1, h2, h3, h4, by simp [h5]⟩

theorem sim_peekc (rqn : Bool) : SimEq (peekc rqn) := by
  unfold peekc
  refine SimEq.bind (sim_getc rqn) (fun c => ?_)
  split
  · exact SimEq.bind (sim_ungetc c) (fun _ => SimEq.pure c)
  · exact SimEq.bind (SimEq.pure ()) (fun _ => SimEq.pure c)

/-! ## instances -/

theorem simEq_rlBody (rqn : Bool) (st : RLState) : SimEq (rlBody rqn st) := by
  unfold rlBody
  refine SimEq.bind (sim_getc true) (fun c0 => ?_)
  split
  · exact SimEq.pure _
  · simp only []
    split
    · split <;> exact SimEq.pure _
    · split
      · refine SimEq.bind (sim_getc true) (fun peek => ?_)
        split
        · exact SimEq.pure _
        · refine SimEq.bind (sim_ungetc peek) (fun _ => ?_)
          split <;> exact SimEq.pure _
      · split <;> exact SimEq.pure _

theorem simEq_readline (rqn : Bool) : SimEq (readline rqn) := by
  rw [readline_eq]
  exact SimEq.bind (SimEq.pure _) (fun fuel => SimEq.loop (simEq_rlBody rqn) fuel _)


/-- `get >>= k` where `k` does not look at the tape field -/
theorem SimEq.get_bind {α : Type} {k : Local → M α}
    (hk : ∀ l : Local, k { l with tape := none } = k l) (h : ∀ l, SimEq (k l)) :
    SimEq (get >>= k) := by
  refine Sim.get_bind ?_
  intro l₁ e₁ l₂ e₂ hr
  rw [hr.leq, hk]
  have := h l₂ l₁ e₁ l₂ e₂ hr
  rw [hr.leq] at this
  exact this

/-- `let l ← get; set (g l)` where `g` does not look at the tape field -/
theorem SimEq.get_set {g : Local → Local} (hf : ∀ l : Local, (g l).tape = l.tape)
    (hc : ∀ l : Local, g { l with tape := none } = { g l with tape := none }) :
    SimEq (get >>= fun l => (set (g l) : M Unit)) := by
  refine Sim.get_bind ?_
  intro l₁ e₁ l₂ e₂ hr
  refine ⟨rfl, ?_, ?_, hr.env⟩
  · rw [hf]; exact hr.loc
  · rw [hr.leq, hc]

macro "sim_auto" : tactic => `(tactic| repeat (first
  | exact SimEq.pure _
  | exact simEq_readline _
  | exact Sim.foreign _ _
  | exact Sim.raise _
  | exact sim_curIdx
  | exact sim_tapeLine
  | exact sim_optStrict
  | exact sim_bumpIdx
  | exact sim_peekc _
  | exact SimEq.get_set (fun _ => rfl) (fun _ => rfl)
  | refine SimEq.bind ?_ (fun _ => ?_)
  | split))

theorem simEq_mhBody (d : Str) (k : Bool) (st : HDState) : SimEq (mhBody d k st) := by
  unfold mhBody
  simp only []
  sim_auto

theorem simEq_mhFinish (id : Nat) (cell : RedirCell) (startpos : Nat) (fin : HDState) :
    SimEq (mhFinish id cell startpos fin) := by
  unfold mhFinish
  simp only []
  sim_auto

theorem simEq_makeheredoc (id : Nat) (kill : Bool) : SimEq (makeheredoc id kill) := by
  rw [makeheredoc_eq]
  refine SimEq.get_bind (fun _ => rfl) (fun l => ?_)
  have hjp : ∀ cell : RedirCell, SimEq (do
      let startpos ← curIdx
      let first ← readline false
      let fuel ← loopFuel
      let fin ← M.loop "makeheredoc" (mhBody cell.delim kill) fuel { fullline := first }
      mhFinish id cell startpos fin) := by
    intro cell
    refine SimEq.bind sim_curIdx (fun startpos => ?_)
    refine SimEq.bind (simEq_readline false) (fun first => ?_)
    refine SimEq.bind (SimEq.pure _) (fun fuel => ?_)
    refine SimEq.bind (SimEq.loop (simEq_mhBody _ _) fuel _) (fun fin => ?_)
    exact simEq_mhFinish id cell startpos fin
  simp only []
  split
  · exact SimEq.bind (SimEq.pure _) (fun cell => hjp cell)
  · exact SimEq.bind (Sim.foreign _ _) (fun cell => hjp cell)

theorem simEq_gBody (u : Unit) : SimEq (gBody u) := by
  unfold gBody
  refine SimEq.get_bind (fun _ => rfl) (fun l => ?_)
  split
  · exact SimEq.pure _
  · refine SimEq.bind (sim_peekc true) (fun p => ?_)
    simp only []
    have hjp : ∀ rest id kill, SimEq (do
        modify fun l => { l with redirstack := rest }
        makeheredoc id kill
        pure (Sum.inl () : Unit ⊕ Unit)) := by
      intro rest id kill
      refine SimEq.bind (SimEq.modify (fun _ => rfl) (fun _ => rfl)) (fun _ => ?_)
      exact SimEq.bind (simEq_makeheredoc id kill) (fun _ => SimEq.pure _)
    split
    · refine SimEq.bind sim_optStrict (fun b => ?_)
      split
      · exact SimEq.bind sim_bumpIdx (fun _ => SimEq.pure _)
      · exact hjp _ _ _
    · exact hjp _ _ _

theorem simEq_gatherheredocuments : SimEq gatherheredocuments := by
  rw [gather_eq]
  refine SimEq.get_bind (fun _ => rfl) (fun l => ?_)
  exact SimEq.loop simEq_gBody _ _

/-- "the top-level run of `m` from `(l, e)` equals the run with the tape moved into the state":
    same value, same local state (tape field aside), the final local tape is the final
    environment tape; an exception (the local state is lost) is the same exception -/
def TopEqLocal {α : Type} (m : M α) (l : Local) (e : Env) : Prop :=
  match M.run m { l with tape := some e.tape } e with
  | (.ok (a, l'), e') =>
    ∃ t', l'.tape = some t' ∧
      M.run m l e = (.ok (a, { l' with tape := none }), { e' with tape := t' })
  | (.error x, e') => ∃ t', M.run m l e = (.error x, { e' with tape := t' })

/-- what `SimEq m` says about a top-level state and the same state with the tape moved in -/
theorem SimEq.top_eq_local {α : Type} {m : M α} (h : SimEq m) (l : Local) (e : Env)
    (ht : l.tape = none) : TopEqLocal m l e := by
  unfold TopEqLocal
  have hsim := h l e { l with tape := some e.tape } e (TapeRel.init l e ht)
  rcases h1 : M.run m l e with ⟨r₁, e₁'⟩
  rcases h2 : M.run m { l with tape := some e.tape } e with ⟨r₂, e₂'⟩
  rw [h1, h2] at hsim
  cases r₁ with
  | error x₁ =>
    cases r₂ with
    | ok v₂ => exact hsim.elim
    | error x₂ =>
      obtain ⟨hx, h3, h4, h5⟩ := hsim
      subst hx
      refine ⟨e₁'.tape, ?_⟩
      cases e₁'; cases e₂'; simp only at h3 h4 h5; subst h3 h4 h5; rfl
  | ok v₁ =>
    obtain ⟨a₁, l₁'⟩ := v₁
    cases r₂ with
    | error x₂ => exact hsim.elim
    | ok v₂ =>
      obtain ⟨a₂, l₂'⟩ := v₂
      obtain ⟨hv, hloc, hleq, h3, h4, h5⟩ := hsim
      subst hv
      refine ⟨e₁'.tape, hloc, ?_⟩
      rw [hleq]
      cases e₁'; cases e₂'; simp only at h3 h4 h5; subst h3 h4 h5; rfl

end Bashlex.C10
