/-
  C05, character level, tight form, part 2: the chain read from the front (`ChainL`), what lies
  between two consecutive tokens, the link to `Spec.isLayout`, and the witness that the
  per-position predicate `PosLay` is over-approximate.
-/
import Bashlex.Props.C05.FChain

namespace Bashlex.C05.TGT
open Bashlex Bashlex.M Bashlex.C10 Bashlex.C11 Bashlex.C03 Bashlex.C03.Tok Bashlex.C04
  Bashlex.C04.TTP Bashlex.C05 Bashlex.C05.TG
set_option linter.unusedSimpArgs false
set_option linter.unusedVariables false

/-- **one call of `token()`** entered at cursor `i0`, delivering `t`, leaving the cursor at `e`:
    the text from `i0` to the start of `t` is a `Skip` -- ANCHORED at the entry cursor --;
    a token other than NEWLINE / EOF ends at `e` inside the line; a NEWLINE token sits on a
    newline and the rest of its span is a region `gatherheredocuments` consumed; EOF: the skip
    runs to the end of the line -/
def Deliv (L : Str) (st : List RedirCell) (i0 : Nat) (t : Token) (e : Nat) : Prop :=
  (∃ a, Skip L i0 a ∧ t.pos = some (a, e) ∧ a < e ∧
    ((NN t ∧ e ≤ L.length) ∨
     (t.ttype = some .NEWLINE ∧ L[a]? = some '\n' ∧ GRegT L st (a + 1) e))) ∨
  (t = eofTok ∧ Skip L i0 L.length ∧ e = L.length)

/-- **the chain, read from the front**: from cursor `i`, regions consumed by
    `gatherheredocuments` (`p_simple_list`), then one call of `token()`, and so on; after the
    last token only such regions, up to the cursor `c` -/
def ChainL (L : Str) (st : List RedirCell) : Nat → List Token → Nat → Prop
  | i, [], c => i ≤ c ∧ GRegT L st i c
  | i, t :: ts, c => ∃ i' e, i ≤ i' ∧ GRegT L st i i' ∧ Deliv L st i' t e ∧ ChainL L st e ts c

theorem ChainL.gath {L : Str} {st : List RedirCell} : ∀ {ts : List Token} {i c c' : Nat},
    ChainL L st i ts c → c ≤ c' → GRegT L st c c' → ChainL L st i ts c'
  | [], i, c, c', h, h1, h2 => ⟨Nat.le_trans h.1 h1, h.2.trans h2⟩
  | t :: ts, i, c, c', h, h1, h2 => by
    obtain ⟨i', e, a1, a2, a3, a4⟩ := h
    exact ⟨i', e, a1, a2, a3, ChainL.gath a4 h1 h2⟩

theorem ChainL.snoc {L : Str} {st : List RedirCell} {t : Token} {e : Nat} :
    ∀ {ts : List Token} {i c : Nat}, ChainL L st i ts c → Deliv L st c t e →
      ChainL L st i (ts ++ [t]) e
  | [], i, c, h, hd => ⟨c, e, h.1, h.2, hd, Nat.le_refl e, GRegT.refl L st e⟩
  | t' :: ts, i, c, h, hd => by
    obtain ⟨i', e', a1, a2, a3, a4⟩ := h
    exact ⟨i', e', a1, a2, a3, ChainL.snoc a4 hd⟩

/-- the chain of `Props/C05/FChain.lean`, read from the front -/
theorem Chain.toL {L : Str} {st : List RedirCell} {ts : List Token} {c : Nat}
    (h : Chain L st ts c) : ChainL L st 0 ts c := by
  induction h with
  | nil => exact ⟨Nat.le_refl 0, GRegT.refl L st 0⟩
  | tok _ h1 h2 h3 h4 h5 ih =>
    exact ih.snoc (Or.inl ⟨_, h1, h2, h3, Or.inl ⟨h5, h4⟩⟩)
  | nl _ h1 h2 h3 h4 h5 h6 ih =>
    exact ih.snoc (Or.inl ⟨_, h1, h2, h3, Or.inr ⟨h4, h5, h6⟩⟩)
  | eof _ h1 ih => exact ih.snoc (Or.inr ⟨rfl, h1, rfl⟩)
  | gath _ h1 h2 ih => exact ih.gath h1 h2

/-- splitting the chain at any point of the log -/
theorem ChainL.split {L : Str} {st : List RedirCell} : ∀ {a b : List Token} {i c : Nat},
    ChainL L st i (a ++ b) c → ∃ m, ChainL L st i a m ∧ ChainL L st m b c
  | [], b, i, c, h => ⟨i, ⟨Nat.le_refl i, GRegT.refl L st i⟩, h⟩
  | t :: a, b, i, c, h => by
    obtain ⟨i', e, a1, a2, a3, a4⟩ := h
    obtain ⟨m, h1, h2⟩ := ChainL.split a4
    exact ⟨m, ⟨i', e, a1, a2, a3, h1⟩, h2⟩

theorem ChainL.le {L : Str} {st : List RedirCell} : ∀ {ts : List Token} {i c : Nat},
    ChainL L st i ts c → i ≤ c
  | [], i, c, h => h.1
  | t :: ts, i, c, h => by
    obtain ⟨i', e, a1, a2, a3, a4⟩ := h
    have := ChainL.le a4
    have : i' ≤ e := by
      rcases a3 with ⟨a, h1, h2, h3, _⟩ | ⟨_, h1, h2⟩
      · have := h1.le; omega
      · have := h1.le; omega
    omega

/-- **what lies between two consecutive tokens** `t1` (ending at `e1`) and `t2` (starting at
    `a2`), neither EOF: regions consumed by `gatherheredocuments` from `e1` to some `x`, then a
    `Skip` from `x` to `a2`.  The `Skip` is anchored: it starts where the token (or the last
    region) ends. -/
def Gap (L : Str) (st : List RedirCell) (x y : Nat) : Prop :=
  ∃ x', x ≤ x' ∧ GRegT L st x x' ∧ Skip L x' y

theorem Deliv.pos {L : Str} {st : List RedirCell} {i0 e : Nat} {t : Token}
    (h : Deliv L st i0 t e) {a b : Nat} (hp : t.pos = some (a, b)) :
    b = e ∧ a < e ∧ Skip L i0 a := by
  rcases h with ⟨a', h1, h2, h3, _⟩ | ⟨rfl, _, _⟩
  · rw [hp] at h2
    cases h2
    exact ⟨rfl, h3, h1⟩
  · cases hp

/-- the gap before the first token -/
theorem ChainL.first {L : Str} {st : List RedirCell} {t : Token} {ts : List Token} {i c a b : Nat}
    (h : ChainL L st i (t :: ts) c) (hp : t.pos = some (a, b)) :
    Gap L st i a ∧ ChainL L st b ts c := by
  obtain ⟨i', e, a1, a2, a3, a4⟩ := h
  obtain ⟨rfl, _, hsk⟩ := a3.pos hp
  exact ⟨⟨i', a1, a2, hsk⟩, a4⟩

/-- **between two consecutive positioned tokens of the log** -/
theorem ChainL.consec {L : Str} {st : List RedirCell} {pre post : List Token} {t1 t2 : Token}
    {i c a1 b1 a2 b2 : Nat} (h : ChainL L st i (pre ++ t1 :: t2 :: post) c)
    (hp1 : t1.pos = some (a1, b1)) (hp2 : t2.pos = some (a2, b2)) :
    Gap L st b1 a2 := by
  obtain ⟨m, _, h2⟩ := ChainL.split h
  obtain ⟨_, h3⟩ := h2.first hp1
  exact (h3.first hp2).1

/-- a gap without a gathered region is layout in the sense of the specification -/
theorem Gap.isLayout {L : Str} {st : List RedirCell} {x y : Nat} (h : Skip L x y) :
    Spec.isLayout (L.length + 1) (Str.slice L x y) = true := skip_isLayout h

/-- the regions of a gap: per position, layout or inside a gathered body; the `Skip`: layout in
    the sense of the specification -/
theorem Gap.parts {L : Str} {st : List RedirCell} {x y : Nat} (h : Gap L st x y) :
    ∃ x', x ≤ x' ∧ x' ≤ y ∧ (∀ p, x ≤ p → p < x' → p < L.length → PosPN L p ∨ InBody st p) ∧
      Spec.isLayout (L.length + 1) (Str.slice L x' y) = true := by
  obtain ⟨x', h1, h2, h3⟩ := h
  exact ⟨x', h1, h3.le, h2, skip_isLayout h3⟩

/-! ## `PosLay` is over-approximate (why the chain is needed) -/

/-- in `a#b c` the position of the word `c` is `PosLay`: `[1, 5)` is a `Skip` of the TEXT (an
    empty run of blanks, then `#b c` up to the newline), although `#` is in the middle of the
    word `a#b` and `c` is a token.  `C05_chars_checked`, a statement per position, cannot notice a
    token dropped behind a `#` on the same line; the chain can: a `Skip` starts where a token
    ends. -/
theorem posLay_overapprox : PosLay "a#b c\n".toList 4 ∧ "a#b c\n".toList[4]? = some 'c' := by
  refine ⟨Or.inr ⟨1, 5, by omega, by omega, 1, BlankRun.refl _ (by decide), Or.inr ?_⟩, by decide⟩
  refine ⟨by omega, by decide, ?_, by decide⟩
  intro k h1 h2
  have : k = 1 ∨ k = 2 ∨ k = 3 ∨ k = 4 := by omega
  rcases this with rfl | rfl | rfl | rfl <;> decide

end Bashlex.C05.TGT

namespace Bashlex.C05
open Bashlex Bashlex.Spec Bashlex.C05.TG Bashlex.C05.TGT
set_option linter.unusedVariables false

/-- `ChainOK` with the chain read from the front -/
theorem ChainOK.front {s0 : Str} {n : Node} (h : ChainOK s0 n) :
    ∃ (ts la : List Token) (B : Nat) (st : List RedirCell),
      la.length ≤ 1 ∧ NoEOF ts ∧ TokSorted ts ∧ FCovers s0.length ts (Spec.leaves n) ∧
      (∃ la' c, (la' = la ∨ la' = []) ∧ ChainL (Tape.ofInput s0).line st 0 (ts ++ la') c ∧
        (c = B ∨ ((Tape.ofInput s0).line.length < c ∧ (Tape.ofInput s0).line.length < B))) ∧
      ((∃ t ∈ la, t.pos = none) → (Tape.ofInput s0).line.length ≤ B) := by
  obtain ⟨ts, la, B, st, h1, h2, h3, h4, ⟨la', c, g1, g2, g3⟩, h6⟩ := h
  exact ⟨ts, la, B, st, h1, h2, h3, h4, ⟨la', c, g1, g2.toL, g3⟩, h6⟩

end Bashlex.C05

#print axioms Bashlex.C05.TGT.Chain.toL
#print axioms Bashlex.C05.TGT.ChainL.consec
#print axioms Bashlex.C05.TGT.posLay_overapprox
