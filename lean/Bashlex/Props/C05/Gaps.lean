/-
  C05, part 7: from the token-level statement towards the character-level one.

  * `token_in_leaf`: spatially, no token is lost: if the consumed tokens have ordered spans (a
    fact of the token source, C03's `TokSpans.next`), every consumed token that is not a dropped
    NEWLINE (or a D19 `time` token) lies inside a leaf of the returned tree;
  * `TokGaps`: the hypothesis on the tokenizer the character-level half of C05 needs in
    addition ("between two delivered tokens the tokenizer skips only layout -- blanks, newlines,
    comments, line continuations -- and gathered here-document bodies").  It is a property of
    the ghost invariant `TL` of `TokLog`; it is STATED here, not proved, and not used: the
    character-level half (every character outside the leaf spans is layout, i.e.
    `Spec.coverOK s parts ⊆ {leaf-overlap+heredoc-body (D11), gap-not-layout next to a leaf at
    (0,0) (D19)}`) is not proved.  What it would take beyond `C05_partial` and `TokGaps`:
    an algebra of `Spec.isLayout` (a dropped NEWLINE token joins two layout gaps into one), that
    every cell of the redirect store belongs to a redirect of the accepted tree (bodies are
    leaves), and that `Array.qsort` in `Spec.coverOK` sorts.
-/
import Bashlex.Props.C05

namespace Bashlex.C05
open Bashlex Bashlex.Spec Bashlex.Node Bashlex.M Bashlex.C03
set_option linter.unusedSimpArgs false
set_option linter.unusedVariables false

/-! ## no token is lost, spatially -/

/-- the spans of the tokens are non-empty-or-empty intervals in increasing order, disjoint -/
def TokSorted (ts : List Token) : Prop :=
  ts.Pairwise (fun a b => a.endlexpos ≤ b.lexpos) ∧ ∀ t ∈ ts, t.lexpos ≤ t.endlexpos

theorem TokSorted.append {a b : List Token} (h : TokSorted (a ++ b)) : TokSorted a ∧ TokSorted b := by
  obtain ⟨h1, h2⟩ := h
  rw [List.pairwise_append] at h1
  exact ⟨⟨h1.1, fun t ht => h2 t (List.mem_append_left _ ht)⟩,
    ⟨h1.2.1, fun t ht => h2 t (List.mem_append_right _ ht)⟩⟩

def InLeaf (t : Token) (ls : List (Span × Bool)) : Prop :=
  ∃ x ∈ ls, x.1.1 ≤ t.lexpos ∧ t.endlexpos ≤ x.1.2

theorem InLeaf.mono {t : Token} {ls ls' : List (Span × Bool)} (h : InLeaf t ls)
    (hs : ∀ x ∈ ls, x ∈ ls') : InLeaf t ls' := by
  obtain ⟨x, hx, h1⟩ := h
  exact ⟨x, hs x hx, h1⟩

theorem head_redirLeaves (p : Span) (h : Option Span) : ∃ b, (p, b) ∈ redirLeaves p h := by
  unfold redirLeaves
  cases h with
  | none => exact ⟨false, by simp⟩
  | some b =>
    simp only []
    split
    · exact ⟨true, by simp⟩
    · exact ⟨false, by simp⟩

theorem group_in_leaf {len : Nat} {ts : List Token} {ls : List (Span × Bool)}
    (h : FGroup len ts ls) (hs : TokSorted ts) :
    ∀ t ∈ ts, Droppable t ∨ IsTimeTok t ∨ InLeaf t ls := by
  obtain ⟨hp, hle⟩ := hs
  cases h with
  | leaf t =>
    intro t' ht'
    simp only [List.mem_singleton] at ht'
    subst ht'
    exact Or.inr (Or.inr ⟨_, List.mem_singleton_self _, Nat.le_refl _, Nat.le_refl _⟩)
  | drop t hd =>
    intro t' ht'
    simp only [List.mem_singleton] at ht'
    subst ht'
    exact Or.inl hd
  | redir2 op tgt _ =>
    have h1 : op.endlexpos ≤ tgt.lexpos := by
      simp only [List.pairwise_cons, List.mem_singleton, forall_eq] at hp
      exact hp.1
    have ho := hle op (by simp)
    have ht := hle tgt (by simp)
    intro t' ht'
    simp only [List.mem_cons, List.not_mem_nil, or_false] at ht'
    refine Or.inr (Or.inr ⟨_, List.mem_singleton_self _, ?_⟩)
    rcases ht' with rfl | rfl
    · exact ⟨Nat.le_refl _, by show t'.endlexpos ≤ tgt.endlexpos; omega⟩
    · exact ⟨by show op.lexpos ≤ t'.lexpos; omega, Nat.le_refl _⟩
  | redir3 fd op tgt _ _ =>
    have h1 : fd.endlexpos ≤ op.lexpos ∧ fd.endlexpos ≤ tgt.lexpos ∧ op.endlexpos ≤ tgt.lexpos := by
      simp only [List.pairwise_cons, List.mem_cons, List.mem_singleton, forall_eq_or_imp,
        forall_eq, List.not_mem_nil, or_false] at hp
      exact ⟨hp.1.1, hp.1.2, hp.2.1⟩
    have hf := hle fd (by simp)
    have ho := hle op (by simp)
    have ht := hle tgt (by simp)
    intro t' ht'
    simp only [List.mem_cons, List.not_mem_nil, or_false] at ht'
    refine Or.inr (Or.inr ⟨_, List.mem_singleton_self _, ?_⟩)
    rcases ht' with rfl | rfl | rfl
    · exact ⟨Nat.le_refl _, by show t'.endlexpos ≤ tgt.endlexpos; omega⟩
    · exact ⟨by show fd.lexpos ≤ t'.lexpos; omega, by show t'.endlexpos ≤ tgt.endlexpos; omega⟩
    · exact ⟨by show fd.lexpos ≤ t'.lexpos; omega, Nat.le_refl _⟩
  | here2 op tgt p' h' _ hok =>
    have h1 : op.endlexpos ≤ tgt.lexpos := by
      simp only [List.pairwise_cons, List.mem_singleton, forall_eq] at hp
      exact hp.1
    have ho := hle op (by simp)
    have ht := hle tgt (by simp)
    obtain ⟨b, hb⟩ := head_redirLeaves p' h'
    have hpp : p'.1 = op.lexpos ∧ tgt.endlexpos ≤ p'.2 := by
      rcases hok.2 with h | ⟨_, h2, h3, _⟩
      · rw [h]; exact ⟨rfl, Nat.le_refl _⟩
      · exact ⟨h2, h3⟩
    intro t' ht'
    simp only [List.mem_cons, List.not_mem_nil, or_false] at ht'
    refine Or.inr (Or.inr ⟨_, hb, ?_⟩)
    rcases ht' with rfl | rfl
    · exact ⟨by show p'.1 ≤ t'.lexpos; omega, by show t'.endlexpos ≤ p'.2; omega⟩
    · exact ⟨by show p'.1 ≤ t'.lexpos; omega, by show t'.endlexpos ≤ p'.2; omega⟩
  | here3 fd op tgt p' h' _ _ hok =>
    have h1 : fd.endlexpos ≤ op.lexpos ∧ fd.endlexpos ≤ tgt.lexpos ∧ op.endlexpos ≤ tgt.lexpos := by
      simp only [List.pairwise_cons, List.mem_cons, List.mem_singleton, forall_eq_or_imp,
        forall_eq, List.not_mem_nil, or_false] at hp
      exact ⟨hp.1.1, hp.1.2, hp.2.1⟩
    have hf := hle fd (by simp)
    have ho := hle op (by simp)
    have ht := hle tgt (by simp)
    obtain ⟨b, hb⟩ := head_redirLeaves p' h'
    have hpp : p'.1 = fd.lexpos ∧ tgt.endlexpos ≤ p'.2 := by
      rcases hok.2 with h | ⟨_, h2, h3, _⟩
      · rw [h]; exact ⟨rfl, Nat.le_refl _⟩
      · exact ⟨h2, h3⟩
    intro t' ht'
    simp only [List.mem_cons, List.not_mem_nil, or_false] at ht'
    refine Or.inr (Or.inr ⟨_, hb, ?_⟩)
    rcases ht' with rfl | rfl | rfl
    · exact ⟨by show p'.1 ≤ t'.lexpos; omega, by show t'.endlexpos ≤ p'.2; omega⟩
    · exact ⟨by show p'.1 ≤ t'.lexpos; omega, by show t'.endlexpos ≤ p'.2; omega⟩
    · exact ⟨by show p'.1 ≤ t'.lexpos; omega, by show t'.endlexpos ≤ p'.2; omega⟩
  | d19 _ _ hall =>
    intro t' ht'
    exact Or.inr (Or.inl (hall t' ht'))

/-- **no token is lost, spatially**: every consumed token is a dropped NEWLINE, a `time` token
    (D19), or lies inside a leaf of the returned tree -/
theorem token_in_leaf {len : Nat} {ts : List Token} {ls : List (Span × Bool)}
    (h : FCovers len ts ls) (hs : TokSorted ts) :
    ∀ t ∈ ts, Droppable t ∨ IsTimeTok t ∨ InLeaf t ls := by
  induction h with
  | nil => intro t ht; cases ht
  | @cons ts1 ls1 ts2 ls2 hg _ ih =>
    obtain ⟨hs1, hs2⟩ := hs.append
    intro t ht
    rcases List.mem_append.mp ht with ht | ht
    · rcases group_in_leaf hg hs1 t ht with h | h | h
      · exact Or.inl h
      · exact Or.inr (Or.inl h)
      · exact Or.inr (Or.inr (h.mono (fun x hx => List.mem_append_left _ hx)))
    · rcases ih hs2 t ht with h | h | h
      · exact Or.inl h
      · exact Or.inr (Or.inl h)
      · exact Or.inr (Or.inr (h.mono (fun x hx => List.mem_append_right _ hx)))

/-- … and conversely every leaf that is not a here-document body standing alone, nor D19's
    invented leaf, starts where a consumed token starts -/
theorem leaf_starts_at_token {len : Nat} {ts : List Token} {ls : List (Span × Bool)}
    (h : FCovers len ts ls) :
    ∀ x ∈ ls, (∃ t ∈ ts, x.1.1 = t.lexpos) ∨ x.2 = true ∨ x.1 = (0, 0) := by
  induction h with
  | nil => intro x hx; cases hx
  | @cons ts1 ls1 ts2 ls2 hg _ ih =>
    intro x hx
    rcases List.mem_append.mp hx with hx | hx
    · have key : (∃ t ∈ ts1, x.1.1 = t.lexpos) ∨ x.2 = true ∨ x.1 = (0, 0) := by
        cases hg with
        | leaf t =>
          simp only [List.mem_singleton] at hx; subst hx
          exact Or.inl ⟨t, by simp, rfl⟩
        | drop t _ => cases hx
        | redir2 op tgt _ =>
          simp only [List.mem_singleton] at hx; subst hx
          exact Or.inl ⟨op, by simp, rfl⟩
        | redir3 fd op tgt _ _ =>
          simp only [List.mem_singleton] at hx; subst hx
          exact Or.inl ⟨fd, by simp, rfl⟩
        | here2 op tgt p' h' _ hok =>
          have hp1 : p'.1 = op.lexpos := by
            rcases hok.2 with h | ⟨_, h2, _⟩
            · rw [h]
            · exact h2
          unfold redirLeaves at hx
          cases h' with
          | none =>
            simp only [List.mem_singleton] at hx; subst hx
            exact Or.inl ⟨op, by simp, hp1⟩
          | some b =>
            simp only [] at hx
            split at hx
            · simp only [List.mem_singleton] at hx; subst hx; exact Or.inr (Or.inl rfl)
            · simp only [List.mem_cons, List.not_mem_nil, or_false] at hx
              rcases hx with rfl | rfl
              · exact Or.inl ⟨op, by simp, hp1⟩
              · exact Or.inr (Or.inl rfl)
        | here3 fd op tgt p' h' _ _ hok =>
          have hp1 : p'.1 = fd.lexpos := by
            rcases hok.2 with h | ⟨_, h2, _⟩
            · rw [h]
            · exact h2
          unfold redirLeaves at hx
          cases h' with
          | none =>
            simp only [List.mem_singleton] at hx; subst hx
            exact Or.inl ⟨fd, by simp, hp1⟩
          | some b =>
            simp only [] at hx
            split at hx
            · simp only [List.mem_singleton] at hx; subst hx; exact Or.inr (Or.inl rfl)
            · simp only [List.mem_cons, List.not_mem_nil, or_false] at hx
              rcases hx with rfl | rfl
              · exact Or.inl ⟨fd, by simp, hp1⟩
              · exact Or.inr (Or.inl rfl)
        | d19 _ _ _ =>
          simp only [List.mem_singleton] at hx; subst hx
          exact Or.inr (Or.inr rfl)
      rcases key with ⟨t, ht, h1⟩ | h1
      · exact Or.inl ⟨t, List.mem_append_left _ ht, h1⟩
      · exact Or.inr h1
    · rcases ih x hx with ⟨t, ht, h1⟩ | h1
      · exact Or.inl ⟨t, List.mem_append_right _ ht, h1⟩
      · exact Or.inr h1

/-! ## the consumed tokens have ordered spans: derived from the hypothesis on the token source -/

def notEOF (t : Token) : Bool := t.ttype != some .EOF

/-- the log, minus end-of-input tokens, has ordered spans, all ending at or before the frontier -/
def LogSorted (ts : List Token) (f : Nat) : Prop :=
  TokSorted (ts.filter notEOF) ∧ ∀ t ∈ ts, notEOF t = true → t.endlexpos ≤ f

/-- the ghost invariant `TL`, strengthened by the order of the log -/
def TLs (TL : List Token → Nat → Nat → Local → Env → Prop) :
    List Token → Nat → Nat → Local → Env → Prop :=
  fun ts len f l e => TL ts len f l e ∧ LogSorted ts f

theorem logSorted_mono {ts : List Token} {f f' : Nat} (h : LogSorted ts f) (hf : f ≤ f') :
    LogSorted ts f' :=
  ⟨h.1, fun t ht hn => Nat.le_trans (h.2 t ht hn) hf⟩

theorem logSorted_snoc {ts : List Token} {t : Token} {len f a b : Nat} (h : LogSorted ts f)
    (hfa : f ≤ a) (ht : TokAt len t a b) : LogSorted (ts ++ [t]) b := by
  obtain ⟨hab, hk⟩ := ht
  have hfb : f ≤ b := by omega
  cases hn : notEOF t with
  | false =>
    refine ⟨?_, ?_⟩
    · rw [List.filter_append]
      simp only [List.filter_cons, hn, List.filter_nil, Bool.false_eq_true, if_false,
        List.append_nil]
      exact h.1
    · intro t' ht' hn'
      rcases List.mem_append.mp ht' with ht' | ht'
      · exact Nat.le_trans (h.2 t' ht' hn') hfb
      · simp only [List.mem_singleton] at ht'; subst ht'; rw [hn] at hn'; cases hn'
  | true =>
    have hpos : t.pos = some (a, b) := by
      rcases hk with ⟨h1, _⟩ | ⟨h1, _⟩
      · simp [notEOF, h1] at hn
      · exact h1
    obtain ⟨hl, he⟩ := tok_lexspan hpos
    refine ⟨?_, ?_⟩
    · rw [List.filter_append]
      simp only [List.filter_cons, hn, List.filter_nil, if_true]
      refine ⟨?_, ?_⟩
      · rw [List.pairwise_append]
        refine ⟨h.1.1, List.pairwise_singleton _ _, ?_⟩
        intro x hx y hy
        simp only [List.mem_singleton] at hy
        subst hy
        have hx' := List.mem_filter.mp hx
        have := h.2 x hx'.1 hx'.2
        rw [hl]; omega
      · intro x hx
        rcases List.mem_append.mp hx with hx | hx
        · exact h.1.2 x hx
        · simp only [List.mem_singleton] at hx; subst hx; rw [hl, he]; omega
    · intro t' ht' hn'
      rcases List.mem_append.mp ht' with ht' | ht'
      · exact Nat.le_trans (h.2 t' ht' hn') hfb
      · simp only [List.mem_singleton] at ht'; subst ht'; rw [he]; exact Nat.le_refl _

/-- a pure fact rides along a state-aware triple -/
theorem satS_with {α : Type} {m : M α} {P : Local → Env → Prop} {Q : α → Local → Env → Prop}
    {C : Prop} (h : SatS m P Q) :
    SatS m (fun l e => C ∧ P l e) (fun a l e => C ∧ Q a l e) := by
  refine SatS.assume (fun hc => ?_)
  exact SatS.post h (fun _ _ _ hq => ⟨hc, hq⟩)

/-- **the order of the log is an invariant of every token source satisfying `TokLog`** -/
theorem TokLog.sorted {TL : List Token → Nat → Nat → Local → Env → Prop} (h : TokLog TL) :
    TokLog (TLs TL) := by
  refine ⟨?_, ?_, ?_⟩
  · intro ts len f st
    have := satS_with (C := LogSorted ts f) (h.next ts len f st)
    refine SatS.weaken this ?_ ?_ (fun _ h => h)
    · rintro l e ⟨⟨h1, h2⟩, h3⟩; exact ⟨h2, h1, h3⟩
    · rintro t l e ⟨hs, a, b, h1, h2, h3, h4⟩
      exact ⟨a, b, h1, h2, ⟨h3, logSorted_snoc hs h1 h2⟩, h4⟩
  · intro ts
    refine ⟨?_, ?_, ?_, ?_⟩
    · intro len f st
      have := satS_with (C := LogSorted ts f) ((h.act ts).gather len f st)
      refine SatS.weaken this ?_ ?_ (fun _ h => h)
      · rintro l e ⟨⟨h1, h2⟩, h3⟩; exact ⟨h2, h1, h3⟩
      · rintro _ l e ⟨hs, h1, h2⟩; exact ⟨⟨h1, hs⟩, h2⟩
    · rintro len f l e cell kill ⟨h1, h2⟩ h3 h4 h5
      exact ⟨(h.act ts).queue len f l e cell kill h1 h3 h4 h5, h2⟩
    · rintro len f l e ps ⟨h1, h2⟩
      exact ⟨(h.act ts).ps len f l e ps h1, h2⟩
    · intro d len f st s b
      have := satS_with (C := LogSorted ts f) ((h.act ts).nested d len f st s b)
      refine SatS.weaken this ?_ ?_ (fun _ h => h)
      · rintro l e ⟨⟨h1, h2⟩, h3⟩; exact ⟨h2, h1, h3⟩
      · rintro _ l e ⟨hs, h1, h2⟩; exact ⟨⟨h1, hs⟩, h2⟩
  · intro s l e hi
    exact ⟨h.init s l e hi, ⟨⟨List.Pairwise.nil, fun t ht => by cases ht⟩, fun t ht => by cases ht⟩⟩

theorem filter_noEOF {ts : List Token} (h : NoEOF ts) : ts.filter notEOF = ts := by
  rw [List.filter_eq_self]
  intro t ht
  simp only [notEOF, bne_iff_ne, ne_eq]
  exact h t ht

/-- the consumed tokens of a parser run have ordered spans, and none is lost spatially -/
theorem runOK_sorted {TL : List Token → Nat → Nat → Local → Env → Prop} {s : Str} {n : Node}
    (h : RunOK (TLs TL) s n) :
    ∃ ts la F l e, TL (ts ++ la) s.length F l e ∧ la.length ≤ 1 ∧ NoEOF ts ∧ TokSorted ts ∧
      FCovers s.length ts (Spec.leaves n) ∧
      ∀ t ∈ ts, Droppable t ∨ IsTimeTok t ∨ InLeaf t (Spec.leaves n) := by
  obtain ⟨_, ts, la, F, l, e, ⟨htl, hsort⟩, hla, hno, hc⟩ := h
  have hs : TokSorted ts := by
    have := hsort.1
    rw [List.filter_append, filter_noEOF hno] at this
    exact this.append.1
  exact ⟨ts, la, F, l, e, htl, hla, hno, hs, hc, token_in_leaf hc hs⟩

/-- **C05, token level, spatially** (`parse`): under the hypothesis on the token source, every
    returned part is a parser run's tree `n` moved by `k`, and every token that run consumed --
    the tokens delivered to it but at most one look-ahead token -- is a dropped NEWLINE, a
    `time` token (D19), or lies inside a leaf of `n`; every leaf of `n` other than a
    here-document body and D19's leaf at (0, 0) starts where a consumed token starts -/
theorem C05_tokens_in_leaves (s : Str) (o : Opts) (parts : List Node)
    {TL : List Token → Nat → Nat → Local → Env → Prop} :
    TokLogAll TL → (parse s o).1 = .parts parts → ∀ part ∈ parts,
      ∃ k n, k ≤ s.length ∧ part = n.shift k ∧
        ∃ ts la F l e, TL (ts ++ la) (s.drop k).length F l e ∧ la.length ≤ 1 ∧ TokSorted ts ∧
          (∀ t ∈ ts, Droppable t ∨ IsTimeTok t ∨ InLeaf t (Spec.leaves n)) ∧
          (∀ x ∈ Spec.leaves n, (∃ t ∈ ts, x.1.1 = t.lexpos) ∨ x.2 = true ∨ x.1 = (0, 0)) := by
  rintro ⟨hL, hR⟩ h part hp
  obtain ⟨k, n, _, hk, rfl, hrun⟩ := (C05_partial s o parts ⟨hL.sorted, hR⟩ h).mem part hp
  obtain ⟨ts, la, F, l, e, htl, hla, _, hs, hc, hin⟩ := runOK_sorted hrun
  exact ⟨k, n, hk, rfl, ts, la, F, l, e, htl, hla, hs, hin, leaf_starts_at_token hc⟩

/-! ## the hypothesis the character-level half needs (stated, not proved, not used) -/

/-- the text the tokenizer of this parser object reads (`_shell_input_line`) -/
def lineOf (l : Local) (e : Env) : Str :=
  match l.tape with
  | some t => t.line
  | none => e.tape.line

/-- the bodies gathered so far -/
def bodiesOf (l : Local) : List Span := l.store.filterMap fun c => c.heredoc.map (·.1)

/-- is the text `src[a:b]` layout, possibly with here-document bodies (and the lines of their
    delimiters) cut out: `cuts` are the spans cut out, in order -/
def LayoutBut (src : Str) (a b : Nat) (bodies : List Span) : Prop :=
  ∃ cuts : List Span, (∀ c ∈ cuts, ∃ y ∈ bodies, y.1 ≤ c.2 ∧ c.1 ≤ y.2) ∧
    Spec.isLayout (src.length + 1)
      ((Spec.maskSpans (Str.slice src a b) a cuts).map fun c => if c == 'x' then ' ' else c) = true

/-- **`TokGaps`**: between two tokens it delivers, and before the first, the tokenizer skips
    only layout (blanks, newlines, comments, line continuations) and here-document bodies it
    gathered; a NEWLINE token is a newline character (possibly extended over gathered bodies).
    A property of the ghost invariant `TL` of `TokLog` -- a statement about tokenizer.py only.
    (This form is STATED only.  A corrected form -- per position of the tokenizer's line, for
    consecutive tokens other than EOF -- is PROVED for the real tokenizer: `TokGapsC`, `tokGapsC`,
    and the tokenizer theorem `tokGaps_next` behind it, in `Props/C05/TokGapsProof.lean`; the
    character-level half of C05 built on it: `Props/C05Chars.lean`.) -/
structure TokGaps (TL : List Token → Nat → Nat → Local → Env → Prop) : Prop where
  first : ∀ t ts len f l e, TL (t :: ts) len f l e →
    LayoutBut (lineOf l e) 0 t.lexpos (bodiesOf l)
  between : ∀ pre t1 t2 post len f l e, TL (pre ++ t1 :: t2 :: post) len f l e →
    LayoutBut (lineOf l e) t1.endlexpos t2.lexpos (bodiesOf l)
  newline : ∀ pre t post len f l e, TL (pre ++ t :: post) len f l e → t.ttype = some .NEWLINE →
    LayoutBut (lineOf l e) t.lexpos t.endlexpos (bodiesOf l)
  sorted : ∀ ts len f l e, TL ts len f l e → LogSorted ts f

end Bashlex.C05

#print axioms Bashlex.C05.token_in_leaf
#print axioms Bashlex.C05.leaf_starts_at_token
#print axioms Bashlex.C05.TokLog.sorted
#print axioms Bashlex.C05.C05_tokens_in_leaves
