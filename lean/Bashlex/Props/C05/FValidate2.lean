/-
  `Props/C05Cover.lean`: the decidable conditions of `C05_coverOK_plain(_nil)`, BY EVALUATION (not
  part of any proof): on how many inputs do they hold (non-vacuity), does `rootsAtLeaves` ever
  fail on a result with plain leaves (never observed), and is `coverOK = []` there (as proved).
-/
import Bashlex.Props.C05Cover
import Bashlex.Props.C05.FValidate

namespace Bashlex.C05
open Bashlex Bashlex.Spec

/-- inputs, accepted (some part), plain leaves, plain ∧ rootsAtLeaves ∧ SortOK, of these with
    `coverOK = []`, and the first inputs with plain leaves on which `rootsAtLeaves` fails -/
def plainReport (l : List String) (o : Opts := {}) : Nat × Nat × Nat × Nat × Nat × List String :=
  let r := l.filterMap fun s =>
    let ps := partsOf s o
    if ps.isEmpty then none else
    some (s, plainLeaves s.toList ps, rootsAtLeaves ps && sortOKb (leavesL ps), (coverOK s.toList ps).isEmpty)
  let plain := r.filter (fun x => x.2.1)
  let all3 := plain.filter (fun x => x.2.2.1)
  let empt := all3.filter (fun x => x.2.2.2)
  (l.length, r.length, plain.length, all3.length, empt.length,
    ((plain.filter (fun x => !x.2.2.1)).take 5).map (·.1))

#eval plainReport C04.corpus
#eval plainReport TG.gapHand
#eval plainReport TG.gapGrid
#eval plainReport C04.corpus { strict := false, proceed := true }
-- `rootsAtLeaves` also holds with D19 and with here-documents (an extended redirect is the last leaf):
#eval rootsAtLeaves (partsOf "time a" { proceed := true })      -- true
#eval rootsAtLeaves (partsOf "cat <<E\nx\nE\n")                  -- true
/-- accepted inputs on which `rootsAtLeaves` fails -/
def rootsFail (l : List String) (o : Opts := {}) : Nat × List String :=
  let bad := l.filter fun s => let ps := partsOf s o; !ps.isEmpty && !rootsAtLeaves ps
  (bad.length, bad.take 6)
#eval rootsFail C04.corpus
#eval rootsFail TG.gapHand
#eval rootsFail C04.corpus { strict := false, proceed := true }

end Bashlex.C05
