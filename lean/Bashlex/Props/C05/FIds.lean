/-
  C05, residual R1, part 1: CONSERVATION of pending here-document redirects by the semantic
  actions.  `pends ls`: the store ids of the pending redirects among the leaves `ls`.
  One lemma per action function of parser.py (state-agnostic logic, mirrors
  `Props/C05/Actions.lean`; generated from it by renaming, the non-concatenating cases by hand):
  every pending redirect among the leaves of the arguments is among the leaves of the result
  (`IPost`).  The only exception is D19 (`p_pipeline_command` drops the `timespec` node), where
  the dropped node holds `time` tokens only, hence no redirect (`IPostT`).
-/
import Bashlex.Props.C05.Actions

namespace Bashlex.C05
open Bashlex Bashlex.Spec Bashlex.Node Bashlex.M Bashlex.LR Bashlex.C12
set_option linter.unusedSimpArgs false
set_option linter.unusedVariables false

/-- the store ids of the pending here-document redirects among the leaves -/
def pends : List ALeaf → List Nat
  | [] => []
  | .plain _ _ :: r => pends r
  | .pend id _ _ :: r => id :: pends r

@[simp] theorem pends_nil : pends [] = [] := rfl
@[simp] theorem pends_plain (p : Span) (b : Bool) (r : List ALeaf) :
    pends (.plain p b :: r) = pends r := rfl
@[simp] theorem pends_pend (id : Nat) (p : Span) (h : Option Span) (r : List ALeaf) :
    pends (.pend id p h :: r) = id :: pends r := rfl

@[simp] theorem pends_append : ∀ (a b : List ALeaf), pends (a ++ b) = pends a ++ pends b
  | [], b => rfl
  | .plain _ _ :: a, b => by simp [pends_append a b]
  | .pend _ _ _ :: a, b => by simp [pends_append a b]

@[simp] theorem pends_map_plainOf : ∀ (l : List (Span × Bool)), pends (l.map plainOf) = []
  | [] => rfl
  | x :: l => by simp [plainOf, pends_map_plainOf l]

theorem mem_pends {id : Nat} : ∀ {ls : List ALeaf}, id ∈ pends ls ↔ ∃ p h, ALeaf.pend id p h ∈ ls
  | [] => by simp
  | .plain q b :: r => by
    simp only [pends_plain, List.mem_cons, reduceCtorEq, false_or]
    exact mem_pends
  | .pend id' q h' :: r => by
    simp only [pends_pend, List.mem_cons, ALeaf.pend.injEq]
    constructor
    · rintro (rfl | h)
      · exact ⟨q, h', Or.inl ⟨rfl, rfl, rfl⟩⟩
      · obtain ⟨p, h, hm⟩ := mem_pends.mp h
        exact ⟨p, h, Or.inr hm⟩
    · rintro ⟨p, h, (⟨rfl, _, _⟩ | hm)⟩
      · exact Or.inl rfl
      · exact Or.inr (mem_pends.mpr ⟨p, h, hm⟩)

/-- what an action's result is to its arguments: every pending redirect among the leaves of the
    arguments is among the leaves of the result -/
def IPost (args : List SVal) (r : SVal × Bool) : Prop :=
  notTok r.1 ∧ ∀ id ∈ pends (args.flatMap valLeaves), id ∈ pends (valLeaves r.1)

theorem ipost_cat {args : List SVal} {v : SVal} {b : Bool} (hv : notTok v)
    (h : valLeaves v = args.flatMap valLeaves) : IPost args (v, b) :=
  ⟨hv, fun id hid => by rw [h]; exact hid⟩

theorem pends_dropV : ∀ {args : List SVal}, (∀ v ∈ args, DropV v) →
    pends (args.flatMap valLeaves) = []
  | [], _ => rfl
  | a :: as, h => by
    have ih := pends_dropV (fun v hv => h v (List.mem_cons_of_mem _ hv))
    rcases h a List.mem_cons_self with rfl | ⟨t, rfl, _⟩
    · simpa [valLeaves] using ih
    · simpa [valLeaves] using ih

theorem ipost_drop {args : List SVal} {b : Bool} (hd : ∀ v ∈ args, DropV v) :
    IPost args (.none, b) :=
  ⟨notTok_none, fun id hid => by rw [pends_dropV hd] at hid; cases hid⟩

theorem ipost_redir2 {op tgt : Token} {n : Node} {b : Bool} (hop : RedirTok op)
    (hn : aleaves n = [.plain (op.lexpos, tgt.endlexpos) false]) :
    IPost [.tok op, .tok tgt] (.node n, b) :=
  ⟨notTok_node, fun id hid => by simp [valLeaves] at hid⟩

theorem ipost_redir3 {fd op tgt : Token} {n : Node} {b : Bool} (hfd : FdTok fd) (hop : RedirTok op)
    (hn : aleaves n = [.plain (fd.lexpos, tgt.endlexpos) false]) :
    IPost [.tok fd, .tok op, .tok tgt] (.node n, b) :=
  ⟨notTok_node, fun id hid => by simp [valLeaves] at hid⟩

theorem ipost_here2 {op tgt : Token} {n : Node} {b : Bool} {id : Nat} (hop : HereTok op)
    (hn : aleaves n = [.pend id (op.lexpos, tgt.endlexpos) none]) :
    IPost [.tok op, .tok tgt] (.node n, b) :=
  ⟨notTok_node, fun id hid => by simp [valLeaves] at hid⟩

theorem ipost_here3 {fd op tgt : Token} {n : Node} {b : Bool} {id : Nat} (hfd : FdTok fd)
    (hop : HereTok op) (hn : aleaves n = [.pend id (fd.lexpos, tgt.endlexpos) none]) :
    IPost [.tok fd, .tok op, .tok tgt] (.node n, b) :=
  ⟨notTok_node, fun id hid => by simp [valLeaves] at hid⟩

/-- `p_pipeline_command`: conservation, provided a `timespec` node in first position holds no
    pending redirect (it is dropped: D19) -/
def IPostT (args : List SVal) (r : SVal × Bool) : Prop :=
  notTok r.1 ∧ ((∀ n y, args = [.node n, y] → pends (aleaves n) = []) →
    ∀ id ∈ pends (args.flatMap valLeaves), id ∈ pends (valLeaves r.1))

theorem IPost.toT {args : List SVal} {r : SVal × Bool} (h : IPost args r) : IPostT args r :=
  ⟨h.1, fun _ => h.2⟩

theorem ipostT_bang {x y : SVal} {v : SVal} {b : Bool} (hv : notTok v)
    (hx : (∃ t, x = .tok t) ∨ (∃ n, x = .node n))
    (hl : valLeaves v = .plain x.lexspan false :: valLeaves y) : IPostT [x, y] (v, b) := by
  refine ⟨hv, fun ht id hid => ?_⟩
  simp only [hl, pends_plain]
  rcases hx with ⟨t, rfl⟩ | ⟨n, rfl⟩
  · simpa [valLeaves] using hid
  · have := ht n y rfl
    simpa [valLeaves, this] using hid

/-! ## the actions (mirrors `Props/C05/Actions.lean`) -/

theorem iv_word_list {np : NestedParse} {sorts : List Srt} {args : List SVal} {σ : Srt}
    (hW : WordPos np) (h : absAction "p_word_list" sorts = some σ)
    (ha : Forall2 HasSort sorts args) :
    Sat (actionCore np "p_word_list" args) (IPost args) := by
  unfold absAction at h; simp only [] at h
  split at h
  · cases h
    obtain ⟨a, rfl, ⟨t, rfl, -, -⟩⟩ := forall2_1 ha
    unfold actionCore; simp only []
    simp [PCtx.len, PCtx.tokAt, PCtx.slice]
    refine Sat.map ((hW t).weaken (fun w hw => ?_) (fun _ h => h))
    exact ipost_cat notTok_nodes (by simp [valLeaves, aleaves_word hw])
  · cases h
    obtain ⟨a, b, rfl, ⟨l, rfl, hl⟩, ⟨t, rfl, -, -⟩⟩ := forall2_2 ha
    unfold actionCore; simp only []
    simp [PCtx.len, PCtx.tokAt, PCtx.slice, PCtx.nodesAt]
    refine Sat.map ((hW t).weaken (fun w hw => ?_) (fun _ h => h))
    exact ipost_cat notTok_nodes (by simp [valLeaves, aleavesL_append, aleaves_word hw])
  · cases h

theorem iv_redirection_list {np : NestedParse} {sorts : List Srt} {args : List SVal} {σ : Srt}
    (h : absAction "p_redirection_list" sorts = some σ)
    (ha : Forall2 HasSort sorts args) :
    Sat (actionCore np "p_redirection_list" args) (IPost args) := by
  unfold absAction at h; simp only [] at h
  split at h
  · cases h
    obtain ⟨a, rfl, ⟨n, rfl, -⟩⟩ := forall2_1 ha
    unfold actionCore; simp only []
    simp [PCtx.len, PCtx.nodeAt, PCtx.slice]
    exact Sat.pure (ipost_cat notTok_nodes (by simp [valLeaves]))
  · cases h
    obtain ⟨a, b, rfl, ⟨l, rfl, -⟩, ⟨n, rfl, -⟩⟩ := forall2_2 ha
    unfold actionCore; simp only []
    simp [PCtx.len, PCtx.nodeAt, PCtx.slice, PCtx.nodesAt]
    exact Sat.pure (ipost_cat notTok_nodes (by simp [valLeaves, aleavesL_append]))
  · cases h

theorem iv_simple_command {np : NestedParse} {sorts : List Srt} {args : List SVal} {σ : Srt}
    (h : absAction "p_simple_command" sorts = some σ)
    (ha : Forall2 HasSort sorts args) :
    Sat (actionCore np "p_simple_command" args) (IPost args) := by
  unfold absAction at h; simp only [] at h
  split at h
  · cases h
    obtain ⟨a, rfl, ⟨l, rfl, -⟩⟩ := forall2_1 ha
    unfold actionCore; simp only []
    simp [PCtx.len, PCtx.slice]
    exact Sat.pure (ipost_cat notTok_nodes (by simp [valLeaves]))
  · cases h
    obtain ⟨a, b, rfl, ⟨l, rfl, -⟩, ⟨r, rfl, -⟩⟩ := forall2_2 ha
    unfold actionCore; simp only []
    simp [PCtx.len, PCtx.slice, PCtx.nodesAt]
    exact Sat.pure (ipost_cat notTok_nodes (by simp [valLeaves, aleavesL_append]))
  · cases h

theorem iv_simple_command_element {np : NestedParse} {sorts : List Srt} {args : List SVal} {σ : Srt}
    (hW : WordPos np) (h : absAction "p_simple_command_element" sorts = some σ)
    (ha : Forall2 HasSort sorts args) :
    Sat (actionCore np "p_simple_command_element" args) (IPost args) := by
  unfold absAction at h; simp only [] at h
  split at h
  · cases h
    obtain ⟨a, rfl, ⟨n, rfl, -⟩⟩ := forall2_1 ha
    unfold actionCore; simp only []
    simp [PCtx.slice]
    exact Sat.pure (ipost_cat notTok_nodes (by simp [valLeaves]))
  · cases h
    obtain ⟨a, rfl, ⟨t, rfl, -, -⟩⟩ := forall2_1 ha
    unfold actionCore; simp only []
    simp [PCtx.slice, PCtx.tokAt]
    refine Sat.bind (hW t) (fun w hw => ?_)
    obtain ⟨s, ps, rfl⟩ := hw
    split
    · split
      · rename_i pos s' parts heq
        cases heq
        exact Sat.pure (ipost_cat notTok_nodes (by simp [valLeaves, aleaves]))
      · exact Sat.pure (ipost_cat notTok_nodes (by simp [valLeaves, aleaves]))
    · exact Sat.pure (ipost_cat notTok_nodes (by simp [valLeaves, aleaves]))
  · cases h

theorem iv_command {np : NestedParse} {sorts : List Srt} {args : List SVal} {σ : Srt}
    (h : absAction "p_command" sorts = some σ)
    (ha : Forall2 HasSort sorts args) :
    Sat (actionCore np "p_command" args) (IPost args) := by
  unfold absAction at h; simp only [] at h
  split at h
  · split at h
    · cases h
      obtain ⟨a, rfl, ⟨n, rfl, -⟩⟩ := forall2_1 ha
      unfold actionCore; simp only []
      simp [PCtx.len, PCtx.slice]
      exact Sat.pure (ipost_cat notTok_node (by simp [valLeaves]))
    · cases h
  · cases h
    obtain ⟨a, b, rfl, ⟨n, rfl, -⟩, ⟨r, rfl, -⟩⟩ := forall2_2 ha
    unfold actionCore; simp only []
    simp [PCtx.len, PCtx.slice, PCtx.nodesAt]
    refine Sat.map ((sat_addRedirects_leaves n r).weaken (fun n' hn' => ?_) (fun _ h => h))
    exact ipost_cat notTok_node (by simp [valLeaves, hn'])
  · cases h
    obtain ⟨a, rfl, ⟨l, rfl, -⟩⟩ := forall2_1 ha
    unfold actionCore; simp only []
    simp [PCtx.len, PCtx.slice, PCtx.nodesAt]
    refine Sat.map (sat_any (fun sp => ?_))
    exact ipost_cat notTok_node (by simp [valLeaves, aleaves])
  · cases h

theorem iv_function_body {np : NestedParse} {sorts : List Srt} {args : List SVal} {σ : Srt}
    (h : absAction "p_function_body" sorts = some σ)
    (ha : Forall2 HasSort sorts args) :
    Sat (actionCore np "p_function_body" args) (IPost args) := by
  unfold absAction at h; simp only [] at h
  split at h
  · cases h
    obtain ⟨a, rfl, ⟨n, rfl, -⟩⟩ := forall2_1 ha
    unfold actionCore; simp only []
    simp [PCtx.len, PCtx.slice, PCtx.nodeAt]
    refine Sat.map (sat_any (fun _ => ?_))
    exact ipost_cat notTok_node (by simp [valLeaves])
  · cases h
    obtain ⟨a, b, rfl, ⟨n, rfl, -⟩, ⟨r, rfl, -⟩⟩ := forall2_2 ha
    unfold actionCore; simp only []
    simp [PCtx.len, PCtx.slice, PCtx.nodesAt, PCtx.nodeAt]
    refine Sat.bind_any (fun _ => ?_)
    refine Sat.map ((sat_addRedirects_leaves n r).weaken (fun n' hn' => ?_) (fun _ h => h))
    exact ipost_cat notTok_node (by simp [valLeaves, hn'])
  · cases h

theorem iv_if_command {np : NestedParse} {args : List SVal} (hW : WordPos np) :
    Sat (actionCore np "p_if_command" args) (IPost args) := by
  unfold actionCore; simp only []
  refine Sat.bind (sat_makeparts_leaves hW args) (fun parts hparts => ?_)
  refine Sat.bind (sat_mkCompound1_leaves (inner := .ifN) (fun _ => by simp [aleaves]))
    (fun v hv => Sat.pure (ipost_cat hv.1 (by rw [hv.2, hparts])))

theorem iv_case_command {np : NestedParse} {args : List SVal} (hW : WordPos np) :
    Sat (actionCore np "p_case_command" args) (IPost args) := by
  unfold actionCore; simp only []
  refine Sat.bind (sat_makeparts_leaves hW args) (fun parts hparts => ?_)
  refine Sat.bind (sat_mkCompound1_leaves (inner := .caseN) (fun _ => by simp [aleaves]))
    (fun v hv => Sat.pure (ipost_cat hv.1 (by rw [hv.2, hparts])))

theorem iv_for_command {np : NestedParse} {args : List SVal} (hW : WordPos np) :
    Sat (actionCore np "p_for_command" args) (IPost args) := by
  unfold actionCore; simp only []
  refine Sat.bind (sat_makeparts_leaves hW args) (fun parts hparts => ?_)
  refine Sat.bind (sat_mkCompound1_leaves (inner := .forN) (fun _ => by simp [aleaves]))
    (fun v hv => Sat.pure (ipost_cat hv.1 (by rw [hv.2, fix_leaves, hparts])))

theorem iv_function_def {np : NestedParse} {args : List SVal} (hW : WordPos np) :
    Sat (actionCore np "p_function_def" args) (IPost args) := by
  unfold actionCore; simp only []
  refine Sat.bind (sat_makeparts_leaves hW args) (fun parts hparts => ?_)
  split
  · exact Sat.foreign trivial
  · refine Sat.bind_any (fun sp => Sat.pure ?_)
    exact ipost_cat notTok_node (by simp [valLeaves, aleaves, hparts])

theorem sat_notImplemented_ids {np : NestedParse} {args : List SVal} {ty : String}
    (hW : WordPos np) :
    Sat (handleNotImplemented ⟨np, args⟩ ty) (fun v => IPost args (v, false)) := by
  unfold handleNotImplemented
  refine Sat.bind_any (fun b => ?_)
  split
  · refine Sat.bind (sat_makeparts_leaves hW args) (fun parts hparts => ?_)
    refine Sat.bind_any (fun sp => Sat.pure ?_)
    exact ipost_cat notTok_node (by simp [valLeaves, aleaves, hparts])
  · exact Sat.raise trivial

theorem iv_arith_for_command {np : NestedParse} {args : List SVal} (hW : WordPos np) :
    Sat (actionCore np "p_arith_for_command" args) (IPost args) := by
  unfold actionCore; simp only []
  exact Sat.bind (sat_notImplemented_ids hW) (fun v hv => Sat.pure hv)

theorem iv_select_command {np : NestedParse} {args : List SVal} (hW : WordPos np) :
    Sat (actionCore np "p_select_command" args) (IPost args) := by
  unfold actionCore; simp only []
  exact Sat.bind (sat_notImplemented_ids hW) (fun v hv => Sat.pure hv)

theorem iv_coproc {np : NestedParse} {args : List SVal} (hW : WordPos np) :
    Sat (actionCore np "p_coproc" args) (IPost args) := by
  unfold actionCore; simp only []
  exact Sat.bind (sat_notImplemented_ids hW) (fun v hv => Sat.pure hv)

theorem iv_arith_command {np : NestedParse} {args : List SVal} (hW : WordPos np) :
    Sat (actionCore np "p_arith_command" args) (IPost args) := by
  unfold actionCore; simp only []
  exact Sat.bind (sat_notImplemented_ids hW) (fun v hv => Sat.pure hv)

theorem iv_cond_command {np : NestedParse} {args : List SVal} (hW : WordPos np) :
    Sat (actionCore np "p_cond_command" args) (IPost args) := by
  unfold actionCore; simp only []
  exact Sat.bind (sat_notImplemented_ids hW) (fun v hv => Sat.pure hv)

theorem iv_timespec {np : NestedParse} {args : List SVal} (hW : WordPos np) :
    Sat (actionCore np "p_timespec" args) (IPost args) := by
  unfold actionCore; simp only []
  exact Sat.bind (sat_notImplemented_ids hW) (fun v hv => Sat.pure hv)

theorem iv_shell_command {np : NestedParse} {sorts : List Srt} {args : List SVal} {σ : Srt}
    (hW : WordPos np) (h : absAction "p_shell_command" sorts = some σ)
    (ha : Forall2 HasSort sorts args) :
    Sat (actionCore np "p_shell_command" args) (IPost args) := by
  unfold absAction at h; simp only [] at h
  split at h
  · cases h
    obtain ⟨a, rfl, ⟨n, rfl, -⟩⟩ := forall2_1 ha
    unfold actionCore; simp only []
    simp [PCtx.len, PCtx.slice, PCtx.nodeAt]
    exact Sat.map (sat_any (fun _ => ipost_cat notTok_node (by simp [valLeaves])))
  · split at h
    · rename_i hc
      cases h
      simp only [Bool.and_eq_true, bne_iff_ne, ne_eq] at hc
      have hlen : args.length ≠ 1 := by rw [← forall2_length ha]; exact hc.1
      unfold actionCore; simp only []
      have : ((PCtx.len ⟨np, args⟩ == 2) = false) := by simp [PCtx.len, hlen]
      simp only [this]
      refine Sat.bind (sat_makeparts_leaves hW args) (fun parts hparts => ?_)
      split
      · refine Sat.bind_any (fun sp => ?_)
        split
        · exact Sat.pure (ipost_cat notTok_node (by simp [valLeaves, aleaves, hparts]))
        · split
          · exact Sat.pure (ipost_cat notTok_node (by simp [valLeaves, aleaves, hparts]))
          · exact Sat.foreign trivial
      · exact Sat.foreign trivial
    · cases h

theorem iv_group {np : NestedParse} {sorts : List Srt} {args : List SVal} {σ : Srt}
    (h : absGroup sorts = some σ) (ha : Forall2 HasSort sorts args) :
    Sat (do
      let p : PCtx := { np := np, args := args }
      let l ← reservedAt p 1
      let r ← reservedAt p 3
      let mid ← p.nodeAt 2 "_partsspan"
      let parts := [l, mid, r]
      pure (SVal.node (.compound (← partsspan parts) parts []), false)) (IPost args) := by
  unfold absGroup at h
  split at h
  · split at h
    · rename_i l c r hc
      cases h
      simp only [Bool.and_eq_true] at hc
      obtain ⟨a, b, d, rfl, hl', ⟨n, rfl, -⟩, hr'⟩ := forall2_3 ha
      obtain ⟨tl, tyl, rfl, -, -, -⟩ := okTok_inv hc.1.1 hl'
      obtain ⟨tr, tyr, rfl, -, -, -⟩ := okTok_inv hc.2 hr'
      simp [reservedAt, PCtx.strAt, PCtx.tokAt, PCtx.slice, PCtx.nodeAt, PCtx.lexspan, SVal.lexspan]
      refine Sat.map (sat_any (fun sp => ?_))
      exact ipost_cat notTok_node (by simp [valLeaves, aleaves, tokSpan])
    · cases h
  · cases h

theorem iv_subshell {np : NestedParse} {sorts : List Srt} {args : List SVal} {σ : Srt}
    (h : absAction "p_subshell" sorts = some σ) (ha : Forall2 HasSort sorts args) :
    Sat (actionCore np "p_subshell" args) (IPost args) := by
  unfold absAction at h; simp only [] at h
  unfold actionCore; simp only []
  exact iv_group h ha

theorem iv_group_command {np : NestedParse} {sorts : List Srt} {args : List SVal} {σ : Srt}
    (h : absAction "p_group_command" sorts = some σ) (ha : Forall2 HasSort sorts args) :
    Sat (actionCore np "p_group_command" args) (IPost args) := by
  unfold absAction at h; simp only [] at h
  unfold actionCore; simp only []
  exact iv_group h ha

theorem iv_elif_clause {np : NestedParse} {args : List SVal} (hnn : ∀ v ∈ args, v ≠ SVal.none) :
    Sat (actionCore np "p_elif_clause" args) (IPost args) := by
  unfold actionCore; simp only []
  refine Sat.bind (P := fun parts => aleavesL parts = args.flatMap valLeaves) ?_
    (fun parts hparts => Sat.pure (ipost_cat notTok_nodes (by simp [valLeaves, hparts])))
  refine Sat.forIn_list
    (I := fun rest acc => aleavesL acc ++ rest.flatMap valLeaves = args.flatMap valLeaves ∧
      ∀ v ∈ rest, v ≠ SVal.none) ?_ ?_ args [] ⟨by simp, hnn⟩
  · rintro a rest b ⟨hI, hn⟩
    have hn' : ∀ v ∈ rest, v ≠ SVal.none := fun v hv => hn v (List.mem_cons_of_mem _ hv)
    split
    · refine Sat.pure ⟨?_, hn'⟩
      simpa [aleavesL_append, valLeaves, List.append_assoc] using hI
    · refine Sat.pure ⟨?_, hn'⟩
      simpa [aleavesL_append, valLeaves, List.append_assoc] using hI
    · refine Sat.pure ⟨?_, hn'⟩
      simp only [aleavesL_append, aleavesL_single]
      simpa [valLeaves, aleaves, tokSpan, List.append_assoc] using hI
    · exact absurd rfl (hn _ List.mem_cons_self)
  · rintro b ⟨hb, _⟩
    simpa using hb

theorem iv_case_clause {np : NestedParse} {sorts : List Srt} {args : List SVal} {σ : Srt}
    (h : absAction "p_case_clause" sorts = some σ) (ha : Forall2 HasSort sorts args) :
    Sat (actionCore np "p_case_clause" args) (IPost args) := by
  unfold absAction at h; simp only [] at h
  split at h
  · cases h
    obtain ⟨a, rfl, ⟨n, rfl, -⟩⟩ := forall2_1 ha
    unfold actionCore; simp only []
    simp [PCtx.len, PCtx.nodeAt, PCtx.slice]
    exact Sat.pure (ipost_cat notTok_nodes (by simp [valLeaves]))
  · cases h
    obtain ⟨a, b, rfl, ⟨l, rfl, -⟩, ⟨n, rfl, -⟩⟩ := forall2_2 ha
    unfold actionCore; simp only []
    simp [PCtx.len, PCtx.nodeAt, PCtx.slice, PCtx.nodesAt]
    exact Sat.pure (ipost_cat notTok_nodes (by simp [valLeaves, aleavesL_append]))
  · cases h

theorem iv_case_clause_sequence {np : NestedParse} {sorts : List Srt} {args : List SVal} {σ : Srt}
    (h : absAction "p_case_clause_sequence" sorts = some σ) (ha : Forall2 HasSort sorts args) :
    Sat (actionCore np "p_case_clause_sequence" args) (IPost args) := by
  unfold absAction at h; simp only [] at h
  split at h
  · split at h
    · rename_i hs
      cases h
      obtain ⟨a, b, rfl, ⟨n, rfl, -⟩, hs'⟩ := forall2_2 ha
      obtain ⟨t, ty, rfl, -, -, -⟩ := okTok_inv hs hs'
      unfold actionCore; simp only []
      simp [PCtx.len, PCtx.nodeAt, PCtx.slice, reservedAt, PCtx.strAt, PCtx.tokAt, PCtx.lexspan,
        SVal.lexspan]
      exact Sat.pure (ipost_cat notTok_nodes (by simp [valLeaves, aleaves, tokSpan]))
    · cases h
  · split at h
    · rename_i hs
      cases h
      obtain ⟨a, b, c, rfl, ⟨l, rfl, -⟩, ⟨n, rfl, -⟩, hs'⟩ := forall2_3 ha
      obtain ⟨t, ty, rfl, -, -, -⟩ := okTok_inv hs hs'
      unfold actionCore; simp only []
      simp [PCtx.len, PCtx.nodeAt, PCtx.slice, reservedAt, PCtx.strAt, PCtx.tokAt, PCtx.lexspan,
        SVal.lexspan, PCtx.nodesAt]
      exact Sat.pure (ipost_cat notTok_nodes
        (by simp [valLeaves, aleaves, aleavesL_append, tokSpan]))
    · cases h
  · cases h

theorem iv_pattern {np : NestedParse} {sorts : List Srt} {args : List SVal} {σ : Srt}
    (hW : WordPos np) (h : absAction "p_pattern" sorts = some σ)
    (ha : Forall2 HasSort sorts args) :
    Sat (actionCore np "p_pattern" args) (IPost args) := by
  unfold absAction at h; simp only [] at h
  split at h
  · cases h
    obtain ⟨a, rfl, ⟨t, rfl, -, -⟩⟩ := forall2_1 ha
    unfold actionCore; simp only []
    simp [PCtx.len, PCtx.tokAt, PCtx.slice]
    refine Sat.map ((hW t).weaken (fun w hw => ?_) (fun _ h => h))
    exact ipost_cat notTok_nodes (by simp [valLeaves, aleaves_word hw])
  · cases h
    obtain ⟨a, b, c, rfl, ⟨l, rfl, -⟩, ⟨tb, rfl, -, -⟩, ⟨t, rfl, -, -⟩⟩ := forall2_3 ha
    unfold actionCore; simp only []
    simp [PCtx.len, PCtx.tokAt, PCtx.slice, PCtx.nodesAt, reservedAt, PCtx.strAt, PCtx.lexspan,
      SVal.lexspan]
    refine Sat.map ((hW t).weaken (fun w hw => ?_) (fun _ h => h))
    exact ipost_cat notTok_nodes
      (by simp [valLeaves, aleaves, aleavesL_append, aleaves_word hw, tokSpan])
  · cases h

theorem iv_list {np : NestedParse} {sorts : List Srt} {args : List SVal} {σ : Srt}
    (h : absAction "p_list" sorts = some σ) (ha : Forall2 HasSort sorts args)
    (h0 : ∀ x xs, args = x :: xs → x = SVal.none) :
    Sat (actionCore np "p_list" args) (IPost args) := by
  unfold absAction at h; simp only [] at h
  split at h
  · cases h
    obtain ⟨a, b, rfl, -, ⟨n, rfl, -⟩⟩ := forall2_2 ha
    have := h0 _ _ rfl
    subst this
    unfold actionCore; simp only []
    simp [PCtx.slice]
    exact Sat.pure (ipost_cat notTok_node (by simp [valLeaves]))
  · cases h

theorem iv_compound_list {np : NestedParse} {sorts : List Srt} {args : List SVal} {σ : Srt}
    (h : absAction "p_compound_list" sorts = some σ) (ha : Forall2 HasSort sorts args)
    (h0 : ∀ x y, args = [x, y] → x = SVal.none) :
    Sat (actionCore np "p_compound_list" args) (IPost args) := by
  unfold absAction at h; simp only [] at h
  split at h
  · cases h
    obtain ⟨a, rfl, ⟨n, rfl, -⟩⟩ := forall2_1 ha
    unfold actionCore; simp only []
    simp [PCtx.len, PCtx.slice]
    exact Sat.pure (ipost_cat notTok_node (by simp [valLeaves]))
  · cases h
    obtain ⟨a, b, rfl, -, ⟨l, rfl, -⟩⟩ := forall2_2 ha
    have := h0 _ _ rfl
    subst this
    unfold actionCore; simp only []
    simp [PCtx.len, PCtx.slice, PCtx.nodesAt]
    split
    · exact Sat.map (sat_any (fun sp => ipost_cat notTok_node (by simp [valLeaves, aleaves])))
    · rename_i hlen
      cases hh : l.head? with
      | none => exact Sat.foreign trivial
      | some n =>
        simp only []
        have hl : l = [n] := single_of_head (by simpa using hlen) hh
        subst hl
        exact Sat.pure (ipost_cat notTok_node (by simp [valLeaves]))
  · cases h

theorem iv_empty {np : NestedParse} {args : List SVal} (h0 : args = []) :
    Sat (actionCore np "p_empty" args) (IPost args) := by
  subst h0
  unfold actionCore; simp only []
  exact Sat.pure (ipost_cat notTok_none (by simp [valLeaves]))

theorem iv_pattern_list {np : NestedParse} {sorts : List Srt} {args : List SVal} {σ : Srt}
    (h : absAction "p_pattern_list" sorts = some σ) (ha : Forall2 HasSort sorts args)
    (h0 : ∀ x xs, args = x :: xs → x = SVal.none) :
    Sat (actionCore np "p_pattern_list" args) (IPost args) := by
  unfold absAction at h; simp only [] at h
  split at h
  · split at h
    · rename_i hc
      cases h
      simp only [Bool.and_eq_true] at hc
      obtain ⟨x, a, b, c, rfl, -, ⟨pat, rfl, -⟩, hr', hb'⟩ := forall2_4 ha
      obtain ⟨tr, tyr, rfl, -, -, -⟩ := okTok_inv hc.1 hr'
      have := h0 _ _ rfl
      subst this
      unfold actionCore; simp only []
      simp [PCtx.len, PCtx.slice, PCtx.nodesAt, reservedAt, PCtx.strAt, PCtx.tokAt, PCtx.lexspan,
        SVal.lexspan]
      refine Sat.bind_any (fun sp => ?_)
      rcases bodyOK_inv hc.2 hb' with rfl | ⟨n, rfl, -⟩
      · simp only []
        exact Sat.map (sat_any (fun sp' => ipost_cat notTok_node
          (by simp [valLeaves, aleaves, tokSpan])))
      · simp only []
        exact Sat.map (sat_any (fun sp' => ipost_cat notTok_node
          (by simp [valLeaves, aleaves, tokSpan])))
    · cases h
  · split at h
    · rename_i hc
      cases h
      simp only [Bool.and_eq_true] at hc
      obtain ⟨x, a0, a, b, c, rfl, -, hl', ⟨pat, rfl, -⟩, hr', hb'⟩ := forall2_5 ha
      obtain ⟨tl, tyl, rfl, -, -, -⟩ := okTok_inv hc.1.1 hl'
      obtain ⟨tr, tyr, rfl, -, -, -⟩ := okTok_inv hc.1.2 hr'
      have := h0 _ _ rfl
      subst this
      unfold actionCore; simp only []
      simp [PCtx.len, PCtx.slice, PCtx.nodesAt, reservedAt, PCtx.strAt, PCtx.tokAt, PCtx.lexspan,
        SVal.lexspan]
      refine Sat.bind_any (fun sp => ?_)
      rcases bodyOK_inv hc.2 hb' with rfl | ⟨n, rfl, -⟩
      · simp only []
        exact Sat.map (sat_any (fun sp' => ipost_cat notTok_node
          (by simp [valLeaves, aleaves, tokSpan])))
      · simp only []
        exact Sat.map (sat_any (fun sp' => ipost_cat notTok_node
          (by simp [valLeaves, aleaves, tokSpan])))
    · cases h
  · cases h

theorem iv_simple_list_terminator {np : NestedParse} {args : List SVal}
    (hd : ∀ v ∈ args, DropV v) :
    Sat (actionCore np "p_simple_list_terminator" args) (IPost args) := by
  unfold actionCore; simp only []
  exact Sat.pure (ipost_drop hd)

theorem iv_newline_list {np : NestedParse} {args : List SVal} (hd : ∀ v ∈ args, DropV v) :
    Sat (actionCore np "p_newline_list" args) (IPost args) := by
  unfold actionCore; simp only []
  exact Sat.pure (ipost_drop hd)

theorem iv_list_terminator {np : NestedParse} {args : List SVal} {t : Token}
    (hargs : args = [.tok t]) (hd : t.value ≠ .str [';'] → Droppable t) :
    Sat (actionCore np "p_list_terminator" args) (IPost args) := by
  subst hargs
  unfold actionCore; simp only []
  simp only [PCtx.slice, Nat.sub_self, List.getD_cons_zero, PCtx.lexspan, SVal.lexspan]
  split
  · exact Sat.pure (ipost_cat notTok_node (by simp [valLeaves, aleaves, tokSpan]))
  · rename_i hv
    refine Sat.pure (ipost_drop ?_)
    intro v hv'
    simp only [List.mem_singleton] at hv'
    subst hv'
    exact Or.inr ⟨t, rfl, hd (by simpa using hv)⟩

theorem iv_list0 {np : NestedParse} {sorts : List Srt} {args : List SVal} {σ : Srt}
    (h : absAction "p_list0" sorts = some σ) (ha : Forall2 HasSort sorts args)
    (h2 : ∀ v ∈ args.drop 2, v = SVal.none) :
    Sat (actionCore np "p_list0" args) (IPost args) := by
  unfold absAction at h; simp only [] at h
  split at h
  · split at h
    · cases h
      obtain ⟨a, as, rfl, ⟨l, rfl, -⟩, ha2⟩ := forall2_cons ha
      obtain ⟨b, bs, rfl, ⟨t, rfl, -, -⟩, -⟩ := forall2_cons ha2
      have hbs : ∀ v ∈ bs, v = SVal.none := by simpa using h2
      unfold actionCore; simp only []
      simp [PCtx.slice, PCtx.nodesAt, operatorAt, PCtx.strAt, PCtx.tokAt, PCtx.lexspan, SVal.lexspan]
      split
      · refine Sat.map (sat_any (fun sp => ipost_cat notTok_node ?_))
        simp [valLeaves, aleaves, aleavesL_append, tokSpan, flatMap_none hbs]
      · rename_i hcond
        cases hh : l.head? with
        | none => exact Sat.foreign trivial
        | some n =>
          simp only []
          have hc : ¬ l.length > 1 ∧ PCtx.isTok ⟨np, SVal.nodes l :: SVal.tok t :: bs⟩ 2 .NEWLINE = true := by
            simpa using hcond
          have hl : l = [n] := single_of_head hc.1 hh
          subst hl
          have hnl : t.ttype = some .NEWLINE := by
            have := hc.2
            simpa [PCtx.isTok, PCtx.slice, Token.is] using this
          refine Sat.pure ⟨notTok_node, ?_⟩
          intro id hid
          simpa [valLeaves, flatMap_none hbs] using hid
    · cases h
  · cases h

/-- `x ++ [sep] ++ y` (list1, simple_list1, pipeline) -/
theorem iv_joinLists {np : NestedParse} {sorts : List Srt} {args : List SVal} {σ : Srt}
    {k : LCls} {elem : NCls} {sep : TokType → Bool} {mk : Span → Str → Node} {site : String}
    (hmk : ∀ sp w, aleaves (mk sp w) = [.plain sp false])
    (h : absJoin k elem sep sorts = some σ) (ha : Forall2 HasSort sorts args)
    (hmid : ∀ v ∈ (args.drop 2).dropLast, v = SVal.none) :
    Sat (joinLists ⟨np, args⟩ mk site) (fun v => IPost args (v, false)) := by
  unfold absJoin at h
  split at h
  · split at h
    · cases h
      obtain ⟨a, rfl, ⟨n, rfl, -⟩⟩ := forall2_1 ha
      simp [joinLists, PCtx.len, PCtx.nodeAt, PCtx.slice]
      exact Sat.pure (ipost_cat notTok_nodes (by simp [valLeaves]))
    · cases h
  · split at h
    · rename_i hc
      cases h
      simp only [Bool.and_eq_true, beq_iff_eq] at hc
      obtain ⟨⟨rfl, hs⟩, hlast⟩ := hc
      obtain ⟨a, as, rfl, ⟨l, rfl, -⟩, ha2⟩ := forall2_cons ha
      obtain ⟨b, bs, rfl, ⟨t, rfl, -, -⟩, ha3⟩ := forall2_cons ha2
      obtain ⟨v, hv, ⟨r, rfl, -⟩⟩ := forall2_getLast ha3 _ hlast
      have hbs : bs ≠ [] := by intro hb; subst hb; simp at hv
      have hlast' : (SVal.nodes l :: SVal.tok t :: bs).getLast? = some (.nodes r) := by
        cases bs with
        | nil => exact absurd rfl hbs
        | cons c cs => simpa [List.getLast?_cons_cons] using hv
      have hlen : ¬ (PCtx.len ⟨np, SVal.nodes l :: SVal.tok t :: bs⟩ == 2) = true := by
        cases bs with
        | nil => exact absurd rfl hbs
        | cons c cs => simp [PCtx.len]
      have hmid' : ∀ v ∈ bs.dropLast, v = SVal.none := by simpa using hmid
      have hbseq : bs = bs.dropLast ++ [SVal.nodes r] := by
        have h1 := List.dropLast_concat_getLast hbs
        have h2 : bs.getLast hbs = SVal.nodes r := by
          have := List.getLast?_eq_some_getLast hbs
          rw [hv] at this
          exact (Option.some.inj this).symm
        rw [h2] at h1
        exact h1.symm
      unfold joinLists
      simp only [hlen, if_false, Bool.false_eq_true]
      simp only [PCtx.nodesAt, slice_last hlast']
      simp [PCtx.slice, PCtx.strAt, PCtx.tokAt, PCtx.lexspan, SVal.lexspan]
      refine Sat.pure (ipost_cat notTok_nodes ?_)
      rw [hbseq]
      simp [valLeaves, aleavesL_append, hmk, tokSpan, flatMap_none hmid', List.flatMap_append]
    · cases h
  · cases h

theorem iv_list1 {np : NestedParse} {sorts : List Srt} {args : List SVal} {σ : Srt}
    (h : absAction "p_list1" sorts = some σ) (ha : Forall2 HasSort sorts args)
    (hmid : ∀ v ∈ (args.drop 2).dropLast, v = SVal.none) :
    Sat (actionCore np "p_list1" args) (IPost args) := by
  unfold absAction at h; simp only [] at h
  unfold actionCore; simp only []
  exact Sat.bind (iv_joinLists (fun _ _ => by simp [aleaves]) h ha hmid) (fun v hv => Sat.pure hv)

theorem iv_simple_list1 {np : NestedParse} {sorts : List Srt} {args : List SVal} {σ : Srt}
    (h : absAction "p_simple_list1" sorts = some σ) (ha : Forall2 HasSort sorts args)
    (hmid : ∀ v ∈ (args.drop 2).dropLast, v = SVal.none) :
    Sat (actionCore np "p_simple_list1" args) (IPost args) := by
  unfold absAction at h; simp only [] at h
  unfold actionCore; simp only []
  exact Sat.bind (iv_joinLists (fun _ _ => by simp [aleaves]) h ha hmid) (fun v hv => Sat.pure hv)

theorem iv_pipeline {np : NestedParse} {sorts : List Srt} {args : List SVal} {σ : Srt}
    (h : absAction "p_pipeline" sorts = some σ) (ha : Forall2 HasSort sorts args)
    (hmid : ∀ v ∈ (args.drop 2).dropLast, v = SVal.none) :
    Sat (actionCore np "p_pipeline" args) (IPost args) := by
  unfold absAction at h; simp only [] at h
  unfold actionCore; simp only []
  exact Sat.bind (iv_joinLists (fun _ _ => by simp [aleaves]) h ha hmid) (fun v hv => Sat.pure hv)

theorem iv_redirection {np : NestedParse} {sorts : List Srt} {args : List SVal} {σ : Srt}
    (h : absAction "p_redirection" sorts = some σ) (ha : Forall2 HasSort sorts args) :
    Sat (actionCore np "p_redirection" args) (IPost args) := by
  unfold absAction at h; simp only [] at h
  split at h
  · split at h
    · rename_i hop
      cases h
      simp only [Bool.and_eq_true] at hop
      obtain ⟨a, b, rfl, hop', ho'⟩ := forall2_2 ha
      obtain ⟨t, ty, rfl, hty, hwf, hf⟩ := okTok_inv hop.1 hop'
      obtain ⟨o, tyo, rfl, htyo, hwfo, hfo⟩ := okTok_inv hop.2 ho'
      unfold actionCore; simp only []
      simp [PCtx.len, PCtx.tokAt, PCtx.slice, PCtx.strAt, PCtx.lexspan, SVal.lexspan]
      split
      · exact Sat.map (sat_any (fun w => ipost_redir2 ⟨ty, hty, hf⟩
          (by simp [aleaves, redirLeaves, plainOf])))
      · exact Sat.pure (ipost_redir2 ⟨ty, hty, hf⟩ (by simp [aleaves, redirLeaves, plainOf]))
    · cases h
  · split at h
    · rename_i hop
      cases h
      simp only [Bool.and_eq_true] at hop
      obtain ⟨a, b, c, rfl, hin', hop', ho'⟩ := forall2_3 ha
      obtain ⟨ti, rfl, hfd⟩ := fdTok_of hop.1.1 hin'
      obtain ⟨t, ty, rfl, hty, hwf, hf⟩ := okTok_inv hop.1.2 hop'
      obtain ⟨o, tyo, rfl, htyo, hwfo, hfo⟩ := okTok_inv hop.2 ho'
      unfold actionCore; simp only []
      simp [PCtx.len, PCtx.tokAt, PCtx.slice, PCtx.strAt, PCtx.lexspan, SVal.lexspan]
      split
      · exact Sat.map (sat_any (fun w => ipost_redir3 hfd ⟨ty, hty, hf⟩
          (by simp [aleaves, redirLeaves, plainOf])))
      · exact Sat.pure (ipost_redir3 hfd ⟨ty, hty, hf⟩ (by simp [aleaves, redirLeaves, plainOf]))
    · cases h
  · cases h

theorem iv_redirection_heredoc {np : NestedParse} {sorts : List Srt} {args : List SVal} {σ : Srt}
    (h : absAction "p_redirection_heredoc" sorts = some σ) (ha : Forall2 HasSort sorts args) :
    Sat (actionCore np "p_redirection_heredoc" args) (IPost args) := by
  unfold absAction at h; simp only [] at h
  split at h
  · split at h
    · rename_i hop
      cases h
      obtain ⟨a, b, rfl, hop', ⟨w, rfl, -, -⟩⟩ := forall2_2 ha
      obtain ⟨t, ty, rfl, hty, hwf, hf⟩ := okTok_inv hop hop'
      unfold actionCore; simp only []
      simp only [PCtx.len, PCtx.tokAt, PCtx.slice, PCtx.strAt, PCtx.lexspan, SVal.lexspan,
        List.length_cons, List.length_nil, Nat.reduceAdd, Nat.reduceSub, List.getD_cons_succ,
        List.getD_cons_zero, Nat.reduceBEq, beq_self_eq_true, if_true, bind_pure_comp, pure_bind,
        map_pure, bind_map_left]
      refine Sat.bind_any (fun l => ?_)
      exact Sat.map (sat_any (fun _ => ipost_here2 (id := l.store.length) ⟨ty, hty, hf⟩
        (by simp [aleaves])))
    · cases h
  · split at h
    · rename_i hop
      cases h
      simp only [Bool.and_eq_true] at hop
      obtain ⟨a, b, c, rfl, hin', hop', ⟨w, rfl, -, -⟩⟩ := forall2_3 ha
      obtain ⟨t, ty, rfl, hty, hwf, hf⟩ := okTok_inv hop.2 hop'
      obtain ⟨ti, rfl, hfd⟩ := fdTok_of hop.1 hin'
      unfold actionCore; simp only []
      simp only [PCtx.len, PCtx.tokAt, PCtx.slice, PCtx.strAt, PCtx.lexspan, SVal.lexspan,
        List.length_cons, List.length_nil, Nat.reduceAdd, Nat.reduceSub, List.getD_cons_succ,
        List.getD_cons_zero, Nat.reduceBEq, beq_self_eq_true, if_true, bind_pure_comp, pure_bind,
        map_pure, bind_map_left, Bool.false_eq_true, if_false]
      refine Sat.bind_any (fun l => ?_)
      exact Sat.map (sat_any (fun _ => ipost_here3 (id := l.store.length) hfd ⟨ty, hty, hf⟩
        (by simp [aleaves])))
    · cases h
  · cases h

theorem iv_simple_list {np : NestedParse} {sorts : List Srt} {args : List SVal} {σ : Srt}
    (h : absAction "p_simple_list" sorts = some σ) (ha : Forall2 HasSort sorts args) :
    Sat (actionCore np "p_simple_list" args) (IPost args) := by
  unfold absAction at h; simp only [] at h
  split at h
  · cases h
    obtain ⟨a, rfl, ⟨l, rfl, hl⟩⟩ := forall2_1 ha
    unfold actionCore; simp only []
    simp only [PCtx.len, PCtx.slice, PCtx.nodesAt, List.length_cons, List.length_nil, Nat.reduceAdd,
      Nat.reduceSub, List.getD_cons_zero, Nat.reduceBEq, Bool.false_or, Bool.false_eq_true,
      if_false, pure_bind, Nat.sub_self]
    refine Sat.bind_any (fun _ => ?_)
    split
    · refine Sat.bind_any (fun sp => Sat.bind_any (fun l1 => Sat.pure ?_))
      exact ipost_cat notTok_node (by simp [valLeaves, aleaves])
    · split
      · refine Sat.bind_any (fun l1 => Sat.pure ?_)
        exact ipost_cat notTok_node (by simp [valLeaves])
      · exact Sat.bind (Sat.foreign (P := fun _ => False) trivial) (fun _ h => h.elim)
  · split at h
    · rename_i hop
      cases h
      obtain ⟨a, b, rfl, ⟨l, rfl, hl⟩, ⟨t, rfl, hty, hwf⟩⟩ := forall2_2 ha
      unfold actionCore; simp only []
      simp only [PCtx.len, PCtx.slice, PCtx.nodesAt, List.length_cons, List.length_nil, Nat.reduceAdd,
        Nat.reduceSub, List.getD_cons_zero, Nat.reduceBEq, Bool.true_or, if_true, pure_bind,
        Nat.sub_self, operatorAt, PCtx.strAt, PCtx.tokAt, PCtx.lexspan, SVal.lexspan,
        List.getD_cons_succ, bind_pure_comp, map_pure, Bool.false_and, beq_self_eq_true]
      refine Sat.bind_any (fun _ => ?_)
      refine Sat.bind_any (fun sp => Sat.map (sat_any (fun l1 => ?_)))
      exact ipost_cat notTok_node (by simp [valLeaves, aleaves, aleavesL_append, tokSpan])
    · cases h
  · cases h

theorem iv_pipeline_command {np : NestedParse} {sorts : List Srt} {args : List SVal} {σ : Srt}
    (h : absAction "p_pipeline_command" sorts = some σ) (ha : Forall2 HasSort sorts args)
    (hfirst : ∀ x y, args = [x, y] → (∃ t, x = .tok t) ∨ (∃ n, x = .node n)) :
    Sat (actionCore np "p_pipeline_command" args) (IPostT args) := by
  unfold absAction at h; simp only [] at h
  have two : ∀ x y, args = [x, y] → (y = .none ∨ ∃ n, y = .node n) →
      Sat (actionCore np "p_pipeline_command" args) (IPostT args) := by
    intro x y hargs hy
    subst hargs
    have hx := hfirst x y rfl
    unfold actionCore; simp only []
    have hlen : ((PCtx.len ⟨np, [x, y]⟩ == 2) = false) := rfl
    simp only [hlen, Bool.false_eq_true, if_false]
    simp only [PCtx.lexspan, PCtx.slice, List.getD_cons_zero, Nat.sub_self,
      Nat.add_one_sub_one, List.getD_cons_succ]
    rcases hy with rfl | ⟨n, rfl⟩
    · simp only []
      exact Sat.pure (ipostT_bang notTok_node hx (by simp [valLeaves, aleaves]))
    · split
      · rename_i hh; cases hh
      · rename_i sp parts hh
        cases hh
        split
        · exact Sat.bind_any (fun _ => Sat.pure (ipostT_bang notTok_node hx
            (by simp [valLeaves, aleaves])))
        · exact Sat.foreign trivial
      · rename_i n' hnp hh
        cases hh
        exact Sat.bind_any (fun _ => Sat.pure (ipostT_bang notTok_node hx
          (by simp [valLeaves, aleaves])))
      · rename_i hh1 hh2 hh3
        exact absurd rfl (hh3 n)
  split at h
  · cases h
    obtain ⟨a, rfl, ⟨l, rfl, -⟩⟩ := forall2_1 ha
    unfold actionCore; simp only []
    simp [PCtx.len, PCtx.slice, PCtx.nodesAt]
    split
    · exact Sat.pure (ipost_cat notTok_node (by simp [valLeaves])).toT
    · cases hha : l.head? with
      | none => exact Sat.foreign trivial
      | some a =>
        cases hhb : l.getLast? with
        | none => exact Sat.foreign trivial
        | some b =>
          simp only []
          refine Sat.bind_any (fun sa => Sat.map (sat_any (fun sb => ?_)))
          exact (ipost_cat notTok_node (by simp [valLeaves, aleaves])).toT
  · cases h
    obtain ⟨x, y, rfl, -, ⟨n, rfl, -⟩⟩ := forall2_2 ha
    exact two x (.node n) rfl (Or.inr ⟨n, rfl⟩)
  · cases h
    obtain ⟨x, y, rfl, -, hy⟩ := forall2_2 ha
    refine two x y rfl ?_
    rcases hy with rfl | ⟨n, rfl, -⟩
    · exact Or.inl rfl
    · exact Or.inr ⟨n, rfl⟩
  · cases h

end Bashlex.C05
