/-
  C05, residual R1, part 3: what every semantic action does to the redirect STORE
  (`act_store`, mirrors the dispatch of `C03.act_spans`, whose per-action lemmas `sp_*` already
  say that an action other than `p_redirection_heredoc` / `p_simple_list` leaves the store
  alone):
    * `p_redirection_heredoc` appends ONE cell, and the node it returns is the pending redirect
      of that cell (`st_heredoc_id`);
    * `p_simple_list` (`gatherheredocuments`) keeps the length and every attached body;
    * every other action leaves the store as it is.
-/
import Bashlex.Props.C05.FIdsEngine
import Bashlex.Props.C05.TokGapsProof

namespace Bashlex.C03
open Bashlex Bashlex.Spec Bashlex.Node Bashlex.M Bashlex.LR Bashlex.C12 Bashlex.C05
  Bashlex.C05.TG
set_option linter.unusedSimpArgs false
set_option linter.unusedVariables false

/-- the store `st'` after an action that returned `r`, the store before being `st0`: the
    length is kept, or ONE cell was appended whose pending redirect is (a leaf of) the value
    returned; bodies stay -/
def StoreRel (st0 : List RedirCell) (r : SVal × Bool) (st' : List RedirCell) : Prop :=
  (st'.length = st0.length ∨
    (st'.length = st0.length + 1 ∧ st0.length ∈ pends (valLeaves r.1))) ∧
  ∀ p, InBody st0 p → InBody st' p

theorem storeRel_same {st0 st' : List RedirCell} {r : SVal × Bool} (h : st' = st0) :
    StoreRel st0 r st' := by
  subst h
  exact ⟨Or.inl rfl, fun _ hp => hp⟩

section
variable {TI : Nat → Nat → Local → Env → Prop} {len : Nat}

/-- an action that only reads the state leaves the store alone -/
theorem lift_store {np : NestedParse} {fname : String} {s : Bool} {rest args : List (Nat × SVal)}
    {la : Option (Nat × SVal)} {st0 : List RedirCell}
    (hK : ∀ F st f g, SegV s len f (args.map (·.2)) g → (∀ v ∈ args.map (·.2), Fresh len st v) →
      LaIn len g la F →
      Keeps (StP TI len F st) (actionCore np fname (args.map (·.2))) (Res len f g st))
    (hsym : ∀ x ∈ args, x.1 ≠ eofSym) (hrng : s = true → ∀ g F, LaIn len g la F → g ≤ len)
    (hsl : ∀ x ∈ args, x.1 ≠ slSym) :
    SatS (actionCore np fname (args.map (·.2)))
      (fun l e => SIs TI len (rest ++ args) la l e ∧ l.store = st0)
      (fun r l e => StoreRel st0 r l.store) := by
  refine SatS.intro_state ?_
  rintro l e ⟨⟨g, F, hseg, hlain, hti, hent⟩, hst0⟩
  obtain ⟨m, hrs, has⟩ := Seg.split hseg
  have hsegV := segV_of_seg (s := s) has hsym (fun hs => hrng hs g F hlain)
  have hfresh := fresh_of_entries (st := l.store)
    (fun x hx => hent x (List.mem_append_right _ hx)) hsl
  refine SatS.weaken (hK F l.store m g hsegV hfresh hlain) ?_ ?_ (fun _ h => h)
  · rintro l1 e1 ⟨rfl, rfl⟩; exact ⟨hti, rfl⟩
  · rintro r l' e' ⟨⟨hti', hst'⟩, _⟩
    exact storeRel_same (by rw [hst', hst0])

/-- **`p_redirection_heredoc` returns the pending redirect of the cell it appends** -/
theorem st_heredoc_id {np : NestedParse} {sorts : List Srt} {args : List SVal} {σ : Srt}
    {st : List RedirCell}
    (h : absAction "p_redirection_heredoc" sorts = some σ) (ha : Forall2 HasSort sorts args) :
    SatS (actionCore np "p_redirection_heredoc" args) (fun l e => l.store = st)
      (fun r l e => st.length ∈ pends (valLeaves r.1)) := by
  unfold absAction at h; simp only [] at h
  split at h
  · split at h
    · rename_i hop
      cases h
      obtain ⟨a, b, rfl, hop', ⟨w, rfl, hwty, -⟩⟩ := forall2_2 ha
      obtain ⟨t, ty, rfl, hty, hwf, hf⟩ := okTok_inv hop hop'
      unfold actionCore; simp only []
      simp only [PCtx.len, PCtx.tokAt, PCtx.slice, PCtx.strAt, PCtx.lexspan, SVal.lexspan,
        List.length_cons, List.length_nil, Nat.reduceAdd, Nat.reduceSub, List.getD_cons_succ,
        List.getD_cons_zero, Nat.reduceBEq, beq_self_eq_true, if_true, bind_pure_comp, pure_bind,
        map_pure, bind_map_left]
      refine SatS.bind SatS.get ?_
      intro l
      refine SatS.map ?_
      rintro l0 e0 ⟨hl, hst⟩
      subst hl
      show st.length ∈ pends (valLeaves _)
      rw [← hst]
      simp [valLeaves, aleaves]
    · cases h
  · split at h
    · rename_i hop
      cases h
      simp only [Bool.and_eq_true] at hop
      obtain ⟨a, b, c, rfl, hin', hop', ⟨w, rfl, hwty, -⟩⟩ := forall2_3 ha
      obtain ⟨t, ty, rfl, hty, hwf, hf⟩ := okTok_inv hop.2 hop'
      obtain ⟨ti, tyi, rfl, htyi, hwfi, hfi⟩ := okTok_inv hop.1 hin'
      unfold actionCore; simp only []
      simp only [PCtx.len, PCtx.tokAt, PCtx.slice, PCtx.strAt, PCtx.lexspan, SVal.lexspan,
        List.length_cons, List.length_nil, Nat.reduceAdd, Nat.reduceSub, List.getD_cons_succ,
        List.getD_cons_zero, Nat.reduceBEq, beq_self_eq_true, if_true, bind_pure_comp, pure_bind,
        map_pure, bind_map_left, Bool.false_eq_true, if_false]
      refine SatS.bind SatS.get ?_
      intro l
      refine SatS.map ?_
      rintro l0 e0 ⟨hl, hst⟩
      subst hl
      show st.length ∈ pends (valLeaves _)
      rw [← hst]
      simp [valLeaves, aleaves]
    · cases h
  · cases h

/-- **what every semantic action does to the redirect store** -/
theorem act_store (hT : TokAct TI) {np : NestedParse}
    (hW : ∀ F st, WordSat (StP TI len F st) np len)
    {p lhs : Nat} {rhs : List Nat} {rest args : List (Nat × SVal)} {la : Option (Nat × SVal)}
    (hprod : realTables.prods[p]? = some (lhs, rhs)) (hargs : args.map (·.1) = rhs)
    (hrest : RestHint realTables rest lhs) (hla : LaHint realTables la p) {σ : Srt}
    (hab : absAction (fn p) (rhs.map sortOfSymbol) = some σ)
    (ha : Forall2 HasSort (rhs.map sortOfSymbol) (args.map (·.2))) (st0 : List RedirCell) :
    SatS (actionCore np (fn p) (args.map (·.2)))
      (fun l e => SIs TI len (rest ++ args) la l e ∧ l.store = st0)
      (fun r l e => StoreRel st0 r l.store) := by
  have hk := prod_ok hprod
  generalize hf : fn p = fname at hab hk
  obtain ⟨s1, s3⟩ := syms_of_prodOK hk hargs
  -- the generic cases: a look-ahead token is present and starts within the input
  have strong : dfltFuncs.contains fname = false →
      (∀ F st f g, SegV true len f (args.map (·.2)) g → (∀ v ∈ args.map (·.2), Fresh len st v) →
        Keeps (StP TI len F st) (actionCore np fname (args.map (·.2))) (Res len f g st)) →
      SatS (actionCore np fname (args.map (·.2)))
        (fun l e => SIs TI len (rest ++ args) la l e ∧ l.store = st0)
        (fun r l e => StoreRel st0 r l.store) := by
    intro h1 hK
    have hnin : (fname == "p_inputunit") = false := by
      cases hx : fname == "p_inputunit" with
      | false => rfl
      | true =>
        rw [beq_iff_eq] at hx
        rw [hx] at h1
        exact absurd h1 (by decide)
    exact lift_store (s := true) (fun F st f g hs hfr _ => hK F st f g hs hfr) s1
      (fun _ g F hl => la_range hla (by rw [hf]; exact h1) hl) (s3 hnin)
  have weak : (fname == "p_inputunit") = false →
      (∀ F st f g, SegV false len f (args.map (·.2)) g → (∀ v ∈ args.map (·.2), Fresh len st v) →
        Keeps (StP TI len F st) (actionCore np fname (args.map (·.2))) (Res len f g st)) →
      SatS (actionCore np fname (args.map (·.2)))
        (fun l e => SIs TI len (rest ++ args) la l e ∧ l.store = st0)
        (fun r l e => StoreRel st0 r l.store) := by
    intro h2 hK
    exact lift_store (s := false) (fun F st f g hs hfr _ => hK F st f g hs hfr) s1
      (fun h => by cases h) (s3 h2)
  unfold absAction at hab
  split at hab
  · -- p_inputunit
    refine SatS.intro_state ?_
    rintro l e ⟨⟨g, F, hseg, hlain, hti, hent⟩, hst0⟩
    refine SatS.weaken (keeps_inputunit (len := len) hT (F := F) (st := l.store)) ?_ ?_ (fun _ h => h)
    · rintro l1 e1 ⟨rfl, rfl⟩; exact ⟨hti, rfl⟩
    · rintro r l' e' ⟨⟨hti', hst'⟩, hr⟩
      exact storeRel_same (by rw [hst', hst0])
  · exact strong (by decide) (fun F st f g hs hfr => sp_word_list (hW F st) hab ha hs hfr)
  · -- p_redirection_heredoc
    obtain ⟨x, s, hlax, _⟩ := la_present hla (by rw [hf]; decide)
    refine SatS.intro_state ?_
    rintro l e ⟨⟨g, F, hseg, hlain, hti, hent⟩, hst0⟩
    obtain ⟨m, hrs, has⟩ := Seg.split hseg
    have hsegV := segV_of_seg (s := true) has s1
      (fun _ => la_range hla (by rw [hf]; decide) hlain)
    have hgF : g < F := by rw [hlax] at hlain; exact laIn_lt hlain
    have hlast : ∀ s, (rhs.map sortOfSymbol).getLast? = some s → s = .tok (some .WORD) := by
      intro s0 hs0
      have hh := heredoc_prod_ok hprod
      rw [hf] at hh
      unfold heredocProdOK at hh
      simp only [bne_self_eq_false, Bool.false_or] at hh
      rw [List.getLast?_map] at hs0
      cases hl : rhs.getLast? with
      | none => rw [hl] at hs0; cases hs0
      | some y =>
        rw [hl] at hs0 hh
        simp only [Option.map_some, Option.some.injEq] at hs0
        rw [← hs0]
        simpa using hh
    have hA : SatS (actionCore np "p_redirection_heredoc" (args.map (·.2)))
        (fun l1 e1 => l1 = l ∧ e1 = e)
        (fun r l' e' => ∃ cell, l'.store = l.store ++ [cell]) := by
      refine SatS.weaken (sp_redirection_heredoc hT (F := F) (st := l.store) hab hlast ha hsegV hgF)
        ?_ ?_ (fun _ h => h)
      · rintro l1 e1 ⟨rfl, rfl⟩; exact ⟨hti, rfl⟩
      · rintro r l' e' ⟨cell, _, hst', _⟩
        exact ⟨cell, hst'⟩
    have hB : SatS (actionCore np "p_redirection_heredoc" (args.map (·.2)))
        (fun l1 e1 => l1 = l ∧ e1 = e)
        (fun r l' e' => l.store.length ∈ pends (valLeaves r.1)) :=
      SatS.pre (st_heredoc_id (st := l.store) hab ha) (by rintro l1 e1 ⟨rfl, rfl⟩; rfl)
    refine SatS.post (SatS.and hA hB) ?_
    rintro r l' e' ⟨⟨cell, hst'⟩, hid⟩
    rw [← hst0]
    refine ⟨Or.inr ⟨by rw [hst']; simp, hid⟩, fun p hp => ?_⟩
    rw [hst']
    exact hp.mono (fun c hc b hb => ⟨c, List.mem_append_left _ hc, hb⟩)
  · exact strong (by decide) (fun F st f g hs hfr => sp_redirection (hW F st) hab ha hs hfr)
  · exact strong (by decide)
      (fun F st f g hs hfr => sp_simple_command_element (hW F st) hab ha hs hfr)
  · exact strong (by decide) (fun F st f g hs hfr => sp_redirection_list hab ha hs hfr)
  · exact strong (by decide) (fun F st f g hs hfr => sp_simple_command hab ha hs hfr)
  · exact strong (by decide) (fun F st f g hs hfr => sp_command hab ha hs hfr)
  · exact strong (by decide) (fun F st f g hs hfr => sp_shell_command (hW F st) hab ha hs hfr)
  · exact strong (by decide) (fun F st f g hs hfr => sp_for_command (hW F st) hs hfr)
  · exact strong (by decide) (fun F st f g hs hfr => sp_arith_for_command (hW F st) hs hfr)
  · exact strong (by decide) (fun F st f g hs hfr => sp_select_command (hW F st) hs hfr)
  · exact strong (by decide) (fun F st f g hs hfr => sp_case_command (hW F st) hs hfr)
  · exact strong (by decide) (fun F st f g hs hfr => sp_function_def (hW F st) hs hfr)
  · exact strong (by decide) (fun F st f g hs hfr => sp_function_body hab ha hs hfr)
  · exact strong (by decide) (fun F st f g hs hfr => sp_subshell hab ha hs hfr)
  · exact strong (by decide) (fun F st f g hs hfr => sp_group_command hab ha hs hfr)
  · exact strong (by decide) (fun F st f g hs hfr => sp_coproc (hW F st) hs hfr)
  · exact strong (by decide) (fun F st f g hs hfr => sp_if_command (hW F st) hs hfr)
  · exact strong (by decide) (fun F st f g hs hfr => sp_arith_command (hW F st) hs hfr)
  · exact strong (by decide) (fun F st f g hs hfr => sp_cond_command (hW F st) hs hfr)
  · obtain ⟨e1, e2⟩ := elif_facts hk ha
    exact weak (by decide) (fun F st f g hs hfr => sp_elif_clause hs hfr e1 e2)
  · exact strong (by decide) (fun F st f g hs hfr => sp_case_clause hab ha hs hfr)
  · exact strong (by decide) (fun F st f g hs hfr => sp_pattern_list hab ha hs hfr)
  · exact strong (by decide)
      (fun F st f g hs hfr => sp_case_clause_sequence hab ha hs hfr)
  · exact strong (by decide) (fun F st f g hs hfr => sp_pattern (hW F st) hab ha hs hfr)
  · exact strong (by decide) (fun F st f g hs hfr => sp_list hab ha hs hfr)
  · exact strong (by decide) (fun F st f g hs hfr => sp_compound_list hab ha hs hfr)
  · exact lift_store (s := true)
      (fun F st f g hs hfr hl => sp_list0 hab ha (SegV.weak hs) hfr
        (la_range hla (by rw [hf]; decide) hl)) s1
      (fun _ g F hl => la_range hla (by rw [hf]; decide) hl) (s3 (by decide))
  · exact strong (by decide) (fun F st f g hs hfr => sp_list1 hab ha (SegV.weak hs) hfr)
  · exact weak (by decide) (fun F st f g hs hfr => sp_simple_list_terminator hs)
  · exact strong (by decide) (fun F st f g hs hfr => sp_list_terminator hs)
  · exact strong (by decide) (fun F st f g hs hfr => sp_newline_list (SegV.weak hs))
  · -- p_simple_list
    obtain ⟨x, s, hlax, _⟩ := la_present hla (by rw [hf]; decide)
    have hlhs : lhs = slSym := by
      unfold prodOK at hk
      simp only [Bool.and_eq_true, Bool.or_eq_true, Bool.not_eq_true', beq_iff_eq] at hk
      rcases hk.1.1.2 with h | h
      · simp at h
      · exact h
    have hrest0 : rest = [] := by
      rcases hrest with h | ⟨s', t, hs', hg⟩
      · exact h
      · rw [hlhs] at hg; exact absurd (goto_sl hg) hs'
    subst hrest0
    refine SatS.intro_state ?_
    rintro l e ⟨⟨g, F, hseg, hlain, hti, hent⟩, hst0⟩
    simp only [List.nil_append] at hseg hent ⊢
    have hsegV := segV_of_seg (s := true) hseg s1
      (fun _ => la_range hla (by rw [hf]; decide) hlain)
    have hfresh := fresh_of_entries (st := l.store) hent (s3 (by decide))
    have hgF : g < F := by rw [hlax] at hlain; exact laIn_lt hlain
    refine SatS.weaken (sp_simple_list hT (F := F) (st := l.store) hab ha hsegV hfresh)
      ?_ ?_ (fun _ h => h)
    · rintro l1 e1 ⟨rfl, rfl⟩; exact ⟨hti, rfl⟩
    · rintro r l' e' ⟨hti', hstep, _⟩
      rw [← hst0]
      exact ⟨Or.inl hstep.1, fun p hp => TG.inBody_storeStep hp hstep⟩
  · exact strong (by decide) (fun F st f g hs hfr =>
      sp_simple_list1 hab ha (SegV.weak hs) hfr)
  · exact strong (by decide) (fun F st f g hs hfr =>
      sp_pipeline_command hab ha hs hfr (pipeline_facts hk ha))
  · exact strong (by decide) (fun F st f g hs hfr =>
      sp_pipeline hab ha (SegV.weak hs) hfr)
  · exact strong (by decide) (fun F st f g hs hfr => sp_timespec (hW F st) hs hfr)
  · exact strong (by decide) (fun F st f g hs hfr => sp_empty hs)
  · cases hab

end

end Bashlex.C03
