/-
  C05, residual R1, part 2: the dispatch -- every semantic action conserves the pending
  here-document redirects of its arguments (`act_ids`, mirrors `act_leaves`).
-/
import Bashlex.Props.C05.FIds
import Bashlex.Props.C05.Engine

namespace Bashlex.C05
open Bashlex Bashlex.Spec Bashlex.Node Bashlex.M Bashlex.LR Bashlex.C12 Bashlex.C03
set_option linter.unusedSimpArgs false
set_option linter.unusedVariables false

theorem not_here_time {t : Token} (h1 : HereTok t) (h2 : IsTimeTok t) : False := by
  obtain ⟨ty, e1, q1⟩ := h1
  obtain ⟨ty', e2, q2⟩ := h2
  rw [e1] at e2
  cases e2
  revert q1 q2
  cases ty <;> decide

/-- tokens of a `time` specification account for no pending redirect -/
theorem covers_time_nopend {ts : List Token} {ls : List ALeaf} (h : Covers ts ls)
    (ht : ∀ t ∈ ts, IsTimeTok t) : pends ls = [] := by
  induction h with
  | nil => rfl
  | @cons ts1 ls1 ts2 ls2 hg _ ih =>
    have ih' := ih (fun t h => ht t (List.mem_append_right _ h))
    rw [pends_append, ih', List.append_nil]
    cases hg with
    | leaf t => rfl
    | drop t hd => rfl
    | redir2 op tgt h1 => rfl
    | redir3 fd op tgt h0 h1 => rfl
    | here2 op tgt id h1 =>
      exact (not_here_time h1 (ht op (List.mem_append_left _ (by simp)))).elim
    | here3 fd op tgt id h0 h1 =>
      exact (not_here_time h1 (ht op (List.mem_append_left _ (by simp)))).elim
    | d19 _ hne ht' => rfl

/-- conservation, on the values -/
def PostI (vals : List SVal) (r : SVal × Bool) : Prop :=
  ∀ id ∈ pends (vals.flatMap valLeaves), id ∈ pends (valLeaves r.1)

/-- **every semantic action conserves the pending here-document redirects of its arguments** -/
theorem act_ids {np : NestedParse} {p lhs : Nat} {rhs : List Nat} {args : List (Nat × SVal)}
    {tss : List (List Token)}
    (hprod : realTables.prods[p]? = some (lhs, rhs)) (hargs : args.map (·.1) = rhs) {σ : Srt}
    (hab : absAction (fn p) (rhs.map sortOfSymbol) = some σ)
    (ha : Forall2 HasSort (rhs.map sortOfSymbol) (args.map (·.2)))
    (hacc : Forall2 Acc args tss) :
    Sat (actionCore np (fn p) (args.map (·.2))) (PostI (args.map (·.2))) := by
  have hW := wordPos np
  have hk := leaf_ok hprod
  have hk3 := C03.prod_ok hprod
  generalize hf : fn p = fname at hab hk hk3
  unfold leafOK at hk
  simp only [Bool.and_eq_true, Bool.or_eq_true, bne_iff_ne, ne_eq, beq_iff_eq] at hk
  obtain ⟨⟨⟨⟨⟨⟨⟨⟨⟨⟨⟨⟨⟨⟨⟨k_iu, k_list⟩, k_pl⟩, k_cl⟩, k_l0⟩, k_l1⟩, k_sl1⟩, k_pipe⟩, k_slt⟩, k_nl⟩,
    k_empty⟩, k_lt⟩, k_time⟩, hkt⟩, hki⟩, hkp⟩ := hk
  have haV := forall2_accV hacc
  have gen : Sat (actionCore np fname (args.map (·.2))) (IPost (args.map (·.2))) →
      Sat (actionCore np fname (args.map (·.2))) (PostI (args.map (·.2))) :=
    fun hs => hs.weaken (fun r h => h.2) (fun _ h => h)
  unfold absAction at hab
  split at hab
  · -- p_inputunit
    have hks' := k_iu.resolve_left (fun h => h rfl)
    unfold iuB at hks'
    have foo := lv_inputunit (np := np) (args := args.map (·.2))
    suffices bar : ∀ r : SVal × Bool,
        ((r = (.none, false) ∧ ∀ n, (args.map (·.2)).head? ≠ some (.node n)) ∨
          ∃ n, r = (.node n, true) ∧ (args.map (·.2)).head? = some (.node n)) →
          PostI (args.map (·.2)) r from
      foo.weaken bar (fun _ h => h)
    rintro r (⟨rfl, hnn⟩ | ⟨n, rfl, hn⟩)
    · rw [Bool.or_eq_true] at hks'
      rcases hks' with h | h
      · intro id hid
        rw [pends_dropV (all_dropV h ha)] at hid
        cases hid
      · exfalso
        split at h
        · rename_i c s hsorts
          rw [hsorts] at ha
          obtain ⟨x, y, hv, ⟨n, rfl, _⟩, _⟩ := forall2_2 ha
          exact hnn n (by rw [hv]; rfl)
        · cases h
    · rw [Bool.or_eq_true] at hks'
      rcases hks' with h | h
      · exfalso
        have hd := all_dropV h ha (.node n) (List.mem_of_mem_head? hn)
        rcases hd with hd | ⟨t, hd, _⟩ <;> cases hd
      · split at h
        · rename_i c s hsorts
          rw [hsorts] at ha
          obtain ⟨x, y, hv, ⟨n', rfl, _⟩, hy⟩ := forall2_2 ha
          rw [hv] at hn ⊢
          simp only [List.head?_cons, Option.some.injEq, SVal.node.injEq] at hn
          subst hn
          have hyd : pends ([y].flatMap valLeaves) = [] :=
            pends_dropV (by intro v hv'; simp only [List.mem_singleton] at hv'; subst hv';
                            exact dropV_of_sort h hy)
          intro id hid
          simp only [List.flatMap_cons, List.flatMap_nil, List.append_nil, pends_append] at hid hyd
          rw [hyd, List.append_nil] at hid
          exact hid
        · cases h
  · exact gen (iv_word_list hW hab ha)
  · exact gen (iv_redirection_heredoc hab ha)
  · exact gen (iv_redirection hab ha)
  · exact gen (iv_simple_command_element hW hab ha)
  · exact gen (iv_redirection_list hab ha)
  · exact gen (iv_simple_command hab ha)
  · exact gen (iv_command hab ha)
  · exact gen (iv_shell_command hW hab ha)
  · exact gen (iv_for_command hW)
  · exact gen (iv_arith_for_command hW)
  · exact gen (iv_select_command hW)
  · exact gen (iv_case_command hW)
  · exact gen (iv_function_def hW)
  · exact gen (iv_function_body hab ha)
  · exact gen (iv_subshell hab ha)
  · exact gen (iv_group_command hab ha)
  · exact gen (iv_coproc hW)
  · exact gen (iv_if_command hW)
  · exact gen (iv_arith_command hW)
  · exact gen (iv_cond_command hW)
  · exact gen (iv_elif_clause (C03.elif_facts hk3 ha).1)
  · exact gen (iv_case_clause hab ha)
  · exact gen (iv_pattern_list hab ha (head_none (k_pl.resolve_left (fun h => h rfl)) ha))
  · exact gen (iv_case_clause_sequence hab ha)
  · exact gen (iv_pattern hW hab ha)
  · exact gen (iv_list hab ha (head_none (k_list.resolve_left (fun h => h rfl)) ha))
  · exact gen (iv_compound_list hab ha (head2_none (k_cl.resolve_left (fun h => h rfl)) ha))
  · exact gen (iv_list0 hab ha (drop2_none (k_l0.resolve_left (fun h => h rfl)) ha))
  · exact gen (iv_list1 hab ha (mid_none (k_l1.resolve_left (fun h => h rfl)) ha))
  · exact gen (iv_simple_list_terminator (all_dropV (k_slt.resolve_left (fun h => h rfl)) ha))
  · obtain ⟨t, hv, hd⟩ := list_terminator_facts (k_lt.resolve_left (fun h => h rfl)) ha
    exact gen (iv_list_terminator hv hd)
  · exact gen (iv_newline_list (all_dropV (k_nl.resolve_left (fun h => h rfl)) ha))
  · exact gen (iv_simple_list hab ha)
  · exact gen (iv_simple_list1 hab ha (mid_none (k_sl1.resolve_left (fun h => h rfl)) ha))
  · -- p_pipeline_command: the dropped `timespec` node holds `time` tokens only
    have foo := iv_pipeline_command (np := np) hab ha (C03.pipeline_facts hk3 ha)
    suffices bar : ∀ r : SVal × Bool, IPostT (args.map (·.2)) r → PostI (args.map (·.2)) r from
      foo.weaken bar (fun _ h => h)
    intro r hr
    refine hr.2 ?_
    intro n y hv
    -- as in `act_leaves`: the first argument is a `timespec` entry
    cases hacc with
    | nil => simp at hv
    | @cons x ts0 xs rest h1 h2 =>
      obtain ⟨s1, v1⟩ := x
      simp only [List.map_cons, List.cons.injEq] at hv
      obtain ⟨hv1, hv2⟩ := hv
      have hv1' : v1 = .node n := hv1
      subst hv1'
      have hlen : rhs.length = 2 := by
        rw [← hargs]
        have : (List.map (·.2) xs).length = 1 := by rw [hv2]; rfl
        simp only [List.length_map] at this
        simp [this]
      have hhead : rhs.headD 0 = s1 := by rw [← hargs]; rfl
      have htime : ts0 ≠ [] ∧ ∀ t ∈ ts0, IsTimeTok t := by
        rcases hkp with ((h | h) | h) | h
        · exact absurd rfl h
        · exact absurd hlen h
        · exfalso
          rw [hhead] at h
          have hs1 : HasSort (sortOfSymbol s1) (.node n) := by
            rw [← hargs] at ha
            cases ha with
            | cons h3 _ => exact h3
          cases hs : sortOfSymbol s1 with
          | tok ty => rw [hs] at hs1; obtain ⟨t, ht, _⟩ := hs1; cases ht
          | _ => rw [hs] at h; cases h
        · rw [hhead] at h
          exact h1.2.1 h
      have hc : Covers ts0 (aleaves n) := h1.1
      exact covers_time_nopend hc htime.2
  · exact gen (iv_pipeline hab ha (mid_none (k_pipe.resolve_left (fun h => h rfl)) ha))
  · exact gen (iv_timespec hW)
  · have h0 : args.map (·.2) = [] := by
      have hks' := k_empty.resolve_left (fun h => h rfl)
      have := forall2_length ha
      rw [List.isEmpty_iff.mp hks'] at this
      exact List.length_eq_zero_iff.mp this.symm
    exact gen (iv_empty h0)
  · cases hab

end Bashlex.C05
