/-
  C05, `Props/C05Final.lean` / `Props/C05/FCover.lean`: cross-checks BY EVALUATION (not part of
  any proof):
    * `SortOK` -- the decidable per-input condition on `Array.qsort` under which `coverOK_sound`
      holds -- evaluates to `true` on the leaves of every part list of the inputs below (the
      kernel cannot run `qsort`; `#eval` can);
    * the signatures `Spec.coverOK` reports on the witnesses of the exclusions of `C05_final`
      (D19 `time`; D11 here-document inside `{ }`) and on plain here-documents (none);
    * `posLay_overapprox`'s input parses to two words (the `c` IS a token).
-/
import Bashlex.Props.C05.FCover
import Bashlex.Props.C05.TGValidate

namespace Bashlex.C05
open Bashlex Bashlex.Spec

def partsOf (s : String) (o : Opts := {}) : List Node :=
  match (parse s.toList o).1 with
  | .parts ps => ps
  | _ => []

/-- number of inputs, number on which `sortOKb` fails, the first failures -/
def sortReport (l : List String) : Nat × Nat × List String :=
  let bad := l.filter fun s =>
    !(sortOKb (leavesL (partsOf s))) || !(sortOKb (leavesL (partsOf s { strict := false, proceed := true })))
  (l.length, bad.length, bad.take 5)

#eval sortReport C04.corpus          -- (_, 0, [])
#eval sortReport TG.gapHand          -- (_, 0, [])
#eval sortReport TG.gapGrid          -- (_, 0, [])

def cover (s : String) (o : Opts := {}) : List Viol := coverOK s.toList (partsOf s o)

#eval cover "cat <<E\nx\nE\n"                                   -- []
#eval cover "cat <<E; b\nx\nE\nc"                               -- []
#eval cover "a #c\nb\n\n"                                       -- []
#eval cover "{ a <<E\nx\nE\n}"                                  -- D11: leaf-overlap+heredoc-body
#eval cover "time a" { proceed := true }                        -- D19: gap-not-layout
#eval cover "time -p a" { proceed := true }                     -- D19
#eval (partsOf "a#b c").map (fun n => (leaves n))              -- two word leaves: (0,3) and (4,5)
-- the case "the cursor left the line" (chain / tiling not stated): a missing here-document,
-- non-strict: a part is returned, without a body leaf; strict: ParsingError
#eval (partsOf "cat <<E" { strict := false }).map (fun n => leaves n)   -- [[((0,3),false), ((4,7),false)]]
#eval (partsOf "cat <<E").length                                        -- 0 (exception)
#eval cover "a\n\n# c\n"                                                -- []: the last run returns None over layout

end Bashlex.C05
