/-
  `Props/C05Cover2.lean`: how often does `spineOK` hold on results with plain leaves (by evaluation;
  not part of any proof)?  inputs, accepted with plain leaves, of these with `spineOK`, first misses
  (parts that END in a compound command: C03 has no span clause for those nodes).
-/
import Bashlex.Props.C05Cover2
import Bashlex.Props.C05.FValidate

namespace Bashlex.C05
open Bashlex Bashlex.Spec

def spineReport (l : List String) (o : Opts := {}) : Nat × Nat × Nat × List String :=
  let r := l.filterMap fun s =>
    let ps := partsOf s o
    if ps.isEmpty then none else if plainLeaves s.toList ps then some (s, spineOK ps) else none
  (l.length, r.length, (r.filter (·.2)).length, ((r.filter (fun x => !x.2)).take 6).map (·.1))

#eval spineReport C04.corpus                                        -- (1173, 779, 577, ["(a) && (b)", …, "{ a; }", …])
#eval spineReport TG.gapGrid                                        -- (4681, 1424, 1424, [])
#eval spineReport C04.corpus { strict := false, proceed := true }   -- (1173, 791, 585, …)

end Bashlex.C05
