/-
  C05, character level, part 3 (stateless): only the newline branch of `_readtoken` delivers a
  token of type NEWLINE: the operators `readtokenMeta` / `tokentype(character)` return for a
  character other than newline, and the tokens `_readtokenword` delivers, have another type.
  Same walks as `C12.sat_finishWord` / `C04.TTP.sat_finishWord_ty`.
-/
import Bashlex.Props.C04.TTTypes

namespace Bashlex.C05.TG
open Bashlex Bashlex.M Bashlex.C12
set_option linter.unusedVariables false
set_option linter.unusedSimpArgs false
set_option linter.tactic.unusedName false

/-- a type other than NEWLINE and EOF -/
def NNty (ty : TokType) : Prop := ty ≠ .NEWLINE ∧ ty ≠ .EOF

/-- a token with a type other than NEWLINE and EOF -/
def NN (t : Token) : Prop := ∃ ty, t.ttype = some ty ∧ NNty ty

theorem ofChar_ne_nl {c : Char} {t : TokType} (h : TokType.ofChar c = some t) (hc : c ≠ '\n') :
    NNty t := by
  unfold TokType.ofChar at h
  split at h <;> first | exact absurd rfl hc | (cases h; exact ⟨by decide, by decide⟩) | cases h

theorem sat_tokentypeOfChar_nn (c : Char) (hc : c ≠ '\n') :
    Sat (tokentypeOfChar c) NNty := by
  unfold tokentypeOfChar
  split
  · rename_i t ht
    exact Sat.pure (ofChar_ne_nl ht hc)
  · exact Sat.foreign trivial

/-- `readtokenMeta` never returns the type NEWLINE for a character other than newline -/
theorem sat_readtokenMeta_nn (c : Char) (hc : c ≠ '\n') :
    Sat (readtokenMeta c) (fun r => ∀ t, r = some t → NNty t) := by
  unfold readtokenMeta
  simp only []
  repeat' (first
    | refine Sat.ite (fun _ => ?_) (fun _ => ?_)
    | exact Sat.foreign trivial
    | exact Sat.raise trivial
    | refine Sat.bind (sat_tokentypeOfChar_nn _ hc) (fun _ _ => ?_)
    | refine Sat.bind_any (fun _ => ?_)
    | refine Sat.pure ?_)
  all_goals (intro t ht; cases ht <;> first | exact ⟨by decide, by decide⟩ | assumption)

theorem nn_mk {t : Token} {ty : TokType} {v : TVal} (h : t.ttype = some ty ∧ t.value = v)
    (h1 : NNty ty) : NN t := ⟨ty, h.1, h1⟩

theorem sat_createtoken_nn {ty : TokType} {v : TVal} {flags : WordFlags} (h1 : NNty ty) :
    Sat (createtoken ty v flags) NN :=
  sat_createtoken.weaken (fun _ h => nn_mk h h1) (fun _ h => h)

theorem nn_wordlike {t : Token} (h : WordLike t) : NN t := by
  rcases h with h | h
  · exact ⟨.WORD, h, by decide, by decide⟩
  · exact ⟨.ASSIGNMENT_WORD, h, by decide, by decide⟩

theorem lookup_nn {s : Str} {ty : TokType}
    (h : List.lookup s reservedFirstCommandChars = some ty) : NNty ty := by
  have hmem := mem_of_lookup h
  have hall : ∀ kv, kv ∈ reservedFirstCommandChars → kv.2 ≠ .NEWLINE ∧ kv.2 ≠ .EOF := by decide
  exact hall _ hmem

theorem special_nn {ty : TokType} (h : ty.strValueChars = none) : NNty ty := by
  constructor <;> (rintro rfl; cases h)

theorem sat_finishWord_nn (st : RWState) : Sat (finishWord st) NN := by
  unfold finishWord
  refine Sat.bind_any (fun _ => ?_)
  extract_lets -underBinder tokenword cIsRedir
  refine Sat.bind_any (fun l => ?_)
  refine Sat.ite (fun _ => sat_createtoken_nn ⟨by decide, by decide⟩) (fun _ => ?_)
  refine Sat.bind (sat_specialcasetokens _) (fun r hr => ?_)
  split
  · exact sat_createtoken_nn (special_nn (hr _ rfl).2.2)
  refine Sat.bind_any (fun l => ?_)
  extract_lets -underBinder jp1
  have key1 : ∀ r, Sat (jp1 r) NN := by
    intro r
    show Sat (_ >>= _) _
    refine Sat.bind sat_createtoken (fun tok htok => ?_)
    have htok' : WordLike tok := Or.inl htok.1
    extract_lets -underBinder jp2 tok1
    have key2 : ∀ r t, WordLike t → Sat (jp2 r t) NN := by
      intro r t ht
      simp -zeta only [jp2]
      extract_lets -underBinder jp3 tok2
      have key3 : ∀ r t, WordLike t → Sat (jp3 r t) NN := by
        intro r t ht
        simp -zeta only [jp3]
        extract_lets -underBinder jp4
        have key4 : ∀ r, Sat (jp4 r) NN := by
          intro r
          simp -zeta only [jp4]
          refine Sat.bind_any (fun l => Sat.bind_any (fun b => ?_))
          extract_lets -underBinder jp5 tok3 tok4 tok5
          have key5 : ∀ r t, WordLike t → Sat (jp5 r t) NN := by
            intro r t ht
            simp -zeta only [jp5]
            extract_lets -underBinder jp6 tok6 jp7 tok7
            have key6 : ∀ r t, WordLike t → Sat (jp6 r t) NN := by
              intro r t ht
              exact Sat.pure (nn_wordlike ht)
            have key7 : ∀ r t, WordLike t → Sat (jp7 r t) NN := by
              intro r t ht
              simp -zeta only [jp7]
              extract_lets -underBinder jp8
              have key8 : ∀ r, Sat (jp8 r) NN := fun r => Sat.pure (nn_wordlike ht)
              jp_leafs key8, ht
            refine Sat.ite (fun _ => Sat.ite (fun h => ?_) (fun _ => key6 () _ ht)) (fun _ => ?_)
            · exfalso; simp [legalIdentifier] at h
            · jp_leafs key7, ht
          jp_leafs key5, ht
        jp_leafs key4, ht
      jp_leafs key3, ht
    jp_leafs key2, htok'
  clear_value jp1
  refine Sat.ite (fun _ => ?_) (fun _ => key1 _)
  split
  · rename_i ttype hlook
    extract_lets -underBinder ps jp9
    have key9 : ∀ r, Sat (jp9 r) NN := fun r => sat_createtoken_nn (lookup_nn hlook)
    jp_leafs key9, key9
  · exact key1 _

theorem sat_readtokenword_nn (c : Char) : Sat (readtokenword c) NN := by
  unfold readtokenword
  exact Sat.bind_any (fun _ => Sat.bind_any (fun st => sat_finishWord_nn st))

end Bashlex.C05.TG
