/-
  C05, character level, part 2: the region `gatherheredocuments` consumes, from C10's reader
  equations (`gather_spec`, `specGather_cons`, `specHeredoc_cursor`): continuation pairs skipped by
  `_peekc`, the body (recorded in the store), the newline of the delimiter line -- repeated for
  every queued redirect.  The ids queued must be distinct (C03's `PendOK`), so that no body
  attached is overwritten.
-/
import Bashlex.Props.C05.TGDefs
import Bashlex.Props.C10
import Bashlex.Props.C03.TokSpans

namespace Bashlex.C05.TG
open Bashlex Bashlex.C04 Bashlex.C10 Bashlex.C11
set_option linter.unusedSimpArgs false
set_option linter.unusedVariables false

/-- what `skipCont` drops is a run of pairs -/
theorem skipCont_del : ∀ (s : Str), ∃ pre, s = pre ++ skipCont s ∧ Del pre []
  | [] => ⟨[], rfl, .nil⟩
  | [c] => ⟨[], rfl, .nil⟩
  | c :: d :: rest => by
    simp only [skipCont]
    split
    · rename_i h
      obtain ⟨rfl, rfl⟩ := h
      obtain ⟨pre, h1, h2⟩ := skipCont_del rest
      refine ⟨'\\' :: '\n' :: pre, ?_, .skip h2⟩
      simp only [List.cons_append, List.cons.injEq, true_and]
      exact h1
    · exact ⟨[], rfl, .nil⟩

theorem slice_of_drop {L pre r : Str} {i : Nat} (hi : i ≤ L.length) (h : L.drop i = pre ++ r) :
    Str.slice L i (i + pre.length) = pre := by
  have hL : L = L.take i ++ (pre ++ r) := by rw [← h, List.take_append_drop]
  unfold Str.slice
  have htake : L.take (i + pre.length) = L.take i ++ pre := by
    conv => lhs; rw [hL, ← List.append_assoc]
    rw [List.take_left' (by simp [List.length_take]; omega)]
  rw [htake, List.drop_left' (by simp [List.length_take]; omega)]

/-- the cursor after the pairs `_peekc` skips, and the text skipped -/
theorem skipContIdx_facts (L : Str) {i : Nat} (hi : i ≤ L.length) :
    i ≤ skipContIdx L i ∧ skipContIdx L i ≤ L.length ∧
      Del (Str.slice L i (skipContIdx L i)) [] := by
  obtain ⟨pre, h1, h2⟩ := skipCont_del (L.drop i)
  have hlen : (L.drop i).length = pre.length + (skipCont (L.drop i)).length := by
    conv => lhs; rw [h1]
    rw [List.length_append]
  rw [List.length_drop] at hlen
  have hx : skipContIdx L i = i + pre.length := by
    unfold skipContIdx posOf; omega
  rw [hx]
  refine ⟨Nat.le_add_right _ _, by omega, ?_⟩
  rw [slice_of_drop hi h1]; exact h2

/-- the line is empty or ends in a newline -/
def LastNL (L : Str) : Prop := L ≠ [] → L.getLast? = some '\n'

/-- what a finished call of `gatherheredocuments` did -/
def GOut (L : Str) (q : List (Nat × Bool)) (store : List RedirCell) (idx : Nat) :
    GatherOutI → Prop
  | .done store' idx' => idx ≤ idx' ∧ idx' ≤ L.length ∧ GReg L store' idx idx' ∧
      ∀ j, j ∉ q.map Prod.fst → store'[j]? = store[j]?
  | .stopped store' _ => GReg L store' idx (L.length + 1) ∧
      ∀ j, j ∉ q.map Prod.fst → store'[j]? = store[j]?
  | _ => True

theorem attach_heredoc (cell : RedirCell) (x y : Nat) (v : Str) :
    (attach cell x y v).heredoc = some ((x, y), v) := rfl

theorem specGather_reg (L : Str) (hl : LastNL L) (strict : Bool) :
    ∀ (q : List (Nat × Bool)) (store : List RedirCell) (idx : Nat), idx ≤ L.length →
      (q.map Prod.fst).Nodup → GOut L q store idx (specGather L strict q store idx)
  | [], store, idx, hi, _ => by
    rw [specGather_nil L strict store hi]
    exact ⟨Nat.le_refl _, hi, GReg.refl _ _ _, fun _ _ => rfl⟩
  | (id, kill) :: q, store, idx, hi, hnd => by
    rw [specGather_cons]
    obtain ⟨k1, k2, k3⟩ := skipContIdx_facts L hi
    have hpre : ∀ st, GReg L st idx (skipContIdx L idx) := fun st p hp1 hp2 _ =>
      Or.inl (posLay_of_skip (Skip.ofBlank (BlankRun.ofDel k1 k2 k3)) hp1 hp2)
    simp only [List.map_cons, List.nodup_cons] at hnd
    obtain ⟨hid, hnd'⟩ := hnd
    split
    · rename_i hstop
      refine ⟨?_, fun _ _ => rfl⟩
      intro p hp1 hp2 hp3
      exact hpre _ p hp1 (by rw [hstop.1]; exact hp3) hp3
    · cases hcell : store[id]? with
      | none => exact True.intro
      | some cell =>
        simp only []
        cases hh : specHeredoc L (skipContIdx L idx) cell.delim kill with
        | none => exact True.intro
        | some w =>
          obtain ⟨v, i⟩ := w
          simp only []
          obtain ⟨c1, c2, c3⟩ := specHeredoc_cursor hh
          have hnlast : L[i - 1]? = some '\n' := by
            rcases c3 with c3 | c3
            · exact c3
            · have hne : L ≠ [] := by
                intro h0; rw [h0] at c2; simp at c2; omega
              rw [c3, ← List.getLast?_eq_getElem?]; exact hl hne
          have ih := specGather_reg L hl strict q
            (store.set id (attach cell (skipContIdx L idx) (i - 1) v)) i c2 hnd'
          have hidlt : id < store.length := (List.getElem?_eq_some_iff.mp hcell).1
          -- the cell `id` of the final store carries the body
          have hbody : ∀ store' : List RedirCell, (∀ j, j ∉ q.map Prod.fst → store'[j]? =
              (store.set id (attach cell (skipContIdx L idx) (i - 1) v))[j]?) →
              GReg L store' idx i := by
            intro store' hfr p hp1 hp2 hp3
            by_cases hpx : p < skipContIdx L idx
            · exact hpre _ p hp1 hpx hp3
            · by_cases hpi : p = i - 1
              · left; left; rw [hpi]; exact hnlast
              · right
                have hc : store'[id]? = some (attach cell (skipContIdx L idx) (i - 1) v) := by
                  rw [hfr id hid, List.getElem?_set_self hidlt]
                exact ⟨_, List.mem_of_getElem? hc, _, _, _, attach_heredoc _ _ _ _,
                  by omega, by omega⟩
          have hframe : ∀ store' : List RedirCell, (∀ j, j ∉ q.map Prod.fst → store'[j]? =
              (store.set id (attach cell (skipContIdx L idx) (i - 1) v))[j]?) →
              ∀ j, j ∉ (id :: q.map Prod.fst) → store'[j]? = store[j]? := by
            intro store' hfr j hj
            simp only [List.mem_cons, not_or] at hj
            rw [hfr j hj.2, List.getElem?_set_ne (Ne.symm hj.1)]
          revert ih
          cases specGather L strict q (store.set id (attach cell (skipContIdx L idx) (i - 1) v)) i with
          | done store' idx' =>
            rintro ⟨d1, d2, d3, d4⟩
            exact ⟨by omega, d2, (hbody store' d4).trans d3, hframe store' d4⟩
          | stopped store' q' =>
            rintro ⟨d1, d2⟩
            exact ⟨(hbody store' d2).trans d1, hframe store' d2⟩
          | eof d => exact fun _ => True.intro
          | badId j => exact fun _ => True.intro

/-! ## the triple -/

theorem tapeOf_gres (l : Local) (e : Env) (i : Nat) (q : List (Nat × Bool))
    (st : List RedirCell) :
    tapeOf ({ atL l e i with redirstack := q, store := st }) (atE l e i) =
      { tapeOf l e with idx := i } := by
  unfold atL atE
  cases l with
  | mk tape => cases tape <;> rfl

theorem gres_eol (l : Local) (e : Env) (i : Nat) (q : List (Nat × Bool)) (st : List RedirCell) :
    ({ atL l e i with redirstack := q, store := st } : Local).eolLookahead = l.eolLookahead := by
  unfold atL
  cases l with
  | mk tape => cases tape <;> rfl

theorem gres_positions (l : Local) (e : Env) (i : Nat) (q : List (Nat × Bool))
    (st : List RedirCell) :
    ({ atL l e i with redirstack := q, store := st } : Local).positions = l.positions := by
  unfold atL
  cases l with
  | mk tape => cases tape <;> rfl

/-- the state after `gatherheredocuments` entered at cursor `c` -/
def GathQ (L : Str) (ps : List Nat) (c : Nat) (l : Local) (e : Env) : Prop :=
  (tapeOf l e).line = L ∧ l.eolLookahead = none ∧ l.positions = ps ∧ c ≤ (tapeOf l e).idx ∧
    GReg L l.store c (tapeOf l e).idx

/-- the line ends in a newline: no final backslash -/
theorem lastNL_nbs {L : Str} (h : LastNL L) : NoFinalBackslash L := by
  unfold NoFinalBackslash
  intro hb
  have hne : L ≠ [] := by intro h0; rw [h0] at hb; cases hb
  rw [h hne] at hb
  cases hb

/-- **`gatherheredocuments`** from an exact cursor `c` inside the line, distinct ids queued:
    the cursor moves forward over a `GReg` region -/
theorem gather_reg {L : Str} {ps : List Nat} {c : Nat} (hl : LastNL L)
    (hlen : L.length < 1073741824) :
    HT (fun l e => (tapeOf l e).line = L ∧ (tapeOf l e).idx = c ∧ c ≤ L.length ∧
          l.eolLookahead = none ∧ l.positions = ps ∧ (l.redirstack.map Prod.fst).Nodup)
      gatherheredocuments (fun _ l e => GathQ L ps c l e) C03.Tok.ET := by
  rintro l e ⟨a1, a2, a3, a4, a5, a6⟩
  have hready : Ready l e :=
    ⟨a4, by rw [a1, a2]; exact a3, by rw [a1]; exact hlen, by rw [a1]; exact lastNL_nbs hl⟩
  rw [gather_spec hready, a1, a2]
  have key := specGather_reg L hl (strictOf l e) l.redirstack l.store c a3 a6
  revert key
  cases specGather L (strictOf l e) l.redirstack l.store c with
  | done store' idx' =>
    rintro ⟨d1, d2, d3, _⟩
    simp only [gatherResultI]
    refine ⟨?_, ?_, ?_, ?_, ?_⟩
    · rw [tapeOf_gres]; exact a1
    · rw [gres_eol]; exact a4
    · rw [gres_positions]; exact a5
    · rw [tapeOf_gres]; exact d1
    · rw [tapeOf_gres]; exact d3
  | stopped store' q' =>
    rintro ⟨d1, _⟩
    simp only [gatherResultI]
    refine ⟨?_, ?_, ?_, ?_, ?_⟩
    · rw [tapeOf_gres]; exact a1
    · rw [gres_eol]; exact a4
    · rw [gres_positions]; exact a5
    · rw [tapeOf_gres]; show c ≤ (tapeOf l e).line.length + 1; rw [a1]; omega
    · rw [tapeOf_gres]; show GReg L store' c ((tapeOf l e).line.length + 1); rw [a1]; exact d1
  | eof d => intro _; simp only [gatherResultI]; exact True.intro
  | badId j => intro _; simp only [gatherResultI]; exact True.intro

end Bashlex.C05.TG
