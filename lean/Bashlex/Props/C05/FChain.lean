/-
  C05, character level, TIGHT form: the line of a parser run, from its start to the tokenizer's
  cursor, is a CHAIN
      Skip  token  Skip  token  …  Skip  token  [regions `gatherheredocuments` consumed]
  in which every `Skip` (a run of blanks / tabs / backslash-newline pairs, optionally a comment up
  to its newline) STARTS WHERE THE PREVIOUS TOKEN ENDS (or where the previous
  `gatherheredocuments` stopped) and ends where the next token starts.

  Why this file exists.  `C05_chars_checked` (`Props/C05Chars.lean`) is a statement per
  POSITION: a position outside the leaves is `PosLay`.  `PosLay L p` is a property of the TEXT
  alone (`∃ a b, a ≤ p < b ∧ Skip L a b`), and it is over-approximate: in `a#b c` the interval
  `[1, 5)` is a `Skip` of the text (an empty blank run, then `#b c` up to the newline), so the
  positions of the word `c` ARE `PosLay` -- the per-position theorem would not notice if the
  token `c` were dropped (witness below, `posLay_overapprox`).  The chain is anchored at the token
  ends, so it has no such slack: what lies between two consecutive tokens IS a `Skip` from the
  end of the first to the start of the second, and `Spec.isLayout` holds of it
  (`C05Chars.skip_isLayout`).

  The regions are TIGHT (`GRegT`, `Props/C05/FT1-3.lean`: per position a newline, the backslash of
  a backslash-newline pair, or a position inside a recorded body).
  The proof reuses the parametric walk `tokLogX` (`Props/C05/TokGapsProof.lean`): only the three
  closure properties `CovOK` have to be shown of the new fact.
-/
import Bashlex.Props.C05Chars
import Bashlex.Props.C05.FT3

namespace Bashlex.C05.TG

theorem Skip.le_len {L : Str} {i a : Nat} (h : Skip L i a) : i ≤ L.length := by
  obtain ⟨m, ⟨h1, h2, _⟩, _⟩ := h
  omega

end Bashlex.C05.TG

namespace Bashlex.C05.TGT
open Bashlex Bashlex.M Bashlex.C10 Bashlex.C11 Bashlex.C03 Bashlex.C03.Tok Bashlex.C04
  Bashlex.C04.TTP Bashlex.C05 Bashlex.C05.TG
set_option linter.unusedSimpArgs false
set_option linter.unusedVariables false

/-- **the chain**: `Chain L st ts c`: the tokens `ts` were delivered, in this order, the cursor is
    at `c`, and the text of the line `L` from 0 to `c` is accounted for (see the header) -/
inductive Chain (L : Str) (st : List RedirCell) : List Token → Nat → Prop
  | nil : Chain L st [] 0
  /-- a token with a type other than NEWLINE, EOF: `Skip` from the cursor to its start -/
  | tok {ts : List Token} {i0 a b : Nat} {t : Token} : Chain L st ts i0 → Skip L i0 a →
      t.pos = some (a, b) → a < b → b ≤ L.length → NN t → Chain L st (ts ++ [t]) b
  /-- a NEWLINE token: it sits on a newline; the rest of its span is what
      `gatherheredocuments` consumed -/
  | nl {ts : List Token} {i0 a b : Nat} {t : Token} : Chain L st ts i0 → Skip L i0 a →
      t.pos = some (a, b) → a < b → t.ttype = some .NEWLINE → L[a]? = some '\n' →
      GRegT L st (a + 1) b → Chain L st (ts ++ [t]) b
  /-- the end of the input -/
  | eof {ts : List Token} {i0 : Nat} : Chain L st ts i0 → Skip L i0 L.length →
      Chain L st (ts ++ [eofTok]) L.length
  /-- `gatherheredocuments` called by `p_simple_list` -/
  | gath {ts : List Token} {c c' : Nat} : Chain L st ts c → c ≤ c' → GRegT L st c c' →
      Chain L st ts c'

theorem Chain.mono {L : Str} {st st' : List RedirCell} {ts : List Token} {c : Nat}
    (h : Chain L st ts c) (hs : ∀ p, InBody st p → InBody st' p) : Chain L st' ts c := by
  induction h with
  | nil => exact .nil
  | tok _ h1 h2 h3 h4 h5 ih => exact .tok ih h1 h2 h3 h4 h5
  | nl _ h1 h2 h3 h4 h5 h6 ih => exact .nl ih h1 h2 h3 h4 h5 (h6.mono hs)
  | eof _ h1 ih => exact .eof ih h1
  | gath _ h1 h2 ih => exact .gath ih h1 (h2.mono hs)

/-- the cursor `c` of the chain is the cursor `i` of the tape, or both are beyond the end of the
    line (the non-strict skip over a missing here-document) -/
def CurRel (L0 : Str) (k c i : Nat) : Prop := (k = 0 ∧ c = i) ∨ (L0.length < c ∧ L0.length < i)

/-- the chain fact about log and state, the line being `L0`: the log is a chain `pre`, followed --
    only when the cursor is beyond the end of the line -- by end-of-input tokens (in a dead state
    `token()` delivers nothing else) -/
def ChainC (L0 : Str) (ts : List Token) (l : Local) (e : Env) : Prop :=
  (tapeOf l e).line = L0 ∧
  (∃ pre k c, ts = pre ++ List.replicate k eofTok ∧ Chain L0 l.store pre c ∧
    CurRel L0 k c (tapeOf l e).idx) ∧
  ((∃ t ∈ ts, t.pos = none) → L0.length ≤ (tapeOf l e).idx)

theorem chainC_live {L0 : Str} {ts : List Token} {l : Local} {e : Env} (h : ChainC L0 ts l e)
    (hi : (tapeOf l e).idx ≤ L0.length) : Chain L0 l.store ts (tapeOf l e).idx := by
  obtain ⟨_, ⟨pre, k, c, h1, h2, h3⟩, _⟩ := h
  rcases h3 with ⟨rfl, rfl⟩ | ⟨_, h3⟩
  · simpa [h1] using h2
  · omega

theorem covOK_chain (L0 : Str) : CovOK (ChainC L0) := by
  refine ⟨?_, ?_, ?_, ?_⟩
  · intro ts t L i0 len f l0 l e0 e hc h1 h2 hg hs
    have c1 := hc.1
    have c3 := hc.2.2
    have hL : L = L0 := by rw [← h1]; exact c1
    subst hL
    obtain ⟨g1, _, _, hcase⟩ := hg
    have hmono : ∀ p, InBody l0.store p → InBody l.store p := fun p h => inBody_storeStep h hs
    have hi0 : i0 ≤ L.length := by
      rcases hcase with ⟨_, hsk, _⟩ | ⟨a, _, _, hsk, _⟩ <;> exact hsk.le_len
    have hch := (chainC_live hc (by rw [h2]; exact hi0)).mono hmono
    rw [h2] at hch
    refine ⟨g1, ⟨ts ++ [t], 0, (tapeOf l e).idx, by simp, ?_, Or.inl ⟨rfl, rfl⟩⟩, ?_⟩
    · rcases hcase with ⟨rfl, hsk, hi⟩ | ⟨a, hpos, hak, hsk, hty⟩
      · rw [hi]
        exact .eof hch hsk
      · rcases hty with ⟨hnl, hLa, hreg⟩ | ⟨hnn, hle⟩
        · exact .nl hch hsk hpos hak hnl hLa hreg
        · exact .tok hch hsk hpos hak hle hnn
    · rintro ⟨t', ht', hpos'⟩
      rcases hcase with ⟨_, _, hidx⟩ | ⟨a, hpos, hak, hsk, _⟩
      · rw [hidx]; exact Nat.le_refl _
      · rcases List.mem_append.mp ht' with ht' | ht'
        · have := c3 ⟨t', ht', hpos'⟩
          have := hsk.le
          rw [h2] at *
          omega
        · simp only [List.mem_singleton] at ht'
          subst ht'
          rw [hpos] at hpos'; cases hpos'
  · intro ts L c len f l0 l e0 e hc h1 h2 hcL hg hs
    have c1 := hc.1
    have c3 := hc.2.2
    have hL : L = L0 := by rw [← h1]; exact c1
    subst hL
    obtain ⟨g1, _, _, g4, g5⟩ := hg
    have hmono : ∀ p, InBody l0.store p → InBody l.store p := fun p h => inBody_storeStep h hs
    have hch := (chainC_live hc (by rw [h2]; exact hcL)).mono hmono
    rw [h2] at hch
    refine ⟨g1, ⟨ts, 0, (tapeOf l e).idx, by simp, .gath hch g4 g5, Or.inl ⟨rfl, rfl⟩⟩, fun hx => ?_⟩
    have := c3 hx
    rw [h2] at *
    omega
  · intro ts l0 l e0 e hc h1 h2 h3
    obtain ⟨c1, ⟨pre, k, c, d1, d2, d3⟩, c3⟩ := hc
    refine ⟨by rw [h1]; exact c1, ⟨pre, k, c, d1, d2.mono h3, ?_⟩, fun hx => ?_⟩
    · rcases h2 with h2 | ⟨h2a, h2b⟩
      · rw [h2]; exact d3
      · rw [c1] at h2a h2b
        rcases d3 with ⟨_, rfl⟩ | ⟨d3, _⟩
        · exact Or.inr ⟨h2a, h2b⟩
        · exact Or.inr ⟨d3, h2b⟩
    · rcases h2 with h2 | ⟨_, h2⟩
      · rw [h2]; exact c3 hx
      · rw [c1] at h2; exact Nat.le_of_lt h2
  · intro ts l0 l e0 e hc h1 h2 h3
    obtain ⟨c1, ⟨pre, k, c, d1, d2, d3⟩, c3⟩ := hc
    obtain ⟨h2a, h2b⟩ := h2
    rw [c1] at h2a h2b
    refine ⟨by rw [h1]; exact c1, ⟨pre, k + 1, c, ?_, d2.mono h3, ?_⟩, fun _ => Nat.le_of_lt h2b⟩
    · rw [d1, List.replicate_succ', List.append_assoc]
    · rcases d3 with ⟨_, rfl⟩ | ⟨d3, _⟩
      · exact Or.inr ⟨h2a, h2b⟩
      · exact Or.inr ⟨d3, h2b⟩

/-- the consumed tokens (none is the end-of-input token) and the look-ahead, or the consumed
    tokens alone, are the chain -/
theorem chainC_split {L0 : Str} {ts la : List Token} {l : Local} {e : Env}
    (h : ChainC L0 (ts ++ la) l e) (hno : ∀ t ∈ ts, t.ttype ≠ some .EOF) (hla : la.length ≤ 1) :
    ∃ la' c, (la' = la ∨ la' = []) ∧ Chain L0 l.store (ts ++ la') c ∧
      (c = (tapeOf l e).idx ∨ (L0.length < c ∧ L0.length < (tapeOf l e).idx)) := by
  obtain ⟨_, ⟨pre, k, c, h1, h2, h3⟩, _⟩ := h
  have hcur : c = (tapeOf l e).idx ∨ (L0.length < c ∧ L0.length < (tapeOf l e).idx) := by
    rcases h3 with ⟨_, h⟩ | h
    · exact Or.inl h
    · exact Or.inr h
  cases k with
  | zero =>
    refine ⟨la, c, Or.inl rfl, ?_, hcur⟩
    rw [h1]; simpa using h2
  | succ k =>
    rw [List.replicate_succ', ← List.append_assoc] at h1
    cases la with
    | nil =>
      exfalso
      simp only [List.append_nil] at h1
      exact hno eofTok (by rw [h1]; simp) rfl
    | cons x xs =>
      have hxs : xs = [] := by
        cases xs with
        | nil => rfl
        | cons _ _ => simp at hla
      subst hxs
      obtain ⟨h4, _⟩ := List.append_inj' h1 rfl
      cases k with
      | zero =>
        refine ⟨[], c, Or.inr rfl, ?_, hcur⟩
        rw [List.append_nil, h4]; simpa using h2
      | succ k =>
        exfalso
        exact hno eofTok (by rw [h4]; simp [List.replicate_succ]) rfl

/-- **the logged ghost invariant with the chain, the line pinned** -/
def TLogCh (L0 : Str) : List Token → Nat → Nat → Local → Env → Prop := TLogX (ChainC L0)

/-- **`TokLog` (without `init`) holds of the real tokenizer with the chain** -/
theorem tokLogCh (L0 : Str) : TokLogC (TLogCh L0) := tokLogX (covOK_chain L0)

theorem tokLogCh_init (s : Str) (l : Local) (e : Env) (hi : InitState s l e) :
    TLogCh (Tape.ofInput s).line [] s.length 0 l e := by
  refine ⟨tokLog.init s l e hi, fun _ => ?_⟩
  have ht := initState_tape hi
  have hc : CurRel (Tape.ofInput s).line 0 0 (tapeOf l e).idx :=
    Or.inl ⟨rfl, by rw [ht, ofInput_idx]⟩
  refine ⟨by rw [ht], ⟨[], 0, 0, rfl, .nil, hc⟩, ?_⟩
  rintro ⟨t, ht', _⟩; cases ht'

end Bashlex.C05.TGT

namespace Bashlex.C05
open Bashlex Bashlex.Spec Bashlex.Node Bashlex.M Bashlex.LR Bashlex.C12 Bashlex.C03
  Bashlex.C03.Tok Bashlex.C10 Bashlex.C11 Bashlex.C05.TG Bashlex.C05.TGT
set_option linter.unusedSimpArgs false
set_option linter.unusedVariables false

section
attribute [local instance] C16.stdEnvRel

theorem npSpans_Ch (L0 : Str) (tr : List Token) (d : Nat) :
    NPSpans (TLs (TLogCh L0) tr) (npK true (parserRunK d)) := by
  intro s b len F st
  rintro l e ⟨htl, hst⟩
  obtain ⟨⟨⟨hti, hdel⟩, hcov⟩, hsorted⟩ := htl
  have h := npSpans_npK d (parserRunK_spans d) s b len F st l e ⟨hti, hst⟩
  have hf := npK_frame d s b l e
  revert h hf
  rcases M.run (npK true (parserRunK d) s b) l e with ⟨r, e'⟩
  cases r with
  | error x => intro _ _; exact True.intro
  | ok v =>
    obtain ⟨r, l'⟩ := v
    rintro ⟨⟨h1, h2⟩, h3⟩ ⟨f1, f2⟩
    refine ⟨⟨⟨⟨⟨h1, hdel⟩, fun hlen => ?_⟩, hsorted⟩, h2⟩, h3⟩
    exact (covOK_chain L0).same (hcov hlen) (by rw [f1]) (Or.inl (by rw [f1]))
      (fun p h => by rw [f2]; exact h)

end

/-- the chain invariant of the run over `s0` -/
def TLrunCh (s0 : Str) : List Token → Nat → Nat → Local → Env → Prop :=
  TLs (TLogCh (Tape.ofInput s0).line)

theorem tokLogC_runCh (s0 : Str) : TokLogC (TLrunCh s0) := (tokLogCh _).sorted

theorem tlrunCh_init (s0 : Str) (l : Local) (e : Env) (hi : InitState s0 l e) :
    TLrunCh s0 [] s0.length 0 l e :=
  ⟨tokLogCh_init s0 l e hi, ⟨⟨List.Pairwise.nil, fun t ht => by cases ht⟩, fun t ht => by cases ht⟩⟩

/-- the parts of `parse`, each with the chain invariant of its run -/
theorem C05_parts_chain (s : Str) (o : Opts) (parts : List Node)
    (hc : C03.rootEndsChecked s o = true) (h : (parse s o).1 = .parts parts) :
    PartsC TLrunCh s 0 parts :=
  parseK_leavesC tokLogC_runCh (fun s0 tr d => npSpans_Ch _ tr d) tlrunCh_init s o parts
    (C03.parseK_of_checked hc h)

/-- what is known of one run, in chain form: the consumed tokens `ts` cover the leaves of the
    tree group by group (`FCovers`, token level); `ts` and at most one look-ahead token are ALL
    the tokens delivered; and the line up to the cursor `B` is the chain of these tokens
    (unless the cursor left the line: the non-strict skip over a missing here-document) -/
def ChainOK (s0 : Str) (n : Node) : Prop :=
  ∃ (ts la : List Token) (B : Nat) (st : List RedirCell),
    la.length ≤ 1 ∧ NoEOF ts ∧ TokSorted ts ∧ FCovers s0.length ts (Spec.leaves n) ∧
    (∃ la' c, (la' = la ∨ la' = []) ∧ Chain (Tape.ofInput s0).line st (ts ++ la') c ∧
      (c = B ∨ ((Tape.ofInput s0).line.length < c ∧ (Tape.ofInput s0).line.length < B))) ∧
    ((∃ t ∈ la, t.pos = none) → (Tape.ofInput s0).line.length ≤ B)

theorem runOK_chain {s0 : Str} {n : Node} (hlen : s0.length + 1 < 1073741824)
    (h : RunOK (TLrunCh s0) s0 n) : ChainOK s0 n := by
  obtain ⟨_, ts, la, F, l, e, ⟨htl, hsort⟩, hla, hno, hcv⟩ := h
  have hs : TokSorted ts := by
    have := hsort.1
    rw [List.filter_append, filter_noEOF hno] at this
    exact this.append.1
  obtain ⟨_, hcov⟩ := htl
  have hcc := hcov hlen
  have heof := hcc.2.2
  refine ⟨ts, la, (tapeOf l e).idx, l.store, hla, hno, hs, hcv, chainC_split hcc hno hla, ?_⟩
  rintro ⟨t, ht, hp⟩
  exact heof ⟨t, List.mem_append_right _ ht, hp⟩

/-- **C05, character level, tight (chain) form, `parse`, for the real tokenizer** -/
theorem C05_chain_checked (s : Str) (o : Opts) (parts : List Node)
    (hlen : s.length + 1 < 1073741824)
    (hc : C03.rootEndsChecked s o = true) (h : (parse s o).1 = .parts parts) :
    ∀ part ∈ parts, ∃ k n, k ≤ s.length ∧ part = n.shift k ∧
      Spec.leaves part = (Spec.leaves n).map (shL k) ∧ ChainOK (s.drop k) n := by
  intro part hp
  obtain ⟨k, n, _, hk, rfl, hrun⟩ := (C05_parts_chain s o parts hc h).mem part hp
  refine ⟨k, n, hk, rfl, leaves_shift k n, runOK_chain ?_ hrun⟩
  rw [List.length_drop]; omega

end Bashlex.C05

#print axioms Bashlex.C05.TGT.tokLogCh
#print axioms Bashlex.C05.C05_chain_checked
