/-
  C05, part 1: leaves of a tree that may still hold pending here-document redirects (`aleaves`),
  their concretisation against the redirect store (`conc`, `leaves_resolve`: the link to
  `Spec.leaves` of the resolved tree), and the relation "this token sequence is accounted for by
  this leaf sequence" (`Covers`), built from *groups*:

    leaf    one token, one leaf at the token's span
    drop    one token (a NEWLINE), no leaf
    redir   `[fd] op target`, ONE leaf from the start of the first token to the end of the target
    here    the same for `<<` / `<<-`: a pending redirect
    d19     the tokens of a `time` specification, one leaf at (0, 0) (defect D19)
-/
import Bashlex.Props.C03

namespace Bashlex.C05
open Bashlex Bashlex.Spec Bashlex.Node
set_option linter.unusedSimpArgs false
set_option linter.unusedVariables false

/-! ## leaves with pending redirects -/

inductive ALeaf where
  /-- a leaf with a final span; `body`: it is (or holds) a here-document body -/
  | plain (p : Span) (body : Bool)
  /-- a here-document redirect whose final span and body live in cell `id` of the store -/
  | pend (id : Nat) (p : Span) (h : Option Span)
  deriving DecidableEq, Repr

/-- `Spec.leaves` on a redirect at `p` with a body at `h` -/
def redirLeaves (p : Span) (h : Option Span) : List (Span × Bool) :=
  match h with
  | some b => if spanIn b p then [(p, true)] else [(p, false), (b, true)]
  | none => [(p, false)]

def plainOf (x : Span × Bool) : ALeaf := .plain x.1 x.2

mutual
def aleaves : Node → List ALeaf
  | .operator p _ | .reservedword p _ | .pipe p _ => [.plain p false]
  | .word p _ _ | .assignment p _ _ => [.plain p false]
  | .parameter p _ | .tilde p _ => [.plain p false]
  | .heredoc p _ => [.plain p true]
  | .commandsubstitution p _ | .processsubstitution p _ => [.plain p false]
  | .redirect p _ _ _ _ h none => (redirLeaves p (h.map Node.pos)).map plainOf
  | .redirect p _ _ _ _ h (some id) => [.pend id p (h.map Node.pos)]
  | .list _ ps | .pipeline _ ps | .ifN _ ps | .forN _ ps | .whileN _ ps | .untilN _ ps
  | .caseN _ ps | .pattern _ ps | .command _ ps | .unimplemented _ ps | .function _ _ _ ps =>
    aleavesL ps
  | .compound _ l r => aleavesL l ++ aleavesL r
def aleavesL : List Node → List ALeaf
  | [] => []
  | n :: ns => aleaves n ++ aleavesL ns
end

theorem aleavesL_append : ∀ (a b : List Node), aleavesL (a ++ b) = aleavesL a ++ aleavesL b
  | [], b => by simp [aleavesL]
  | n :: ns, b => by simp [aleavesL, aleavesL_append ns b, List.append_assoc]

@[simp] theorem aleavesL_nil : aleavesL [] = [] := by simp [aleavesL]
@[simp] theorem aleavesL_cons (n : Node) (ns : List Node) :
    aleavesL (n :: ns) = aleaves n ++ aleavesL ns := by simp [aleavesL]
theorem aleavesL_single (n : Node) : aleavesL [n] = aleaves n := by simp

/-- the final leaves of an abstract leaf, given the store -/
def conc (st : List RedirCell) : ALeaf → List (Span × Bool)
  | .plain p b => [(p, b)]
  | .pend id p h =>
    match st[id]? with
    | some c => redirLeaves c.pos (c.heredoc.map (·.1))
    | none => redirLeaves p h

theorem leaves_redirect (p : Span) (i : RedirIn) (t : Str) (o : Option Node) (oa : RedirIn)
    (h : Option Node) (hid : Option Nat) :
    leaves (.redirect p i t o oa h hid) = redirLeaves p (h.map Node.pos) := by
  cases h <;> simp [leaves, redirLeaves]

theorem flatMap_conc_plain (st : List RedirCell) (l : List (Span × Bool)) :
    (l.map plainOf).flatMap (conc st) = l := by
  induction l with
  | nil => rfl
  | cons x xs ih =>
    simp only [List.map_cons, List.flatMap_cons, ih]
    rfl

mutual
/-- **`Spec.leaves` of the resolved tree** = the abstract leaves, concretised against the store -/
theorem leaves_resolve (st : List RedirCell) :
    (n : Node) → leaves (resolve st n) = (aleaves n).flatMap (conc st)
  | .operator .. | .reservedword .. | .pipe .. | .word .. | .assignment .. | .parameter ..
  | .tilde .. | .heredoc .. | .commandsubstitution .. | .processsubstitution .. => by
    simp [resolve, leaves, aleaves, conc]
  | .list _ ps | .pipeline _ ps | .ifN _ ps | .forN _ ps | .whileN _ ps | .untilN _ ps
  | .caseN _ ps | .pattern _ ps | .command _ ps | .unimplemented _ ps | .function _ _ _ ps => by
    simp only [resolve, leaves, aleaves]
    exact leavesL_resolve st ps
  | .compound _ l r => by
    simp only [resolve, leaves, aleaves, List.flatMap_append]
    rw [leavesL_resolve st l, leavesL_resolve st r]
  | .redirect p i t o oa h none => by
    simp only [resolve, aleaves]
    rw [leaves_redirect, flatMap_conc_plain]
  | .redirect p i t o oa h (some id) => by
    simp only [resolve, aleaves, List.flatMap_cons, List.flatMap_nil, List.append_nil, conc]
    cases hs : st[id]? with
    | none => simp only []; rw [leaves_redirect]
    | some c =>
      simp only []
      rw [leaves_redirect]
      congr 1
      cases c.heredoc <;> rfl
theorem leavesL_resolve (st : List RedirCell) :
    (l : List Node) → leavesL (resolveL st l) = (aleavesL l).flatMap (conc st)
  | [] => by simp [resolveL, leavesL]
  | n :: ns => by
    simp only [resolveL, leavesL, aleavesL_cons, List.flatMap_append]
    rw [leaves_resolve st n, leavesL_resolve st ns]
end

/-! ## pending leaves come from pending redirects of the tree -/

mutual
theorem pend_mem (id : Nat) (p : Span) (h : Option Span) :
    (n : Node) → ALeaf.pend id p h ∈ aleaves n → ∃ m ∈ n.preorder, C03.pendOf m = some (id, p)
  | .operator .. | .reservedword .. | .pipe .. | .word .. | .assignment .. | .parameter ..
  | .tilde .. | .heredoc .. | .commandsubstitution .. | .processsubstitution .. => by
    intro hm; simp [aleaves] at hm
  | .list q ps | .pipeline q ps | .ifN q ps | .forN q ps | .whileN q ps | .untilN q ps
  | .caseN q ps | .pattern q ps | .command q ps | .unimplemented q ps | .function q _ _ ps => by
    intro hm
    simp only [aleaves] at hm
    obtain ⟨m, hm1, hm2⟩ := pend_memL id p h ps hm
    exact ⟨m, by simp [preorder, hm1], hm2⟩
  | .compound q l r => by
    intro hm
    simp only [aleaves, List.mem_append] at hm
    rcases hm with hm | hm
    · obtain ⟨m, hm1, hm2⟩ := pend_memL id p h l hm
      exact ⟨m, by simp [preorder, hm1], hm2⟩
    · obtain ⟨m, hm1, hm2⟩ := pend_memL id p h r hm
      exact ⟨m, by simp [preorder, hm1], hm2⟩
  | .redirect q i t o oa hd none => by
    intro hm
    simp only [aleaves, List.mem_map] at hm
    obtain ⟨x, _, hx⟩ := hm
    cases hx
  | .redirect q i t o oa hd (some id') => by
    intro hm
    simp only [aleaves, List.mem_singleton, ALeaf.pend.injEq] at hm
    obtain ⟨rfl, rfl, _⟩ := hm
    exact ⟨_, C12.self_mem_preorder _, rfl⟩
theorem pend_memL (id : Nat) (p : Span) (h : Option Span) :
    (l : List Node) → ALeaf.pend id p h ∈ aleavesL l →
      ∃ m ∈ preorderL l, C03.pendOf m = some (id, p)
  | [] => by intro hm; simp at hm
  | n :: ns => by
    intro hm
    simp only [aleavesL_cons, List.mem_append] at hm
    rcases hm with hm | hm
    · obtain ⟨m, hm1, hm2⟩ := pend_mem id p h n hm
      exact ⟨m, by simp [preorderL, hm1], hm2⟩
    · obtain ⟨m, hm1, hm2⟩ := pend_memL id p h ns hm
      exact ⟨m, by simp [preorderL, hm1], hm2⟩
end

/-! ## tokens -/

def tokSpan (t : Token) : Span := (t.lexpos, t.endlexpos)

/-- the tokens that may be consumed without leaving a leaf: NEWLINE.  (A token without a type
    would be shifted as the `error` terminal and dropped by `inputunit : error NEWLINE`; the
    tokenizer delivers no such token, but that is not needed here.) -/
def Droppable (t : Token) : Prop := t.ttype = some .NEWLINE ∨ t.ttype = none

/-- no end-of-input token (they are never consumed) -/
def NoEOF (ts : List Token) : Prop := ∀ t ∈ ts, t.ttype ≠ some .EOF

def isTimeTy (ty : TokType) : Bool := ty == .TIME || ty == .TIMEOPT || ty == .TIMEIGN
def IsTimeTok (t : Token) : Prop := ∃ ty, t.ttype = some ty ∧ isTimeTy ty = true

/-- is `ty` a redirection operator other than the here-document operators -/
def RedirTok (t : Token) : Prop := ∃ ty, t.ttype = some ty ∧ C12.isRedirOp ty = true
def HereTok (t : Token) : Prop := ∃ ty, t.ttype = some ty ∧ C12.isHereOp ty = true
def FdTok (t : Token) : Prop := t.ttype = some .NUMBER ∨ t.ttype = some .REDIR_WORD

/-- one group of consecutive tokens and the leaves it accounts for -/
inductive Group : List Token → List ALeaf → Prop
  | leaf (t : Token) : Group [t] [.plain (tokSpan t) false]
  | drop (t : Token) : Droppable t → Group [t] []
  | redir2 (op tgt : Token) : RedirTok op → Group [op, tgt] [.plain (op.lexpos, tgt.endlexpos) false]
  | redir3 (fd op tgt : Token) : FdTok fd → RedirTok op →
      Group [fd, op, tgt] [.plain (fd.lexpos, tgt.endlexpos) false]
  | here2 (op tgt : Token) (id : Nat) : HereTok op →
      Group [op, tgt] [.pend id (op.lexpos, tgt.endlexpos) none]
  | here3 (fd op tgt : Token) (id : Nat) : FdTok fd → HereTok op →
      Group [fd, op, tgt] [.pend id (fd.lexpos, tgt.endlexpos) none]
  | d19 (ts : List Token) : ts ≠ [] → (∀ t ∈ ts, IsTimeTok t) → Group ts [.plain (0, 0) false]

/-- `Covers ts ls`: the token sequence `ts` splits into groups whose leaves, concatenated, are
    `ls`: no token is dropped (other than a NEWLINE) or duplicated, no leaf is invented -/
inductive Covers : List Token → List ALeaf → Prop
  | nil : Covers [] []
  | cons {ts ls ts' ls'} : Group ts ls → Covers ts' ls' → Covers (ts ++ ts') (ls ++ ls')

theorem Covers.group {ts ls} (h : Group ts ls) : Covers ts ls := by
  have := Covers.cons h Covers.nil
  simpa using this

theorem Covers.append {ts ls ts' ls'} (h : Covers ts ls) (h' : Covers ts' ls') :
    Covers (ts ++ ts') (ls ++ ls') := by
  induction h with
  | nil => simpa using h'
  | cons hg _ ih =>
    rw [List.append_assoc, List.append_assoc]
    exact Covers.cons hg ih

theorem Covers.leaf (t : Token) : Covers [t] [.plain (tokSpan t) false] := Covers.group (.leaf t)
theorem Covers.drop {t : Token} (h : Droppable t) : Covers [t] [] := Covers.group (.drop t h)

theorem Covers.cast {ts ts' ls ls'} (h : Covers ts ls) (h1 : ts = ts') (h2 : ls = ls') :
    Covers ts' ls' := by subst h1; subst h2; exact h

/-- all tokens dropped -/
theorem covers_dropAll : ∀ {ts : List Token}, (∀ t ∈ ts, Droppable t) → Covers ts []
  | [], _ => .nil
  | t :: ts, h => by
    have := Covers.append (Covers.drop (h t List.mem_cons_self))
      (covers_dropAll (fun t' ht' => h t' (List.mem_cons_of_mem _ ht')))
    simpa using this

/-! ## the final relation, on `Spec.leaves` of the resolved tree -/

/-- what is known of the final span `p'` and body `h'` of a here-document redirect created at
    `p`: the body lies after `p` within the input; the span is `p`, or -- with a body -- starts
    where `p` starts and was extended to the right -/
def HereOK (len : Nat) (p p' : Span) (h' : Option Span) : Prop :=
  (∀ x y, h' = some (x, y) → p.2 ≤ x ∧ x < y ∧ y ≤ len) ∧
  (p' = p ∨ (h'.isSome = true ∧ p'.1 = p.1 ∧ p.2 ≤ p'.2 ∧ p'.2 ≤ len))

inductive FGroup (len : Nat) : List Token → List (Span × Bool) → Prop
  | leaf (t : Token) : FGroup len [t] [(tokSpan t, false)]
  | drop (t : Token) : Droppable t → FGroup len [t] []
  | redir2 (op tgt : Token) : RedirTok op → FGroup len [op, tgt] [((op.lexpos, tgt.endlexpos), false)]
  | redir3 (fd op tgt : Token) : FdTok fd → RedirTok op →
      FGroup len [fd, op, tgt] [((fd.lexpos, tgt.endlexpos), false)]
  | here2 (op tgt : Token) (p' : Span) (h' : Option Span) : HereTok op →
      HereOK len (op.lexpos, tgt.endlexpos) p' h' → FGroup len [op, tgt] (redirLeaves p' h')
  | here3 (fd op tgt : Token) (p' : Span) (h' : Option Span) : FdTok fd → HereTok op →
      HereOK len (fd.lexpos, tgt.endlexpos) p' h' → FGroup len [fd, op, tgt] (redirLeaves p' h')
  | d19 (ts : List Token) : ts ≠ [] → (∀ t ∈ ts, IsTimeTok t) → FGroup len ts [((0, 0), false)]

/-- **the token-level statement of C05** about a returned tree with leaves `ls` and the consumed
    token sequence `ts` -/
inductive FCovers (len : Nat) : List Token → List (Span × Bool) → Prop
  | nil : FCovers len [] []
  | cons {ts ls ts' ls'} : FGroup len ts ls → FCovers len ts' ls' →
      FCovers len (ts ++ ts') (ls ++ ls')

theorem hereOK_of_done {len g : Nat} {st : List RedirCell} {id : Nat} {p : Span}
    (h : ∀ c, st[id]? = some c → C03.DoneCell len g p c) :
    ∃ p' h', conc st (.pend id p none) = redirLeaves p' h' ∧ HereOK len p p' h' := by
  simp only [conc]
  cases hs : st[id]? with
  | none =>
    exact ⟨p, none, rfl, (by intro x y hx; cases hx), Or.inl rfl⟩
  | some c =>
    obtain ⟨hb, hp⟩ := h c hs
    refine ⟨c.pos, c.heredoc.map (·.1), rfl, ?_, ?_⟩
    · intro x y hx
      cases hh : c.heredoc with
      | none => rw [hh] at hx; cases hx
      | some b =>
        obtain ⟨⟨x', y'⟩, v⟩ := b
        rw [hh] at hx
        simp only [Option.map_some, Option.some.injEq, Prod.mk.injEq] at hx
        obtain ⟨rfl, rfl⟩ := hx
        exact hb x' y' v hh
    · rcases hp with hp | ⟨h1, h2, h3, h4, _⟩
      · exact Or.inl hp
      · refine Or.inr ⟨?_, h2, h3, h4⟩
        cases hh : c.heredoc with
        | none => rw [hh] at h1; cases h1
        | some b => rfl

/-- from the abstract to the final relation, given what `Done` says of the pending redirects -/
theorem fcovers_of_covers {len g : Nat} {st : List RedirCell} {ts : List Token} {ls : List ALeaf}
    (h : Covers ts ls)
    (hp : ∀ id p hh, ALeaf.pend id p hh ∈ ls → ∀ c, st[id]? = some c → C03.DoneCell len g p c) :
    FCovers len ts (ls.flatMap (conc st)) := by
  induction h with
  | nil => exact .nil
  | @cons ts1 ls1 ts2 ls2 hg _ ih =>
    rw [List.flatMap_append]
    refine FCovers.cons ?_ (ih (fun id p hh hm => hp id p hh (List.mem_append_right _ hm)))
    cases hg with
    | leaf t => exact .leaf t
    | drop t hd => exact .drop t hd
    | redir2 op tgt h1 => exact .redir2 op tgt h1
    | redir3 fd op tgt h0 h1 => exact .redir3 fd op tgt h0 h1
    | here2 op tgt id h1 =>
      obtain ⟨p', h', he, hok⟩ := hereOK_of_done
        (hp id (op.lexpos, tgt.endlexpos) none (List.mem_append_left _ (by simp)))
      simp only [List.flatMap_cons, List.flatMap_nil, List.append_nil]
      rw [he]
      exact .here2 op tgt p' h' h1 hok
    | here3 fd op tgt id h0 h1 =>
      obtain ⟨p', h', he, hok⟩ := hereOK_of_done
        (hp id (fd.lexpos, tgt.endlexpos) none (List.mem_append_left _ (by simp)))
      simp only [List.flatMap_cons, List.flatMap_nil, List.append_nil]
      rw [he]
      exact .here3 fd op tgt p' h' h0 h1 hok
    | d19 _ hne ht => exact .d19 _ hne ht

end Bashlex.C05
